(* C08 — kMinPathError for NODE-weighted input, in the caller's terms (NodeErrE2E.v).  Only Theorem / exact / Print Assumptions and a
   non-vacuity Example.  node_kmpe_choice V E fq sc ign isint k Pn w sl: Pn 0 .. Pn (k-1) are source-to-sink paths of the caller's
   DAG, w and sl non-negative weights and per-path slacks of the requested type, and on every counting node v
   | sc v * (fq v - sum of the weights of the paths through v) | <= sum of the slacks of the paths through v.
   node_kmpe_inst: the instance node mode hands to the edge model (see Props/C07_node.v). *)
From Coq Require Import List NArith ZArith QArith Bool Arith Lia.
Import ListNotations.
From FP Require Import Lin PathEnc EndToEnd1 ErrEnc DilworthNode NodeErrE2E.

(* the optimal objective = the least total slack of any choice of k paths of the CALLER's graph, weights and slacks (bounded by the
   model's w_max or not) *)
Theorem C08_node_kmpe_optimal : forall (V : list node) (E : list PathEnc.edge) (s t : node) (topo : list node) (fq sc : node -> Q)
    (ign : list node) (isint : bool) (k : nat),
  ~ In s (expV V) -> ~ In t (expV V) -> s <> t -> (forall e, In e E -> In (fst e) V /\ In (snd e) V) -> NoDup V -> NoDup E ->
  (forall u v, In (u, v) E -> (posn topo u < posn topo v)%nat) -> incl V topo ->
  forall a : var -> Q, node_domain1 V fq sc ign isint k ->
  let M := node_kmpe_inst V E s t fq sc ign isint k in
  sat a (encode_kmpe M) -> (forall b, sat b (encode_kmpe M) -> (objective a (encode_kmpe M) <= objective b (encode_kmpe M))%Q) ->
  (exists Pn w sl, node_kmpe_choice V E fq sc ign isint k Pn w sl /\ (sumq sl (layers k) == objective a (encode_kmpe M))%Q) /\
  (forall Pn w sl, node_kmpe_choice V E fq sc ign isint k Pn w sl -> (objective a (encode_kmpe M) <= sumq sl (layers k))%Q).
Proof. exact node_kmpe_optimal. Qed.
Print Assumptions C08_node_kmpe_optimal.

(* the model is feasible iff a choice within the model's bound node_wmax = k * weight_type(largest counting node weight) exists *)
Theorem C08_node_kmpe_feasible_iff : forall (V : list node) (E : list PathEnc.edge) (s t : node) (topo : list node) (fq sc : node -> Q)
    (ign : list node) (isint : bool) (k : nat),
  ~ In s (expV V) -> ~ In t (expV V) -> s <> t -> (forall e, In e E -> In (fst e) V /\ In (snd e) V) -> NoDup V -> NoDup E ->
  (forall u v, In (u, v) E -> (posn topo u < posn topo v)%nat) -> incl V topo ->
  ((exists a, sat a (encode_kmpe (node_kmpe_inst V E s t fq sc ign isint k))) <->
   (exists Pn w sl, node_kmpe_choice_bounded V E fq sc ign isint k Pn w sl)).
Proof. exact node_kmpe_feasible_iff. Qed.
Print Assumptions C08_node_kmpe_feasible_iff.

(* non-vacuity: the path 1 -> 2 with node weights 3, 5, scaling 1, k = 1: a choice with total slack 1 exists (weight 4, slack 1) and
   every choice has total slack >= 1 *)
Example C08_node_premises_satisfiable :
  NoDup exV /\ NoDup exE /\ (forall e, In e exE -> In (fst e) exV /\ In (snd e) exV) /\
  (forall u v, In (u, v) exE -> (posn exV u < posn exV v)%nat) /\ incl exV exV /\
  ~ In 100%N (expV exV) /\ ~ In 101%N (expV exV) /\ 100%N <> 101%N /\
  node_domain1 exV exfq exsc [] false 1 /\
  node_kmpe_choice exV exE exfq exsc [] false 1 exPn (fun _ => 4%Q) (fun _ => 1%Q) /\
  (forall Pn w sl, node_kmpe_choice exV exE exfq exsc [] false 1 Pn w sl -> (1 <= sumq sl (layers 1))%Q).
Proof. exact ex_c08_premises. Qed.
Print Assumptions C08_node_premises_satisfiable.

(* ---------------------------------------------------------------------------------------------------------------------------------- *)
(* WITH additional_starts / additional_ends (NodeErrST.v): as in Props/C07_node.v; S = T = [] gives back the statements above
   (C08_node_choice_without_starts_ends). *)
From FP Require Import NodeFlowST NodeErrST.

Theorem C08_node_kmpe_optimal_with_starts_ends : forall (V : list node) (E : list PathEnc.edge) (S T : list node) (s t : node) (topo : list node)
    (fq sc : node -> Q) (ign : list node) (isint : bool) (k : nat),
  ~ In s (expV V) -> ~ In t (expV V) -> s <> t -> (forall e, In e E -> In (fst e) V /\ In (snd e) V) -> NoDup V -> NoDup E ->
  (forall u v, In (u, v) E -> (posn topo u < posn topo v)%nat) -> incl V topo ->
  forall a : var -> Q, node_domain1 V fq sc ign isint k ->
  let M := node_kmpe_instST V E S T s t fq sc ign isint k in
  sat a (encode_kmpe M) -> (forall b, sat b (encode_kmpe M) -> (objective a (encode_kmpe M) <= objective b (encode_kmpe M))%Q) ->
  (exists Pn w sl, node_kmpe_choiceST V E S T fq sc ign isint k Pn w sl /\ (sumq sl (layers k) == objective a (encode_kmpe M))%Q) /\
  (forall Pn w sl, node_kmpe_choiceST V E S T fq sc ign isint k Pn w sl -> (objective a (encode_kmpe M) <= sumq sl (layers k))%Q).
Proof. exact node_kmpe_optimalST. Qed.
Print Assumptions C08_node_kmpe_optimal_with_starts_ends.

Theorem C08_node_kmpe_feasible_iff_with_starts_ends : forall (V : list node) (E : list PathEnc.edge) (S T : list node) (s t : node) (topo : list node)
    (fq sc : node -> Q) (ign : list node) (isint : bool) (k : nat),
  ~ In s (expV V) -> ~ In t (expV V) -> s <> t -> (forall e, In e E -> In (fst e) V /\ In (snd e) V) -> NoDup V -> NoDup E ->
  (forall u v, In (u, v) E -> (posn topo u < posn topo v)%nat) -> incl V topo ->
  ((exists a, sat a (encode_kmpe (node_kmpe_instST V E S T s t fq sc ign isint k))) <->
   (exists Pn w sl, node_kmpe_choice_boundedST V E S T fq sc ign isint k Pn w sl)).
Proof. exact node_kmpe_feasible_iffST. Qed.
Print Assumptions C08_node_kmpe_feasible_iff_with_starts_ends.

Theorem C08_node_choice_without_starts_ends : forall V E fq sc ign isint k Pn w sl,
  node_kmpe_choiceST V E [] [] fq sc ign isint k Pn w sl <-> node_kmpe_choice V E fq sc ign isint k Pn w sl.
Proof. exact node_kmpe_choice_nil_iff. Qed.
Print Assumptions C08_node_choice_without_starts_ends.

(* non-vacuity: path 1 -> 2 with node weights 3, 5, k = 2: without additional starts every choice has total slack >= 1; with node 2 as
   additional start the paths 1-2 (weight 3) and 2 (weight 2) need no slack *)
Example C08_node_additional_start_lowers_the_optimum :
  node_domain1 exV exfq exsc [] false 2 /\
  (forall Pn w sl, node_kmpe_choiceST exV exE [] [] exfq exsc [] false 2 Pn w sl -> (1 <= sumq sl (layers 2))%Q) /\
  node_kmpe_choiceST exV exE [2%N] [] exfq exsc [] false 2 exPn2 exw2 (fun _ => 0%Q) /\ (sumq (fun _ : N => 0%Q) (layers 2) == 0)%Q.
Proof. exact ex_c08_st. Qed.
Print Assumptions C08_node_additional_start_lowers_the_optimum.
