(* C08 — kMinPathError for NODE-weighted input, in the caller's terms (NodeErrE2E.v).  Only Theorem / exact / Print Assumptions and a
   non-vacuity Example.  node_kmpe_choice V E fq sc ign isint k Pn w sl: Pn 0 .. Pn (k-1) are source-to-sink paths of the caller's
   DAG, w and sl non-negative weights and per-path slacks of the requested type, and on every counting node v
   | sc v * (fq v - sum of the weights of the paths through v) | <= sum of the slacks of the paths through v.
   node_kmpe_inst: the instance node mode hands to the edge model (see Props/C07_node.v). *)
From Coq Require Import List NArith ZArith QArith Bool Arith Lia.
Import ListNotations.
From FP Require Import Lin PathEnc EndToEnd1 ErrEnc DilworthNode NodeErrE2E.

(* the optimal objective = the least total slack of any choice of k paths of the CALLER's graph, weights and slacks (bounded by the
   model's w_max or not) *)
Theorem C08_node_kmpe_optimal : forall (V : list node) (E : list PathEnc.edge) (s t : node) (topo : list node) (fq sc : node -> Q)
    (ign : list node) (isint : bool) (k : nat),
  ~ In s (expV V) -> ~ In t (expV V) -> s <> t -> (forall e, In e E -> In (fst e) V /\ In (snd e) V) -> NoDup V -> NoDup E ->
  (forall u v, In (u, v) E -> (posn topo u < posn topo v)%nat) -> incl V topo ->
  forall a : var -> Q, node_domain1 V fq sc ign isint k ->
  let M := node_kmpe_inst V E s t fq sc ign isint k in
  sat a (encode_kmpe M) -> (forall b, sat b (encode_kmpe M) -> (objective a (encode_kmpe M) <= objective b (encode_kmpe M))%Q) ->
  (exists Pn w sl, node_kmpe_choice V E fq sc ign isint k Pn w sl /\ (sumq sl (layers k) == objective a (encode_kmpe M))%Q) /\
  (forall Pn w sl, node_kmpe_choice V E fq sc ign isint k Pn w sl -> (objective a (encode_kmpe M) <= sumq sl (layers k))%Q).
Proof. exact node_kmpe_optimal. Qed.
Print Assumptions C08_node_kmpe_optimal.

(* the model is feasible iff a choice within the model's bound node_wmax = k * weight_type(largest counting node weight) exists *)
Theorem C08_node_kmpe_feasible_iff : forall (V : list node) (E : list PathEnc.edge) (s t : node) (topo : list node) (fq sc : node -> Q)
    (ign : list node) (isint : bool) (k : nat),
  ~ In s (expV V) -> ~ In t (expV V) -> s <> t -> (forall e, In e E -> In (fst e) V /\ In (snd e) V) -> NoDup V -> NoDup E ->
  (forall u v, In (u, v) E -> (posn topo u < posn topo v)%nat) -> incl V topo ->
  ((exists a, sat a (encode_kmpe (node_kmpe_inst V E s t fq sc ign isint k))) <->
   (exists Pn w sl, node_kmpe_choice_bounded V E fq sc ign isint k Pn w sl)).
Proof. exact node_kmpe_feasible_iff. Qed.
Print Assumptions C08_node_kmpe_feasible_iff.

(* non-vacuity: the path 1 -> 2 with node weights 3, 5, scaling 1, k = 1: a choice with total slack 1 exists (weight 4, slack 1) and
   every choice has total slack >= 1 *)
Example C08_node_premises_satisfiable :
  NoDup exV /\ NoDup exE /\ (forall e, In e exE -> In (fst e) exV /\ In (snd e) exV) /\
  (forall u v, In (u, v) exE -> (posn exV u < posn exV v)%nat) /\ incl exV exV /\
  ~ In 100%N (expV exV) /\ ~ In 101%N (expV exV) /\ 100%N <> 101%N /\
  node_domain1 exV exfq exsc [] false 1 /\
  node_kmpe_choice exV exE exfq exsc [] false 1 exPn (fun _ => 4%Q) (fun _ => 1%Q) /\
  (forall Pn w sl, node_kmpe_choice exV exE exfq exsc [] false 1 Pn w sl -> (1 <= sumq sl (layers 1))%Q).
Proof. exact ex_c08_premises. Qed.
Print Assumptions C08_node_premises_satisfiable.

(* ---------------------------------------------------------------------------------------------------------------------------------- *)
(* WITH additional_starts / additional_ends (NodeErrST.v): as in Props/C07_node.v; S = T = [] gives back the statements above
   (C08_node_choice_without_starts_ends). *)
From FP Require Import NodeFlowST NodeErrST.

Theorem C08_node_kmpe_optimal_with_starts_ends : forall (V : list node) (E : list PathEnc.edge) (S T : list node) (s t : node) (topo : list node)
    (fq sc : node -> Q) (ign : list node) (isint : bool) (k : nat),
  ~ In s (expV V) -> ~ In t (expV V) -> s <> t -> (forall e, In e E -> In (fst e) V /\ In (snd e) V) -> NoDup V -> NoDup E ->
  (forall u v, In (u, v) E -> (posn topo u < posn topo v)%nat) -> incl V topo ->
  forall a : var -> Q, node_domain1 V fq sc ign isint k ->
  let M := node_kmpe_instST V E S T s t fq sc ign isint k in
  sat a (encode_kmpe M) -> (forall b, sat b (encode_kmpe M) -> (objective a (encode_kmpe M) <= objective b (encode_kmpe M))%Q) ->
  (exists Pn w sl, node_kmpe_choiceST V E S T fq sc ign isint k Pn w sl /\ (sumq sl (layers k) == objective a (encode_kmpe M))%Q) /\
  (forall Pn w sl, node_kmpe_choiceST V E S T fq sc ign isint k Pn w sl -> (objective a (encode_kmpe M) <= sumq sl (layers k))%Q).
Proof. exact node_kmpe_optimalST. Qed.
Print Assumptions C08_node_kmpe_optimal_with_starts_ends.

Theorem C08_node_kmpe_feasible_iff_with_starts_ends : forall (V : list node) (E : list PathEnc.edge) (S T : list node) (s t : node) (topo : list node)
    (fq sc : node -> Q) (ign : list node) (isint : bool) (k : nat),
  ~ In s (expV V) -> ~ In t (expV V) -> s <> t -> (forall e, In e E -> In (fst e) V /\ In (snd e) V) -> NoDup V -> NoDup E ->
  (forall u v, In (u, v) E -> (posn topo u < posn topo v)%nat) -> incl V topo ->
  ((exists a, sat a (encode_kmpe (node_kmpe_instST V E S T s t fq sc ign isint k))) <->
   (exists Pn w sl, node_kmpe_choice_boundedST V E S T fq sc ign isint k Pn w sl)).
Proof. exact node_kmpe_feasible_iffST. Qed.
Print Assumptions C08_node_kmpe_feasible_iff_with_starts_ends.

Theorem C08_node_choice_without_starts_ends : forall V E fq sc ign isint k Pn w sl,
  node_kmpe_choiceST V E [] [] fq sc ign isint k Pn w sl <-> node_kmpe_choice V E fq sc ign isint k Pn w sl.
Proof. exact node_kmpe_choice_nil_iff. Qed.
Print Assumptions C08_node_choice_without_starts_ends.

(* non-vacuity: path 1 -> 2 with node weights 3, 5, k = 2: without additional starts every choice has total slack >= 1; with node 2 as
   additional start the paths 1-2 (weight 3) and 2 (weight 2) need no slack *)
Example C08_node_additional_start_lowers_the_optimum :
  node_domain1 exV exfq exsc [] false 2 /\
  (forall Pn w sl, node_kmpe_choiceST exV exE [] [] exfq exsc [] false 2 Pn w sl -> (1 <= sumq sl (layers 2))%Q) /\
  node_kmpe_choiceST exV exE [2%N] [] exfq exsc [] false 2 exPn2 exw2 (fun _ => 0%Q) /\ (sumq (fun _ : N => 0%Q) (layers 2) == 0)%Q.
Proof. exact ex_c08_st. Qed.
Print Assumptions C08_node_additional_start_lowers_the_optimum.

(* ---- audit additions (agent-c19): instances of the hypotheses the Example above does not reach ---- *)
From Coq Require Import Lqa.
From FP Require ErrEncProofs2 ErrEncComplete ErrEncOptimal ErrEncOptimal2.

(* (a) the SOLVER hypotheses of C08_node_kmpe_optimal -- `sat a` and optimality of a -- hold for an explicit assignment on the chain
   1 -> 2 (weights 3, 5; k = 1): the assignment of the completeness proof for the path 100,2,3,4,5,101 with weight 4 and slack 1;
   objective 1.  Optimality: a satisfying assignment decodes to a choice of the expanded instance with total slack = its objective
   (kmpe_decodes), the choice contracts to one of the caller's graph, and every such choice has total slack >= 1 (Example above). *)
Definition C08_node_wit_a : var -> Q :=
  ErrEncComplete.kmpe_asg (node_kmpe_inst exV exE 100 101 exfq exsc [] false 1) (expP 100 101 exPn) (fun _ => 4%Q) (fun _ => 1%Q) (fun _ => 0%N).

Example C08_node_solver_hypotheses_satisfiable :
  let M := node_kmpe_inst exV exE 100 101 exfq exsc [] false 1 in
  sat C08_node_wit_a (encode_kmpe M) /\ (objective C08_node_wit_a (encode_kmpe M) == 1)%Q /\
  (forall b, sat b (encode_kmpe M) -> (objective C08_node_wit_a (encode_kmpe M) <= objective b (encode_kmpe M))%Q).
Proof.
  cbn zeta. set (M := node_kmpe_inst exV exE 100 101 exfq exsc [] false 1).
  destruct C08_node_premises_satisfiable as (NDV & NDE & HE & Htopo & Hincl & Hs & Ht & Hst & Hdom & _ & Hmin).
  assert (E1 : (objective C08_node_wit_a (encode_kmpe M) == 1)%Q) by (vm_compute; reflexivity).
  split; [apply ErrEncProofs2.sat_b_sound; vm_compute; reflexivity|]. split; [exact E1|].
  intros b Hb. rewrite E1.
  pose proof (wf_I exV exE 100 101 exfq exsc [] false 1 Hs Ht Hst HE NDV NDE) as WF.
  destruct (ErrEncOptimal.kmpe_decodes M b (st_rank 100 101 (exp_topo exV)) (S (S (length (exp_topo exV)))) eq_refl eq_refl WF eq_refl
              (st_rank_increasing (expV exV) (expE exV exE) 100 101 Hs Ht Hst (expE_ends exV exE HE) (exp_topo exV)
                 (exp_topo_increasing exV exE exV Hincl Htopo))
              (fun v => st_rank_le 100 101 Hst (exp_topo exV) v)
              (fun c e (Hc : In c (p_cons (e_base (m_err M)))) => match Hc with end) Hb) as ((HP & Hw & Herr & Hcov) & Hsum).
  cbn zeta in *. rewrite <- Hsum.
  apply (Hmin (conP (ErrEncOptimal.dec_path (eG (m_err M)) b (S (S (length (exp_topo exV)))))) (fun i => b (W i)) (fun i => b (Slack i))).
  apply (choice_contracts exV exE 100 101 exfq exsc [] false 1 Hs Ht Hst HE).
  split; [exact HP|]. split; [|split; [exact Herr|exact Hcov]].
  intros i Hi. destruct (Hw i Hi) as ([W0 _] & Wi & [S0 _] & Si). tauto.
Qed.
Print Assumptions C08_node_solver_hypotheses_satisfiable.

(* (b) the caller-input premises with an IGNORED node, a node with error scaling 0, weight_type = int and k = 2: chain 1 -> 2 -> 3,
   every node weight 3, node 2 ignored, node 3 with scaling 0; weights 3, 0 and slacks 0, 0 are a choice within the model's bound
   node_wmax = 2 * 3, so by C08_node_kmpe_feasible_iff the model of the expanded instance is satisfiable *)
Definition C08_node_V3 : list node := [1; 2; 3]%N.
Definition C08_node_E3 : list PathEnc.edge := [(1, 2); (2, 3)]%N.
Definition C08_node_sc0 (v : node) : Q := if (v =? 3)%N then 0%Q else 1%Q.
Example C08_node_premises_satisfiable_with_ignored_and_unscaled_nodes :
  nodes_basic C08_node_V3 [2%N] C08_node_sc0 = [1%N] /\
  node_domain1 C08_node_V3 (fun _ => 3%Q) C08_node_sc0 [2%N] true 2 /\
  node_kmpe_choice_bounded C08_node_V3 C08_node_E3 (fun _ => 3%Q) C08_node_sc0 [2%N] true 2
    (fun _ => [1; 2; 3]%N) (fun i => if (i =? 0)%N then 3%Q else 0%Q) (fun _ => 0%Q) /\
  (exists a, sat a (encode_kmpe (node_kmpe_inst C08_node_V3 C08_node_E3 100 101 (fun _ => 3%Q) C08_node_sc0 [2%N] true 2))).
Proof.
  assert (HD : node_domain1 C08_node_V3 (fun _ => 3%Q) C08_node_sc0 [2%N] true 2).
  { split; [|split; [discriminate|lia]]. intros v Hv. cbn in Hv. destruct Hv as [<-|[]]. cbn.
    split; [discriminate|]. split; [split; discriminate|]. intros _. exists 3%Z. reflexivity. }
  assert (HC : node_kmpe_choice_bounded C08_node_V3 C08_node_E3 (fun _ => 3%Q) C08_node_sc0 [2%N] true 2
                 (fun _ => [1; 2; 3]%N) (fun i => if (i =? 0)%N then 3%Q else 0%Q) (fun _ => 0%Q)).
  { split; [split; [|split]|].
    - intros i _. split; [discriminate|]. split; [intros x Hx; exact Hx|]. split; [intros e He; exact He|].
      split; intros u Hu; cbn in Hu; destruct Hu as [Eq|[Eq|[]]]; discriminate Eq.
    - intros i _. destruct (i =? 0)%N; (split; [discriminate|split; [intros _; eexists; reflexivity|split; [discriminate|intros _; exists 0%Z; reflexivity]]]).
    - intros v Hv. cbn in Hv. destruct Hv as [<-|[]]. vm_compute. discriminate.
    - intros i Hi. cbn in Hi. destruct Hi as [<-|[<-|[]]]; vm_compute; split; discriminate. }
  split; [reflexivity|]. split; [exact HD|]. split; [exact HC|].
  apply (C08_node_kmpe_feasible_iff C08_node_V3 C08_node_E3 100 101 C08_node_V3 (fun _ => 3%Q) C08_node_sc0 [2%N] true 2).
  - cbn; intuition discriminate.
  - cbn; intuition discriminate.
  - discriminate.
  - intros e He. cbn in He. destruct He as [<-|[<-|[]]]; cbn; tauto.
  - repeat constructor; cbn; intuition discriminate.
  - repeat constructor; cbn; intuition discriminate.
  - intros u v Huv. cbn in Huv. destruct Huv as [Eq|[Eq|[]]]; injection Eq as <- <-; cbn; lia.
  - apply incl_refl.
  - eexists _, _, _. exact HC.
Qed.
Print Assumptions C08_node_premises_satisfiable_with_ignored_and_unscaled_nodes.

(* ---------------------------------------------------------------------------------------------------------------------------------- *)
(* The CYCLIC class in node mode (kMinPathErrorCycles, flow_attr_origin = 'node'), in the caller's terms (NodeWalkErrE2E.v): the k walks
   are walks of the caller's graph (DilworthNode.nwalk, additional starts S / ends T included), every visit of a node counts.  Relative
   to the solver specification and WITHIN THE CAPS of the encoder (node_kmpec_adm = the model's predicate on the expanded tuple, spelled
   out by C08_node_cyclic_reading: at every counting node v, scale(v) * |weight(v) - sum_i w_i * visits_i(v)| <= sum_i slack_i * visits_i(v)):
   the objective of an optimal satisfying assignment of the node-expanded instance's model is the least total slack over all such
   weighted node walks, and the model is satisfiable iff such walks exist. *)
From FP Require Import WalkEncRows WalkErrEnc NodeWalkE2E NodeWalkErrE2E.
Theorem C08_node_cyclic_optimal_within_caps :
  forall (V : list node) (E : list PathEnc.edge) (S T : list node) (s t : node) (Wn : list node) (fq sc : node -> Q) (ign : list node)
         (isint : bool),
  ~ In s (expV V) -> ~ In t (expV V) -> s <> t -> (forall e, In e E -> In (fst e) V /\ In (snd e) V) -> NoDup V -> NoDup E ->
  forall (k : nat) (a : var -> Q),
  sat a (encode_kmpe_cycles (node_werr_inst V E S T s t Wn fq sc ign isint k)) ->
  (forall b, sat b (encode_kmpe_cycles (node_werr_inst V E S T s t Wn fq sc ign isint k)) ->
     (objective a (encode_kmpe_cycles (node_werr_inst V E S T s t Wn fq sc ign isint k)) <=
      objective b (encode_kmpe_cycles (node_werr_inst V E S T s t Wn fq sc ign isint k)))%Q) ->
  (exists Pn w sl, node_walks V E S T k Pn /\ node_kmpec_adm V E S T s t Wn fq sc ign isint k Pn w sl /\
                   (sumq sl (layers k) == objective a (encode_kmpe_cycles (node_werr_inst V E S T s t Wn fq sc ign isint k)))%Q) /\
  (forall Pn w sl, node_walks V E S T k Pn -> node_kmpec_adm V E S T s t Wn fq sc ign isint k Pn w sl ->
                   (objective a (encode_kmpe_cycles (node_werr_inst V E S T s t Wn fq sc ign isint k)) <= sumq sl (layers k))%Q).
Proof. exact node_kmpec_optimal. Qed.
Print Assumptions C08_node_cyclic_optimal_within_caps.

Theorem C08_node_cyclic_feasible_iff_within_caps :
  forall (V : list node) (E : list PathEnc.edge) (S T : list node) (s t : node) (Wn : list node) (fq sc : node -> Q) (ign : list node)
         (isint : bool),
  ~ In s (expV V) -> ~ In t (expV V) -> s <> t -> (forall e, In e E -> In (fst e) V /\ In (snd e) V) -> NoDup V -> NoDup E ->
  forall k : nat,
  (exists a, sat a (encode_kmpe_cycles (node_werr_inst V E S T s t Wn fq sc ign isint k))) <->
  (exists Pn w sl, node_walks V E S T k Pn /\ node_kmpec_adm V E S T s t Wn fq sc ign isint k Pn w sl).
Proof. exact node_kmpec_feasible_iff. Qed.
Print Assumptions C08_node_cyclic_feasible_iff_within_caps.

Theorem C08_node_cyclic_reading :
  forall (V : list node) (E : list PathEnc.edge) (S T : list node) (s t : node) (Wn : list node) (fq sc : node -> Q) (ign : list node)
         (isint : bool),
  ~ In s (expV V) -> ~ In t (expV V) -> (forall e, In e E -> In (fst e) V /\ In (snd e) V) ->
  (forall v, In v V -> ~ In v ign -> In v Wn) ->
  forall (k : nat) (Pn : N -> list node) (w sl : N -> Q),
  node_walks V E S T k Pn -> node_kmpec_adm V E S T s t Wn fq sc ign isint k Pn w sl ->
  (forall i, In i (layers k) -> (0 <= w i <= x_wmax (node_werr_inst V E S T s t Wn fq sc ign isint k))%Q /\ (isint = true -> is_int (w i))) /\
  (forall i, In i (layers k) -> (0 <= sl i <= x_wmax (node_werr_inst V E S T s t Wn fq sc ign isint k))%Q /\ (isint = true -> is_int (sl i))) /\
  (forall i v, In i (layers k) -> In v V ->
     (inject_Z (visits v (Pn i)) <= cap (werr_walk (node_werr_inst V E S T s t Wn fq sc ign isint k)) (nedge v))%Q) /\
  (forall i e, In i (layers k) -> In e E ->
     (inject_Z (traversals e (Pn i)) <= cap (werr_walk (node_werr_inst V E S T s t Wn fq sc ign isint k)) (cn e))%Q) /\
  (forall i v, In i (layers k) -> In v (NodeErrE2E.nodes_basic V ign sc) ->
     (w i * inject_Z (visits v (Pn i)) <= x_wmax (node_werr_inst V E S T s t Wn fq sc ign isint k))%Q /\
     (sl i * inject_Z (visits v (Pn i)) <= x_wmax (node_werr_inst V E S T s t Wn fq sc ign isint k))%Q) /\
  (forall v, In v (NodeErrE2E.nodes_basic V ign sc) ->
     (Qabs.Qabs (sc v * (fq v - node_wexplains k Pn w v)) <= node_wexplains k Pn sl v)%Q).
Proof. exact node_kmpec_reading. Qed.
Print Assumptions C08_node_cyclic_reading.

(* non-vacuity with a self-loop and a NON-ZERO optimum: 1 -> 2 -> 3 with a self-loop at 2, node weights 3, 6, 1, one walk: the walk
   1 2 2 2 3 of weight 2 with slack 1 is within the caps (total slack 1), and every admissible triple has total slack >= 1 *)
Example C08_node_cyclic_self_loop_nonzero_optimum :
  NoDup lxV /\ NoDup lxE /\ (forall e, In e lxE -> In (fst e) lxV /\ In (snd e) lxV) /\
  ~ In 100%N (expV lxV) /\ ~ In 101%N (expV lxV) /\ 100%N <> 101%N /\ (forall v, In v lxV -> ~ In v [] -> In v lxV) /\
  node_walks lxV lxE [] [] 1 lxPn /\ visits 2%N (lxPn 0%N) = 3%Z /\
  node_kmpec_adm lxV lxE [] [] 100%N 101%N lxV wxfq wxsc [] false 1 lxPn lxw wxsl /\
  (sumq wxsl (layers 1) == 1)%Q /\
  (forall Pn w sl, node_walks lxV lxE [] [] 1 Pn -> node_kmpec_adm lxV lxE [] [] 100%N 101%N lxV wxfq wxsc [] false 1 Pn w sl ->
                   (1 <= sumq sl (layers 1))%Q) /\
  (exists a, sat a (encode_kmpe_cycles (node_werr_inst lxV lxE [] [] 100%N 101%N lxV wxfq wxsc [] false 1))).
Proof.
  destruct wx_premises as (A1 & A2 & A3 & A4 & A5 & A6 & A7 & _ & A9 & A10 & _ & _ & _ & A14 & A15 & A16).
  split; [exact A1|]. split; [exact A2|]. split; [exact A3|]. split; [exact A4|]. split; [exact A5|]. split; [exact A6|]. split; [exact A7|].
  split; [exact A9|]. split; [exact A10|]. split; [exact A14|]. split; [exact A15|]. split; [exact A16|].
  apply (node_kmpec_feasible_iff lxV lxE [] [] 100%N 101%N lxV wxfq wxsc [] false A4 A5 A6 A3 A1 A2 1).
  exists lxPn, lxw, wxsl. split; [exact A9|exact A14].
Qed.
Print Assumptions C08_node_cyclic_self_loop_nonzero_optimum.

(* the SOLVER hypotheses (sat a + optimality of a) of the theorem above are satisfiable on the self-loop instance: an optimal satisfying
   assignment exists and its objective is 1 (non-zero) *)
Example C08_node_cyclic_solver_hypotheses_satisfiable :
  exists a, sat a (encode_kmpe_cycles (node_werr_inst lxV lxE [] [] 100%N 101%N lxV wxfq wxsc [] false 1)) /\
    (forall b, sat b (encode_kmpe_cycles (node_werr_inst lxV lxE [] [] 100%N 101%N lxV wxfq wxsc [] false 1)) -> (objective a (encode_kmpe_cycles (node_werr_inst lxV lxE [] [] 100%N 101%N lxV wxfq wxsc [] false 1)) <= objective b (encode_kmpe_cycles (node_werr_inst lxV lxE [] [] 100%N 101%N lxV wxfq wxsc [] false 1)))%Q) /\
    (objective a (encode_kmpe_cycles (node_werr_inst lxV lxE [] [] 100%N 101%N lxV wxfq wxsc [] false 1)) == 1)%Q.
Proof. exact (proj2 wx_solver_hypotheses). Qed.
Print Assumptions C08_node_cyclic_solver_hypotheses_satisfiable.
