(* C19 — invalid inputs are rejected with ValueError instead of being solved; valid inputs are accepted.
   ONLY property theorems (closed by [exact]), their assumptions, and non-vacuity examples.
   Model: Validate.v — per exported graph/model class X a transcription [validate_X] of the validation path of the CURRENT
   code (constructor + solve(), checks in code order, /repo at 003f186) and the documented domain [in_domain_X].  The
   validators are hand-written summaries (thin tie): what relates them to /repo is the malformed-stream correspondence
   harness/engines/c19.py.  The value of the theorems is the exhaustive case analysis in_domain <-> validate.

   For every class:   validate_sound     RaiseValueError => outside the documented domain
                      validate_complete  outside the domain => RaiseValueError; unconditional for stDAG, stDiGraph,
                                         NodeExpandedDiGraph, MinErrorFlow, kPathCover, kPathCoverCycles; otherwise under [deviates_X i = false], which names
                                         exactly what is still OPEN: all weighted elements ignored (DESIGN #24, outside the
                                         property's clause), a non-conserving flow for the cyclic flow decompositions, and an
                                         empty k-loop of the Min* classes (only with a caller-supplied lower bound above |E|)
                      accepts_domain     inside the domain (+ a live weighted element) => Accept
   ValidateOld.v / ValidateOldRefuted.v keep the model of the code BEFORE the repairs (a068bcc) and the witnesses that it was
   not fail-closed; those [old_..._refuted] theorems are about explicitly named old-behaviour functions. *)
From Coq Require Import List Bool ZArith QArith.
Import ListNotations.
From FP Require Import Validate ValidateProofs ValidateProofs2 ValidateProofs3.
From FP Require ValidateOld ValidateOldRefuted.
Local Close Scope Q_scope.

(* The property at full strength, per class: fail-closed with ValueError outside the documented domain, and
   acceptance inside it whenever at least one non-ignored weighted element exists. *)
Definition C19_full_statement (c : cls) : Prop :=
  forall i, (in_domain c i = false -> validate c i = RaiseValueError) /\
            (in_domain c i = true -> has_live i = true -> validate c i = Accept).
(* the same for inputs on which the abstraction's side condition holds (the k-loop of a Min* class runs) *)
Definition C19_full_statement_regular (c : cls) : Prop :=
  forall i, regular i = true ->
            (in_domain c i = false -> validate c i = RaiseValueError) /\
            (in_domain c i = true -> has_live i = true -> validate c i = Accept).

(* ---------------------------------------------------------------- stDAG *)
Theorem C19_validate_sound_stDAG : forall i, validate_stDAG i = RaiseValueError -> in_domain_stDAG i = false.
Proof. exact validate_sound_stDAG. Qed.
Print Assumptions C19_validate_sound_stDAG.

Theorem C19_validate_complete_stDAG : forall i, in_domain_stDAG i = false -> validate_stDAG i = RaiseValueError.
Proof. exact validate_complete_stDAG. Qed.
Print Assumptions C19_validate_complete_stDAG.

Theorem C19_accepts_domain_stDAG : forall i, in_domain_stDAG i = true -> validate_stDAG i = Accept.
Proof. exact accepts_domain_stDAG. Qed.
Print Assumptions C19_accepts_domain_stDAG.

(* ---------------------------------------------------------------- stDiGraph *)
Theorem C19_validate_sound_stDiGraph : forall i, validate_stDiGraph i = RaiseValueError -> in_domain_stDiGraph i = false.
Proof. exact validate_sound_stDiGraph. Qed.
Print Assumptions C19_validate_sound_stDiGraph.

Theorem C19_validate_complete_stDiGraph : forall i, in_domain_stDiGraph i = false -> validate_stDiGraph i = RaiseValueError.
Proof. exact validate_complete_stDiGraph. Qed.
Print Assumptions C19_validate_complete_stDiGraph.

Theorem C19_accepts_domain_stDiGraph : forall i, in_domain_stDiGraph i = true -> validate_stDiGraph i = Accept.
Proof. exact accepts_domain_stDiGraph. Qed.
Print Assumptions C19_accepts_domain_stDiGraph.

(* ---------------------------------------------------------------- NodeExpandedDiGraph *)
Theorem C19_validate_sound_NodeExpandedDiGraph : forall i, validate_NodeExpandedDiGraph i = RaiseValueError -> in_domain_NodeExpandedDiGraph i = false.
Proof. exact validate_sound_NodeExpandedDiGraph. Qed.
Print Assumptions C19_validate_sound_NodeExpandedDiGraph.

Theorem C19_validate_complete_NodeExpandedDiGraph : forall i, in_domain_NodeExpandedDiGraph i = false -> validate_NodeExpandedDiGraph i = RaiseValueError.
Proof. exact validate_complete_NodeExpandedDiGraph. Qed.
Print Assumptions C19_validate_complete_NodeExpandedDiGraph.

Theorem C19_accepts_domain_NodeExpandedDiGraph : forall i, in_domain_NodeExpandedDiGraph i = true -> validate_NodeExpandedDiGraph i = Accept.
Proof. exact accepts_domain_NodeExpandedDiGraph. Qed.
Print Assumptions C19_accepts_domain_NodeExpandedDiGraph.

(* ---------------------------------------------------------------- kFlowDecomp *)
Theorem C19_validate_sound_kFlowDecomp : forall i, validate_kFlowDecomp i = RaiseValueError -> in_domain_kFlowDecomp i = false.
Proof. exact validate_sound_kFlowDecomp. Qed.
Print Assumptions C19_validate_sound_kFlowDecomp.

Theorem C19_validate_complete_kFlowDecomp : forall i, in_domain_kFlowDecomp i = false -> deviates_kFlowDecomp i = false -> validate_kFlowDecomp i = RaiseValueError.
Proof. exact validate_complete_kFlowDecomp. Qed.
Print Assumptions C19_validate_complete_kFlowDecomp.

Theorem C19_accepts_domain_kFlowDecomp : forall i, in_domain_kFlowDecomp i = true -> has_live i = true -> validate_kFlowDecomp i = Accept.
Proof. exact accepts_domain_kFlowDecomp. Qed.
Print Assumptions C19_accepts_domain_kFlowDecomp.

(* ---------------------------------------------------------------- MinFlowDecomp *)
Theorem C19_validate_sound_MinFlowDecomp : forall i, validate_MinFlowDecomp i = RaiseValueError -> in_domain_MinFlowDecomp i = false.
Proof. exact validate_sound_MinFlowDecomp. Qed.
Print Assumptions C19_validate_sound_MinFlowDecomp.

Theorem C19_validate_complete_MinFlowDecomp : forall i, in_domain_MinFlowDecomp i = false -> deviates_MinFlowDecomp i = false -> validate_MinFlowDecomp i = RaiseValueError.
Proof. exact validate_complete_MinFlowDecomp. Qed.
Print Assumptions C19_validate_complete_MinFlowDecomp.

Theorem C19_accepts_domain_MinFlowDecomp : forall i, in_domain_MinFlowDecomp i = true -> has_live i = true -> search_enters i = true -> validate_MinFlowDecomp i = Accept.
Proof. exact accepts_domain_MinFlowDecomp. Qed.
Print Assumptions C19_accepts_domain_MinFlowDecomp.

(* ---------------------------------------------------------------- kMinPathError *)
Theorem C19_validate_sound_kMinPathError : forall i, validate_kMinPathError i = RaiseValueError -> in_domain_kMinPathError i = false.
Proof. exact (validate_sound_kErrDAG true). Qed.
Print Assumptions C19_validate_sound_kMinPathError.

Theorem C19_validate_complete_kMinPathError : forall i, in_domain_kMinPathError i = false -> deviates_kErrDAG i = false -> validate_kMinPathError i = RaiseValueError.
Proof. exact (validate_complete_kErrDAG true). Qed.
Print Assumptions C19_validate_complete_kMinPathError.

Theorem C19_accepts_domain_kMinPathError : forall i, in_domain_kMinPathError i = true -> has_live i = true -> validate_kMinPathError i = Accept.
Proof. exact (accepts_domain_kErrDAG true). Qed.
Print Assumptions C19_accepts_domain_kMinPathError.

(* ---------------------------------------------------------------- kLeastAbsErrors *)
Theorem C19_validate_sound_kLeastAbsErrors : forall i, validate_kLeastAbsErrors i = RaiseValueError -> in_domain_kLeastAbsErrors i = false.
Proof. exact (validate_sound_kErrDAG false). Qed.
Print Assumptions C19_validate_sound_kLeastAbsErrors.

Theorem C19_validate_complete_kLeastAbsErrors : forall i, in_domain_kLeastAbsErrors i = false -> deviates_kErrDAG i = false -> validate_kLeastAbsErrors i = RaiseValueError.
Proof. exact (validate_complete_kErrDAG false). Qed.
Print Assumptions C19_validate_complete_kLeastAbsErrors.

Theorem C19_accepts_domain_kLeastAbsErrors : forall i, in_domain_kLeastAbsErrors i = true -> has_live i = true -> validate_kLeastAbsErrors i = Accept.
Proof. exact (accepts_domain_kErrDAG false). Qed.
Print Assumptions C19_accepts_domain_kLeastAbsErrors.

(* ---------------------------------------------------------------- kPathCover *)
Theorem C19_validate_sound_kPathCover : forall i, validate_kPathCover i = RaiseValueError -> in_domain_kPathCover i = false.
Proof. exact validate_sound_kPathCover. Qed.
Print Assumptions C19_validate_sound_kPathCover.

Theorem C19_validate_complete_kPathCover : forall i, in_domain_kPathCover i = false -> validate_kPathCover i = RaiseValueError.
Proof. exact validate_complete_kPathCover. Qed.
Print Assumptions C19_validate_complete_kPathCover.

Theorem C19_accepts_domain_kPathCover : forall i, in_domain_kPathCover i = true -> validate_kPathCover i = Accept.
Proof. exact accepts_domain_kPathCover. Qed.
Print Assumptions C19_accepts_domain_kPathCover.

(* ---------------------------------------------------------------- MinPathCover *)
Theorem C19_validate_sound_MinPathCover : forall i, validate_MinPathCover i = RaiseValueError -> in_domain_MinPathCover i = false.
Proof. exact validate_sound_MinPathCover. Qed.
Print Assumptions C19_validate_sound_MinPathCover.

Theorem C19_validate_complete_MinPathCover : forall i, in_domain_MinPathCover i = false -> deviates_MinPathCover i = false -> validate_MinPathCover i = RaiseValueError.
Proof. exact validate_complete_MinPathCover. Qed.
Print Assumptions C19_validate_complete_MinPathCover.

Theorem C19_accepts_domain_MinPathCover : forall i, in_domain_MinPathCover i = true -> search_enters i = true -> validate_MinPathCover i = Accept.
Proof. exact accepts_domain_MinPathCover. Qed.
Print Assumptions C19_accepts_domain_MinPathCover.

(* ---------------------------------------------------------------- MinErrorFlow *)
Theorem C19_validate_sound_MinErrorFlow : forall i, validate_MinErrorFlow i = RaiseValueError -> in_domain_MinErrorFlow i = false.
Proof. exact validate_sound_MinErrorFlow. Qed.
Print Assumptions C19_validate_sound_MinErrorFlow.

Theorem C19_validate_complete_MinErrorFlow : forall i, in_domain_MinErrorFlow i = false -> validate_MinErrorFlow i = RaiseValueError.
Proof. exact validate_complete_MinErrorFlow. Qed.
Print Assumptions C19_validate_complete_MinErrorFlow.

Theorem C19_accepts_domain_MinErrorFlow : forall i, in_domain_MinErrorFlow i = true -> validate_MinErrorFlow i = Accept.
Proof. exact accepts_domain_MinErrorFlow. Qed.
Print Assumptions C19_accepts_domain_MinErrorFlow.

(* ---------------------------------------------------------------- kFlowDecompCycles *)
Theorem C19_validate_sound_kFlowDecompCycles : forall i, validate_kFlowDecompCycles i = RaiseValueError -> in_domain_kFlowDecompCycles i = false.
Proof. exact validate_sound_kFlowDecompCycles. Qed.
Print Assumptions C19_validate_sound_kFlowDecompCycles.

Theorem C19_validate_complete_kFlowDecompCycles : forall i, in_domain_kFlowDecompCycles i = false -> deviates_kFlowDecompCycles i = false -> validate_kFlowDecompCycles i = RaiseValueError.
Proof. exact validate_complete_kFlowDecompCycles. Qed.
Print Assumptions C19_validate_complete_kFlowDecompCycles.

Theorem C19_accepts_domain_kFlowDecompCycles : forall i, in_domain_kFlowDecompCycles i = true -> has_live i = true -> validate_kFlowDecompCycles i = Accept.
Proof. exact accepts_domain_kFlowDecompCycles. Qed.
Print Assumptions C19_accepts_domain_kFlowDecompCycles.

(* ---------------------------------------------------------------- MinFlowDecompCycles *)
Theorem C19_validate_sound_MinFlowDecompCycles : forall i, has_live i = true -> no_extra i = true -> validate_MinFlowDecompCycles i = RaiseValueError -> in_domain_MinFlowDecompCycles i = false.
Proof. exact validate_sound_MinFlowDecompCycles. Qed.
Print Assumptions C19_validate_sound_MinFlowDecompCycles.

Theorem C19_validate_complete_MinFlowDecompCycles : forall i, in_domain_MinFlowDecompCycles i = false -> deviates_MinFlowDecompCycles i = false -> validate_MinFlowDecompCycles i = RaiseValueError.
Proof. exact validate_complete_MinFlowDecompCycles. Qed.
Print Assumptions C19_validate_complete_MinFlowDecompCycles.

Theorem C19_accepts_domain_MinFlowDecompCycles : forall i, in_domain_MinFlowDecompCycles i = true -> has_live i = true -> search_enters i = true -> no_extra i = true -> validate_MinFlowDecompCycles i = Accept.
Proof. exact accepts_domain_MinFlowDecompCycles. Qed.
Print Assumptions C19_accepts_domain_MinFlowDecompCycles.

(* ---------------------------------------------------------------- kMinPathErrorCycles *)
Theorem C19_validate_sound_kMinPathErrorCycles : forall i, validate_kMinPathErrorCycles i = RaiseValueError -> in_domain_kMinPathErrorCycles i = false.
Proof. exact validate_sound_kMinPathErrorCycles. Qed.
Print Assumptions C19_validate_sound_kMinPathErrorCycles.

Theorem C19_validate_complete_kMinPathErrorCycles : forall i, in_domain_kMinPathErrorCycles i = false -> deviates_kErrCycles i = false -> validate_kMinPathErrorCycles i = RaiseValueError.
Proof. exact validate_complete_kMinPathErrorCycles. Qed.
Print Assumptions C19_validate_complete_kMinPathErrorCycles.

Theorem C19_accepts_domain_kMinPathErrorCycles : forall i, in_domain_kMinPathErrorCycles i = true -> has_live i = true -> validate_kMinPathErrorCycles i = Accept.
Proof. exact accepts_domain_kMinPathErrorCycles. Qed.
Print Assumptions C19_accepts_domain_kMinPathErrorCycles.

(* ---------------------------------------------------------------- kLeastAbsErrorsCycles *)
Theorem C19_validate_sound_kLeastAbsErrorsCycles : forall i, validate_kLeastAbsErrorsCycles i = RaiseValueError -> in_domain_kLeastAbsErrorsCycles i = false.
Proof. exact validate_sound_kLeastAbsErrorsCycles. Qed.
Print Assumptions C19_validate_sound_kLeastAbsErrorsCycles.

Theorem C19_validate_complete_kLeastAbsErrorsCycles : forall i, in_domain_kLeastAbsErrorsCycles i = false -> deviates_kErrCycles i = false -> validate_kLeastAbsErrorsCycles i = RaiseValueError.
Proof. exact validate_complete_kLeastAbsErrorsCycles. Qed.
Print Assumptions C19_validate_complete_kLeastAbsErrorsCycles.

Theorem C19_accepts_domain_kLeastAbsErrorsCycles : forall i, in_domain_kLeastAbsErrorsCycles i = true -> has_live i = true -> validate_kLeastAbsErrorsCycles i = Accept.
Proof. exact accepts_domain_kLeastAbsErrorsCycles. Qed.
Print Assumptions C19_accepts_domain_kLeastAbsErrorsCycles.

(* ---------------------------------------------------------------- kPathCoverCycles *)
Theorem C19_validate_sound_kPathCoverCycles : forall i, validate_kPathCoverCycles i = RaiseValueError -> in_domain_kPathCoverCycles i = false.
Proof. exact validate_sound_kPathCoverCycles. Qed.
Print Assumptions C19_validate_sound_kPathCoverCycles.

Theorem C19_validate_complete_kPathCoverCycles : forall i, in_domain_kPathCoverCycles i = false -> validate_kPathCoverCycles i = RaiseValueError.
Proof. exact validate_complete_kPathCoverCycles. Qed.
Print Assumptions C19_validate_complete_kPathCoverCycles.

Theorem C19_accepts_domain_kPathCoverCycles : forall i, in_domain_kPathCoverCycles i = true -> validate_kPathCoverCycles i = Accept.
Proof. exact accepts_domain_kPathCoverCycles. Qed.
Print Assumptions C19_accepts_domain_kPathCoverCycles.

(* ---------------------------------------------------------------- MinPathCoverCycles *)
Theorem C19_validate_sound_MinPathCoverCycles : forall i, validate_MinPathCoverCycles i = RaiseValueError -> in_domain_MinPathCoverCycles i = false.
Proof. exact validate_sound_MinPathCoverCycles. Qed.
Print Assumptions C19_validate_sound_MinPathCoverCycles.

Theorem C19_validate_complete_MinPathCoverCycles : forall i, in_domain_MinPathCoverCycles i = false -> deviates_MinPathCoverCycles i = false -> validate_MinPathCoverCycles i = RaiseValueError.
Proof. exact validate_complete_MinPathCoverCycles. Qed.
Print Assumptions C19_validate_complete_MinPathCoverCycles.

Theorem C19_accepts_domain_MinPathCoverCycles : forall i, in_domain_MinPathCoverCycles i = true -> search_enters i = true -> validate_MinPathCoverCycles i = Accept.
Proof. exact accepts_domain_MinPathCoverCycles. Qed.
Print Assumptions C19_accepts_domain_MinPathCoverCycles.

(* ---------------------------------------------------------------- the property at full strength *)
Theorem C19_full_stDAG : C19_full_statement CstDAG.
Proof. exact full_stDAG. Qed.
Print Assumptions C19_full_stDAG.

Theorem C19_full_stDiGraph : C19_full_statement CstDiGraph.
Proof. exact full_stDiGraph. Qed.
Print Assumptions C19_full_stDiGraph.

Theorem C19_full_NodeExpandedDiGraph : C19_full_statement CNodeExpandedDiGraph.
Proof. exact full_NodeExpandedDiGraph. Qed.
Print Assumptions C19_full_NodeExpandedDiGraph.

Theorem C19_full_MinErrorFlow : C19_full_statement CMinErrorFlow.
Proof. exact full_MinErrorFlow. Qed.
Print Assumptions C19_full_MinErrorFlow.

Theorem C19_full_kPathCover : C19_full_statement CkPathCover.
Proof. exact full_kPathCover. Qed.
Print Assumptions C19_full_kPathCover.

Theorem C19_full_regular_MinPathCover : C19_full_statement_regular CMinPathCover.
Proof. exact full_regular_MinPathCover. Qed.
Print Assumptions C19_full_regular_MinPathCover.

Theorem C19_full_kPathCoverCycles : C19_full_statement CkPathCoverCycles.
Proof. exact full_kPathCoverCycles. Qed.
Print Assumptions C19_full_kPathCoverCycles.

Theorem C19_full_regular_MinPathCoverCycles : C19_full_statement_regular CMinPathCoverCycles.
Proof. exact full_regular_MinPathCoverCycles. Qed.
Print Assumptions C19_full_regular_MinPathCoverCycles.

(* what is still open refutes the statement for the weighted classes: DESIGN #24 (every weighted element ignored ->
   OverflowError before k / coverage are looked at) and the non-conserving flow of the cyclic flow decompositions *)
Theorem C19_full_statement_refuted : forall c,
  In c [CkFlowDecomp; CMinFlowDecomp; CkMinPathError; CkLeastAbsErrors; CkFlowDecompCycles; CMinFlowDecompCycles;
        CkMinPathErrorCycles; CkLeastAbsErrorsCycles] -> ~ C19_full_statement_regular c.
Proof. exact full_statement_refuted. Qed.
Print Assumptions C19_full_statement_refuted.

(* ---------------------------------------------------------------- open deviations of the current code: witnesses *)
(* DESIGN #24, note *)
Theorem C19_validate_kFlowDecomp_refuted_all_ignored :
  exists i, in_domain_kFlowDecomp i = false /\ validate_kFlowDecomp i = RaiseOther EOverflow.
Proof. exact validate_kFlowDecomp_refuted_all_ignored. Qed.
Print Assumptions C19_validate_kFlowDecomp_refuted_all_ignored.
(* kFlowDecompCycles:unsolved-not-ValueError:non-conserving-flow (DESIGN #21) *)
Theorem C19_validate_kFlowDecompCycles_refuted_nonconserving :
  exists i, in_domain_kFlowDecompCycles i = false /\ validate_kFlowDecompCycles i = AcceptsButUnsolved.
Proof. exact validate_kFlowDecompCycles_refuted_nonconserving. Qed.
Print Assumptions C19_validate_kFlowDecompCycles_refuted_nonconserving.
Theorem C19_validate_MinFlowDecompCycles_refuted_nonconserving :
  exists i, in_domain_MinFlowDecompCycles i = false /\ validate_MinFlowDecompCycles i = AcceptsButUnsolved.
Proof. exact validate_MinFlowDecompCycles_refuted_nonconserving. Qed.
Print Assumptions C19_validate_MinFlowDecompCycles_refuted_nonconserving.
(* the constraint-type decision of the node-weighted models: if the expansion of the constraints succeeds, every element of every
   constraint is of the kind of the first element (all node names, or all edge tuples): mixed lists never get through, and with
   [C19_validate_complete_*] they are rejected with ValueError *)
Theorem C19_mixed_constraint_lists_rejected : forall cs,
  expand_cons cs = None ->
  forallb (fun it => kind_eqb (it_kind it) IStr) (all_items cs) = true \/
  forallb (fun it => kind_eqb (it_kind it) IPair) (all_items cs) = true.
Proof. exact expand_cons_uniform. Qed.
Print Assumptions C19_mixed_constraint_lists_rejected.
(* k and solution_weights_superset (29f2322): every k-model validates the caller's k before and independently of the given weights *)
Theorem C19_kFlowDecomp_k_checked_independently_of_given_weights : forall i,
  k_bad i = true -> validate_kFlowDecomp i <> Accept.
Proof. exact kFlowDecomp_k_checked_independently_of_given_weights. Qed.
Print Assumptions C19_kFlowDecomp_k_checked_independently_of_given_weights.
Theorem C19_kErrDAG_k_checked_first : forall none_ok i, k_bad_gen none_ok i = true -> validate_kErrDAG none_ok i = RaiseValueError.
Proof. exact kErrDAG_k_checked_first. Qed.
Print Assumptions C19_kErrDAG_k_checked_first.
(* MinFlowDecompCycles:ValueError:node-mode-additional-starts *)
Theorem C19_accepts_domain_MinFlowDecompCycles_refuted_node_mode_starts :
  exists i, in_domain_MinFlowDecompCycles i = true /\ has_live i = true /\ validate_MinFlowDecompCycles i = RaiseValueError.
Proof. exact accepts_domain_MinFlowDecompCycles_refuted_node_mode_starts. Qed.
Print Assumptions C19_accepts_domain_MinFlowDecompCycles_refuted_node_mode_starts.

(* ---------------------------------------------------------------- old behaviour (code at a068bcc, repaired since) *)

(* repaired by 59945c9 *)
Theorem C19_old_validate_stDiGraph_refuted : exists i, ValidateOld.in_domain_stDiGraph i = false /\ ValidateOld.validate_stDiGraph i = ValidateOld.Accept.
Proof. exact ValidateOldRefuted.old_validate_stDiGraph_refuted. Qed.
Print Assumptions C19_old_validate_stDiGraph_refuted.

(* repaired by 59945c9 *)
Theorem C19_old_validate_kFlowDecompCycles_refuted_fooled : exists i, ValidateOld.in_domain_kFlowDecompCycles i = false /\ ValidateOld.validate_kFlowDecompCycles i = ValidateOld.RaiseOther ValidateOld.ECrash.
Proof. exact ValidateOldRefuted.old_validate_kFlowDecompCycles_refuted_fooled. Qed.
Print Assumptions C19_old_validate_kFlowDecompCycles_refuted_fooled.

(* repaired by 92ea36c *)
Theorem C19_old_validate_kFlowDecomp_refuted_absent_edge : exists i, ValidateOld.in_domain_kFlowDecomp i = false /\ ValidateOld.validate_kFlowDecomp i = ValidateOld.RaiseOther ValidateOld.EKey.
Proof. exact ValidateOldRefuted.old_validate_kFlowDecomp_refuted_absent_edge. Qed.
Print Assumptions C19_old_validate_kFlowDecomp_refuted_absent_edge.

(* repaired by 92ea36c *)
Theorem C19_old_validate_kFlowDecomp_refuted_malformed_item : exists i, ValidateOld.in_domain_kFlowDecomp i = false /\ ValidateOld.validate_kFlowDecomp i = ValidateOld.RaiseOther ValidateOld.EType.
Proof. exact ValidateOldRefuted.old_validate_kFlowDecomp_refuted_malformed_item. Qed.
Print Assumptions C19_old_validate_kFlowDecomp_refuted_malformed_item.

(* repaired by c9173c7 *)
Theorem C19_old_validate_kFlowDecomp_refuted_coverage : exists i, ValidateOld.in_domain_kFlowDecomp i = false /\ ValidateOld.validate_kFlowDecomp i = ValidateOld.Accept.
Proof. exact ValidateOldRefuted.old_validate_kFlowDecomp_refuted_coverage. Qed.
Print Assumptions C19_old_validate_kFlowDecomp_refuted_coverage.

(* repaired by c9173c7 *)
Theorem C19_old_validate_kFlowDecompCycles_refuted_coverage : exists i, ValidateOld.in_domain_kFlowDecompCycles i = false /\ ValidateOld.validate_kFlowDecompCycles i = ValidateOld.Accept.
Proof. exact ValidateOldRefuted.old_validate_kFlowDecompCycles_refuted_coverage. Qed.
Print Assumptions C19_old_validate_kFlowDecompCycles_refuted_coverage.

(* repaired by 3d7a4b5 *)
Theorem C19_old_validate_kFlowDecomp_refuted_empty_constraint : exists i, ValidateOld.in_domain_kFlowDecomp i = false /\ ValidateOld.validate_kFlowDecomp i = ValidateOld.RaiseOther ValidateOld.EIndex.
Proof. exact ValidateOldRefuted.old_validate_kFlowDecomp_refuted_empty_constraint. Qed.
Print Assumptions C19_old_validate_kFlowDecomp_refuted_empty_constraint.

(* repaired by 2df6a3b *)
Theorem C19_old_validate_kLeastAbsErrors_refuted_k0 : exists i, ValidateOld.in_domain_kLeastAbsErrors i = false /\ ValidateOld.validate_kLeastAbsErrors i = ValidateOld.RaiseOther ValidateOld.EUnboundLocal.
Proof. exact ValidateOldRefuted.old_validate_kLeastAbsErrors_refuted_k0. Qed.
Print Assumptions C19_old_validate_kLeastAbsErrors_refuted_k0.

(* repaired by 2df6a3b *)
Theorem C19_old_validate_kMinPathError_refuted_k0 : exists i, ValidateOld.in_domain_kMinPathError i = false /\ ValidateOld.validate_kMinPathError i = ValidateOld.RaiseOther ValidateOld.EUnboundLocal.
Proof. exact ValidateOldRefuted.old_validate_kMinPathError_refuted_k0. Qed.
Print Assumptions C19_old_validate_kMinPathError_refuted_k0.

(* repaired by 2df6a3b *)
Theorem C19_old_validate_kMinPathError_refuted_k_float : exists i, ValidateOld.in_domain_kMinPathError i = false /\ ValidateOld.validate_kMinPathError i = ValidateOld.RaiseOther ValidateOld.EType.
Proof. exact ValidateOldRefuted.old_validate_kMinPathError_refuted_k_float. Qed.
Print Assumptions C19_old_validate_kMinPathError_refuted_k_float.

(* repaired by 2df6a3b *)
Theorem C19_old_validate_kFlowDecompCycles_refuted_k_float : exists i, ValidateOld.in_domain_kFlowDecompCycles i = false /\ ValidateOld.validate_kFlowDecompCycles i = ValidateOld.RaiseOther ValidateOld.EType.
Proof. exact ValidateOldRefuted.old_validate_kFlowDecompCycles_refuted_k_float. Qed.
Print Assumptions C19_old_validate_kFlowDecompCycles_refuted_k_float.

(* repaired by 2df6a3b *)
Theorem C19_old_validate_kPathCover_refuted_k0 : exists i, ValidateOld.in_domain_kPathCover i = false /\ ValidateOld.validate_kPathCover i = ValidateOld.AcceptsButUnsolved.
Proof. exact ValidateOldRefuted.old_validate_kPathCover_refuted_k0. Qed.
Print Assumptions C19_old_validate_kPathCover_refuted_k0.

(* repaired by 10a634a *)
Theorem C19_old_validate_MinErrorFlow_refuted_nonstring_cyclic : exists i, ValidateOld.in_domain_MinErrorFlow i = false /\ ValidateOld.validate_MinErrorFlow i = ValidateOld.Accept.
Proof. exact ValidateOldRefuted.old_validate_MinErrorFlow_refuted_nonstring_cyclic. Qed.
Print Assumptions C19_old_validate_MinErrorFlow_refuted_nonstring_cyclic.

(* repaired by 003f186 *)
Theorem C19_old_validate_kFlowDecomp_refuted_non_tuple_item : exists i, ValidateOld.in_domain_kFlowDecomp i = false /\ ValidateOld.validate_kFlowDecomp i = ValidateOld.RaiseOther ValidateOld.EType.
Proof. exact ValidateOldRefuted.old_validate_kFlowDecomp_refuted_non_tuple_item. Qed.
Print Assumptions C19_old_validate_kFlowDecomp_refuted_non_tuple_item.

(* AbstractPathModelDAG:accepted:coverage_length-out-of-range-without-constraints — [old_validate_kPathCover] is the current
   kPathCover with the coverage_length range test still under `if len(subpath_constraints) > 0` *)
Theorem C19_old_validate_kPathCover_refuted_coverage_length :
  exists i, in_domain_kPathCover i = false /\ old_validate_kPathCover i = Accept.
Proof. exact old_validate_kPathCover_refuted_coverage_length. Qed.
Print Assumptions C19_old_validate_kPathCover_refuted_coverage_length.

(* repaired by 29f2322: [old_validate_kErrDAG] / [old_validate_kFlowDecomp] are the current validators with the k handling of the
   code before it (no own test in kLeastAbsErrors / kMinPathError; `k <= 0 or not isinstance(k, int)` in kFlowDecomp) *)
Theorem C19_old_validate_kErrDAG_refuted_k_with_given_weights :
  exists i, in_domain_kErrDAG false i = false /\ k_bad i = true /\ old_validate_kErrDAG i = Accept.
Proof. exact old_validate_kErrDAG_refuted_k_with_given_weights. Qed.
Print Assumptions C19_old_validate_kErrDAG_refuted_k_with_given_weights.
Theorem C19_old_validate_kFlowDecomp_refuted_bool_k_with_given_weights :
  exists i, in_domain_kFlowDecomp i = false /\ old_validate_kFlowDecomp i = Accept.
Proof. exact old_validate_kFlowDecomp_refuted_bool_k_with_given_weights. Qed.
Print Assumptions C19_old_validate_kFlowDecomp_refuted_bool_k_with_given_weights.

(* repaired by 65c87ad *)
Theorem C19_old_accepts_domain_MinPathCoverCycles_refuted_lowerbound_ignores_starts :
  exists i, ValidateOld.in_domain_MinPathCoverCycles i = true /\ ValidateOld.validate_MinPathCoverCycles i = ValidateOld.RaiseValueError.
Proof. exact ValidateOldRefuted.old_accepts_domain_MinPathCoverCycles_refuted_lowerbound_ignores_starts. Qed.
Print Assumptions C19_old_accepts_domain_MinPathCoverCycles_refuted_lowerbound_ignores_starts.

(* ---------------------------------------------------------------- non-vacuity *)
Example C19_nonvacuous_valid :
  in_domain_kFlowDecomp ex_dag = true /\ has_live ex_dag = true /\ deviates_kFlowDecomp ex_dag = false /\
  validate_kFlowDecomp ex_dag = Accept /\ validate_kLeastAbsErrors ex_dag = Accept /\ validate_MinFlowDecomp ex_dag = Accept /\
  in_domain_kFlowDecompCycles ex_graph = true /\ validate_kFlowDecompCycles ex_graph = Accept /\
  validate_MinFlowDecompCycles ex_graph = Accept /\ validate_stDiGraph ex_graph = Accept /\ regular ex_dag = true.
Proof. vm_compute. repeat split; reflexivity. Qed.
Example C19_nonvacuous_invalid :
  let neg := set_elems ex_dag [neg_elem] true in
  let cyc := set_flags ex_dag false true true [true; true] in
  let nonstr := set_flags ex_dag true true true [true; false] in
  let k0 := set_k ex_dag (KInt 0) in
  let kf := set_k ex_dag (KNonInt (5#2)) in
  let cov0 := set_cons ex_dag [] 0%Q in
  let absent := set_cons ex_dag [ {| c_is_list := true; c_items := [ {| it_kind := IPair; it_in_graph := false |} ] |} ] 1%Q in
  in_domain_kFlowDecomp neg = false /\ deviates_kFlowDecomp neg = false /\ validate_kFlowDecomp neg = RaiseValueError /\
  in_domain_kFlowDecomp cyc = false /\ validate_kFlowDecomp cyc = RaiseValueError /\
  in_domain_kFlowDecomp nonstr = false /\ validate_kFlowDecomp nonstr = RaiseValueError /\
  in_domain_kLeastAbsErrors k0 = false /\ validate_kLeastAbsErrors k0 = RaiseValueError /\
  in_domain_kMinPathError kf = false /\ validate_kMinPathError kf = RaiseValueError /\ validate_kPathCover k0 = RaiseValueError /\
  in_domain_kFlowDecomp cov0 = false /\ deviates_kFlowDecomp cov0 = false /\ validate_kFlowDecomp cov0 = RaiseValueError /\
  in_domain_kFlowDecomp absent = false /\ validate_kFlowDecomp absent = RaiseValueError /\
  (let one := [ {| c_is_list := true; c_items := [good_item] |} ] in
   (* a malformed coverage is rejected also when a valid length-based coverage is passed along; a valid one is accepted *)
   validate_kLeastAbsErrors (set_covlen (set_cons ex_dag one (3#2)%Q) (Some (1#2)%Q) true) = RaiseValueError /\
   in_domain_kLeastAbsErrors (set_covlen (set_cons ex_dag one (3#2)%Q) (Some (1#2)%Q) true) = false /\
   validate_kLeastAbsErrors (set_covlen (set_cons ex_dag one 1%Q) (Some (1#2)%Q) true) = Accept /\
   validate_kLeastAbsErrors (set_covlen (set_cons ex_dag one 1%Q) (Some (1#2)%Q) false) = RaiseValueError /\
   validate_kLeastAbsErrors (set_covlen (set_cons ex_dag one (1#2)%Q) (Some (1#2)%Q) true) = RaiseValueError /\
   validate_kLeastAbsErrors (set_covlen ex_dag (Some (3#2)%Q) true) = RaiseValueError /\
   in_domain_kLeastAbsErrors (set_covlen ex_dag (Some (3#2)%Q) true) = false) /\
  (* an invalid k is rejected by kFlowDecomp with and without given weights *)
  validate_kFlowDecomp (set_superset k0 true) = RaiseValueError /\ validate_kFlowDecomp (set_superset kf true) = RaiseValueError /\
  validate_kFlowDecomp (set_k ex_dag (KBool true)) = RaiseValueError /\ validate_kFlowDecomp (set_superset ex_dag true) = Accept /\
  validate_kFlowDecomp (set_superset (set_k ex_dag (KBool true)) true) = RaiseValueError /\
  validate_kLeastAbsErrors (set_superset k0 true) = RaiseValueError /\ validate_kMinPathError (set_superset kf true) = RaiseValueError /\
  validate_kLeastAbsErrors (set_k ex_dag KNone) = RaiseValueError /\ validate_kMinPathError (set_k ex_dag KNone) = Accept /\
  in_domain_kMinPathError (set_k ex_dag KNone) = true /\ validate_kMinPathError (set_k ex_dag KStr) = RaiseValueError /\
  (* node mode: a node-type constraint that contains an EXISTING edge tuple, and node-type followed by edge-type constraints *)
  (let n := {| it_kind := IStr; it_in_graph := true |} in
   validate_kMinPathError (set_origin (set_cons ex_dag [ {| c_is_list := true; c_items := [n; good_item; n] |} ] 1%Q) ONode TFloat) = RaiseValueError /\
   validate_kMinPathError (set_origin (set_cons ex_dag [ {| c_is_list := true; c_items := [n; n] |}; {| c_is_list := true; c_items := [good_item] |} ] 1%Q) ONode TFloat) = RaiseValueError /\
   validate_kMinPathError (set_origin (set_cons ex_dag [ {| c_is_list := true; c_items := [n; n] |} ] 1%Q) ONode TFloat) = Accept) /\
  (* a graph whose only cycle is a self-loop is not a DAG *)
  in_domain_kFlowDecomp (set_loop_pct ex_dag true PNone PNone) = false /\ validate_kFlowDecomp (set_loop_pct ex_dag true PNone PNone) = RaiseValueError /\
  validate_stDAG (set_loop_pct ex_dag true PNone PNone) = RaiseValueError /\
  (* percentile parameters of the cyclic error models *)
  validate_kMinPathErrorCycles (set_loop_pct ex_graph false POutOfRange PNone) = RaiseValueError /\
  validate_kMinPathErrorCycles (set_loop_pct ex_graph false PNone POutOfRange) = RaiseValueError /\
  validate_kLeastAbsErrorsCycles (set_loop_pct ex_graph false PNone POutOfRange) = RaiseValueError /\
  validate_kMinPathErrorCycles (set_loop_pct ex_graph false PInRange PInRange) = Accept /\
  validate_kMinPathErrorCycles (set_elems (set_loop_pct ex_graph false PInRange PNone) [ {| e_w := WMissing; e_ign := false |}; {| e_w := WPos; e_ign := true |} ] true) = RaiseValueError /\
  validate_stDiGraph (set_starts ex_graph false []) = RaiseValueError /\
  validate_MinErrorFlow (set_flags ex_graph false true true [true; false]) = RaiseValueError.
Proof. vm_compute. repeat split; reflexivity. Qed.

(* audit (stranger's reading, 2026-10-02): the hypotheses of the three theorem shapes are jointly satisfiable for one class of each kind --
   DAG k-search model (MinFlowDecomp: has_live, search_enters, deviates), cyclic k-model (kFlowDecompCycles), graph class (stDiGraph),
   MinErrorFlow -- on a valid and on an invalid input each *)
Example C19_sampled_hypotheses_satisfiable :
  in_domain_MinFlowDecomp ex_dag = true /\ has_live ex_dag = true /\ search_enters ex_dag = true /\ deviates_MinFlowDecomp ex_dag = false /\
  (let neg := set_elems ex_dag [neg_elem] true in
   in_domain_MinFlowDecomp neg = false /\ deviates_MinFlowDecomp neg = false /\ validate_MinFlowDecomp neg = RaiseValueError) /\
  in_domain_kFlowDecompCycles ex_graph = true /\ has_live ex_graph = true /\
  (let neg := set_elems ex_graph [neg_elem] true in
   in_domain_kFlowDecompCycles neg = false /\ deviates_kFlowDecompCycles neg = false /\ validate_kFlowDecompCycles neg = RaiseValueError) /\
  in_domain_stDiGraph ex_graph = true /\ in_domain_stDiGraph (set_starts ex_graph false []) = false /\
  in_domain_MinErrorFlow ex_graph = true /\ validate_MinErrorFlow ex_graph = Accept /\
  in_domain_MinErrorFlow (set_flags ex_graph false true true [true; false]) = false.
Proof. vm_compute. repeat split; reflexivity. Qed.
(* degenerate input made explicit: no weighted element at all -- documented domain, but outside [has_live], the premise of
   C19_accepts_domain_kFlowDecomp; the validator does NOT answer Accept there, it records the crash of the code (max() over nothing),
   and [deviates] names it, so C19_validate_complete_kFlowDecomp is silent about it as well *)
Example C19_no_live_element_is_outside_the_accept_theorem :
  let e := set_elems ex_dag [] true in
  in_domain_kFlowDecomp e = true /\ has_live e = false /\ validate_kFlowDecomp e = RaiseOther ESolverAPI /\ deviates_kFlowDecomp e = true.
Proof. vm_compute. repeat split; reflexivity. Qed.
