(* C19 — invalid inputs are rejected with ValueError instead of being solved; valid inputs are accepted.
   ONLY property theorems (closed by [exact]), their assumptions, and non-vacuity examples.
   Model: Validate.v — per exported graph/model class X a transcription [validate_X] of the validation path
   (constructor + solve(), checks in code order) and the documented domain [in_domain_X].  The validators
   are hand-written summaries (thin tie): what relates them to /repo is the malformed-stream correspondence
   harness/engines/c19.py.  The value of the theorems is the exhaustive case analysis in_domain <-> validate.

   For every class:   validate_sound     RaiseValueError => outside the documented domain
                      validate_complete  outside the domain => RaiseValueError, under [deviates_X i = false],
                                         a disjunction naming exactly the known deviations of the pinned code
                      accepts_domain     inside the domain (+ a live weighted element) => Accept
   and for every disjunct of deviates_X a [_refuted] witness: the faithful model is NOT fail-closed there. *)
From Coq Require Import List Bool ZArith QArith.
Import ListNotations.
From FP Require Import Validate ValidateProofs ValidateProofs2 ValidateProofs3 ValidateProofs4.
Local Close Scope Q_scope.

(* The property at full strength, per class: fail-closed with ValueError outside the documented domain, and
   acceptance inside it whenever at least one non-ignored weighted element exists. *)
Definition C19_full_statement (c : cls) : Prop := full_statement c.
Definition C19_full_statement_unfolded (c : cls) : Prop :=
  forall i, (in_domain c i = false -> validate c i = RaiseValueError) /\
            (in_domain c i = true -> has_live i = true -> validate c i = Accept).

(* ---------------------------------------------------------------- stDAG *)
Theorem C19_validate_sound_stDAG : forall i, validate_stDAG i = RaiseValueError -> in_domain_stDAG i = false.
Proof. exact validate_sound_stDAG. Qed.
Print Assumptions C19_validate_sound_stDAG.

Theorem C19_validate_complete_stDAG : forall i, in_domain_stDAG i = false -> validate_stDAG i = RaiseValueError.
Proof. exact validate_complete_stDAG. Qed.
Print Assumptions C19_validate_complete_stDAG.

Theorem C19_accepts_domain_stDAG : forall i, in_domain_stDAG i = true -> validate_stDAG i = Accept.
Proof. exact accepts_domain_stDAG. Qed.
Print Assumptions C19_accepts_domain_stDAG.

(* ---------------------------------------------------------------- stDiGraph *)
Theorem C19_validate_sound_stDiGraph : forall i, validate_stDiGraph i = RaiseValueError -> in_domain_stDiGraph i = false.
Proof. exact validate_sound_stDiGraph. Qed.
Print Assumptions C19_validate_sound_stDiGraph.

Theorem C19_validate_complete_stDiGraph : forall i, in_domain_stDiGraph i = false -> deviates_stDiGraph i = false -> validate_stDiGraph i = RaiseValueError.
Proof. exact validate_complete_stDiGraph. Qed.
Print Assumptions C19_validate_complete_stDiGraph.

Theorem C19_accepts_domain_stDiGraph : forall i, in_domain_stDiGraph i = true -> validate_stDiGraph i = Accept.
Proof. exact accepts_domain_stDiGraph. Qed.
Print Assumptions C19_accepts_domain_stDiGraph.

(* ---------------------------------------------------------------- NodeExpandedDiGraph *)
Theorem C19_validate_sound_NodeExpandedDiGraph : forall i, validate_NodeExpandedDiGraph i = RaiseValueError -> in_domain_NodeExpandedDiGraph i = false.
Proof. exact validate_sound_NodeExpandedDiGraph. Qed.
Print Assumptions C19_validate_sound_NodeExpandedDiGraph.

Theorem C19_validate_complete_NodeExpandedDiGraph : forall i, in_domain_NodeExpandedDiGraph i = false -> validate_NodeExpandedDiGraph i = RaiseValueError.
Proof. exact validate_complete_NodeExpandedDiGraph. Qed.
Print Assumptions C19_validate_complete_NodeExpandedDiGraph.

Theorem C19_accepts_domain_NodeExpandedDiGraph : forall i, in_domain_NodeExpandedDiGraph i = true -> validate_NodeExpandedDiGraph i = Accept.
Proof. exact accepts_domain_NodeExpandedDiGraph. Qed.
Print Assumptions C19_accepts_domain_NodeExpandedDiGraph.

(* ---------------------------------------------------------------- kFlowDecomp *)
Theorem C19_validate_sound_kFlowDecomp : forall i, validate_kFlowDecomp i = RaiseValueError -> in_domain_kFlowDecomp i = false.
Proof. exact validate_sound_kFlowDecomp. Qed.
Print Assumptions C19_validate_sound_kFlowDecomp.

Theorem C19_validate_complete_kFlowDecomp : forall i, in_domain_kFlowDecomp i = false -> deviates_kFlowDecomp i = false -> validate_kFlowDecomp i = RaiseValueError.
Proof. exact validate_complete_kFlowDecomp. Qed.
Print Assumptions C19_validate_complete_kFlowDecomp.

Theorem C19_accepts_domain_kFlowDecomp : forall i, in_domain_kFlowDecomp i = true -> has_live i = true -> validate_kFlowDecomp i = Accept.
Proof. exact accepts_domain_kFlowDecomp. Qed.
Print Assumptions C19_accepts_domain_kFlowDecomp.

(* ---------------------------------------------------------------- MinFlowDecomp *)
Theorem C19_validate_sound_MinFlowDecomp : forall i, validate_MinFlowDecomp i = RaiseValueError -> in_domain_MinFlowDecomp i = false.
Proof. exact validate_sound_MinFlowDecomp. Qed.
Print Assumptions C19_validate_sound_MinFlowDecomp.

Theorem C19_validate_complete_MinFlowDecomp : forall i, in_domain_MinFlowDecomp i = false -> deviates_MinFlowDecomp i = false -> validate_MinFlowDecomp i = RaiseValueError.
Proof. exact validate_complete_MinFlowDecomp. Qed.
Print Assumptions C19_validate_complete_MinFlowDecomp.

Theorem C19_accepts_domain_MinFlowDecomp : forall i, in_domain_MinFlowDecomp i = true -> has_live i = true -> search_enters i = true -> validate_MinFlowDecomp i = Accept.
Proof. exact accepts_domain_MinFlowDecomp. Qed.
Print Assumptions C19_accepts_domain_MinFlowDecomp.

(* ---------------------------------------------------------------- kMinPathError *)
Theorem C19_validate_sound_kMinPathError : forall i, validate_kMinPathError i = RaiseValueError -> in_domain_kMinPathError i = false.
Proof. exact validate_sound_kErrDAG. Qed.
Print Assumptions C19_validate_sound_kMinPathError.

Theorem C19_validate_complete_kMinPathError : forall i, in_domain_kMinPathError i = false -> deviates_kErrDAG i = false -> validate_kMinPathError i = RaiseValueError.
Proof. exact validate_complete_kErrDAG. Qed.
Print Assumptions C19_validate_complete_kMinPathError.

Theorem C19_accepts_domain_kMinPathError : forall i, in_domain_kMinPathError i = true -> has_live i = true -> validate_kMinPathError i = Accept.
Proof. exact accepts_domain_kErrDAG. Qed.
Print Assumptions C19_accepts_domain_kMinPathError.

(* ---------------------------------------------------------------- kLeastAbsErrors *)
Theorem C19_validate_sound_kLeastAbsErrors : forall i, validate_kLeastAbsErrors i = RaiseValueError -> in_domain_kLeastAbsErrors i = false.
Proof. exact validate_sound_kErrDAG. Qed.
Print Assumptions C19_validate_sound_kLeastAbsErrors.

Theorem C19_validate_complete_kLeastAbsErrors : forall i, in_domain_kLeastAbsErrors i = false -> deviates_kErrDAG i = false -> validate_kLeastAbsErrors i = RaiseValueError.
Proof. exact validate_complete_kErrDAG. Qed.
Print Assumptions C19_validate_complete_kLeastAbsErrors.

Theorem C19_accepts_domain_kLeastAbsErrors : forall i, in_domain_kLeastAbsErrors i = true -> has_live i = true -> validate_kLeastAbsErrors i = Accept.
Proof. exact accepts_domain_kErrDAG. Qed.
Print Assumptions C19_accepts_domain_kLeastAbsErrors.

(* ---------------------------------------------------------------- kPathCover *)
Theorem C19_validate_sound_kPathCover : forall i, validate_kPathCover i = RaiseValueError -> in_domain_kPathCover i = false.
Proof. exact validate_sound_kPathCover. Qed.
Print Assumptions C19_validate_sound_kPathCover.

Theorem C19_validate_complete_kPathCover : forall i, in_domain_kPathCover i = false -> deviates_kPathCover i = false -> validate_kPathCover i = RaiseValueError.
Proof. exact validate_complete_kPathCover. Qed.
Print Assumptions C19_validate_complete_kPathCover.

Theorem C19_accepts_domain_kPathCover : forall i, in_domain_kPathCover i = true -> validate_kPathCover i = Accept.
Proof. exact accepts_domain_kPathCover. Qed.
Print Assumptions C19_accepts_domain_kPathCover.

(* ---------------------------------------------------------------- MinPathCover *)
Theorem C19_validate_sound_MinPathCover : forall i, validate_MinPathCover i = RaiseValueError -> in_domain_MinPathCover i = false.
Proof. exact validate_sound_MinPathCover. Qed.
Print Assumptions C19_validate_sound_MinPathCover.

Theorem C19_validate_complete_MinPathCover : forall i, in_domain_MinPathCover i = false -> deviates_MinPathCover i = false -> validate_MinPathCover i = RaiseValueError.
Proof. exact validate_complete_MinPathCover. Qed.
Print Assumptions C19_validate_complete_MinPathCover.

Theorem C19_accepts_domain_MinPathCover : forall i, in_domain_MinPathCover i = true -> search_enters i = true -> validate_MinPathCover i = Accept.
Proof. exact accepts_domain_MinPathCover. Qed.
Print Assumptions C19_accepts_domain_MinPathCover.

(* ---------------------------------------------------------------- MinErrorFlow *)
Theorem C19_validate_sound_MinErrorFlow : forall i, validate_MinErrorFlow i = RaiseValueError -> in_domain_MinErrorFlow i = false.
Proof. exact validate_sound_MinErrorFlow. Qed.
Print Assumptions C19_validate_sound_MinErrorFlow.

Theorem C19_validate_complete_MinErrorFlow : forall i, in_domain_MinErrorFlow i = false -> deviates_MinErrorFlow i = false -> validate_MinErrorFlow i = RaiseValueError.
Proof. exact validate_complete_MinErrorFlow. Qed.
Print Assumptions C19_validate_complete_MinErrorFlow.

Theorem C19_accepts_domain_MinErrorFlow : forall i, in_domain_MinErrorFlow i = true -> validate_MinErrorFlow i = Accept.
Proof. exact accepts_domain_MinErrorFlow. Qed.
Print Assumptions C19_accepts_domain_MinErrorFlow.

(* ---------------------------------------------------------------- kFlowDecompCycles *)
Theorem C19_validate_sound_kFlowDecompCycles : forall i, validate_kFlowDecompCycles i = RaiseValueError -> in_domain_kFlowDecompCycles i = false.
Proof. exact validate_sound_kFlowDecompCycles. Qed.
Print Assumptions C19_validate_sound_kFlowDecompCycles.

Theorem C19_validate_complete_kFlowDecompCycles : forall i, in_domain_kFlowDecompCycles i = false -> deviates_kFlowDecompCycles i = false -> validate_kFlowDecompCycles i = RaiseValueError.
Proof. exact validate_complete_kFlowDecompCycles. Qed.
Print Assumptions C19_validate_complete_kFlowDecompCycles.

Theorem C19_accepts_domain_kFlowDecompCycles : forall i, in_domain_kFlowDecompCycles i = true -> has_live i = true -> validate_kFlowDecompCycles i = Accept.
Proof. exact accepts_domain_kFlowDecompCycles. Qed.
Print Assumptions C19_accepts_domain_kFlowDecompCycles.

(* ---------------------------------------------------------------- MinFlowDecompCycles *)
Theorem C19_validate_sound_MinFlowDecompCycles : forall i, has_live i = true -> nat_st i = true -> no_extra i = true -> validate_MinFlowDecompCycles i = RaiseValueError -> in_domain_MinFlowDecompCycles i = false.
Proof. exact validate_sound_MinFlowDecompCycles. Qed.
Print Assumptions C19_validate_sound_MinFlowDecompCycles.

Theorem C19_validate_complete_MinFlowDecompCycles : forall i, in_domain_MinFlowDecompCycles i = false -> deviates_MinFlowDecompCycles i = false -> validate_MinFlowDecompCycles i = RaiseValueError.
Proof. exact validate_complete_MinFlowDecompCycles. Qed.
Print Assumptions C19_validate_complete_MinFlowDecompCycles.

Theorem C19_accepts_domain_MinFlowDecompCycles : forall i, in_domain_MinFlowDecompCycles i = true -> has_live i = true -> search_enters i = true -> nat_st i = true -> no_extra i = true -> validate_MinFlowDecompCycles i = Accept.
Proof. exact accepts_domain_MinFlowDecompCycles. Qed.
Print Assumptions C19_accepts_domain_MinFlowDecompCycles.

(* ---------------------------------------------------------------- kMinPathErrorCycles *)
Theorem C19_validate_sound_kMinPathErrorCycles : forall i, validate_kMinPathErrorCycles i = RaiseValueError -> in_domain_kMinPathErrorCycles i = false.
Proof. exact validate_sound_kErrCycles. Qed.
Print Assumptions C19_validate_sound_kMinPathErrorCycles.

Theorem C19_validate_complete_kMinPathErrorCycles : forall i, in_domain_kMinPathErrorCycles i = false -> deviates_kErrCycles i = false -> validate_kMinPathErrorCycles i = RaiseValueError.
Proof. exact validate_complete_kErrCycles. Qed.
Print Assumptions C19_validate_complete_kMinPathErrorCycles.

Theorem C19_accepts_domain_kMinPathErrorCycles : forall i, in_domain_kMinPathErrorCycles i = true -> has_live i = true -> validate_kMinPathErrorCycles i = Accept.
Proof. exact accepts_domain_kErrCycles. Qed.
Print Assumptions C19_accepts_domain_kMinPathErrorCycles.

(* ---------------------------------------------------------------- kLeastAbsErrorsCycles *)
Theorem C19_validate_sound_kLeastAbsErrorsCycles : forall i, validate_kLeastAbsErrorsCycles i = RaiseValueError -> in_domain_kLeastAbsErrorsCycles i = false.
Proof. exact validate_sound_kErrCycles. Qed.
Print Assumptions C19_validate_sound_kLeastAbsErrorsCycles.

Theorem C19_validate_complete_kLeastAbsErrorsCycles : forall i, in_domain_kLeastAbsErrorsCycles i = false -> deviates_kErrCycles i = false -> validate_kLeastAbsErrorsCycles i = RaiseValueError.
Proof. exact validate_complete_kErrCycles. Qed.
Print Assumptions C19_validate_complete_kLeastAbsErrorsCycles.

Theorem C19_accepts_domain_kLeastAbsErrorsCycles : forall i, in_domain_kLeastAbsErrorsCycles i = true -> has_live i = true -> validate_kLeastAbsErrorsCycles i = Accept.
Proof. exact accepts_domain_kErrCycles. Qed.
Print Assumptions C19_accepts_domain_kLeastAbsErrorsCycles.

(* ---------------------------------------------------------------- kPathCoverCycles *)
Theorem C19_validate_sound_kPathCoverCycles : forall i, validate_kPathCoverCycles i = RaiseValueError -> in_domain_kPathCoverCycles i = false.
Proof. exact validate_sound_kPathCoverCycles. Qed.
Print Assumptions C19_validate_sound_kPathCoverCycles.

Theorem C19_validate_complete_kPathCoverCycles : forall i, in_domain_kPathCoverCycles i = false -> deviates_kPathCoverCycles i = false -> validate_kPathCoverCycles i = RaiseValueError.
Proof. exact validate_complete_kPathCoverCycles. Qed.
Print Assumptions C19_validate_complete_kPathCoverCycles.

Theorem C19_accepts_domain_kPathCoverCycles : forall i, in_domain_kPathCoverCycles i = true -> validate_kPathCoverCycles i = Accept.
Proof. exact accepts_domain_kPathCoverCycles. Qed.
Print Assumptions C19_accepts_domain_kPathCoverCycles.

(* ---------------------------------------------------------------- MinPathCoverCycles *)
Theorem C19_validate_sound_MinPathCoverCycles : forall i, nat_st i = true -> validate_MinPathCoverCycles i = RaiseValueError -> in_domain_MinPathCoverCycles i = false.
Proof. exact validate_sound_MinPathCoverCycles. Qed.
Print Assumptions C19_validate_sound_MinPathCoverCycles.

Theorem C19_validate_complete_MinPathCoverCycles : forall i, in_domain_MinPathCoverCycles i = false -> deviates_MinPathCoverCycles i = false -> validate_MinPathCoverCycles i = RaiseValueError.
Proof. exact validate_complete_MinPathCoverCycles. Qed.
Print Assumptions C19_validate_complete_MinPathCoverCycles.

Theorem C19_accepts_domain_MinPathCoverCycles : forall i, in_domain_MinPathCoverCycles i = true -> search_enters i = true -> nat_st i = true -> validate_MinPathCoverCycles i = Accept.
Proof. exact accepts_domain_MinPathCoverCycles. Qed.
Print Assumptions C19_accepts_domain_MinPathCoverCycles.

(* ---------------------------------------------------------------- full statement: holds / refuted *)
Theorem C19_full_stDAG : C19_full_statement CstDAG.
Proof. exact full_stDAG. Qed.
Print Assumptions C19_full_stDAG.
Theorem C19_full_NodeExpandedDiGraph : C19_full_statement CNodeExpandedDiGraph.
Proof. exact full_NodeExpandedDiGraph. Qed.
Print Assumptions C19_full_NodeExpandedDiGraph.

(* the faithful model of the pinned code violates the full statement for every other class; the witnesses
   below are replayed on the implementation by the engine (known_findings.json keys in parentheses) *)
Theorem C19_full_statement_refuted : forall c, c <> CstDAG -> c <> CNodeExpandedDiGraph -> ~ C19_full_statement c.
Proof. exact full_statement_refuted. Qed.
Print Assumptions C19_full_statement_refuted.

(* stDiGraph:source-sink-test-fooled:single-char-node-names (DESIGN #20) *)
Theorem C19_validate_stDiGraph_refuted : exists i, in_domain_stDiGraph i = false /\ validate_stDiGraph i = Accept.
Proof. exact validate_stDiGraph_refuted. Qed.
Print Assumptions C19_validate_stDiGraph_refuted.
Theorem C19_validate_kFlowDecompCycles_refuted_fooled :
  exists i, in_domain_kFlowDecompCycles i = false /\ validate_kFlowDecompCycles i = RaiseOther ECrash.
Proof. exact validate_kFlowDecompCycles_refuted_fooled. Qed.
Print Assumptions C19_validate_kFlowDecompCycles_refuted_fooled.
(* kFlowDecomp._get_solution_with_greedy:KeyError|TypeError:unvalidated-constraints (DESIGN #21) *)
Theorem C19_validate_kFlowDecomp_refuted_absent_edge :
  exists i, in_domain_kFlowDecomp i = false /\ validate_kFlowDecomp i = RaiseOther EKey.
Proof. exact validate_kFlowDecomp_refuted_absent_edge. Qed.
Print Assumptions C19_validate_kFlowDecomp_refuted_absent_edge.
Theorem C19_validate_kFlowDecomp_refuted_malformed_item :
  exists i, in_domain_kFlowDecomp i = false /\ validate_kFlowDecomp i = RaiseOther EType.
Proof. exact validate_kFlowDecomp_refuted_malformed_item. Qed.
Print Assumptions C19_validate_kFlowDecomp_refuted_malformed_item.
(* AbstractPathModelDAG:accepted:coverage-out-of-range-without-constraints *)
Theorem C19_validate_kFlowDecomp_refuted_coverage :
  exists i, in_domain_kFlowDecomp i = false /\ validate_kFlowDecomp i = Accept.
Proof. exact validate_kFlowDecomp_refuted_coverage. Qed.
Print Assumptions C19_validate_kFlowDecomp_refuted_coverage.
(* NodeExpandedDiGraph.get_expanded_subpath_constraints:IndexError:first-constraint-empty *)
Theorem C19_validate_kFlowDecomp_refuted_empty_constraint :
  exists i, in_domain_kFlowDecomp i = false /\ validate_kFlowDecomp i = RaiseOther EIndex.
Proof. exact validate_kFlowDecomp_refuted_empty_constraint. Qed.
Print Assumptions C19_validate_kFlowDecomp_refuted_empty_constraint.
(* Min-models:validation-skipped:empty-k-range (consequence of DESIGN #1) *)
Theorem C19_validate_MinFlowDecomp_refuted_empty_search :
  exists i, in_domain_MinFlowDecomp i = false /\ validate_MinFlowDecomp i = AcceptsButUnsolved.
Proof. exact validate_MinFlowDecomp_refuted_empty_search. Qed.
Print Assumptions C19_validate_MinFlowDecomp_refuted_empty_search.
Theorem C19_accepts_domain_MinFlowDecomp_refuted_empty_search :
  exists i, in_domain_MinFlowDecomp i = true /\ has_live i = true /\ validate_MinFlowDecomp i = AcceptsButUnsolved.
Proof. exact accepts_domain_MinFlowDecomp_refuted_empty_search. Qed.
Print Assumptions C19_accepts_domain_MinFlowDecomp_refuted_empty_search.
(* kLeastAbsErrors:UnboundLocalError:k<=0, kMinPathError:UnboundLocalError:k<=0 (DESIGN #17); k-models:TypeError:non-integer-k *)
Theorem C19_validate_kLeastAbsErrors_refuted_k0 :
  exists i, in_domain_kLeastAbsErrors i = false /\ validate_kLeastAbsErrors i = RaiseOther EUnboundLocal.
Proof. exact validate_kErrDAG_refuted_k0. Qed.
Print Assumptions C19_validate_kLeastAbsErrors_refuted_k0.
Theorem C19_validate_kMinPathError_refuted_k0 :
  exists i, in_domain_kMinPathError i = false /\ validate_kMinPathError i = RaiseOther EUnboundLocal.
Proof. exact validate_kErrDAG_refuted_k0. Qed.
Print Assumptions C19_validate_kMinPathError_refuted_k0.
Theorem C19_validate_kMinPathError_refuted_k_float :
  exists i, in_domain_kMinPathError i = false /\ validate_kMinPathError i = RaiseOther EType.
Proof. exact validate_kErrDAG_refuted_k_float. Qed.
Print Assumptions C19_validate_kMinPathError_refuted_k_float.
Theorem C19_validate_kFlowDecompCycles_refuted_k_float :
  exists i, in_domain_kFlowDecompCycles i = false /\ validate_kFlowDecompCycles i = RaiseOther EType.
Proof. exact validate_kFlowDecompCycles_refuted_k_float. Qed.
Print Assumptions C19_validate_kFlowDecompCycles_refuted_k_float.
(* kPathCover:accepted-unsolved:k<=0 (DESIGN #17) *)
Theorem C19_validate_kPathCover_refuted_k0 :
  exists i, in_domain_kPathCover i = false /\ validate_kPathCover i = AcceptsButUnsolved.
Proof. exact validate_kPathCover_refuted_k0. Qed.
Print Assumptions C19_validate_kPathCover_refuted_k0.
(* MinErrorFlow:accepted:non-string-nodes-in-cyclic-graph *)
Theorem C19_validate_MinErrorFlow_refuted_nonstring_cyclic :
  exists i, in_domain_MinErrorFlow i = false /\ validate_MinErrorFlow i = Accept.
Proof. exact validate_MinErrorFlow_refuted_nonstring_cyclic. Qed.
Print Assumptions C19_validate_MinErrorFlow_refuted_nonstring_cyclic.
(* kFlowDecompCycles:unsolved-not-ValueError:non-conserving-flow (DESIGN #21) *)
Theorem C19_validate_kFlowDecompCycles_refuted_nonconserving :
  exists i, in_domain_kFlowDecompCycles i = false /\ validate_kFlowDecompCycles i = AcceptsButUnsolved.
Proof. exact validate_kFlowDecompCycles_refuted_nonconserving. Qed.
Print Assumptions C19_validate_kFlowDecompCycles_refuted_nonconserving.
Theorem C19_validate_MinFlowDecompCycles_refuted_nonconserving :
  exists i, in_domain_MinFlowDecompCycles i = false /\ validate_MinFlowDecompCycles i = AcceptsButUnsolved.
Proof. exact validate_MinFlowDecompCycles_refuted_nonconserving. Qed.
Print Assumptions C19_validate_MinFlowDecompCycles_refuted_nonconserving.
(* valid inputs that are rejected: MinPathCoverCycles/MinFlowDecompCycles:ValueError:lower-bound-ignores-additional-starts,
   MinFlowDecompCycles:ValueError:node-mode-additional-starts *)
Theorem C19_accepts_domain_MinPathCoverCycles_refuted_lowerbound_ignores_starts :
  exists i, in_domain_MinPathCoverCycles i = true /\ validate_MinPathCoverCycles i = RaiseValueError.
Proof. exact accepts_domain_MinPathCoverCycles_refuted_lowerbound_ignores_starts. Qed.
Print Assumptions C19_accepts_domain_MinPathCoverCycles_refuted_lowerbound_ignores_starts.
Theorem C19_accepts_domain_MinFlowDecompCycles_refuted_node_mode_starts :
  exists i, in_domain_MinFlowDecompCycles i = true /\ has_live i = true /\ validate_MinFlowDecompCycles i = RaiseValueError.
Proof. exact accepts_domain_MinFlowDecompCycles_refuted_node_mode_starts. Qed.
Print Assumptions C19_accepts_domain_MinFlowDecompCycles_refuted_node_mode_starts.

(* ---------------------------------------------------------------- non-vacuity *)
(* a concrete well-formed input is in the domain of every DAG model and accepted; single violations of it are
   outside the domain and rejected with ValueError by the model *)
Example C19_nonvacuous_valid :
  in_domain_kFlowDecomp ex_dag = true /\ has_live ex_dag = true /\ deviates_kFlowDecomp ex_dag = false /\
  validate_kFlowDecomp ex_dag = Accept /\ validate_kLeastAbsErrors ex_dag = Accept /\ validate_MinFlowDecomp ex_dag = Accept /\
  in_domain_kFlowDecompCycles ex_graph = true /\ validate_kFlowDecompCycles ex_graph = Accept /\
  validate_MinFlowDecompCycles ex_graph = Accept /\ validate_stDiGraph ex_graph = Accept.
Proof. vm_compute. repeat split; reflexivity. Qed.
Example C19_nonvacuous_invalid :
  let neg := set_elems ex_dag [neg_elem] true in
  let cyc := set_flags ex_dag false true true [true; true] in
  let nonstr := set_flags ex_dag true true true [true; false] in
  let k0 := set_k ex_dag (KInt 0) in
  let cov0 := set_cons ex_dag [ {| c_is_list := true; c_items := [good_item]; c_greedy_ok := true |} ] 0%Q in
  in_domain_kFlowDecomp neg = false /\ deviates_kFlowDecomp neg = false /\ validate_kFlowDecomp neg = RaiseValueError /\
  in_domain_kFlowDecomp cyc = false /\ deviates_kFlowDecomp cyc = false /\ validate_kFlowDecomp cyc = RaiseValueError /\
  in_domain_kFlowDecomp nonstr = false /\ validate_kFlowDecomp nonstr = RaiseValueError /\
  in_domain_kFlowDecomp k0 = false /\ validate_kFlowDecomp k0 = RaiseValueError /\
  in_domain_kFlowDecomp cov0 = false /\ deviates_kFlowDecomp cov0 = false /\ validate_kFlowDecomp cov0 = RaiseValueError /\
  validate_stDiGraph (with_nosource ex_graph false) = RaiseValueError.
Proof. vm_compute. repeat split; reflexivity. Qed.
