(* C03 — MinFlowDecomp for NODE-weighted input, in the caller's terms (NodeFlowE2E.v).  Only Theorem / exact / Print Assumptions and a
   non-vacuity Example.  node_decomposition V E fv ign D: D is a list of (source-to-sink path of the caller's DAG (DilworthNode.nroute),
   non-negative integer weight) such that for every node of V outside ign (ign = explicitly ignored nodes and nodes without the
   attribute) the weights of the paths through it add up to its weight fv.  node_inst: the instance node mode hands to the edge
   model: the node expansion (v.0 = 2v, v.1 = 2v+1; DilworthNode.expE, tied to NodeExpandedDiGraph by C11 / expE_is_xrel) with flow
   fv v on the node edge of v and the connecting edges plus the ignored nodes' edges in the ignore list. *)
From Coq Require Import List NArith ZArith QArith Bool Arith Lia.
Import ListNotations.
From FP Require Import Lin PathEnc PathEncComplete EndToEnd1 Search DilworthNode NodeFlowE2E.
Local Close Scope Q_scope.

(* key lemma: node decompositions with k paths <-> decompositions of the expanded instance with k paths *)
Theorem C03_node_decomposition_iff :
  forall (V : list node) (E : list PathEnc.edge) (s t : node) (topo : list node) (fv : node -> Z) (ign : list node) (wmax : Z),
  ~ In s (expV V) -> ~ In t (expV V) -> s <> t -> (forall e, In e E -> In (fst e) V /\ In (snd e) V) ->
  (forall u v, In (u, v) E -> (posn topo u < posn topo v)%nat) -> incl V topo ->
  (forall v, In v V -> ~ In v ign -> (fv v <= wmax)%Z) -> (0 <= wmax)%Z ->
  forall k, (exists D, length D = k /\ node_decomposition V E fv ign D) <->
            (exists P w, decomposition (node_inst V E s t fv ign wmax k) P w).
Proof. exact node_decomposition_iff. Qed.
Print Assumptions C03_node_decomposition_iff.

Theorem C03_node_k_model_feasible_iff :
  forall (V : list node) (E : list PathEnc.edge) (s t : node) (topo : list node) (fv : node -> Z) (ign : list node) (wmax : Z),
  ~ In s (expV V) -> ~ In t (expV V) -> s <> t -> (forall e, In e E -> In (fst e) V /\ In (snd e) V) -> NoDup V -> NoDup E ->
  (forall u v, In (u, v) E -> (posn topo u < posn topo v)%nat) -> incl V topo ->
  (forall v, In v V -> ~ In v ign -> (fv v <= wmax)%Z) -> (0 <= wmax)%Z ->
  forall k, (exists a, sat a (encode_kfd (node_inst V E s t fv ign wmax k))) <->
            (exists D, length D = k /\ node_decomposition V E fv ign D).
Proof. exact node_k_model_feasible_iff. Qed.
Print Assumptions C03_node_k_model_feasible_iff.

(* end to end: the search returns the least number of paths of any node decomposition; the expansion appears only in the
   solver-specification hypothesis *)
Theorem C03_node_minflowdecomp_returns_the_minimum :
  forall (V : list node) (E : list PathEnc.edge) (s t : node) (topo : list node) (fv : node -> Z) (ign : list node) (wmax : Z)
         (feasible : nat -> bool) (lb : nat) (sts : list raw),
  NoDup V -> NoDup E -> (forall e, In e E -> In (fst e) V /\ In (snd e) V) ->
  (forall u v, In (u, v) E -> (posn topo u < posn topo v)%nat) -> incl V topo ->
  ~ In s (expV V) -> ~ In t (expV V) -> s <> t ->
  (forall v, In v V -> ~ In v ign -> (fv v <= wmax)%Z) -> (0 <= wmax)%Z ->
  (forall k, feasible k = true <-> exists a, sat a (encode_kfd (node_inst V E s t fv ign wmax k))) ->
  (forall i, (i < S (length (expE V E)) - lb)%nat -> exists x, nth_error sts i = Some x /\
             status_of x = if feasible (lb + i)%nat then Optimal else Infeasible) ->
  (forall k, (k < lb)%nat -> feasible k = false) ->
  (exists D0, (length D0 <= length (expE V E))%nat /\ node_decomposition V E fv ign D0) ->
  exists kopt,
    so_res (mpc_solve true lb (S (length (expE V E))) sts) = Solved kopt /\
    (exists D, length D = kopt /\ node_decomposition V E fv ign D) /\
    (forall k, (k < kopt)%nat -> ~ exists D, length D = k /\ node_decomposition V E fv ign D).
Proof. exact node_minflowdecomp_returns_the_minimum. Qed.
Print Assumptions C03_node_minflowdecomp_returns_the_minimum.

(* non-vacuity: the diamond 1 -> {2, 3} -> 4 with node weights 5, 3, (node 3 ignored), 5 meets every premise about the caller's
   input, has a node decomposition with 2 paths and none with 1 *)
Example C03_node_premises_satisfiable :
  NoDup nxV /\ NoDup nxE /\ (forall e, In e nxE -> In (fst e) nxV /\ In (snd e) nxV) /\
  (forall u v, In (u, v) nxE -> (posn nxV u < posn nxV v)%nat) /\ incl nxV nxV /\
  ~ In 100%N (expV nxV) /\ ~ In 101%N (expV nxV) /\ 100%N <> 101%N /\
  (forall v, In v nxV -> ~ In v [3%N] -> (nxfv v <= 5)%Z) /\
  node_decomposition nxV nxE nxfv [3%N] nxD /\ (length nxD <= length (expE nxV nxE))%nat /\
  ~ (exists D, length D = 1%nat /\ node_decomposition nxV nxE nxfv [3%N] D).
Proof. exact nx_premises. Qed.
Print Assumptions C03_node_premises_satisfiable.

(* ---------------------------------------------------------------------------------------------------------------------------------- *)
(* WITH additional_starts / additional_ends (NodeFlowST.v).  The caller passes S, T: a node path may start at any node of S as well as
   at a node without in-edges and end at any node of T as well as at a node without out-edges (DilworthNode.nwalk V E S T); the
   library attaches the global source to v.0 for v in S and v.1 to the global sink for v in T (node_instST: Aug.aug_edges with
   map x0 S / map x1 T, cf. C10_additional_starts_attach_exactly).  The theorems above are the instances S = T = []. *)
From FP Require Import Aug NodeFlowST.

Theorem C03_node_decomposition_iff_with_starts_ends :
  forall (V : list node) (E : list PathEnc.edge) (S T : list node) (s t : node) (topo : list node) (fv : node -> Z) (ign : list node) (wmax : Z),
  ~ In s (expV V) -> ~ In t (expV V) -> s <> t -> (forall e, In e E -> In (fst e) V /\ In (snd e) V) ->
  (forall u v, In (u, v) E -> (posn topo u < posn topo v)%nat) -> incl V topo ->
  (forall v, In v V -> ~ In v ign -> (fv v <= wmax)%Z) -> (0 <= wmax)%Z ->
  forall k, (exists D, length D = k /\ node_decompositionST V E S T fv ign D) <->
            (exists P w, decomposition (node_instST V E S T s t fv ign wmax k) P w).
Proof. exact node_decomposition_iffST. Qed.
Print Assumptions C03_node_decomposition_iff_with_starts_ends.

Theorem C03_node_minflowdecomp_returns_the_minimum_with_starts_ends :
  forall (V : list node) (E : list PathEnc.edge) (S T : list node) (s t : node) (topo : list node) (fv : node -> Z) (ign : list node) (wmax : Z)
         (feasible : nat -> bool) (lb : nat) (sts : list raw),
  NoDup V -> NoDup E -> (forall e, In e E -> In (fst e) V /\ In (snd e) V) ->
  (forall u v, In (u, v) E -> (posn topo u < posn topo v)%nat) -> incl V topo ->
  ~ In s (expV V) -> ~ In t (expV V) -> s <> t ->
  (forall v, In v V -> ~ In v ign -> (fv v <= wmax)%Z) -> (0 <= wmax)%Z ->
  (forall k, feasible k = true <-> exists a, sat a (encode_kfd (node_instST V E S T s t fv ign wmax k))) ->
  (forall i, (i < Datatypes.S (length (expE V E)) - lb)%nat -> exists x, nth_error sts i = Some x /\
             status_of x = if feasible (lb + i)%nat then Optimal else Infeasible) ->
  (forall k, (k < lb)%nat -> feasible k = false) ->
  (exists D0, (length D0 <= length (expE V E))%nat /\ node_decompositionST V E S T fv ign D0) ->
  exists kopt,
    so_res (mpc_solve true lb (Datatypes.S (length (expE V E))) sts) = Solved kopt /\
    (exists D, length D = kopt /\ node_decompositionST V E S T fv ign D) /\
    (forall k, (k < kopt)%nat -> ~ exists D, length D = k /\ node_decompositionST V E S T fv ign D).
Proof. exact node_minflowdecomp_returns_the_minimum_ST. Qed.
Print Assumptions C03_node_minflowdecomp_returns_the_minimum_with_starts_ends.

(* S = T = [] gives back the notions of the first part *)
Theorem C03_node_decomposition_without_starts_ends : forall V E fv ign D,
  node_decompositionST V E [] [] fv ign D <-> node_decomposition V E fv ign D.
Proof. exact node_decomposition_nil_iff. Qed.
Print Assumptions C03_node_decomposition_without_starts_ends.

(* non-vacuity: the chain 1 -> 2 -> 3 with node weights 2, 5, 5: without additional starts no node decomposition exists at all; with
   the inner node 2 as additional start there is one with 2 paths (2-3 with weight 3, 1-2-3 with weight 2) and none with 1 *)
Example C03_node_additional_start_needed :
  NoDup sxV /\ NoDup sxE /\ (forall e, In e sxE -> In (fst e) sxV /\ In (snd e) sxV) /\
  (forall u v, In (u, v) sxE -> (posn sxV u < posn sxV v)%nat) /\ incl sxV sxV /\
  ~ In 100%N (expV sxV) /\ ~ In 101%N (expV sxV) /\ 100%N <> 101%N /\
  (forall v, In v sxV -> ~ In v [] -> (sxfv v <= 5)%Z) /\
  (forall D, ~ node_decompositionST sxV sxE [] [] sxfv [] D) /\
  node_decompositionST sxV sxE [2%N] [] sxfv [] sxD /\ (length sxD <= length (expE sxV sxE))%nat /\
  ~ (exists D, length D = 1%nat /\ node_decompositionST sxV sxE [2%N] [] sxfv [] D).
Proof. exact sx_premises. Qed.
Print Assumptions C03_node_additional_start_needed.
