(* C04 — the E1 comparison of the cyclic LPs is itself verified: every instance of the streams of the C04 engine
   (kFlowDecompCycles stand-alone and per k inside MinFlowDecompCycles, kPathCoverCycles) is decided by the extracted checker
   LinEquiv.milp_equiv_b (driver commands kfdc_eq / kpcc_eq / walks_eq).  When it accepts, the LP read back from the solver and
   the model's LP (WalkEncRows.encode_kfdc / encode_kpcc) have the same satisfying assignments, the same objective function
   and direction, hence the same optimal solutions: every theorem of Props/C04.v / C04_complete.v about
   `sat a (encode_kfdc I)` holds for the LP the implementation built on that instance. *)
From Coq Require Import List NArith ZArith QArith Bool.
From FP Require Import Lin LinEquiv.
Local Close Scope Q_scope.

Theorem C04_lp_comparison_is_verified : forall (m1 m2 : milp), milp_equiv_b m1 m2 = true ->
  (forall a, sat a m1 <-> sat a m2) /\ (forall a, (objective a m1 == objective a m2)%Q) /\ maximize m1 = maximize m2.
Proof. exact milp_equiv_sound. Qed.
Print Assumptions C04_lp_comparison_is_verified.

Theorem C04_equivalent_lps_have_the_same_optima : forall (m1 m2 : milp), milp_equiv_b m1 m2 = true ->
  forall a, (sat a m1 /\ forall b, sat b m1 -> obj_le m1 a b) <-> (sat a m2 /\ forall b, sat b m2 -> obj_le m2 a b).
Proof. exact milp_equiv_optimal. Qed.
Print Assumptions C04_equivalent_lps_have_the_same_optima.

(* non-vacuity: the checker accepts a model LP against itself and rejects a changed bound *)
From FP Require Import PathEnc WalkEncRows WalkExamples.
Example C04_lp_checker_nonvacuous :
  milp_equiv_b (encode_kfdc (loop_inst 2)) (encode_kfdc (loop_inst 2)) = true /\
  milp_equiv_b (encode_kfdc (loop_inst 2)) (encode_kfdc (loop_inst 1)) = false.
Proof. split; vm_compute; reflexivity. Qed.
