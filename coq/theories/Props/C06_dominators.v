(* C06 — the dominator route to safe sequences in digraphs with cycles (safetypathcoverscycles.py / dominators.py).
   Only property theorems (closed by [exact]), their assumptions and non-vacuity examples.  Walks are lists of arcs as in Props/C06.v. *)
From Coq Require Import List NArith ZArith Bool Arith Lia.
Import ListNotations.
From FP Require Import SafetyReach Safety DomSpec.

(* arc dominance, declaratively: d t-dominates the node v when every walk from v to t contains d.  In EVERY digraph (cycles,
   self-loops) the t-dominators of a reachable node are totally ordered: there is a duplicate-free list of all of them that every
   v-t walk meets in this order, and that list is unique *)
Theorem C06_dominators_are_totally_ordered : forall (G : graph) (v t : node),
  (exists w, st_walk G v t w) -> exists bs, dom_order G v t bs.
Proof. exact dominators_totally_ordered. Qed.
Print Assumptions C06_dominators_are_totally_ordered.

Theorem C06_dominator_order_is_unique : forall (G : graph) (v t : node) (bs bs' : list edge),
  dom_order G v t bs -> dom_order G v t bs' -> bs = bs'.
Proof. exact dom_order_unique. Qed.
Print Assumptions C06_dominator_order_is_unique.

(* the order is the one in which any duplicate-free walk meets them (what the algorithm exploits) *)
Theorem C06_dominator_order_from_any_simple_walk : forall (G : graph) (v t : node) (p : list edge),
  st_walk G v t p -> NoDup p -> dom_order G v t (filter (bridgeb G v t) p).
Proof. exact dom_order_of_path. Qed.
Print Assumptions C06_dominator_order_from_any_simple_walk.

(* the dominator chain of an arc (u, v): its s-dominators, the arc, its t-dominators -- the sequence
   maximal_safe_sequences_via_dominators returns for a core arc -- occurs in order in every source-to-sink walk through the arc *)
Theorem C06_dominator_chain_in_every_walk : forall (G : graph) (s t u v : node) (bl br : list edge),
  dom_order G s u bl -> dom_order G v t br ->
  forall W, st_walk G s t W -> In (u, v) W -> subseq (bl ++ (u, v) :: br) W.
Proof. exact dominator_chain_in_every_walk. Qed.
Print Assumptions C06_dominator_chain_in_every_walk.

(* hence it is safe in the sense of Safety.v for every set of trusted arcs containing the arc ... *)
Theorem C06_dominator_chain_is_safe : forall (G : graph) (s t : node) (X : list edge) (u v : node) (bl br : list edge),
  In (u, v) X -> dom_order G s u bl -> dom_order G v t br -> safe_for_edges G s t X (bl ++ (u, v) :: br).
Proof. exact dominator_chain_is_safe. Qed.
Print Assumptions C06_dominator_chain_is_safe.

(* ... and so is every sub-sequence, in particular the chain restricted to X (idom_X) *)
Theorem C06_filtered_dominator_chain_is_safe : forall (G : graph) (s t : node) (X : list edge) (u v : node) (bl br : list edge)
    (keep : edge -> bool),
  In (u, v) X -> dom_order G s u bl -> dom_order G v t br -> safe_for_edges G s t X (filter keep (bl ++ (u, v) :: br)).
Proof. exact filtered_dominator_chain_is_safe. Qed.
Print Assumptions C06_filtered_dominator_chain_is_safe.

(* maximality: an arc that is neither the arc itself nor one of its dominators is avoided by some source-to-sink walk through it *)
Theorem C06_non_dominator_is_avoidable : forall (G : graph) (s t u v : node) (d : edge),
  In (u, v) G -> (exists w, st_walk G s u w) -> (exists w, st_walk G v t w) ->
  d <> (u, v) -> ~ dominates_to G s u d -> ~ dominates_to G v t d ->
  exists W, st_walk G s t W /\ In (u, v) W /\ ~ In d W.
Proof. exact non_dominator_is_avoidable. Qed.
Print Assumptions C06_non_dominator_is_avoidable.

(* non-vacuity on a graph with a cycle: 0 -> 1 -> 2 -> 3, back arc 2 -> 1, second entry 0 -> 4 -> 1: the arc (1, 2) has no
   s-dominator, its only t-dominator is (2, 3), and the chain [(1,2); (2,3)] is safe for X = {(1, 2)} *)
Example C06_dominator_chain_nonvacuous :
  dom_order cycG 0%N 1%N [] /\ dom_order cycG 2%N 3%N [(2, 3)%N] /\
  safe_for_edges cycG 0%N 3%N [(1, 2)%N] [(1, 2); (2, 3)]%N.
Proof. exact cyc_dominator_chain. Qed.
Print Assumptions C06_dominator_chain_nonvacuous.

(* ---- the computations of safetypathcoverscycles.py (DomAlg.v).  find_idom(adj, v, t) returns the FIRST arc common to all v-t walks
   (the code finds it with one augmenting path and a residual search; the answer is canonical and the model computes it from the
   definition with the verified closure; the E3 stream E3_dominator_sequences compares the two arc by arc).  Precondition: t is
   reachable from v -- on a dead-end graph the code's find_path does not arrive and find_idom raises IndexError (DESIGN 10.3). *)
From FP Require Import DomAlg SafetyProofs1 SafetyProofs2.
Theorem C06_find_idom_is_the_first_dominator : forall (G : graph) (v t : node) (bs : list edge),
  (exists w, st_walk G v t w) -> dom_order G v t bs -> first_bridge G v t = hd_error bs.
Proof. exact first_bridge_correct. Qed.
Print Assumptions C06_find_idom_is_the_first_dominator.

(* iterating it (Arc_Dominator_Tree.get_dominators) lists the dominators in their order *)
Theorem C06_dominator_chain_model_is_the_dominator_order : forall (G : graph) (t : node) (n : nat) (v : node) (bs : list edge),
  (exists w, st_walk G v t w) -> dom_order G v t bs -> (length bs < n)%nat -> dom_chain G n v t = bs.
Proof. exact dom_chain_correct. Qed.
Print Assumptions C06_dominator_chain_model_is_the_dominator_order.

(* the sequence built for an arc -- reversed dominators towards the source, the arc, dominators towards the sink -- is its dominator chain *)
Theorem C06_dominator_sequence_is_the_dominator_chain : forall (G : graph) (s t : node) (e : edge),
  (exists w, st_walk G s (fst e) w) -> (exists w, st_walk G (snd e) t w) ->
  exists bl br, dom_order G s (fst e) bl /\ dom_order G (snd e) t br /\ dom_sequence G s t e = bl ++ e :: br.
Proof. exact dom_sequence_is_the_dominator_chain. Qed.
Print Assumptions C06_dominator_sequence_is_the_dominator_chain.

(* every sequence of the model of maximal_safe_sequences_via_dominators (dominator trees restricted to X, unitary paths, cores, chains)
   is safe, on every digraph in which the arcs of X lie between the source and the sink *)
Theorem C06_dominator_sequences_are_safe : forall (G : graph) (s t : node) (X : list edge),
  (forall e, In e X -> (exists w, st_walk G s (fst e) w) /\ (exists w, st_walk G (snd e) t w)) ->
  forall q, In q (dominator_sequences G s t X) -> safe_for_edges G s t X q.
Proof. exact dominator_sequences_safe. Qed.
Print Assumptions C06_dominator_sequences_are_safe.

Example C06_dominator_model_on_the_cycle_graph :
  dom_sequence cycG 0%N 3%N (1, 2)%N = [(1, 2); (2, 3)]%N /\ first_bridge cycG 2%N 3%N = Some (2, 3)%N /\
  dom_sequence cycG 0%N 3%N (4, 1)%N = [(0, 4); (4, 1); (1, 2); (2, 3)]%N.
Proof. exact cyc_dom_sequence. Qed.
Print Assumptions C06_dominator_model_on_the_cycle_graph.

Example C06_dominator_sequences_on_the_cycle_graph :
  dominator_sequences cycG 0%N 3%N [(1, 2); (4, 1)]%N = [[(0, 4); (4, 1); (1, 2); (2, 3)]%N].
Proof. exact cyc_sequences. Qed.
Print Assumptions C06_dominator_sequences_on_the_cycle_graph.

(* ---- audit (second half): instances of exactly the hypotheses of the theorems above, on the graph with the cycle 1 -> 2 -> 1 ---- *)
(* C06_non_dominator_is_avoidable: the arc (1, 2), d = (0, 1): neither an s-dominator (0 -> 4 -> 1 avoids it) nor a t-dominator *)
Example C06_non_dominator_hypotheses_hold :
  In (1, 2)%N cycG /\ (exists w, st_walk cycG 0%N 1%N w) /\ (exists w, st_walk cycG 2%N 3%N w) /\ (0, 1)%N <> (1, 2)%N /\
  ~ dominates_to cycG 0%N 1%N (0, 1)%N /\ ~ dominates_to cycG 2%N 3%N (0, 1)%N /\
  exists W, st_walk cycG 0%N 3%N W /\ In (1, 2)%N W /\ ~ In (0, 1)%N W.
Proof.
  assert (W1 : st_walk cycG 0%N 1%N [(0, 4); (4, 1)]%N) by (split; [repeat constructor|intros x [<-|[<-|[]]]; cbn; tauto]).
  assert (W2 : st_walk cycG 2%N 3%N [(2, 3)]%N) by (split; [repeat constructor|intros x [<-|[]]; cbn; tauto]).
  assert (N1 : ~ dominates_to cycG 0%N 1%N (0, 1)%N) by (intros H; specialize (H _ W1); cbn in H; intuition discriminate).
  assert (N2 : ~ dominates_to cycG 2%N 3%N (0, 1)%N) by (intros H; specialize (H _ W2); cbn in H; intuition discriminate).
  repeat split; try assumption; try (cbn; tauto); try discriminate; try (eexists; eassumption).
  apply C06_non_dominator_is_avoidable; try assumption; try (cbn; tauto); try discriminate; eexists; eassumption.
Qed.
Print Assumptions C06_non_dominator_hypotheses_hold.

(* C06_dominator_sequences_are_safe: its hypothesis (every arc of X lies between source and sink) holds for X = {(1,2), (4,1)} on the
   cycle graph, and the one sequence the model returns there is safe (a non-empty X, a non-empty result) *)
Example C06_dominator_sequences_hypothesis_holds :
  (forall e, In e [(1, 2); (4, 1)]%N -> (exists w, st_walk cycG 0%N (fst e) w) /\ (exists w, st_walk cycG (snd e) 3%N w)) /\
  safe_for_edges cycG 0%N 3%N [(1, 2); (4, 1)]%N [(0, 4); (4, 1); (1, 2); (2, 3)]%N.
Proof.
  assert (H : forall e, In e [(1, 2); (4, 1)]%N -> (exists w, st_walk cycG 0%N (fst e) w) /\ (exists w, st_walk cycG (snd e) 3%N w)).
  { intros e [<-|[<-|[]]]; cbn [fst snd]; split.
    - exists [(0, 1)]%N. split; [repeat constructor|intros x [<-|[]]; cbn; tauto].
    - exists [(2, 3)]%N. split; [repeat constructor|intros x [<-|[]]; cbn; tauto].
    - exists [(0, 4)]%N. split; [repeat constructor|intros x [<-|[]]; cbn; tauto].
    - exists [(1, 2); (2, 3)]%N. split; [repeat constructor|intros x [<-|[<-|[]]]; cbn; tauto]. }
  split; [exact H|]. apply (C06_dominator_sequences_are_safe cycG 0%N 3%N _ H). rewrite cyc_sequences. left. reflexivity.
Qed.
Print Assumptions C06_dominator_sequences_hypothesis_holds.

(* degenerate input, outside the precondition "t reachable from v": from the dead end 3 every arc is vacuously a dominator, there is NO
   dominator order (no finite list holds all arcs of the type), and first_bridge returns a normal value anyway - which is why
   C06_find_idom_is_the_first_dominator and the chain theorems carry the reachability premise (the code raises IndexError there) *)
Example C06_dead_end_is_outside_the_precondition :
  ~ (exists w, st_walk cycG 3%N 0%N w) /\ (forall d, dominates_to cycG 3%N 0%N d) /\ (forall bs, ~ dom_order cycG 3%N 0%N bs) /\
  first_bridge cycG 3%N 0%N = None /\ first_bridge cycG 2%N 0%N = Some (2, 1)%N.
Proof.
  assert (NR : ~ (exists w, st_walk cycG 3%N 0%N w)).
  { intros H. apply reachb_correct in H. vm_compute in H. discriminate. }
  assert (All : forall d, dominates_to cycG 3%N 0%N d) by (intros d w Hw; exfalso; apply NR; exists w; exact Hw).
  split; [exact NR|]. split; [exact All|]. split; [|split; vm_compute; reflexivity].
  intros bs (_ & Hin & _).
  set (m := fold_right N.max 0%N (map fst bs)).
  assert (Hm : forall d, In d bs -> (fst d <= m)%N).
  { unfold m. clear. induction bs as [|a l IH]; intros d Hd; [destruct Hd|]. cbn [map fold_right]. destruct Hd as [<-|Hd]; [lia|].
    specialize (IH d Hd). lia. }
  specialize (Hm (m + 1, 0)%N (proj2 (Hin _) (All _))). cbn [fst] in Hm. lia.
Qed.
Print Assumptions C06_dead_end_is_outside_the_precondition.
