(* C06 — the dominator route to safe sequences in digraphs with cycles (safetypathcoverscycles.py / dominators.py).
   Only property theorems (closed by [exact]), their assumptions and non-vacuity examples.  Walks are lists of arcs as in Props/C06.v. *)
From Coq Require Import List NArith ZArith Bool Arith Lia.
Import ListNotations.
From FP Require Import SafetyReach Safety DomSpec.

(* arc dominance, declaratively: d t-dominates the node v when every walk from v to t contains d.  In EVERY digraph (cycles,
   self-loops) the t-dominators of a reachable node are totally ordered: there is a duplicate-free list of all of them that every
   v-t walk meets in this order, and that list is unique *)
Theorem C06_dominators_are_totally_ordered : forall (G : graph) (v t : node),
  (exists w, st_walk G v t w) -> exists bs, dom_order G v t bs.
Proof. exact dominators_totally_ordered. Qed.
Print Assumptions C06_dominators_are_totally_ordered.

Theorem C06_dominator_order_is_unique : forall (G : graph) (v t : node) (bs bs' : list edge),
  dom_order G v t bs -> dom_order G v t bs' -> bs = bs'.
Proof. exact dom_order_unique. Qed.
Print Assumptions C06_dominator_order_is_unique.

(* the order is the one in which any duplicate-free walk meets them (what the algorithm exploits) *)
Theorem C06_dominator_order_from_any_simple_walk : forall (G : graph) (v t : node) (p : list edge),
  st_walk G v t p -> NoDup p -> dom_order G v t (filter (bridgeb G v t) p).
Proof. exact dom_order_of_path. Qed.
Print Assumptions C06_dominator_order_from_any_simple_walk.

(* the dominator chain of an arc (u, v): its s-dominators, the arc, its t-dominators -- the sequence
   maximal_safe_sequences_via_dominators returns for a core arc -- occurs in order in every source-to-sink walk through the arc *)
Theorem C06_dominator_chain_in_every_walk : forall (G : graph) (s t u v : node) (bl br : list edge),
  dom_order G s u bl -> dom_order G v t br ->
  forall W, st_walk G s t W -> In (u, v) W -> subseq (bl ++ (u, v) :: br) W.
Proof. exact dominator_chain_in_every_walk. Qed.
Print Assumptions C06_dominator_chain_in_every_walk.

(* hence it is safe in the sense of Safety.v for every set of trusted arcs containing the arc ... *)
Theorem C06_dominator_chain_is_safe : forall (G : graph) (s t : node) (X : list edge) (u v : node) (bl br : list edge),
  In (u, v) X -> dom_order G s u bl -> dom_order G v t br -> safe_for_edges G s t X (bl ++ (u, v) :: br).
Proof. exact dominator_chain_is_safe. Qed.
Print Assumptions C06_dominator_chain_is_safe.

(* ... and so is every sub-sequence, in particular the chain restricted to X (idom_X) *)
Theorem C06_filtered_dominator_chain_is_safe : forall (G : graph) (s t : node) (X : list edge) (u v : node) (bl br : list edge)
    (keep : edge -> bool),
  In (u, v) X -> dom_order G s u bl -> dom_order G v t br -> safe_for_edges G s t X (filter keep (bl ++ (u, v) :: br)).
Proof. exact filtered_dominator_chain_is_safe. Qed.
Print Assumptions C06_filtered_dominator_chain_is_safe.

(* maximality: an arc that is neither the arc itself nor one of its dominators is avoided by some source-to-sink walk through it *)
Theorem C06_non_dominator_is_avoidable : forall (G : graph) (s t u v : node) (d : edge),
  In (u, v) G -> (exists w, st_walk G s u w) -> (exists w, st_walk G v t w) ->
  d <> (u, v) -> ~ dominates_to G s u d -> ~ dominates_to G v t d ->
  exists W, st_walk G s t W /\ In (u, v) W /\ ~ In d W.
Proof. exact non_dominator_is_avoidable. Qed.
Print Assumptions C06_non_dominator_is_avoidable.

(* non-vacuity on a graph with a cycle: 0 -> 1 -> 2 -> 3, back arc 2 -> 1, second entry 0 -> 4 -> 1: the arc (1, 2) has no
   s-dominator, its only t-dominator is (2, 3), and the chain [(1,2); (2,3)] is safe for X = {(1, 2)} *)
Example C06_dominator_chain_nonvacuous :
  dom_order cycG 0%N 1%N [] /\ dom_order cycG 2%N 3%N [(2, 3)%N] /\
  safe_for_edges cycG 0%N 3%N [(1, 2)%N] [(1, 2); (2, 3)]%N.
Proof. exact cyc_dominator_chain. Qed.
Print Assumptions C06_dominator_chain_nonvacuous.
