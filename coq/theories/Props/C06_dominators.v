(* C06 — the dominator route to safe sequences in digraphs with cycles (safetypathcoverscycles.py / dominators.py).
   Only property theorems (closed by [exact]), their assumptions and non-vacuity examples.  Walks are lists of arcs as in Props/C06.v. *)
From Coq Require Import List NArith ZArith Bool Arith Lia.
Import ListNotations.
From FP Require Import SafetyReach Safety DomSpec.

(* arc dominance, declaratively: d t-dominates the node v when every walk from v to t contains d.  In EVERY digraph (cycles,
   self-loops) the t-dominators of a reachable node are totally ordered: there is a duplicate-free list of all of them that every
   v-t walk meets in this order, and that list is unique *)
Theorem C06_dominators_are_totally_ordered : forall (G : graph) (v t : node),
  (exists w, st_walk G v t w) -> exists bs, dom_order G v t bs.
Proof. exact dominators_totally_ordered. Qed.
Print Assumptions C06_dominators_are_totally_ordered.

Theorem C06_dominator_order_is_unique : forall (G : graph) (v t : node) (bs bs' : list edge),
  dom_order G v t bs -> dom_order G v t bs' -> bs = bs'.
Proof. exact dom_order_unique. Qed.
Print Assumptions C06_dominator_order_is_unique.

(* the order is the one in which any duplicate-free walk meets them (what the algorithm exploits) *)
Theorem C06_dominator_order_from_any_simple_walk : forall (G : graph) (v t : node) (p : list edge),
  st_walk G v t p -> NoDup p -> dom_order G v t (filter (bridgeb G v t) p).
Proof. exact dom_order_of_path. Qed.
Print Assumptions C06_dominator_order_from_any_simple_walk.

(* the dominator chain of an arc (u, v): its s-dominators, the arc, its t-dominators -- the sequence
   maximal_safe_sequences_via_dominators returns for a core arc -- occurs in order in every source-to-sink walk through the arc *)
Theorem C06_dominator_chain_in_every_walk : forall (G : graph) (s t u v : node) (bl br : list edge),
  dom_order G s u bl -> dom_order G v t br ->
  forall W, st_walk G s t W -> In (u, v) W -> subseq (bl ++ (u, v) :: br) W.
Proof. exact dominator_chain_in_every_walk. Qed.
Print Assumptions C06_dominator_chain_in_every_walk.

(* hence it is safe in the sense of Safety.v for every set of trusted arcs containing the arc ... *)
Theorem C06_dominator_chain_is_safe : forall (G : graph) (s t : node) (X : list edge) (u v : node) (bl br : list edge),
  In (u, v) X -> dom_order G s u bl -> dom_order G v t br -> safe_for_edges G s t X (bl ++ (u, v) :: br).
Proof. exact dominator_chain_is_safe. Qed.
Print Assumptions C06_dominator_chain_is_safe.

(* ... and so is every sub-sequence, in particular the chain restricted to X (idom_X) *)
Theorem C06_filtered_dominator_chain_is_safe : forall (G : graph) (s t : node) (X : list edge) (u v : node) (bl br : list edge)
    (keep : edge -> bool),
  In (u, v) X -> dom_order G s u bl -> dom_order G v t br -> safe_for_edges G s t X (filter keep (bl ++ (u, v) :: br)).
Proof. exact filtered_dominator_chain_is_safe. Qed.
Print Assumptions C06_filtered_dominator_chain_is_safe.

(* maximality: an arc that is neither the arc itself nor one of its dominators is avoided by some source-to-sink walk through it *)
Theorem C06_non_dominator_is_avoidable : forall (G : graph) (s t u v : node) (d : edge),
  In (u, v) G -> (exists w, st_walk G s u w) -> (exists w, st_walk G v t w) ->
  d <> (u, v) -> ~ dominates_to G s u d -> ~ dominates_to G v t d ->
  exists W, st_walk G s t W /\ In (u, v) W /\ ~ In d W.
Proof. exact non_dominator_is_avoidable. Qed.
Print Assumptions C06_non_dominator_is_avoidable.

(* non-vacuity on a graph with a cycle: 0 -> 1 -> 2 -> 3, back arc 2 -> 1, second entry 0 -> 4 -> 1: the arc (1, 2) has no
   s-dominator, its only t-dominator is (2, 3), and the chain [(1,2); (2,3)] is safe for X = {(1, 2)} *)
Example C06_dominator_chain_nonvacuous :
  dom_order cycG 0%N 1%N [] /\ dom_order cycG 2%N 3%N [(2, 3)%N] /\
  safe_for_edges cycG 0%N 3%N [(1, 2)%N] [(1, 2); (2, 3)]%N.
Proof. exact cyc_dominator_chain. Qed.
Print Assumptions C06_dominator_chain_nonvacuous.

(* ---- the computations of safetypathcoverscycles.py (DomAlg.v).  find_idom(adj, v, t) returns the FIRST arc common to all v-t walks
   (the code finds it with one augmenting path and a residual search; the answer is canonical and the model computes it from the
   definition with the verified closure; the E3 stream E3_dominator_sequences compares the two arc by arc).  Precondition: t is
   reachable from v -- on a dead-end graph the code's find_path does not arrive and find_idom raises IndexError (DESIGN 10.3). *)
From FP Require Import DomAlg.
Theorem C06_find_idom_is_the_first_dominator : forall (G : graph) (v t : node) (bs : list edge),
  (exists w, st_walk G v t w) -> dom_order G v t bs -> first_bridge G v t = hd_error bs.
Proof. exact first_bridge_correct. Qed.
Print Assumptions C06_find_idom_is_the_first_dominator.

(* iterating it (Arc_Dominator_Tree.get_dominators) lists the dominators in their order *)
Theorem C06_dominator_chain_model_is_the_dominator_order : forall (G : graph) (t : node) (n : nat) (v : node) (bs : list edge),
  (exists w, st_walk G v t w) -> dom_order G v t bs -> (length bs < n)%nat -> dom_chain G n v t = bs.
Proof. exact dom_chain_correct. Qed.
Print Assumptions C06_dominator_chain_model_is_the_dominator_order.

(* the sequence built for an arc -- reversed dominators towards the source, the arc, dominators towards the sink -- is its dominator chain *)
Theorem C06_dominator_sequence_is_the_dominator_chain : forall (G : graph) (s t : node) (e : edge),
  (exists w, st_walk G s (fst e) w) -> (exists w, st_walk G (snd e) t w) ->
  exists bl br, dom_order G s (fst e) bl /\ dom_order G (snd e) t br /\ dom_sequence G s t e = bl ++ e :: br.
Proof. exact dom_sequence_is_the_dominator_chain. Qed.
Print Assumptions C06_dominator_sequence_is_the_dominator_chain.

(* every sequence of the model of maximal_safe_sequences_via_dominators (dominator trees restricted to X, unitary paths, cores, chains)
   is safe, on every digraph in which the arcs of X lie between the source and the sink *)
Theorem C06_dominator_sequences_are_safe : forall (G : graph) (s t : node) (X : list edge),
  (forall e, In e X -> (exists w, st_walk G s (fst e) w) /\ (exists w, st_walk G (snd e) t w)) ->
  forall q, In q (dominator_sequences G s t X) -> safe_for_edges G s t X q.
Proof. exact dominator_sequences_safe. Qed.
Print Assumptions C06_dominator_sequences_are_safe.

Example C06_dominator_model_on_the_cycle_graph :
  dom_sequence cycG 0%N 3%N (1, 2)%N = [(1, 2); (2, 3)]%N /\ first_bridge cycG 2%N 3%N = Some (2, 3)%N /\
  dom_sequence cycG 0%N 3%N (4, 1)%N = [(0, 4); (4, 1); (1, 2); (2, 3)]%N.
Proof. exact cyc_dom_sequence. Qed.
Print Assumptions C06_dominator_model_on_the_cycle_graph.

Example C06_dominator_sequences_on_the_cycle_graph :
  dominator_sequences cycG 0%N 3%N [(1, 2); (4, 1)]%N = [[(0, 4); (4, 1); (1, 2); (2, 3)]%N].
Proof. exact cyc_sequences. Qed.
Print Assumptions C06_dominator_sequences_on_the_cycle_graph.
