(* C06 — safe paths/sequences are truly safe, mutually incompatible, prune soundly (and the safety part of C05).
   Only property theorems (closed by [exact]), their assumptions and non-vacuity examples.
   Model: Safety.v.  Walks are lists of edges ([chain s w t], [incl w G]); graphs are arbitrary edge lists
   (cycles, self-loops allowed); a trusted item is a list of edges (a trusted edge e is the item [e]). *)
From Coq Require Import List NArith ZArith Bool Arith Lia Permutation.
Import ListNotations.
From FP Require Import SafetyReach Safety SafetyProofs1 SafetyProofs2 SafetyProofs3.

(* cover-level safety is edge-level safety: sq is in some walk of EVERY cover of the trusted edges X
   iff some trusted edge has all its source-to-sink walks containing sq *)
Theorem C06_safe_iff_edge : forall (G : graph) (s t : node) (X : list edge) (sq : list edge),
  safe_for_edges G s t X sq <->
  exists e, In e X /\ forall w, st_walk G s t w -> In e w -> subseq sq w.
Proof. exact safe_iff_edge. Qed.
Print Assumptions C06_safe_iff_edge.

(* the same for trusted items that are sequences of edges (subpath / subset constraints) *)
Theorem C06_safe_iff_item : forall (G : graph) (s t : node) (X : list (list edge)) (sq : list edge),
  safe G s t X sq <-> exists c, In c X /\ forall w, st_walk G s t w -> subseq c w -> subseq sq w.
Proof. exact safe_iff_item. Qed.
Print Assumptions C06_safe_iff_item.

(* the product automaton is exact: it lists exactly the pairs (matched prefix of a, matched prefix of b) of s-t walks *)
Theorem C06_product_automaton_exact : forall (G : graph) (a b : list edge) (s t : node) (i j : nat),
  In (i, j) (sink_pairs G a b s t) <-> exists w, st_walk G s t w /\ run a 0 w = i /\ run b 0 w = j.
Proof. exact sink_pairs_correct. Qed.
Print Assumptions C06_product_automaton_exact.

(* greedy sub-sequence matching is exact *)
Theorem C06_greedy_matching_exact : forall (sq w : list edge), subseq sq w <-> run sq 0 w = length sq.
Proof. exact greedy0. Qed.
Print Assumptions C06_greedy_matching_exact.

Theorem C06_safe_dec_correct : forall (G : graph) (s t : node) (X : list (list edge)) (sq : list edge),
  safe_dec G s t X sq = true <-> safe G s t X sq.
Proof. exact safe_dec_correct. Qed.
Print Assumptions C06_safe_dec_correct.

Theorem C06_safe_dec_edges_correct : forall (G : graph) (s t : node) (X : list edge) (sq : list edge),
  safe_dec G s t (items_of_edges X) sq = true <-> safe_for_edges G s t X sq.
Proof. exact safe_dec_edges_correct. Qed.
Print Assumptions C06_safe_dec_edges_correct.

Theorem C06_incompat_dec_correct : forall (G : graph) (s t : node) (a b : list edge),
  incompat_dec G s t a b = true <-> (forall w, st_walk G s t w -> subseq a w -> subseq b w -> False).
Proof. exact incompat_dec_correct. Qed.
Print Assumptions C06_incompat_dec_correct.

Theorem C06_forbid_dec_correct : forall (G : graph) (s t : node) (sq : list edge) (e : edge),
  forbid_dec G s t sq e = true <-> (forall w, st_walk G s t w -> subseq sq w -> ~ In e w).
Proof. exact forbid_dec_correct. Qed.
Print Assumptions C06_forbid_dec_correct.

(* DAG safe paths: the univocal extension is a contiguous infix of every source-to-sink walk through the edge *)
Theorem C06_univocal_safe : forall (G : graph) (s t : node),
  in_edges G s = [] -> out_edges G t = [] ->
  forall (f1 f2 : nat) (u v : node) (w1 w2 : list (node * node)),
  st_walk G s t (w1 ++ (u, v) :: w2) ->
  exists a b : list edge, w1 ++ (u, v) :: w2 = a ++ safe_path_fuel G f1 f2 (u, v) ++ b.
Proof. exact univocal_safe. Qed.
Print Assumptions C06_univocal_safe.

Theorem C06_safe_path_model_safe : forall (G : graph) (s t : node),
  in_edges G s = [] -> out_edges G t = [] ->
  forall (X : list edge) (e : edge) (p : list edge),
  In e X -> safe_path G e = Some p -> safe_for_edges G s t X p.
Proof. exact safe_path_model_safe. Qed.
Print Assumptions C06_safe_path_model_safe.

(* ... and when the model returns Some, the loops stopped for the code's reason (in-degree <> 1 at the left end) *)
Theorem C06_safe_path_left_maximal : forall (G : graph) (fuel : nat) (u : node),
  left_done G fuel u = true -> length (in_edges G (left_end (left_ext G fuel u) u)) <> 1.
Proof. exact left_ext_maximal. Qed.
Print Assumptions C06_safe_path_left_maximal.

(* DAG safe sequences: bridges are exactly the edges on every v-t walk, and every walk meets them in order *)
Theorem C06_bridges_model_correct : forall (G : graph) (v t : node) (bs : list edge),
  bridges G v t = Some bs ->
  (forall e, In e bs <-> (forall w, st_walk G v t w -> In e w)) /\
  (forall W, st_walk G v t W -> subseq bs W).
Proof. exact bridges_model_correct. Qed.
Print Assumptions C06_bridges_model_correct.

Theorem C06_safe_sequence_contains : forall (G : graph) (s t : node) (c q W1 W2 : list edge),
  safe_sequence G s t c = Some q -> st_walk G s t (W1 ++ c ++ W2) -> subseq q (W1 ++ c ++ W2).
Proof. exact safe_sequence_contains. Qed.
Print Assumptions C06_safe_sequence_contains.

Theorem C06_safe_sequence_model_safe : forall (G : graph) (s t : node) (X : list edge) (e : edge) (q : list edge),
  In e X -> safe_sequence G s t [e] = Some q -> safe_for_edges G s t X q.
Proof. exact safe_sequence_model_safe. Qed.
Print Assumptions C06_safe_sequence_model_safe.

(* flow-safe paths: D = any decomposition of the flow f on G into non-negatively weighted paths that end at nodes
   without out-edges; positive excess flow of a path => it is a contiguous part of a positive-weight path of D *)
Theorem C06_excess_flow_safe : forall (G : list edge) (f : edge -> Z) (D : list (list node * Z)),
  (forall pw, In pw D -> (0 <= snd pw)%Z) ->
  (forall pw, In pw D -> incl (pairs (fst pw)) G) ->
  (forall pw x, In pw D -> ~ In (last (fst pw) 0%N, x) G) ->
  (forall e, In e G -> Wt D (hasb e) = f e) ->
  forall (u0 u1 : node) (r : list node),
  incl (pairs (u0 :: u1 :: r)) G -> (0 < excess G f (u0 :: u1 :: r))%Z ->
  exists pw, In pw D /\ (0 < snd pw)%Z /\ infix (u0 :: u1 :: r) (fst pw).
Proof. exact excess_flow_safe. Qed.
Print Assumptions C06_excess_flow_safe.

Theorem C06_excess_pos_dec_sound : forall (fl : list (edge * Z)) (D : list (list node * Z)) (p : list node),
  excess_pos_dec fl p = true ->
  (forall pw, In pw D -> (0 <= snd pw)%Z) ->
  (forall pw, In pw D -> incl (pairs (fst pw)) (map fst fl)) ->
  (forall pw x, In pw D -> ~ In (last (fst pw) 0%N, x) (map fst fl)) ->
  (forall e, In e (map fst fl) -> Wt D (hasb e) = flow_of fl e) ->
  exists pw, In pw D /\ (0 < snd pw)%Z /\ infix p (fst pw).
Proof. exact excess_pos_dec_sound. Qed.
Print Assumptions C06_excess_pos_dec_sound.

(* inexact flows: positive worst-case excess (lower bound of the first edge minus the upper bounds of the leaks)
   => the path is contained in a positive-weight path of every decomposition of EVERY flow inside the intervals *)
Theorem C06_inexact_excess_flow_safe : forall (G : list edge) (lb ub f : edge -> Z) (D : list (list node * Z)),
  (forall e, (lb e <= f e)%Z) -> (forall e, (f e <= ub e)%Z) ->
  (forall pw, In pw D -> (0 <= snd pw)%Z) ->
  (forall pw, In pw D -> incl (pairs (fst pw)) G) ->
  (forall pw x, In pw D -> ~ In (last (fst pw) 0%N, x) G) ->
  (forall e, In e G -> Wt D (hasb e) = f e) ->
  forall (u0 u1 : node) (r : list node),
  incl (pairs (u0 :: u1 :: r)) G -> (0 < inexact_excess G lb ub (u0 :: u1 :: r))%Z ->
  exists pw, In pw D /\ (0 < snd pw)%Z /\ infix (u0 :: u1 :: r) (fst pw).
Proof. exact inexact_excess_flow_safe. Qed.
Print Assumptions C06_inexact_excess_flow_safe.

(* ---- C05: fixing safe, pairwise incompatible sequences to layers; zero fixing (abstract in route/sequence) ---- *)
Theorem C06_fix_assign_layers : forall (route sq : Type) (cont : route -> sq -> Prop) (ss : list sq) (sol : list route),
  incompat route sq cont ss ->
  (forall s, In s ss -> exists r, In r sol /\ cont r s) ->
  exists pre rest, Permutation sol (pre ++ rest) /\ Forall2 cont pre ss.
Proof. exact assign_layers. Qed.
Print Assumptions C06_fix_assign_layers.

Theorem C06_fix_preserves_opt : forall (route sq : Type) (cont : route -> sq -> Prop)
    (Sol : list route -> Prop) (obj : list route -> nat),
  (forall a b, Permutation a b -> Sol a -> Sol b) ->
  (forall a b, Permutation a b -> obj a = obj b) ->
  forall ss : list sq,
  incompat route sq cont ss ->
  (forall sol, Sol sol -> forall s, In s ss -> exists r, In r sol /\ cont r s) ->
  forall sol, Sol sol -> exists sol', Sol sol' /\ fixed route sq cont ss sol' /\ obj sol' = obj sol.
Proof. exact fix_preserves_opt. Qed.
Print Assumptions C06_fix_preserves_opt.

Theorem C06_fix_same_feasibility : forall (route sq : Type) (cont : route -> sq -> Prop)
    (Sol : list route -> Prop) (obj : list route -> nat),
  (forall a b, Permutation a b -> Sol a -> Sol b) ->
  (forall a b, Permutation a b -> obj a = obj b) ->
  forall ss : list sq,
  incompat route sq cont ss ->
  (forall sol, Sol sol -> forall s, In s ss -> exists r, In r sol /\ cont r s) ->
  (exists sol, Sol sol) <-> (exists sol, Sol sol /\ fixed route sq cont ss sol).
Proof. exact fix_same_feasibility. Qed.
Print Assumptions C06_fix_same_feasibility.

Theorem C06_fix_zero_fix_sound : forall (route sq : Type) (cont : route -> sq -> Prop)
    (E : Type) (on : E -> route -> Prop) (ss : list sq) (sol : list route),
  fixed route sq cont ss sol ->
  exists pre rest, sol = pre ++ rest /\
    Forall2 (fun r s => cont r s /\ (forall e, forbidden_for route sq cont E on s e -> ~ on e r)) pre ss.
Proof. exact zero_fix_sound. Qed.
Print Assumptions C06_fix_zero_fix_sound.

(* the instance the harness certifies on every constructed model: deciders accept walks_to_fix  =>  every walk cover
   of the trusted items can be reordered so that walk j contains sequence j and avoids every edge forbidden for j *)
Theorem C06_fix_certified_sound : forall (G : graph) (s t : node) (X ss C : list (list edge)),
  pairwise_incompat_dec G s t ss = true ->
  forallb (safe_dec G s t X) ss = true ->
  walk_cover G s t X C ->
  exists pre rest, Permutation C (pre ++ rest) /\
    Forall2 (fun w q => st_walk G s t w /\ subseq q w /\ forall e, forbid_dec G s t q e = true -> ~ In e w) pre ss.
Proof. exact certified_fix_sound. Qed.
Print Assumptions C06_fix_certified_sound.

(* ------------------------------------------------------------------ non-vacuity *)
(* cyclic graph: source 0, sink 9, a figure-eight 1<->2<->3 and a by-pass 0->5->9 *)
Definition C06_Gc : graph := [(0,1);(1,2);(2,1);(2,3);(3,2);(2,4);(4,9);(0,5);(5,9)]%N.
Example C06_nonvacuous_deciders :
  (* with multiplicity: every walk through (3,2) contains (0,1) (1,2) (2,3) (3,2) (2,4) (4,9) *)
  safe_dec C06_Gc 0%N 9%N [[(3,2)]]%N [(0,1);(1,2);(2,3);(3,2);(2,4);(4,9)]%N = true /\
  safe_dec C06_Gc 0%N 9%N [[(3,2)]]%N [(0,1);(1,2);(2,1)]%N = false /\
  safe_dec C06_Gc 0%N 9%N [[(3,2)]; [(0,5)]]%N [(0,5);(5,9)]%N = true /\
  incompat_dec C06_Gc 0%N 9%N [(0,5)]%N [(2,4)]%N = true /\
  incompat_dec C06_Gc 0%N 9%N [(2,1)]%N [(3,2)]%N = false /\
  forbid_dec C06_Gc 0%N 9%N [(1,2);(2,4)]%N (5,9)%N = true /\
  forbid_dec C06_Gc 0%N 9%N [(1,2);(2,4)]%N (3,2)%N = false /\
  st_walk C06_Gc 0%N 9%N [(0,1);(1,2);(2,3);(3,2);(2,1);(1,2);(2,4);(4,9)]%N.
Proof.
  repeat split; try (vm_compute; reflexivity).
  - repeat constructor.
  - intros e H. cbn in H. unfold C06_Gc. cbn. intuition.
Qed.

(* DAG: source 0, sink 9 *)
Definition C06_Gd : graph := [(0,1);(1,2);(2,3);(2,4);(3,5);(4,5);(5,6);(6,9);(0,7);(7,6)]%N.
Example C06_nonvacuous_dag :
  in_edges C06_Gd 0%N = [] /\ out_edges C06_Gd 9%N = [] /\
  safe_path C06_Gd (2,3)%N = Some [(0,1);(1,2);(2,3);(3,5);(5,6);(6,9)]%N /\
  safe_path C06_Gd (7,6)%N = Some [(0,7);(7,6);(6,9)]%N /\
  bridges C06_Gd 1%N 9%N = Some [(1,2);(5,6);(6,9)]%N /\
  safe_sequence C06_Gd 0%N 9%N [(4,5)]%N = Some [(0,1);(1,2);(2,4);(4,5);(5,6);(6,9)]%N /\
  safe_dec C06_Gd 0%N 9%N [[(4,5)]]%N [(0,1);(1,2);(2,4);(4,5);(5,6);(6,9)]%N = true.
Proof. vm_compute. repeat split; reflexivity. Qed.

(* flow 5 splitting 3/2 and merging again: both branches keep a positive excess (3 and 2);
   two sources of flow 2 merging at node 2 and splitting 2/2: the path 0 2 3 has excess 0 and is not reported *)
Example C06_nonvacuous_excess :
  let fl : list (edge * Z) := [((0,1)%N,5%Z);((1,2)%N,3%Z);((1,3)%N,2%Z);((2,4)%N,3%Z);((3,4)%N,2%Z);((4,5)%N,5%Z)] in
  let f2 : list (edge * Z) := [((0,2)%N,2%Z);((1,2)%N,2%Z);((2,3)%N,2%Z);((2,4)%N,2%Z)] in
  excess_of fl [0;1;2;4;5]%N = 3%Z /\ excess_pos_dec fl [0;1;2;4;5]%N = true /\
  excess_of fl [0;1;3;4;5]%N = 2%Z /\ excess_pos_dec fl [0;1;3;4;5]%N = true /\
  excess_of f2 [0;2;3]%N = 0%Z /\ excess_pos_dec f2 [0;2;3]%N = false /\ excess_pos_dec f2 [0;2]%N = true /\
  excess_pos_dec f2 [0;3]%N = false.
Proof. vm_compute. repeat split; reflexivity. Qed.

(* intervals: s->a [6,6], a->b [1,5], a->x [1,5], r->b [3,3], b->c [1,4], b->y [1,2], c->t [1,4]  (s=0 a=1 b=2 x=3 r=4 c=5 y=6 t=7):
   the window a b c t has worst-case excess 1 - 2 = -1 and must not be reported, s a b has 6 - 5 = 1 *)
Example C06_nonvacuous_inexact :
  let bl : list (edge * (Z * Z)) := [((0,1)%N,(6,6)%Z);((1,2)%N,(1,5)%Z);((1,3)%N,(1,5)%Z);((4,2)%N,(3,3)%Z);
                                     ((2,5)%N,(1,4)%Z);((2,6)%N,(1,2)%Z);((5,7)%N,(1,4)%Z)] in
  inexact_excess_of bl [1;2;5;7]%N = (-1)%Z /\ inexact_pos_dec bl [1;2;5;7]%N = false /\
  inexact_excess_of bl [0;1;2]%N = 1%Z /\ inexact_pos_dec bl [0;1;2]%N = true.
Proof. vm_compute. repeat split; reflexivity. Qed.

(* ---- audit (audit/props_C04_C06_C09_C16.md): all hypotheses of C06_excess_pos_dec_sound / C06_excess_flow_safe about the decomposition D,
   on the flow 5 splitting 3 / 2 and merging again with D = {0 1 2 4 5 : 3, 0 1 3 4 5 : 2}; the reported path 0 1 2 4 5 has excess 3 ---- *)
From FP Require AuditExamples17 SafetyProofs3.
Example C06_excess_flow_hypotheses_satisfiable :
  excess_pos_dec AuditExamples17.xfl [0;1;2;4;5]%N = true /\
  (forall pw, In pw AuditExamples17.xD -> (0 <= snd pw)%Z) /\
  (forall pw, In pw AuditExamples17.xD -> incl (pairs (fst pw)) (map fst AuditExamples17.xfl)) /\
  (forall pw x, In pw AuditExamples17.xD -> ~ In (last (fst pw) 0%N, x) (map fst AuditExamples17.xfl)) /\
  (forall e, In e (map fst AuditExamples17.xfl) -> SafetyProofs3.Wt AuditExamples17.xD (SafetyProofs3.hasb e) = flow_of AuditExamples17.xfl e) /\
  (0 < excess (map fst AuditExamples17.xfl) (flow_of AuditExamples17.xfl) [0;1;2;4;5]%N)%Z.
Proof. exact AuditExamples17.excess_hypotheses. Qed.
Print Assumptions C06_excess_flow_hypotheses_satisfiable.

(* audit, second pass: all hypotheses of C06_inexact_excess_flow_safe (intervals [f-1, f+1] around the flow 5 -> 3 / 2 -> 5, the same
   decomposition; the path 0 1 2 4 5 has worst-case excess 4 - 3 = 1) *)
Example C06_inexact_excess_hypotheses_satisfiable :
  (forall e, (AuditExamples17.xlb e <= flow_of AuditExamples17.xfl e)%Z) /\ (forall e, (flow_of AuditExamples17.xfl e <= AuditExamples17.xub e)%Z) /\
  (forall pw, In pw AuditExamples17.xD -> (0 <= snd pw)%Z) /\
  (forall pw, In pw AuditExamples17.xD -> incl (pairs (fst pw)) (map fst AuditExamples17.xfl)) /\
  (forall pw x, In pw AuditExamples17.xD -> ~ In (last (fst pw) 0%N, x) (map fst AuditExamples17.xfl)) /\
  (forall e, In e (map fst AuditExamples17.xfl) -> SafetyProofs3.Wt AuditExamples17.xD (SafetyProofs3.hasb e) = flow_of AuditExamples17.xfl e) /\
  incl (pairs [0;1;2;4;5]%N) (map fst AuditExamples17.xfl) /\
  (0 < inexact_excess (map fst AuditExamples17.xfl) AuditExamples17.xlb AuditExamples17.xub [0;1;2;4;5]%N)%Z.
Proof. exact AuditExamples17.inexact_hypotheses. Qed.
Print Assumptions C06_inexact_excess_hypotheses_satisfiable.

(* audit, second pass: one concrete (G, X, ss, C) for C06_fix_certified_sound: the figure-eight graph with a by-pass, trusted items
   (3,2) and (0,5), their safe sequences (pairwise incompatible), and a walk cover of the items by two walks *)
Example C06_fix_certified_hypotheses_satisfiable :
  pairwise_incompat_dec AuditExamples17.fGc 0%N 9%N AuditExamples17.fss = true /\
  forallb (safe_dec AuditExamples17.fGc 0%N 9%N AuditExamples17.fX) AuditExamples17.fss = true /\
  walk_cover AuditExamples17.fGc 0%N 9%N AuditExamples17.fX AuditExamples17.fC.
Proof. exact AuditExamples17.fix_certified_hypotheses. Qed.
Print Assumptions C06_fix_certified_hypotheses_satisfiable.
