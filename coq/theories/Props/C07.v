(* C07 — k-Least-Absolute-Errors returns a true optimum with a consistent objective (DAG model).
   Model: ErrEnc.encode_klae = the LP kLeastAbsErrors hands to the solver (tied by E1 on every run).
   Optimality is relative to the solver specification of DESIGN §4: soundness + completeness of the
   encoding give  LP optimum = declarative minimum; wmax_no_loss / err_fits_bound show that the
   bounds of the W and Err columns cut off no optimal solution. *)
From Coq Require Import List NArith ZArith QArith Qabs Bool Arith Lia Permutation.
Import ListNotations.
From FP Require Import Lin Blocks BlocksProofs PathEnc Euler EulerProofs1 EulerProofs4 DagDecode PathEncProofs
                       PathEncComplete PathEncGivenComplete WfCheck CheckedInstances
                       ErrEnc ErrEncProofs ErrEncProofs2 ErrEncProofs3 ErrEncComplete ErrEncOptimal ErrEncKlae ErrEncGiven ErrEncGivenMpe ErrEncGivenCons
                       ErrEncChecked ErrEncExamples.
Local Close Scope Q_scope.

(* THE property as one theorem, with executable premises (klae_premises_b is evaluated by the extracted driver on every
   E1 instance): for every well-formed acyclic instance in the documented domain, the objective of an optimal satisfying
   assignment of the LP (= what the solver returns, DESIGN §4) equals the minimum of
       sum_e scale_e * | f(e) - sum_i w_i [e on path i] |
   over ALL choices of k source-to-sink paths covering the subpath constraints and ALL non-negative weights of the
   requested type (no bound on the weights: the LP's bound w_max is removed by the clipping lemma). *)
Theorem C07_klae_optimal_checked : forall (I : err_inst) (a : var -> Q) (order : list node),
  klae_premises_b I order = true -> e_given I = None -> p_allow_empty (e_base I) = false ->
  sat a (encode_klae I) -> (forall b, sat b (encode_klae I) -> (objective a (encode_klae I) <= objective b (encode_klae I))%Q) ->
  (exists P w, st_paths (eG I) (eK I) P /\ adm_weights I w /\ constraints_covered (e_base I) P /\
               (klae_cost I P w == objective a (encode_klae I))%Q) /\
  (forall P w, st_paths (eG I) (eK I) P -> adm_weights I w -> constraints_covered (e_base I) P ->
               (objective a (encode_klae I) <= klae_cost I P w)%Q).
Proof. exact klae_optimal_checked. Qed.
Print Assumptions C07_klae_optimal_checked.

(* the same with the premises as propositions (rank witness instead of a topological order) *)
Theorem C07_klae_optimal : forall (I : err_inst) (a : var -> Q) (rank : node -> nat) (Rm : nat),
  e_given I = None -> wf_graph (eG I) -> p_allow_empty (e_base I) = false ->
  (forall u v, In (u, v) (g_edges (eG I)) -> (rank u < rank v)%nat) -> (forall v, (rank v <= Rm)%nat) ->
  klae_side I ->
  sat a (encode_klae I) -> (forall b, sat b (encode_klae I) -> (objective a (encode_klae I) <= objective b (encode_klae I))%Q) ->
  (exists P w, st_paths (eG I) (eK I) P /\ adm_weights I w /\ constraints_covered (e_base I) P /\
               (klae_cost I P w == objective a (encode_klae I))%Q) /\
  (forall P w, st_paths (eG I) (eK I) P -> adm_weights I w -> constraints_covered (e_base I) P ->
               (objective a (encode_klae I) <= klae_cost I P w)%Q).
Proof. exact klae_optimal. Qed.
Print Assumptions C07_klae_optimal.

(* completeness with subpath constraints, paths as node lists: every choice the LP can represent is a satisfying assignment
   whose objective is the cost of the choice *)
Theorem C07_klae_complete : forall (I : err_inst) (P : N -> list node) (w : N -> Q),
  e_given I = None -> wf_graph (eG I) -> p_allow_empty (e_base I) = false ->
  (forall c e, In c (p_cons (e_base I)) -> In e c -> (0 <= elen (e_base I) e)%Q) ->
  klae_choice I P w ->
  exists a, sat a (encode_klae I) /\ (objective a (encode_klae I) == klae_cost I P w)%Q /\
            (forall i, a (W i) = w i) /\ (forall u v i, a (Edge u v i) = onq P i (u, v)) /\
            (forall e, a (Err (fst e) (snd e)) = klae_err I P w e).
Proof. exact klae_complete. Qed.
Print Assumptions C07_klae_complete.

(* soundness in decoded form, executable premises *)
Theorem C07_klae_enc_sound_checked : forall (I : err_inst) (a : var -> Q) (order : list node),
  klae_premises_b I order = true -> e_given I = None -> p_allow_empty (e_base I) = false -> sat a (encode_klae I) ->
  let P := dec_path (eG I) a (length order) in let w := fun i => a (W i) in
  st_paths (eG I) (eK I) P /\
  (forall i, In i (layers (eK I)) -> (0 <= w i <= w_max I)%Q /\ (e_int I = true -> is_int (w i))) /\
  (forall e, In e (basic_edges I) -> (klae_err I P w e <= a (Err (fst e) (snd e)))%Q /\ (a (Err (fst e) (snd e)) <= w_max I)%Q) /\
  constraints_covered (e_base I) P.
Proof. exact klae_enc_sound_checked. Qed.
Print Assumptions C07_klae_enc_sound_checked.

(* solution_weights_superset: layer i carries the constant weight ws[i], may be empty, at most k_orig layers are used.
   The LP optimum is the minimum of the scaled absolute error over all such choices whose errors fit the Err bound w_max
   (no clipping is possible when the weights are fixed; see the claim note). *)
Theorem C07_klae_given_optimal : forall (I : err_inst) (ws : list Q) (a : var -> Q) (rank : node -> nat) (Rm : nat),
  e_given I = Some ws -> wf_graph (eG I) -> p_allow_empty (e_base I) = true -> p_cons (e_base I) = [] -> length ws = eK I ->
  (forall u v, In (u, v) (g_edges (eG I)) -> (rank u < rank v)%nat) -> (forall v, (rank v <= Rm)%nat) ->
  (forall e, In e (basic_edges I) -> (0 <= scale_of I e)%Q /\ (e_int I = true -> is_int (flow_of I e))) ->
  (e_int I = true -> forall q, In q ws -> is_int q) ->
  sat a (encode_klae I) -> (forall b, sat b (encode_klae I) -> (objective a (encode_klae I) <= objective b (encode_klae I))%Q) ->
  (exists P, klae_given_choice I ws P /\ (gcost I ws P == objective a (encode_klae I))%Q) /\
  (forall P, klae_given_choice I ws P -> (objective a (encode_klae I) <= gcost I ws P)%Q).
Proof. exact klae_given_optimal. Qed.
Print Assumptions C07_klae_given_optimal.

Theorem C07_klae_given_complete : forall (I : err_inst) (ws : list Q) (P : N -> list node),
  e_given I = Some ws -> wf_graph (eG I) -> p_allow_empty (e_base I) = true -> p_cons (e_base I) = [] -> length ws = eK I ->
  klae_given_choice I ws P ->
  sat (gasg I ws P) (encode_klae I) /\ (objective (gasg I ws P) (encode_klae I) == gcost I ws P)%Q.
Proof. exact klae_given_complete. Qed.
Print Assumptions C07_klae_given_complete.

(* solution_weights_superset TOGETHER WITH subpath constraints: layers may be empty, a constraint is realised to the required
   fraction by ONE layer (necessarily a non-empty one when the required length is positive: C07_given_constraint_needs_a_nonempty_layer).
   The LP optimum is the minimum over all such choices that realise every constraint. *)
Theorem C07_klae_given_optimal_with_constraints : forall (I : err_inst) (ws : list Q) (a : var -> Q) (rank : node -> nat) (Rm : nat),
  e_given I = Some ws -> wf_graph (eG I) -> p_allow_empty (e_base I) = true -> length ws = eK I ->
  (forall u v, In (u, v) (g_edges (eG I)) -> (rank u < rank v)%nat) -> (forall v, (rank v <= Rm)%nat) ->
  (forall c e, In c (p_cons (e_base I)) -> In e c -> In e (g_edges (eG I)) /\ (0 <= elen (e_base I) e)%Q) ->
  (forall e, In e (basic_edges I) -> (0 <= scale_of I e)%Q /\ (e_int I = true -> is_int (flow_of I e))) ->
  (e_int I = true -> forall q, In q ws -> is_int q) ->
  sat a (encode_klae I) -> (forall b, sat b (encode_klae I) -> (objective a (encode_klae I) <= objective b (encode_klae I))%Q) ->
  (exists P, klae_given_choice I ws P /\ constraints_covered (e_base I) P /\ (gcost I ws P == objective a (encode_klae I))%Q) /\
  (forall P, klae_given_choice I ws P -> constraints_covered (e_base I) P -> (objective a (encode_klae I) <= gcost I ws P)%Q).
Proof. exact klae_given_optimal_cons. Qed.
Print Assumptions C07_klae_given_optimal_with_constraints.

Theorem C07_klae_given_complete_with_constraints : forall (I : err_inst) (ws : list Q) (P : N -> list node),
  e_given I = Some ws -> wf_graph (eG I) -> p_allow_empty (e_base I) = true -> length ws = eK I ->
  (forall c e, In c (p_cons (e_base I)) -> In e c -> (0 <= elen (e_base I) e)%Q) ->
  klae_given_choice I ws P -> constraints_covered (e_base I) P ->
  exists a, sat a (encode_klae I) /\ (objective a (encode_klae I) == gcost I ws P)%Q /\ (forall u v i, a (Edge u v i) = onq P i (u, v)).
Proof. exact klae_given_complete_cons. Qed.
Print Assumptions C07_klae_given_complete_with_constraints.

(* non-vacuity: given weights [2;5], one constraint, the second layer empty: hypotheses hold, LP satisfied with objective 2;
   with every layer empty the constraint is not realised and the LP rows are violated *)
Example C07_given_with_constraints_example :
  klae_given_choice wit_gc [2%Q; 5%Q] wit_gc_P /\
  (constraints_covered (e_base wit_gc) wit_gc_P /\ given_layers (eG wit_gc) (eK wit_gc) wit_gc_P /\
   sat (gasgc wit_gc [2%Q; 5%Q] wit_gc_P (fun _ => 0%N)) (encode_klae wit_gc) /\
   (objective (gasgc wit_gc [2%Q; 5%Q] wit_gc_P (fun _ => 0%N)) (encode_klae wit_gc) == 2)%Q).
Proof. exact (conj klae_given_cons_choice klae_given_cons_example). Qed.
Example C07_given_constraint_needs_a_nonempty_layer :
  ~ constraints_covered wit_base_gc (fun _ => []) /\
  sat_b (gasgc wit_gc [2%Q; 5%Q] (fun _ => []) (fun _ => 0%N)) (encode_klae wit_gc) = false.
Proof. exact (conj given_constraint_needs_a_nonempty_layer klae_given_cons_empty_rejected). Qed.

Theorem C07_klae_enc_sound : forall (I : err_inst) (a : var -> Q) (rank : node -> nat) (Rm : nat),
  let G := eG I in let k := eK I in
  let E := g_edges G in let s := g_src G in let t := g_snk G in
  wf_graph G -> p_allow_empty (e_base I) = false -> e_given I = None ->
  (forall u v, In (u, v) E -> (rank u < rank v)%nat) -> (forall v, (rank v <= Rm)%nat) ->
  sat a (encode_klae I) ->
  (forall i, In i (layers k) ->
     exists p, decode E (xval a i) t (S Rm) s = Some p /\ last p s = t /\
               Permutation (Sup E (xval a i)) (pairs (s :: p)) /\
               (forall e, In e E -> count_e e (pairs (s :: p)) = Z.to_nat (xval a i e))) /\
  (forall i, In i (layers k) -> (0 <= a (W i) <= w_max I)%Q /\ (e_int I = true -> is_int (a (W i)))) /\
  (forall e, In e (basic_edges I) ->
     (Qabs (flow_of I e - sumq (fun i => a (W i) * inject_Z (xval a i e)) (layers k)) <= a (Err (fst e) (snd e)))%Q) /\
  (objective a (encode_klae I) == sumq (fun e => scale_of I e * a (Err (fst e) (snd e))) (basic_edges I))%Q.
Proof. exact klae_enc_sound. Qed.
Print Assumptions C07_klae_enc_sound.

Theorem C07_klae_enc_complete : forall (I : err_inst) (x : N -> PathEnc.edge -> Z) (w : N -> Q),
  e_given I = None -> p_cons (e_base I) = [] -> p_allow_empty (e_base I) = false ->
  unit_flows (eG I) (eK I) x ->
  (forall i, In i (layers (eK I)) -> (0 <= w i <= w_max I)%Q /\ (e_int I = true -> is_int (w i))) ->
  (forall e, In e (basic_edges I) -> (abs_err I x w e <= w_max I)%Q /\ (e_int I = true -> is_int (abs_err I x w e))) ->
  let a := klae_assign I x w in
  sat a (encode_klae I) /\
  (forall u v i, a (Edge u v i) = inject_Z (x i (u, v))) /\ (forall i, a (W i) = w i) /\
  (forall e, In e (basic_edges I) -> a (Err (fst e) (snd e)) = abs_err I x w e) /\
  (objective a (encode_klae I) == sumq (fun e => scale_of I e * abs_err I x w e) (basic_edges I))%Q.
Proof. exact klae_enc_complete. Qed.
Print Assumptions C07_klae_enc_complete.

Theorem C07_wmax_no_loss : forall (I : err_inst) (w : N -> Q) (x : N -> PathEnc.edge -> Z),
  (forall e, In e (basic_edges I) -> (0 <= flow_of I e)%Q) ->
  (forall i, In i (layers (eK I)) -> (0 <= w i)%Q) ->
  (forall i e, In i (layers (eK I)) -> In e (basic_edges I) -> x i e = 0%Z \/ x i e = 1%Z) ->
  basic_edges I <> [] ->
  let w' := fun i => qmin (w i) (max_flow I) in
  (forall i, In i (layers (eK I)) -> (0 <= w' i <= max_flow I)%Q) /\
  (forall e, In e (basic_edges I) ->
     (Qabs (flow_of I e - sumq (fun i => w' i * inject_Z (x i e)) (layers (eK I)))
      <= Qabs (flow_of I e - sumq (fun i => w i * inject_Z (x i e)) (layers (eK I))))%Q).
Proof. exact wmax_no_loss. Qed.
Print Assumptions C07_wmax_no_loss.

Theorem C07_err_fits_bound : forall (I : err_inst) (w : N -> Q) (x : N -> PathEnc.edge -> Z) (e : PathEnc.edge),
  (1 <= eK I)%nat -> (cast (e_int I) (max_flow I) == max_flow I)%Q ->
  In e (basic_edges I) -> (0 <= flow_of I e)%Q ->
  (forall i, In i (layers (eK I)) -> (0 <= w i <= max_flow I)%Q) ->
  (forall i, In i (layers (eK I)) -> x i e = 0%Z \/ x i e = 1%Z) ->
  (Qabs (flow_of I e - sumq (fun i => w i * inject_Z (x i e)) (layers (eK I))) <= w_max I)%Q.
Proof. exact err_fits_bound. Qed.
Print Assumptions C07_err_fits_bound.

(* get_objective_value() of the code as it is (since /repo 158493f: errors weighed by their scaling)
   equals the solver objective for every scaling and every assignment *)
Theorem C07_klae_reported_objective : forall (I : err_inst) (a : var -> Q),
  (klae_reported_objective_code I a == objective a (encode_klae I))%Q.
Proof. exact klae_reported_objective. Qed.
Print Assumptions C07_klae_reported_objective.

(* documentation of the behaviour before 158493f (klae_reported_objective_old = plain sum of the errors):
   it differs from the solver objective at an OPTIMAL assignment when an edge with non-zero error is scaled *)
Theorem C07_klae_objective_old_refuted : exists I a,
  sat a (encode_klae I) /\
  (forall b, sat b (encode_klae I) -> (objective a (encode_klae I) <= objective b (encode_klae I))%Q) /\
  ~ (klae_reported_objective_old I a == objective a (encode_klae I))%Q.
Proof. exact klae_objective_old_refuted. Qed.
Print Assumptions C07_klae_objective_old_refuted.

(* non-vacuity: the witness instance is well formed, its optimum satisfies the rows with error 2 on (b,c);
   solver objective 1 = reported objective of the current code; the old code reported 2 *)
Example C07_witness_sat : sat wit12_a (encode_klae wit12) /\ (objective wit12_a (encode_klae wit12) == 1)%Q /\
                          (klae_reported_objective_code wit12 wit12_a == 1)%Q /\
                          (klae_reported_objective_old wit12 wit12_a == 2)%Q /\ wf_graph (eG wit12).
Proof.
  split; [apply sat_b_sound; vm_compute; reflexivity|]. split; [vm_compute; reflexivity|].
  split; [vm_compute; reflexivity|]. split; [vm_compute; reflexivity|exact wit_graph_wf].
Qed.

(* non-vacuity of C07_klae_optimal_checked: the witness instance passes the executable premises and has an optimal
   satisfying assignment, so every hypothesis is satisfiable; its optimum is 1 *)
Example C07_checked_nonvacuous :
  klae_premises_b wit12 wit_order = true /\ e_given wit12 = None /\ p_allow_empty (e_base wit12) = false /\
  sat wit12_a (encode_klae wit12) /\
  (forall b, sat b (encode_klae wit12) -> (objective wit12_a (encode_klae wit12) <= objective b (encode_klae wit12))%Q) /\
  (objective wit12_a (encode_klae wit12) == 1)%Q.
Proof. exact klae_checked_nonvacuous. Qed.

Example C07_given_example : sat (gasg wit_given [2%Q] wit_given_P) (encode_klae wit_given) /\
                            (objective (gasg wit_given [2%Q] wit_given_P) (encode_klae wit_given) == 2)%Q.
Proof. exact klae_given_example. Qed.

(* The E1 comparison itself is decided by an extracted VERIFIED checker on every instance: when LinEquiv.milp_equiv_b accepts the LP
   read back from the solver and the LP of the encoder (encode_klae I, incl. the given-weights variants), the two have the same
   satisfying assignments, the same objective function and direction -- hence the same optimal solutions.  Every theorem above about
   `sat a (encode_klae I)` therefore holds for the LP the implementation built on that instance. *)
From FP Require Import LinEquiv.
Theorem C07_lp_comparison_is_verified : forall (m1 m2 : milp), milp_equiv_b m1 m2 = true ->
  (forall a, sat a m1 <-> sat a m2) /\ (forall a, (objective a m1 == objective a m2)%Q) /\ maximize m1 = maximize m2.
Proof. exact milp_equiv_sound. Qed.
Print Assumptions C07_lp_comparison_is_verified.

Theorem C07_equivalent_lps_have_the_same_optima : forall (m1 m2 : milp), milp_equiv_b m1 m2 = true ->
  forall a, (sat a m1 /\ forall b, sat b m1 -> obj_le m1 a b) <-> (sat a m2 /\ forall b, sat b m2 -> obj_le m2 a b).
Proof. exact milp_equiv_optimal. Qed.
Print Assumptions C07_equivalent_lps_have_the_same_optima.

(* ------------------------------------------------------------------ END TO END, hypotheses about the caller's input only *)
(* kLeastAbsErrors is feasible for every k >= 1 on every DAG (caller data as in C08_kmpe_end_to_end_feasible, plus a topological
   order; no subpath constraints): k copies of one source-to-sink path -- which exists because every edge of a DAG lies on one --
   with weight 0 and errors f; and, relative to the solver specification, the optimum is at most sum_e scale_e * f(e). *)
From FP Require Import Aug AugProofs PathCoverComplete EndToEnd1 EndToEnd2 EndToEnd3 EndToEndCover EndToEndExample EndToEndErr EndToEndErrExample.
Theorem C07_klae_end_to_end_feasible : forall (V : list node) (E : list PathEnc.edge) (s t : node) (topo : list node) (f : PathEnc.edge -> Z)
    (ign : list PathEnc.edge) (scale : list (PathEnc.edge * Q)) (cons : list (list PathEnc.edge)) (cov : Q),
  ~ In s V -> ~ In t V -> s <> t -> (forall e, In e E -> In (fst e) V /\ In (snd e) V) -> NoDup V -> NoDup E ->
  (forall u v, In (u, v) E -> (posn topo u < posn topo v)%nat) ->
  (forall e, In e E -> (0 <= f e)%Z) -> (forall es, In es scale -> (0 <= snd es <= 1)%Q) ->
  (forall c e, In c cons -> In e c -> In e E) ->
  (exists e, In e E /\ mem_edge e ign = false /\ mem_edge e (map fst (filter (fun es => Qeq_bool (snd es) 0) scale)) = false) ->
  forall k, cons = [] -> (1 <= k)%nat ->
  exists a, sat a (encode_klae (e2e_err_inst V E s t f ign scale cons cov k)) /\
            (objective a (encode_klae (e2e_err_inst V E s t f ign scale cons cov k))
             == sumq (fun e => scale_of (e2e_err_inst V E s t f ign scale cons cov k) e * flow_of (e2e_err_inst V E s t f ign scale cons cov k) e)
                     (basic_edges (e2e_err_inst V E s t f ign scale cons cov k)))%Q.
Proof. exact klae_end_to_end_feasible. Qed.
Print Assumptions C07_klae_end_to_end_feasible.

(* with subpath constraints: any k >= 1 source-to-sink paths that cover them *)
Theorem C07_klae_end_to_end_feasible_paths : forall (V : list node) (E : list PathEnc.edge) (s t : node) (f : PathEnc.edge -> Z)
    (ign : list PathEnc.edge) (scale : list (PathEnc.edge * Q)) (cons : list (list PathEnc.edge)) (cov : Q),
  ~ In s V -> ~ In t V -> s <> t -> (forall e, In e E -> In (fst e) V /\ In (snd e) V) -> NoDup V -> NoDup E ->
  (forall e, In e E -> (0 <= f e)%Z) -> (forall es, In es scale -> (0 <= snd es <= 1)%Q) ->
  (forall c e, In c cons -> In e c -> In e E) ->
  (exists e, In e E /\ mem_edge e ign = false /\ mem_edge e (map fst (filter (fun es => Qeq_bool (snd es) 0) scale)) = false) ->
  forall (k : nat) (P : N -> list node), (1 <= k)%nat -> st_paths (st_of V E s t) k P -> constraints_covered (e2e_base V E s t cons cov k) P ->
  exists a, sat a (encode_klae (e2e_err_inst V E s t f ign scale cons cov k)) /\
            (objective a (encode_klae (e2e_err_inst V E s t f ign scale cons cov k))
             == sumq (fun e => scale_of (e2e_err_inst V E s t f ign scale cons cov k) e * flow_of (e2e_err_inst V E s t f ign scale cons cov k) e)
                     (basic_edges (e2e_err_inst V E s t f ign scale cons cov k)))%Q.
Proof. exact klae_end_to_end_feasible_paths. Qed.
Print Assumptions C07_klae_end_to_end_feasible_paths.

Theorem C07_klae_end_to_end_optimum_bound : forall (V : list node) (E : list PathEnc.edge) (s t : node) (topo : list node) (f : PathEnc.edge -> Z)
    (ign : list PathEnc.edge) (scale : list (PathEnc.edge * Q)) (cons : list (list PathEnc.edge)) (cov : Q),
  ~ In s V -> ~ In t V -> s <> t -> (forall e, In e E -> In (fst e) V /\ In (snd e) V) -> NoDup V -> NoDup E ->
  (forall u v, In (u, v) E -> (posn topo u < posn topo v)%nat) ->
  (forall e, In e E -> (0 <= f e)%Z) -> (forall es, In es scale -> (0 <= snd es <= 1)%Q) ->
  (forall c e, In c cons -> In e c -> In e E) ->
  (exists e, In e E /\ mem_edge e ign = false /\ mem_edge e (map fst (filter (fun es => Qeq_bool (snd es) 0) scale)) = false) ->
  forall (k : nat) (a : var -> Q), cons = [] -> (1 <= k)%nat ->
  sat a (encode_klae (e2e_err_inst V E s t f ign scale cons cov k)) ->
  (forall b, sat b (encode_klae (e2e_err_inst V E s t f ign scale cons cov k)) ->
     (objective a (encode_klae (e2e_err_inst V E s t f ign scale cons cov k)) <= objective b (encode_klae (e2e_err_inst V E s t f ign scale cons cov k)))%Q) ->
  (objective a (encode_klae (e2e_err_inst V E s t f ign scale cons cov k))
   <= sumq (fun e => scale_of (e2e_err_inst V E s t f ign scale cons cov k) e * flow_of (e2e_err_inst V E s t f ign scale cons cov k) e)
           (basic_edges (e2e_err_inst V E s t f ign scale cons cov k)))%Q.
Proof. exact klae_end_to_end_optimum_bound. Qed.
Print Assumptions C07_klae_end_to_end_optimum_bound.

(* non-vacuity on the diamond of EndToEndExample.v: feasible for every k >= 1, with objective sum f = 10 for the constructed point *)
Example C07_end_to_end_example :
  forall k, (1 <= k)%nat -> exists a, sat a (encode_klae (e2e_err_inst xV xE 0%N 5%N xf [] [] [] 1%Q k)) /\
     (objective a (encode_klae (e2e_err_inst xV xE 0%N 5%N xf [] [] [] 1%Q k)) == 10)%Q.
Proof. exact (proj2 e2e_err_example). Qed.

(* ---- audit addition (agent-walk, audit/props_C03_C05_C07_C08.md): C07_klae_given_optimal had Examples of a satisfying assignment but none
   of ALL its hypotheses incl. an OPTIMAL one.  On the given-weights witness (chain 0-1-2-3-4, flows 2 and 0, one given weight 2, integer type):
   every hypothesis holds and the assignment of C07_given_example (objective 2) is optimal -- the path with weight 2 misses the flow 0 by 2,
   the empty layer misses the flow 2 by 2; optimality is proved from the computed rows by linear arithmetic ---- *)
From FP Require Import AuditErr ErrEncGivenMpe.
Example C07_given_optimal_hypotheses_satisfiable :
  e_given wit_given = Some [2%Q] /\ wf_graph (eG wit_given) /\ p_allow_empty (e_base wit_given) = true /\ p_cons (e_base wit_given) = [] /\
  length [2%Q] = eK wit_given /\
  (forall u v, In (u, v) (g_edges (eG wit_given)) -> (wg_rank u < wg_rank v)%nat) /\ (forall v, (wg_rank v <= 4)%nat) /\
  (forall e, In e (basic_edges wit_given) -> (0 <= scale_of wit_given e)%Q /\ (e_int wit_given = true -> is_int (flow_of wit_given e))) /\
  (e_int wit_given = true -> forall q, In q [2%Q] -> is_int q) /\
  sat (gasg wit_given [2%Q] wit_given_P) (encode_klae wit_given) /\
  (forall b, sat b (encode_klae wit_given) ->
     (objective (gasg wit_given [2%Q] wit_given_P) (encode_klae wit_given) <= objective b (encode_klae wit_given))%Q).
Proof. exact klae_given_optimal_premises. Qed.
Print Assumptions C07_given_optimal_hypotheses_satisfiable.
