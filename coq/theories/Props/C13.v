(* C13 — "Solved means proven optimal; inconclusive solver runs never yield an answer".
   Only property theorems (closed by [exact]), their assumptions and non-vacuity examples.
   Models: Search.v (transcriptions of SolverWrapper.get_model_status, AbstractPathModelDAG /
   AbstractWalkModelDiGraph.solve + getters, MinGenSet / MinFlowDecomp / MinFlowDecompCycles /
   MinPathCover / MinPathCoverCycles / NumPathsOptimization.solve).  Switches of the faithful
   model: mgs_skips (DESIGN §6 #14, repaired in /repo 03febc7), exit_on_fail (#15, repaired in 78680dc)
   and upper_excl (#1, repaired in 67a34b1); [true] = the pinned tree, [false] = the code as it stands now.
   The _refuted theorems about the switch-on models are kept as documentation of the old behaviour.

   Reading guide.  An outcome sequence [sts] has one entry per call of SolverWrapper.optimize in
   the order the implementation makes them; [used o] entries are consumed, the first [aux o] of
   them by auxiliary models (MinGenSet lower bound, guessed-weights model) before the main loop.
   [inconclusive_at sts p]: invocation p returned something other than optimal / infeasible
   (native status or custom time-out flag).  "p < used": that invocation really took place. *)
From Coq Require Import List Bool Arith Lia QArith.
Import ListNotations.
From FP Require Import Search SearchProofs1 SearchProofs2.
Local Close Scope Q_scope.

(* ---------------------------------------------------------------- status function *)
Theorem C13_custom_timeout_is_timelimit : forall r : raw,
  custom_timeout r = true -> status_of r = TimeLimit.
Proof. exact custom_timeout_is_timelimit. Qed.
Print Assumptions C13_custom_timeout_is_timelimit.

(* one SolverWrapper object, optimised repeatedly (model changed in between), on either route of optimize() *)
Theorem C13_status_is_last_run : forall rt st xs x,
  sw_status (sw_runs rt st (xs ++ [x])) = Some (status_of (outcome_of rt x)).
Proof. exact sw_status_is_last_run. Qed.
Print Assumptions C13_status_is_last_run.

Theorem C13_alarm_route_timelimit : forall st xs x,
  run_alarm x = true -> sw_status (sw_runs WithAlarm st (xs ++ [x])) = Some TimeLimit.
Proof. exact sw_alarm_route_timelimit. Qed.
Print Assumptions C13_alarm_route_timelimit.

Theorem C13_direct_route_native : forall st xs x,
  sw_status (sw_runs Direct st (xs ++ [x])) = Some (run_native x).
Proof. exact sw_direct_route_native. Qed.
Print Assumptions C13_direct_route_native.

(* ---------------------------------------------------------------- solved flag of a k-model *)
Theorem C13_solved_only_optimal : forall c : kcfg, external c = false -> forall ops st,
  solved (fst (kruns c st ops)) = match last_solve ops with Some s => is_optimal s | None => solved st end.
Proof. exact solved_only_optimal. Qed.
Print Assumptions C13_solved_only_optimal.

Theorem C13_custom_timeout_never_solved : forall c : kcfg, external c = false -> forall ops st x,
  custom_timeout x = true -> solved (fst (kruns c st (ops ++ [Solve x]))) = false.
Proof. exact custom_timeout_never_solved. Qed.
Print Assumptions C13_custom_timeout_never_solved.

Theorem C13_data_only_when_solved : forall (c : kcfg) (st : kstate) (o : kop),
  snd (kstep c st o) = RetData ->
  match o with
  | GetObjective => solved st = true
  | GetSolution => solved st = true \/ cached st = true
  | _ => False
  end.
Proof. exact data_only_when_solved. Qed.
Print Assumptions C13_data_only_when_solved.

Theorem C13_data_only_after_optimal : forall c : kcfg, external c = false -> forall ops1 o ops2 outs,
  snd (kruns c (kinit c) (ops1 ++ o :: ops2)) = outs ->
  nth_error outs (length ops1) = Some RetData ->
  has_optimal ops1 = true.
Proof. exact data_only_after_optimal. Qed.
Print Assumptions C13_data_only_after_optimal.

Theorem C13_getters_raise_before_solved : forall c : kcfg, external c = false -> forall ops1 o ops2,
  has_optimal ops1 = false ->
  nth_error (snd (kruns c (kinit c) (ops1 ++ o :: ops2))) (length ops1) =
    Some (match o with
          | Solve x => RetBool (is_optimal (status_of x))
          | IsSolvedQ => RetBool false
          | _ => Raise end).
Proof. exact getters_raise_before_solved. Qed.
Print Assumptions C13_getters_raise_before_solved.

(* ---------------------------------------------------------------- MinPathCover *)
Theorem C13_mpc_search_sound : forall excl lb ne sts k,
  so_res (mpc_solve excl lb ne sts) = Solved k ->
  lb <= k < upper excl ne /\
  map status_of (firstn (used (mpc_solve excl lb ne sts)) sts) = repeat Infeasible (k - lb) ++ [Optimal].
Proof. exact mpc_search_sound. Qed.
Print Assumptions C13_mpc_search_sound.

Theorem C13_mpc_search_inconclusive : forall excl lb ne sts p,
  inconclusive_at sts p -> p < used (mpc_solve excl lb ne sts) -> so_res (mpc_solve excl lb ne sts) = NotSolved.
Proof. exact mpc_search_inconclusive. Qed.
Print Assumptions C13_mpc_search_inconclusive.

Theorem C13_mpc_search_inconclusive_first : forall excl lb ne pre x post,
  Forall (fun y => status_of y = Infeasible) pre -> conclusive (status_of x) = false ->
  so_res (mpc_solve excl lb ne (pre ++ x :: post)) = NotSolved.
Proof. exact mpc_search_inconclusive_first. Qed.
Print Assumptions C13_mpc_search_inconclusive_first.

(* ---------------------------------------------------------------- MinPathCoverCycles *)
Theorem C13_mpcc_search_sound : forall excl lb ne sts k,
  so_res (mpcc_solve excl lb ne sts) = Solved k ->
  lb <= k < upper excl ne /\
  map status_of (firstn (used (mpcc_solve excl lb ne sts)) sts) = repeat Infeasible (k - lb) ++ [Optimal].
Proof. exact mpcc_search_sound. Qed.
Print Assumptions C13_mpcc_search_sound.

Theorem C13_mpcc_search_inconclusive : forall excl lb ne sts p,
  inconclusive_at sts p -> p < used (mpcc_solve excl lb ne sts) -> so_res (mpcc_solve excl lb ne sts) = NotSolved.
Proof. exact mpcc_search_inconclusive. Qed.
Print Assumptions C13_mpcc_search_inconclusive.

Theorem C13_mpcc_search_inconclusive_first : forall excl lb ne pre x post,
  Forall (fun y => status_of y = Infeasible) pre -> conclusive (status_of x) = false ->
  so_res (mpcc_solve excl lb ne (pre ++ x :: post)) = NotSolved.
Proof. exact mpcc_search_inconclusive_first. Qed.
Print Assumptions C13_mpcc_search_inconclusive_first.

(* ---------------------------------------------------------------- MinGenSet *)
(* the property for one loop, as a predicate on the switch *)
Definition C13_mgs_full_statement (mgs_skips : bool) : Prop :=
  forall lb n sts p, inconclusive_at sts p -> p < used (mgs_solve mgs_skips lb n sts) ->
                     so_res (mgs_solve mgs_skips lb n sts) = NotSolved.

(* the loop before /repo 03febc7 violated it (finding C13 / mgs_skips_inconclusive, fixed) *)
Theorem C13_mgs_refuted :
  exists lb n sts p k,
    inconclusive_at sts p /\ p < used (mgs_solve true lb n sts) /\
    so_res (mgs_solve true lb n sts) = Solved k /\ lb + p < k.
Proof. exact mgs_refuted. Qed.
Print Assumptions C13_mgs_refuted.

Theorem C13_mgs_refuted_custom_timeout :
  exists lb n sts p k,
    (exists x, nth_error sts p = Some x /\ custom_timeout x = true) /\
    p < used (mgs_solve true lb n sts) /\ so_res (mgs_solve true lb n sts) = Solved k /\ lb + p < k.
Proof. exact mgs_refuted_custom_timeout. Qed.
Print Assumptions C13_mgs_refuted_custom_timeout.

(* true with either switch: the answer itself was proven optimal *)
Theorem C13_mgs_faithful_final_optimal : forall b lb n sts k,
  so_res (mgs_solve b lb n sts) = Solved k ->
  lb <= k < mgs_upper lb n /\ 0 < used (mgs_solve b lb n sts) /\
  exists x, nth_error sts (used (mgs_solve b lb n sts) - 1) = Some x /\ status_of x = Optimal.
Proof. exact mgs_faithful_final_optimal. Qed.
Print Assumptions C13_mgs_faithful_final_optimal.

(* the code as it stands now (switch off, /repo 03febc7) *)
Theorem C13_mgs_search_inconclusive : C13_mgs_full_statement false.
Proof. exact mgs_search_inconclusive. Qed.
Print Assumptions C13_mgs_search_inconclusive.

Theorem C13_mgs_search_inconclusive_first : forall lb n pre x post,
  Forall (fun y => status_of y = Infeasible) pre -> conclusive (status_of x) = false ->
  so_res (mgs_solve false lb n (pre ++ x :: post)) = NotSolved.
Proof. exact mgs_search_inconclusive_first. Qed.
Print Assumptions C13_mgs_search_inconclusive_first.

Theorem C13_mgs_search_sound : forall lb n sts k,
  so_res (mgs_solve false lb n sts) = Solved k ->
  lb <= k < mgs_upper lb n /\
  map status_of (firstn (used (mgs_solve false lb n sts)) sts) = repeat Infeasible (k - lb) ++ [Optimal].
Proof. exact mgs_search_sound. Qed.
Print Assumptions C13_mgs_search_sound.

(* ---------------------------------------------------------------- MinFlowDecomp *)
(* main loop: true of the code as it stands (any switch setting) *)
Theorem C13_mfd_main_inconclusive : forall sk ex P sts p,
  inconclusive_at sts p -> aux (mfd_solve sk ex P sts) <= p < used (mfd_solve sk ex P sts) ->
  so_res (mfd_solve sk ex P sts) = NotSolved.
Proof. exact mfd_main_inconclusive. Qed.
Print Assumptions C13_mfd_main_inconclusive.

(* auxiliary invocations, code as it stands: skipped MinGenSet k / exit(0) *)
Theorem C13_mfd_refuted_skipped_lowerbound :
  exists P sts p k,
    inconclusive_at sts p /\ p < aux (mfd_solve true true P sts) /\
    so_res (mfd_solve true true P sts) = Solved k /\ lb0 P + p < lbk (mfd_solve true true P sts).
Proof. exact mfd_refuted_skipped_lowerbound. Qed.
Print Assumptions C13_mfd_refuted_skipped_lowerbound.

Theorem C13_mfd_refuted_exit : forall sk,
  exists P sts p, inconclusive_at sts p /\ so_res (mfd_solve sk true P sts) = Exited.
Proof. exact mfd_refuted_exit. Qed.
Print Assumptions C13_mfd_refuted_exit.

(* corrected model: whatever happens in the auxiliary invocations, a Solved k is certified *)
Theorem C13_mfd_search_sound : forall ex P sts k,
  so_res (mfd_solve false ex P sts) = Solved k ->
  let o := mfd_solve false ex P sts in
  (lbk o = lb0 P \/
   (use_mgs P = true /\ exists kg m, lbk o = Nat.max (lb0 P) kg /\ lb0 P <= kg /\ m <= aux o /\
      map status_of (firstn m sts) = repeat Infeasible (kg - lb0 P) ++ [Optimal])) /\
  lbk o <= k < upper (upper_excl P) (nedges P) /\ aux o <= used o /\
  exists tail,
    map status_of (firstn (used o - aux o) (skipn (aux o) sts)) = repeat Infeasible (k - lbk o) ++ tail /\
    (tail = [Optimal] \/
     (tail = [] /\ (greedy P k = true \/
                    (guessed P = true /\ gw_paths P = k /\
                     exists x, nth_error sts (aux o - 1) = Some x /\ status_of x = Optimal)))).
Proof. exact mfd_search_sound. Qed.
Print Assumptions C13_mfd_search_sound.

Theorem C13_mfd_never_exits : forall sk P sts, so_res (mfd_solve sk false P sts) <> Exited.
Proof. exact mfd_never_exits. Qed.
Print Assumptions C13_mfd_never_exits.

(* ---------------------------------------------------------------- MinFlowDecompCycles *)
Theorem C13_mfdc_main_inconclusive : forall sk P sts p,
  inconclusive_at sts p -> aux (mfdc_solve sk P sts) <= p < used (mfdc_solve sk P sts) ->
  so_res (mfdc_solve sk P sts) = NotSolved.
Proof. exact mfdc_main_inconclusive. Qed.
Print Assumptions C13_mfdc_main_inconclusive.

Theorem C13_mfdc_refuted_skipped_lowerbound :
  exists P sts p k,
    inconclusive_at sts p /\ p < aux (mfdc_solve true P sts) /\
    so_res (mfdc_solve true P sts) = Solved k /\ lb0 P + p < lbk (mfdc_solve true P sts).
Proof. exact mfdc_refuted_skipped_lowerbound. Qed.
Print Assumptions C13_mfdc_refuted_skipped_lowerbound.

Theorem C13_mfdc_search_sound : forall P sts k,
  so_res (mfdc_solve false P sts) = Solved k ->
  let o := mfdc_solve false P sts in
  (lbk o = lb0 P \/
   (use_mgs P = true /\ exists kg m, lbk o = Nat.max (lb0 P) kg /\ lb0 P <= kg /\ m <= aux o /\
      map status_of (firstn m sts) = repeat Infeasible (kg - lb0 P) ++ [Optimal])) /\
  lbk o <= k < upper (upper_excl P) (nedges P) /\ aux o <= used o /\
  over P (used o) = false /\
  exists tail,
    map status_of (firstn (used o - aux o) (skipn (aux o) sts)) = repeat Infeasible (k - lbk o) ++ tail /\
    (tail = [Optimal] \/
     (tail = [] /\ guessed P = true /\ gw_paths P = k /\
      exists x, nth_error sts (aux o - 1) = Some x /\ status_of x = Optimal)).
Proof. exact mfdc_search_sound. Qed.
Print Assumptions C13_mfdc_search_sound.

Theorem C13_mfdc_never_exits : forall sk P sts, so_res (mfdc_solve sk P sts) <> Exited.
Proof. exact mfdc_never_exits. Qed.
Print Assumptions C13_mfdc_never_exits.

(* ---------------------------------------------------------------- solve() called again on the same object *)
Theorem C13_failed_run_leaves_no_trace : forall sk ex P sts,
  lbk (fd_solve sk ex P sts) =
  match lb_phase sk ex (use_mgs P) (lb0 P) (nweights P) sts with LB lb _ => lb | _ => lb0 P end.
Proof. exact failed_run_leaves_no_trace. Qed.
Print Assumptions C13_failed_run_leaves_no_trace.

Theorem C13_resolve_is_fresh_run : forall sk ex P lb sts,
  fd_resolve P lb None sts =
  fd_solve sk ex (mkfd lb (upper_excl P) (nedges P) false (nweights P) (guessed P) (gw_paths P) (greedy P) (over P)) sts.
Proof. exact resolve_is_fresh_run. Qed.
Print Assumptions C13_resolve_is_fresh_run.

Theorem C13_resolve_main_inconclusive : forall P lb sts p,
  inconclusive_at sts p -> aux (fd_resolve P lb None sts) <= p < used (fd_resolve P lb None sts) ->
  so_res (fd_resolve P lb None sts) = NotSolved.
Proof. exact resolve_main_inconclusive. Qed.
Print Assumptions C13_resolve_main_inconclusive.

(* ---------------------------------------------------------------- MinFlowDecomp with use_subgraph_scanning_lowerbound *)
(* a window (nested MinFlowDecomp) that met an inconclusive status in its own main loop contributes no bound *)
Theorem C13_scan_inconclusive_window_no_bound : forall sk ex W ws sts b n p,
  inconclusive_at sts p -> aux (fd_solve sk ex W sts) <= p < used (fd_solve sk ex W sts) ->
  scan sk ex (W :: ws) sts b n =
  scan sk ex ws (skipn (used (fd_solve sk ex W sts)) sts) b (n + used (fd_solve sk ex W sts)).
Proof. exact scan_inconclusive_window_no_bound. Qed.
Print Assumptions C13_scan_inconclusive_window_no_bound.

Theorem C13_mfd_scan_main_inconclusive : forall sk ex P ws sts p,
  inconclusive_at sts p ->
  aux (mfd_scan_solve sk ex P ws sts) <= p < used (mfd_scan_solve sk ex P ws sts) ->
  so_res (mfd_scan_solve sk ex P ws sts) = NotSolved.
Proof. exact mfd_scan_main_inconclusive. Qed.
Print Assumptions C13_mfd_scan_main_inconclusive.

Theorem C13_mfd_scan_sound : forall ex P ws sts k,
  so_res (mfd_scan_solve false ex P ws sts) = Solved k ->
  let o := mfd_scan_solve false ex P ws sts in
  (exists lb1 b, lbk o = Nat.max lb1 b /\
     (lb1 = lb0 P \/ (use_mgs P = true /\ exists kg m, lb1 = Nat.max (lb0 P) kg /\ lb0 P <= kg /\
                        map status_of (firstn m sts) = repeat Infeasible (kg - lb0 P) ++ [Optimal])) /\
     (b = 0 \/ exists W sts', In W ws /\ so_res (fd_solve false ex W sts') = Solved b)) /\
  lbk o <= k < upper (upper_excl P) (nedges P) /\ aux o <= used o /\
  exists tail,
    map status_of (firstn (used o - aux o) (skipn (aux o) sts)) = repeat Infeasible (k - lbk o) ++ tail /\
    (tail = [Optimal] \/ tail = []).
Proof. exact mfd_scan_sound. Qed.
Print Assumptions C13_mfd_scan_sound.

(* ---------------------------------------------------------------- NumPathsOptimization *)
Theorem C13_npo_sound : forall P sts k,
  so_res (npo_solve P sts) = Solved k ->
  kstart P <= k <= kmax P /\
  (npo_ext P k = true \/
   (0 < used (npo_solve P sts) /\
    exists x, nth_error sts (used (npo_solve P sts) - 1) = Some x /\ status_of x = Optimal)).
Proof. exact npo_sound. Qed.
Print Assumptions C13_npo_sound.

(* ---------------------------------------------------------------- non-vacuity *)
Definition o_ := mkraw Optimal false.
Definition i_ := mkraw Infeasible false.
Definition t_ := mkraw TimeLimit false.
Definition u_ := mkraw Other false.
Definition c_ := mkraw Optimal true.      (* HiGHS says optimal, but the custom time-out fired *)

Example C13_wrapper_nonvacuous :
  run_wrapper true [mkrun Optimal false; mkrun TimeLimit false; mkrun Optimal true; mkrun Infeasible false]
    = [Some Optimal; Some TimeLimit; Some TimeLimit; Some Infeasible] /\
  run_wrapper false [mkrun Optimal false; mkrun Other false; mkrun Optimal true] = [Some Optimal; Some Other; Some Optimal].
Proof. vm_compute. split; reflexivity. Qed.

(* the flag machine: solve-optimal gives data, a later timed-out solve clears the flag, the cached
   solution is still handed out by get_solution while get_objective_value raises *)
Example C13_kmodel_nonvacuous :
  run_kmodel false true [GetSolution; IsSolvedQ; Solve t_; GetObjective; Solve o_; GetSolution; Solve c_; IsSolvedQ; GetObjective; GetSolution]
  = ([Raise; RetBool false; RetBool false; Raise; RetBool true; RetData; RetBool false; RetBool false; Raise; RetData], 3).
Proof. vm_compute. reflexivity. Qed.

(* the loops do solve, and an inconclusive status in first / middle / last position stops them *)
Example C13_search_nonvacuous :
  so_res (mpc_solve true 1 5 [i_; i_; o_]) = Solved 3 /\ used (mpc_solve true 1 5 [i_; i_; o_]) = 3 /\
  so_res (mpc_solve true 1 5 [t_; o_]) = NotSolved /\ so_res (mpc_solve true 1 5 [i_; u_; o_]) = NotSolved /\
  so_res (mpc_solve true 1 5 [i_; i_; i_; c_]) = NotSolved /\ used (mpc_solve true 1 5 [i_; i_; i_; c_]) = 4 /\
  so_res (mgs_solve false 1 4 [i_; t_; o_]) = NotSolved /\ so_res (mgs_solve true 1 4 [i_; t_; o_]) = Solved 3 /\
  (* MinFlowDecomp: MinGenSet [i_; o_] gives lb 2, guessed weights o_ with 3 paths, main loop k=2 i_, k=3 presolved *)
  mfd_solve false false (mkfd 1 true 6 true 4 true 3 never never) [i_; o_; o_; i_] = mkout (Solved 3) 4 3 2 /\
  (* time limit in the guessed-weights model: plain search, still certified *)
  mfd_solve false false (mkfd 1 true 6 true 4 true 3 never never) [i_; o_; t_; i_; o_] = mkout (Solved 3) 5 3 2 /\
  (* time limit in the main loop *)
  so_res (mfd_solve true true (mkfd 1 true 6 true 4 true 3 never never) [i_; o_; o_; t_]) = NotSolved /\
  (* MinFlowDecompCycles: elapsed-time exit after the second invocation *)
  so_res (mfdc_solve true (mkfd 1 true 6 false 0 false 0 never (fun n => Nat.leb 2 n)) [i_; o_]) = NotSolved /\
  so_res (mfdc_solve true (mkfd 1 true 6 false 0 false 0 never never) [i_; o_]) = Solved 2 /\
  (* upper end: exclusive (pinned tree) misses k = |E|, inclusive (since 67a34b1) reaches it *)
  so_res (mpc_solve true 1 2 [i_; o_]) = NotSolved /\ so_res (mpc_solve false 1 2 [i_; o_]) = Solved 2 /\
  so_res (mpc_solve false 1 2 [i_; t_]) = NotSolved.
Proof. vm_compute. repeat split; reflexivity. Qed.

(* a run that stopped with a time limit at k = 2 leaves lbk = 2; the next call starts there again *)
Example C13_resolve_nonvacuous :
  let P := mkfd 1 true 6 true 4 false 0 never never in
  mfd_solve false false P [i_; o_; t_] = mkout NotSolved 3 2 2 /\
  fd_resolve P (lbk (mfd_solve false false P [i_; o_; t_])) None [o_] = mkout (Solved 2) 1 0 2.
Proof. vm_compute. split; reflexivity. Qed.

(* scanning: the window (lb 2) finds k=2 infeasible, k=3 optimal -> main loop starts at 3; with a time limit at
   the window's k=3 the window gives no bound and the main loop starts at 2 again *)
Example C13_scan_nonvacuous :
  let P := mkfd 2 false 23 false 0 false 0 never never in
  let W := mkfd 2 false 20 false 0 false 0 never never in
  mfd_scan_solve false false P [W] [i_; o_; o_] = mkout (Solved 3) 3 2 3 /\
  mfd_scan_solve false false P [W] [i_; t_; i_; o_] = mkout (Solved 3) 4 2 2 /\
  mfd_scan_solve false false P [W] [i_; o_; t_] = mkout NotSolved 3 2 3.
Proof. vm_compute. repeat split; reflexivity. Qed.

(* NumPathsOptimization: skips unsolved k (by design) but returns only a model that was solved *)
Example C13_npo_nonvacuous :
  so_res (npo_solve (mknpo 2 6 true None None never (fun _ => 0%Q) never) [t_; i_; o_]) = Solved 4 /\
  so_res (npo_solve (mknpo 2 4 true None None never (fun _ => 0%Q) never) [t_; i_; c_]) = NotSolved /\
  (* stop_on_delta_abs = 1: objectives 9, 5, 5 for k = 2, 3, 4; compares with the FIRST feasible objective *)
  so_res (npo_solve (mknpo 2 6 false (Some 1%Q) None never
                        (fun k => match k with 2 => 9%Q | _ => 5%Q end) never) [o_; o_; o_; o_; o_]) = NotSolved /\
  so_res (npo_solve (mknpo 2 6 false (Some 4%Q) None never
                        (fun k => match k with 2 => 9%Q | _ => 5%Q end) never) [o_; o_; o_]) = Solved 3.
Proof. vm_compute. repeat split; reflexivity. Qed.

(* ---- audit additions (agent-c19, audit/props_C12_C15.md) ---- *)
(* the hypotheses `inconclusive_at sts p` + `aux <= p < used` of the _inconclusive theorems, instantiated exactly (the Examples
   above state the outcomes, not these premises): MinPathCover, MinGenSet, MinFlowDecomp main loop, MinFlowDecompCycles, a repeated
   solve(), the scanning variant *)
Example C13_inconclusive_hypotheses_satisfiable :
  (inconclusive_at [i_; u_; o_] 1 /\ 1 < used (mpc_solve true 1 5 [i_; u_; o_])) /\
  (inconclusive_at [i_; t_; o_] 1 /\ 1 < used (mgs_solve false 1 4 [i_; t_; o_])) /\
  (let P := mkfd 1 true 6 true 4 true 3 never never in
   inconclusive_at [i_; o_; o_; t_] 3 /\ aux (mfd_solve true true P [i_; o_; o_; t_]) <= 3 < used (mfd_solve true true P [i_; o_; o_; t_])) /\
  (let P := mkfd 1 true 6 false 0 false 0 never never in
   inconclusive_at [i_; t_] 1 /\ aux (mfdc_solve false P [i_; t_]) <= 1 < used (mfdc_solve false P [i_; t_])) /\
  (let P := mkfd 1 true 6 true 4 false 0 never never in
   inconclusive_at [t_] 0 /\ aux (fd_resolve P 2 None [t_]) <= 0 < used (fd_resolve P 2 None [t_])) /\
  (let P := mkfd 2 false 23 false 0 false 0 never never in let W := mkfd 2 false 20 false 0 false 0 never never in
   inconclusive_at [i_; o_; t_] 2 /\
   aux (mfd_scan_solve false false P [W] [i_; o_; t_]) <= 2 < used (mfd_scan_solve false false P [W] [i_; o_; t_])).
Proof.
  cbn zeta. repeat split; try (vm_compute; lia);
    first [exists u_; split; reflexivity | exists t_; split; reflexivity].
Qed.
Print Assumptions C13_inconclusive_hypotheses_satisfiable.

(* degenerate inputs, so that they are not mistaken for content: an EMPTY search range (lb >= upper end) ends NotSolved without any
   solver call; a status list that is too short ends with the separate result Starved, never with Solved / NotSolved (the theorems
   above are therefore silent, not wrong, on starved runs); a search that is started at lb = 0 and is told "optimal" reports
   Solved 0 -- the loops do not guard against k = 0, the callers pass lb >= 1 (get_lowerbound_k / max(1, ...)) *)
Example C13_degenerate_ranges_and_starvation :
  mpc_solve true 5 5 [o_] = mkout NotSolved 0 0 5 /\
  so_res (mpc_solve true 1 5 [i_]) = Starved /\ so_res (mpc_solve true 1 5 []) = Starved /\ so_res (mgs_solve false 1 4 [i_]) = Starved /\
  so_res (mpc_solve true 0 3 [o_]) = Solved 0.
Proof. vm_compute. repeat split; reflexivity. Qed.
Print Assumptions C13_degenerate_ranges_and_starvation.
