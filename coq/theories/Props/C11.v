(* C11 — node-weighted solving equals solving the explicitly node-expanded instance.
   Only property theorems (closed by [exact]), their assumptions, and non-vacuity examples.
   Model: NodeExp.v (transcription of flowpaths/nodeexpandeddigraph.py over Coq strings and of the
   node-mode glue of the model classes).  Node mode of every class IS edge mode on [ne_construct G]
   with [edges_to_ignore], expanded constraints / starts / ends, followed by get_condensed_paths; so
   equality of status and objective with the explicit expansion is definitional and the substance is
   below: what the expansion is, that nothing is lost or renamed on the way there and back. *)
From Coq Require Import List String Ascii Bool Arith ZArith.
Import ListNotations.
From FP Require Import NodeExp NodeExpProofs NodeExpLen.
From Coq Require Import NArith QArith.
From FP Require Import Lin PathEnc MiscEnc NodeMefE2E FillSpec.
Local Close Scope Q_scope.
Local Open Scope string_scope.
Local Open Scope list_scope.

(* ---- names *)
Theorem C11_expanded_names_injective_disjoint :
  (forall u v, ne_exp0 u = ne_exp0 v -> u = v) /\ (forall u v, ne_exp1 u = ne_exp1 v -> u = v) /\
  (forall u v, ne_exp0 u <> ne_exp1 v) /\
  (forall v, ne_drop_last2 (ne_exp0 v) = v /\ ne_last2 (ne_exp0 v) = ".0") /\
  (forall v, ne_drop_last2 (ne_exp1 v) = v /\ ne_last2 (ne_exp1 v) = ".1").
Proof. exact exp_names_spec. Qed.
Print Assumptions C11_expanded_names_injective_disjoint.

(* ---- paths: expand, then get_condensed_paths.  Any names (empty, with dots, ending in ".0"/".1");
   precondition: nodes of G that are not literally the synthetic global source / sink name. *)
Theorem C11_condense_expand_path : forall G gsrc gsnk p,
  (forall v, In v p -> ne_is_node G v = true) ->
  (forall v, In v p -> v <> gsrc /\ v <> gsnk) ->
  ne_condense_path G gsrc gsnk (ne_expand_path p) = NE_Ok p.
Proof. exact condense_expand_path. Qed.
Print Assumptions C11_condense_expand_path.

Theorem C11_condense_expand_single_node : forall G gsrc gsnk v,
  ne_is_node G v = true -> v <> gsrc -> v <> gsnk ->
  ne_condense_path G gsrc gsnk [ne_exp0 v; ne_exp1 v] = NE_Ok [v].
Proof. exact condense_expand_single_node. Qed.
Print Assumptions C11_condense_expand_single_node.

Theorem C11_condense_expand_paths : forall G gsrc gsnk ps,
  (forall p v, In p ps -> In v p -> ne_is_node G v = true /\ v <> gsrc /\ v <> gsnk) ->
  ne_condense_paths G gsrc gsnk (map ne_expand_path ps) = NE_Ok ps.
Proof. exact condense_paths_expand. Qed.
Print Assumptions C11_condense_expand_paths.

(* whatever get_condensed_paths returns is written in the caller's node names *)
Theorem C11_condensed_names_are_original : forall G gsrc gsnk p q,
  ne_condense_path G gsrc gsnk p = NE_Ok q -> forall v, In v q -> ne_is_node G v = true.
Proof. exact condense_path_names. Qed.
Print Assumptions C11_condensed_names_are_original.

(* ---- constraints and elements *)
Theorem C11_expand_constraint_roundtrip : forall G cs xs,
  ne_expand_constraints G cs = NE_Ok xs -> map ne_condense_constraint xs = cs.
Proof. exact expand_constraint_roundtrip. Qed.
Print Assumptions C11_expand_constraint_roundtrip.

Theorem C11_empty_constraint_rejected : forall G cs,
  In [] cs -> ne_expand_constraints G cs = NE_Err NE_ValueError.
Proof. exact expand_constraints_rejects_empty. Qed.
Print Assumptions C11_empty_constraint_rejected.

Theorem C11_edge_constraint_keeps_trailing_node : forall G c x u v,
  ne_cons_edges G c = NE_Ok x -> c <> [] -> last c (NE_Node "") = NE_Edge u v ->
  last x ("", "") = (ne_exp0 v, ne_exp1 v).
Proof. exact cons_edges_trailing_node. Qed.
Print Assumptions C11_edge_constraint_keeps_trailing_node.

Theorem C11_expand_element_roundtrip : forall G el e,
  ne_expanded_edge G el = NE_Ok e -> ne_condense_elem e = el.
Proof. exact expand_element_roundtrip. Qed.
Print Assumptions C11_expand_element_roundtrip.

Theorem C11_expanded_element_defined : forall G el,
  (exists e, ne_expanded_edge G el = NE_Ok e) <->
  match el with NE_Node v => ne_is_node G v = true | NE_Edge u v => ne_is_edge G u v = true end.
Proof. exact expanded_edge_defined. Qed.
Print Assumptions C11_expanded_element_defined.

Theorem C11_expanded_starts : forall G l x,
  ne_expanded_starts G l = NE_Ok x ->
  x = map ne_exp0 l /\ map ne_drop_last2 x = l /\ forall v, In v l -> ne_is_node G v = true.
Proof. exact expanded_starts_spec. Qed.
Print Assumptions C11_expanded_starts.

Theorem C11_expanded_ends : forall G l x,
  ne_expanded_ends G l = NE_Ok x ->
  x = map ne_exp1 l /\ map ne_drop_last2 x = l /\ forall v, In v l -> ne_is_node G v = true.
Proof. exact expanded_ends_spec. Qed.
Print Assumptions C11_expanded_ends.

(* ---- the expansion: its edges, and edges_to_ignore *)
Theorem C11_expand_edges : forall G flow len a b,
  ne_wf G ->
  (In (a, b) (ne_ekeys (fst (ne_expand_core G flow len))) <-> ne_xrel (ne_inode G) (ne_iedge G) a b).
Proof. exact expand_edges_rel. Qed.
Print Assumptions C11_expand_edges.

Theorem C11_expand_ignore_exact : forall G flow len,
  snd (ne_expand_core G flow len) = flat_map (ne_ign_of_node flow) G.
Proof. exact expand_ignore_exact. Qed.
Print Assumptions C11_expand_ignore_exact.

Theorem C11_expand_ignore_spec : forall G flow len e,
  In e (snd (ne_expand_core G flow len)) <->
  (exists u v, ne_iedge G u v /\ e = (ne_exp1 u, ne_exp0 v)) \/
  (exists nd, In nd G /\ ne_dget (ne_at nd) flow = None /\ e = (ne_exp0 (ne_nm nd), ne_exp1 (ne_nm nd))).
Proof. exact expand_ignore_spec. Qed.
Print Assumptions C11_expand_ignore_spec.

Theorem C11_node_with_attribute_not_ignored : forall G flow len nd x,
  ne_wf G -> In nd G -> ne_dget (ne_at nd) flow = Some x ->
  ~ In (ne_exp0 (ne_nm nd), ne_exp1 (ne_nm nd)) (snd (ne_expand_core G flow len)).
Proof. exact node_with_attr_not_ignored. Qed.
Print Assumptions C11_node_with_attribute_not_ignored.

Theorem C11_ignore_list_of_model_classes : forall G ign elems l,
  ne_ignore_internal G ign elems = NE_Ok l ->
  forall e, In e l <-> In e ign \/ exists v, In (NE_Node v) elems /\ ne_is_node G v = true /\ e = (ne_exp0 v, ne_exp1 v).
Proof. exact ignore_internal_spec. Qed.
Print Assumptions C11_ignore_list_of_model_classes.

(* ---- routes of G and of expand G *)
Theorem C11_expand_routes_bij : forall (N : string -> Prop) (E : string -> string -> Prop),
  (forall p, p <> [] -> (forall v, In v p -> N v) -> ne_walk E p ->
     ne_walk (ne_xrel N E) (ne_expand_path p) /\
     (exists t, ne_expand_path p = ne_exp0 (hd "" p) :: t) /\ last (ne_expand_path p) "" = ne_exp1 (last p "")) /\
  (forall q v w, ne_walk (ne_xrel N E) q -> (exists t, q = ne_exp0 v :: t) -> last q "" = ne_exp1 w ->
     exists! p, q = ne_expand_path p /\ ne_walk E p /\ (forall x, In x p -> N x) /\ hd "" p = v /\ last p "" = w).
Proof. exact expand_routes_bij. Qed.
Print Assumptions C11_expand_routes_bij.

Theorem C11_sources_correspond : forall (N : string -> Prop) (E : string -> string -> Prop) v,
  (forall u, ~ E u v) <-> (forall a, ~ ne_xrel N E a (ne_exp0 v)).
Proof. exact expand_source_iff. Qed.
Print Assumptions C11_sources_correspond.

Theorem C11_sinks_correspond : forall (N : string -> Prop) (E : string -> string -> Prop) v,
  (forall w, ~ E v w) <-> (forall b, ~ ne_xrel N E (ne_exp1 v) b).
Proof. exact expand_sink_iff. Qed.
Print Assumptions C11_sinks_correspond.

Theorem C11_expansion_edge_traversed_as_often_as_node_visited : forall p v,
  count_occ ne_edec (ne_pairs (ne_expand_path p)) (ne_exp0 v, ne_exp1 v) = count_occ string_dec p v.
Proof. exact expand_visit_count. Qed.
Print Assumptions C11_expansion_edge_traversed_as_often_as_node_visited.

Theorem C11_edge_image_traversed_as_often_as_edge : forall p u v,
  count_occ ne_edec (ne_pairs (ne_expand_path p)) (ne_exp1 u, ne_exp0 v) = count_occ ne_edec (ne_pairs p) (u, v).
Proof. exact expand_edge_count. Qed.
Print Assumptions C11_edge_image_traversed_as_often_as_edge.

(* ---- get_solution(remove_empty_paths / remove_empty_walks = True) in node mode.  The code as it is now
   (since /repo 7b35658) decides emptiness on the INTERNAL route, so a route through a single node survives
   with its weight.  The old behaviour (filter on the condensed route; finding
   remove_empty_drops_single_node, fixed) is kept as [ne_node_solution_old] with its refutation. *)
Theorem C11_full_statement_remove_empty : forall G gsrc gsnk (p : list string) (w : Z),
  p <> [] -> (forall v, In v p -> ne_is_node G v = true /\ v <> gsrc /\ v <> gsnk) ->
  ne_node_solution G gsrc gsnk [ne_expand_path p] [w] true = NE_Ok [(p, w)].
Proof. exact remove_empty_keeps_routes. Qed.
Print Assumptions C11_full_statement_remove_empty.

Theorem C11_solution_without_filter : forall G gsrc gsnk ps ws,
  (forall p v, In p ps -> In v p -> ne_is_node G v = true /\ v <> gsrc /\ v <> gsnk) ->
  ne_node_solution G gsrc gsnk (map ne_expand_path ps) ws false = NE_Ok (combine ps ws).
Proof. exact node_solution_no_filter. Qed.
Print Assumptions C11_solution_without_filter.

Theorem C11_solution_filter_drops_exactly_empty_routes : forall G gsrc gsnk ps ws,
  (forall p v, In p ps -> In v p -> ne_is_node G v = true /\ v <> gsrc /\ v <> gsnk) ->
  ne_node_solution G gsrc gsnk (map ne_expand_path ps) ws true =
  NE_Ok (filter (fun pw => negb (Nat.eqb (List.length (fst pw)) 0)) (combine ps ws)).
Proof. exact node_solution_filter. Qed.
Print Assumptions C11_solution_filter_drops_exactly_empty_routes.

Theorem C11_old_remove_empty_keeps_routes_refuted : ~ remove_empty_keeps_routes_statement ne_node_solution_old.
Proof. exact remove_empty_old_keeps_routes_refuted. Qed.
Print Assumptions C11_old_remove_empty_keeps_routes_refuted.

Theorem C11_old_remove_empty_drops_single_node_refuted :
  exists G gsrc gsnk internal weights,
    internal = map ne_expand_path [["a"]] /\ weights = [5%Z] /\
    ne_node_solution_old G gsrc gsnk internal weights false = NE_Ok [(["a"], 5%Z)] /\
    ne_node_solution_old G gsrc gsnk internal weights true = NE_Ok [].
Proof. exact remove_empty_old_drops_single_node_refuted. Qed.
Print Assumptions C11_old_remove_empty_drops_single_node_refuted.

Example C11_nonvacuous_single_node_route_kept :
  ne_node_solution ne_G1 "source1" "sink1" [["a.0"; "a.1"]; []] [5%Z; 0%Z] true = NE_Ok [(["a"], 5%Z)].
Proof. vm_compute. reflexivity. Qed.

(* ---- non-vacuity: a concrete graph (insertion order b, a; edge a -> b; b lacks the attribute; node
   named "a.0" next to "a") run through the whole constructor; the hypotheses of the theorems hold. *)
Definition ex_G : ne_ingraph :=
  [ {| ne_nm := "b"; ne_at := [("len", 2%Z)]; ne_preds := [("a", [("w", 7%Z)])]; ne_succs := [] |};
    {| ne_nm := "a"; ne_at := [("flow", 5%Z)]; ne_preds := []; ne_succs := [("b", [("w", 7%Z)])] |};
    {| ne_nm := "a.0"; ne_at := [("flow", 1%Z)]; ne_preds := []; ne_succs := [] |} ].

Example C11_nonvacuous_construct :
  ne_construct ex_G "flow" (Some "len") [] [] false "source9" "sink9" =
  NE_Ok ({| ne_xn := [("b.0", [("len", 2%Z)]); ("b.1", [("len", 2%Z)]); ("a.1", [("flow", 5%Z)]); ("a.0", [("flow", 5%Z)]);
                      ("a.0.0", [("flow", 1%Z)]); ("a.0.1", [("flow", 1%Z)])];
            ne_xe := [(("b.0", "b.1"), [("len", 2%Z)]); (("a.1", "b.0"), [("w", 7%Z); ("len", 0%Z)]);
                      (("a.0", "a.1"), [("flow", 5%Z)]); (("a.0.0", "a.0.1"), [("flow", 1%Z)])] |},
         [("b.0", "b.1"); ("a.1", "b.0")]).
Proof. vm_compute. reflexivity. Qed.

Example C11_nonvacuous_wf : ne_wf ex_G.
Proof.
  split.
  - cbn. repeat constructor; cbn; intuition discriminate.
  - intros nd s Hnd Hs. cbn in Hnd. destruct Hnd as [<-|[<-|[<-|[]]]]; cbn in Hs; try tauto.
    destruct Hs as [<-|[]]. exists (nth 0 ex_G {| ne_nm := ""; ne_at := []; ne_preds := []; ne_succs := [] |}).
    cbn. auto.
  - intros u v [nd [Hnd [<- Hu]]]. cbn in Hnd. destruct Hnd as [<-|[<-|[<-|[]]]]; cbn in Hu; try tauto.
    destruct Hu as [<-|[]]. cbn. auto.
Qed.

Example C11_nonvacuous_roundtrip :
  ne_condense_paths ex_G "source9" "sink9" (map ne_expand_path [["a"; "b"]; ["a.0"]; []]) = NE_Ok [["a"; "b"]; ["a.0"]; []]
  /\ ne_walk (ne_iedge ex_G) ["a"; "b"]
  /\ ne_expand_constraints ex_G [[NE_Edge "a" "b"]] = NE_Ok [[("a.0", "a.1"); ("a.1", "b.0"); ("b.0", "b.1")]]
  /\ ne_expand_constraints ex_G [[NE_Node "a.0"; NE_Node "b"]] = NE_Ok [[("a.0.0", "a.0.1"); ("b.0", "b.1")]].
Proof.
  split; [vm_compute; reflexivity|]. split; [|split; vm_compute; reflexivity].
  constructor; [|constructor]. exists (nth 0 ex_G {| ne_nm := ""; ne_at := []; ne_preds := []; ne_succs := [] |}). cbn. auto.
Qed.

(* ---- added: node set of the expansion, and list(G.edges(data=True)) enumerates exactly the stored edges *)
Theorem C11_expand_nodes : forall G flow len x,
  ne_wf G ->
  (In x (ne_nkeys (fst (ne_expand_core G flow len))) <-> exists v, ne_inode G v /\ (x = ne_exp0 v \/ x = ne_exp1 v)).
Proof. exact expand_nodes_rel. Qed.
Print Assumptions C11_expand_nodes.

Theorem C11_edges_view_complete : forall G flow len x,
  In x (ne_edges_view (fst (ne_expand_core G flow len))) <-> In x (ne_xe (fst (ne_expand_core G flow len))).
Proof. exact expand_edges_view. Qed.
Print Assumptions C11_edges_view_complete.

(* ---- lengths (node_length_attr = l): node lengths sit on the node edges, connecting edges have length 0
   (never a missing attribute that would later default to 1), so an expanded route is as long as the sum of the
   node lengths of the route it condenses to.  Preconditions: the flow and length attribute names differ and
   no ORIGINAL edge carries the length attribute (an edge that does keeps its own value). *)
Theorem C11_expand_lengths : forall G flow l,
  ne_wf G -> flow <> l -> ne_nolen l G ->
  let X := fst (ne_expand_core G flow (Some l)) in
  (forall v, ne_inode G v -> ne_elen X l (ne_exp0 v, ne_exp1 v) = ne_nlen G l v) /\
  (forall u v, ne_iedge G u v -> ne_elen X l (ne_exp1 u, ne_exp0 v) = 0%Z).
Proof. exact expand_lengths. Qed.
Print Assumptions C11_expand_lengths.

Theorem C11_expanded_route_length : forall G flow l p,
  ne_wf G -> flow <> l -> ne_nolen l G ->
  (forall v, In v p -> ne_inode G v) -> ne_walk (ne_iedge G) p ->
  ne_zsum (map (ne_elen (fst (ne_expand_core G flow (Some l))) l) (ne_pairs (ne_expand_path p))) = ne_zsum (map (ne_nlen G l) p).
Proof. exact expanded_route_length. Qed.
Print Assumptions C11_expanded_route_length.

Example C11_nonvacuous_lengths :
  ne_nolen "len" ex_G /\
  ne_zsum (map (ne_elen (fst (ne_expand_core ex_G "flow" (Some "len"))) "len") (ne_pairs (ne_expand_path ["a"; "b"]))) = 3%Z /\
  ne_zsum (map (ne_nlen ex_G "len") ["a"; "b"]) = 3%Z /\
  (* without node_length_attr the connecting edge has no length and would count 1: 1 + 1 + 2 *)
  ne_zsum (map (ne_elen (fst (ne_expand_core ex_G "flow" None)) "len") (ne_pairs (ne_expand_path ["a"; "b"]))) = 4%Z.
Proof.
  split; [|vm_compute; repeat split].
  intros nd Hnd. cbn in Hnd. destruct Hnd as [<-|[<-|[<-|[]]]]; split; cbn; intros x Hx; try tauto; destruct Hx as [<-|[]]; reflexivity.
Qed.

(* ---- the caller's EDGE attributes ("decoy" values under the weight attribute's name are copied onto the connecting
   edges) influence neither the weights on the node edges nor edges_to_ignore *)
Theorem C11_expanded_weight_is_node_value : forall G flow len nd,
  NoDup (map ne_nm G) -> len <> Some flow -> In nd G ->
  ne_L (fst (ne_expand_core G flow len)) flow (ne_exp0 (ne_nm nd), ne_exp1 (ne_nm nd)) = ne_dget (ne_at nd) flow.
Proof. exact expand_weights. Qed.
Print Assumptions C11_expanded_weight_is_node_value.

Theorem C11_expansion_independent_of_edge_attributes : forall G flow len len',
  NoDup (map ne_nm G) -> len <> Some flow -> len' <> Some flow ->
  snd (ne_expand_core G flow len) = snd (ne_expand_core (map ne_strip G) flow len') /\
  (forall nd, In nd G ->
     ne_L (fst (ne_expand_core G flow len)) flow (ne_node_key nd) = ne_L (fst (ne_expand_core (map ne_strip G) flow len')) flow (ne_node_key nd)).
Proof. exact expand_independent_of_edge_attributes. Qed.
Print Assumptions C11_expansion_independent_of_edge_attributes.

(* non-vacuity: the original edge a -> b carries a decoy "flow" = 50; it lands on (a.1, b.0), which is ignored; the weights stay 5 / none *)
Definition ex_G_decoy : ne_ingraph :=
  [ {| ne_nm := "b"; ne_at := []; ne_preds := [("a", [("flow", 50%Z)])]; ne_succs := [] |};
    {| ne_nm := "a"; ne_at := [("flow", 5%Z)]; ne_preds := []; ne_succs := [("b", [("flow", 50%Z)])] |} ].
Example C11_nonvacuous_decoy :
  let X := ne_expand_core ex_G_decoy "flow" None in
  ne_L (fst X) "flow" ("a.1", "b.0") = Some 50%Z /\ ne_L (fst X) "flow" ("a.0", "a.1") = Some 5%Z /\ ne_L (fst X) "flow" ("b.0", "b.1") = None /\
  snd X = [("b.0", "b.1"); ("a.1", "b.0")] /\ snd X = snd (ne_expand_core (map ne_strip ex_G_decoy) "flow" None).
Proof. vm_compute. repeat split. Qed.

(* ---- _try_filling_in_missing_flow_values (FillSpec.v): the contract, and the verified certificate checker that the harness
   runs on every filling the library produces (certificate = the edge flow networkx returned).  Accepted => the filled values
   are a node flow (NodeMefE2E.node_flow: the graphs on which the node-mode flow models are applicable) that keeps every
   given value.  PARTIAL: the failure half of [fill_contract] (nothing is filled only if no extension exists) is not proved
   for the library; the harness searches an extension with an untrusted probe and lets the checker judge it. *)
Definition C11_fill_full_statement : Prop :=
  forall (lib : list node -> list edge -> (node -> option Q) -> option (node -> Q)) V E given, fill_contract V E given (lib V E given).

Theorem C11_fill_certificate_sound_partial : forall V E given filled y,
  fill_certificate_ok_b V E given filled y = true ->
  fill_spec V E (fun v => fs_lookup_n v given) (fs_fun_n filled) /\
  (forall v, In v V -> exists q, fs_lookup_n v filled = Some q).
Proof. exact fill_certificate_sound. Qed.
Print Assumptions C11_fill_certificate_sound_partial.

Theorem C11_fill_checker_complete : forall V E given x y,
  node_flow_w V E false x y -> fill_extends V given x -> fill_certificate_ok_fun_b V E given x y = true.
Proof. exact fill_certificate_fun_complete. Qed.
Print Assumptions C11_fill_checker_complete.

(* non-vacuity: chain a(5) -> b(?) -> c(5): b = 5 is accepted, b = 6 is rejected, 5 is the only admissible value;
   a(5) -> b(?) -> c(3) admits no filling at all *)
Example C11_nonvacuous_fill :
  fill_certificate_ok_b fs_V fs_E fs_given [(0%N, 5%Q); (1%N, 5%Q); (2%N, 5%Q)] [((0, 1)%N, 5%Q); ((1, 2)%N, 5%Q)] = true /\
  fill_certificate_ok_b fs_V fs_E fs_given [(0%N, 5%Q); (1%N, 6%Q); (2%N, 5%Q)] [((0, 1)%N, 5%Q); ((1, 2)%N, 5%Q)] = false /\
  (forall x, fill_spec fs_V fs_E (fun v => fs_lookup_n v fs_given) x -> (x 1%N == 5)%Q) /\
  fill_contract fs_V fs_E (fun v => fs_lookup_n v [(0%N, 5%Q); (2%N, 3%Q)]) None.
Proof.
  split; [exact fs_chain_accepts|]. split; [exact fs_chain_rejects_changed_value|]. split; [exact fs_chain_unique|exact fs_chain_infeasible].
Qed.
