(* C18 — a model's result depends only on its own arguments; caller data is never mutated.
   ONLY property theorems (closed by [exact]), their assumptions, and non-vacuity examples.
   Model: Effects.v — the caller's shared argument objects as a heap and, per exported class, a hand-written EFFECT
   SUMMARY of constructor + solve() (how optimization_options is held: copy / read-only alias / `x or {}` alias that is
   written; every other parameter is copied, deep-copied or only read).  Thin tie: what relates the summaries to /repo is
   the history correspondence harness/engines/c18.py (deep snapshots before/after every step). *)
From Coq Require Import List Bool Arith.
Import ListNotations.
From FP Require Import Validate Effects EffectsProofs.

(* Full statement: no operation of any class changes the caller's heap. *)
Definition C18_full_statement : Prop := forall h o, step h o = h.

(* proved part 1: the classes that copy (or only read) their optimization_options never change the heap *)
Theorem C18_frame_partial : forall h o, frame_class (o_cls o) = true -> step h o = h.
Proof. exact frame_of_class. Qed.
Print Assumptions C18_frame_partial.
(* proved part 2: the remaining classes do not either when optimization_options is omitted or empty *)
Theorem C18_frame_omitted_or_empty_partial : forall h o, o_pass_opts o = false \/ h_opts h = [] -> step h o = h.
Proof. exact frame_omitted_or_empty. Qed.
Print Assumptions C18_frame_omitted_or_empty_partial.
(* the faithful summary violates the full statement (DESIGN §6 #16): `optimization_options or {}` aliases a
   non-empty caller dict and writes "trusted_edges_for_safety", "allow_empty_paths", ... into it *)
Theorem C18_frame_refuted : forall c, opts_hold c = AliasIfNonEmpty \/ opts_hold c = AliasForward ->
  exists h o, o_cls o = c /\ step h o <> h.
Proof. exact frame_refuted_all_aliasing. Qed.
Print Assumptions C18_frame_refuted.
Theorem C18_full_statement_refuted : ~ C18_full_statement.
Proof. exact full_statement_refuted18. Qed.
Print Assumptions C18_full_statement_refuted.

(* whatever the history, only optimization_options can differ afterwards; graph, solver options, constraint and ignore
   lists, additional starts/ends and the mutable default-argument objects keep their values, and no caller key is lost *)
Theorem C18_only_optimization_options_is_touched : forall ops h,
  h_graph (run ops h) = h_graph h /\ h_sopts (run ops h) = h_sopts h /\ h_cons (run ops h) = h_cons h /\
  h_ign (run ops h) = h_ign h /\ h_starts (run ops h) = h_starts h /\ h_ends (run ops h) = h_ends h /\
  h_defaults (run ops h) = h_defaults h.
Proof. exact run_only_opts. Qed.
Print Assumptions C18_only_optimization_options_is_touched.
Theorem C18_caller_keys_survive : forall ops h k, has_key k (h_opts h) = true -> has_key k (h_opts (run ops h)) = true.
Proof. exact run_keeps_keys. Qed.
Print Assumptions C18_caller_keys_survive.

(* history independence, by induction over arbitrary operation lists: after any history of heap-preserving operations
   the model constructed next is the model constructed from the initial heap *)
Theorem C18_history_independent_partial : forall ops h o,
  Forall (fun o' => quiet h o' = true) ops -> model_of (run ops h) o = model_of h o.
Proof. exact history_independent. Qed.
Print Assumptions C18_history_independent_partial.
Theorem C18_history_independent_frame_classes : forall ops h o,
  Forall (fun o' => frame_class (o_cls o') = true) ops -> model_of (run ops h) o = model_of h o.
Proof. exact history_independent_frame_classes. Qed.
Print Assumptions C18_history_independent_frame_classes.
Theorem C18_history_independent_refuted : exists ops h o, model_of (run ops h) o <> model_of h o.
Proof. exact history_independent_refuted. Qed.
Print Assumptions C18_history_independent_refuted.

(* constructing the same model again writes nothing more *)
Theorem C18_step_idempotent : forall h o, step (step h o) o = step h o.
Proof. exact step_idempotent. Qed.
Print Assumptions C18_step_idempotent.

(* repeated getter calls return equal results *)
Theorem C18_idempotent_getters : forall m,
  let '(m1, r1) := get_solution m in let '(m2, r2) := get_solution m1 in let '(m3, r3) := get_solution m2 in
  r1 = r2 /\ r2 = r3 /\ m2 = m1 /\ m3 = m2.
Proof. exact idempotent_getters. Qed.
Print Assumptions C18_idempotent_getters.

(* non-vacuity: a frame class leaves a non-empty dict alone, an aliasing class adds exactly its keys *)
Example C18_nonvacuous :
  step ex_heap (mk_op CkFlowDecomp true false false true) = ex_heap /\
  h_opts (step ex_heap (mk_op CkLeastAbsErrors true false false true)) = [KUser 0; KTrusted] /\
  h_opts (step ex_heap (mk_op CkMinPathError true true false true)) =
    [KUser 0; KAllowEmpty; KSafePaths; KSafeSeq; KSafeZero; KSubAsSafe; KSafetyAsSub; KTrusted] /\
  h_opts (step ex_heap (mk_op CMinFlowDecompCycles true false false false)) = [KUser 0] /\
  h_opts (step ex_heap (mk_op CMinFlowDecompCycles true false false true)) = [KUser 0; KTrusted] /\
  quiet ex_heap (mk_op CkLeastAbsErrors false false false true) = true.
Proof. vm_compute. repeat split; reflexivity. Qed.
