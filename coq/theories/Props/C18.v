(* C18 — a model's result depends only on its own arguments; caller data is never mutated.
   ONLY property theorems (closed by [exact]), their assumptions, and non-vacuity examples.
   Model: Effects.v — the caller's shared argument objects as a heap and, per exported class, a hand-written EFFECT
   SUMMARY of constructor + solve() of the CURRENT code (how optimization_options is held: copy / read-only alias; every
   other parameter is copied, deep-copied or only read).  [old_...] is the summary of the code before the repair 5ed9792
   (`optimization_options or {}` aliased and written), kept for the refutation theorems.  Thin tie: what relates the
   summaries to /repo is the history correspondence harness/engines/c18.py (deep snapshots before/after every step). *)
From Coq Require Import List Bool Arith.
Import ListNotations.
From FP Require Import Validate Effects EffectsProofs.

(* Full statement: no operation of any class, with any argument vector, changes the caller's heap; and after an
   arbitrary history the next model is the one built from the initial heap. *)
Theorem C18_frame : forall h o, step h o = h.
Proof. exact frame. Qed.
Print Assumptions C18_frame.
(* every participant of the histories, incl. NumPathsOptimization (through the class it wraps), MinGenSet, MinSetCover *)
Theorem C18_frame_participants : forall p pass sup hc sv h, step h (op_of p pass sup hc sv) = h.
Proof. exact frame_participants. Qed.
Print Assumptions C18_frame_participants.
Theorem C18_frame_histories : forall ops h, run ops h = h.
Proof. exact run_frame. Qed.
Print Assumptions C18_frame_histories.
Theorem C18_history_independent : forall ops h o, model_of (run ops h) o = model_of h o.
Proof. exact history_independent. Qed.
Print Assumptions C18_history_independent.

(* refused constructions (ValueError): wherever the constructor stops, the caller's heap is what it was; histories that mix
   completed and refused constructions leave the heap alone and the next model is the one built from the initial heap *)
Theorem C18_refused_construction_frame : forall h o n, refused_step h o n = h.
Proof. exact refused_frame. Qed.
Print Assumptions C18_refused_construction_frame.
Theorem C18_frame_histories_with_refusals : forall evs h, ev_run evs h = h.
Proof. exact ev_run_frame. Qed.
Print Assumptions C18_frame_histories_with_refusals.
Theorem C18_history_independent_with_refusals : forall evs h o, model_of (ev_run evs h) o = model_of h o.
Proof. exact ev_history_independent. Qed.
Print Assumptions C18_history_independent_with_refusals.
(* why refused steps need their own snapshot comparison: a summary that tags the caller's graph in place and untags it
   afterwards ([inplace_tag], not the current code) passes every comparison around completed constructions ... *)
Theorem C18_inplace_tagging_invisible_when_completed : forall h o, ~ In 1 (h_graph h) -> completed_gen opts_hold inplace_tag h o = h.
Proof. exact inplace_tag_completed_invisible. Qed.
Print Assumptions C18_inplace_tagging_invisible_when_completed.
(* ... and fails the frame for a construction refused between tagging and untagging; so did the old dict handling *)
Theorem C18_inplace_tagging_refused_refuted : exists h o n, ~ In 1 (h_graph h) /\ refused_gen opts_hold inplace_tag h o n <> h.
Proof. exact inplace_tag_refused_refuted. Qed.
Print Assumptions C18_inplace_tagging_refused_refuted.
Theorem C18_old_refused_refuted : exists h o n, refused_gen old_opts_hold no_tag h o n <> h.
Proof. exact old_refused_refuted. Qed.
Print Assumptions C18_old_refused_refuted.

(* independent of the particular summary (old or new): only optimization_options could ever be touched, and no caller key
   is ever removed — graph, solver options, constraint / ignore lists, starts/ends and default objects keep their values *)
Theorem C18_only_optimization_options_can_be_touched : forall hold_of ops h,
  let h' := run_gen hold_of ops h in
  h_graph h' = h_graph h /\ h_sopts h' = h_sopts h /\ h_cons h' = h_cons h /\
  h_ign h' = h_ign h /\ h_starts h' = h_starts h /\ h_ends h' = h_ends h /\ h_sup h' = h_sup h /\ h_defaults h' = h_defaults h.
Proof. exact run_only_opts. Qed.
Print Assumptions C18_only_optimization_options_can_be_touched.
Theorem C18_caller_keys_survive : forall hold_of ops h k,
  has_key k (h_opts h) = true -> has_key k (h_opts (run_gen hold_of ops h)) = true.
Proof. exact run_keeps_keys. Qed.
Print Assumptions C18_caller_keys_survive.

(* option VALUES that are lists: optimization_options["external_safe_paths"].  The summary of the code at 003f186
   (self.safe_lists = self.external_safe_paths; self.safe_lists += ...) keeps and extends the caller's list: frame and history
   independence fail for it; the theorems above are about the summary with the list copied (list(self.external_safe_paths)),
   and the aliasing summary touches nothing but that list *)
Theorem C18_head_frame_refuted : forall c, old_ext_alias c = true -> exists h o, o_cls o = c /\ head_step h o <> h.
Proof. exact head_frame_refuted. Qed.
Print Assumptions C18_head_frame_refuted.
Theorem C18_head_history_independent_refuted : exists ops h o, model_of (head_run ops h) o <> model_of h o.
Proof. exact head_history_independent_refuted. Qed.
Print Assumptions C18_head_history_independent_refuted.
Theorem C18_head_only_the_list_is_touched : forall h o,
  let h' := head_step h o in
  h_graph h' = h_graph h /\ h_opts h' = h_opts h /\ h_sopts h' = h_sopts h /\ h_cons h' = h_cons h /\
  h_ign h' = h_ign h /\ h_starts h' = h_starts h /\ h_ends h' = h_ends h /\ h_sup h' = h_sup h /\ h_defaults h' = h_defaults h.
Proof. exact head_step_only_ext. Qed.
Print Assumptions C18_head_only_the_list_is_touched.

(* repeated getter calls return equal results *)
Theorem C18_idempotent_getters : forall m,
  let '(m1, r1) := get_solution m in let '(m2, r2) := get_solution m1 in let '(m3, r3) := get_solution m2 in
  r1 = r2 /\ r2 = r3 /\ m2 = m1 /\ m3 = m2.
Proof. exact idempotent_getters. Qed.
Print Assumptions C18_idempotent_getters.

(* old behaviour (DESIGN §6 #16, repaired by 5ed9792): the `x or {}` classes wrote into a non-empty caller dict, and a
   polluted dict changed what a later model saw; what held then was history independence for heap-preserving histories *)
Theorem C18_old_frame_refuted : forall c, old_opts_hold c = AliasIfNonEmpty \/ old_opts_hold c = AliasForward ->
  exists h o, o_cls o = c /\ old_step h o <> h.
Proof. exact old_frame_refuted. Qed.
Print Assumptions C18_old_frame_refuted.
Theorem C18_old_history_independent_refuted : exists ops h o, model_of (old_run ops h) o <> model_of h o.
Proof. exact old_history_independent_refuted. Qed.
Print Assumptions C18_old_history_independent_refuted.
Theorem C18_old_history_independent_partial : forall ops h o,
  Forall (fun o' => quiet_gen old_opts_hold h o' = true) ops -> model_of (old_run ops h) o = model_of h o.
Proof. exact old_history_independent_partial. Qed.
Print Assumptions C18_old_history_independent_partial.

(* non-vacuity: on a heap with a non-empty dict the current summary of every class leaves it alone, the old one did not *)
Example C18_nonvacuous :
  step ex_heap (mk_op CkLeastAbsErrors true false false true) = ex_heap /\
  step ex_heap (mk_op CMinFlowDecompCycles true false false true) = ex_heap /\
  h_opts (old_step ex_heap (mk_op CkLeastAbsErrors true false false true)) = [KUser 0; KTrusted] /\
  h_opts (old_step ex_heap (mk_op CkMinPathError true true false true)) =
    [KUser 0; KAllowEmpty; KSafePaths; KSafeSeq; KSafeZero; KSubAsSafe; KSafetyAsSub; KTrusted] /\
  h_opts (old_step ex_heap (mk_op CMinFlowDecompCycles true false false true)) = [KUser 0; KTrusted] /\
  old_step ex_heap (mk_op CkFlowDecomp true false false true) = ex_heap /\
  step ex_heap (mk_op CkLeastAbsErrors true false true true) = ex_heap /\
  h_ext (head_step ex_heap (mk_op CkLeastAbsErrors true false true true)) = [1] /\
  head_step ex_heap (mk_op CkLeastAbsErrors true false false true) = ex_heap /\
  head_step ex_heap (mk_op CMinPathCover true false true false) = ex_heap.
Proof. vm_compute. repeat split; reflexivity. Qed.

(* audit (2026-10-02): the hypotheses of the refutation / partial theorems have instances: a class whose old summary aliased the
   option list, a class whose old summary aliased a non-empty dict, a heap without the tag 1, and a NON-EMPTY history of quiet
   operations (the premise of C18_old_history_independent_partial) *)
Example C18_hypotheses_satisfiable :
  old_ext_alias CkLeastAbsErrors = true /\ old_opts_hold CkLeastAbsErrors = AliasIfNonEmpty /\ ~ In 1 (h_graph ex_heap) /\
  Forall (fun o' => quiet_gen old_opts_hold ex_heap o' = true) [mk_op CkFlowDecomp true false false true; mk_op CkFlowDecomp true false false true].
Proof.
  split; [reflexivity|]. split; [reflexivity|]. split; [vm_compute; intuition discriminate|]. repeat constructor; vm_compute; reflexivity.
Qed.
