(* C08 on digraphs with cycles — kMinPathErrorCycles.
   Model: WalkErrEnc.encode_kmpe_cycles = the LP the class hands to the solver (walk block, safety rows, subset
   constraints of WalkEncRows + W/Pi/Slack/Gamma columns, the three product encodings for Pi = Edge*W and
   Gamma = Edge*Slack, the scaled 9aa/9ab rows, objective sum of the slacks; repetition caps =
   stDiGraph.compute_edge_max_reachable_value as the code passes them), tied by E1 (section E1_cycles of the C08
   engine).  Soundness: every satisfying assignment is k source-to-sink walks with weights and slacks of the
   requested type such that on every non-ignored edge the scaled deviation |f(e) - sum_i w_i * mult_i(e)| * scale(e)
   is at most the summed slacks of the walks through the edge (with multiplicities); objective = sum of slacks.
   (The cyclic class has no path-length factors and no given weights.  Completeness is not claimed: caps and product
   bounds are the code's, see cycles_rep_cap_from_reachable_max / cycles_products_bounded_by_wmax.) *)
From Coq Require Import List NArith ZArith QArith Bool Arith Lia Permutation.
Import ListNotations.
From FP Require Import Lin Blocks BlocksProofs PathEnc PathEncProofs Euler EulerProofs1 EulerProofs4 WalkDecode
                       SatCheck WalkEncRows WalkEncRowsProofs WalkExamples WalkErrEnc WalkErrEncProofs WalkErrExamples WalkTree WalkEncComplete WalkEncIff WalkCoverIff WalkErrComplete WalkErrIff WalkChecked.
Local Close Scope Q_scope.

Theorem C08_walk_lp_solution_is_k_walks_with_covering_slacks : forall (I : werr_inst) (a : var -> Q),
  let G := x_graph I in let k := x_k I in
  let E := g_edges G in let s := g_src G in let t := g_snk G in
  wf_stg G -> o_allow_empty (x_opts I) = false ->
  sat a (encode_kmpe_cycles I) ->
  (forall i, In i (layers k) ->
     exists w, reconstruct (resid E (xint a i)) s = Some ([], w) /\ hd_error w = Some s /\ last w s = t /\
               (forall e, In e E -> count_e e (pairs w) = Z.to_nat (xint a i e) /\ (0 <= xint a i e)%Z) /\
               (forall e, ~ In e E -> count_e e (pairs w) = 0%nat)) /\
  (forall i, In i (layers k) -> (0 <= a (W i) <= x_wmax I)%Q /\ (0 <= a (Slack i) <= x_wmax I)%Q /\
                                (x_int I = true -> is_int (a (W i)) /\ is_int (a (Slack i)))) /\
  (forall e, In e (x_basic I) ->
     let expl := sumq (fun i => (a (W i) * inject_Z (xint a i e))%Q) (layers k) in
     let slk := sumq (fun i => (a (Slack i) * inject_Z (xint a i e))%Q) (layers k) in
     ((xflow I e - expl) * xscale I e <= slk)%Q /\ (- slk <= (xflow I e - expl) * xscale I e)%Q) /\
  (objective a (encode_kmpe_cycles I) == sumq (fun i => a (Slack i)) (layers k))%Q.
Proof. exact kmpec_sound. Qed.
Print Assumptions C08_walk_lp_solution_is_k_walks_with_covering_slacks.

Theorem C08_walk_slacks_cover_scaled_deviation : forall (I : werr_inst) (a : var -> Q),
  sat a (encode_kmpe_cycles I) -> forall e, In e (x_basic I) ->
  let expl := sumq (fun i => (a (W i) * inject_Z (xint a i e))%Q) (layers (x_k I)) in
  let slk := sumq (fun i => (a (Slack i) * inject_Z (xint a i e))%Q) (layers (x_k I)) in
  ((xflow I e - expl) * xscale I e <= slk)%Q /\ (- slk <= (xflow I e - expl) * xscale I e)%Q.
Proof. exact kmpec_slack_covers. Qed.
Print Assumptions C08_walk_slacks_cover_scaled_deviation.

Theorem C08_walk_objective_is_slack_sum : forall (I : werr_inst) (a : var -> Q),
  (objective a (encode_kmpe_cycles I) == sumq (fun i => a (Slack i)) (layers (x_k I)))%Q.
Proof. exact kmpec_objective. Qed.
Print Assumptions C08_walk_objective_is_slack_sum.


(* completeness within the caps of the model and the resulting characterisation: the LP of kMinPathErrorCycles is
   feasible exactly when k source-to-sink walks with weights and slacks of the requested type exist such that
   multiplicities, weights, slacks and products respect the caps the class uses, the safety fixing is respected, the
   subset constraints are realised and on every non-ignored edge the scaled deviation is covered by the slacks of the
   walks through it (kmpec_admissible, WalkErrIff.v) *)
Theorem C08_walk_lp_feasible_iff_admissible : forall (I : werr_inst),
  wf_stg (x_graph I) -> o_allow_empty (x_opts I) = false -> winputs_ok (werr_walk I) ->
  ((exists a, sat a (encode_kmpe_cycles I)) <-> (exists P wt sl, kmpec_admissible I P wt sl)).
Proof. exact kmpec_feasible_iff_within_caps. Qed.
Print Assumptions C08_walk_lp_feasible_iff_admissible.

Theorem C08_walk_lp_feasible_iff_admissible_checked : forall (I : werr_inst),
  wf_stg_b (x_graph I) = true -> winputs_ok_b (werr_walk I) = true -> o_allow_empty (x_opts I) = false ->
  ((exists a, sat a (encode_kmpe_cycles I)) <-> (exists P wt sl, kmpec_admissible I P wt sl)).
Proof. exact kmpec_feasible_iff_checked. Qed.
Print Assumptions C08_walk_lp_feasible_iff_admissible_checked.

Example C08_walk_admissible_nonvacuous :
  kmpec_admissible loop_err_inst (fun _ => [1; 0; 0; 2]%N) (fun _ => 1%Q) (fun _ => 1%Q).
Proof.
  split; [split; [|split; [|split; [|split; [|split; [|split]]]]]|split; [|split]].
  - intros i _. split; [reflexivity|]. split; [reflexivity|]. intros e He. cbn in He. cbn. tauto.
  - intros i _. split; [vm_compute; split; discriminate|]. intros _. exists 1%Z. reflexivity.
  - intros i e _ He. cbn in He. destruct He as [<-|[<-|[<-|[]]]]; vm_compute; discriminate.
  - intros i e _ He _. rewrite loop_err_basic in He. destruct He as [<-|[]]. vm_compute. reflexivity.
  - intros i e _ He. rewrite loop_err_basic in He. destruct He as [<-|[]]. vm_compute. discriminate.
  - split; [intros e i H|intros e i m H]; vm_compute in H; destruct H.
  - intros j c H. cbn in H. destruct j; discriminate.
  - intros i _. split; [vm_compute; split; discriminate|]. intros _. exists 1%Z. reflexivity.
  - intros i e _ He. rewrite loop_err_basic in He. destruct He as [<-|[]]. vm_compute. discriminate.
  - intros e He. rewrite loop_err_basic in He. destruct He as [<-|[]]. vm_compute. split; discriminate.
Qed.

(* non-vacuity: the premises are satisfiable, with a non-zero slack *)
Example C08_walk_premises_satisfiable :
  wf_stg (x_graph loop_err_inst) /\ o_allow_empty (x_opts loop_err_inst) = false /\
  sat loop_kmpe_sol (encode_kmpe_cycles loop_err_inst) /\ x_basic loop_err_inst = [(0, 0)%N] /\
  xint loop_kmpe_sol 0%N (0, 0)%N = 1%Z /\ (loop_kmpe_sol (Slack 0%N) == 1)%Q.
Proof.
  split; [exact loopG_wf|]. split; [reflexivity|]. split; [exact loop_kmpe_feasible|]. split; [exact loop_err_basic|].
  split; vm_compute; reflexivity.
Qed.
