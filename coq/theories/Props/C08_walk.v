(* C08 on digraphs with cycles — kMinPathErrorCycles.
   Model: WalkErrEnc.encode_kmpe_cycles = the LP the class hands to the solver (walk block, safety rows, subset
   constraints of WalkEncRows + W/Pi/Slack/Gamma columns, the three product encodings for Pi = Edge*W and
   Gamma = Edge*Slack, the scaled 9aa/9ab rows, objective sum of the slacks; repetition caps =
   stDiGraph.compute_edge_max_reachable_value as the code passes them), tied by E1 (section E1_cycles of the C08
   engine).  Soundness: every satisfying assignment is k source-to-sink walks with weights and slacks of the
   requested type such that on every non-ignored edge the scaled deviation |f(e) - sum_i w_i * mult_i(e)| * scale(e)
   is at most the summed slacks of the walks through the edge (with multiplicities); objective = sum of slacks.
   (The cyclic class has no path-length factors and no given weights.  Completeness, the feasibility characterisation and
   optimality are proved WITHIN THE CAPS of the encoder (theorems at the end); beyond the caps they are false of the code:
   cycles_rep_cap_from_reachable_max / cycles_products_bounded_by_wmax.) *)
From Coq Require Import List NArith ZArith QArith Bool Arith Lia Permutation.
Import ListNotations.
From FP Require Import Lin Blocks BlocksProofs PathEnc PathEncProofs Euler EulerProofs1 EulerProofs4 WalkDecode
                       SatCheck WalkEncRows WalkEncRowsProofs WalkExamples WalkErrEnc WalkErrEncProofs WalkErrExamples
                       WalkTree WalkEncComplete WalkCoverIff WalkErrComplete WalkErrOptimal WalkErrOptExamples
                       Dilworth WalkWidth WalkErrWidth WalkErrWidthExamples.
Local Close Scope Q_scope.

Theorem C08_walk_lp_solution_is_k_walks_with_covering_slacks : forall (I : werr_inst) (a : var -> Q),
  let G := x_graph I in let k := x_k I in
  let E := g_edges G in let s := g_src G in let t := g_snk G in
  wf_stg G -> o_allow_empty (x_opts I) = false ->
  sat a (encode_kmpe_cycles I) ->
  (forall i, In i (layers k) ->
     exists w, reconstruct (resid E (xint a i)) s = Some ([], w) /\ hd_error w = Some s /\ last w s = t /\
               (forall e, In e E -> count_e e (pairs w) = Z.to_nat (xint a i e) /\ (0 <= xint a i e)%Z) /\
               (forall e, ~ In e E -> count_e e (pairs w) = 0%nat)) /\
  (forall i, In i (layers k) -> (0 <= a (W i) <= x_wmax I)%Q /\ (0 <= a (Slack i) <= x_wmax I)%Q /\
                                (x_int I = true -> is_int (a (W i)) /\ is_int (a (Slack i)))) /\
  (forall e, In e (x_basic I) ->
     let expl := sumq (fun i => (a (W i) * inject_Z (xint a i e))%Q) (layers k) in
     let slk := sumq (fun i => (a (Slack i) * inject_Z (xint a i e))%Q) (layers k) in
     ((xflow I e - expl) * xscale I e <= slk)%Q /\ (- slk <= (xflow I e - expl) * xscale I e)%Q) /\
  (objective a (encode_kmpe_cycles I) == sumq (fun i => a (Slack i)) (layers k))%Q.
Proof. exact kmpec_sound. Qed.
Print Assumptions C08_walk_lp_solution_is_k_walks_with_covering_slacks.

Theorem C08_walk_slacks_cover_scaled_deviation : forall (I : werr_inst) (a : var -> Q),
  sat a (encode_kmpe_cycles I) -> forall e, In e (x_basic I) ->
  let expl := sumq (fun i => (a (W i) * inject_Z (xint a i e))%Q) (layers (x_k I)) in
  let slk := sumq (fun i => (a (Slack i) * inject_Z (xint a i e))%Q) (layers (x_k I)) in
  ((xflow I e - expl) * xscale I e <= slk)%Q /\ (- slk <= (xflow I e - expl) * xscale I e)%Q.
Proof. exact kmpec_slack_covers. Qed.
Print Assumptions C08_walk_slacks_cover_scaled_deviation.

Theorem C08_walk_objective_is_slack_sum : forall (I : werr_inst) (a : var -> Q),
  (objective a (encode_kmpe_cycles I) == sumq (fun i => a (Slack i)) (layers (x_k I)))%Q.
Proof. exact kmpec_objective. Qed.
Print Assumptions C08_walk_objective_is_slack_sum.

(* non-vacuity: the premises are satisfiable, with a non-zero slack *)
Example C08_walk_premises_satisfiable :
  wf_stg (x_graph loop_err_inst) /\ o_allow_empty (x_opts loop_err_inst) = false /\
  sat loop_kmpe_sol (encode_kmpe_cycles loop_err_inst) /\ x_basic loop_err_inst = [(0, 0)%N] /\
  xint loop_kmpe_sol 0%N (0, 0)%N = 1%Z /\ (loop_kmpe_sol (Slack 0%N) == 1)%Q.
Proof.
  split; [exact loopG_wf|]. split; [reflexivity|]. split; [exact loop_kmpe_feasible|]. split; [exact loop_err_basic|].
  split; vm_compute; reflexivity.
Qed.

(* ------------------------------------------------------------------ completeness and optimality within the caps *)
(* kmpec_admissible I P wt sl  (WalkErrOptimal.v) =  k source-to-sink walks P whose multiplicities respect the repetition caps
   the encoder uses, its safety fixing and subset constraints (werr_family); weights and slacks in [0, w_max] of the requested
   type; multiplicities on non-ignored edges below 2^bits(w_max) where the product is bit-expanded; weight*multiplicity and
   slack*multiplicity <= w_max; |scale_e * (f(e) - sum_i w_i mult_i(e))| <= sum_i slack_i mult_i(e) on every non-ignored edge. *)
Theorem C08_walk_complete_within_caps : forall (I : werr_inst) (P : N -> list node) (wt sl : N -> Q),
  wf_stg (x_graph I) -> kmpec_admissible I P wt sl ->
  exists a, sat a (encode_kmpe_cycles I) /\ (objective a (encode_kmpe_cycles I) == sumq sl (layers (x_k I)))%Q /\
            (forall i, a (W i) = wt i /\ a (Slack i) = sl i) /\ (forall e i, a (evar e i) = inject_Z (mult P i e)).
Proof. exact kmpec_complete. Qed.
Print Assumptions C08_walk_complete_within_caps.

Theorem C08_walk_decodes_within_caps : forall (I : werr_inst) (a : var -> Q),
  wf_stg (x_graph I) -> o_allow_empty (x_opts I) = false -> winputs_ok (werr_walk I) -> sat a (encode_kmpe_cycles I) ->
  kmpec_admissible I (Pofw (werr_walk I) a) (fun i => a (W i)) (fun i => a (Slack i)) /\
  (sumq (fun i => a (Slack i)) (layers (x_k I)) == objective a (encode_kmpe_cycles I))%Q.
Proof. exact kmpec_decodes. Qed.
Print Assumptions C08_walk_decodes_within_caps.

Theorem C08_walk_feasible_iff_within_caps : forall (I : werr_inst),
  wf_stg (x_graph I) -> o_allow_empty (x_opts I) = false -> winputs_ok (werr_walk I) ->
  ((exists a, sat a (encode_kmpe_cycles I)) <-> (exists P wt sl, kmpec_admissible I P wt sl)).
Proof. exact kmpec_feasible_iff_within_caps. Qed.
Print Assumptions C08_walk_feasible_iff_within_caps.

(* relative to the solver specification: the objective of an optimal satisfying assignment is the LEAST total slack over all
   admissible families (caps visible in kmpec_admissible) *)
Theorem C08_walk_optimal_within_caps : forall (I : werr_inst) (a : var -> Q),
  wf_stg (x_graph I) -> o_allow_empty (x_opts I) = false -> winputs_ok (werr_walk I) ->
  sat a (encode_kmpe_cycles I) ->
  (forall b, sat b (encode_kmpe_cycles I) -> (objective a (encode_kmpe_cycles I) <= objective b (encode_kmpe_cycles I))%Q) ->
  (exists P wt sl, kmpec_admissible I P wt sl /\ (sumq sl (layers (x_k I)) == objective a (encode_kmpe_cycles I))%Q) /\
  (forall P wt sl, kmpec_admissible I P wt sl -> (objective a (encode_kmpe_cycles I) <= sumq sl (layers (x_k I)))%Q).
Proof. exact kmpec_optimal. Qed.
Print Assumptions C08_walk_optimal_within_caps.

(* the statement WITHOUT caps (feasible for every k >= walk width, minimum over all families) is false of the code as it is
   (open findings cycles_rep_cap_from_reachable_max, cycles_products_bounded_by_wmax); it stays visible here *)
Definition C08_walk_full_statement : Prop :=
  forall (I : werr_inst) (a : var -> Q), wf_stg (x_graph I) -> o_allow_empty (x_opts I) = false -> winputs_ok (werr_walk I) ->
  sat a (encode_kmpe_cycles I) ->
  (forall b, sat b (encode_kmpe_cycles I) -> (objective a (encode_kmpe_cycles I) <= objective b (encode_kmpe_cycles I))%Q) ->
  forall P wt sl, wwalks (werr_walk I) P -> wrespects_fixing (werr_walk I) P -> wrealises_constraints (werr_walk I) P ->
    (forall i, In i (layers (x_k I)) -> (0 <= wt i)%Q /\ (0 <= sl i)%Q /\ (x_int I = true -> is_int (wt i) /\ is_int (sl i))) ->
    (forall e, In e (x_basic I) -> (Qabs.Qabs (xscale I e * (xflow I e - xexpl I P wt e)) <= xexpl I P sl e)%Q) ->
    (objective a (encode_kmpe_cycles I) <= sumq sl (layers (x_k I)))%Q.

Example C08_walk_optimal_nonvacuous :
  wf_stg (x_graph tail_inst) /\ o_allow_empty (x_opts tail_inst) = false /\ winputs_ok (werr_walk tail_inst) /\
  sat tail_kmpe_asg (encode_kmpe_cycles tail_inst) /\
  (forall b, sat b (encode_kmpe_cycles tail_inst) -> (objective tail_kmpe_asg (encode_kmpe_cycles tail_inst) <= objective b (encode_kmpe_cycles tail_inst))%Q) /\
  (exists P wt sl, kmpec_admissible tail_inst P wt sl /\ (sumq sl (layers (x_k tail_inst)) == 0)%Q).
Proof. exact kmpec_optimal_nonvacuous. Qed.

(* ------------------------------------------------------------------ "feasible for k >= width" on digraphs with cycles.
   Composition of agent-walk's walk-width theorem with bounded repetition (WalkWidthCaps.bounded_walk_cover: the non-ignored
   edges X can be covered by walk-width many source-to-sink walks none of which passes an edge more than |X| + 2 times) with
   completeness within the caps.  The caps of kMinPathErrorCycles are derived from the WEIGHTS (repetition cap = largest weight
   reachable from / reaching the edge; bit vector and product bound from w_max = k * largest non-ignored weight), so the theorem has
   the side condition that they admit |X| + 2 repetitions, stated on the instance:
     (rep)  |X| + 2 <= reach_max(e) for every edge inside a strongly connected component,
     (bits) |X| + 2 <= w_max,   (prod) (w_max / k) * (|X| + 2) <= w_max.
   A' is the walk width: a largest set of non-ignored edges no two of which lie on a common walk (= get_width on the expanded
   condensation: WalkWidth.min_walk_cover_equals_condensation_width). *)
Theorem C08_walk_feasible_for_k_at_least_walk_width : forall I : werr_inst,
  let G := x_graph I in let E := g_edges G in let X := x_basic I in
  wf_stg G ->
  (forall u v, In (u, v) E -> conn E (g_src G) u /\ conn E v (g_snk G)) ->
  x_cons I = [] -> x_safe_lists I = [] -> x_fix I = [] ->
  (forall e, In e X -> (0 <= xscale I e <= 1)%Q /\ (0 <= xflow I e)%Q /\ (x_int I = true -> is_int (xflow I e))) ->
  X <> [] ->
  ((forall e, In e E -> is_scc_edge G e = true -> (qnat (length X + 2) <= reach_max I e)%Q) /\
   (qnat (length X + 2) <= x_wmax I)%Q /\ (x_mslack I * qnat (length X + 2) <= x_wmax I)%Q) ->
  exists A' : list PathEnc.edge,
    NoDup A' /\ incl A' X /\ walk_incompatible E A' /\
    (forall A2, NoDup A2 -> incl A2 X -> walk_incompatible E A2 -> (length A2 <= length A')%nat) /\
    ((length A' <= x_k I)%nat -> exists a, sat a (encode_kmpe_cycles I) /\ (objective a (encode_kmpe_cycles I) == x_wmax I)%Q).
Proof. exact kmpec_feasible_from_walk_width. Qed.
Print Assumptions C08_walk_feasible_for_k_at_least_walk_width.

(* the general form: ANY family of k walks through all non-ignored edges with at most B repetitions per edge makes the LP
   feasible when the caps admit B repetitions *)
Theorem C08_walk_feasible_from_bounded_family : forall (I : werr_inst) (P : N -> list node) (B : nat),
  wf_stg (x_graph I) -> x_cons I = [] -> x_safe_lists I = [] -> x_fix I = [] ->
  wwalks (werr_walk I) P ->
  (forall i e, In i (layers (x_k I)) -> (count_e e (pairs (P i)) <= B)%nat) ->
  (forall e, In e (g_edges (x_graph I)) -> is_scc_edge (x_graph I) e = true -> (qnat B <= reach_max I e)%Q) ->
  (qnat B <= x_wmax I)%Q ->
  (forall e, In e (x_basic I) -> (0 <= xscale I e <= 1)%Q /\ (0 <= xflow I e)%Q /\ (x_int I = true -> is_int (xflow I e))) ->
  (1 <= x_k I)%nat ->
  (forall e, In e (x_basic I) -> exists i, In i (layers (x_k I)) /\ (1 <= count_e e (pairs (P i)))%nat) ->
  (x_mslack I * qnat B <= x_wmax I)%Q ->
  exists a, sat a (encode_kmpe_cycles I) /\ (objective a (encode_kmpe_cycles I) == x_wmax I)%Q.
Proof. exact kmpec_feasible_from_family. Qed.
Print Assumptions C08_walk_feasible_from_bounded_family.

(* the side condition cannot be dropped: on the 2-cycle with a tail with unit weights and k = 1 (= walk width: one walk passes all
   edges) every other hypothesis holds and the LP is infeasible -- the edge b -> a needs a walk through it, that walk passes a -> b
   twice, the repetition cap of a -> b is the largest reachable weight 1 (open finding cycles_rep_cap_from_reachable_max) *)
Theorem C08_walk_feasible_for_k_at_least_walk_width_needs_the_caps : ~ kmpec_feasible_from_walk_width_without_caps.
Proof. exact kmpec_feasible_from_walk_width_without_caps_refuted. Qed.
Print Assumptions C08_walk_feasible_for_k_at_least_walk_width_needs_the_caps.
Theorem C08_walk_unit_weight_tail_is_infeasible : forall a, ~ sat a (encode_kmpe_cycles tail1).
Proof. exact tail1_kmpe_unsat. Qed.
Print Assumptions C08_walk_unit_weight_tail_is_infeasible.

(* non-vacuity on the 2-cycle with a tail, a -> b of weight 4, k = 4: the hypotheses hold, hence the LP is satisfiable *)
Example C08_walk_width_example :
  (wf_stg (x_graph (tail_k 4 4%Q)) /\ x_basic (tail_k 4 4%Q) <> [] /\ caps_admit (tail_k 4 4%Q) (length (x_basic (tail_k 4 4%Q)) + 2)) /\
  (exists a, sat a (encode_kmpe_cycles (tail_k 4 4%Q)) /\ (objective a (encode_kmpe_cycles (tail_k 4 4%Q)) == 16)%Q).
Proof. exact (conj kmpec_width_premises kmpec_width_example). Qed.
