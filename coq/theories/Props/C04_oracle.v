(* C04 — the exhaustive minimality oracle of the engine is VERIFIED (WalkOracle.v, WalkOracleBridge.v).  Only property theorems (closed by
   [exact]), their assumptions and a non-vacuity example.  The search is finite and exhaustive: a walk of positive weight passes a kept
   edge at most f(e) times and a source/sink edge at most once, so all candidate walks are enumerated by extending along edges with
   remaining capacity; weights range over 1..max f; k-tuples are searched with the residual flow. *)
From Coq Require Import List NArith ZArith QArith Bool Arith Lia.
Import ListNotations.
From FP Require Import Lin PathEnc WalkEncRows WalkEncIff WalkOracle WalkOracleBridge.
Local Close Scope Q_scope.

(* on the s-t graph (nothing enters the source, nothing leaves the sink: the extracted premise check), the oracle returns the least
   number k <= kmax of walks of an integer walk decomposition (walks with positive integer weights explaining the flow on every edge
   that is neither a source nor a sink edge); None iff there is none with at most kmax walks *)
Theorem C04_oracle_search_is_sound_and_exhaustive :
  forall (E : list PathEnc.edge) (s t : node) (fl : list (PathEnc.edge * nat)) (kmax : nat),
  wfd_premises E s t = true ->
  let kept := kept_of E s t in let f := fnat fl in
  match min_wfd_model E s t fl kmax with
  | Some k => (k <= kmax)%nat /\ (exists l, iwd0 E s t kept f l /\ length l = k) /\ (forall l, iwd0 E s t kept f l -> (k <= length l)%nat)
  | None => forall l, iwd0 E s t kept f l -> (kmax < length l)%nat
  end.
Proof. exact min_wfd_model_correct. Qed.
Print Assumptions C04_oracle_search_is_sound_and_exhaustive.

(* against the declarative notion of the class (WalkEncIff.walk_decomposition, the one C04_lp_feasible_iff_admissible_decomposition is
   about): for an integer instance without ignore list whose flow values are natural numbers, the oracle decides the least number of
   walks of any decomposition *)
Theorem C04_oracle_decides_minimum :
  forall (I : kfdc_inst) (fl : list (PathEnc.edge * nat)) (kmax : nat),
  c_int I = true -> c_ignore I = [] ->
  (forall e, In e (kept_edges I) -> (flow_of I e == qn (fnat fl e))%Q) ->
  wfd_premises (g_edges (c_graph I)) (g_src (c_graph I)) (g_snk (c_graph I)) = true ->
  match min_wfd_model (g_edges (c_graph I)) (g_src (c_graph I)) (g_snk (c_graph I)) fl kmax with
  | Some k => (k <= kmax)%nat /\ (exists P wt, walk_decomposition (kfdc_with_k I k) P wt) /\
              (forall j P wt, walk_decomposition (kfdc_with_k I j) P wt -> (k <= j)%nat)
  | None => forall j P wt, walk_decomposition (kfdc_with_k I j) P wt -> (kmax < j)%nat
  end.
Proof. exact oracle_decides_minimum. Qed.
Print Assumptions C04_oracle_decides_minimum.

(* non-vacuity on the self-loop graph 1 -> 0, 0 -> 0, 0 -> 2 (source 1, sink 2): flow 2 on the loop is explained by ONE walk that takes
   the loop twice; the zero flow by no walk; the premise check holds *)
Example C04_oracle_nonvacuous :
  min_wfd_model [(0, 0); (1, 0); (0, 2)]%N 1%N 2%N [((0, 0)%N, 2%nat)] 3 = Some 1%nat /\
  min_wfd_model [(0, 0); (1, 0); (0, 2)]%N 1%N 2%N [] 3 = Some 0%nat /\
  wfd_premises [(0, 0); (1, 0); (0, 2)]%N 1%N 2%N = true.
Proof. exact loop_oracle. Qed.
Print Assumptions C04_oracle_nonvacuous.

(* with a user ignore list (elements_to_ignore): kept = the base edges that are not ignored; a walk may pass an ignored edge up to the
   capacity the model gives it (its own flow value inside a strongly connected component, 1 outside; source and sink edges once).  The
   oracle is exact for the integer walk decompositions WITHIN THESE CAPS on the ignored edges -- the reading of the LP theorems
   (C04_lp_feasible_iff_admissible_decomposition) -- : [iwd] with the capacity function [capn] *)
Theorem C04_oracle_with_ignore_list_is_sound_and_exhaustive_within_caps :
  forall (E : list PathEnc.edge) (s t : node) (ign : list PathEnc.edge) (capl fl : list (PathEnc.edge * nat)) (kmax : nat),
  let kept := kept_ign E s t ign in let f := fnat fl in let capn := capn_ign s t capl in
  match min_wfd_model_ign E s t ign capl fl kmax with
  | Some k => (k <= kmax)%nat /\ (exists l, iwd E s t kept f capn l /\ length l = k) /\ (forall l, iwd E s t kept f capn l -> (k <= length l)%nat)
  | None => forall l, iwd E s t kept f capn l -> (kmax < length l)%nat
  end.
Proof. exact min_wfd_model_ign_correct. Qed.
Print Assumptions C04_oracle_with_ignore_list_is_sound_and_exhaustive_within_caps.

Example C04_oracle_with_ignore_list_nonvacuous :
  min_wfd_model_ign [(0, 0); (1, 0); (0, 3); (3, 2)]%N 1%N 2%N [(0, 0)%N] [((0, 0)%N, 2%nat)] [((0, 3)%N, 2%nat)] 3 = Some 1%nat.
Proof. exact loop_oracle_ign. Qed.
Print Assumptions C04_oracle_with_ignore_list_nonvacuous.

(* bridged to the declarative notion of the class: for an integer instance with natural-number flows and a user ignore list, the oracle's
   answer is the least c_k admitting a WalkEncIff.walk_decomposition whose walks pass every edge that is not kept at most capn(e) times
   (ign_within_caps: the ignored edges at most as often as the capacity list says -- the engine passes the model's repetition cap --, source
   and sink edges once); None iff there is none up to kmax.  Of the four conjuncts of WalkEncIff.within_caps this is the multiplicity cap on
   the ignored edges; the caps on the kept edges, the weight bound w_max and the bit width are not part of the statement (for integer
   weights >= 1 a kept edge is passed at most f(e) times by any decomposition) *)
Theorem C04_oracle_with_ignore_list_decides_minimum_within_caps :
  forall (I : kfdc_inst) (capl fl : list (PathEnc.edge * nat)) (kmax : nat),
  c_int I = true ->
  (forall e, In e (kept_edges I) -> (flow_of I e == qn (fnat fl e))%Q) ->
  let capn := capn_ign (g_src (c_graph I)) (g_snk (c_graph I)) capl in
  match min_wfd_model_ign (g_edges (c_graph I)) (g_src (c_graph I)) (g_snk (c_graph I)) (c_ignore I) capl fl kmax with
  | Some k => (k <= kmax)%nat /\ (exists P wt, walk_decomposition (kfdc_with_k I k) P wt /\ ign_within_caps (kfdc_with_k I k) capn P) /\
              (forall j P wt, walk_decomposition (kfdc_with_k I j) P wt -> ign_within_caps (kfdc_with_k I j) capn P -> (k <= j)%nat)
  | None => forall j P wt, walk_decomposition (kfdc_with_k I j) P wt -> ign_within_caps (kfdc_with_k I j) capn P -> (kmax < j)%nat
  end.
Proof. exact oracle_with_ignore_list_decides_minimum. Qed.
Print Assumptions C04_oracle_with_ignore_list_decides_minimum_within_caps.
