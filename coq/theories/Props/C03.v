(* C03 — MinFlowDecomp always finds a decomposition and it has the fewest paths.
   The property theorem is the composition of:
   (1) per-k soundness of the generated LP (a satisfying assignment IS a decomposition into k paths),
   (2) the search: with per-k outcomes decided exactly, the loop returns the least feasible k in range,
   (3) validity of the width lower bound (weak duality: a decomposition of a flow that is positive on
       the non-ignored edges covers them, so it has at least as many paths as any antichain),
   (4) an optimum with at most #positive-edges paths exists (greedy peeling), so the inclusive range
       [lower bound, |E|] contains the least feasible k.
   (5) completeness of the LP: every decomposition into k paths is a satisfying assignment (constraint-free case). *)
From Coq Require Import List NArith ZArith QArith Bool Arith Lia Permutation.
Import ListNotations.
From FP Require Import Lin Blocks BlocksProofs PathEnc PathEncProofs PathEncComplete Cover CoverProofs Peel PeelProofs1 PeelProofs2 PeelProofs3
                       Search SearchProofs1 SearchProofs2.
Local Close Scope Q_scope.

(* (1) *)
Theorem C03_feasible_k_model_yields_decomposition : forall (I : kfd_inst) (a : var -> Q),
  sat a (encode_kfd I) -> forall e, In e (g_edges (p_graph (f_base I))) -> mem_edge e (f_ignore I) = false ->
  (sumq (fun i => a (W i) * inject_Z (xval a i e)) (layers (p_k (f_base I))) == lookup_q e (f_flow I) 0)%Q.
Proof. exact kfd_flow_explained. Qed.
Print Assumptions C03_feasible_k_model_yields_decomposition.

(* (2) the k-search (Search.mpc_solve is the loop body shared by the four graph searches; the upper end
   [ub] is exclusive here, the code passes |E|+1) *)
Theorem C03_search_returns_least_feasible_k : forall (feasible : nat -> bool) (lb ub kopt : nat) (sts : list raw),
  (forall i, (i < ub - lb)%nat -> exists x, nth_error sts i = Some x /\
             status_of x = if feasible (lb + i)%nat then Optimal else Infeasible) ->
  feasible kopt = true -> (forall k, (k < kopt)%nat -> feasible k = false) -> (lb <= kopt < ub)%nat ->
  so_res (mpc_solve true lb ub sts) = Solved kopt.
Proof. exact search_min. Qed.
Print Assumptions C03_search_returns_least_feasible_k.

(* (3) *)
Theorem C03_width_is_a_lower_bound : forall (Ed Rt : Type) (on : Ed -> Rt -> bool) (admissible : Rt -> Prop)
  (w : Ed -> Z) (dom A : list Ed) (P : list (Rt * Z)),
  antichain Ed Rt on admissible A -> incl A dom -> covers Ed Rt on admissible w dom P -> (zsum w A <= size Rt P)%Z.
Proof. exact weak_duality. Qed.
Print Assumptions C03_width_is_a_lower_bound.

(* (4) *)
Theorem C03_decomposition_with_at_most_npos_paths_exists : forall G P S topo (f : Reach.edge -> Z),
  peel_inputs_ok G P S topo = true -> nonneg G f -> conserving G f ->
  exists D, decompose code_nosink_keyerror G (adj_of P) (adj_of S) topo f = PeelOK D /\
            (forall e, In e G -> explained D e = f e) /\
            Forall (fun pw => ss_path G (fst pw) /\ (0 < snd pw)%Z) D /\
            (length D <= npos G f)%nat.
Proof. exact greedy_peeling_explains_code. Qed.
Print Assumptions C03_decomposition_with_at_most_npos_paths_exists.

(* (5) completeness of the LP (no subpath constraints): EVERY decomposition into k weighted simple
   source-to-sink paths explaining the non-ignored flow is a satisfying assignment.  With (1): the model
   for k is feasible  <=>  a decomposition into k paths (zero weights allowed) exists, which is what
   "feasible k" means in the search theorem (2). *)
Theorem C03_every_decomposition_satisfies_the_lp :
  forall (I : kfd_inst) (P : N -> list node) (w : N -> Q) (ch : N -> N),
  PathEncProofs.wf_graph (p_graph (f_base I)) -> p_allow_empty (f_base I) = false ->
  (forall i, In i (layers (p_k (f_base I))) ->
     hd_error (P i) = Some (g_src (p_graph (f_base I))) /\
     last (P i) (g_src (p_graph (f_base I))) = g_snk (p_graph (f_base I)) /\
     NoDup (P i) /\ incl (EulerProofs1.pairs (P i)) (g_edges (p_graph (f_base I)))) ->
  (forall i, In i (layers (p_k (f_base I))) -> (0 <= w i <= f_wmax I)%Q /\ (f_int I = true -> is_int (w i))) ->
  (forall e, In e (g_edges (p_graph (f_base I))) -> mem_edge e (f_ignore I) = false ->
     (sumq (fun i => w i * indq (mem_edge e (EulerProofs1.pairs (P i)))) (layers (p_k (f_base I))) == lookup_q e (f_flow I) 0)%Q) ->
  p_cons (f_base I) = [] ->
  sat (asg P w ch) (encode_kfd I).
Proof. exact kfd_complete. Qed.
Print Assumptions C03_every_decomposition_satisfies_the_lp.

(* (6) the LP for k is feasible exactly when a decomposition into k simple source-to-sink paths exists *)
Theorem C03_k_model_feasible_iff_decomposition_exists : forall (I : kfd_inst) (rank : node -> nat) (Rm : nat),
  PathEncProofs.wf_graph (p_graph (f_base I)) -> p_cons (f_base I) = [] -> p_allow_empty (f_base I) = false ->
  (forall u v, In (u, v) (g_edges (p_graph (f_base I))) -> (rank u < rank v)%nat) -> (forall v, (rank v <= Rm)%nat) ->
  ((exists a, sat a (encode_kfd I)) <-> (exists P w, decomposition I P w)).
Proof. exact kfd_feasible_iff. Qed.
Print Assumptions C03_k_model_feasible_iff_decomposition_exists.

(* (7) THE PROPERTY, composed: with a solver that decides each generated LP exactly, the search returns the least
   number of paths of any decomposition, provided that number lies in the searched range (which (3) and (4)
   guarantee for the range [width lower bound, |E|] the code uses) *)
Theorem C03_minflowdecomp_returns_the_minimum :
  forall (inst : nat -> kfd_inst) (rank : node -> nat) (Rm : nat) (feasible : nat -> bool) (lb ub kopt : nat) (sts : list raw),
  (forall k, p_k (f_base (inst k)) = k /\ PathEncProofs.wf_graph (p_graph (f_base (inst k))) /\ p_cons (f_base (inst k)) = [] /\
             p_allow_empty (f_base (inst k)) = false /\
             (forall u v, In (u, v) (g_edges (p_graph (f_base (inst k)))) -> (rank u < rank v)%nat)) ->
  (forall v, (rank v <= Rm)%nat) ->
  (forall k, feasible k = true <-> exists a, sat a (encode_kfd (inst k))) ->
  (forall i, (i < ub - lb)%nat -> exists x, nth_error sts i = Some x /\
             status_of x = if feasible (lb + i)%nat then Optimal else Infeasible) ->
  (exists P w, decomposition (inst kopt) P w) ->
  (forall k, (k < kopt)%nat -> ~ exists P w, decomposition (inst k) P w) ->
  (lb <= kopt < ub)%nat ->
  so_res (mpc_solve true lb ub sts) = Solved kopt.
Proof. exact mfd_returns_minimum. Qed.
Print Assumptions C03_minflowdecomp_returns_the_minimum.

(* (8) the same two statements WITH subpath constraints (R variables, rows 7a/7b, coverage fraction, edge lengths):
   the k-model is feasible iff k weighted paths explain the flow AND every constraint is covered to the required
   fraction by one of them; hence the search returns the least such k *)
Theorem C03_k_model_with_constraints_feasible_iff : forall (I : kfd_inst) (rank : node -> nat) (Rm : nat),
  PathEncProofs.wf_graph (p_graph (f_base I)) -> p_allow_empty (f_base I) = false ->
  (forall u v, In (u, v) (g_edges (p_graph (f_base I))) -> (rank u < rank v)%nat) -> (forall v, (rank v <= Rm)%nat) ->
  (forall c e, In c (p_cons (f_base I)) -> In e c -> In e (g_edges (p_graph (f_base I))) /\ (0 <= elen (f_base I) e)%Q) ->
  ((exists a, sat a (encode_kfd I)) <-> (exists P w, decomposition I P w /\ constraints_covered (f_base I) P)).
Proof. exact kfd_feasible_iff_cons. Qed.
Print Assumptions C03_k_model_with_constraints_feasible_iff.

Theorem C03_minflowdecomp_with_constraints_returns_the_minimum :
  forall (inst : nat -> kfd_inst) (rank : node -> nat) (Rm : nat) (feasible : nat -> bool) (lb ub kopt : nat) (sts : list raw),
  (forall k, p_k (f_base (inst k)) = k /\ PathEncProofs.wf_graph (p_graph (f_base (inst k))) /\
             p_allow_empty (f_base (inst k)) = false /\
             (forall u v, In (u, v) (g_edges (p_graph (f_base (inst k)))) -> (rank u < rank v)%nat) /\
             (forall c e, In c (p_cons (f_base (inst k))) -> In e c ->
                          In e (g_edges (p_graph (f_base (inst k)))) /\ (0 <= elen (f_base (inst k)) e)%Q)) ->
  (forall v, (rank v <= Rm)%nat) ->
  (forall k, feasible k = true <-> exists a, sat a (encode_kfd (inst k))) ->
  (forall i, (i < ub - lb)%nat -> exists x, nth_error sts i = Some x /\
             status_of x = if feasible (lb + i)%nat then Optimal else Infeasible) ->
  (exists P w, decomposition (inst kopt) P w /\ constraints_covered (f_base (inst kopt)) P) ->
  (forall k, (k < kopt)%nat -> ~ exists P w, decomposition (inst k) P w /\ constraints_covered (f_base (inst k)) P) ->
  (lb <= kopt < ub)%nat ->
  so_res (mpc_solve true lb ub sts) = Solved kopt.
Proof. exact mfd_returns_minimum_cons. Qed.
Print Assumptions C03_minflowdecomp_with_constraints_returns_the_minimum.

(* remaining gap, stated: node-weighted input (goes through C11's expansion theorems) and the guessed-weights / greedy shortcuts
   (covered by C13's search theorems and C17's peeling theorem respectively) are not composed into one statement. *)

(* non-vacuity (PathEncExample.v): a concrete instance with a subpath constraint meets every hypothesis of (8);
   it has a constraint-covering decomposition with 2 paths and none with 1, so its 2-model is feasible and its
   1-model infeasible *)
From FP Require Import PathEncExample.
Example C03_premises_satisfiable :
  PathEncProofs.wf_graph (p_graph (f_base (exI 2))) /\
  (decomposition (exI 2) exP exW /\ constraints_covered (f_base (exI 2)) exP) /\
  (~ exists P w, decomposition (exI 1) P w /\ constraints_covered (f_base (exI 1)) P) /\
  (exists a, sat a (encode_kfd (exI 2))) /\ (~ exists a, sat a (encode_kfd (exI 1))).
Proof. exact (conj ex_wf (conj ex_decomposition (conj ex_no_decomposition_1 (conj ex_lp_feasible_2 ex_lp_infeasible_1)))). Qed.
Print Assumptions C03_premises_satisfiable.

(* (9) END TO END, from hypotheses about the caller's input only (EndToEnd1-3.v): for every DAG -- given with a topological order and
   adjacency lists that the verified checker Peel.peel_inputs_ok accepts -- and every non-negative conserving integer flow, the search
   of MinFlowDecomp over k = lb .. |E| (solver deciding each generated model exactly, lb a valid lower bound) returns kopt = the least
   number of weighted source-to-sink paths explaining the flow, and kopt <= number of positive edges.  Derived inside the proof, not
   assumed: the s-t graph of the augmentation is well formed, a rank function exists, a decomposition exists (greedy peeling), the
   k-model for that many paths is feasible (completeness), the optimum lies in the searched range. *)
From FP Require Import EndToEnd1 EndToEnd2 EndToEnd3 EndToEndExample.
Theorem C03_minflowdecomp_end_to_end :
  forall (V : list node) (E : list PathEnc.edge) (s t : node) (f : PathEnc.edge -> Z)
         (Pa Sa : list (node * list node)) (topo : list node) (feasible : nat -> bool) (lb : nat) (sts : list raw),
  NoDup V -> (forall e, In e E -> In (fst e) V /\ In (snd e) V) -> ~ In s V -> ~ In t V -> s <> t ->
  Peel.peel_inputs_ok E Pa Sa topo = true ->
  PeelProofs1.nonneg E f -> PeelProofs1.conserving E f ->
  (forall k, feasible k = true <-> exists a, sat a (encode_kfd (e2e_inst V E s t f k))) ->
  (forall i, (i < S (length E) - lb)%nat -> exists x, nth_error sts i = Some x /\
             status_of x = if feasible (lb + i)%nat then Optimal else Infeasible) ->
  (forall k, (k < lb)%nat -> feasible k = false) ->
  exists kopt,
    so_res (mpc_solve true lb (S (length E)) sts) = Solved kopt /\
    (kopt <= Peel.npos E f)%nat /\
    (exists P w, decomposition (e2e_inst V E s t f kopt) P w) /\
    (forall k, (k < kopt)%nat -> ~ exists P w, decomposition (e2e_inst V E s t f k) P w).
Proof. exact minflowdecomp_end_to_end. Qed.
Print Assumptions C03_minflowdecomp_end_to_end.

Example C03_end_to_end_premises_satisfiable :
  NoDup xV /\ (forall e, In e xE -> In (fst e) xV /\ In (snd e) xV) /\ ~ In 0%N xV /\ ~ In 5%N xV /\ 0%N <> 5%N /\
  Peel.peel_inputs_ok xE xPa xSa [1; 2; 3; 4]%N = true /\ PeelProofs1.nonneg xE xf /\ PeelProofs1.conserving xE xf.
Proof. exact e2e_premises_satisfiable. Qed.
Print Assumptions C03_end_to_end_premises_satisfiable.

(* (10) soundness of the width lower bound at the level of decompositions (AntichainBound.v): pairwise incompatible non-ignored
   edges with positive flow force as many paths; with (6)/(8) the k-model is infeasible for every smaller k *)
From FP Require Import AntichainBound.
Theorem C03_decomposition_has_at_least_antichain_many_paths :
  forall (I : kfd_inst) (A' : list PathEnc.edge) (P : N -> list node) (w : N -> Q),
  NoDup A' -> incompatible_edges A' ->
  (forall e, In e A' -> In e (g_edges (p_graph (f_base I))) /\ mem_edge e (f_ignore I) = false /\ (0 < lookup_q e (f_flow I) 0)%Q) ->
  decomposition I P w -> (length A' <= p_k (f_base I))%nat.
Proof. exact decomposition_needs_antichain_many_paths. Qed.
Print Assumptions C03_decomposition_has_at_least_antichain_many_paths.

(* (10') the same with the graph-relative notion the code's width is about (Dilworth.incompatible_in: no path OF THE GRAPH contains
   two of the edges) -- (10) assumes the stronger `incompatible_edges` (no duplicate-free node list whatsoever contains both), which few
   edge sets satisfy (noticed by agent-walk while proving Dilworth's theorem for C09); with C09_min_path_cover_equals_width the bound is
   attained by the covers, so it is the best bound of this kind *)
From FP Require Import Dilworth WidthBound.
Theorem C03_decomposition_has_at_least_width_many_paths :
  forall (I : kfd_inst) (A' : list PathEnc.edge) (P : N -> list node) (w : N -> Q),
  NoDup A' -> incompatible_in (g_edges (p_graph (f_base I))) A' ->
  (forall e, In e A' -> In e (g_edges (p_graph (f_base I))) /\ mem_edge e (f_ignore I) = false /\ (0 < lookup_q e (f_flow I) 0)%Q) ->
  decomposition I P w -> (length A' <= p_k (f_base I))%nat.
Proof. exact decomposition_needs_width_many_paths. Qed.
Print Assumptions C03_decomposition_has_at_least_width_many_paths.

(* (11) the exhaustive oracle that decides the minimum of each sampled INTEGER instance is itself verified and extracted
   (FlowOracle.v): it returns the least number of weighted source-to-sink paths (non-negative integer weights) explaining the
   non-ignored flow and realising the subpath constraints *)
From FP Require Import CoverOracle FlowOracle.
Theorem C03_verified_oracle_returns_the_minimum :
  forall (I : kfd_inst) (rank : node -> nat) (kmax : nat),
  PathEncProofs.wf_graph (p_graph (f_base I)) -> (forall u v, In (u, v) (g_edges (p_graph (f_base I))) -> (rank u < rank v)%nat) ->
  f_int I = true ->
  (forall e, In e (need_of I) -> is_int (lookup_q e (f_flow I) 0%Q) /\ (0 <= lookup_q e (f_flow I) 0 <= f_wmax I)%Q) ->
  (0 <= f_wmax I)%Q ->
  match min_fd I kmax with
  | Some k => (1 <= k <= kmax)%nat /\
              (exists P w, decomposition (set_k_fd I k) P w /\ constraints_covered (f_base (set_k_fd I k)) P) /\
              (forall j, (1 <= j < k)%nat -> ~ exists P w, decomposition (set_k_fd I j) P w /\ constraints_covered (f_base (set_k_fd I j)) P)
  | None => forall j, (1 <= j <= kmax)%nat -> ~ exists P w, decomposition (set_k_fd I j) P w /\ constraints_covered (f_base (set_k_fd I j)) P
  end.
Proof. exact min_fd_correct. Qed.
Print Assumptions C03_verified_oracle_returns_the_minimum.

(* ---- audit addition (agent-c19): (10') C03_decomposition_has_at_least_width_many_paths had no instance of `incompatible_in` together
   with a decomposition.  On the diamond of EndToEndExample.v (flows 2 / 3, source 0, sink 5): the instance MinFlowDecomp solves for
   k = 2, the two paths with weights 2 and 3, and the antichain of size 2 that C09_dilworth_diamond_width_is_two provides meet every
   premise; the bound 2 <= k is attained *)
Example C03_width_bound_premises_satisfiable :
  let I := e2e_inst xV xE 0%N 5%N xf 2 in
  let P := fun i : N => if (i =? 0)%N then [0; 1; 2; 4; 5]%N else [0; 1; 3; 4; 5]%N in
  let w := fun i : N => if (i =? 0)%N then 2%Q else 3%Q in
  decomposition I P w /\
  exists A', NoDup A' /\ incompatible_in (g_edges (p_graph (f_base I))) A' /\
    (forall e, In e A' -> In e (g_edges (p_graph (f_base I))) /\ mem_edge e (f_ignore I) = false /\ (0 < lookup_q e (f_flow I) 0)%Q) /\
    length A' = p_k (f_base I).
Proof.
  cbn zeta. split.
  - split; [|split].
    + intros i Hi. cbn in Hi. destruct Hi as [<-|[<-|[]]]; (split; [reflexivity|]; split; [reflexivity|]; split;
        [repeat constructor; cbn; intuition discriminate|intros e He; vm_compute in He; vm_compute; tauto]).
    + intros i Hi. cbn in Hi. destruct Hi as [<-|[<-|[]]]; (split; [vm_compute; split; discriminate|]); intros _; [exists 2%Z|exists 3%Z]; reflexivity.
    + intros e He Hig. vm_compute in He.
      repeat (destruct He as [<-|He]; [first [vm_compute; reflexivity | vm_compute in Hig; discriminate Hig]|]). destruct He.
  - destruct Dilworth.diamond_width_two as (_ & A' & ND & Hincl & Hinc & Hlen). exists A'.
    split; [exact ND|]. split; [exact Hinc|]. split; [|exact Hlen].
    intros e He. apply Hincl in He. cbn in He. destruct He as [<-|[<-|[<-|[<-|[]]]]]; (split; [vm_compute; tauto|split; vm_compute; reflexivity]).
Qed.
Print Assumptions C03_width_bound_premises_satisfiable.

(* ---- audit additions (agent-walk, audit/props_C03_C05_C07_C08.md): instances of hypotheses no stated Example reached ---- *)
From FP Require Import AuditExamples.
(* (2) C03_search_returns_least_feasible_k: a feasibility predicate that is false below 2, the status list of an exact solver from lb = 1,
   ub = 4 (exclusive); the search computes Solved 2 *)
Example C03_search_premises_satisfiable :
  let feasible := fun k => (2 <=? k)%nat in
  let sts := map (fun k => mkraw (if feasible k then Optimal else Infeasible) false) (seq 1 3) in
  (forall i, (i < 4 - 1)%nat -> exists x, nth_error sts i = Some x /\ status_of x = if feasible (1 + i)%nat then Optimal else Infeasible) /\
  feasible 2%nat = true /\ (forall k, (k < 2)%nat -> feasible k = false) /\ (1 <= 2 < 4)%nat /\
  so_res (mpc_solve true 1 4 sts) = Solved 2%nat.
Proof. exact ex_search_premises. Qed.
Print Assumptions C03_search_premises_satisfiable.

(* (11) C03_verified_oracle_returns_the_minimum: all five hypotheses hold for the diamond of PathEncExample.v (integer flows 2 / 3, one
   subpath constraint) and the oracle answers Some 2 -- the value (8)'s example proves by hand *)
Example C03_oracle_premises_satisfiable :
  PathEncProofs.wf_graph (p_graph (f_base (exI 0))) /\
  (forall u v, In (u, v) (g_edges (p_graph (f_base (exI 0)))) -> (exRank u < exRank v)%nat) /\
  f_int (exI 0) = true /\
  (forall e, In e (need_of (exI 0)) -> is_int (lookup_q e (f_flow (exI 0)) 0%Q) /\ (0 <= lookup_q e (f_flow (exI 0)) 0 <= f_wmax (exI 0))%Q) /\
  (0 <= f_wmax (exI 0))%Q /\ min_fd (exI 0) 3 = Some 2%nat.
Proof. exact ex_oracle_premises. Qed.
Print Assumptions C03_oracle_premises_satisfiable.
