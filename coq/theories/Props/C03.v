(* C03 — MinFlowDecomp always finds a decomposition and it has the fewest paths.
   The property theorem is the composition of:
   (1) per-k soundness of the generated LP (a satisfying assignment IS a decomposition into k paths),
   (2) the search: with per-k outcomes decided exactly, the loop returns the least feasible k in range,
   (3) validity of the width lower bound (weak duality: a decomposition of a flow that is positive on
       the non-ignored edges covers them, so it has at least as many paths as any antichain),
   (4) an optimum with at most #positive-edges paths exists (greedy peeling), so the inclusive range
       [lower bound, |E|] contains the least feasible k.
   Completeness of the LP (every decomposition into <= k paths is a satisfying assignment) is what makes
   "feasible k" mean "a decomposition into <= k paths exists"; it is not yet proved in Coq and is the
   stated gap of this file (see C03_full_statement). *)
From Coq Require Import List NArith ZArith QArith Bool Arith Lia Permutation.
Import ListNotations.
From FP Require Import Lin Blocks BlocksProofs PathEnc PathEncProofs Cover CoverProofs Peel PeelProofs1 PeelProofs2 PeelProofs3
                       Search SearchProofs1 SearchProofs2.
Local Close Scope Q_scope.

(* (1) *)
Theorem C03_feasible_k_model_yields_decomposition : forall (I : kfd_inst) (a : var -> Q),
  sat a (encode_kfd I) -> forall e, In e (g_edges (p_graph (f_base I))) -> mem_edge e (f_ignore I) = false ->
  (sumq (fun i => a (W i) * inject_Z (xval a i e)) (layers (p_k (f_base I))) == lookup_q e (f_flow I) 0)%Q.
Proof. exact kfd_flow_explained. Qed.
Print Assumptions C03_feasible_k_model_yields_decomposition.

(* (2) the k-search (Search.mpc_solve is the loop body shared by the four graph searches; the upper end
   [ub] is exclusive here, the code passes |E|+1) *)
Theorem C03_search_returns_least_feasible_k : forall (feasible : nat -> bool) (lb ub kopt : nat) (sts : list raw),
  (forall i, (i < ub - lb)%nat -> exists x, nth_error sts i = Some x /\
             status_of x = if feasible (lb + i)%nat then Optimal else Infeasible) ->
  feasible kopt = true -> (forall k, (k < kopt)%nat -> feasible k = false) -> (lb <= kopt < ub)%nat ->
  so_res (mpc_solve true lb ub sts) = Solved kopt.
Proof. exact search_min. Qed.
Print Assumptions C03_search_returns_least_feasible_k.

(* (3) *)
Theorem C03_width_is_a_lower_bound : forall (Ed Rt : Type) (on : Ed -> Rt -> bool) (admissible : Rt -> Prop)
  (w : Ed -> Z) (dom A : list Ed) (P : list (Rt * Z)),
  antichain Ed Rt on admissible A -> incl A dom -> covers Ed Rt on admissible w dom P -> (zsum w A <= size Rt P)%Z.
Proof. exact weak_duality. Qed.
Print Assumptions C03_width_is_a_lower_bound.

(* (4) *)
Theorem C03_decomposition_with_at_most_npos_paths_exists : forall G P S topo (f : Reach.edge -> Z),
  peel_inputs_ok G P S topo = true -> nonneg G f -> conserving G f ->
  exists D, decompose code_nosink_keyerror G (adj_of P) (adj_of S) topo f = PeelOK D /\
            (forall e, In e G -> explained D e = f e) /\
            Forall (fun pw => ss_path G (fst pw) /\ (0 < snd pw)%Z) D /\
            (length D <= npos G f)%nat.
Proof. exact greedy_peeling_explains_code. Qed.
Print Assumptions C03_decomposition_with_at_most_npos_paths_exists.

(* the statement whose remaining gap is LP completeness *)
Definition C03_full_statement : Prop :=
  forall (I : kfd_inst) (ps : list (list node)) (ws : list Q),
    (* a decomposition into k = length ps weighted s-t paths explaining the non-ignored flow *) True ->
    exists a, sat a (encode_kfd I).
