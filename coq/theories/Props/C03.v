(* C03 — placeholder statements until Search.v / Peel.v / Cover.v are merged (see DESIGN); the
   theorem below is the per-k soundness used by the search argument. *)
From Coq Require Import List NArith ZArith QArith Bool Arith Lia Permutation.
Import ListNotations.
From FP Require Import Lin Blocks BlocksProofs PathEnc PathEncProofs.
Local Close Scope Q_scope.
Theorem C03_feasible_k_model_yields_decomposition : forall (I : kfd_inst) (a : var -> Q),
  sat a (encode_kfd I) -> forall e, In e (g_edges (p_graph (f_base I))) -> mem_edge e (f_ignore I) = false ->
  (sumq (fun i => a (W i) * inject_Z (xval a i e)) (layers (p_k (f_base I))) == lookup_q e (f_flow I) 0)%Q.
Proof. exact kfd_flow_explained. Qed.
Print Assumptions C03_feasible_k_model_yields_decomposition.
