(* C01 / C02 / C09 on digraphs with cycles (statements shared by several properties; to be moved into the
   per-property files by the coordinator).
   Models: WalkEncRows.encode_walks / encode_kfdc / encode_kpcc (tied by E1, harness/e1cyc.py). *)
From Coq Require Import List NArith ZArith QArith Bool Arith Lia Permutation.
Import ListNotations.
From FP Require Import Lin Blocks BlocksProofs PathEnc PathEncProofs Euler EulerProofs1 EulerProofs4 WalkDecode
                       SatCheck WalkEncRows WalkEncRowsProofs WalkExamples.
Local Close Scope Q_scope.

(* C01 (cyclic): the rows 17a 17b 21 22a 19c with the columns' bounds and integrality force every layer's
   multiplicity vector to be exactly ONE source-to-sink walk: the reconstruction succeeds, leaves nothing
   over and traverses every edge e exactly x_i(e) times (for every subclass: the block is inherited) *)
Theorem C01_walk_layer_is_one_walk : forall (I : walk_inst) (a : var -> Q),
  wf_stg (w_graph I) -> Forall (sat_col a) (walk_cols I) -> Forall (sat_row a) (walk_rows I) ->
  forall i, o_allow_empty (w_opts I) = false -> In i (layers (w_k I)) ->
  exists w, reconstruct (resid (g_edges (w_graph I)) (xint a i)) (g_src (w_graph I)) = Some ([], w) /\
            hd_error w = Some (g_src (w_graph I)) /\ last w (g_src (w_graph I)) = g_snk (w_graph I) /\
            Permutation (resid (g_edges (w_graph I)) (xint a i)) (pairs w) /\
            (forall e, In e (g_edges (w_graph I)) -> count_e e (pairs w) = Z.to_nat (xint a i e)) /\
            (forall e, ~ In e (g_edges (w_graph I)) -> count_e e (pairs w) = 0%nat).
Proof. exact walk_layer_is_one_walk. Qed.
Print Assumptions C01_walk_layer_is_one_walk.

(* C01/C14 (cyclic): the executable decoder Euler.solution_walk (model of get_solution_walks, tied to the code by
   C14's exact-output correspondence) applied to a layer's solver values returns that walk, nothing left over *)
Theorem C01_decoder_returns_the_layer_walk : forall (I : walk_inst) (a : var -> Q) i,
  let G := w_graph I in let E := g_edges G in let s := g_src G in let t := g_snk G in
  wf_stg G -> Forall (sat_col a) (walk_cols I) -> Forall (sat_row a) (walk_rows I) ->
  o_allow_empty (w_opts I) = false -> In i (layers (w_k I)) ->
  exists w', solution_walk (map (fun e => (e, a (evar e i))) E) s t = Some (O, w') /\
             (forall e, In e E -> count_e e (pairs (s :: w' ++ [t])) = Z.to_nat (xint a i e)) /\
             (forall e, ~ In e E -> count_e e (pairs (s :: w' ++ [t])) = 0%nat).
Proof. exact walk_layer_solution_walk. Qed.
Print Assumptions C01_decoder_returns_the_layer_walk.


(* non-vacuity: the premises are satisfiable (self-loop instance, solved with one walk going round once) *)
Example C01_walk_premises_satisfiable :
  wf_stg loopG /\ sat loop_sol (encode_kfdc (loop_inst 1)) /\ sat loop_sol (encode_kpcc loop_kpcc).
Proof. split; [exact loopG_wf|]. split; [exact loop_feasible|exact loop_kpcc_feasible]. Qed.

(* ---- audit: ALL hypotheses of C01_walk_layer_is_one_walk / C01_decoder_returns_the_layer_walk hold together on a graph with a cycle
   (source -> x, the self-loop x -> x, x -> sink; one walk going round once), and the walk handed out passes the loop exactly once ---- *)
Example C01_walk_all_premises_hold :
  let I := kfdc_walk (loop_inst 1) in
  wf_stg (w_graph I) /\ Forall (sat_col loop_sol) (walk_cols I) /\ Forall (sat_row loop_sol) (walk_rows I) /\
  o_allow_empty (w_opts I) = false /\ In 0%N (layers (w_k I)) /\
  exists w', solution_walk (map (fun e => (e, loop_sol (evar e 0%N))) (g_edges (w_graph I))) (g_src (w_graph I)) (g_snk (w_graph I)) = Some (O, w') /\
             count_e (0, 0)%N (pairs (g_src (w_graph I) :: w' ++ [g_snk (w_graph I)])) = 1%nat.
Proof.
  intros I.
  assert (Hc : Forall (sat_col loop_sol) (walk_cols I) /\ Forall (sat_row loop_sol) (walk_rows I)).
  { destruct loop_feasible as [Hc Hr]. unfold encode_kfdc in Hc, Hr. cbn [cols rows] in Hc, Hr. unfold base_wcols, base_wrows in Hc, Hr.
    rewrite !Forall_app in Hc, Hr. split; [apply Hc|apply Hr]. }
  destruct Hc as [Hc Hr].
  assert (Hi : In 0%N (layers (w_k I))) by (vm_compute; tauto).
  split; [exact loopG_wf|]. split; [exact Hc|]. split; [exact Hr|]. split; [reflexivity|]. split; [exact Hi|].
  destruct (C01_decoder_returns_the_layer_walk I loop_sol 0%N loopG_wf Hc Hr eq_refl Hi) as (w' & Hw & Hcount & _).
  exists w'. split; [exact Hw|]. rewrite (Hcount (0, 0)%N ltac:(vm_compute; tauto)). vm_compute. reflexivity.
Qed.
Print Assumptions C01_walk_all_premises_hold.
