(* C14 — walk reconstruction uses every edge exactly as often as the solver decided.
   This file contains only the property theorems (closed by [exact]), their assumptions,
   and non-vacuity examples. Model: Euler.v (transcription of
   AbstractWalkModelDiGraph.get_solution_walks / _build_residual_graph_for_layer /
   _reconstruct_eulerian_walk / _build_closed_walk_from_vertex). *)
From Coq Require Import List NArith ZArith QArith Bool Arith Lia Permutation.
Import ListNotations.
From FP Require Import Euler EulerProofs1 EulerProofs2 EulerProofs3 EulerProofs4.
Local Close Scope Q_scope.

(* Full statement. [es] = the edges of the s-t graph in iteration order with the solver value of
   the layer; the residual multigraph g0 repeats each edge round(value) times.  Hypotheses =
   "leaves the source once, balanced at inner nodes, connected" (exc = out-degree - in-degree). *)
Theorem C14_single_walk_uses_every_edge_exactly : forall (es : list (edge * Q)) (s t : node),
  let g0 := residual_q es in
  s <> t ->
  exc g0 s = 1%Z -> exc g0 t = (-1)%Z -> (forall x, x <> s -> x <> t -> exc g0 x = 0%Z) ->
  (forall a b, In (a, b) g0 -> reach g0 s a) ->
  exists w', solution_walk es s t = Some (O, w') /\          (* no fuel exhaustion, 0 edges left over *)
             Permutation g0 (pairs (s :: w' ++ [t])) /\      (* one walk s .. t, its edge multiset = g0 *)
             (forall e, count_e e (pairs (s :: w' ++ [t])) = count_e e g0).
Proof. exact solution_walk_correct. Qed.
Print Assumptions C14_single_walk_uses_every_edge_exactly.

Theorem C14_multiplicities : forall (es : list (edge * Q)) (s t : node),
  let g0 := residual_q es in
  NoDup (map fst es) -> s <> t ->
  exc g0 s = 1%Z -> exc g0 t = (-1)%Z -> (forall x, x <> s -> x <> t -> exc g0 x = 0%Z) ->
  (forall a b, In (a, b) g0 -> reach g0 s a) ->
  exists w', solution_walk es s t = Some (O, w') /\
     (forall e q, In (e, q) es -> count_e e (pairs (s :: w' ++ [t])) = Z.to_nat (round_half_even q)) /\
     (forall e, ~ In e (map fst es) -> count_e e (pairs (s :: w' ++ [t])) = 0).
Proof. exact solution_walk_multiplicities. Qed.
Print Assumptions C14_multiplicities.

Theorem C14_all_zero_gives_empty_walk : forall (es : list (edge * Q)) (s t : node),
  (forall e q, In (e, q) es -> round_half_even q = 0%Z) ->
  solution_walk es s t = Some (O, []).
Proof. exact solution_walk_zero. Qed.
Print Assumptions C14_all_zero_gives_empty_walk.

Theorem C14_rounding_exact_on_integers : forall z, round_half_even (inject_Z z) = z.
Proof. exact round_half_even_int. Qed.
Print Assumptions C14_rounding_exact_on_integers.

Theorem C14_rounding_within_half : forall (q : Q) (z : Z),
  (inject_Z z - (1#2) < q)%Q -> (q < inject_Z z + (1#2))%Q -> round_half_even q = z.
Proof. exact round_half_even_near. Qed.
Print Assumptions C14_rounding_within_half.

(* Non-vacuity: a concrete multigraph with nested closed walks meets the hypotheses, and the model
   computes the walk Python returned for it while probing. *)
Example C14_nonvacuous :
  let es := map (fun '(u, v, m) => ((u, v), inject_Z (Z.of_nat m))) ex_edges in
  let g0 := residual_q es in
  exc g0 5%N = 1%Z /\ exc g0 6%N = (-1)%Z /\
  forallb (fun x => (exc g0 x =? 0)%Z) [0;1;2;3;4]%N = true /\
  solution_walk es 5%N 6%N = Some (O, [0; 1; 2; 1; 2; 3; 2; 3; 2; 1; 1; 1; 1; 4]%N).
Proof. vm_compute. repeat split; reflexivity. Qed.

(* ---- audit addition (agent-c19, audit/props_C12_C15.md): C14_nonvacuous checks the excess on the listed nodes only and states
   neither connectivity nor NoDup; here EVERY hypothesis of C14_single_walk_uses_every_edge_exactly / C14_multiplicities holds:
   0 -> 1 once, the loop 1 -> 1 twice, 1 -> 2 once; the reconstruction returns 0,1,1,1,2 *)
From FP Require Import AuditExamples12.
Example C14_all_hypotheses_satisfiable :
  let g0 := residual_q au_es in
  NoDup (map fst au_es) /\ 0%N <> 2%N /\ exc g0 0%N = 1%Z /\ exc g0 2%N = (-1)%Z /\
  (forall x, x <> 0%N -> x <> 2%N -> exc g0 x = 0%Z) /\ (forall a b, In (a, b) g0 -> reach g0 0%N a) /\
  solution_walk au_es 0%N 2%N = Some (O, [1; 1; 1]%N).
Proof. exact au_walk_hypotheses. Qed.
Print Assumptions C14_all_hypotheses_satisfiable.
