(* C01 — returned paths/walks are real source-to-sink routes of the caller's graph.
   Only property theorems (closed by [exact]) + assumptions + non-vacuity. *)
From Coq Require Import List NArith ZArith QArith Bool Arith Lia Permutation.
Import ListNotations.
From FP Require Import Lin Blocks BlocksProofs PathEnc Aug AugProofs Euler EulerProofs1 EulerProofs2 EulerProofs3 EulerProofs4
                       DagDecode PathEncProofs RouteProofs.
Local Close Scope Q_scope.

(* the augmented graph: exactly the documented attachment of the synthetic source and sink *)
Theorem C01_source_attached_exactly_to_starts : forall (V : list node) (E : list edge) (S T : list node) (s t : node),
  ~ In s V -> s <> t -> (forall e, In e E -> In (fst e) V /\ In (snd e) V) ->
  forall u, In (s, u) (aug_edges V E S T s t) <-> In u V /\ is_start E S u = true.
Proof. exact aug_spec_source. Qed.
Print Assumptions C01_source_attached_exactly_to_starts.

Theorem C01_sink_attached_exactly_to_ends : forall (V : list node) (E : list edge) (S T : list node) (s t : node),
  ~ In t V -> s <> t -> (forall e, In e E -> In (fst e) V /\ In (snd e) V) ->
  forall u, In (u, t) (aug_edges V E S T s t) <-> In u V /\ is_end E T u = true.
Proof. exact aug_spec_sink. Qed.
Print Assumptions C01_sink_attached_exactly_to_ends.

Theorem C01_no_other_edge_added : forall (V : list node) (E : list edge) (S T : list node) (s t : node) (a b : node),
  a <> s -> b <> t -> (In (a, b) (aug_edges V E S T s t) <-> In (a, b) E).
Proof. exact aug_spec_inner. Qed.
Print Assumptions C01_no_other_edge_added.

(* any s-t walk of the augmented graph, stripped of s and t, is a route of the caller's graph *)
Theorem C01_stripped_walk_is_route_of_callers_graph : forall (V : list node) (E : list edge) (S T : list node) (s t : node),
  ~ In s V -> ~ In t V -> s <> t -> (forall e, In e E -> In (fst e) V /\ In (snd e) V) ->
  forall r, incl (pairs (s :: r ++ [t])) (aug_edges V E S T s t) ->
    r <> [] /\ (forall v, In v r -> In v V) /\ incl (pairs r) E /\
    is_start E S (hd s r) = true /\ is_end E T (last r s) = true.
Proof. exact aug_route_valid. Qed.
Print Assumptions C01_stripped_walk_is_route_of_callers_graph.

(* DAG models: every layer of every assignment satisfying the generated path rows decodes to ONE
   simple route of the caller's graph (decoder = first successor with value 1, fuel |rank|+1) *)
Theorem C01_dag_layer_decodes_to_simple_route :
  forall (V : list node) (E : list edge) (S T : list node)
         (G : stgraph) (k : nat) (a : var -> Q) (rank : node -> nat) (Rm : nat) (i : N),
  let s := g_src G in let t := g_snk G in
  ~ In s V -> ~ In t V ->
  (forall e, In e E -> In (fst e) V /\ In (snd e) V) ->
  (forall e, In e (g_edges G) <-> In e (aug_edges V E S T s t)) ->
  wf_graph G ->
  (forall u v, In (u, v) (g_edges G) -> (rank u < rank v)%nat) -> (forall v, (rank v <= Rm)%nat) ->
  Forall (sat_col a) (edge_cols G k) -> Forall (sat_row a) (path_rows G k false) ->
  In i (layers k) ->
  exists p, decode (g_edges G) (xval a i) t (Datatypes.S Rm) s = Some p /\
    let r := removelast p in
    p = r ++ [t] /\ r <> [] /\ NoDup r /\
    (forall v, In v r -> In v V) /\ incl (pairs r) E /\
    is_start E S (hd s r) = true /\ is_end E T (last r s) = true /\
    Permutation (Sup (g_edges G) (xval a i)) (pairs (s :: p)).
Proof. exact dag_layer_route_valid. Qed.
Print Assumptions C01_dag_layer_decodes_to_simple_route.

(* cyclic models: the reconstruction hands out one walk s .. t over exactly the decided multiset
   (C14); composed with C01_stripped_walk_is_route_of_callers_graph it is a route of the caller's graph *)
Theorem C01_walk_reconstruction_is_one_walk : forall (es : list (Euler.edge * Q)) (s t : node),
  let g0 := residual_q es in
  s <> t ->
  exc g0 s = 1%Z -> exc g0 t = (-1)%Z -> (forall x, x <> s -> x <> t -> exc g0 x = 0%Z) ->
  (forall a b, In (a, b) g0 -> reach g0 s a) ->
  exists w', solution_walk es s t = Some (O, w') /\
             Permutation g0 (pairs (s :: w' ++ [t])) /\
             (forall e, count_e e (pairs (s :: w' ++ [t])) = count_e e g0).
Proof. exact solution_walk_correct. Qed.
Print Assumptions C01_walk_reconstruction_is_one_walk.

(* non-vacuity: a diamond with an additional start *)
Example C01_nonvacuous :
  aug_edges [1; 2; 3; 4]%N [(1, 2); (1, 3); (2, 4); (3, 4)]%N [3%N] [] 10%N 11%N =
  [(1, 2); (1, 3); (2, 4); (3, 4); (10, 1); (10, 3); (4, 11)]%N.
Proof. vm_compute. reflexivity. Qed.

(* the checker that decides C01 on every answer of the implementation (engine c01, E2v) *)
From FP Require Import Checkers CheckersProofs.
Theorem C01_route_checker_decides_the_route_predicate : forall V E S T simple r,
  valid_route_b V E S T simple r = true <->
  r <> [] /\ (forall v, In v r -> In v V) /\ incl (pairs r) E /\
  is_start E S (hd 0%N r) = true /\ is_end E T (last r 0%N) = true /\ (simple = true -> NoDup r).
Proof. exact valid_route_b_correct. Qed.
Print Assumptions C01_route_checker_decides_the_route_predicate.
