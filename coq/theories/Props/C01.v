(* C01 — returned paths/walks are real source-to-sink routes of the caller's graph.
   Only property theorems (closed by [exact]) + assumptions + non-vacuity. *)
From Coq Require Import List NArith ZArith QArith Bool Arith Lia Permutation.
Import ListNotations.
From FP Require Import Lin Blocks BlocksProofs PathEnc Aug AugProofs Euler EulerProofs1 EulerProofs2 EulerProofs3 EulerProofs4
                       DagDecode PathEncProofs RouteProofs.
Local Close Scope Q_scope.

(* the augmented graph: exactly the documented attachment of the synthetic source and sink *)
Theorem C01_source_attached_exactly_to_starts : forall (V : list node) (E : list edge) (S T : list node) (s t : node),
  ~ In s V -> s <> t -> (forall e, In e E -> In (fst e) V /\ In (snd e) V) ->
  forall u, In (s, u) (aug_edges V E S T s t) <-> In u V /\ is_start E S u = true.
Proof. exact aug_spec_source. Qed.
Print Assumptions C01_source_attached_exactly_to_starts.

Theorem C01_sink_attached_exactly_to_ends : forall (V : list node) (E : list edge) (S T : list node) (s t : node),
  ~ In t V -> s <> t -> (forall e, In e E -> In (fst e) V /\ In (snd e) V) ->
  forall u, In (u, t) (aug_edges V E S T s t) <-> In u V /\ is_end E T u = true.
Proof. exact aug_spec_sink. Qed.
Print Assumptions C01_sink_attached_exactly_to_ends.

Theorem C01_no_other_edge_added : forall (V : list node) (E : list edge) (S T : list node) (s t : node) (a b : node),
  a <> s -> b <> t -> (In (a, b) (aug_edges V E S T s t) <-> In (a, b) E).
Proof. exact aug_spec_inner. Qed.
Print Assumptions C01_no_other_edge_added.

(* any s-t walk of the augmented graph, stripped of s and t, is a route of the caller's graph *)
Theorem C01_stripped_walk_is_route_of_callers_graph : forall (V : list node) (E : list edge) (S T : list node) (s t : node),
  ~ In s V -> ~ In t V -> s <> t -> (forall e, In e E -> In (fst e) V /\ In (snd e) V) ->
  forall r, incl (pairs (s :: r ++ [t])) (aug_edges V E S T s t) ->
    r <> [] /\ (forall v, In v r -> In v V) /\ incl (pairs r) E /\
    is_start E S (hd s r) = true /\ is_end E T (last r s) = true.
Proof. exact aug_route_valid. Qed.
Print Assumptions C01_stripped_walk_is_route_of_callers_graph.

(* DAG models: every layer of every assignment satisfying the generated path rows decodes to ONE
   simple route of the caller's graph (decoder = first successor with value 1, fuel |rank|+1) *)
Theorem C01_dag_layer_decodes_to_simple_route :
  forall (V : list node) (E : list edge) (S T : list node)
         (G : stgraph) (k : nat) (a : var -> Q) (rank : node -> nat) (Rm : nat) (i : N),
  let s := g_src G in let t := g_snk G in
  ~ In s V -> ~ In t V ->
  (forall e, In e E -> In (fst e) V /\ In (snd e) V) ->
  (forall e, In e (g_edges G) <-> In e (aug_edges V E S T s t)) ->
  wf_graph G ->
  (forall u v, In (u, v) (g_edges G) -> (rank u < rank v)%nat) -> (forall v, (rank v <= Rm)%nat) ->
  Forall (sat_col a) (edge_cols G k) -> Forall (sat_row a) (path_rows G k false) ->
  In i (layers k) ->
  exists p, decode (g_edges G) (xval a i) t (Datatypes.S Rm) s = Some p /\
    let r := removelast p in
    p = r ++ [t] /\ r <> [] /\ NoDup r /\
    (forall v, In v r -> In v V) /\ incl (pairs r) E /\
    is_start E S (hd s r) = true /\ is_end E T (last r s) = true /\
    Permutation (Sup (g_edges G) (xval a i)) (pairs (s :: p)).
Proof. exact dag_layer_route_valid. Qed.
Print Assumptions C01_dag_layer_decodes_to_simple_route.

(* cyclic models: the reconstruction hands out one walk s .. t over exactly the decided multiset
   (C14); composed with C01_stripped_walk_is_route_of_callers_graph it is a route of the caller's graph *)
Theorem C01_walk_reconstruction_is_one_walk : forall (es : list (Euler.edge * Q)) (s t : node),
  let g0 := residual_q es in
  s <> t ->
  exc g0 s = 1%Z -> exc g0 t = (-1)%Z -> (forall x, x <> s -> x <> t -> exc g0 x = 0%Z) ->
  (forall a b, In (a, b) g0 -> reach g0 s a) ->
  exists w', solution_walk es s t = Some (O, w') /\
             Permutation g0 (pairs (s :: w' ++ [t])) /\
             (forall e, count_e e (pairs (s :: w' ++ [t])) = count_e e g0).
Proof. exact solution_walk_correct. Qed.
Print Assumptions C01_walk_reconstruction_is_one_walk.

(* non-vacuity: a diamond with an additional start *)
Example C01_nonvacuous :
  aug_edges [1; 2; 3; 4]%N [(1, 2); (1, 3); (2, 4); (3, 4)]%N [3%N] [] 10%N 11%N =
  [(1, 2); (1, 3); (2, 4); (3, 4); (10, 1); (10, 3); (4, 11)]%N.
Proof. vm_compute. reflexivity. Qed.

(* the checker that decides C01 on every answer of the implementation (engine c01, E2v) *)
From FP Require Import Checkers CheckersProofs.
Theorem C01_route_checker_decides_the_route_predicate : forall V E S T simple r,
  valid_route_b V E S T simple r = true <->
  r <> [] /\ (forall v, In v r -> In v V) /\ incl (pairs r) E /\
  is_start E S (hd 0%N r) = true /\ is_end E T (last r 0%N) = true /\ (simple = true -> NoDup r).
Proof. exact valid_route_b_correct. Qed.
Print Assumptions C01_route_checker_decides_the_route_predicate.

(* ---- audit: instances of exactly the hypotheses of the theorems above ---- *)
(* the augmentation theorems on the diamond with an additional start: hypotheses and both directions of the characterisation *)
Example C01_augmentation_hypotheses_hold :
  let V := [1; 2; 3; 4]%N in let E := [(1, 2); (1, 3); (2, 4); (3, 4)]%N in
  ~ In 10%N V /\ ~ In 11%N V /\ 10%N <> 11%N /\ (forall e, In e E -> In (fst e) V /\ In (snd e) V) /\
  (In (10, 3)%N (aug_edges V E [3%N] [] 10%N 11%N) /\ is_start E [3%N] 3%N = true) /\
  (~ In (10, 2)%N (aug_edges V E [3%N] [] 10%N 11%N) /\ is_start E [3%N] 2%N = false) /\
  (* a walk of the augmented graph through the additional start, stripped: a route of the caller's graph *)
  incl (pairs (10 :: [3; 4] ++ [11]))%N (aug_edges V E [3%N] [] 10%N 11%N).
Proof.
  cbv zeta. split; [cbn; intuition discriminate|]. split; [cbn; intuition discriminate|]. split; [discriminate|].
  split. { intros e He. cbn in He. repeat (destruct He as [<-|He]; [cbn; tauto|]). destruct He. }
  split; [split; [vm_compute; tauto|vm_compute; reflexivity]|].
  split; [split; [vm_compute; intuition discriminate|vm_compute; reflexivity]|].
  intros e He. vm_compute in He. vm_compute. tauto.
Qed.
Print Assumptions C01_augmentation_hypotheses_hold.

(* C01_dag_layer_decodes_to_simple_route: the diamond exG of PathEncExample is the augmentation of the caller's graph with the two
   isolated nodes 1, 2 (each a start and an end); with a satisfying assignment of its kFlowDecomp LP (k = 2) every hypothesis holds *)
From FP Require Import PathEncExample.
Example C01_dag_layer_hypotheses_hold : exists a : var -> Q,
  ~ In (g_src exG) [1; 2]%N /\ ~ In (g_snk exG) [1; 2]%N /\
  (forall e, In e (@nil edge) -> In (fst e) [1; 2]%N /\ In (snd e) [1; 2]%N) /\
  (forall e, In e (g_edges exG) <-> In e (aug_edges [1; 2]%N [] [] [] (g_src exG) (g_snk exG))) /\
  wf_graph exG /\ (forall u v, In (u, v) (g_edges exG) -> (exRank u < exRank v)%nat) /\ (forall v, (exRank v <= 3)%nat) /\
  Forall (sat_col a) (edge_cols exG 2) /\ Forall (sat_row a) (path_rows exG 2 false) /\ In 0%N (layers 2) /\
  exists p, decode (g_edges exG) (xval a 0%N) (g_snk exG) 4 (g_src exG) = Some p /\ removelast p <> [] /\
            (forall v, In v (removelast p) -> In v [1; 2]%N).
Proof.
  destruct ex_lp_feasible_2 as (a & Hsat). exists a.
  assert (H1 : ~ In (g_src exG) [1; 2]%N) by (cbn; intuition discriminate).
  assert (H2 : ~ In (g_snk exG) [1; 2]%N) by (cbn; intuition discriminate).
  assert (H3 : forall e, In e (@nil edge) -> In (fst e) [1; 2]%N /\ In (snd e) [1; 2]%N) by (intros e []).
  assert (H4 : forall e, In e (g_edges exG) <-> In e (aug_edges [1; 2]%N [] [] [] (g_src exG) (g_snk exG))) by (intros e; vm_compute; tauto).
  pose proof (proj1 (kfd_cols_sat (exI 2) a Hsat)) as Hc. pose proof (proj1 (kfd_rows_sat (exI 2) a Hsat)) as Hr.
  assert (Hi : In 0%N (layers 2)) by (vm_compute; tauto).
  repeat (split; [first [assumption | exact ex_wf | exact ex_rank | exact ex_rank_le]|]).
  destruct (C01_dag_layer_decodes_to_simple_route [1; 2]%N [] [] [] exG 2 a exRank 3 0%N H1 H2 H3 H4 ex_wf ex_rank ex_rank_le Hc Hr Hi)
    as (p & Hd & _ & Hne & _ & HV & _).
  exists p. split; [exact Hd|]. split; assumption.
Qed.
Print Assumptions C01_dag_layer_hypotheses_hold.

(* C01_walk_reconstruction_is_one_walk: the multigraph of C14's example (nested closed walks, a triple self-loop) meets the hypotheses *)
Example C01_walk_reconstruction_hypotheses_hold :
  let es := map (fun '(u, v, m) => ((u, v), inject_Z (Z.of_nat m))) ex_edges in
  let g0 := residual_q es in
  5%N <> 6%N /\ exc g0 5%N = 1%Z /\ exc g0 6%N = (-1)%Z /\ forallb (fun x => (exc g0 x =? 0)%Z) [0; 1; 2; 3; 4]%N = true /\
  solution_walk es 5%N 6%N = Some (O, [0; 1; 2; 1; 2; 3; 2; 3; 2; 1; 1; 1; 1; 4]%N).
Proof. vm_compute. repeat split; try reflexivity; discriminate. Qed.
Print Assumptions C01_walk_reconstruction_hypotheses_hold.

(* degenerate inputs, made explicit: r = [] is not a route (the conclusion r <> [] of C01_stripped_walk_is_route_of_callers_graph is
   what makes the defaults of [hd] / [last] irrelevant); the route checker rejects the empty route and a route leaving the graph *)
Example C01_degenerate_routes_are_rejected :
  valid_route_b [1; 2]%N [(1, 2)]%N [] [] true [] = false /\ valid_route_b [1; 2]%N [(1, 2)]%N [] [] true [1; 3]%N = false /\
  valid_route_b [1; 2]%N [(1, 2)]%N [] [] true [1; 2]%N = true /\
  ~ incl (pairs (10 :: [] ++ [11]))%N (aug_edges [1; 2]%N [(1, 2)]%N [] [] 10%N 11%N).
Proof. repeat split; try (vm_compute; reflexivity). intros H. specialize (H (10, 11)%N (or_introl eq_refl)). vm_compute in H. intuition discriminate. Qed.
Print Assumptions C01_degenerate_routes_are_rejected.
