(* C04 — kFlowDecompCycles / MinFlowDecompCycles for NODE-weighted input, in the caller's terms (NodeWalkE2E.v).  Only Theorem / exact /
   Print Assumptions and a non-vacuity Example.  The caller's digraph may have cycles and self-loops; S, T are additional starts / ends.
   node_walk_decomposition k Pn wt: Pn 0 .. Pn (k-1) are walks of the graph (DilworthNode.nwalk V E S T), wt non-negative weights of the
   requested type, and for every non-ignored node v  sum_i wt i * visits v (Pn i) = fq v.  node_admissible adds "within the caps the
   model gives the expanded edges" (C04_node_caps_reading spells them out: weights at most w_max = k * weight_type(largest non-ignored
   node weight); visits of v at most the cap of the node edge (v.0,v.1): v's own weight inside an SCC of the expansion, 1 outside;
   traversals of an edge (u,v) at most the cap of the connecting edge (u.1,v.0): the default w_max inside an SCC - connecting edges
   carry no weight - and 1 outside; weight * visits at most w_max).  node_kfdc_inst: the instance node mode hands to the walk model
   (node expansion v.0 = 2v, v.1 = 2v+1, a self-loop at v becomes the cycle v.0 -> v.1 -> v.0; default options; the code as it is,
   c_scale_free = false). *)
From Coq Require Import List NArith ZArith QArith Bool Arith Lia.
Import ListNotations.
From FP Require Import Lin PathEnc WalkEncRows WalkEncIff WalkSearch DilworthNode NodeWalkE2E.

(* visits of v = traversals of the node edge of v; traversals of (u,v) = traversals of the connecting edge *)
Theorem C04_node_visits_are_node_edge_traversals : forall (s t v : node) (p : list node), p <> [] ->
  WalkTree.multz (EulerProofs1.pairs (s :: expand p ++ [t])) (nedge v) = visits v p.
Proof. exact mult_nedge. Qed.
Print Assumptions C04_node_visits_are_node_edge_traversals.

Theorem C04_node_walk_decomposition_iff : forall (V : list node) (E : list PathEnc.edge) (S T : list node) (s t : node) (Wn : list node)
    (fq : node -> Q) (ign : list node) (isint : bool),
  ~ In s (expV V) -> ~ In t (expV V) -> s <> t -> (forall e, In e E -> In (fst e) V /\ In (snd e) V) ->
  (forall v, In v V -> ~ In v ign -> In v Wn) ->
  forall k, (exists P wt, admissible (node_kfdc_inst V E S T s t Wn fq ign isint k) P wt) <->
            (exists Pn wt, node_admissible V E S T s t Wn fq ign isint k Pn wt).
Proof. exact node_walk_decomposition_iff. Qed.
Print Assumptions C04_node_walk_decomposition_iff.

Theorem C04_node_k_model_feasible_iff : forall (V : list node) (E : list PathEnc.edge) (S T : list node) (s t : node) (Wn : list node)
    (fq : node -> Q) (ign : list node) (isint : bool),
  ~ In s (expV V) -> ~ In t (expV V) -> s <> t -> (forall e, In e E -> In (fst e) V /\ In (snd e) V) -> NoDup V -> NoDup E ->
  (forall v, In v V -> ~ In v ign -> In v Wn) ->
  forall k, (exists a, sat a (encode_kfdc (node_kfdc_inst V E S T s t Wn fq ign isint k))) <->
            (exists Pn wt, node_admissible V E S T s t Wn fq ign isint k Pn wt).
Proof. exact node_kfdc_feasible_iff. Qed.
Print Assumptions C04_node_k_model_feasible_iff.

Theorem C04_node_caps_reading : forall (V : list node) (E : list PathEnc.edge) (S T : list node) (s t : node) (Wn : list node)
    (fq : node -> Q) (ign : list node) (isint : bool),
  ~ In s (expV V) -> ~ In t (expV V) -> (forall e, In e E -> In (fst e) V /\ In (snd e) V) ->
  forall k Pn wt, node_walks V E S T k Pn -> node_within_caps V E S T s t Wn fq ign isint k Pn wt ->
  let I := node_kfdc_inst V E S T s t Wn fq ign isint k in
  (forall i, In i (layers k) -> (wt i <= kfdc_wmax I)%Q) /\
  (forall i v, In i (layers k) -> In v V -> (inject_Z (visits v (Pn i)) <= cap (kfdc_walk I) (nedge v))%Q) /\
  (forall i e, In i (layers k) -> In e E -> (inject_Z (traversals e (Pn i)) <= cap (kfdc_walk I) (cn e))%Q) /\
  (forall i v, In i (layers k) -> In v (ncount V ign) -> (wt i * inject_Z (visits v (Pn i)) <= kfdc_wmax I)%Q).
Proof. exact node_caps_reading. Qed.
Print Assumptions C04_node_caps_reading.

(* MinFlowDecompCycles in node mode returns the least number of walks of an admissible node walk decomposition (solver spec) *)
Theorem C04_node_mfdc_returns_minimum_within_caps :
  forall (V : list node) (E : list PathEnc.edge) (S T : list node) (s t : node) (Wn : list node) (fq : node -> Q) (ign : list node) (isint : bool)
         (out : nat -> outcome) (tout : nat -> bool) (lb nE kmin : nat),
  ~ In s (expV V) -> ~ In t (expV V) -> s <> t -> (forall e, In e E -> In (fst e) V /\ In (snd e) V) -> NoDup V -> NoDup E ->
  (forall v, In v V -> ~ In v ign -> In v Wn) ->
  (forall j, out j = Optimal <-> exists a, sat a (encode_kfdc (node_kfdc_inst V E S T s t Wn fq ign isint j))) ->
  (forall j, out j = Infeasible <-> ~ exists a, sat a (encode_kfdc (node_kfdc_inst V E S T s t Wn fq ign isint j))) ->
  (forall j, tout j = false) ->
  (exists Pn wt, node_admissible V E S T s t Wn fq ign isint kmin Pn wt) ->
  (forall j, (j < kmin)%nat -> ~ exists Pn wt, node_admissible V E S T s t Wn fq ign isint j Pn wt) ->
  (lb <= kmin <= nE)%nat ->
  mfdc_solve out tout None lb nE = Solved kmin.
Proof. exact node_mfdc_returns_minimum_within_caps. Qed.
Print Assumptions C04_node_mfdc_returns_minimum_within_caps.

(* non-vacuity: 1 -> 2 -> 3 with a self-loop at 2 and node weights 2, 6, 2: the single walk 1 2 2 2 3 of weight 2 (three visits of node 2,
   two traversals of the self-loop) is an admissible node walk decomposition with 1 walk; there is none with 0 walks *)
Example C04_node_self_loop_instance :
  NoDup lxV /\ NoDup lxE /\ (forall e, In e lxE -> In (fst e) lxV /\ In (snd e) lxV) /\
  ~ In 100%N (expV lxV) /\ ~ In 101%N (expV lxV) /\ 100%N <> 101%N /\ (forall v, In v lxV -> ~ In v [] -> In v lxV) /\
  node_admissible lxV lxE [] [] 100%N 101%N lxV lxfq [] false 1 lxPn lxw /\
  visits 2%N (lxPn 0%N) = 3%Z /\ traversals (2, 2)%N (lxPn 0%N) = 2%Z /\
  ~ (exists Pn wt, node_admissible lxV lxE [] [] 100%N 101%N lxV lxfq [] false 0 Pn wt).
Proof. exact lx_premises. Qed.
Print Assumptions C04_node_self_loop_instance.
