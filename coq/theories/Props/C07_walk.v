(* C07 on digraphs with cycles — kLeastAbsErrorsCycles.
   Model: WalkErrEnc.encode_klae_cycles = the LP the class hands to the solver (walk block, safety rows, subset
   constraints of WalkEncRows + Pi/W/Err columns, the three product encodings, 9aa/9ab, scaled objective; repetition
   caps = stDiGraph.compute_edge_max_reachable_value as the code passes them), tied by E1 (section E1_cycles of the
   C07 engine).  Soundness: every satisfying assignment is k source-to-sink walks with weights of the requested type
   whose error variables dominate |f(e) - sum_i w_i * mult_i(e)| on every non-ignored edge; the objective is the
   scaled sum of the error variables.  (Completeness is not claimed: the caps are the code's, see the open findings
   cycles_rep_cap_from_reachable_max / cycles_products_bounded_by_wmax.) *)
From Coq Require Import List NArith ZArith QArith Bool Arith Lia Permutation.
Import ListNotations.
From FP Require Import Lin Blocks BlocksProofs PathEnc PathEncProofs Euler EulerProofs1 EulerProofs4 WalkDecode
                       SatCheck WalkEncRows WalkEncRowsProofs WalkExamples WalkErrEnc WalkErrEncProofs WalkErrExamples WalkTree WalkEncComplete WalkEncIff WalkCoverIff WalkErrComplete WalkErrIff WalkChecked.
Local Close Scope Q_scope.

Theorem C07_walk_lp_solution_is_k_walks_with_dominating_errors : forall (I : werr_inst) (a : var -> Q),
  let G := x_graph I in let k := x_k I in
  let E := g_edges G in let s := g_src G in let t := g_snk G in
  wf_stg G -> o_allow_empty (x_opts I) = false ->
  sat a (encode_klae_cycles I) ->
  (forall i, In i (layers k) ->
     exists w, reconstruct (resid E (xint a i)) s = Some ([], w) /\ hd_error w = Some s /\ last w s = t /\
               (forall e, In e E -> count_e e (pairs w) = Z.to_nat (xint a i e) /\ (0 <= xint a i e)%Z) /\
               (forall e, ~ In e E -> count_e e (pairs w) = 0%nat)) /\
  (forall i, In i (layers k) -> (0 <= a (W i) <= x_wmax I)%Q /\ (x_int I = true -> is_int (a (W i)))) /\
  (forall e, In e (x_basic I) ->
     let expl := sumq (fun i => (a (W i) * inject_Z (xint a i e))%Q) (layers k) in
     (xflow I e - expl <= a (errvar e))%Q /\ (expl - xflow I e <= a (errvar e))%Q) /\
  (objective a (encode_klae_cycles I) == sumq (fun e => xscale I e * a (errvar e)) (x_basic I))%Q.
Proof. exact klaec_sound. Qed.
Print Assumptions C07_walk_lp_solution_is_k_walks_with_dominating_errors.

(* per-edge statement alone (no well-formedness of the graph needed) *)
Theorem C07_walk_error_variable_dominates_deviation : forall (I : werr_inst) (a : var -> Q),
  sat a (encode_klae_cycles I) -> forall e, In e (x_basic I) ->
  let expl := sumq (fun i => (a (W i) * inject_Z (xint a i e))%Q) (layers (x_k I)) in
  (xflow I e - expl <= a (errvar e))%Q /\ (expl - xflow I e <= a (errvar e))%Q.
Proof. exact klaec_err_dominates. Qed.
Print Assumptions C07_walk_error_variable_dominates_deviation.

Theorem C07_walk_objective_is_scaled_error_sum : forall (I : werr_inst) (a : var -> Q),
  (objective a (encode_klae_cycles I) == sumq (fun e => xscale I e * a (errvar e)) (x_basic I))%Q.
Proof. exact klaec_objective. Qed.
Print Assumptions C07_walk_objective_is_scaled_error_sum.

(* the error columns exist exactly for the edges that are neither source/sink edges, nor ignored, nor scaled by 0 *)
Theorem C07_walk_error_columns : forall I e, In e (x_basic I) <->
  In e (g_edges (x_graph I)) /\ mem_edge e (x_ign_all I) = false.
Proof. exact x_basic_spec. Qed.
Print Assumptions C07_walk_error_columns.


(* completeness within the caps of the model and the resulting characterisation: the LP of kLeastAbsErrorsCycles is
   feasible exactly when k source-to-sink walks with weights of the requested type and error values exist such that
   multiplicities, weights and products respect the caps the class uses (repetition cap = compute_edge_max_reachable_value
   inside SCCs, 1 outside; w_max; bit width), the safety fixing is respected, the subset constraints are realised and
   the error values dominate |f(e) - sum_i w_i * mult_i(e)| on every non-ignored edge (klaec_admissible, WalkErrIff.v) *)
Theorem C07_walk_lp_feasible_iff_admissible : forall (I : werr_inst),
  wf_stg (x_graph I) -> o_allow_empty (x_opts I) = false -> winputs_ok (werr_walk I) ->
  ((exists a, sat a (encode_klae_cycles I)) <-> (exists P wt err, klaec_admissible I P wt err)).
Proof. exact klaec_feasible_iff_within_caps. Qed.
Print Assumptions C07_walk_lp_feasible_iff_admissible.

Theorem C07_walk_lp_feasible_iff_admissible_checked : forall (I : werr_inst),
  wf_stg_b (x_graph I) = true -> winputs_ok_b (werr_walk I) = true -> o_allow_empty (x_opts I) = false ->
  ((exists a, sat a (encode_klae_cycles I)) <-> (exists P wt err, klaec_admissible I P wt err)).
Proof. exact klaec_feasible_iff_checked. Qed.
Print Assumptions C07_walk_lp_feasible_iff_admissible_checked.

Example C07_walk_admissible_nonvacuous :
  klaec_admissible loop_err_inst (fun _ => [1; 0; 0; 2]%N) (fun _ => 1%Q) (fun _ => 1%Q).
Proof.
  split; [split; [|split; [|split; [|split; [|split; [|split]]]]]|].
  - intros i _. split; [reflexivity|]. split; [reflexivity|]. intros e He. cbn in He. cbn. tauto.
  - intros i _. split; [vm_compute; split; discriminate|]. intros _. exists 1%Z. reflexivity.
  - intros i e _ He. cbn in He. destruct He as [<-|[<-|[<-|[]]]]; vm_compute; discriminate.
  - intros i e _ He _. rewrite loop_err_basic in He. destruct He as [<-|[]]. vm_compute. reflexivity.
  - intros i e _ He. rewrite loop_err_basic in He. destruct He as [<-|[]]. vm_compute. discriminate.
  - split; [intros e i H|intros e i m H]; vm_compute in H; destruct H.
  - intros j c H. cbn in H. destruct j; discriminate.
  - intros e He. rewrite loop_err_basic in He. destruct He as [<-|[]].
    split; [vm_compute; split; discriminate|]. split; [intros _; exists 1%Z; reflexivity|]. vm_compute. split; discriminate.
Qed.

(* non-vacuity: the premises are satisfiable, with a non-zero error *)
Example C07_walk_premises_satisfiable :
  wf_stg (x_graph loop_err_inst) /\ o_allow_empty (x_opts loop_err_inst) = false /\
  sat loop_klae_sol (encode_klae_cycles loop_err_inst) /\ x_basic loop_err_inst = [(0, 0)%N] /\
  xint loop_klae_sol 0%N (0, 0)%N = 1%Z /\ (loop_klae_sol (errvar (0, 0)%N) == 1)%Q.
Proof.
  split; [exact loopG_wf|]. split; [reflexivity|]. split; [exact loop_klae_feasible|]. split; [exact loop_err_basic|].
  split; vm_compute; reflexivity.
Qed.
