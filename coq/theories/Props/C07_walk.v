(* C07 on digraphs with cycles — kLeastAbsErrorsCycles.
   Model: WalkErrEnc.encode_klae_cycles = the LP the class hands to the solver (walk block, safety rows, subset
   constraints of WalkEncRows + Pi/W/Err columns, the three product encodings, 9aa/9ab, scaled objective; repetition
   caps = stDiGraph.compute_edge_max_reachable_value as the code passes them), tied by E1 (section E1_cycles of the
   C07 engine).  Soundness: every satisfying assignment is k source-to-sink walks with weights of the requested type
   whose error variables dominate |f(e) - sum_i w_i * mult_i(e)| on every non-ignored edge; the objective is the
   scaled sum of the error variables.  Completeness and optimality are proved WITHIN THE CAPS of the encoder (repetition caps, bit width, product bound,
   error-column bound: see the theorems at the end); beyond the caps they are false of the code (open findings
   cycles_rep_cap_from_reachable_max / cycles_products_bounded_by_wmax). *)
From Coq Require Import List NArith ZArith QArith Bool Arith Lia Permutation.
Import ListNotations.
From FP Require Import Lin Blocks BlocksProofs PathEnc PathEncProofs Euler EulerProofs1 EulerProofs4 WalkDecode
                       SatCheck WalkEncRows WalkEncRowsProofs WalkExamples WalkErrEnc WalkErrEncProofs WalkErrExamples
                       WalkTree WalkEncComplete WalkCoverIff WalkErrComplete WalkErrOptimal WalkErrOptExamples
                       Dilworth WalkWidth WalkErrWidth WalkErrWidthExamples.
Local Close Scope Q_scope.

Theorem C07_walk_lp_solution_is_k_walks_with_dominating_errors : forall (I : werr_inst) (a : var -> Q),
  let G := x_graph I in let k := x_k I in
  let E := g_edges G in let s := g_src G in let t := g_snk G in
  wf_stg G -> o_allow_empty (x_opts I) = false ->
  sat a (encode_klae_cycles I) ->
  (forall i, In i (layers k) ->
     exists w, reconstruct (resid E (xint a i)) s = Some ([], w) /\ hd_error w = Some s /\ last w s = t /\
               (forall e, In e E -> count_e e (pairs w) = Z.to_nat (xint a i e) /\ (0 <= xint a i e)%Z) /\
               (forall e, ~ In e E -> count_e e (pairs w) = 0%nat)) /\
  (forall i, In i (layers k) -> (0 <= a (W i) <= x_wmax I)%Q /\ (x_int I = true -> is_int (a (W i)))) /\
  (forall e, In e (x_basic I) ->
     let expl := sumq (fun i => (a (W i) * inject_Z (xint a i e))%Q) (layers k) in
     (xflow I e - expl <= a (errvar e))%Q /\ (expl - xflow I e <= a (errvar e))%Q) /\
  (objective a (encode_klae_cycles I) == sumq (fun e => xscale I e * a (errvar e)) (x_basic I))%Q.
Proof. exact klaec_sound. Qed.
Print Assumptions C07_walk_lp_solution_is_k_walks_with_dominating_errors.

(* per-edge statement alone (no well-formedness of the graph needed) *)
Theorem C07_walk_error_variable_dominates_deviation : forall (I : werr_inst) (a : var -> Q),
  sat a (encode_klae_cycles I) -> forall e, In e (x_basic I) ->
  let expl := sumq (fun i => (a (W i) * inject_Z (xint a i e))%Q) (layers (x_k I)) in
  (xflow I e - expl <= a (errvar e))%Q /\ (expl - xflow I e <= a (errvar e))%Q.
Proof. exact klaec_err_dominates. Qed.
Print Assumptions C07_walk_error_variable_dominates_deviation.

Theorem C07_walk_objective_is_scaled_error_sum : forall (I : werr_inst) (a : var -> Q),
  (objective a (encode_klae_cycles I) == sumq (fun e => xscale I e * a (errvar e)) (x_basic I))%Q.
Proof. exact klaec_objective. Qed.
Print Assumptions C07_walk_objective_is_scaled_error_sum.

(* the error columns exist exactly for the edges that are neither source/sink edges, nor ignored, nor scaled by 0 *)
Theorem C07_walk_error_columns : forall I e, In e (x_basic I) <->
  In e (g_edges (x_graph I)) /\ mem_edge e (x_ign_all I) = false.
Proof. exact x_basic_spec. Qed.
Print Assumptions C07_walk_error_columns.

(* non-vacuity: the premises are satisfiable, with a non-zero error *)
Example C07_walk_premises_satisfiable :
  wf_stg (x_graph loop_err_inst) /\ o_allow_empty (x_opts loop_err_inst) = false /\
  sat loop_klae_sol (encode_klae_cycles loop_err_inst) /\ x_basic loop_err_inst = [(0, 0)%N] /\
  xint loop_klae_sol 0%N (0, 0)%N = 1%Z /\ (loop_klae_sol (errvar (0, 0)%N) == 1)%Q.
Proof.
  split; [exact loopG_wf|]. split; [reflexivity|]. split; [exact loop_klae_feasible|]. split; [exact loop_err_basic|].
  split; vm_compute; reflexivity.
Qed.

(* ------------------------------------------------------------------ completeness and optimality within the caps *)
(* klaec_admissible I P wt  (WalkErrOptimal.v) =  k source-to-sink walks P whose multiplicities respect the repetition caps
   the encoder uses (largest reachable weight inside SCCs, 1 outside), its safety fixing and subset constraints (werr_family);
   weights in [0, w_max] of the requested type; multiplicities on non-ignored edges below 2^bits(w_max) where the product is
   bit-expanded; weight*multiplicity <= w_max; absolute deviation <= w_max (bound of the error column). *)
Theorem C07_walk_complete_within_caps : forall (I : werr_inst) (P : N -> list node) (wt : N -> Q),
  wf_stg (x_graph I) -> werr_domain I -> klaec_admissible I P wt ->
  exists a, sat a (encode_klae_cycles I) /\ (objective a (encode_klae_cycles I) == klaec_cost I P wt)%Q /\
            (forall i, a (W i) = wt i) /\ (forall e i, a (evar e i) = inject_Z (mult P i e)).
Proof. exact klaec_complete. Qed.
Print Assumptions C07_walk_complete_within_caps.

(* the general form: any error values that dominate the deviation within the column bound *)
Theorem C07_walk_complete_with_dominating_errors : forall (I : werr_inst) (P : N -> list node) (wt sl : N -> Q)
    (er : PathEnc.edge -> Q) (ch : N -> N),
  wf_stg (x_graph I) -> wwalks (werr_walk I) P -> wwithin_caps (werr_walk I) P -> wrespects_fixing (werr_walk I) P ->
  (forall j c, nth_error (all_cons (werr_walk I)) j = Some c ->
      In (ch (N.of_nat j)) (layers (x_k I)) /\
      (qnat (length (nodup_e c)) * w_cov (werr_walk I) <= sumq (usedq P (ch (N.of_nat j))) (nodup_e c))%Q) ->
  werr_typed I wt -> werr_bits_cap I P -> werr_prod_cap I P wt ->
  (forall e, In e (x_basic I) ->
    (Qabs.Qabs (xflow I e - xexpl I P wt e) <= er e <= x_wmax I)%Q /\ (x_int I = true -> is_int (er e))) ->
  sat (xasg I P wt sl er ch) (encode_klae_cycles I) /\
  (objective (xasg I P wt sl er ch) (encode_klae_cycles I) == sumq (fun e => xscale I e * er e) (x_basic I))%Q.
Proof. exact klaec_complete_sat. Qed.
Print Assumptions C07_walk_complete_with_dominating_errors.

(* every satisfying assignment decodes to an admissible family whose deviations are dominated by the error variables *)
Theorem C07_walk_decodes_within_caps : forall (I : werr_inst) (a : var -> Q),
  wf_stg (x_graph I) -> o_allow_empty (x_opts I) = false -> winputs_ok (werr_walk I) -> sat a (encode_klae_cycles I) ->
  klaec_admissible I (Pofw (werr_walk I) a) (fun i => a (W i)) /\
  (forall e, In e (x_basic I) -> (klaec_dev I (Pofw (werr_walk I) a) (fun i => a (W i)) e <= a (errvar e))%Q).
Proof. exact klaec_decodes. Qed.
Print Assumptions C07_walk_decodes_within_caps.

(* relative to the solver specification: the objective of an optimal satisfying assignment is the LEAST total scaled absolute
   error over all admissible families (caps visible in klaec_admissible) *)
Theorem C07_walk_optimal_within_caps : forall (I : werr_inst) (a : var -> Q),
  wf_stg (x_graph I) -> o_allow_empty (x_opts I) = false -> werr_domain I ->
  sat a (encode_klae_cycles I) ->
  (forall b, sat b (encode_klae_cycles I) -> (objective a (encode_klae_cycles I) <= objective b (encode_klae_cycles I))%Q) ->
  (exists P wt, klaec_admissible I P wt /\ (klaec_cost I P wt == objective a (encode_klae_cycles I))%Q) /\
  (forall P wt, klaec_admissible I P wt -> (objective a (encode_klae_cycles I) <= klaec_cost I P wt)%Q).
Proof. exact klaec_optimal. Qed.
Print Assumptions C07_walk_optimal_within_caps.

(* the statement WITHOUT caps (minimum over all families of k walks and all non-negative weights) is not provable of the code as
   it is: the caps cut off solutions (open findings); it stays visible here *)
Definition C07_walk_full_statement : Prop :=
  forall (I : werr_inst) (a : var -> Q), wf_stg (x_graph I) -> o_allow_empty (x_opts I) = false -> werr_domain I ->
  sat a (encode_klae_cycles I) ->
  (forall b, sat b (encode_klae_cycles I) -> (objective a (encode_klae_cycles I) <= objective b (encode_klae_cycles I))%Q) ->
  forall P wt, wwalks (werr_walk I) P -> wrespects_fixing (werr_walk I) P -> wrealises_constraints (werr_walk I) P ->
    (forall i, In i (layers (x_k I)) -> (0 <= wt i)%Q /\ (x_int I = true -> is_int (wt i))) ->
    (objective a (encode_klae_cycles I) <= klaec_cost I P wt)%Q.

(* non-vacuity on a 2-cycle with a tail (s -> a -> b -> t, b -> a; weights 1,2,1,1; k = 1): all premises hold, the constructed
   assignment (walk s a b a b t of weight 1, a->b used twice) is checked by computation, the optimum is 0 *)
Example C07_walk_optimal_nonvacuous :
  wf_stg (x_graph tail_inst) /\ o_allow_empty (x_opts tail_inst) = false /\ werr_domain tail_inst /\
  sat tail_klae_asg (encode_klae_cycles tail_inst) /\
  (forall b, sat b (encode_klae_cycles tail_inst) -> (objective tail_klae_asg (encode_klae_cycles tail_inst) <= objective b (encode_klae_cycles tail_inst))%Q) /\
  (exists P wt, klaec_admissible tail_inst P wt /\ (klaec_cost tail_inst P wt == 0)%Q).
Proof. exact klaec_optimal_nonvacuous. Qed.

(* ------------------------------------------------------------------ end to end feasibility on digraphs with cycles:
   kLeastAbsErrorsCycles (no subset constraints / safety lists) is feasible for every k >= 1 whenever a source-to-sink walk
   exists (k copies of a simple source-to-sink path, weights 0, errors = f, within the bound w_max of the error columns) --
   PROVIDED the caps derived from the weights admit one traversal: largest reachable weight >= 1 on the edges inside strongly
   connected components, w_max >= 1 *)
Theorem C07_walk_klaec_end_to_end_feasible : forall I : werr_inst,
  let G := x_graph I in let E := g_edges G in
  wf_stg G -> x_cons I = [] -> x_safe_lists I = [] -> x_fix I = [] ->
  (forall e, In e (x_basic I) -> (0 <= xscale I e <= 1)%Q /\ (0 <= xflow I e)%Q /\ (x_int I = true -> is_int (xflow I e))) ->
  conn E (g_src G) (g_snk G) -> (1 <= x_k I)%nat ->
  (forall e, In e E -> is_scc_edge G e = true -> (1 <= reach_max I e)%Q) -> (1 <= x_wmax I)%Q ->
  exists a, sat a (encode_klae_cycles I) /\
            (objective a (encode_klae_cycles I) == sumq (fun e => xscale I e * xflow I e) (x_basic I))%Q.
Proof. exact klaec_end_to_end_feasible. Qed.
Print Assumptions C07_walk_klaec_end_to_end_feasible.

Theorem C07_walk_feasible_from_bounded_family : forall (I : werr_inst) (P : N -> list node) (B : nat),
  wf_stg (x_graph I) -> x_cons I = [] -> x_safe_lists I = [] -> x_fix I = [] ->
  wwalks (werr_walk I) P ->
  (forall i e, In i (layers (x_k I)) -> (count_e e (pairs (P i)) <= B)%nat) ->
  (forall e, In e (g_edges (x_graph I)) -> is_scc_edge (x_graph I) e = true -> (qnat B <= reach_max I e)%Q) ->
  (qnat B <= x_wmax I)%Q ->
  (forall e, In e (x_basic I) -> (0 <= xscale I e <= 1)%Q /\ (0 <= xflow I e)%Q /\ (x_int I = true -> is_int (xflow I e))) ->
  (1 <= x_k I)%nat ->
  exists a, sat a (encode_klae_cycles I) /\
            (objective a (encode_klae_cycles I) == sumq (fun e => xscale I e * xflow I e) (x_basic I))%Q.
Proof. exact klaec_feasible_from_family. Qed.
Print Assumptions C07_walk_feasible_from_bounded_family.

(* non-vacuity on the 2-cycle with a tail (weights 1, 2, 1, 1; k = 1): feasible with objective 1*2 + 1*1 = 3 *)
Example C07_walk_end_to_end_example :
  exists a, sat a (encode_klae_cycles tail_inst) /\ (objective a (encode_klae_cycles tail_inst) == 3)%Q.
Proof. exact klaec_end_to_end_example. Qed.
