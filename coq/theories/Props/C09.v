(* C09 — minimum path covers: the cover rows force every non-ignored edge into some layer
   (each layer being one route by C01).  Weak duality / certificate optimality are restated here when
   Cover.v is merged. *)
From Coq Require Import List NArith ZArith QArith Bool Arith Lia.
Import ListNotations.
From FP Require Import Lin Blocks BlocksProofs PathEnc PathEncProofs.
Local Close Scope Q_scope.
Theorem C09_cover_rows_cover_every_nonignored_edge : forall (I : path_inst) (ignore : list edge) (a : var -> Q),
  sat a (encode_kpc I ignore) ->
  forall e, In e (g_edges (p_graph I)) -> mem_edge e ignore = false ->
  exists i, In i (layers (p_k I)) /\ xval a i e = 1%Z.
Proof. exact kpc_covers. Qed.
Print Assumptions C09_cover_rows_cover_every_nonignored_edge.
