(* C09 — minimum path/walk covers; width equals the optimum. *)
From Coq Require Import List NArith ZArith QArith Bool Arith Lia.
Import ListNotations.
From FP Require Import Lin Blocks BlocksProofs PathEnc PathEncProofs Reach Cover CoverProofs Search SearchProofs1 SearchProofs2.
Local Close Scope Q_scope.

(* the cover rows force every non-ignored edge into some layer; each layer is one route (C01) *)
Theorem C09_cover_rows_cover_every_nonignored_edge : forall (I : path_inst) (ignore : list PathEnc.edge) (a : var -> Q),
  sat a (encode_kpc I ignore) ->
  forall e, In e (g_edges (p_graph I)) -> mem_edge e ignore = false ->
  exists i, In i (layers (p_k I)) /\ xval a i e = 1%Z.
Proof. exact kpc_covers. Qed.
Print Assumptions C09_cover_rows_cover_every_nonignored_edge.

(* weak duality, abstract in the route type: serves paths and walks *)
Theorem C09_weak_duality : forall (Ed Rt : Type) (on : Ed -> Rt -> bool) (admissible : Rt -> Prop)
  (w : Ed -> Z) (dom A : list Ed) (P : list (Rt * Z)),
  antichain Ed Rt on admissible A -> incl A dom -> covers Ed Rt on admissible w dom P -> (zsum w A <= size Rt P)%Z.
Proof. exact weak_duality. Qed.
Print Assumptions C09_weak_duality.

(* a cover and an antichain of equal size certify each other's optimality *)
Theorem C09_certificate_optimal : forall (Ed Rt : Type) (on : Ed -> Rt -> bool) (admissible : Rt -> Prop)
  (w : Ed -> Z) (dom A : list Ed) (P0 : list (Rt * Z)),
  antichain Ed Rt on admissible A -> incl A dom -> covers Ed Rt on admissible w dom P0 -> zsum w A = size Rt P0 ->
  (forall P, covers Ed Rt on admissible w dom P -> (size Rt P0 <= size Rt P)%Z) /\
  (forall A', antichain Ed Rt on admissible A' -> incl A' dom -> (zsum w A' <= zsum w A)%Z).
Proof. exact certificate_opt. Qed.
Print Assumptions C09_certificate_optimal.

(* the executable certificate checker run on the implementation's answers *)
Theorem C09_checked_certificate_proves_the_optimum : forall V E s t W A P, certificate_ok V E s t W A P = true ->
  antichain_weight W A = cover_size P /\
  (forall P', covers Reach.edge (list node) on_route (st_route E s t) (wt W) E P' -> (cover_size P <= size (list node) P')%Z) /\
  (forall A', antichain_ok V E A' = true -> (antichain_weight W A' <= antichain_weight W A)%Z).
Proof. exact certificate_ok_opt. Qed.
Print Assumptions C09_checked_certificate_proves_the_optimum.

(* the minimum search over k *)
Theorem C09_search_returns_least_feasible_k : forall (feasible : nat -> bool) (lb ub kopt : nat) (sts : list raw),
  (forall i, (i < ub - lb)%nat -> exists x, nth_error sts i = Some x /\
             status_of x = if feasible (lb + i)%nat then Optimal else Infeasible) ->
  feasible kopt = true -> (forall k, (k < kopt)%nat -> feasible k = false) -> (lb <= kopt < ub)%nat ->
  so_res (mpc_solve true lb ub sts) = Solved kopt.
Proof. exact search_min. Qed.
Print Assumptions C09_search_returns_least_feasible_k.

(* audit (audit/props_C04_C06_C09_C16.md): all four hypotheses of C09_search_returns_least_feasible_k on a concrete status list
   (feasible k := 2 <= k, statuses from lb = 1: Infeasible, Optimal, Optimal, Optimal), and the search computes Solved 2 *)
From FP Require AuditExamples17.
Example C09_search_hypotheses_satisfiable :
  let feasible := fun k => (2 <=? k)%nat in
  let sts := map (fun k => mkraw (if feasible k then Optimal else Infeasible) false) (seq 1 4) in
  (forall i, (i < 5 - 1)%nat -> exists x, nth_error sts i = Some x /\ status_of x = if feasible (1 + i)%nat then Optimal else Infeasible) /\
  feasible 2%nat = true /\ (forall k, (k < 2)%nat -> feasible k = false) /\ (1 <= 2 < 5)%nat /\
  so_res (mpc_solve true 1 5 sts) = Solved 2.
Proof. exact AuditExamples17.mpc_search_hypotheses. Qed.
Print Assumptions C09_search_hypotheses_satisfiable.

(* the checker that decides coverage on every answer of the implementation *)
From FP Require Import Checkers CheckersProofs.
Theorem C09_cover_checker_correct : forall E ignore routes,
  covers_b E ignore routes = true <->
  forall e, In e E -> ~ In e ignore -> exists r, In r routes /\ In e (EulerProofs1.pairs r).
Proof. exact covers_b_correct. Qed.
Print Assumptions C09_cover_checker_correct.

(* the kPathCover model for k is feasible EXACTLY when k simple source-to-sink paths cover every non-ignored edge (and realise
   every subpath constraint): soundness (rows force coverage, layers are paths) and completeness (every cover is admitted) *)
From FP Require Import PathEncProofs PathEncComplete PathCoverComplete PathEncExample.
Theorem C09_k_cover_model_feasible_iff_cover_exists :
  forall (B : path_inst) (ignore : list PathEnc.edge) (rank : node -> nat) (Rm : nat),
  PathEncProofs.wf_graph (p_graph B) -> p_allow_empty B = false ->
  (forall u v, In (u, v) (g_edges (p_graph B)) -> (rank u < rank v)%nat) -> (forall v, (rank v <= Rm)%nat) ->
  (forall c e, In c (p_cons B) -> In e c -> In e (g_edges (p_graph B)) /\ (0 <= elen B e)%Q) ->
  ((exists a, sat a (encode_kpc B ignore)) <-> (exists P, path_cover B ignore P /\ constraints_covered B P)).
Proof. exact kpc_feasible_iff. Qed.
Print Assumptions C09_k_cover_model_feasible_iff_cover_exists.

(* THE PROPERTY for MinPathCover, composed: with a solver that decides each generated LP exactly the search returns the
   least number of paths of any cover, provided it lies in the searched range [width lower bound, |E|] *)
Theorem C09_minpathcover_returns_the_minimum :
  forall (inst : nat -> path_inst) (ignore : list PathEnc.edge) (rank : node -> nat) (Rm : nat)
         (feasible : nat -> bool) (lb ub kopt : nat) (sts : list raw),
  (forall k, p_k (inst k) = k /\ PathEncProofs.wf_graph (p_graph (inst k)) /\ p_allow_empty (inst k) = false /\
             (forall u v, In (u, v) (g_edges (p_graph (inst k))) -> (rank u < rank v)%nat) /\
             (forall c e, In c (p_cons (inst k)) -> In e c -> In e (g_edges (p_graph (inst k))) /\ (0 <= elen (inst k) e)%Q)) ->
  (forall v, (rank v <= Rm)%nat) ->
  (forall k, feasible k = true <-> exists a, sat a (encode_kpc (inst k) ignore)) ->
  (forall i, (i < ub - lb)%nat -> exists x, nth_error sts i = Some x /\
             status_of x = if feasible (lb + i)%nat then Optimal else Infeasible) ->
  (exists P, path_cover (inst kopt) ignore P /\ constraints_covered (inst kopt) P) ->
  (forall k, (k < kopt)%nat -> ~ exists P, path_cover (inst k) ignore P /\ constraints_covered (inst k) P) ->
  (lb <= kopt < ub)%nat ->
  so_res (mpc_solve true lb ub sts) = Solved kopt.
Proof. exact mpc_returns_minimum. Qed.
Print Assumptions C09_minpathcover_returns_the_minimum.

(* non-vacuity: the diamond of PathEncExample.v is covered by 2 paths (constraint included) and not by 1 *)
Example C09_premises_satisfiable :
  (path_cover (exB 2) [] exP /\ constraints_covered (exB 2) exP) /\
  (~ exists P, path_cover (exB 1) [] P /\ constraints_covered (exB 1) P) /\
  (exists a, sat a (encode_kpc (exB 2) [])) /\ (~ exists a, sat a (encode_kpc (exB 1) [])).
Proof. exact (conj ex_cover_2 (conj ex_no_cover_1 (conj ex_kpc_feasible_2 ex_kpc_infeasible_1))). Qed.
Print Assumptions C09_premises_satisfiable.

(* END TO END for MinPathCover (edge cover, nothing ignored), from hypotheses about the caller's input only (EndToEndCover.v): for
   every DAG given with a topological order and adjacency lists accepted by Peel.peel_inputs_ok, the search over k = lb .. |E|
   (solver deciding each generated model exactly, lb a valid lower bound) returns the least number of source-to-sink paths covering
   every edge.  Derived in the proof: well-formedness of the augmented graph, a rank function, "every edge of a DAG lies on a
   source-to-sink path" (so a cover with |E| paths exists), feasibility of the |E|-model by completeness. *)
From FP Require Import EndToEnd1 EndToEnd2 EndToEndCover EndToEndExample.
Theorem C09_minpathcover_end_to_end :
  forall (V : list node) (E : list PathEnc.edge) (s t : node) (Pa Sa : list (node * list node)) (topo : list node)
         (feasible : nat -> bool) (lb : nat) (sts : list raw),
  NoDup V -> (forall e, In e E -> In (fst e) V /\ In (snd e) V) -> ~ In s V -> ~ In t V -> s <> t ->
  Peel.peel_inputs_ok E Pa Sa topo = true ->
  (forall k, feasible k = true <-> exists a, sat a (encode_kpc (cover_inst V E s t k) (synth V E s t))) ->
  (forall i, (i < S (length E) - lb)%nat -> exists x, nth_error sts i = Some x /\
             status_of x = if feasible (lb + i)%nat then Optimal else Infeasible) ->
  (forall k, (k < lb)%nat -> feasible k = false) ->
  exists kopt,
    so_res (mpc_solve true lb (S (length E)) sts) = Solved kopt /\ (kopt <= length E)%nat /\
    (exists P, path_cover (cover_inst V E s t kopt) (synth V E s t) P) /\
    (forall k, (k < kopt)%nat -> ~ exists P, path_cover (cover_inst V E s t k) (synth V E s t) P).
Proof. exact minpathcover_end_to_end. Qed.
Print Assumptions C09_minpathcover_end_to_end.

Example C09_end_to_end_premises_satisfiable :
  NoDup xV /\ (forall e, In e xE -> In (fst e) xV /\ In (snd e) xV) /\ ~ In 0%N xV /\ ~ In 5%N xV /\ 0%N <> 5%N /\
  Peel.peel_inputs_ok xE xPa xSa [1; 2; 3; 4]%N = true.
Proof. destruct e2e_premises_satisfiable as (A & B & C & D & E' & F & _). exact (conj A (conj B (conj C (conj D (conj E' F))))). Qed.
Print Assumptions C09_end_to_end_premises_satisfiable.

(* the lower bound the searches start from is sound (AntichainBound.v): pairwise incompatible edges that must be covered need as
   many paths -- for covers and for decompositions of a flow that is positive on them *)
From FP Require Import AntichainBound.
Theorem C09_cover_has_at_least_antichain_many_paths :
  forall (B : path_inst) (ignore A' : list PathEnc.edge) (P : N -> list node),
  NoDup A' -> incompatible_edges A' ->
  (forall e, In e A' -> In e (g_edges (p_graph B)) /\ mem_edge e ignore = false) ->
  path_cover B ignore P -> (length A' <= p_k B)%nat.
Proof. exact cover_needs_antichain_many_paths. Qed.
Print Assumptions C09_cover_has_at_least_antichain_many_paths.

(* the exhaustive oracle the engines use to decide an instance's optimum when no certificate applies (constraints, relaxed
   coverage) is itself verified and extracted: it returns the least number of paths of any cover realising the constraints *)
From FP Require Import CoverOracle.
Theorem C09_verified_oracle_returns_the_minimum :
  forall (B : path_inst) (ignore : list PathEnc.edge) (rank : node -> nat) (kmax : nat),
  PathEncProofs.wf_graph (p_graph B) -> (forall u v, In (u, v) (g_edges (p_graph B)) -> (rank u < rank v)%nat) ->
  match min_cover B ignore kmax with
  | Some k => (1 <= k <= kmax)%nat /\
              (exists P, path_cover (set_k B k) ignore P /\ constraints_covered (set_k B k) P) /\
              (forall j, (1 <= j < k)%nat -> ~ exists P, path_cover (set_k B j) ignore P /\ constraints_covered (set_k B j) P)
  | None => forall j, (1 <= j <= kmax)%nat -> ~ exists P, path_cover (set_k B j) ignore P /\ constraints_covered (set_k B j) P
  end.
Proof. exact min_cover_correct. Qed.
Print Assumptions C09_verified_oracle_returns_the_minimum.

(* Dilworth's theorem for MinPathCover (Dilworth.v).  The order: edge x is before edge y when both are edges of the graph and
   the tail of y is reachable from the head of x.  In a finite strict partial order a chain cover and an antichain of the same
   size exist (abstract theorem, Galvin's induction); a chain of edges lies on ONE source-to-sink path; antichains of the order are
   exactly the sets of edges that no path of the graph passes together ([incompatible_in], the graph-relative form of
   [incompatible_edges], which quantifies over every duplicate-free node list and is therefore stronger).  Hence the least number
   of paths of a cover equals the largest size of such a set, and that is the number MinPathCover returns. *)
From FP Require Import Dilworth DilworthErr.
Theorem C09_dilworth_finite_partial_order :
  forall (T : Type) (eqb : T -> T -> bool), (forall a b, eqb a b = true <-> a = b) ->
  forall (ltb : T -> T -> bool), (forall a, ltb a a = false) -> (forall a b c, ltb a b = true -> ltb b c = true -> ltb a c = true) ->
  forall X : list T, NoDup X ->
  exists (C : list (list T)) (A : list T),
    (forall c, In c C -> chain T ltb c /\ incl c X /\ c <> []) /\ covers T C X /\
    NoDup A /\ incl A X /\ antichain T ltb A /\ length A = length C.
Proof. exact dilworth. Qed.
Print Assumptions C09_dilworth_finite_partial_order.

Theorem C09_antichains_of_the_reachability_order_are_the_incompatible_sets :
  forall (B : path_inst) (rank : node -> nat),
  (forall u v, In (u, v) (g_edges (p_graph B)) -> (rank u < rank v)%nat) ->
  forall A', incl A' (g_edges (p_graph B)) ->
  (order_antichain (g_edges (p_graph B)) A' <-> incompatible_in (g_edges (p_graph B)) A').
Proof. exact antichain_iff_incompatible. Qed.
Print Assumptions C09_antichains_of_the_reachability_order_are_the_incompatible_sets.

Theorem C09_incompatible_edges_are_incompatible_in_every_graph :
  forall G A', incompatible_edges A' -> incompatible_in G A'.
Proof. exact incompatible_edges_in. Qed.
Print Assumptions C09_incompatible_edges_are_incompatible_in_every_graph.

Theorem C09_cover_has_at_least_width_many_paths :
  forall (B : path_inst) (ignore A' : list PathEnc.edge) (P : N -> list node),
  NoDup A' -> incompatible_in (g_edges (p_graph B)) A' ->
  (forall e, In e A' -> In e (g_edges (p_graph B)) /\ mem_edge e ignore = false) ->
  path_cover B ignore P -> (length A' <= p_k B)%nat.
Proof. exact cover_needs_width_many_paths. Qed.
Print Assumptions C09_cover_has_at_least_width_many_paths.

Theorem C09_min_path_cover_equals_width_st_graph :
  forall (B : path_inst) (ignore : list PathEnc.edge) (rank : node -> nat) (Rm : nat),
  NoDup (g_edges (p_graph B)) ->
  (forall u v, In (u, v) (g_edges (p_graph B)) -> (rank u < rank v)%nat) -> (forall v, (rank v <= Rm)%nat) ->
  (forall u v, In (u, v) (g_edges (p_graph B)) -> u = g_src (p_graph B) \/ exists w, In (w, u) (g_edges (p_graph B))) ->
  (forall u v, In (u, v) (g_edges (p_graph B)) -> v = g_snk (p_graph B) \/ exists w, In (v, w) (g_edges (p_graph B))) ->
  exists (k : nat) (P : N -> list node) (A' : list PathEnc.edge),
    path_cover (set_k B k) ignore P /\
    NoDup A' /\ (forall e, In e A' -> In e (g_edges (p_graph B)) /\ mem_edge e ignore = false) /\
    incompatible_in (g_edges (p_graph B)) A' /\ length A' = k.
Proof. exact min_path_cover_equals_width_st. Qed.
Print Assumptions C09_min_path_cover_equals_width_st_graph.

Theorem C09_min_path_cover_equals_width :
  forall (V : list node) (E : list PathEnc.edge) (s t : node) (topo : list node),
  ~ In s V -> ~ In t V -> s <> t -> (forall e, In e E -> In (fst e) V /\ In (snd e) V) -> NoDup V -> NoDup E ->
  (forall u v, In (u, v) E -> (posn topo u < posn topo v)%nat) ->
  exists k,
    (exists P, path_cover (cover_inst V E s t k) (synth V E s t) P) /\
    (forall k', (k' < k)%nat -> ~ exists P, path_cover (cover_inst V E s t k') (synth V E s t) P) /\
    (exists A', NoDup A' /\ incl A' E /\ incompatible_in (Aug.aug_edges V E [] [] s t) A' /\ length A' = k).
Proof. exact min_path_cover_equals_width. Qed.
Print Assumptions C09_min_path_cover_equals_width.

Theorem C09_minpathcover_returns_the_width :
  forall (V : list node) (E : list PathEnc.edge) (s t : node) (Pa Sa : list (node * list node)) (topo : list node)
         (feasible : nat -> bool) (lb : nat) (sts : list raw),
  NoDup V -> (forall e, In e E -> In (fst e) V /\ In (snd e) V) -> ~ In s V -> ~ In t V -> s <> t ->
  Peel.peel_inputs_ok E Pa Sa topo = true ->
  (forall k, feasible k = true <-> exists a, sat a (encode_kpc (cover_inst V E s t k) (synth V E s t))) ->
  (forall i, (i < S (length E) - lb)%nat -> exists x, nth_error sts i = Some x /\
             status_of x = if feasible (lb + i)%nat then Optimal else Infeasible) ->
  (forall k, (k < lb)%nat -> feasible k = false) ->
  exists kopt,
    so_res (mpc_solve true lb (S (length E)) sts) = Solved kopt /\
    (exists A', NoDup A' /\ incl A' E /\ incompatible_in (Aug.aug_edges V E [] [] s t) A' /\ length A' = kopt) /\
    (forall A', NoDup A' -> incl A' E -> incompatible_in (Aug.aug_edges V E [] [] s t) A' -> (length A' <= kopt)%nat).
Proof. exact minpathcover_returns_the_width. Qed.
Print Assumptions C09_minpathcover_returns_the_width.

(* the solver-specification hypotheses of C09_minpathcover_end_to_end / C09_minpathcover_returns_the_width hold for a concrete honest
   solver on the diamond 1 -> {2,3} -> 4 (EDGE mode; source 0, sink 5; lower bound 1): the k-cover model is feasible exactly for k >= 2,
   the status list is what such a solver answers, and the search returns 2 *)
Example C09_edge_solver_hypotheses_satisfiable :
  let feasible := fun k => (2 <=? k)%nat in
  let sts := map (fun k => mkraw (if feasible k then Optimal else Infeasible) false) (seq 1 4) in
  (forall k, feasible k = true <-> exists a, sat a (encode_kpc (cover_inst xV xE 0%N 5%N k) (synth xV xE 0%N 5%N))) /\
  (forall i, (i < S (length xE) - 1)%nat -> exists x, nth_error sts i = Some x /\
             status_of x = if feasible (1 + i)%nat then Optimal else Infeasible) /\
  (forall k, (k < 1)%nat -> feasible k = false) /\
  so_res (mpc_solve true 1 (S (length xE)) sts) = Solved 2.
Proof. exact AuditExamples17.edge_cover_solver_hypotheses. Qed.
Print Assumptions C09_edge_solver_hypotheses_satisfiable.

Theorem C09_kminpatherror_feasible_from_the_width_on :
  forall (V : list node) (E : list PathEnc.edge) (s t : node) (Pa Sa : list (node * list node)) (topo : list node)
         (feasible : nat -> bool) (lb : nat) (sts : list raw)
         (f : PathEnc.edge -> Z) (ign : list PathEnc.edge) (scale : list (PathEnc.edge * Q)),
  NoDup V -> (forall e, In e E -> In (fst e) V /\ In (snd e) V) -> ~ In s V -> ~ In t V -> s <> t ->
  Peel.peel_inputs_ok E Pa Sa topo = true ->
  (forall k, feasible k = true <-> exists a, sat a (encode_kpc (cover_inst V E s t k) (synth V E s t))) ->
  (forall i, (i < S (length E) - lb)%nat -> exists x, nth_error sts i = Some x /\
             status_of x = if feasible (lb + i)%nat then Optimal else Infeasible) ->
  (forall k, (k < lb)%nat -> feasible k = false) ->
  (forall e, In e E -> (0 <= f e)%Z) -> (forall es, In es scale -> (0 <= snd es <= 1)%Q) ->
  (exists e, In e E /\ mem_edge e ign = false /\ mem_edge e (map fst (filter (fun es => Qeq_bool (snd es) 0) scale)) = false) ->
  exists w,
    (exists A', NoDup A' /\ incl A' E /\ incompatible_in (Aug.aug_edges V E [] [] s t) A' /\ length A' = w) /\
    (forall A', NoDup A' -> incl A' E -> incompatible_in (Aug.aug_edges V E [] [] s t) A' -> (length A' <= w)%nat) /\
    forall k, (w <= k)%nat ->
      exists a, sat a (ErrEnc.encode_kmpe (EndToEndErr.e2e_kmpe_inst V E s t f ign scale [] 1%Q k)).
Proof. exact kmpe_feasible_from_width. Qed.
Print Assumptions C09_kminpatherror_feasible_from_the_width_on.

(* non-vacuity on the diamond 1 -> {2,3} -> 4 (source 0, sink 5): the premises hold, two paths cover it and the two edges leaving
   node 1 lie on no common path, so both numbers are 2 *)
Example C09_dilworth_premises_satisfiable :
  ~ In 0%N xV /\ ~ In 5%N xV /\ 0%N <> 5%N /\ (forall e, In e xE -> In (fst e) xV /\ In (snd e) xV) /\ NoDup xV /\ NoDup xE /\
  (forall u v, In (u, v) xE -> (posn [1; 2; 3; 4]%N u < posn [1; 2; 3; 4]%N v)%nat).
Proof. exact diamond_premises. Qed.
Print Assumptions C09_dilworth_premises_satisfiable.

Example C09_dilworth_diamond_width_is_two :
  (exists P, path_cover (cover_inst xV xE 0%N 5%N 2) (synth xV xE 0%N 5%N) P) /\
  (exists A', NoDup A' /\ incl A' xE /\ incompatible_in (Aug.aug_edges xV xE [] [] 0%N 5%N) A' /\ length A' = 2%nat).
Proof. exact diamond_width_two. Qed.
Print Assumptions C09_dilworth_diamond_width_is_two.

(* The cyclic half (WalkWidth.v): "minimum walk covers; width equals it".  G is a digraph with source s and sink t in which every edge
   lies on an s-t walk, X the edges to be covered.  (a) On G itself: the least number of s-t walks covering X equals the largest
   number of edges of X no two of which lie on a common walk of G (Dilworth's theorem applied to one representative per strongly
   connected component plus the edges between components, ordered by one-way reachability; inside a component one closed walk
   through all its to-be-covered edges is spliced in).  (b) The expanded condensation as stDiGraph builds it (hedges: node 2c is
   "c", node 2c+1 is "c_expanded"; one edge per component that has an edge, one per condensation edge) with the weights get_width
   hands to the minimum flow (hweight: number of kept edges between two components; 1 for a component with a kept edge, else 0):
   every family of k s-t walks covering the kept edges runs along k source-to-sink paths of it that pass every edge at least
   weight-many times (projection: soundness of the lower bound the cyclic minimum searches start from), and every such family of
   paths has at least as many members as any set of kept edges no two on a common walk.  Hence (c) the three numbers coincide:
   least walk cover = least number of paths of the expanded condensation meeting the multiplicities (the minimum flow get_width
   computes) = walk width.  The hypotheses about the condensation are those the verified checker Reach.cond_ok establishes
   (_checked form); the E3 stream of the C09 engine ties hedges/hweight to the code and evaluates these premises per instance. *)
From FP Require WalkWidth.
Theorem C09_min_walk_cover_equals_walk_width :
  forall (G : list PathEnc.edge) (s t : node),
  (forall u v, In (u, v) G -> Dilworth.conn G s u /\ Dilworth.conn G v t) ->
  forall X : list PathEnc.edge, NoDup X -> incl X G ->
  exists (W : list (list node)) (A' : list PathEnc.edge),
    (forall l, In l W -> WalkWidth.st_walk G s t l) /\
    (forall e, In e X -> exists l, In l W /\ In e (EulerProofs1.pairs l)) /\
    NoDup A' /\ incl A' X /\ WalkWidth.walk_incompatible G A' /\ length A' = length W.
Proof. exact WalkWidth.min_walk_cover_equals_walk_width. Qed.
Print Assumptions C09_min_walk_cover_equals_walk_width.

Theorem C09_walk_cover_has_at_least_walk_width_many_walks :
  forall (G : list PathEnc.edge) (W : list (list node)) (A' : list PathEnc.edge),
  NoDup A' -> WalkWidth.walk_incompatible G A' ->
  (forall l, In l W -> incl (EulerProofs1.pairs l) G) ->
  (forall e, In e A' -> exists l, In l W /\ In e (EulerProofs1.pairs l)) ->
  (length A' <= length W)%nat.
Proof. exact WalkWidth.walk_cover_needs_width_many_walks. Qed.
Print Assumptions C09_walk_cover_has_at_least_walk_width_many_walks.

Theorem C09_walk_cover_projects_to_the_expanded_condensation :
  forall (E : list PathEnc.edge) (s t : node) (cm : node -> N) (cn : list N) (cE : list (N * N)) (ign : list PathEnc.edge),
  (forall u v, In u (Dilworth.nodes_of E) -> In v (Dilworth.nodes_of E) ->
               (cm u = cm v <-> Dilworth.conn E u v /\ Dilworth.conn E v u)) ->
  (forall u v, In (u, v) E -> cm u <> cm v -> In (cm u, cm v) cE) ->
  (forall e, In e E -> In (cm (fst e)) cn /\ In (cm (snd e)) cn) ->
  NoDup E ->
  forall W : list (list node),
  (forall l, In l W -> WalkWidth.st_walk E s t l) ->
  (forall e, In e E -> WalkWidth.kept ign e = true -> exists l, In l W /\ In e (EulerProofs1.pairs l)) ->
  (forall p, In p (map (WalkWidth.proj E cm) W) -> WalkWidth.hpath E s t cm cn cE p) /\
  WalkWidth.multicover E cm cn cE ign (map (WalkWidth.proj E cm) W) /\
  length (map (WalkWidth.proj E cm) W) = length W.
Proof. exact WalkWidth.walk_cover_projects. Qed.
Print Assumptions C09_walk_cover_projects_to_the_expanded_condensation.

Theorem C09_condensation_paths_are_at_least_walk_width_many :
  forall (E : list PathEnc.edge) (cm : node -> N) (cn : list N) (cE : list (N * N)) (ign : list PathEnc.edge),
  (forall u v, In u (Dilworth.nodes_of E) -> In v (Dilworth.nodes_of E) ->
               (cm u = cm v <-> Dilworth.conn E u v /\ Dilworth.conn E v u)) ->
  (forall u v, In (u, v) E -> cm u <> cm v -> In (cm u, cm v) cE) ->
  (forall a b, In (a, b) cE -> a <> b /\ exists u v, In (u, v) E /\ cm u = a /\ cm v = b) ->
  (forall e, In e E -> In (cm (fst e)) cn /\ In (cm (snd e)) cn) ->
  forall (A' : list PathEnc.edge) (P : list (list N)),
  NoDup A' -> (forall e, In e A' -> In e E /\ WalkWidth.kept ign e = true) -> WalkWidth.walk_incompatible E A' ->
  (forall p, In p P -> incl (EulerProofs1.pairs p) (WalkWidth.hedges E cm cn cE)) ->
  WalkWidth.multicover E cm cn cE ign P -> (length A' <= length P)%nat.
Proof. exact WalkWidth.multicover_needs_walk_width_many_paths. Qed.
Print Assumptions C09_condensation_paths_are_at_least_walk_width_many.

Theorem C09_min_walk_cover_equals_condensation_width :
  forall (E : list PathEnc.edge) (s t : node) (cm : node -> N) (cn : list N) (cE : list (N * N)) (ign : list PathEnc.edge),
  (forall u v, In (u, v) E -> Dilworth.conn E s u /\ Dilworth.conn E v t) ->
  (forall u v, In u (Dilworth.nodes_of E) -> In v (Dilworth.nodes_of E) ->
               (cm u = cm v <-> Dilworth.conn E u v /\ Dilworth.conn E v u)) ->
  (forall u v, In (u, v) E -> cm u <> cm v -> In (cm u, cm v) cE) ->
  (forall a b, In (a, b) cE -> a <> b /\ exists u v, In (u, v) E /\ cm u = a /\ cm v = b) ->
  (forall e, In e E -> In (cm (fst e)) cn /\ In (cm (snd e)) cn) ->
  NoDup E ->
  exists k : nat,
    (exists W, WalkWidth.walk_cover E s t ign W /\ length W = k) /\
    (forall W, WalkWidth.walk_cover E s t ign W -> (k <= length W)%nat) /\
    (exists P, WalkWidth.condensation_cover E s t cm cn cE ign P /\ length P = k) /\
    (forall P, WalkWidth.condensation_cover E s t cm cn cE ign P -> (k <= length P)%nat) /\
    (exists A', NoDup A' /\ (forall e, In e A' -> In e E /\ WalkWidth.kept ign e = true) /\
                WalkWidth.walk_incompatible E A' /\ length A' = k).
Proof. exact WalkWidth.min_walk_cover_equals_condensation_width. Qed.
Print Assumptions C09_min_walk_cover_equals_condensation_width.

Theorem C09_min_walk_cover_equals_condensation_width_checked :
  forall (V : list node) (E : list PathEnc.edge) (C : Reach.cond) (s t : node) (ign : list PathEnc.edge),
  Reach.cond_ok V E C = true -> NoDup E -> WalkWidth.st_ok E s t = true ->
  let cm := Reach.c_map C in let cn := Reach.c_topo C in let cE := Reach.c_edges C in
  exists k : nat,
    (exists W, WalkWidth.walk_cover E s t ign W /\ length W = k) /\
    (forall W, WalkWidth.walk_cover E s t ign W -> (k <= length W)%nat) /\
    (exists P, WalkWidth.condensation_cover E s t cm cn cE ign P /\ length P = k) /\
    (forall P, WalkWidth.condensation_cover E s t cm cn cE ign P -> (k <= length P)%nat) /\
    (exists A', NoDup A' /\ (forall e, In e A' -> In e E /\ WalkWidth.kept ign e = true) /\
                WalkWidth.walk_incompatible E A' /\ length A' = k).
Proof. exact WalkWidth.min_walk_cover_equals_condensation_width_checked. Qed.
Print Assumptions C09_min_walk_cover_equals_condensation_width_checked.

(* non-vacuity on a 2-cycle with a tail (0 -> 1 <-> 2 -> 3 -> 4, source 0, sink 4): the premises of the checked form hold, the
   expanded condensation is the path "0" -> "1" -> "1_expanded" -> "2" -> "3" with all weights 1, and one walk covers every edge *)
Example C09_walk_width_premises_satisfiable :
  Reach.cond_ok WalkWidth.cyV WalkWidth.cyE WalkWidth.cyC = true /\ NoDup WalkWidth.cyE /\ WalkWidth.st_ok WalkWidth.cyE 0%N 4%N = true.
Proof. exact WalkWidth.two_cycle_premises. Qed.
Print Assumptions C09_walk_width_premises_satisfiable.

Example C09_two_cycle_expanded_condensation :
  WalkWidth.condense_model WalkWidth.cyE [(0, 0); (1, 1); (2, 1); (3, 2); (4, 3)]%N [0; 1; 2; 3]%N [(0, 1); (1, 2); (2, 3)]%N [] =
  [((2, 3)%N, 1%nat); ((0, 2)%N, 1%nat); ((3, 4)%N, 1%nat); ((4, 6)%N, 1%nat)].
Proof. exact WalkWidth.two_cycle_condensation. Qed.
Print Assumptions C09_two_cycle_expanded_condensation.

Example C09_two_cycle_is_covered_by_one_walk :
  WalkWidth.walk_cover WalkWidth.cyE 0%N 4%N [] [[0; 1; 2; 1; 2; 3; 4]%N].
Proof. exact WalkWidth.two_cycle_one_walk. Qed.
Print Assumptions C09_two_cycle_is_covered_by_one_walk.

(* The walks of the walk-width theorem fit the repetition caps of the cover model (WalkWidthCaps.v).  The caps of kPathCoverCycles
   as it is: every Edge column is bounded by max_edge_repetition = |E| * |V| of the s-t graph for an edge inside a strongly connected
   component and by 1 for every other edge (WalkEncRows.cap; the big-M of row 22a is the sum of these caps over the in-edges, the
   Dist bounds are |V*|: both are implied by the caps, see C09_walk_cover_lp_feasible_iff_admissible_cover).  A walk that has to pass
   a duplicate-free list L of edges can be put together from |L| + 1 SIMPLE connecting paths and the edges of L, so it passes no
   edge more than |L| + 2 <= |X| + 2 times (C09_walk_width_cover_with_bounded_repetition), which is at most |E| * |V| because a source
   edge is never to be covered and there are at least two nodes; an edge that the model does not classify as a component edge lies
   on no closed walk (the model's reachability closure with fuel |V| is complete: C09_model_scc_test_is_complete), so every walk
   passes it at most once.  Hence an admissible cover (within the caps) of the size of the walk width exists
   (C09_walk_width_cover_is_within_the_caps) and, with the LP characterisation and the search theorem, MinPathCoverCycles without
   subset constraints and safety lists returns the walk width of the non-ignored edges (C09_minpathcovercycles_returns_the_walk_width),
   relative to the solver specification.  So the caps are never too small; the bottleneck family of the engine needs a multiplicity
   of about |A| * |B| < |E| on its bridge edge. *)
From FP Require WalkWidthCaps WalkEncRows WalkEncRowsProofs WalkCoverIff WalkSearch WalkExamples.
Theorem C09_walk_width_cover_with_bounded_repetition :
  forall (G : list PathEnc.edge) (s t : node),
  (forall u v, In (u, v) G -> Dilworth.conn G s u /\ Dilworth.conn G v t) ->
  forall X : list PathEnc.edge, NoDup X -> incl X G ->
  exists (W : list (list node)) (A' : list PathEnc.edge),
    (forall l, In l W -> WalkWidth.st_walk G s t l) /\
    (forall e, In e X -> exists l, In l W /\ In e (EulerProofs1.pairs l)) /\
    NoDup A' /\ incl A' X /\ WalkWidth.walk_incompatible G A' /\ length A' = length W /\
    (forall l e, In l W -> (EulerProofs4.count_e e (EulerProofs1.pairs l) <= length X + 2)%nat).
Proof. exact WalkWidthCaps.bounded_walk_cover. Qed.
Print Assumptions C09_walk_width_cover_with_bounded_repetition.

Theorem C09_model_scc_test_is_complete :
  forall (G : stgraph) (e : PathEnc.edge),
  WalkEncRowsProofs.wf_stg G -> In e (g_edges G) -> Dilworth.conn (g_edges G) (snd e) (fst e) -> WalkEncRows.is_scc_edge G e = true.
Proof. exact WalkWidthCaps.scc_edge_complete. Qed.
Print Assumptions C09_model_scc_test_is_complete.

Theorem C09_walk_width_cover_is_within_the_caps :
  forall I : WalkEncRows.kpcc_inst,
  WalkEncRowsProofs.wf_stg (WalkEncRows.pc_graph I) ->
  (forall u v, In (u, v) (g_edges (WalkEncRows.pc_graph I)) ->
     Dilworth.conn (g_edges (WalkEncRows.pc_graph I)) (g_src (WalkEncRows.pc_graph I)) u /\
     Dilworth.conn (g_edges (WalkEncRows.pc_graph I)) v (g_snk (WalkEncRows.pc_graph I))) ->
  WalkEncRows.pc_cons I = [] -> WalkEncRows.pc_safe_lists I = [] -> WalkEncRows.pc_fix I = [] ->
  exists (A' : list PathEnc.edge) (P : N -> list node),
    WalkCoverIff.cover_admissible (WalkWidthCaps.kset I (length A')) P /\
    NoDup A' /\ incl A' (WalkWidthCaps.tocover I) /\ WalkWidth.walk_incompatible (g_edges (WalkEncRows.pc_graph I)) A'.
Proof. exact WalkWidthCaps.width_cover_is_admissible. Qed.
Print Assumptions C09_walk_width_cover_is_within_the_caps.

Theorem C09_minpathcovercycles_returns_the_walk_width :
  forall (I : WalkEncRows.kpcc_inst) (out : nat -> WalkSearch.outcome) (lb nE : nat),
  WalkEncRowsProofs.wf_stg (WalkEncRows.pc_graph I) -> WalkEncRows.o_allow_empty (WalkEncRows.pc_opts I) = false ->
  (forall u v, In (u, v) (g_edges (WalkEncRows.pc_graph I)) ->
     Dilworth.conn (g_edges (WalkEncRows.pc_graph I)) (g_src (WalkEncRows.pc_graph I)) u /\
     Dilworth.conn (g_edges (WalkEncRows.pc_graph I)) v (g_snk (WalkEncRows.pc_graph I))) ->
  WalkEncRows.pc_cons I = [] -> WalkEncRows.pc_safe_lists I = [] -> WalkEncRows.pc_fix I = [] ->
  (forall j, out j = WalkSearch.Optimal <-> exists a, sat a (WalkEncRows.encode_kpcc (WalkWidthCaps.kset I j))) ->
  (forall j, out j = WalkSearch.Infeasible <-> ~ exists a, sat a (WalkEncRows.encode_kpcc (WalkWidthCaps.kset I j))) ->
  exists (w : nat) (A' : list PathEnc.edge),
    NoDup A' /\ incl A' (WalkWidthCaps.tocover I) /\ WalkWidth.walk_incompatible (g_edges (WalkEncRows.pc_graph I)) A' /\ length A' = w /\
    (forall A2, NoDup A2 -> incl A2 (WalkWidthCaps.tocover I) -> WalkWidth.walk_incompatible (g_edges (WalkEncRows.pc_graph I)) A2 ->
                (length A2 <= w)%nat) /\
    (w <= length (g_edges (WalkEncRows.pc_graph I)))%nat /\
    ((lb <= w <= nE)%nat -> WalkSearch.mfdc_solve out (fun _ => false) None lb nE = WalkSearch.Solved w).
Proof. exact WalkWidthCaps.mpcc_returns_the_walk_width. Qed.
Print Assumptions C09_minpathcovercycles_returns_the_walk_width.

Example C09_walk_width_end_to_end_premises_satisfiable :
  WalkEncRowsProofs.wf_stg (WalkEncRows.pc_graph WalkExamples.loop_kpcc) /\
  WalkEncRows.o_allow_empty (WalkEncRows.pc_opts WalkExamples.loop_kpcc) = false /\
  (forall u v, In (u, v) (g_edges (WalkEncRows.pc_graph WalkExamples.loop_kpcc)) ->
     Dilworth.conn (g_edges (WalkEncRows.pc_graph WalkExamples.loop_kpcc)) (g_src (WalkEncRows.pc_graph WalkExamples.loop_kpcc)) u /\
     Dilworth.conn (g_edges (WalkEncRows.pc_graph WalkExamples.loop_kpcc)) v (g_snk (WalkEncRows.pc_graph WalkExamples.loop_kpcc))) /\
  WalkEncRows.pc_cons WalkExamples.loop_kpcc = [] /\ WalkEncRows.pc_safe_lists WalkExamples.loop_kpcc = [] /\
  WalkEncRows.pc_fix WalkExamples.loop_kpcc = [].
Proof. exact WalkWidthCaps.loop_width_premises. Qed.
Print Assumptions C09_walk_width_end_to_end_premises_satisfiable.

(* NODE covers (DilworthNode.v).  Node mode of MinPathCover / kPathCover solves the EDGE cover of the node-expanded graph (v becomes
   the edge v.0 -> v.1, an edge u -> v the connecting edge u.1 -> v.0; here v.0 = 2v, v.1 = 2v+1) with the connecting edges and
   the node edges of the ignored nodes in the ignore list.  Derived from C09_min_path_cover_equals_width_st_graph on the expanded
   instance (not re-proved): for a DAG, the least number of source-to-sink paths covering the non-ignored nodes equals the largest
   number of non-ignored nodes no two of which lie on a common path (Dilworth for the vertex order), and that is the number the edge
   model of the expansion has as its minimum; the topological order of the expansion is obtained from one of the graph
   (C09_topological_order_lifts_to_the_expansion); end to end (solver specification) node-mode MinPathCover returns the node width.
   The same for walks of digraphs with cycles through the walk-width theorem on the expansion (no condensation is involved).  The
   expansion over N is the relation C11 proves the model of NodeExpandedDiGraph to build, under any injective naming
   (C09_node_expansion_is_the_expansion_of_C11). *)
From FP Require DilworthNode NodeExpProofs.
Theorem C09_topological_order_lifts_to_the_expansion :
  forall (V : list node) (E : list (node * node)) (topo : list node),
  incl V topo -> (forall u v, In (u, v) E -> (posn topo u < posn topo v)%nat) ->
  forall a b, In (a, b) (DilworthNode.expE V E) ->
  (posn (DilworthNode.exp_topo topo) a < posn (DilworthNode.exp_topo topo) b)%nat.
Proof. exact DilworthNode.exp_topo_increasing. Qed.
Print Assumptions C09_topological_order_lifts_to_the_expansion.

Theorem C09_node_expansion_is_the_expansion_of_C11 :
  forall name : node -> String.string, (forall u v, name u = name v -> u = v) ->
  forall (V : list node) (E : list PathEnc.edge) (a b : node),
  In (a, b) (DilworthNode.expE V E) <->
  NodeExpProofs.ne_xrel (fun x => exists v, In v V /\ x = name v) (fun x y => exists u v, In (u, v) E /\ x = name u /\ y = name v)
                        (DilworthNode.sname name a) (DilworthNode.sname name b).
Proof. exact DilworthNode.expE_is_xrel. Qed.
Print Assumptions C09_node_expansion_is_the_expansion_of_C11.

Theorem C09_min_node_path_cover_equals_node_width :
  forall (V : list node) (E : list PathEnc.edge) (s t : node) (topo ign : list node),
  ~ In s (DilworthNode.expV V) -> ~ In t (DilworthNode.expV V) -> s <> t ->
  (forall e, In e E -> In (fst e) V /\ In (snd e) V) -> NoDup V -> NoDup E ->
  (forall u v, In (u, v) E -> (posn topo u < posn topo v)%nat) -> incl V topo ->
  exists (W : list (list node)) (A : list node),
    (forall p, In p W -> DilworthNode.nroute V E p) /\
    (forall v, In v V -> ~ In v ign -> exists p, In p W /\ In v p) /\
    NoDup A /\ (forall v, In v A -> In v V /\ ~ In v ign) /\ DilworthNode.node_incompatible V E A /\ length A = length W /\
    (exists P, path_cover (cover_inst (DilworthNode.expV V) (DilworthNode.expE V E) s t (length W))
                 (synth (DilworthNode.expV V) (DilworthNode.expE V E) s t ++ DilworthNode.node_ignore E ign) P) /\
    (forall k' P', path_cover (cover_inst (DilworthNode.expV V) (DilworthNode.expE V E) s t k')
                     (synth (DilworthNode.expV V) (DilworthNode.expE V E) s t ++ DilworthNode.node_ignore E ign) P' ->
                   (length W <= k')%nat).
Proof. exact DilworthNode.min_node_path_cover_equals_node_width. Qed.
Print Assumptions C09_min_node_path_cover_equals_node_width.

Theorem C09_node_cover_has_at_least_node_width_many_paths :
  forall (V : list node) (E : list PathEnc.edge) (W : list (list node)) (A : list node),
  NoDup A -> DilworthNode.node_incompatible V E A ->
  (forall p, In p W -> incl p V /\ incl (EulerProofs1.pairs p) E) ->
  (forall v, In v A -> exists p, In p W /\ In v p) -> (length A <= length W)%nat.
Proof. exact DilworthNode.node_cover_needs_node_width_many_paths. Qed.
Print Assumptions C09_node_cover_has_at_least_node_width_many_paths.

Theorem C09_node_minpathcover_returns_the_node_width :
  forall (V : list node) (E : list PathEnc.edge) (s t : node) (topo ign : list node)
         (feasible : nat -> bool) (lb : nat) (sts : list raw),
  ~ In s (DilworthNode.expV V) -> ~ In t (DilworthNode.expV V) -> s <> t ->
  (forall e, In e E -> In (fst e) V /\ In (snd e) V) -> NoDup V -> NoDup E ->
  (forall u v, In (u, v) E -> (posn topo u < posn topo v)%nat) -> incl V topo ->
  let ignore := synth (DilworthNode.expV V) (DilworthNode.expE V E) s t ++ DilworthNode.node_ignore E ign in
  (forall k, feasible k = true <->
     exists a, sat a (encode_kpc (cover_inst (DilworthNode.expV V) (DilworthNode.expE V E) s t k) ignore)) ->
  (forall i, (i < S (length (DilworthNode.expE V E)) - lb)%nat -> exists x, nth_error sts i = Some x /\
             status_of x = if feasible (lb + i)%nat then Optimal else Infeasible) ->
  exists (w : nat) (W : list (list node)) (A : list node),
    length W = w /\ (forall p, In p W -> DilworthNode.nroute V E p) /\
    (forall v, In v V -> ~ In v ign -> exists p, In p W /\ In v p) /\
    length A = w /\ NoDup A /\ (forall v, In v A -> In v V /\ ~ In v ign) /\ DilworthNode.node_incompatible V E A /\
    (forall A2, NoDup A2 -> DilworthNode.node_incompatible V E A2 -> (forall v, In v A2 -> In v V /\ ~ In v ign) -> (length A2 <= w)%nat) /\
    ((lb <= w)%nat -> so_res (mpc_solve true lb (S (length (DilworthNode.expE V E))) sts) = Solved w).
Proof. exact DilworthNode.node_minpathcover_returns_the_node_width. Qed.
Print Assumptions C09_node_minpathcover_returns_the_node_width.

Theorem C09_min_node_walk_cover_equals_node_walk_width :
  forall (V : list node) (E : list PathEnc.edge) (S T : list node) (s t : node) (ign : list node),
  ~ In s (DilworthNode.expV V) -> ~ In t (DilworthNode.expV V) -> s <> t ->
  (forall e, In e E -> In (fst e) V /\ In (snd e) V) -> NoDup V ->
  (forall u v,
     In (u, v) (Aug.aug_edges (DilworthNode.expV V) (DilworthNode.expE V E) (map DilworthNode.x0 S) (map DilworthNode.x1 T) s t) ->
     Dilworth.conn (Aug.aug_edges (DilworthNode.expV V) (DilworthNode.expE V E) (map DilworthNode.x0 S) (map DilworthNode.x1 T) s t) s u /\
     Dilworth.conn (Aug.aug_edges (DilworthNode.expV V) (DilworthNode.expE V E) (map DilworthNode.x0 S) (map DilworthNode.x1 T) s t) v t) ->
  exists (W : list (list node)) (A : list node),
    (forall p, In p W -> DilworthNode.nwalk V E S T p) /\
    (forall v, In v V -> ~ In v ign -> exists p, In p W /\ In v p) /\
    NoDup A /\ (forall v, In v A -> In v V /\ ~ In v ign) /\ DilworthNode.node_incompatible V E A /\ length A = length W.
Proof. exact DilworthNode.min_node_walk_cover_equals_node_walk_width. Qed.
Print Assumptions C09_min_node_walk_cover_equals_node_walk_width.

(* non-vacuity on the diamond 1 -> {2,3} -> 4: the premises hold (source 100, sink 101 of the expansion); with node 2 ignored the one
   path 1 3 4 covers the remaining nodes, while 2 and 3 lie on no common path (so two paths are needed when nothing is ignored) *)
Example C09_node_width_premises_satisfiable :
  ~ In 100%N (DilworthNode.expV xV) /\ ~ In 101%N (DilworthNode.expV xV) /\ 100%N <> 101%N /\
  (forall e, In e xE -> In (fst e) xV /\ In (snd e) xV) /\ NoDup xV /\ NoDup xE /\
  (forall u v, In (u, v) xE -> (posn [1; 2; 3; 4]%N u < posn [1; 2; 3; 4]%N v)%nat) /\ incl xV [1; 2; 3; 4]%N.
Proof. exact DilworthNode.node_diamond_premises. Qed.
Print Assumptions C09_node_width_premises_satisfiable.

Example C09_node_width_on_the_diamond_with_an_ignored_node :
  DilworthNode.nroute xV xE [1; 3; 4]%N /\ (forall v, In v xV -> ~ In v [2%N] -> In v [1; 3; 4]%N) /\
  DilworthNode.node_incompatible xV xE [2; 3]%N.
Proof. exact DilworthNode.node_diamond_ignoring_2. Qed.
Print Assumptions C09_node_width_on_the_diamond_with_an_ignored_node.

(* ---- audit additions (agent-c19) ---- *)
(* the premises of C09_min_node_walk_cover_equals_node_walk_width had no instance: the 2-cycle 1 <-> 2 with start 1 and end 2
   (source 100, sink 101 of the expansion) meets all of them -- every edge of the augmented expansion lies on a walk from the source
   to the sink -- and the one walk 1,2 (also 1,2,1,2) covers both nodes.  With node 1 ignored the theorem still returns a walk. *)
Example C09_node_walk_width_premises_satisfiable :
  let V := [1; 2]%N in let E := [(1, 2); (2, 1)]%N in let S := [1%N] in let T := [2%N] in
  ~ In 100%N (DilworthNode.expV V) /\ ~ In 101%N (DilworthNode.expV V) /\ 100%N <> 101%N /\
  (forall e, In e E -> In (fst e) V /\ In (snd e) V) /\ NoDup V /\
  (forall u v,
     In (u, v) (Aug.aug_edges (DilworthNode.expV V) (DilworthNode.expE V E) (map DilworthNode.x0 S) (map DilworthNode.x1 T) 100%N 101%N) ->
     Dilworth.conn (Aug.aug_edges (DilworthNode.expV V) (DilworthNode.expE V E) (map DilworthNode.x0 S) (map DilworthNode.x1 T) 100%N 101%N) 100%N u /\
     Dilworth.conn (Aug.aug_edges (DilworthNode.expV V) (DilworthNode.expE V E) (map DilworthNode.x0 S) (map DilworthNode.x1 T) 100%N 101%N) v 101%N) /\
  DilworthNode.nwalk V E S T [1; 2]%N /\ DilworthNode.nwalk V E S T [1; 2; 1; 2]%N.
Proof.
  cbn zeta.
  split; [cbn; intuition discriminate|]. split; [cbn; intuition discriminate|]. split; [discriminate|].
  split; [intros e He; cbn in He; destruct He as [<-|[<-|[]]]; cbn; tauto|].
  split; [repeat constructor; cbn; intuition discriminate|].
  split; [apply WalkWidth.st_ok_spec; vm_compute; reflexivity|].
  split; (split; [discriminate|]; split; [intros x Hx; cbn in Hx |- *; tauto|]; split; [intros e He; cbn in He |- *; tauto|]; split; vm_compute; reflexivity).
Qed.
Print Assumptions C09_node_walk_width_premises_satisfiable.

(* degenerate inputs of the node theorems, stated so that they cannot be mistaken for content: when EVERY node is ignored (or V is
   empty) nothing has to be covered, the node width is 0, W = [] and A = [] are the witnesses, and the end-to-end theorem says
   "Solved 0" for lb = 0.  The statements are true there for the right reason (0 paths cover nothing), but they say nothing about
   what the implementation does on such an input; the claim text says so. *)
Example C09_node_width_is_zero_when_everything_is_ignored :
  forall (W : list (list node)) (A : list node),
  (forall v, In v A -> In v xV /\ ~ In v xV) (* ign = V: the antichain of the theorem avoids every node *) -> length A = length W -> W = [].
Proof.
  intros W [|a A] H Hl; [destruct W; [reflexivity|discriminate Hl]|]. destruct (H a (or_introl eq_refl)) as [H1 H2]. contradiction.
Qed.
Print Assumptions C09_node_width_is_zero_when_everything_is_ignored.

(* the SOLVER-SPECIFICATION hypotheses of C09_node_minpathcover_returns_the_node_width, jointly with the premises of
   C09_node_width_premises_satisfiable: on the diamond with node 2 ignored the k-model of the expanded instance is feasible exactly for
   k >= 1 (the expansion 100,2,3,6,7,8,9,101 of the path 1,3,4 covers every non-ignored edge; zero paths do not cover node 1's edge), so
   feasible := (1 <=? k); from lb = 0 the statuses are Infeasible, Optimal, ... and the search returns the node width 1 *)
Definition C09_nP (i : N) : list node := [100; 2; 3; 6; 7; 8; 9; 101]%N.
Example C09_node_solver_hypotheses_satisfiable :
  let ignore := synth (DilworthNode.expV xV) (DilworthNode.expE xV xE) 100%N 101%N ++ DilworthNode.node_ignore xE [2%N] in
  let feasible := fun k => (1 <=? k)%nat in
  let sts := map (fun k => mkraw (if feasible k then Optimal else Infeasible) false) (seq 0 (S (length (DilworthNode.expE xV xE)))) in
  (forall k, feasible k = true <->
     exists a, sat a (encode_kpc (cover_inst (DilworthNode.expV xV) (DilworthNode.expE xV xE) 100%N 101%N k) ignore)) /\
  (forall i, (i < S (length (DilworthNode.expE xV xE)) - 0)%nat -> exists x, nth_error sts i = Some x /\
             status_of x = if feasible (0 + i)%nat then Optimal else Infeasible) /\
  so_res (mpc_solve true 0 (S (length (DilworthNode.expE xV xE))) sts) = Solved 1.
Proof.
  cbn zeta. destruct DilworthNode.node_diamond_premises as (Hs & Ht & Hst & HE & NDV & NDE & Htopo & Hincl).
  split; [|split].
  - intros k.
    rewrite (kpc_feasible_iff (cover_inst (DilworthNode.expV xV) (DilworthNode.expE xV xE) 100%N 101%N k) _
               (st_rank 100%N 101%N (DilworthNode.exp_topo [1; 2; 3; 4]%N)) (S (S (length (DilworthNode.exp_topo [1; 2; 3; 4]%N))))
               (st_of_wf _ _ 100%N 101%N Hs Ht Hst (DilworthNode.expE_ends xV xE HE) (DilworthNode.expV_nodup xV NDV) (DilworthNode.expE_nodup xV xE NDV NDE))
               eq_refl
               (st_rank_increasing _ _ 100%N 101%N Hs Ht Hst (DilworthNode.expE_ends xV xE HE) _ (DilworthNode.exp_topo_increasing xV xE _ Hincl Htopo))
               (fun v => st_rank_le 100%N 101%N Hst _ v)
               (fun c e (Hc : In c []) => match Hc with end)).
    rewrite Nat.leb_le. split.
    + intros Hk. exists C09_nP. split; [split|intros n c Hn; destruct n; discriminate].
      * intros i _. split; [reflexivity|]. split; [reflexivity|]. split; [repeat constructor; cbn; intuition discriminate|].
        intros e He. vm_compute in He. vm_compute. tauto.
      * intros e He Hig. exists 0%N. split; [destruct k; [lia|left; reflexivity]|].
        vm_compute in He.
        repeat (destruct He as [<-|He]; [first [vm_compute; reflexivity | vm_compute in Hig; discriminate Hig]|]). destruct He.
    + intros (P & (_ & Hcov) & _). destruct k; [exfalso|lia].
      destruct (Hcov (2, 3)%N ltac:(vm_compute; tauto) ltac:(vm_compute; reflexivity)) as (i & Hi & _). destruct Hi.
  - intros i Hi. change (length (DilworthNode.expE xV xE)) with 8%nat in *.
    do 9 (destruct i as [|i]; [eexists; split; reflexivity|]). lia.
  - vm_compute. reflexivity.
Qed.
Print Assumptions C09_node_solver_hypotheses_satisfiable.

From Coq Require String Ascii.
(* an injective naming node -> string exists (unary names), so C09_node_expansion_is_the_expansion_of_C11 is not about nothing *)
Fixpoint C09_unary (n : nat) : String.string := match n with O => String.EmptyString | S m => String.String (Ascii.ascii_of_nat 97) (C09_unary m) end.
Example C09_an_injective_naming_exists : forall u v : node, C09_unary (N.to_nat u) = C09_unary (N.to_nat v) -> u = v.
Proof.
  assert (L : forall n, String.length (C09_unary n) = n) by (induction n as [|n IH]; [reflexivity|cbn; rewrite IH; reflexivity]).
  intros u v H. apply N2Nat.inj. rewrite <- (L (N.to_nat u)), <- (L (N.to_nat v)), H. reflexivity.
Qed.
Print Assumptions C09_an_injective_naming_exists.
(* ---------------------------------------------------------------------------------------------------------------------------------- *)
(* The cyclic node-mode LP WITH its repetition caps, composed end to end in the caller's terms (NodeCoverE2E.v): MinPathCoverCycles with
   cover_type = 'node' returns the node walk width.  The caps of the cover model (|E*| * |V*| inside SCCs, 1 outside) always admit a
   minimum cover of bounded repetition (WalkWidthCaps.width_cover_is_admissible), so no side condition on the caps remains; the only
   premise about the expansion besides the solver specification is that every edge of the expanded s-t graph lies on a source-to-sink
   walk (decidable: WalkWidth.st_ok). *)
From FP Require Import WalkEncRows WalkSearch NodeCoverE2E.
Theorem C09_node_minpathcovercycles_returns_the_node_walk_width :
  forall (V : list node) (E : list PathEnc.edge) (S T : list node) (s t : node) (ign : list node) (out : nat -> outcome) (lb nE : nat),
  ~ In s (DilworthNode.expV V) -> ~ In t (DilworthNode.expV V) -> s <> t -> (forall e, In e E -> In (fst e) V /\ In (snd e) V) -> NoDup V -> NoDup E ->
  let A' := Aug.aug_edges (DilworthNode.expV V) (DilworthNode.expE V E) (map DilworthNode.x0 S) (map DilworthNode.x1 T) s t in
  (forall u v, In (u, v) A' -> Dilworth.conn A' s u /\ Dilworth.conn A' v t) ->
  (forall j, out j = Optimal <-> exists a, sat a (encode_kpcc (node_kpcc_inst V E S T s t ign j))) ->
  (forall j, out j = Infeasible <-> ~ exists a, sat a (encode_kpcc (node_kpcc_inst V E S T s t ign j))) ->
  exists (w : nat) (W : list (list node)) (A : list node),
    length W = w /\ (forall p, In p W -> DilworthNode.nwalk V E S T p) /\ (forall v, In v V -> ~ In v ign -> exists p, In p W /\ In v p) /\
    (forall W2, (forall p, In p W2 -> DilworthNode.nwalk V E S T p) -> (forall v, In v V -> ~ In v ign -> exists p, In p W2 /\ In v p) -> (w <= length W2)%nat) /\
    length A = w /\ NoDup A /\ (forall v, In v A -> In v V /\ ~ In v ign) /\ DilworthNode.node_incompatible V E A /\
    ((lb <= w <= nE)%nat -> mfdc_solve out (fun _ => false) None lb nE = Solved w).
Proof. exact node_minpathcovercycles_returns_the_node_walk_width. Qed.
Print Assumptions C09_node_minpathcovercycles_returns_the_node_walk_width.

(* non-vacuity: 1 -> 2 -> {3, 4} with a self-loop at 2 (a cycle, two sinks): every premise about the caller's input holds *)
Example C09_node_cyclic_premises_satisfiable :
  ~ In 100%N (DilworthNode.expV cxV) /\ ~ In 101%N (DilworthNode.expV cxV) /\ 100%N <> 101%N /\ (forall e, In e cxE -> In (fst e) cxV /\ In (snd e) cxV) /\
  NoDup cxV /\ NoDup cxE /\
  (let A' := Aug.aug_edges (DilworthNode.expV cxV) (DilworthNode.expE cxV cxE) (map DilworthNode.x0 []) (map DilworthNode.x1 []) 100%N 101%N in
   forall u v, In (u, v) A' -> Dilworth.conn A' 100%N u /\ Dilworth.conn A' v 101%N) /\
  DilworthNode.nwalk cxV cxE [] [] [1; 2; 2; 3]%N /\ DilworthNode.nwalk cxV cxE [] [] [1; 2; 4]%N.
Proof. exact cx_premises. Qed.
Print Assumptions C09_node_cyclic_premises_satisfiable.
