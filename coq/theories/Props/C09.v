(* C09 — minimum path/walk covers; width equals the optimum. *)
From Coq Require Import List NArith ZArith QArith Bool Arith Lia.
Import ListNotations.
From FP Require Import Lin Blocks BlocksProofs PathEnc PathEncProofs Reach Cover CoverProofs Search SearchProofs1 SearchProofs2.
Local Close Scope Q_scope.

(* the cover rows force every non-ignored edge into some layer; each layer is one route (C01) *)
Theorem C09_cover_rows_cover_every_nonignored_edge : forall (I : path_inst) (ignore : list PathEnc.edge) (a : var -> Q),
  sat a (encode_kpc I ignore) ->
  forall e, In e (g_edges (p_graph I)) -> mem_edge e ignore = false ->
  exists i, In i (layers (p_k I)) /\ xval a i e = 1%Z.
Proof. exact kpc_covers. Qed.
Print Assumptions C09_cover_rows_cover_every_nonignored_edge.

(* weak duality, abstract in the route type: serves paths and walks *)
Theorem C09_weak_duality : forall (Ed Rt : Type) (on : Ed -> Rt -> bool) (admissible : Rt -> Prop)
  (w : Ed -> Z) (dom A : list Ed) (P : list (Rt * Z)),
  antichain Ed Rt on admissible A -> incl A dom -> covers Ed Rt on admissible w dom P -> (zsum w A <= size Rt P)%Z.
Proof. exact weak_duality. Qed.
Print Assumptions C09_weak_duality.

(* a cover and an antichain of equal size certify each other's optimality *)
Theorem C09_certificate_optimal : forall (Ed Rt : Type) (on : Ed -> Rt -> bool) (admissible : Rt -> Prop)
  (w : Ed -> Z) (dom A : list Ed) (P0 : list (Rt * Z)),
  antichain Ed Rt on admissible A -> incl A dom -> covers Ed Rt on admissible w dom P0 -> zsum w A = size Rt P0 ->
  (forall P, covers Ed Rt on admissible w dom P -> (size Rt P0 <= size Rt P)%Z) /\
  (forall A', antichain Ed Rt on admissible A' -> incl A' dom -> (zsum w A' <= zsum w A)%Z).
Proof. exact certificate_opt. Qed.
Print Assumptions C09_certificate_optimal.

(* the executable certificate checker run on the implementation's answers *)
Theorem C09_checked_certificate_proves_the_optimum : forall V E s t W A P, certificate_ok V E s t W A P = true ->
  antichain_weight W A = cover_size P /\
  (forall P', covers Reach.edge (list node) on_route (st_route E s t) (wt W) E P' -> (cover_size P <= size (list node) P')%Z) /\
  (forall A', antichain_ok V E A' = true -> (antichain_weight W A' <= antichain_weight W A)%Z).
Proof. exact certificate_ok_opt. Qed.
Print Assumptions C09_checked_certificate_proves_the_optimum.

(* the minimum search over k *)
Theorem C09_search_returns_least_feasible_k : forall (feasible : nat -> bool) (lb ub kopt : nat) (sts : list raw),
  (forall i, (i < ub - lb)%nat -> exists x, nth_error sts i = Some x /\
             status_of x = if feasible (lb + i)%nat then Optimal else Infeasible) ->
  feasible kopt = true -> (forall k, (k < kopt)%nat -> feasible k = false) -> (lb <= kopt < ub)%nat ->
  so_res (mpc_solve true lb ub sts) = Solved kopt.
Proof. exact search_min. Qed.
Print Assumptions C09_search_returns_least_feasible_k.

(* the checker that decides coverage on every answer of the implementation *)
From FP Require Import Checkers CheckersProofs.
Theorem C09_cover_checker_correct : forall E ignore routes,
  covers_b E ignore routes = true <->
  forall e, In e E -> ~ In e ignore -> exists r, In r routes /\ In e (EulerProofs1.pairs r).
Proof. exact covers_b_correct. Qed.
Print Assumptions C09_cover_checker_correct.
