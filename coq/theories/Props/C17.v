(* C17 — substrate queries (reachability, antichain, bottleneck peeling) match the graph.
   Only property theorems (closed by [exact]), their assumptions, and non-vacuity examples.
   Models: Reach.v (closure; stDiGraph.nodes_reachable / nodes_reaching / is_scc_edge /
   compute_edge_max_reachable_value through the condensation; the per-node caches; the stDAG set DPs),
   Peel.v (graphutils.max_bottleneck_path, stDAG.decompose_using_max_bottleneck),
   Cover.v (antichain / cover checkers run on compute_max_edge_antichain's output).
   What networkx contributes (condensation mapping / edges / topological orders, adjacency orders)
   enters as data validated by the verified boolean checkers cond_ok / dag_topo_ok / peel_inputs_ok. *)
From Coq Require Import List NArith ZArith Bool Arith Lia.
Import ListNotations.
From FP Require Import Reach ReachProofs1 ReachProofs2 ReachProofs3 ReachProofs4
                       Peel PeelProofs1 PeelProofs2 PeelProofs3 Cover CoverProofs.
Open Scope Z_scope.

(* ------------------------------------------------------------------ reachability *)
Theorem C17_closure_correct : forall (U : list N) (step : N -> list N) (v y : N),
  NoDup U -> (forall x z, In x U -> In z (step x) -> In z U) -> In v U ->
  (In y (closure U step v) <-> reach step v y).
Proof. exact closure_correct_N. Qed.
Print Assumptions C17_closure_correct.

Theorem C17_cond_ok_sound : forall V E C, cond_ok V E C = true -> cond_spec V E C.
Proof. exact cond_ok_spec. Qed.
Print Assumptions C17_cond_ok_sound.

Theorem C17_nodes_reachable_correct : forall V E C v, cond_ok V E C = true ->
  (In v V -> exists l, nodes_reachable_cold V C v = Some l /\ forall x, In x l <-> greach E v x) /\
  (~ In v V -> nodes_reachable_cold V C v = None).
Proof. exact nodes_reachable_correct. Qed.
Print Assumptions C17_nodes_reachable_correct.

Theorem C17_nodes_reaching_correct : forall V E C v, cond_ok V E C = true ->
  (In v V -> exists l, nodes_reaching_cold V C v = Some l /\ forall x, In x l <-> greach E x v) /\
  (~ In v V -> nodes_reaching_cold V C v = None).
Proof. exact nodes_reaching_correct. Qed.
Print Assumptions C17_nodes_reaching_correct.

Theorem C17_is_scc_edge_correct : forall V E C u v, cond_ok V E C = true ->
  (In (u, v) E -> exists b, is_scc_edge_model E C u v = Some b /\ (b = true <-> greach E v u)) /\
  (~ In (u, v) E -> is_scc_edge_model E C u v = None).
Proof. exact is_scc_edge_correct. Qed.
Print Assumptions C17_is_scc_edge_correct.

(* in_scope E u v e' := e' = (u,v) \/ (e' in E and v reaches the tail of e') \/ (e' in E and the head of e' reaches u) *)
Theorem C17_edge_max_reachable_correct : forall V E C W u v, cond_ok V E C = true -> In (u, v) E ->
  let r := edge_max_reachable E C W (u, v) in
  (forall e', in_scope E u v e' -> wt W e' <= r) /\
  (r = 0 \/ exists e', in_scope E u v e' /\ r = wt W e') /\ 0 <= r.
Proof. exact edge_max_reachable_correct. Qed.
Print Assumptions C17_edge_max_reachable_correct.

Theorem C17_edge_max_reachable_is_max : forall V E C W u v, cond_ok V E C = true -> In (u, v) E ->
  (forall e, In e E -> 0 <= wt W e) ->
  let r := edge_max_reachable E C W (u, v) in
  (forall e', in_scope E u v e' -> wt W e' <= r) /\ (exists e', in_scope E u v e' /\ r = wt W e').
Proof. exact edge_max_reachable_is_max. Qed.
Print Assumptions C17_edge_max_reachable_is_max.

(* cache machine: alias = false = code_alias is the code as it is (an immutable set is returned, mutation attempts are
   refused); alias = true is the behaviour before /repo a35dc8c (the mutable cached set object itself was returned) *)
Theorem C17_cache_coherent : forall V E C alias qs,
  (alias = false \/ forallb (fun q => negb (is_mut q)) qs = true) ->
  qrun V E C alias cache0 qs = map (cold_answer V E C) qs.
Proof. exact cache_coherent_all. Qed.
Print Assumptions C17_cache_coherent.

Theorem C17_query_sequences_match_graph : forall V E C alias qs,
  cond_ok V E C = true -> (alias = false \/ forallb (fun q => negb (is_mut q)) qs = true) ->
  qrun V E C alias cache0 qs = map (cold_answer V E C) qs /\
  (forall v, In (QReach v) qs -> In v V -> exists l, cold_answer V E C (QReach v) = ANodes l /\ forall x, In x l <-> greach E v x) /\
  (forall v, In (QReaching v) qs -> In v V -> exists l, cold_answer V E C (QReaching v) = ANodes l /\ forall x, In x l <-> greach E x v).
Proof. exact query_sequences_match_graph. Qed.
Print Assumptions C17_query_sequences_match_graph.

(* The full statement: for EVERY sequence, including callers that try to mutate what they were handed, every answer of
   the code as it is equals the cold answer. *)
Theorem C17_cache_coherent_full_statement : forall V E C qs,
  qrun V E C code_alias cache0 qs = map (cold_answer V E C) qs.
Proof. exact cache_coherent_code. Qed.
Print Assumptions C17_cache_coherent_full_statement.

(* Documentation of the old behaviour (fixed finding stDiGraph.reachability:returns-cached-set, /repo a35dc8c): with the
   switch alias = true the full statement is false. *)
Theorem C17_cache_alias_refuted :
  cond_ok alias_witness_V alias_witness_E alias_witness_C = true /\
  qrun alias_witness_V alias_witness_E alias_witness_C true cache0 alias_witness_qs
    <> map (cold_answer alias_witness_V alias_witness_E alias_witness_C) alias_witness_qs.
Proof. exact cache_alias_refuted. Qed.
Print Assumptions C17_cache_alias_refuted.

(* stDAG dict properties *)
Theorem C17_dag_reachable_nodes_from_correct : forall V E topo, dag_topo_ok V E topo = true ->
  forall v, In v topo -> forall x, In x (dag_reachable_from E topo v) <-> greach E v x.
Proof. exact dag_reachable_from_sets. Qed.
Print Assumptions C17_dag_reachable_nodes_from_correct.

Theorem C17_dag_nodes_reaching_correct : forall V E topo, dag_topo_ok V E topo = true ->
  forall v, In v topo -> forall x, In x (dag_nodes_reaching E topo v) <-> greach E x v.
Proof. exact dag_nodes_reaching_sets. Qed.
Print Assumptions C17_dag_nodes_reaching_correct.

Theorem C17_dag_reachable_edges_from_correct : forall V E topo, dag_topo_ok V E topo = true ->
  forall v, In v topo -> forall e, In e (dag_reachable_edges_from E topo v) <-> In e E /\ greach E v (fst e).
Proof. exact dag_reachable_edges_from_sets. Qed.
Print Assumptions C17_dag_reachable_edges_from_correct.

Theorem C17_dag_reachable_edges_rev_from_correct : forall V E topo, dag_topo_ok V E topo = true ->
  forall v, In v topo -> forall e, In e (dag_reachable_edges_rev_from E topo v) <-> In e E /\ greach E (snd e) v.
Proof. exact dag_reachable_edges_rev_from_sets. Qed.
Print Assumptions C17_dag_reachable_edges_rev_from_correct.

(* ------------------------------------------------------------------ antichains and covers *)
Theorem C17_antichain_ok_correct : forall V E A,
  antichain_ok V E A = true <-> wf_graph V E /\ NoDup A /\ incl A E /\ pairwise_unreachable E A.
Proof. exact antichain_ok_iff. Qed.
Print Assumptions C17_antichain_ok_correct.

Theorem C17_antichain_ok_routes : forall V E A, antichain_ok V E A = true ->
  antichain edge (list node) on_route (walk_in E) A.
Proof. exact antichain_ok_routes. Qed.
Print Assumptions C17_antichain_ok_routes.

Theorem C17_weak_duality : forall (Ed Rt : Type) (on : Ed -> Rt -> bool) (admissible : Rt -> Prop)
  (w : Ed -> Z) (dom A : list Ed) (P : list (Rt * Z)),
  antichain Ed Rt on admissible A -> incl A dom -> covers Ed Rt on admissible w dom P -> zsum w A <= size Rt P.
Proof. exact weak_duality. Qed.
Print Assumptions C17_weak_duality.

Theorem C17_certificate_opt : forall (Ed Rt : Type) (on : Ed -> Rt -> bool) (admissible : Rt -> Prop)
  (w : Ed -> Z) (dom A : list Ed) (P0 : list (Rt * Z)),
  antichain Ed Rt on admissible A -> incl A dom -> covers Ed Rt on admissible w dom P0 -> zsum w A = size Rt P0 ->
  (forall P, covers Ed Rt on admissible w dom P -> size Rt P0 <= size Rt P) /\
  (forall A', antichain Ed Rt on admissible A' -> incl A' dom -> zsum w A' <= zsum w A).
Proof. exact certificate_opt. Qed.
Print Assumptions C17_certificate_opt.

Theorem C17_certificate_ok_opt : forall V E s t W A P, certificate_ok V E s t W A P = true ->
  antichain_weight W A = cover_size P /\
  (forall P', covers edge (list node) on_route (st_route E s t) (wt W) E P' -> cover_size P <= size (list node) P') /\
  (forall A', antichain_ok V E A' = true -> antichain_weight W A' <= antichain_weight W A).
Proof. exact certificate_ok_opt. Qed.
Print Assumptions C17_certificate_ok_opt.

(* stDAG's width cache (self.width): for EVERY history of get_width(edges_to_ignore) / compute_max_edge_antichain(weight_function)
   calls on one object, every answer is what a fresh object answers, whatever the external min-flow engine [solve] computes -- [solve] is a
   FUNCTION of the demand vector handed to it (a deterministic engine); an engine that answers the same demands differently is outside it:
   the cached width is read by get_width() with an empty ignore list only. *)
Theorem C17_width_cache_coherent : forall (s t : node) (solve : (edge -> Z) -> Z) (os : list wop),
  wrun s t solve None os = map (fun o => solve (wop_demand s t o)) os.
Proof. exact width_cache_coherent. Qed.
Print Assumptions C17_width_cache_coherent.

(* ------------------------------------------------------------------ bottleneck path and peeling *)
(* keyerr: false = code_nosink_keyerror = the code as it is; true = the behaviour before /repo 6d36e70 *)
Theorem C17_max_bottleneck_sound : forall keyerr G P S topo (f : edge -> Z) b p,
  peel_inputs_ok G P S topo = true -> nonneg G f ->
  max_bottleneck f (adj_of P) (adj_of S) keyerr topo = MBPath b p ->
  0 < b /\ pairs p <> [] /\ incl (pairs p) G /\ adj_of P (hd 0%N p) = [] /\ adj_of S (last p 0%N) = [] /\
  (forall e, In e (pairs p) -> b <= f e) /\ (exists e, In e (pairs p) /\ f e = b).
Proof. exact max_bottleneck_sound_checked. Qed.
Print Assumptions C17_max_bottleneck_sound.

Theorem C17_max_bottleneck_complete : forall keyerr G P S topo (f : edge -> Z),
  peel_inputs_ok G P S topo = true -> nonneg G f ->
  max_bottleneck f (adj_of P) (adj_of S) keyerr topo = MBNoPath ->
  forall p, ss_path G p -> exists e, In e (pairs p) /\ f e <= 0.
Proof. exact max_bottleneck_complete_checked. Qed.
Print Assumptions C17_max_bottleneck_complete.

Theorem C17_greedy_peeling_explains : forall G P S topo (f : edge -> Z),
  peel_inputs_ok G P S topo = true -> nonneg G f -> conserving G f ->
  exists D, decompose code_nosink_keyerror G (adj_of P) (adj_of S) topo f = PeelOK D /\   (* terminates with fuel #positive edges + 1, no KeyError *)
            (forall e, In e G -> explained D e = f e) /\                  (* path weights add up to the flow on every edge *)
            Forall (fun pw => ss_path G (fst pw) /\ 0 < snd pw) D /\      (* source-to-sink paths, positive weights *)
            (length D <= npos G f)%nat.                                   (* at most #positive edges rounds *)
Proof. exact greedy_peeling_explains_code. Qed.
Print Assumptions C17_greedy_peeling_explains.

(* without conservation: for ANY non-negative integer flow the returned paths are source-to-sink paths of the ORIGINAL
   graph with positive weights, no edge is explained beyond its flow, at most #positive edges rounds *)
Theorem C17_greedy_peeling_routes : forall G P S topo (f : edge -> Z),
  peel_inputs_ok G P S topo = true -> nonneg G f ->
  exists D, decompose code_nosink_keyerror G (adj_of P) (adj_of S) topo f = PeelOK D /\
            Forall (fun pw => ss_path G (fst pw) /\ 0 < snd pw) D /\
            (forall e, In e G -> 0 <= explained D e <= f e) /\
            (length D <= npos G f)%nat.
Proof. exact greedy_peeling_routes_code. Qed.
Print Assumptions C17_greedy_peeling_routes.

(* for either setting of the switch; the old behaviour needs a graph with at least one edge *)
Theorem C17_greedy_peeling_explains_switch : forall keyerr G P S topo (f : edge -> Z),
  peel_inputs_ok G P S topo = true -> keyerr = false \/ G <> [] -> nonneg G f -> conserving G f ->
  exists D, decompose keyerr G (adj_of P) (adj_of S) topo f = PeelOK D /\
            (forall e, In e G -> explained D e = f e) /\
            Forall (fun pw => ss_path G (fst pw) /\ 0 < snd pw) D /\
            (length D <= npos G f)%nat.
Proof. exact greedy_peeling_explains_checked. Qed.
Print Assumptions C17_greedy_peeling_explains_switch.

Theorem C17_explains_ok_correct : forall W D, explains_ok W D = true <-> forall e z, In (e, z) W -> explained D e = z.
Proof. exact explains_ok_correct. Qed.
Print Assumptions C17_explains_ok_correct.

(* ------------------------------------------------------------------ non-vacuity *)
(* a digraph with the SCC {1,2,3}: 0 -> 1 -> 2 -> 3 -> 1, 3 -> 4, 5 -> 4; condensation ids 10 (0), 11 ({1,2,3}), 12 (4), 13 (5) *)
Definition exV : list node := [0; 1; 2; 3; 4; 5]%N.
Definition exE : list edge := [(0, 1); (1, 2); (2, 3); (3, 1); (3, 4); (5, 4)]%N.
Definition exC : cond := {| c_map := map_of [(0, 10); (1, 11); (2, 11); (3, 11); (4, 12); (5, 13)]%N 99%N;
                            c_edges := [(10, 11); (11, 12); (13, 12)]%N; c_topo := [13; 10; 11; 12]%N |}.
Definition exW : list (edge * Z) := [((0, 1)%N, 1); ((1, 2)%N, 5); ((2, 3)%N, 3); ((3, 1)%N, 0); ((3, 4)%N, 2); ((5, 4)%N, 1099511627776)].
Example C17_nonvacuous_reach :
  cond_ok exV exE exC = true /\
  nodes_reachable_cold exV exC 2%N = Some [4; 1; 2; 3]%N /\
  nodes_reaching_cold exV exC 2%N = Some [0; 1; 2; 3]%N /\
  is_scc_edge_model exE exC 3%N 1%N = Some true /\ is_scc_edge_model exE exC 3%N 4%N = Some false /\
  is_scc_edge_model exE exC 4%N 3%N = None /\ nodes_reachable_cold exV exC 7%N = None /\
  map snd (edge_max_reachable_all exE exC exW) = [5; 5; 5; 5; 5; 1099511627776] /\
  qrun exV exE exC code_alias cache0 [QReach 2; QReaching 4; QMut true true 2 0; QReach 2; QScc 3 1; QReach 9]%N
    = map (cold_answer exV exE exC) [QReach 2; QReaching 4; QMut true true 2 0; QReach 2; QScc 3 1; QReach 9]%N.
Proof. vm_compute. repeat split; reflexivity. Qed.

(* a DAG: diamond 0 -> {1,2} -> 3 plus 3 -> 4, flow 3+2 *)
Definition exG : list edge := [(0, 1); (0, 2); (1, 3); (2, 3); (3, 4)]%N.
Definition exP : list (node * list node) := [(1, [0]); (2, [0]); (3, [1; 2]); (4, [3])]%N.
Definition exS : list (node * list node) := [(0, [1; 2]); (1, [3]); (2, [3]); (3, [4])]%N.
Definition exF : list (edge * Z) := [((0, 1)%N, 3); ((0, 2)%N, 2); ((1, 3)%N, 3); ((2, 3)%N, 2); ((3, 4)%N, 5)].
Example C17_nonvacuous_dag :
  dag_topo_ok [0; 1; 2; 3; 4]%N exG [0; 2; 1; 3; 4]%N = true /\
  dag_reachable_from exG [0; 2; 1; 3; 4]%N 1%N = [3; 4; 1]%N /\
  dag_nodes_reaching exG [0; 2; 1; 3; 4]%N 3%N = [2; 1; 0; 3]%N /\
  peel_inputs_ok exG exP exS [0; 2; 1; 3; 4]%N = true /\
  max_bottleneck_run exF exP exS [0; 2; 1; 3; 4]%N = MBPath 3 [0; 1; 3; 4]%N /\
  decompose_run exF exP exS [0; 2; 1; 3; 4]%N = PeelOK [([0; 1; 3; 4]%N, 3); ([0; 2; 3; 4]%N, 2)] /\
  explains_ok exF [([0; 1; 3; 4]%N, 3); ([0; 2; 3; 4]%N, 2)] = true /\
  (* antichain {(0,1),(0,2)} of weight 2 and a cover by two paths certify each other *)
  certificate_ok [0; 1; 2; 3; 4]%N exG 0%N 4%N (map (fun e => (e, 1)) exG) [(0, 1); (0, 2)]%N
                 [([0; 1; 3; 4]%N, 1); ([0; 2; 3; 4]%N, 1)] = true /\
  antichain_ok [0; 1; 2; 3; 4]%N exG [(0, 1); (3, 4)]%N = false.
Proof. vm_compute. repeat split; reflexivity. Qed.

(* the premises of the peeling theorem hold on the example (flow non-negative and conserving) *)
Example C17_nonvacuous_peel_premises : exG <> [] /\ nonneg exG (flow_of exF) /\ conserving exG (flow_of exF).
Proof.
  split; [discriminate|]. split.
  - intros e He. cbn in He. repeat (destruct He as [<-|He]; [vm_compute; discriminate|]). destruct He.
  - intros v Hi Ho.
    destruct (N.eq_dec v 0) as [->|]; [exfalso; apply Hi; reflexivity|].
    destruct (N.eq_dec v 1) as [->|]; [vm_compute; reflexivity|].
    destruct (N.eq_dec v 2) as [->|]; [vm_compute; reflexivity|].
    destruct (N.eq_dec v 3) as [->|]; [vm_compute; reflexivity|].
    destruct (N.eq_dec v 4) as [->|]; [exfalso; apply Ho; reflexivity|].
    exfalso. apply Hi. unfold ins, exG. cbn [filter snd].
    repeat match goal with |- context [(?a =? v)%N] => destruct (N.eqb_spec a v); [congruence|] end. reflexivity.
Qed.

(* audit (2026-10-02): instances of hypotheses no stated Example reached.  (a) the three premises of C17_closure_correct on the
   example graph (universe = its nodes, step = successors); (b) the non-negativity premise of C17_edge_max_reachable_is_max;
   (c) C17_max_bottleneck_complete on a NON-degenerate input: the diamond with flow 0 on its last edge has source-to-sink paths,
   every one of them contains an edge without flow, and the search answers MBNoPath (the edgeless graph below answers MBNoPath
   too, but there the conclusion is about no path at all) *)
Example C17_closure_premises_satisfiable :
  NoDup exV /\ (forall x z, In x exV -> In z (succs_of exE x) -> In z exV) /\ In 0%N exV /\
  (forall e, In e exE -> 0 <= wt exW e).
Proof.
  split; [repeat constructor; cbn; intuition discriminate|]. split; [|split; [left; reflexivity|]].
  - intros x z Hx Hz. cbn in Hx. repeat (destruct Hx as [<-|Hx]; [cbn in Hz; cbn; intuition|]). destruct Hx.
  - intros e He. cbn in He. repeat (destruct He as [<-|He]; [vm_compute; discriminate|]). destruct He.
Qed.
Definition exF0 : list (edge * Z) := [((0, 1)%N, 3); ((0, 2)%N, 2); ((1, 3)%N, 3); ((2, 3)%N, 2); ((3, 4)%N, 0)].
Example C17_max_bottleneck_no_path_on_a_graph_with_paths :
  peel_inputs_ok exG exP exS [0; 2; 1; 3; 4]%N = true /\ nonneg exG (flow_of exF0) /\
  max_bottleneck_run exF0 exP exS [0; 2; 1; 3; 4]%N = MBNoPath /\ ss_path exG [0; 1; 3; 4]%N.
Proof.
  split; [vm_compute; reflexivity|]. split; [|split; [vm_compute; reflexivity|]].
  - intros e He. cbn in He. repeat (destruct He as [<-|He]; [vm_compute; discriminate|]). destruct He.
  - vm_compute. intuition discriminate.
Qed.

(* a graph without edges: the code as it is returns ([], []); before /repo 6d36e70 it evaluated B[None] (fixed finding
   max_bottleneck_path:KeyError:no-edges), which the switch keyerr = true still documents *)
Example C17_peeling_no_edges : decompose_run [] [] [] [0]%N = PeelOK [] /\ max_bottleneck_run [] [] [] [0]%N = MBNoPath.
Proof. vm_compute. split; reflexivity. Qed.
Example C17_peeling_no_edges_keyerror_old_behaviour :
  decompose true [] (adj_of []) (adj_of []) [0]%N (flow_of []) = PeelKeyError.
Proof. vm_compute. reflexivity. Qed.

(* compute_max_edge_antichain after the external minimum flow (MinFlowCut.v).  The code searches from the source in the residual
   graph of "lowering the flow" -- forward along an edge only if its flow exceeds its lower bound w, backward along every edge --
   and returns the edges of weight >= 1 that leave the reached set R.  For ANY feasible flow f (f >= w >= 0, conservation at the inner
   nodes) such that the sink is not in R (no flow-lowering path: what optimality of the minimum flow means): R is closed under
   predecessors, so no edge enters it; every edge leaving it carries exactly w; these edges are pairwise not on a common path; their
   weights add up to the value of f.  Weak duality (cut argument on the ancestors of an antichain): every feasible flow is at least as
   large as the weight of every antichain.  Hence the extracted set is a MAXIMUM weight antichain and f a MINIMUM flow, and the
   assertion "weight of the antichain == minimum flow" in the code cannot fire on a flow with that property.  The residual search and
   the extraction are executable (MinFlowCut.mincut_model), tied to the code by the E3 stream E3_residual_antichain on the flow
   the implementation obtained, and the premises -- including "the sink is not residual-reachable" for the external solver's flow --
   are evaluated per instance by the extracted MinFlowCut.mincut_premises. *)
From Coq Require Import QArith.
Local Close Scope Q_scope.
From FP Require Lin Dilworth MinFlowCut.
Theorem C17_flow_value_crosses_every_predecessor_closed_cut :
  forall (E : list edge) (s t : node), (forall e, In e E -> snd e <> s) ->
  forall (g : edge -> Q) (R : list node),
  (forall v, v <> s -> v <> t -> (MinFlowCut.infl E g v == MinFlowCut.outfl E g v)%Q) ->
  NoDup R -> MinFlowCut.pred_closed E R -> In s R -> ~ In t R ->
  (MinFlowCut.value E s g == Lin.sumq g (MinFlowCut.cut E R))%Q.
Proof. exact MinFlowCut.cut_value. Qed.
Print Assumptions C17_flow_value_crosses_every_predecessor_closed_cut.

Theorem C17_every_flow_is_at_least_every_antichain :
  forall (E : list edge) (s t : node) (w : edge -> Q),
  (forall e, In e E -> snd e <> s) -> (forall e, In e E -> fst e <> t) -> (forall e, In e E -> Dilworth.conn E s (fst e)) ->
  (forall e, In e E -> (0 <= w e)%Q) ->
  forall (f : edge -> Q) (A : list edge),
  MinFlowCut.feasible E s t w f -> MinFlowCut.antichain_of E A -> (Lin.sumq w A <= MinFlowCut.value E s f)%Q.
Proof. exact MinFlowCut.flow_at_least_antichain. Qed.
Print Assumptions C17_every_flow_is_at_least_every_antichain.

Theorem C17_residual_cut_is_a_maximum_antichain :
  forall (E : list edge) (s t : node) (w : edge -> Q),
  (forall e, In e E -> snd e <> s) -> (forall e, In e E -> fst e <> t) -> (forall e, In e E -> Dilworth.conn E s (fst e)) ->
  (forall e, In e E -> (0 <= w e)%Q) ->
  forall (f : edge -> Q) (R : list node),
  NoDup E -> MinFlowCut.feasible E s t w f -> NoDup R -> In s R -> ~ In t R -> MinFlowCut.pred_closed E R ->
  (forall u v, In (u, v) E -> In u R -> (w (u, v) < f (u, v))%Q -> In v R) ->
  MinFlowCut.antichain_of E (MinFlowCut.cut E R) /\
  (MinFlowCut.value E s f == Lin.sumq w (MinFlowCut.cut E R))%Q /\
  (forall f', MinFlowCut.feasible E s t w f' -> (MinFlowCut.value E s f <= MinFlowCut.value E s f')%Q) /\
  (forall A, MinFlowCut.antichain_of E A -> (Lin.sumq w A <= Lin.sumq w (MinFlowCut.cut E R))%Q).
Proof. exact MinFlowCut.residual_cut_is_optimal. Qed.
Print Assumptions C17_residual_cut_is_a_maximum_antichain.

Theorem C17_residual_search_reaches_a_closed_set :
  forall (V : list node) (E : list edge) (w f : edge -> Q) (s : node),
  NoDup V -> (forall e, In e E -> In (fst e) V /\ In (snd e) V) -> In s V ->
  let R := MinFlowCut.reached V E w f s in
  NoDup R /\ In s R /\ MinFlowCut.pred_closed E R /\
  (forall u v, In (u, v) E -> In u R -> (w (u, v) < f (u, v))%Q -> In v R).
Proof. exact MinFlowCut.reached_spec. Qed.
Print Assumptions C17_residual_search_reaches_a_closed_set.

Theorem C17_residual_cut_is_a_maximum_antichain_checked :
  forall (V : list node) (E : list edge) (s t : node) (wl fl : list (edge * Q)),
  MinFlowCut.mincut_premises V E s t wl fl = true ->
  let w := MinFlowCut.qof wl in let f := MinFlowCut.qof fl in let A := snd (MinFlowCut.mincut_model V E s wl fl) in
  MinFlowCut.antichain_of E A /\ (Lin.sumq w A == MinFlowCut.value E s f)%Q /\
  (forall f', MinFlowCut.feasible E s t w f' -> (MinFlowCut.value E s f <= MinFlowCut.value E s f')%Q) /\
  (forall A2, MinFlowCut.antichain_of E A2 -> (Lin.sumq w A2 <= Lin.sumq w A)%Q).
Proof. exact MinFlowCut.mincut_checked. Qed.
Print Assumptions C17_residual_cut_is_a_maximum_antichain_checked.

(* non-vacuity on the diamond 1 -> {2,3} -> 4 with source edge 0 -> 1 and sink edge 4 -> 5: weight 1 on the four inner edges, flow 2
   through the source and sink edge and 1 on the inner edges: the premises hold, the search reaches {0, 1} and returns the two edges
   leaving node 1 *)
Example C17_residual_cut_premises_satisfiable :
  MinFlowCut.mincut_premises MinFlowCut.dmV MinFlowCut.dmE 0%N 5%N MinFlowCut.dmW MinFlowCut.dmF = true.
Proof. exact MinFlowCut.diamond_mincut_premises. Qed.
Print Assumptions C17_residual_cut_premises_satisfiable.

Example C17_residual_cut_on_the_diamond :
  MinFlowCut.mincut_model MinFlowCut.dmV MinFlowCut.dmE 0%N MinFlowCut.dmW MinFlowCut.dmF = ([1; 0]%N, [(1, 2); (1, 3)]%N).
Proof. exact MinFlowCut.diamond_mincut. Qed.
Print Assumptions C17_residual_cut_on_the_diamond.
