(* C04 — completeness of the cyclic flow-decomposition LP WITHIN THE CAPS OF THE MODEL, the resulting characterisation
   of feasibility, and the minimum theorem of MinFlowDecompCycles relative to the solver specification.
   admissible I P wt  (WalkEncIff.v)  =  P i are k source-to-sink walks of the graph, wt i non-negative weights of the
   requested type, sum_i wt i * mult_i(e) = f(e) on every non-ignored edge            (walk_decomposition)
   + wt i <= w_max, mult_i(e) <= cap(e) (for the code as it is: the edge's own flow value inside SCCs, 1 outside),
     mult_i(e) representable in the product helper's bit vector, wt i * mult_i(e) <= w_max       (within_caps)
   + the safety fixing of the instance is respected (zero rows, >= m / = 1)                 (respects_fixing)
   + every subset constraint (incl. appended safe sequences) is realised by one walk   (realises_constraints)
   + given weights are the weights                                                             (uses_given).
   Beyond the caps completeness is false: C04_within_caps_is_necessary (open finding rep_cap_from_own_flow). *)
From Coq Require Import List NArith ZArith QArith Bool Arith Lia Permutation.
Import ListNotations.
From FP Require Import Lin Blocks BlocksProofs PathEnc PathEncProofs Euler EulerProofs1 EulerProofs4 WalkDecode
                       SatCheck WalkEncRows WalkEncRowsProofs WalkSearch WalkExamples WalkTree WalkEncComplete WalkEncIff
                       WalkMinimum WalkChecked.
Local Close Scope Q_scope.

(* completeness: an admissible family of walks extends to a satisfying assignment (Sel / Dist from the first-visit
   spanning tree of each walk, Bit / Comp from the binary expansion of the multiplicities) — all option vectors *)
Theorem C04_admissible_walks_satisfy_the_lp : forall (I : kfdc_inst) (P : N -> list node) (wt : N -> Q),
  wf_stg (c_graph I) -> admissible I P wt -> exists a, sat a (encode_kfdc I).
Proof. exact kfdc_complete_admissible. Qed.
Print Assumptions C04_admissible_walks_satisfy_the_lp.

Theorem C04_lp_feasible_iff_admissible_decomposition : forall (I : kfdc_inst),
  wf_stg (c_graph I) -> o_allow_empty (c_opts I) = false -> inputs_ok I ->
  ((exists a, sat a (encode_kfdc I)) <-> (exists P wt, admissible I P wt)).
Proof. exact kfdc_feasible_iff_within_caps. Qed.
Print Assumptions C04_lp_feasible_iff_admissible_decomposition.

(* the same with the premises decided by the extracted checkers that run on every E1 instance *)
Theorem C04_lp_feasible_iff_admissible_decomposition_checked : forall (I : kfdc_inst),
  wf_stg_b (c_graph I) = true -> winputs_ok_b (kfdc_walk I) = true -> o_allow_empty (c_opts I) = false ->
  ((exists a, sat a (encode_kfdc I)) <-> (exists P wt, admissible I P wt)).
Proof. exact kfdc_feasible_iff_checked. Qed.
Print Assumptions C04_lp_feasible_iff_admissible_decomposition_checked.

(* MinFlowDecompCycles returns the least number of walks among the admissible decompositions *)
Theorem C04_returns_minimum_within_caps : forall (inst : nat -> kfdc_inst) (out : nat -> outcome) (tout : nat -> bool)
        (given : option nat) (lb nE kmin : nat),
  (forall j, c_k (inst j) = j /\ wf_stg (c_graph (inst j)) /\ o_allow_empty (c_opts (inst j)) = false /\ inputs_ok (inst j)) ->
  (forall j, out j = Optimal <-> exists a, sat a (encode_kfdc (inst j))) ->
  (forall j, out j = Infeasible <-> ~ exists a, sat a (encode_kfdc (inst j))) ->
  (forall j, tout j = false) ->
  (forall g, given = Some g -> exists P wt, admissible (inst g) P wt) ->
  (exists P wt, admissible (inst kmin) P wt) ->
  (forall j, j < kmin -> ~ exists P wt, admissible (inst j) P wt) ->
  lb <= kmin <= nE ->
  mfdc_solve out tout given lb nE = Solved kmin.
Proof. exact mfdc_returns_minimum_within_caps. Qed.
Print Assumptions C04_returns_minimum_within_caps.

From FP Require AuditExamples17.
(* ALL hypotheses of C04_returns_minimum_within_caps (solver specification included) hold for a concrete honest solver on the self-loop
   graph with flow 2: inst j = that input with k := j; an admissible decomposition into j walks exists exactly for j >= 1 (one walk of
   weight 1 going round twice and j - 1 walks of weight 0), so the j-model is satisfiable exactly for j >= 1; out = Infeasible, Optimal,
   Optimal, ...; and the search computes Solved 1 *)
Example C04_minimum_hypotheses_satisfiable :
  let inst := AuditExamples17.loopk in
  let out := AuditExamples17.cover_out in
  (forall j, c_k (inst j) = j /\ wf_stg (c_graph (inst j)) /\ o_allow_empty (c_opts (inst j)) = false /\ inputs_ok (inst j)) /\
  (forall j, out j = Optimal <-> exists a, sat a (encode_kfdc (inst j))) /\
  (forall j, out j = Infeasible <-> ~ exists a, sat a (encode_kfdc (inst j))) /\
  (forall j : nat, (fun _ : nat => false) j = false) /\
  (forall g, @None nat = Some g -> exists P wt, admissible (inst g) P wt) /\
  (exists P wt, admissible (inst 1) P wt) /\
  (forall j, j < 1 -> ~ exists P wt, admissible (inst j) P wt) /\ 0 <= 1 <= 3 /\
  mfdc_solve out (fun _ => false) None 0 3 = Solved 1.
Proof. exact AuditExamples17.loop_flow_search_hypotheses. Qed.
Print Assumptions C04_minimum_hypotheses_satisfiable.

(* for kFlowDecompCycles as it is (cap = the edge's own flow value) the caps that matter are: weights at most w_max and
   multiplicities at most cap(e); the bit-width and product clauses follow from the flow equation *)
Theorem C04_caps_of_the_code_as_it_is : forall (I : kfdc_inst) (P : N -> list node) (wt : N -> Q),
  c_scale_free I = false -> (0 < kfdc_wmax I)%Q -> walk_decomposition I P wt ->
  (forall i, In i (layers (c_k I)) -> (wt i <= kfdc_wmax I)%Q) ->
  (forall i e, In i (layers (c_k I)) -> In e (g_edges (c_graph I)) -> (inject_Z (mult P i e) <= cap (kfdc_walk I) e)%Q) ->
  within_caps I P wt.
Proof. exact within_caps_simple. Qed.
Print Assumptions C04_caps_of_the_code_as_it_is.

(* the cap condition cannot be dropped (finding rep_cap_from_own_flow) *)
Theorem C04_within_caps_is_necessary : exists I P wt,
  wf_stg (c_graph I) /\ walk_decomposition I P wt /\ respects_fixing I P /\ realises_constraints I P /\ WalkEncIff.uses_given I wt /\
  ~ within_caps I P wt /\ ~ exists a, sat a (encode_kfdc I).
Proof. exact within_caps_is_necessary. Qed.
Print Assumptions C04_within_caps_is_necessary.

(* non-vacuity: a self-loop traversed twice (flow 2, one walk of weight 1) is admissible, hence the LP is feasible *)
Example C04_complete_nonvacuous :
  admissible (loop_inst 2) loop2_P loop2_w /\ wf_stg_b (c_graph (loop_inst 2)) = true /\ winputs_ok_b (kfdc_walk (loop_inst 2)) = true /\
  mult loop2_P 0%N (0, 0)%N = 2%Z /\ exists a, sat a (encode_kfdc (loop_inst 2)).
Proof.
  split; [exact loop2_admissible|]. split; [vm_compute; reflexivity|]. split; [vm_compute; reflexivity|]. split; [vm_compute; reflexivity|].
  exact loop2_lp_feasible_by_completeness.
Qed.

(* ---- audit: all five hypotheses of C04_caps_of_the_code_as_it_is on the self-loop traversed twice ---- *)
From FP Require Import AuditExamples17.
Example C04_caps_hypotheses_satisfiable :
  c_scale_free (loop_inst 2) = false /\ (0 < kfdc_wmax (loop_inst 2))%Q /\ walk_decomposition (loop_inst 2) loop2_P loop2_w /\
  (forall i, In i (layers (c_k (loop_inst 2))) -> (loop2_w i <= kfdc_wmax (loop_inst 2))%Q) /\
  (forall i e, In i (layers (c_k (loop_inst 2))) -> In e (g_edges (c_graph (loop_inst 2))) ->
     (inject_Z (mult loop2_P i e) <= cap (kfdc_walk (loop_inst 2)) e)%Q).
Proof. exact caps_simple_hypotheses. Qed.
Print Assumptions C04_caps_hypotheses_satisfiable.
