(* C07 (cyclic) — a second, independently developed completeness proof and the LP-feasibility characterisation (agent-walk: WalkErrCompleteW.v, WalkErrIff.v, WalkChecked.v).
   Only property theorems (closed by [exact]), their assumptions, non-vacuity example. *)
From Coq Require Import List NArith ZArith QArith Bool Arith Lia Permutation.
Import ListNotations.
From FP Require Import Lin Blocks BlocksProofs PathEnc PathEncProofs Euler EulerProofs1 EulerProofs4 WalkDecode
                       SatCheck WalkEncRows WalkEncRowsProofs WalkExamples WalkErrEnc WalkErrEncProofs WalkErrExamples WalkTree WalkEncComplete WalkEncIff WalkCoverIff WalkErrCompleteW WalkErrIff WalkChecked.
Local Open Scope Q_scope.

(* completeness within the caps of the model and the resulting characterisation: the LP of kLeastAbsErrorsCycles is
   feasible exactly when k source-to-sink walks with weights of the requested type and error values exist such that
   multiplicities, weights and products respect the caps the class uses (repetition cap = compute_edge_max_reachable_value
   inside SCCs, 1 outside; w_max; bit width), the safety fixing is respected, the subset constraints are realised and
   the error values dominate |f(e) - sum_i w_i * mult_i(e)| on every non-ignored edge (klaec_admissible, WalkErrIff.v) *)
Theorem C07_walk_lp_feasible_iff_admissible : forall (I : werr_inst),
  wf_stg (x_graph I) -> o_allow_empty (x_opts I) = false -> winputs_ok (werr_walk I) ->
  ((exists a, sat a (encode_klae_cycles I)) <-> (exists P wt err, klaec_admissible I P wt err)).
Proof. exact klaec_feasible_iff_within_caps. Qed.
Print Assumptions C07_walk_lp_feasible_iff_admissible.

Theorem C07_walk_lp_feasible_iff_admissible_checked : forall (I : werr_inst),
  wf_stg_b (x_graph I) = true -> winputs_ok_b (werr_walk I) = true -> o_allow_empty (x_opts I) = false ->
  ((exists a, sat a (encode_klae_cycles I)) <-> (exists P wt err, klaec_admissible I P wt err)).
Proof. exact klaec_feasible_iff_checked. Qed.
Print Assumptions C07_walk_lp_feasible_iff_admissible_checked.

Example C07_walk_admissible_nonvacuous :
  klaec_admissible loop_err_inst (fun _ => [1; 0; 0; 2]%N) (fun _ => 1%Q) (fun _ => 1%Q).
Proof.
  split; [split; [|split; [|split; [|split; [|split; [|split]]]]]|].
  - intros i _. split; [reflexivity|]. split; [reflexivity|]. intros e He. cbn in He. cbn. tauto.
  - intros i _. split; [vm_compute; split; discriminate|]. intros _. exists 1%Z. reflexivity.
  - intros i e _ He. cbn in He. destruct He as [<-|[<-|[<-|[]]]]; vm_compute; discriminate.
  - intros i e _ He _. rewrite loop_err_basic in He. destruct He as [<-|[]]. vm_compute. reflexivity.
  - intros i e _ He. rewrite loop_err_basic in He. destruct He as [<-|[]]. vm_compute. discriminate.
  - split; [intros e i H|intros e i m H]; vm_compute in H; destruct H.
  - intros j c H. cbn in H. destruct j; discriminate.
  - intros e He. rewrite loop_err_basic in He. destruct He as [<-|[]].
    split; [vm_compute; split; discriminate|]. split; [intros _; exists 1%Z; reflexivity|]. vm_compute. split; discriminate.
Qed.

(* non-vacuity: the premises are satisfiable, with a non-zero error *)
Example C07_walk_premises_satisfiable :
  wf_stg (x_graph loop_err_inst) /\ o_allow_empty (x_opts loop_err_inst) = false /\
  sat loop_klae_sol (encode_klae_cycles loop_err_inst) /\ x_basic loop_err_inst = [(0, 0)%N] /\
  xint loop_klae_sol 0%N (0, 0)%N = 1%Z /\ (loop_klae_sol (errvar (0, 0)%N) == 1)%Q.
Proof.
  split; [exact loopG_wf|]. split; [reflexivity|]. split; [exact loop_klae_feasible|]. split; [exact loop_err_basic|].
  split; vm_compute; reflexivity.
Qed.

