(* C01 / C02 / C09 on digraphs with cycles (statements shared by several properties; to be moved into the
   per-property files by the coordinator).
   Models: WalkEncRows.encode_walks / encode_kfdc / encode_kpcc (tied by E1, harness/e1cyc.py). *)
From Coq Require Import List NArith ZArith QArith Bool Arith Lia Permutation.
Import ListNotations.
From FP Require Import Lin Blocks BlocksProofs PathEnc PathEncProofs Euler EulerProofs1 EulerProofs4 WalkDecode
                       SatCheck WalkEncRows WalkEncRowsProofs WalkExamples.
Local Close Scope Q_scope.

(* C01 (cyclic): the rows 17a 17b 21 22a 19c with the columns' bounds and integrality force every layer's
   multiplicity vector to be exactly ONE source-to-sink walk: the reconstruction succeeds, leaves nothing
   over and traverses every edge e exactly x_i(e) times (for every subclass: the block is inherited) *)
(* C02 (cyclic): kFlowDecompCycles' rows force sum_i W_i * x_i(e) = f(e) on every non-ignored edge, for
   each of the three product encodings (Pi = 0 / Pi = W shortcuts of the safety optimisations, bit expansion) *)
Theorem C02_kfdc_rows_force_flow : forall (I : kfdc_inst) (a : var -> Q),
  sat a (encode_kfdc I) -> forall e, In e (kept_edges I) ->
  (sumq (fun i => a (W i) * inject_Z (xint a i e)) (layers (c_k I)) == flow_of I e)%Q.
Proof. exact kfdc_flow_explained. Qed.
Print Assumptions C02_kfdc_rows_force_flow.

Theorem C02_kept_edges_are_the_non_ignored_edges : forall I e, In e (kept_edges I) <->
  In e (g_edges (c_graph I)) /\ mem_edge e (st_edges (c_graph I) ++ c_ignore I) = false.
Proof. exact kept_edges_spec. Qed.
Print Assumptions C02_kept_edges_are_the_non_ignored_edges.


(* non-vacuity: the premises are satisfiable (self-loop instance, solved with one walk going round once) *)
Example C02_walk_premises_satisfiable :
  wf_stg loopG /\ sat loop_sol (encode_kfdc (loop_inst 1)) /\ sat loop_sol (encode_kpcc loop_kpcc).
Proof. split; [exact loopG_wf|]. split; [exact loop_feasible|exact loop_kpcc_feasible]. Qed.

(* ---- audit: the hypothesis of C02_kfdc_rows_force_flow with a kept edge (the self-loop of flow 1): the explained flow is 1 * 1 ---- *)
Example C02_walk_kept_edge_is_explained :
  sat loop_sol (encode_kfdc (loop_inst 1)) /\ In (0, 0)%N (kept_edges (loop_inst 1)) /\
  (sumq (fun i => loop_sol (W i) * inject_Z (xint loop_sol i (0, 0)%N)) (layers (c_k (loop_inst 1))) == 1)%Q.
Proof.
  assert (Hk : In (0, 0)%N (kept_edges (loop_inst 1))) by (vm_compute; tauto).
  split; [exact loop_feasible|]. split; [exact Hk|]. rewrite (C02_kfdc_rows_force_flow (loop_inst 1) loop_sol loop_feasible (0, 0)%N Hk). vm_compute. reflexivity.
Qed.
Print Assumptions C02_walk_kept_edge_is_explained.
