(* C10 — constraints, ignored elements and extra start/end nodes behave as documented (DAG side;
   the cyclic subset-constraint rows are covered with the walk encoders). *)
From Coq Require Import List NArith ZArith QArith Bool Arith Lia.
Import ListNotations.
From FP Require Import Lin Blocks BlocksProofs PathEnc Aug AugProofs PathEncProofs.
Local Close Scope Q_scope.

(* every subpath constraint is contained, to the requested (edge- or length-weighted) fraction, in a
   SINGLE layer, for every assignment satisfying the generated rows *)
Theorem C10_constraint_realised_in_one_layer : forall (I : path_inst) (a : var -> Q),
  Forall (sat_col a) (base_cols I) -> Forall (sat_row a) (base_rows I) ->
  forall n c, nth_error (p_cons I) n = Some c ->
  exists i, In i (layers (p_k I)) /\
    (cons_length I c * p_cov I <= sumq (fun e => elen I e * a (Edge (fst e) (snd e) i)) c)%Q.
Proof. exact cons_rows_sound. Qed.
Print Assumptions C10_constraint_realised_in_one_layer.

(* ignoring an edge removes its influence: the generated model does not depend on its flow value *)
Theorem C10_ignored_edge_has_no_influence : forall (I : kfd_inst) (flow' : list (edge * Q)),
  (forall e, In e (g_edges (p_graph (f_base I))) -> mem_edge e (f_ignore I) = false ->
             lookup_q e flow' 0%Q = lookup_q e (f_flow I) 0%Q) ->
  encode_kfd {| f_base := f_base I; f_flow := flow'; f_ignore := f_ignore I; f_wmax := f_wmax I; f_int := f_int I |}
  = encode_kfd I.
Proof. exact kfd_ignore_frame. Qed.
Print Assumptions C10_ignored_edge_has_no_influence.

(* additional start/end nodes enlarge the admissible routes by exactly the routes starting/ending there *)
Theorem C10_additional_starts_attach_exactly : forall (V : list node) (E : list edge) (S T : list node) (s t : node),
  ~ In s V -> s <> t -> (forall e, In e E -> In (fst e) V /\ In (snd e) V) ->
  forall u, In (s, u) (aug_edges V E S T s t) <-> In u V /\ is_start E S u = true.
Proof. exact aug_spec_source. Qed.
Print Assumptions C10_additional_starts_attach_exactly.

Theorem C10_additional_ends_attach_exactly : forall (V : list node) (E : list edge) (S T : list node) (s t : node),
  ~ In t V -> s <> t -> (forall e, In e E -> In (fst e) V /\ In (snd e) V) ->
  forall u, In (u, t) (aug_edges V E S T s t) <-> In u V /\ is_end E T u = true.
Proof. exact aug_spec_sink. Qed.
Print Assumptions C10_additional_ends_attach_exactly.

(* the checker for containment of a constraint in ONE route (coverage 1) *)
From FP Require Import Checkers CheckersProofs.
Theorem C10_constraint_checker_correct : forall c routes,
  constraint_b c routes = true <-> exists r, In r routes /\ incl c (EulerProofs1.pairs r).
Proof. exact constraint_b_correct. Qed.
Print Assumptions C10_constraint_checker_correct.

(* converse of C10_constraint_realised_in_one_layer for kFlowDecomp (PathEncComplete.v): ANY decomposition whose paths
   cover every constraint to the required fraction is admitted by the generated model (no constraint-covering solution is
   cut off), and with soundness: the k-model is feasible iff such a decomposition exists *)
From FP Require Import PathEncComplete PathEncExample.
Theorem C10_constraint_rows_cut_off_nothing : forall (I : kfd_inst) (rank : node -> nat) (Rm : nat),
  PathEncProofs.wf_graph (p_graph (f_base I)) -> p_allow_empty (f_base I) = false ->
  (forall u v, In (u, v) (g_edges (p_graph (f_base I))) -> (rank u < rank v)%nat) -> (forall v, (rank v <= Rm)%nat) ->
  (forall c e, In c (p_cons (f_base I)) -> In e c -> In e (g_edges (p_graph (f_base I))) /\ (0 <= elen (f_base I) e)%Q) ->
  ((exists a, sat a (encode_kfd I)) <-> (exists P w, decomposition I P w /\ constraints_covered (f_base I) P)).
Proof. exact kfd_feasible_iff_cons. Qed.
Print Assumptions C10_constraint_rows_cut_off_nothing.

Example C10_premises_satisfiable :
  (decomposition (exI 2) exP exW /\ constraints_covered (f_base (exI 2)) exP) /\ exists a, sat a (encode_kfd (exI 2)).
Proof. exact (conj ex_decomposition ex_lp_feasible_2). Qed.
Print Assumptions C10_premises_satisfiable.

(* ---- audit: instances of exactly the hypotheses ---- *)
(* C10_constraint_realised_in_one_layer with a real constraint ([(0,1); (1,3)] of the diamond, coverage 1, k = 2) *)
Example C10_constraint_premises_hold : exists a : var -> Q,
  Forall (sat_col a) (base_cols (f_base (exI 2))) /\ Forall (sat_row a) (base_rows (f_base (exI 2))) /\
  nth_error (p_cons (f_base (exI 2))) 0 = Some [(0, 1); (1, 3)]%N /\
  exists i, In i (layers 2) /\
    (cons_length (f_base (exI 2)) [(0, 1); (1, 3)]%N * p_cov (f_base (exI 2)) <=
     sumq (fun e => elen (f_base (exI 2)) e * a (Edge (fst e) (snd e) i)) [(0, 1); (1, 3)]%N)%Q.
Proof.
  destruct ex_lp_feasible_2 as (a & [Hc Hr]). exists a. unfold encode_kfd in Hc, Hr. cbn [cols rows] in Hc, Hr. rewrite Forall_app in Hc, Hr.
  destruct Hc as [Hc _]. destruct Hr as [Hr _].
  split; [exact Hc|]. split; [exact Hr|]. split; [reflexivity|].
  exact (C10_constraint_realised_in_one_layer (f_base (exI 2)) a Hc Hr 0%nat _ eq_refl).
Qed.
Print Assumptions C10_constraint_premises_hold.

(* C10_ignored_edge_has_no_influence: ignore (0,1) of the diamond and change its flow from 2 to 7: the premise holds, the LPs are equal *)
Definition exIgn (f01 : Q) : kfd_inst :=
  {| f_base := exB 2; f_flow := [((0, 1), f01); ((0, 2), 3%Q); ((1, 3), 2%Q); ((2, 3), 3%Q)]%N; f_ignore := [(0, 1)%N]; f_wmax := 3%Q; f_int := true |}.
Example C10_ignored_edge_premise_holds :
  (forall e, In e (g_edges (p_graph (f_base (exIgn 2%Q)))) -> mem_edge e (f_ignore (exIgn 2%Q)) = false ->
             lookup_q e (f_flow (exIgn 7%Q)) 0%Q = lookup_q e (f_flow (exIgn 2%Q)) 0%Q) /\
  lookup_q (0, 1)%N (f_flow (exIgn 7%Q)) 0%Q <> lookup_q (0, 1)%N (f_flow (exIgn 2%Q)) 0%Q /\
  encode_kfd (exIgn 7%Q) = encode_kfd (exIgn 2%Q).
Proof.
  assert (H : forall e, In e (g_edges (p_graph (f_base (exIgn 2%Q)))) -> mem_edge e (f_ignore (exIgn 2%Q)) = false ->
             lookup_q e (f_flow (exIgn 7%Q)) 0%Q = lookup_q e (f_flow (exIgn 2%Q)) 0%Q).
  { intros e He Hm. cbn in He. destruct He as [<-|[<-|[<-|[<-|[]]]]]; try reflexivity. vm_compute in Hm. discriminate. }
  split; [exact H|]. split; [vm_compute; discriminate|].
  exact (C10_ignored_edge_has_no_influence (exIgn 2%Q) (f_flow (exIgn 7%Q)) H).
Qed.
Print Assumptions C10_ignored_edge_premise_holds.

(* C10_constraint_rows_cut_off_nothing: all five premises on the diamond, both sides of the equivalence inhabited for k = 2 and
   both empty for k = 1 (the constraint and the second branch need two paths) *)
Example C10_cut_off_nothing_premises_hold :
  PathEncProofs.wf_graph (p_graph (f_base (exI 2))) /\ p_allow_empty (f_base (exI 2)) = false /\
  (forall u v, In (u, v) (g_edges (p_graph (f_base (exI 2)))) -> (exRank u < exRank v)%nat) /\ (forall v, (exRank v <= 3)%nat) /\
  (forall c e, In c (p_cons (f_base (exI 2))) -> In e c -> In e (g_edges (p_graph (f_base (exI 2)))) /\ (0 <= elen (f_base (exI 2)) e)%Q) /\
  (exists a, sat a (encode_kfd (exI 2))) /\ (~ exists a, sat a (encode_kfd (exI 1))).
Proof.
  split; [exact ex_wf|]. split; [reflexivity|]. split; [exact ex_rank|]. split; [exact ex_rank_le|]. split; [exact (ex_cons_ok 2)|].
  split; [exact ex_lp_feasible_2|exact ex_lp_infeasible_1].
Qed.
Print Assumptions C10_cut_off_nothing_premises_hold.
