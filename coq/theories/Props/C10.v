(* C10 — constraints, ignored elements and extra start/end nodes behave as documented (DAG side;
   the cyclic subset-constraint rows are covered with the walk encoders). *)
From Coq Require Import List NArith ZArith QArith Bool Arith Lia.
Import ListNotations.
From FP Require Import Lin Blocks BlocksProofs PathEnc Aug AugProofs PathEncProofs.
Local Close Scope Q_scope.

(* every subpath constraint is contained, to the requested (edge- or length-weighted) fraction, in a
   SINGLE layer, for every assignment satisfying the generated rows *)
Theorem C10_constraint_realised_in_one_layer : forall (I : path_inst) (a : var -> Q),
  Forall (sat_col a) (base_cols I) -> Forall (sat_row a) (base_rows I) ->
  forall n c, nth_error (p_cons I) n = Some c ->
  exists i, In i (layers (p_k I)) /\
    (cons_length I c * p_cov I <= sumq (fun e => elen I e * a (Edge (fst e) (snd e) i)) c)%Q.
Proof. exact cons_rows_sound. Qed.
Print Assumptions C10_constraint_realised_in_one_layer.

(* ignoring an edge removes its influence: the generated model does not depend on its flow value *)
Theorem C10_ignored_edge_has_no_influence : forall (I : kfd_inst) (flow' : list (edge * Q)),
  (forall e, In e (g_edges (p_graph (f_base I))) -> mem_edge e (f_ignore I) = false ->
             lookup_q e flow' 0%Q = lookup_q e (f_flow I) 0%Q) ->
  encode_kfd {| f_base := f_base I; f_flow := flow'; f_ignore := f_ignore I; f_wmax := f_wmax I; f_int := f_int I |}
  = encode_kfd I.
Proof. exact kfd_ignore_frame. Qed.
Print Assumptions C10_ignored_edge_has_no_influence.

(* additional start/end nodes enlarge the admissible routes by exactly the routes starting/ending there *)
Theorem C10_additional_starts_attach_exactly : forall (V : list node) (E : list edge) (S T : list node) (s t : node),
  ~ In s V -> s <> t -> (forall e, In e E -> In (fst e) V /\ In (snd e) V) ->
  forall u, In (s, u) (aug_edges V E S T s t) <-> In u V /\ is_start E S u = true.
Proof. exact aug_spec_source. Qed.
Print Assumptions C10_additional_starts_attach_exactly.

Theorem C10_additional_ends_attach_exactly : forall (V : list node) (E : list edge) (S T : list node) (s t : node),
  ~ In t V -> s <> t -> (forall e, In e E -> In (fst e) V /\ In (snd e) V) ->
  forall u, In (u, t) (aug_edges V E S T s t) <-> In u V /\ is_end E T u = true.
Proof. exact aug_spec_sink. Qed.
Print Assumptions C10_additional_ends_attach_exactly.

(* the checker for containment of a constraint in ONE route (coverage 1) *)
From FP Require Import Checkers CheckersProofs.
Theorem C10_constraint_checker_correct : forall c routes,
  constraint_b c routes = true <-> exists r, In r routes /\ incl c (EulerProofs1.pairs r).
Proof. exact constraint_b_correct. Qed.
Print Assumptions C10_constraint_checker_correct.

(* converse of C10_constraint_realised_in_one_layer for kFlowDecomp (PathEncComplete.v): ANY decomposition whose paths
   cover every constraint to the required fraction is admitted by the generated model (no constraint-covering solution is
   cut off), and with soundness: the k-model is feasible iff such a decomposition exists *)
From FP Require Import PathEncComplete PathEncExample.
Theorem C10_constraint_rows_cut_off_nothing : forall (I : kfd_inst) (rank : node -> nat) (Rm : nat),
  PathEncProofs.wf_graph (p_graph (f_base I)) -> p_allow_empty (f_base I) = false ->
  (forall u v, In (u, v) (g_edges (p_graph (f_base I))) -> (rank u < rank v)%nat) -> (forall v, (rank v <= Rm)%nat) ->
  (forall c e, In c (p_cons (f_base I)) -> In e c -> In e (g_edges (p_graph (f_base I))) /\ (0 <= elen (f_base I) e)%Q) ->
  ((exists a, sat a (encode_kfd I)) <-> (exists P w, decomposition I P w /\ constraints_covered (f_base I) P)).
Proof. exact kfd_feasible_iff_cons. Qed.
Print Assumptions C10_constraint_rows_cut_off_nothing.

Example C10_premises_satisfiable :
  (decomposition (exI 2) exP exW /\ constraints_covered (f_base (exI 2)) exP) /\ exists a, sat a (encode_kfd (exI 2)).
Proof. exact (conj ex_decomposition ex_lp_feasible_2). Qed.
Print Assumptions C10_premises_satisfiable.
