(* C05 — the lower-bound options of MinFlowDecomp / MinFlowDecompCycles never cut off the optimum (LowerBounds.v).
   Only property theorems (closed by [exact]), their assumptions, non-vacuity examples.
   get_lowerbound_k starts the search for the least k at max(lowerbound_k, ceil(log2(#distinct flow values)), width,
   [use_min_gen_set_lowerbound: size of a minimum generating set of the flow values for the source flow],
   [use_subgraph_scanning_lowerbound: optimum of a window subgraph]).  A bound is sound when every decomposition has at
   least that many routes: then (kfd_feasible_iff, C02/C03) the k-models skipped below it are infeasible and the option
   changes neither solvability nor the optimum.  The width bound is C03_decomposition_has_at_least_antichain_many_paths;
   here: the log2 bound and the min-generating-set bound (paths and walks, with the cut behind the partition constraints).
   The subgraph-scanning bound: SubgraphBound.v (C05_subgraph_scanning_lower_bound_is_sound below); the executable
   window_subgraph is tied to graphutils.get_subgraph_between_topological_nodes by the E3 stream of harness/e3window.py. *)
From Coq Require Import List NArith ZArith QArith Bool Arith Lia Permutation.
Import ListNotations.
From FP Require Import Lin Blocks BlocksProofs PathEnc PathEncProofs PathEncComplete PathEncGiven EulerProofs1 WalkTree
                       MiscEnc MiscEncProofs WalkEnc WalkEncRows WalkEncComplete WalkEncIff LowerBounds.
Local Close Scope Q_scope.

(* k paths produce at most 2^k different sums: n pairwise different values on edges to be explained need 2^k >= n *)
Theorem C05_distinct_flow_values_need_log2_many_paths :
  forall (I : kfd_inst) (P : N -> list node) (w : N -> Q) (L : list PathEnc.edge),
  decomposition I P w ->
  (forall e, In e L -> In e (g_edges (p_graph (f_base I))) /\ mem_edge e (f_ignore I) = false) ->
  ForallOrdPairs (fun e e' => ~ (LowerBounds.flow_of I e == LowerBounds.flow_of I e')%Q) L ->
  (length L <= 2 ^ p_k (f_base I))%nat /\ (Nat.log2_up (length L) <= p_k (f_base I))%nat.
Proof. intros I P w L D HL Hd. split; [exact (distinct_values_bound I P w L D HL Hd)|exact (log2_bound I P w L D HL Hd)]. Qed.
Print Assumptions C05_distinct_flow_values_need_log2_many_paths.

(* use_min_gen_set_lowerbound (DAG): in an s-t graph whose ignored edges are exactly the synthetic ones and whose sources are
   fed by the synthetic source only (no additional starts -- the guard `not ignores_weighted_edges` of the code), the
   weights of the paths of ANY decomposition that cross the edges leaving the sources form a generating multiset with
   multiplicity 1 for (flow values, source flow) of at most k elements; so a MINIMUM generating set has at most k *)
Theorem C05_min_gen_set_lower_bound_is_sound :
  forall (I : kfd_inst) (P : N -> list node) (w : N -> Q) (L : list PathEnc.edge),
  let G := p_graph (f_base I) in let E := g_edges G in let s := g_src G in let t := g_snk G in
  decomposition I P w -> wf_graph G ->
  (forall u x, In (s, u) E -> In (x, u) E -> x = s) ->
  (forall e, In e E -> mem_edge e (f_ignore I) = true -> fst e = s \/ snd e = t) ->
  (forall u, In (s, u) E -> mem_edge (s, u) (f_ignore I) = true) ->
  (forall e, In e L -> In e E /\ mem_edge e (f_ignore I) = false) ->
  exists g : list Q, (length g <= p_k (f_base I))%nat /\
    genset 1 (map (LowerBounds.flow_of I) L) (sumq (LowerBounds.flow_of I) (src_cut G (f_ignore I))) g /\
    (f_int I = true -> Forall is_int g).
Proof. exact min_gen_set_bound. Qed.
Print Assumptions C05_min_gen_set_lower_bound_is_sound.

(* the same for MinFlowDecompCycles: walks may repeat edges, so the multiset generates the flow values with multiplicities up
   to M, any bound on the number of traversals of an edge by one walk (MinGenSet's max_multiplicity) *)
Theorem C05_min_gen_set_lower_bound_is_sound_for_walks :
  forall (I : kfdc_inst) (P : N -> list node) (wt : N -> Q) (M : nat) (L : list PathEnc.edge),
  let G := c_graph I in let E := g_edges G in let s := g_src G in let t := g_snk G in
  walk_decomposition I P wt -> wf_graph G ->
  (forall u x, In (s, u) E -> In (x, u) E -> x = s) ->
  (forall e, In e E -> mem_edge e (kfdc_ignore I) = true -> fst e = s \/ snd e = t) ->
  (forall u, In (s, u) E -> mem_edge (s, u) (kfdc_ignore I) = true) ->
  (forall i e, In i (layers (c_k I)) -> In e (kept_edges I) -> (mult P i e <= Z.of_nat M)%Z) ->
  (forall e, In e L -> In e (kept_edges I)) ->
  exists g : list Q, (length g <= c_k I)%nat /\
    genset M (map (WalkEncRows.flow_of I) L) (sumq (WalkEncRows.flow_of I) (src_cut G (kfdc_ignore I))) g /\
    (c_int I = true -> Forall is_int g).
Proof. exact min_gen_set_bound_walks. Qed.
Print Assumptions C05_min_gen_set_lower_bound_is_sound_for_walks.

(* a source-to-sink walk (hence path) traverses exactly one edge leaving a source, once -- or it is s,u,t *)
Theorem C05_every_route_crosses_the_source_cut_once :
  forall (G : stgraph) (ignore : list PathEnc.edge), wf_graph G ->
  (forall u x, In (g_src G, u) (g_edges G) -> In (x, u) (g_edges G) -> x = g_src G) ->
  (forall e, In e (g_edges G) -> mem_edge e ignore = true -> fst e = g_src G \/ snd e = g_snk G) ->
  (forall u, In (g_src G, u) (g_edges G) -> mem_edge (g_src G, u) ignore = true) ->
  forall p, hd_error p = Some (g_src G) -> last p (g_src G) = g_snk G -> incl (pairs p) (g_edges G) ->
  sumz (multz (pairs p)) (src_cut G ignore) = 1%Z \/
  (sumz (multz (pairs p)) (src_cut G ignore) = 0%Z /\
   forall e, In e (g_edges G) -> mem_edge e ignore = false -> multz (pairs p) e = 0%Z).
Proof. exact src_cut_crossing. Qed.
Print Assumptions C05_every_route_crosses_the_source_cut_once.

(* use_min_gen_set_lowerbound_partition_constraints: over ANY cut C of edges to be explained that every route crosses exactly
   once (or not at all, carrying nothing) the crossing weights sum to the flow over C and split into the flows of C's edges *)
Theorem C05_partition_constraints_are_sound :
  forall (k : nat) (w : N -> Q) (m : N -> PathEnc.edge -> Z) (flow : PathEnc.edge -> Q) (live : PathEnc.edge -> Prop)
         (C : list PathEnc.edge),
  (forall e, live e -> (sumq (fun i => w i * inject_Z (m i e)) (layers k) == flow e)%Q) ->
  (forall e, In e C -> live e) ->
  (forall i, In i (layers k) -> cntz m C i = 1%Z \/ (cntz m C i = 0%Z /\ forall e, live e -> m i e = 0%Z)) ->
  (sumql (gw k w m C) == sumq flow C)%Q /\
  forall e, In e C -> (sumq (fun i => w i * inject_Z (m i e)) (sel k m C) == flow e)%Q.
Proof.
  intros k w m flow live C Hf HC Hx. split; [exact (gw_total k w m flow live C Hf HC Hx)|].
  intros e He. exact (cut_partitions_weights k w m flow live C Hf HC Hx e He).
Qed.
Print Assumptions C05_partition_constraints_are_sound.

(* the search may start at max(log2 bound, min-gen-set bound): no decomposition exists below it *)
Theorem C05_lower_bounds_cut_off_nothing :
  forall (inst : nat -> kfd_inst) (L : list PathEnc.edge) (mgs : nat),
  (forall k, p_k (f_base (inst k)) = k) ->
  (forall k e, In e L -> In e (g_edges (p_graph (f_base (inst k)))) /\ mem_edge e (f_ignore (inst k)) = false) ->
  (forall k, ForallOrdPairs (fun e e' => ~ (LowerBounds.flow_of (inst k) e == LowerBounds.flow_of (inst k) e')%Q) L) ->
  (forall k g, genset 1 (map (LowerBounds.flow_of (inst k)) L)
                      (sumq (LowerBounds.flow_of (inst k)) (src_cut (p_graph (f_base (inst k))) (f_ignore (inst k)))) g ->
               (mgs <= length g)%nat) ->
  (forall k, let G := p_graph (f_base (inst k)) in
     wf_graph G /\ (forall u x, In (g_src G, u) (g_edges G) -> In (x, u) (g_edges G) -> x = g_src G) /\
     (forall e, In e (g_edges G) -> mem_edge e (f_ignore (inst k)) = true -> fst e = g_src G \/ snd e = g_snk G) /\
     (forall u, In (g_src G, u) (g_edges G) -> mem_edge (g_src G, u) (f_ignore (inst k)) = true)) ->
  forall k, (k < Nat.max (Nat.log2_up (length L)) mgs)%nat -> ~ exists P w, decomposition (inst k) P w.
Proof. exact lower_bounds_cut_off_nothing. Qed.
Print Assumptions C05_lower_bounds_cut_off_nothing.

(* END TO END for use_min_gen_set_lowerbound (no partition constraints): the size MinGenSet REPORTS -- its k-search over
   the rows of encode_mgs under the solver specification (C15) -- for the flow values and the source flow is at most the
   number of paths of ANY decomposition with at least lb paths; composed from the theorem above, the completeness of the
   MinGenSet rows and MinGenSet's minimality (MgsComplete.v, agent-misc) *)
From FP Require Import MgsComplete LowerBoundsMgs.
Theorem C05_min_gen_set_option_is_sound :
  forall (J : kfd_inst) (P : N -> list node) (w : N -> Q)
         (I : mgs_inst) (status : nat -> mstatus) (lb n : nat) (extra : Z) (tried : list nat) (m : nat),
  let G := p_graph (f_base J) in let E := g_edges G in let s := g_src G in let t := g_snk G in
  decomposition J P w -> wf_graph G ->
  (forall u x, In (s, u) E -> In (x, u) E -> x = s) ->
  (forall e, In e E -> mem_edge e (f_ignore J) = true -> fst e = s \/ snd e = t) ->
  (forall u, In (s, u) E -> mem_edge (s, u) (f_ignore J) = true) ->
  mg_parts I = None -> mg_mult I = 1%nat -> mg_int I = f_int J ->
  (forall a, In a (mg_numbers I) -> exists e, In e E /\ mem_edge e (f_ignore J) = false /\ (a == LowerBounds.flow_of J e)%Q) ->
  (mg_total I == sumq (LowerBounds.flow_of J) (src_cut G (f_ignore J)))%Q ->
  (forall k, status k = MgOptimal -> exists a, sat a (encode_mgs I k)) ->
  (forall k, status k = MgInfeasible -> forall a, ~ sat a (encode_mgs I k)) ->
  mgsm_loop status lb n extra = (tried, Some m) ->
  (lb <= p_k (f_base J))%nat -> (1 <= p_k (f_base J))%nat ->
  (m <= p_k (f_base J))%nat.
Proof. exact min_gen_set_option_is_sound. Qed.
Print Assumptions C05_min_gen_set_option_is_sound.

(* the same for MinFlowDecompCycles (max_multiplicity = mg_mult I; the seeded change C04-selfloop-mingenset-bound, which forced
   multiplicity 1 on self-loop graphs, falsifies exactly the hypothesis `mult P i e <= mg_mult I`) *)
From FP Require Import LowerBoundsMgsW.
Theorem C05_min_gen_set_option_is_sound_for_walks :
  forall (J : kfdc_inst) (P : N -> list node) (wt : N -> Q)
         (I : mgs_inst) (status : nat -> mstatus) (lb n : nat) (extra : Z) (tried : list nat) (m : nat),
  let G := c_graph J in let E := g_edges G in let s := g_src G in let t := g_snk G in
  walk_decomposition J P wt -> wf_graph G ->
  (forall u x, In (s, u) E -> In (x, u) E -> x = s) ->
  (forall e, In e E -> mem_edge e (kfdc_ignore J) = true -> fst e = s \/ snd e = t) ->
  (forall u, In (s, u) E -> mem_edge (s, u) (kfdc_ignore J) = true) ->
  mg_parts I = None -> (1 <= mg_mult I)%nat -> mg_int I = c_int J ->
  (forall i e, In i (layers (c_k J)) -> In e (kept_edges J) -> (mult P i e <= Z.of_nat (mg_mult I))%Z) ->
  (forall a, In a (mg_numbers I) -> exists e, In e (kept_edges J) /\ (a == WalkEncRows.flow_of J e)%Q) ->
  (mg_total I == sumq (WalkEncRows.flow_of J) (src_cut G (kfdc_ignore J)))%Q ->
  (forall k, status k = MgOptimal -> exists a, sat a (encode_mgs I k)) ->
  (forall k, status k = MgInfeasible -> forall a, ~ sat a (encode_mgs I k)) ->
  mgsm_loop status lb n extra = (tried, Some m) ->
  (lb <= c_k J)%nat -> (1 <= c_k J)%nat ->
  (m <= c_k J)%nat.
Proof. exact min_gen_set_option_is_sound_walks. Qed.
Print Assumptions C05_min_gen_set_option_is_sound_for_walks.

(* END TO END from the caller's input (EndToEndBounds.v over EndToEnd3 / LowerBounds / SubgraphBound): MinFlowDecomp's search returns
   the minimum from ANY valid lower bound, the lower-bound options therefore cannot change the result, and the bounds the code
   computes -- ceil(log2(#distinct values)) and the optimum of any scanning window -- are valid *)
From FP Require Import Aug Search EndToEnd1 EndToEnd2 EndToEnd3 SubgraphBound EndToEndBounds.
From FP Require Peel PeelProofs1.
Theorem C05_lower_bound_choice_is_immaterial :
  forall (V : list node) (E : list edge) (s t : node) (f : edge -> Z) (Pa Sa : list (node * list node)) (topo : list node),
  NoDup V -> (forall e, In e E -> In (fst e) V /\ In (snd e) V) -> ~ In s V -> ~ In t V -> s <> t ->
  Peel.peel_inputs_ok E Pa Sa topo = true -> PeelProofs1.nonneg E f -> PeelProofs1.conserving E f ->
  forall (feasible : nat -> bool) (lb lb' : nat) (sts sts' : list raw),
  (forall k, feasible k = true <-> exists a, sat a (encode_kfd (e2e_inst V E s t f k))) ->
  (forall i, (i < S (length E) - lb)%nat -> exists x, nth_error sts i = Some x /\
             status_of x = if feasible (lb + i)%nat then Optimal else Infeasible) ->
  (forall i, (i < S (length E) - lb')%nat -> exists x, nth_error sts' i = Some x /\
             status_of x = if feasible (lb' + i)%nat then Optimal else Infeasible) ->
  valid_lb V E s t f lb -> valid_lb V E s t f lb' ->
  so_res (mpc_solve true lb (S (length E)) sts) = so_res (mpc_solve true lb' (S (length E)) sts').
Proof. exact lower_bound_choice_is_immaterial. Qed.
Print Assumptions C05_lower_bound_choice_is_immaterial.

Theorem C05_minflowdecomp_returns_the_minimum_from_any_valid_lower_bound :
  forall (V : list node) (E : list edge) (s t : node) (f : edge -> Z) (Pa Sa : list (node * list node)) (topo : list node),
  NoDup V -> (forall e, In e E -> In (fst e) V /\ In (snd e) V) -> ~ In s V -> ~ In t V -> s <> t ->
  Peel.peel_inputs_ok E Pa Sa topo = true -> PeelProofs1.nonneg E f -> PeelProofs1.conserving E f ->
  forall (feasible : nat -> bool) (lb : nat) (sts : list raw),
  (forall k, feasible k = true <-> exists a, sat a (encode_kfd (e2e_inst V E s t f k))) ->
  (forall i, (i < S (length E) - lb)%nat -> exists x, nth_error sts i = Some x /\
             status_of x = if feasible (lb + i)%nat then Optimal else Infeasible) ->
  valid_lb V E s t f lb ->
  exists kopt,
    so_res (mpc_solve true lb (S (length E)) sts) = Solved kopt /\
    (exists P w, decomposition (e2e_inst V E s t f kopt) P w) /\
    (forall k, (k < kopt)%nat -> ~ exists P w, decomposition (e2e_inst V E s t f k) P w).
Proof. exact minflowdecomp_from_any_valid_lower_bound. Qed.
Print Assumptions C05_minflowdecomp_returns_the_minimum_from_any_valid_lower_bound.

Theorem C05_log2_bound_is_valid :
  forall (V : list node) (E : list edge) (s t : node) (f : edge -> Z),
  (forall e, In e E -> In (fst e) V /\ In (snd e) V) -> ~ In s V -> ~ In t V ->
  forall L : list edge, incl L E -> ForallOrdPairs (fun e e' => f e <> f e') L -> valid_lb V E s t f (Nat.log2_up (length L)).
Proof. exact log2_bound_is_valid. Qed.
Print Assumptions C05_log2_bound_is_valid.

Theorem C05_scanning_bound_is_valid :
  forall (V : list node) (E : list edge) (s t : node) (f : edge -> Z) (topo : list node) (left right lbH : nat),
  dag_with_order V E s t topo ->
  (forall j, (j < lbH)%nat -> ~ exists PH wH,
      decomposition (e2e_inst (fst (window_subgraph topo left right E)) (snd (window_subgraph topo left right E)) s t f j) PH wH) ->
  valid_lb V E s t f lbH.
Proof. exact scanning_bound_is_valid. Qed.
Print Assumptions C05_scanning_bound_is_valid.

Theorem C05_valid_bounds_combine : forall (V : list node) (E : list edge) (s t : node) (f : edge -> Z), s <> t -> forall (a b : nat),
  valid_lb V E s t f a -> valid_lb V E s t f b -> valid_lb V E s t f (Nat.max a b).
Proof. exact valid_lb_max. Qed.
Print Assumptions C05_valid_bounds_combine.

(* non-vacuity: s -> a, a -> b (2), a -> c (3), b -> t, c -> t with two paths of weights 2 and 3 meets every premise; the source
   cut is {(a,b),(a,c)}, the source flow 5 and the theorem yields a generating multiset of at most 2 elements for {2,3} *)
Example C05_lower_bounds_nonvacuous :
  decomposition (lbI 2) lbP lbW /\ wf_graph lbG /\ src_cut lbG (f_ignore (lbI 2)) = [(1, 2); (1, 3)]%N /\
  (exists g : list Q, (length g <= 2)%nat /\ genset 1 [2%Q; 3%Q] (2 + (3 + 0))%Q g) /\ (Nat.log2_up 2 <= 2)%nat.
Proof.
  split; [exact lb_decomposition|]. split; [exact lb_wf|]. split; [exact lb_cut|]. split; [exact lb_gen_set_bound|exact lb_log2].
Qed.

(* use_subgraph_scanning_lowerbound (MinFlowDecomp): H = window_subgraph topo left right E is what
   graphutils.get_subgraph_between_topological_nodes returns (window nodes topo[left:right], every edge with an endpoint in the
   window, the outside endpoints as nodes; tied by E3), solved with the same flow values and the ignore list restricted to
   edges inside H.  Every decomposition of G into k source-to-sink paths restricts to a decomposition of H into kH <= k
   source-to-sink paths OF H (sources / sinks of H = nodes without in- / out-edges in H; paths without a window node are
   dropped, a path that only uses ignored edges of H keeps its route with weight 0), hence the optimum of H is a lower bound
   for G and starting the search there cuts off nothing. *)
From FP Require Import EndToEnd1 EndToEnd2 SubgraphBound.

Theorem C05_decomposition_restricts_to_the_window_subgraph :
  forall (V : list node) (E : list PathEnc.edge) (s t : node) (f : PathEnc.edge -> Z) (ign : list PathEnc.edge)
         (topo : list node) (left right k : nat) (P : N -> list node) (w : N -> Q),
  dag_with_order V E s t topo ->
  decomposition (sg_inst V E s t f ign k) P w ->
  let VH := fst (window_subgraph topo left right E) in let EH := snd (window_subgraph topo left right E) in
  exists (kH : nat) (PH : N -> list node) (wH : N -> Q),
    (kH <= k)%nat /\ decomposition (sg_inst VH EH s t f (restrict_ignore VH ign) kH) PH wH.
Proof. exact subgraph_restriction. Qed.
Print Assumptions C05_decomposition_restricts_to_the_window_subgraph.

Theorem C05_subgraph_scanning_lower_bound_is_sound :
  forall (V : list node) (E : list PathEnc.edge) (s t : node) (f : PathEnc.edge -> Z) (ign : list PathEnc.edge)
         (topo : list node) (left right k lbH : nat) (P : N -> list node) (w : N -> Q),
  dag_with_order V E s t topo ->
  let VH := fst (window_subgraph topo left right E) in let EH := snd (window_subgraph topo left right E) in
  (forall j, (j < lbH)%nat -> ~ exists PH wH, decomposition (sg_inst VH EH s t f (restrict_ignore VH ign) j) PH wH) ->
  decomposition (sg_inst V E s t f ign k) P w -> (lbH <= k)%nat.
Proof. exact subgraph_scanning_bound. Qed.
Print Assumptions C05_subgraph_scanning_lower_bound_is_sound.

(* the instance without an ignore list is EndToEnd2.e2e_inst, the one the C03 minimum theorem is stated for *)
Theorem C05_subgraph_scanning_lower_bound_is_sound_e2e :
  forall (V : list node) (E : list PathEnc.edge) (s t : node) (f : PathEnc.edge -> Z)
         (topo : list node) (left right k lbH : nat) (P : N -> list node) (w : N -> Q),
  dag_with_order V E s t topo ->
  let VH := fst (window_subgraph topo left right E) in let EH := snd (window_subgraph topo left right E) in
  (forall j, (j < lbH)%nat -> ~ exists PH wH, decomposition (e2e_inst VH EH s t f j) PH wH) ->
  decomposition (e2e_inst V E s t f k) P w -> (lbH <= k)%nat.
Proof. exact subgraph_scanning_bound_e2e. Qed.
Print Assumptions C05_subgraph_scanning_lower_bound_is_sound_e2e.

(* non-vacuity: 0 -> 1 -> 2 -> 3 and 0 -> 2 (flow 2 on 2 -> 3, 1 elsewhere), two paths of weight 1, window {1}: the
   premises hold, H = ({1, 0, 2}, {0 -> 1, 1 -> 2}) and exactly one of the two paths survives the restriction *)
Example C05_subgraph_scanning_nonvacuous :
  dag_with_order sbV sbE 10%N 11%N sbV /\ decomposition (sg_inst sbV sbE 10%N 11%N sbf [] 2) sbP sbw /\
  window_subgraph sbV 1 2 sbE = ([1; 0; 2]%N, [(0, 1); (1, 2)]%N) /\ k' sbV 1 2 2 sbP = 1%nat.
Proof. split; [exact sb_dag|]. split; [exact sb_decomposition|exact sb_window]. Qed.

(* ---- audit additions (agent-c19): instances of exactly the hypotheses of the theorems above ---- *)
From Coq Require Import Lqa.
Local Open Scope Q_scope.

(* every premise of C05_distinct_flow_values_need_log2_many_paths and C05_min_gen_set_lower_bound_is_sound on the instance of the
   Example above (C05_lower_bounds_nonvacuous states the decomposition, the cut and the CONCLUSION; the three shape premises about
   the source and the ignore list, and the premises about L, were only used inside its proof) *)
Example C05_min_gen_set_premises_satisfiable :
  let I := lbI 2 in let G := p_graph (f_base I) in let E := g_edges G in let s := g_src G in let t := g_snk G in
  let L := [(1, 2); (1, 3)]%N in
  decomposition I lbP lbW /\ wf_graph G /\
  (forall u x, In (s, u) E -> In (x, u) E -> x = s) /\
  (forall e, In e E -> mem_edge e (f_ignore I) = true -> fst e = s \/ snd e = t) /\
  (forall u, In (s, u) E -> mem_edge (s, u) (f_ignore I) = true) /\
  (forall e, In e L -> In e E /\ mem_edge e (f_ignore I) = false) /\
  ForallOrdPairs (fun e e' => ~ (LowerBounds.flow_of I e == LowerBounds.flow_of I e')) L.
Proof.
  cbn zeta. destruct lb_premises as (S1 & S2 & S3).
  split; [exact lb_decomposition|]. split; [exact lb_wf|]. split; [exact S1|]. split; [exact S2|]. split; [exact S3|].
  split; [intros e He; cbn in He; intuition (subst; cbn; auto)|]. repeat constructor. vm_compute. discriminate.
Qed.
Print Assumptions C05_min_gen_set_premises_satisfiable.

(* the least generating multiset of {2, 3} for total 5 (multiplicity 1) has 2 elements: none of size 0 (sum 0) or 1 (the one
   element would have to be 2, 3 and 5) *)
Lemma C05_genset_2_3_needs_two (g : list Q) : genset 1 [2; 3] (2 + (3 + 0)) g -> (2 <= length g)%nat.
Proof.
  intros (Hnn & Hsum & Hgen). destruct g as [|v [|v2 g]]; [exfalso|exfalso|cbn; lia].
  - revert Hsum. vm_compute. discriminate.
  - destruct (Hgen 2 (or_introl eq_refl)) as (xs & Hl & Hr & Hd).
    destruct xs as [|x [|? ?]]; try discriminate Hl. inversion Hr as [|? ? Hx _]; subst.
    cbn [sumql dotz] in *. assert (Hx' : x = 0%Z \/ x = 1%Z) by lia. destruct Hx' as [-> | ->].
    + change (inject_Z 0) with 0 in Hd. lra.
    + change (inject_Z 1) with 1 in Hd. lra.
Qed.
Print Assumptions C05_genset_2_3_needs_two.

(* every premise of C05_lower_bounds_cut_off_nothing with inst = lbI, L = the two source-cut edges, mgs = 2: the search may start at
   max(log2_up 2, 2) = 2, and indeed (conclusion) no decomposition with fewer than 2 paths exists *)
Example C05_cut_off_nothing_premises_satisfiable :
  let L := [(1, 2); (1, 3)]%N in
  (forall k, p_k (f_base (lbI k)) = k) /\
  (forall k e, In e L -> In e (g_edges (p_graph (f_base (lbI k)))) /\ mem_edge e (f_ignore (lbI k)) = false) /\
  (forall k, ForallOrdPairs (fun e e' => ~ (LowerBounds.flow_of (lbI k) e == LowerBounds.flow_of (lbI k) e')) L) /\
  (forall k g, genset 1 (map (LowerBounds.flow_of (lbI k)) L)
                      (sumq (LowerBounds.flow_of (lbI k)) (src_cut (p_graph (f_base (lbI k))) (f_ignore (lbI k)))) g ->
               (2 <= length g)%nat) /\
  (forall k, let G := p_graph (f_base (lbI k)) in
     wf_graph G /\ (forall u x, In (g_src G, u) (g_edges G) -> In (x, u) (g_edges G) -> x = g_src G) /\
     (forall e, In e (g_edges G) -> mem_edge e (f_ignore (lbI k)) = true -> fst e = g_src G \/ snd e = g_snk G) /\
     (forall u, In (g_src G, u) (g_edges G) -> mem_edge (g_src G, u) (f_ignore (lbI k)) = true)) /\
  Nat.max (Nat.log2_up (length L)) 2 = 2%nat /\
  (forall k, (k < 2)%nat -> ~ exists P w, decomposition (lbI k) P w).
Proof.
  cbn zeta. destruct lb_premises as (S1 & S2 & S3).
  assert (H1 : forall k : nat, p_k (f_base (lbI k)) = k) by reflexivity.
  assert (H2 : forall (k : nat) e, In e [(1, 2); (1, 3)]%N -> In e (g_edges (p_graph (f_base (lbI k)))) /\ mem_edge e (f_ignore (lbI k)) = false)
    by (intros k e He; cbn in He; intuition (subst; cbn; auto)).
  assert (H3 : forall k : nat, ForallOrdPairs (fun e e' => ~ (LowerBounds.flow_of (lbI k) e == LowerBounds.flow_of (lbI k) e')) [(1, 2); (1, 3)]%N)
    by (intros k; repeat constructor; vm_compute; discriminate).
  assert (H4 : forall (k : nat) g, genset 1 (map (LowerBounds.flow_of (lbI k)) [(1, 2); (1, 3)]%N)
                      (sumq (LowerBounds.flow_of (lbI k)) (src_cut (p_graph (f_base (lbI k))) (f_ignore (lbI k)))) g -> (2 <= length g)%nat)
    by (intros k g Hg; apply C05_genset_2_3_needs_two; exact Hg).
  assert (H5 : forall k : nat, let G := p_graph (f_base (lbI k)) in
     wf_graph G /\ (forall u x, In (g_src G, u) (g_edges G) -> In (x, u) (g_edges G) -> x = g_src G) /\
     (forall e, In e (g_edges G) -> mem_edge e (f_ignore (lbI k)) = true -> fst e = g_src G \/ snd e = g_snk G) /\
     (forall u, In (g_src G, u) (g_edges G) -> mem_edge (g_src G, u) (f_ignore (lbI k)) = true))
    by (intros k; cbn zeta; split; [exact lb_wf|]; split; [exact S1|]; split; [exact S2|exact S3]).
  split; [exact H1|]. split; [exact H2|]. split; [exact H3|]. split; [exact H4|]. split; [exact H5|]. split; [reflexivity|].
  exact (C05_lower_bounds_cut_off_nothing lbI [(1, 2); (1, 3)]%N 2 H1 H2 H3 H4 H5).
Qed.
Print Assumptions C05_cut_off_nothing_premises_satisfiable.

(* every premise of C05_min_gen_set_option_is_sound (the end-to-end form with MinGenSet's own search): J = lbI 2, the MinGenSet
   instance for the flow values {2, 3} and the source flow 5, a solver that answers Infeasible below 2 and Optimal at 2 (both answers
   are TRUE of the rows: size 2 is satisfiable by completeness with the multiset {2, 3}; sizes 0 and 1 are not by soundness and the
   lemma above), search from lowerbound 1: tried [1; 2], reported 2 <= 2 paths *)
Definition C05_mgs_I : mgs_inst := {| mg_numbers := [2; 3]; mg_total := 2 + (3 + 0); mg_int := true; mg_mult := 1; mg_parts := None |}.
Definition C05_mgs_status (k : nat) : mstatus := if (k =? 2)%nat then MgOptimal else if (k <? 2)%nat then MgInfeasible else MgOther.
Example C05_min_gen_set_option_premises_satisfiable :
  let J := lbI 2 in let G := p_graph (f_base J) in let E := g_edges G in
  mg_parts C05_mgs_I = None /\ mg_mult C05_mgs_I = 1%nat /\ mg_int C05_mgs_I = f_int J /\
  (forall a, In a (mg_numbers C05_mgs_I) -> exists e, In e E /\ mem_edge e (f_ignore J) = false /\ (a == LowerBounds.flow_of J e)) /\
  (mg_total C05_mgs_I == sumq (LowerBounds.flow_of J) (src_cut G (f_ignore J))) /\
  (forall k, C05_mgs_status k = MgOptimal -> exists a, sat a (encode_mgs C05_mgs_I k)) /\
  (forall k, C05_mgs_status k = MgInfeasible -> forall a, ~ sat a (encode_mgs C05_mgs_I k)) /\
  mgsm_loop C05_mgs_status 1 2 0 = ([1; 2]%nat, Some 2%nat) /\ (1 <= p_k (f_base J))%nat.
Proof.
  cbn zeta. split; [reflexivity|]. split; [reflexivity|]. split; [reflexivity|].
  split; [intros a Ha; cbn in Ha; destruct Ha as [<-|[<-|[]]]; [exists (1, 2)%N|exists (1, 3)%N]; (split; [cbn; tauto|split; vm_compute; reflexivity])|].
  split; [vm_compute; reflexivity|].
  split; [|split; [|split; [vm_compute; reflexivity|cbn; lia]]].
  - intros k Hk. unfold C05_mgs_status in Hk. destruct (k =? 2)%nat eqn:E2; [|destruct (k <? 2)%nat; discriminate Hk].
    apply Nat.eqb_eq in E2. subst k. apply (mgs_enc_complete C05_mgs_I 2 [2; 3]); [cbn; lia|reflexivity|].
    split; [|split; [intros _; repeat constructor; [exists 2%Z|exists 3%Z]; reflexivity|unfold parts_of; cbn; constructor]].
    split; [repeat constructor; discriminate|]. split; [reflexivity|].
    intros a Ha. cbn in Ha. destruct Ha as [<-|[<-|[]]]; [exists [1; 0]%Z|exists [0; 1]%Z]; (split; [reflexivity|split; [apply Forall_cons; [cbn; lia|apply Forall_cons; [cbn; lia|apply Forall_nil]]|vm_compute; reflexivity]]).
  - intros k Hk a Hs. unfold C05_mgs_status in Hk. destruct (k =? 2)%nat; [discriminate Hk|]. destruct (k <? 2)%nat eqn:L2; [|discriminate Hk].
    apply Nat.ltb_lt in L2.
    destruct (proj1 (mgs_feasible_iff C05_mgs_I k eq_refl ltac:(cbn; lia)) (ex_intro _ a Hs)) as (g & Hl & (Hg & _)).
    pose proof (C05_genset_2_3_needs_two g Hg). lia.
Qed.
Print Assumptions C05_min_gen_set_option_premises_satisfiable.

From FP Require WalkExamples.
(* the WALK theorems (C05_min_gen_set_lower_bound_is_sound_for_walks / C05_min_gen_set_option_is_sound_for_walks) had no instance at
   all.  0 -> 1 -> 2 -> 3 with a self-loop on 2 (synthetic source 0, sink 3; flow 2 on 1 -> 2 and 4 on the loop), ONE walk
   0,1,2,2,2,3 of weight 2 that traverses the loop twice: every premise holds with M = 2, the source cut is {1 -> 2}, the source flow 2,
   and the generating multiset {2} generates 4 only with multiplicity 2 -- with max_multiplicity 1 (the seeded change
   C04-selfloop-mingenset-bound) the hypothesis `mult P i e <= M` is false for this walk *)
Definition C05_wG : stgraph :=
  {| g_nodes := [0; 1; 2; 3]%N; g_edges := [(0, 1); (1, 2); (2, 2); (2, 3)]%N; g_src := 0%N; g_snk := 3%N;
     g_succ := [(0, [1]); (1, [2]); (2, [2; 3]); (3, [])]%N; g_pred := [(0, []); (1, [0]); (2, [1; 2]); (3, [2])]%N |}.
Definition C05_wI : kfdc_inst :=
  {| c_graph := C05_wG; c_k := 1; c_flow := [((1, 2)%N, 2); ((2, 2)%N, 4)]; c_ignore := []; c_int := true;
     c_cons := []; c_cov := 1; c_opts := WalkExamples.no_opts; c_safe_lists := []; c_fix := []; c_given := None; c_scale_free := false |}.
Definition C05_wP (i : N) : list node := [0; 1; 2; 2; 2; 3]%N.
Example C05_walk_premises_satisfiable :
  let G := c_graph C05_wI in let E := g_edges G in let s := g_src G in let t := g_snk G in
  walk_decomposition C05_wI C05_wP (fun _ => 2) /\ wf_graph G /\
  (forall u x, In (s, u) E -> In (x, u) E -> x = s) /\
  (forall e, In e E -> mem_edge e (kfdc_ignore C05_wI) = true -> fst e = s \/ snd e = t) /\
  (forall u, In (s, u) E -> mem_edge (s, u) (kfdc_ignore C05_wI) = true) /\
  (forall i e, In i (layers (c_k C05_wI)) -> In e (kept_edges C05_wI) -> (mult C05_wP i e <= Z.of_nat 2)%Z) /\
  mult C05_wP 0%N (2, 2)%N = 2%Z /\
  (forall e, In e [(1, 2); (2, 2)]%N -> In e (kept_edges C05_wI)) /\
  src_cut G (kfdc_ignore C05_wI) = [(1, 2)%N] /\
  genset 2 (map (WalkEncRows.flow_of C05_wI) [(1, 2); (2, 2)]%N) (sumq (WalkEncRows.flow_of C05_wI) (src_cut G (kfdc_ignore C05_wI))) [2] /\
  ~ genset 1 (map (WalkEncRows.flow_of C05_wI) [(1, 2); (2, 2)]%N) (sumq (WalkEncRows.flow_of C05_wI) (src_cut G (kfdc_ignore C05_wI))) [2].
Proof.
  cbn zeta.
  assert (KE : kept_edges C05_wI = [(1, 2); (2, 2)]%N) by reflexivity.
  split; [split; [|split]|].
  - intros i _. split; [reflexivity|]. split; [reflexivity|]. intros e He. cbn in He |- *. intuition.
  - intros i _. split; [discriminate|]. intros _. exists 2%Z. reflexivity.
  - intros e He. rewrite KE in He. cbn in He. destruct He as [<-|[<-|[]]]; vm_compute; reflexivity.
  - split.
    { constructor.
      - cbn. repeat constructor; cbn; intuition discriminate.
      - intros e He. cbn in He. cbn. intuition (subst; cbn; auto).
      - intros v. destruct v as [|[[p|p|]|[p|p|]|]]; reflexivity.
      - intros v. destruct v as [|[[p|p|]|[p|p|]|]]; cbn; apply Permutation_refl.
      - intros e He. cbn in He. intuition (subst; cbn; discriminate).
      - intros e He. cbn in He. intuition (subst; cbn; discriminate).
      - cbn. discriminate. }
    split; [intros u x H1 H2; cbn in H1, H2; destruct H1 as [H1|[H1|[H1|[H1|[]]]]]; inversion H1; subst;
            destruct H2 as [H2|[H2|[H2|[H2|[]]]]]; inversion H2; subst; reflexivity|].
    split; [intros e He Hig; cbn in He; destruct He as [<-|[<-|[<-|[<-|[]]]]]; cbn; auto; discriminate Hig|].
    split; [intros u H; cbn in H; destruct H as [H|[H|[H|[H|[]]]]]; inversion H; subst; reflexivity|].
    split; [intros i e Hi He; cbn in Hi; destruct Hi as [<-|[]]; rewrite KE in He; cbn in He; destruct He as [<-|[<-|[]]]; vm_compute; discriminate|].
    split; [reflexivity|]. split; [rewrite KE; intros e He; exact He|]. split; [reflexivity|]. split.
    + split; [repeat constructor; discriminate|]. split; [vm_compute; reflexivity|].
      intros a Ha. cbn in Ha. destruct Ha as [<-|[<-|[]]]; [exists [1%Z]|exists [2%Z]];
        (split; [reflexivity|split; [apply Forall_cons; [cbn; lia|apply Forall_nil]|vm_compute; reflexivity]]).
    + intros (_ & _ & Hgen). destruct (Hgen (WalkEncRows.flow_of C05_wI (2, 2)%N) ltac:(cbn; tauto)) as (xs & Hl & Hr & Hd).
      destruct xs as [|x [|? ?]]; try discriminate Hl. inversion Hr as [|? ? Hx _]; subst.
      assert (Hx' : x = 0%Z \/ x = 1%Z) by (cbn in Hx; lia). destruct Hx' as [-> | ->]; revert Hd; vm_compute; discriminate.
Qed.
Print Assumptions C05_walk_premises_satisfiable.

(* ... and the remaining premises of C05_min_gen_set_option_is_sound_for_walks on the same instance: MinGenSet for the values {2, 4},
   total 2, max_multiplicity 2, a solver that answers Optimal at size 1 (true: {2} generates 2 = 1*2 and 4 = 2*2), search from 1 *)
Definition C05_wmgs_I : mgs_inst := {| mg_numbers := [2; 4]; mg_total := 2; mg_int := true; mg_mult := 2; mg_parts := None |}.
Definition C05_wmgs_status (k : nat) : mstatus := if (k =? 1)%nat then MgOptimal else MgOther.
Example C05_walk_option_premises_satisfiable :
  mg_parts C05_wmgs_I = None /\ (1 <= mg_mult C05_wmgs_I)%nat /\ mg_int C05_wmgs_I = c_int C05_wI /\
  (forall i e, In i (layers (c_k C05_wI)) -> In e (kept_edges C05_wI) -> (mult C05_wP i e <= Z.of_nat (mg_mult C05_wmgs_I))%Z) /\
  (forall a, In a (mg_numbers C05_wmgs_I) -> exists e, In e (kept_edges C05_wI) /\ (a == WalkEncRows.flow_of C05_wI e)) /\
  (mg_total C05_wmgs_I == sumq (WalkEncRows.flow_of C05_wI) (src_cut (c_graph C05_wI) (kfdc_ignore C05_wI))) /\
  (forall k, C05_wmgs_status k = MgOptimal -> exists a, sat a (encode_mgs C05_wmgs_I k)) /\
  (forall k, C05_wmgs_status k = MgInfeasible -> forall a, ~ sat a (encode_mgs C05_wmgs_I k)) /\
  mgsm_loop C05_wmgs_status 1 2 0 = ([1%nat], Some 1%nat) /\ (1 <= c_k C05_wI)%nat.
Proof.
  destruct C05_walk_premises_satisfiable as (_ & _ & _ & _ & _ & HM & _ & _ & _ & _ & _).
  split; [reflexivity|]. split; [cbn; lia|]. split; [reflexivity|]. split; [exact HM|].
  split; [intros a Ha; cbn in Ha; destruct Ha as [<-|[<-|[]]]; [exists (1, 2)%N|exists (2, 2)%N]; (split; [cbn; tauto|vm_compute; reflexivity])|].
  split; [vm_compute; reflexivity|].
  split; [|split; [|split; [vm_compute; reflexivity|cbn; lia]]].
  - intros k Hk. unfold C05_wmgs_status in Hk. destruct (k =? 1)%nat eqn:E1; [|discriminate Hk]. apply Nat.eqb_eq in E1. subst k.
    apply (mgs_enc_complete C05_wmgs_I 1 [2]); [cbn; lia|reflexivity|].
    split; [|split; [intros _; repeat constructor; exists 2%Z; reflexivity|unfold parts_of; cbn; constructor]].
    split; [repeat constructor; discriminate|]. split; [vm_compute; reflexivity|].
    intros a Ha. cbn in Ha. destruct Ha as [<-|[<-|[]]]; [exists [1%Z]|exists [2%Z]];
      (split; [reflexivity|split; [apply Forall_cons; [cbn; lia|apply Forall_nil]|vm_compute; reflexivity]]).
  - intros k Hk. unfold C05_wmgs_status in Hk. destruct (k =? 1)%nat; discriminate Hk.
Qed.
Print Assumptions C05_walk_option_premises_satisfiable.

(* the hypothesis "no decomposition of the window subgraph H with fewer than lbH paths" of the three scanning theorems is vacuous
   for lbH = 0 (the only value C05_subgraph_scanning_nonvacuous reaches).  With lbH = 1 on the same instance: H carries flow 1 on
   0 -> 1, which zero paths do not explain, so 1 is a valid bound for G (conclusion of the theorem), both with and without the
   ignore list *)
Example C05_subgraph_scanning_premise_satisfiable_for_a_positive_bound :
  let VH := fst (window_subgraph sbV 1 2 sbE) in let EH := snd (window_subgraph sbV 1 2 sbE) in
  (forall j, (j < 1)%nat -> ~ exists PH wH, decomposition (sg_inst VH EH 10%N 11%N sbf (restrict_ignore VH []) j) PH wH) /\
  (forall j, (j < 1)%nat -> ~ exists PH wH, decomposition (e2e_inst VH EH 10%N 11%N sbf j) PH wH) /\
  valid_lb sbV sbE 10%N 11%N sbf 1.
Proof.
  cbn zeta.
  assert (H2 : forall j, (j < 1)%nat ->
            ~ exists PH wH, decomposition (e2e_inst (fst (window_subgraph sbV 1 2 sbE)) (snd (window_subgraph sbV 1 2 sbE)) 10%N 11%N sbf j) PH wH).
  { intros j Hj (PH & wH & (_ & _ & Hf)). assert (j = 0%nat) by lia. subst j.
    specialize (Hf (0, 1)%N ltac:(vm_compute; tauto) ltac:(vm_compute; reflexivity)). revert Hf. vm_compute. discriminate. }
  split; [|split; [exact H2|]].
  - intros j Hj (PH & wH & (_ & _ & Hf)). assert (j = 0%nat) by lia. subst j.
    specialize (Hf (0, 1)%N ltac:(vm_compute; tauto) ltac:(vm_compute; reflexivity)). revert Hf. vm_compute. discriminate.
  - exact (C05_scanning_bound_is_valid sbV sbE 10%N 11%N sbf sbV 1 2 1 sb_dag H2).
Qed.
Print Assumptions C05_subgraph_scanning_premise_satisfiable_for_a_positive_bound.

From FP Require Import EndToEndExample.
(* valid_lb -- the hypothesis of the two end-to-end theorems -- has instances on the diamond of C03_end_to_end_premises_satisfiable
   (EndToEndExample.v; its caller-input premises are that Example): the log2 bound of the two branch values (= 1), the trivial bound
   0, and their maximum.  The solver-specification hypotheses (`feasible`, `sts`) of these two theorems are the ones of
   C03_minflowdecomp_end_to_end and are not instantiated in this file (see DESIGN 10.4, audit). *)
Example C05_valid_lower_bounds_exist :
  valid_lb xV xE 0%N 5%N xf (Nat.log2_up (length [(1, 2); (1, 3)]%N)) /\ Nat.log2_up (length [(1, 2); (1, 3)]%N) = 1%nat /\
  valid_lb xV xE 0%N 5%N xf 0 /\ valid_lb xV xE 0%N 5%N xf (Nat.max (Nat.log2_up (length [(1, 2); (1, 3)]%N)) 0).
Proof.
  assert (H0 : valid_lb xV xE 0%N 5%N xf 0) by (intros k P w _; lia).
  split; [exact bounds_example|]. split; [reflexivity|]. split; [exact H0|].
  exact (C05_valid_bounds_combine xV xE 0%N 5%N xf ltac:(discriminate) _ _ bounds_example H0).
Qed.
Print Assumptions C05_valid_lower_bounds_exist.

(* degenerate inputs of the log2 bound: Nat.log2_up is total with log2_up 0 = log2_up 1 = 0, so for an input with no or one distinct
   flow value the theorems C05_distinct_flow_values_need_log2_many_paths / C05_log2_bound_is_valid yield the bound 0, which is
   trivially valid -- true for the right reason (2^0 = 1 >= #values), and it says NOTHING about k >= 1; the code's own
   max(1, ...) / width floor is not part of these statements *)
Example C05_log2_bound_degenerate_values : Nat.log2_up 0 = 0%nat /\ Nat.log2_up 1 = 0%nat /\ Nat.log2_up 2 = 1%nat /\ Nat.log2_up 3 = 2%nat.
Proof. repeat split; reflexivity. Qed.
Print Assumptions C05_log2_bound_degenerate_values.

(* the abstract premises of C05_partition_constraints_are_sound (arbitrary k, w, m, flow, live, C) on the instance above: k = 2, the
   weights 2, 3, m = traversal counts of the two paths, live = the two edges to be explained, C = the source cut {1->2, 1->3};
   each path crosses the cut once; the crossing weights (2, 3) sum to the source flow 5 (conclusion) *)
Example C05_partition_constraints_premises_satisfiable :
  let m := fun i e => multz (pairs (lbP i)) e in
  let live := fun e => In e [(1, 2); (1, 3)]%N in
  let C := [(1, 2); (1, 3)]%N in
  (forall e, live e -> (sumq (fun i => lbW i * inject_Z (m i e)) (layers 2) == LowerBounds.flow_of (lbI 2) e)) /\
  (forall e, In e C -> live e) /\
  (forall i, In i (layers 2) -> cntz m C i = 1%Z \/ (cntz m C i = 0%Z /\ forall e, live e -> m i e = 0%Z)) /\
  gw 2 lbW m C = [2; 3].
Proof.
  cbn zeta. split; [|split; [|split]].
  - intros e He. cbn in He. destruct He as [<-|[<-|[]]]; vm_compute; reflexivity.
  - intros e He. exact He.
  - intros i Hi. cbn in Hi. destruct Hi as [<-|[<-|[]]]; left; vm_compute; reflexivity.
  - vm_compute. reflexivity.
Qed.
Print Assumptions C05_partition_constraints_premises_satisfiable.

(* the SOLVER-SPECIFICATION hypotheses of the two end-to-end theorems (and of the older C03_minflowdecomp_end_to_end) together with
   the caller-input premises of C03_end_to_end_premises_satisfiable: on the diamond with flows 2 / 3 the k-model is feasible exactly
   for k >= 2 (<=: the width bound with the antichain of size 2; =>: the two paths padded with zero-weight copies), so
   feasible := (2 <=? k); from the valid bounds 1 (log2) and 0 the status lists are Infeasible, Optimal, ... and both searches
   return 2 *)
From FP Require Import Dilworth WidthBound.
Definition C05_xP (i : N) : list node := if (i =? 0)%N then [0; 1; 2; 4; 5]%N else [0; 1; 3; 4; 5]%N.
Definition C05_xw (i : N) : Q := if (i =? 0)%N then 2 else if (i =? 1)%N then 3 else 0.

Lemma C05_tail_zero (g : N -> Q) : forall n a, (forall j, (a <= j)%nat -> g (N.of_nat j) == 0) -> sumq g (map N.of_nat (seq a n)) == 0.
Proof.
  induction n as [|n IH]; intros a H; [reflexivity|]. cbn [seq map sumq]. rewrite (H a (le_n a)), (IH (S a)); [ring|].
  intros j Hj. apply H. lia.
Qed.
Print Assumptions C05_tail_zero.

Lemma C05_x_decomposition (k : nat) : (2 <= k)%nat -> decomposition (e2e_inst xV xE 0%N 5%N xf k) C05_xP C05_xw.
Proof.
  intros Hk. split; [|split].
  - intros i _. unfold C05_xP. destruct (i =? 0)%N; (split; [reflexivity|]; split; [reflexivity|]; split;
      [repeat constructor; cbn; intuition discriminate|intros e He; vm_compute in He; vm_compute; tauto]).
  - intros i _. unfold C05_xw. destruct (i =? 0)%N; [|destruct (i =? 1)%N];
      (split; [vm_compute; split; discriminate|]); intros _; [exists 2%Z|exists 3%Z|exists 0%Z]; reflexivity.
  - intros e He Hig. destruct k as [|[|n]]; try lia. unfold layers. cbn [seq map sumq p_k f_base e2e_inst].
    rewrite (C05_tail_zero (fun i => C05_xw i * indq (mem_edge e (pairs (C05_xP i)))) n 2).
    + vm_compute in He.
      repeat (destruct He as [<-|He]; [first [vm_compute; reflexivity | vm_compute in Hig; discriminate Hig]|]). destruct He.
    + intros j Hj. unfold C05_xw. destruct j as [|[|j]]; try lia.
      replace (N.of_nat (S (S j)) =? 0)%N with false by (symmetry; apply N.eqb_neq; lia).
      replace (N.of_nat (S (S j)) =? 1)%N with false by (symmetry; apply N.eqb_neq; lia). ring.
Qed.
Print Assumptions C05_x_decomposition.

Example C05_end_to_end_solver_hypotheses_satisfiable :
  let feasible := fun k => (2 <=? k)%nat in
  let sts := map (fun k => mkraw (if feasible k then Optimal else Infeasible) false) (seq 1 (length xE)) in
  (forall k, feasible k = true <-> exists a, sat a (encode_kfd (e2e_inst xV xE 0%N 5%N xf k))) /\
  (forall i, (i < S (length xE) - 1)%nat -> exists x, nth_error sts i = Some x /\
             status_of x = if feasible (1 + i)%nat then Optimal else Infeasible) /\
  valid_lb xV xE 0%N 5%N xf 1 /\
  so_res (mpc_solve true 1 (S (length xE)) sts) = Solved 2 /\
  (* ... and from the other valid bound 0 (second status list of C05_lower_bound_choice_is_immaterial): same result *)
  (let sts' := map (fun k => mkraw (if feasible k then Optimal else Infeasible) false) (seq 0 (S (length xE))) in
   (forall i, (i < S (length xE) - 0)%nat -> exists x, nth_error sts' i = Some x /\
              status_of x = if feasible (0 + i)%nat then Optimal else Infeasible) /\
   valid_lb xV xE 0%N 5%N xf 0 /\ so_res (mpc_solve true 0 (S (length xE)) sts') = Solved 2).
Proof.
  cbn zeta. destruct e2e_premises_satisfiable as (NDV & HE & Hs & Ht & Hst & Hok & Hnn & Hcons).
  split; [|split; [|split; [|split]]].
  - intros k. rewrite (e2e_feasible_iff xV xE 0%N 5%N xf xPa xSa [1; 2; 3; 4]%N NDV HE Hs Ht Hst Hok k). rewrite Nat.leb_le. split.
    + intros Hk. exists C05_xP, C05_xw. exact (C05_x_decomposition k Hk).
    + intros (P & w & D). destruct diamond_width_two as (_ & A' & ND & Hincl & Hinc & Hlen).
      rewrite <- Hlen. apply (decomposition_needs_width_many_paths (e2e_inst xV xE 0%N 5%N xf k) A' P w ND Hinc); [|exact D].
      intros e He. apply Hincl in He. cbn in He. destruct He as [<-|[<-|[<-|[<-|[]]]]]; (split; [vm_compute; tauto|split; vm_compute; reflexivity]).
  - intros i Hi. change (length xE) with 4%nat in *. do 4 (destruct i as [|i]; [eexists; split; reflexivity|]). lia.
  - exact bounds_example.
  - vm_compute. reflexivity.
  - split; [|split; [intros k P w _; lia|vm_compute; reflexivity]].
    intros i Hi. change (length xE) with 4%nat in *. do 5 (destruct i as [|i]; [eexists; split; reflexivity|]). lia.
Qed.
Print Assumptions C05_end_to_end_solver_hypotheses_satisfiable.
