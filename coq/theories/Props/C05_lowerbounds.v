(* C05 — the lower-bound options of MinFlowDecomp / MinFlowDecompCycles never cut off the optimum (LowerBounds.v).
   Only property theorems (closed by [exact]), their assumptions, non-vacuity examples.
   get_lowerbound_k starts the search for the least k at max(lowerbound_k, ceil(log2(#distinct flow values)), width,
   [use_min_gen_set_lowerbound: size of a minimum generating set of the flow values for the source flow],
   [use_subgraph_scanning_lowerbound: optimum of a window subgraph]).  A bound is sound when every decomposition has at
   least that many routes: then (kfd_feasible_iff, C02/C03) the k-models skipped below it are infeasible and the option
   changes neither solvability nor the optimum.  The width bound is C03_decomposition_has_at_least_antichain_many_paths;
   here: the log2 bound and the min-generating-set bound (paths and walks, with the cut behind the partition constraints).
   The subgraph-scanning bound: SubgraphBound.v (C05_subgraph_scanning_lower_bound_is_sound below); the executable
   window_subgraph is tied to graphutils.get_subgraph_between_topological_nodes by the E3 stream of harness/e3window.py. *)
From Coq Require Import List NArith ZArith QArith Bool Arith Lia Permutation.
Import ListNotations.
From FP Require Import Lin Blocks BlocksProofs PathEnc PathEncProofs PathEncComplete PathEncGiven EulerProofs1 WalkTree
                       MiscEnc MiscEncProofs WalkEnc WalkEncRows WalkEncComplete WalkEncIff LowerBounds.
Local Close Scope Q_scope.

(* k paths produce at most 2^k different sums: n pairwise different values on edges to be explained need 2^k >= n *)
Theorem C05_distinct_flow_values_need_log2_many_paths :
  forall (I : kfd_inst) (P : N -> list node) (w : N -> Q) (L : list PathEnc.edge),
  decomposition I P w ->
  (forall e, In e L -> In e (g_edges (p_graph (f_base I))) /\ mem_edge e (f_ignore I) = false) ->
  ForallOrdPairs (fun e e' => ~ (LowerBounds.flow_of I e == LowerBounds.flow_of I e')%Q) L ->
  (length L <= 2 ^ p_k (f_base I))%nat /\ (Nat.log2_up (length L) <= p_k (f_base I))%nat.
Proof. intros I P w L D HL Hd. split; [exact (distinct_values_bound I P w L D HL Hd)|exact (log2_bound I P w L D HL Hd)]. Qed.
Print Assumptions C05_distinct_flow_values_need_log2_many_paths.

(* use_min_gen_set_lowerbound (DAG): in an s-t graph whose ignored edges are exactly the synthetic ones and whose sources are
   fed by the synthetic source only (no additional starts -- the guard `not ignores_weighted_edges` of the code), the
   weights of the paths of ANY decomposition that cross the edges leaving the sources form a generating multiset with
   multiplicity 1 for (flow values, source flow) of at most k elements; so a MINIMUM generating set has at most k *)
Theorem C05_min_gen_set_lower_bound_is_sound :
  forall (I : kfd_inst) (P : N -> list node) (w : N -> Q) (L : list PathEnc.edge),
  let G := p_graph (f_base I) in let E := g_edges G in let s := g_src G in let t := g_snk G in
  decomposition I P w -> wf_graph G ->
  (forall u x, In (s, u) E -> In (x, u) E -> x = s) ->
  (forall e, In e E -> mem_edge e (f_ignore I) = true -> fst e = s \/ snd e = t) ->
  (forall u, In (s, u) E -> mem_edge (s, u) (f_ignore I) = true) ->
  (forall e, In e L -> In e E /\ mem_edge e (f_ignore I) = false) ->
  exists g : list Q, (length g <= p_k (f_base I))%nat /\
    genset 1 (map (LowerBounds.flow_of I) L) (sumq (LowerBounds.flow_of I) (src_cut G (f_ignore I))) g /\
    (f_int I = true -> Forall is_int g).
Proof. exact min_gen_set_bound. Qed.
Print Assumptions C05_min_gen_set_lower_bound_is_sound.

(* the same for MinFlowDecompCycles: walks may repeat edges, so the multiset generates the flow values with multiplicities up
   to M, any bound on the number of traversals of an edge by one walk (MinGenSet's max_multiplicity) *)
Theorem C05_min_gen_set_lower_bound_is_sound_for_walks :
  forall (I : kfdc_inst) (P : N -> list node) (wt : N -> Q) (M : nat) (L : list PathEnc.edge),
  let G := c_graph I in let E := g_edges G in let s := g_src G in let t := g_snk G in
  walk_decomposition I P wt -> wf_graph G ->
  (forall u x, In (s, u) E -> In (x, u) E -> x = s) ->
  (forall e, In e E -> mem_edge e (kfdc_ignore I) = true -> fst e = s \/ snd e = t) ->
  (forall u, In (s, u) E -> mem_edge (s, u) (kfdc_ignore I) = true) ->
  (forall i e, In i (layers (c_k I)) -> In e (kept_edges I) -> (mult P i e <= Z.of_nat M)%Z) ->
  (forall e, In e L -> In e (kept_edges I)) ->
  exists g : list Q, (length g <= c_k I)%nat /\
    genset M (map (WalkEncRows.flow_of I) L) (sumq (WalkEncRows.flow_of I) (src_cut G (kfdc_ignore I))) g /\
    (c_int I = true -> Forall is_int g).
Proof. exact min_gen_set_bound_walks. Qed.
Print Assumptions C05_min_gen_set_lower_bound_is_sound_for_walks.

(* a source-to-sink walk (hence path) traverses exactly one edge leaving a source, once -- or it is s,u,t *)
Theorem C05_every_route_crosses_the_source_cut_once :
  forall (G : stgraph) (ignore : list PathEnc.edge), wf_graph G ->
  (forall u x, In (g_src G, u) (g_edges G) -> In (x, u) (g_edges G) -> x = g_src G) ->
  (forall e, In e (g_edges G) -> mem_edge e ignore = true -> fst e = g_src G \/ snd e = g_snk G) ->
  (forall u, In (g_src G, u) (g_edges G) -> mem_edge (g_src G, u) ignore = true) ->
  forall p, hd_error p = Some (g_src G) -> last p (g_src G) = g_snk G -> incl (pairs p) (g_edges G) ->
  sumz (multz (pairs p)) (src_cut G ignore) = 1%Z \/
  (sumz (multz (pairs p)) (src_cut G ignore) = 0%Z /\
   forall e, In e (g_edges G) -> mem_edge e ignore = false -> multz (pairs p) e = 0%Z).
Proof. exact src_cut_crossing. Qed.
Print Assumptions C05_every_route_crosses_the_source_cut_once.

(* use_min_gen_set_lowerbound_partition_constraints: over ANY cut C of edges to be explained that every route crosses exactly
   once (or not at all, carrying nothing) the crossing weights sum to the flow over C and split into the flows of C's edges *)
Theorem C05_partition_constraints_are_sound :
  forall (k : nat) (w : N -> Q) (m : N -> PathEnc.edge -> Z) (flow : PathEnc.edge -> Q) (live : PathEnc.edge -> Prop)
         (C : list PathEnc.edge),
  (forall e, live e -> (sumq (fun i => w i * inject_Z (m i e)) (layers k) == flow e)%Q) ->
  (forall e, In e C -> live e) ->
  (forall i, In i (layers k) -> cntz m C i = 1%Z \/ (cntz m C i = 0%Z /\ forall e, live e -> m i e = 0%Z)) ->
  (sumql (gw k w m C) == sumq flow C)%Q /\
  forall e, In e C -> (sumq (fun i => w i * inject_Z (m i e)) (sel k m C) == flow e)%Q.
Proof.
  intros k w m flow live C Hf HC Hx. split; [exact (gw_total k w m flow live C Hf HC Hx)|].
  intros e He. exact (cut_partitions_weights k w m flow live C Hf HC Hx e He).
Qed.
Print Assumptions C05_partition_constraints_are_sound.

(* the search may start at max(log2 bound, min-gen-set bound): no decomposition exists below it *)
Theorem C05_lower_bounds_cut_off_nothing :
  forall (inst : nat -> kfd_inst) (L : list PathEnc.edge) (mgs : nat),
  (forall k, p_k (f_base (inst k)) = k) ->
  (forall k e, In e L -> In e (g_edges (p_graph (f_base (inst k)))) /\ mem_edge e (f_ignore (inst k)) = false) ->
  (forall k, ForallOrdPairs (fun e e' => ~ (LowerBounds.flow_of (inst k) e == LowerBounds.flow_of (inst k) e')%Q) L) ->
  (forall k g, genset 1 (map (LowerBounds.flow_of (inst k)) L)
                      (sumq (LowerBounds.flow_of (inst k)) (src_cut (p_graph (f_base (inst k))) (f_ignore (inst k)))) g ->
               (mgs <= length g)%nat) ->
  (forall k, let G := p_graph (f_base (inst k)) in
     wf_graph G /\ (forall u x, In (g_src G, u) (g_edges G) -> In (x, u) (g_edges G) -> x = g_src G) /\
     (forall e, In e (g_edges G) -> mem_edge e (f_ignore (inst k)) = true -> fst e = g_src G \/ snd e = g_snk G) /\
     (forall u, In (g_src G, u) (g_edges G) -> mem_edge (g_src G, u) (f_ignore (inst k)) = true)) ->
  forall k, (k < Nat.max (Nat.log2_up (length L)) mgs)%nat -> ~ exists P w, decomposition (inst k) P w.
Proof. exact lower_bounds_cut_off_nothing. Qed.
Print Assumptions C05_lower_bounds_cut_off_nothing.

(* END TO END for use_min_gen_set_lowerbound (no partition constraints): the size MinGenSet REPORTS -- its k-search over
   the rows of encode_mgs under the solver specification (C15) -- for the flow values and the source flow is at most the
   number of paths of ANY decomposition with at least lb paths; composed from the theorem above, the completeness of the
   MinGenSet rows and MinGenSet's minimality (MgsComplete.v, agent-misc) *)
From FP Require Import MgsComplete LowerBoundsMgs.
Theorem C05_min_gen_set_option_is_sound :
  forall (J : kfd_inst) (P : N -> list node) (w : N -> Q)
         (I : mgs_inst) (status : nat -> mstatus) (lb n : nat) (extra : Z) (tried : list nat) (m : nat),
  let G := p_graph (f_base J) in let E := g_edges G in let s := g_src G in let t := g_snk G in
  decomposition J P w -> wf_graph G ->
  (forall u x, In (s, u) E -> In (x, u) E -> x = s) ->
  (forall e, In e E -> mem_edge e (f_ignore J) = true -> fst e = s \/ snd e = t) ->
  (forall u, In (s, u) E -> mem_edge (s, u) (f_ignore J) = true) ->
  mg_parts I = None -> mg_mult I = 1%nat -> mg_int I = f_int J ->
  (forall a, In a (mg_numbers I) -> exists e, In e E /\ mem_edge e (f_ignore J) = false /\ (a == LowerBounds.flow_of J e)%Q) ->
  (mg_total I == sumq (LowerBounds.flow_of J) (src_cut G (f_ignore J)))%Q ->
  (forall k, status k = MgOptimal -> exists a, sat a (encode_mgs I k)) ->
  (forall k, status k = MgInfeasible -> forall a, ~ sat a (encode_mgs I k)) ->
  mgsm_loop status lb n extra = (tried, Some m) ->
  (lb <= p_k (f_base J))%nat -> (1 <= p_k (f_base J))%nat ->
  (m <= p_k (f_base J))%nat.
Proof. exact min_gen_set_option_is_sound. Qed.
Print Assumptions C05_min_gen_set_option_is_sound.

(* the same for MinFlowDecompCycles (max_multiplicity = mg_mult I; the seeded change C04-selfloop-mingenset-bound, which forced
   multiplicity 1 on self-loop graphs, falsifies exactly the hypothesis `mult P i e <= mg_mult I`) *)
From FP Require Import LowerBoundsMgsW.
Theorem C05_min_gen_set_option_is_sound_for_walks :
  forall (J : kfdc_inst) (P : N -> list node) (wt : N -> Q)
         (I : mgs_inst) (status : nat -> mstatus) (lb n : nat) (extra : Z) (tried : list nat) (m : nat),
  let G := c_graph J in let E := g_edges G in let s := g_src G in let t := g_snk G in
  walk_decomposition J P wt -> wf_graph G ->
  (forall u x, In (s, u) E -> In (x, u) E -> x = s) ->
  (forall e, In e E -> mem_edge e (kfdc_ignore J) = true -> fst e = s \/ snd e = t) ->
  (forall u, In (s, u) E -> mem_edge (s, u) (kfdc_ignore J) = true) ->
  mg_parts I = None -> (1 <= mg_mult I)%nat -> mg_int I = c_int J ->
  (forall i e, In i (layers (c_k J)) -> In e (kept_edges J) -> (mult P i e <= Z.of_nat (mg_mult I))%Z) ->
  (forall a, In a (mg_numbers I) -> exists e, In e (kept_edges J) /\ (a == WalkEncRows.flow_of J e)%Q) ->
  (mg_total I == sumq (WalkEncRows.flow_of J) (src_cut G (kfdc_ignore J)))%Q ->
  (forall k, status k = MgOptimal -> exists a, sat a (encode_mgs I k)) ->
  (forall k, status k = MgInfeasible -> forall a, ~ sat a (encode_mgs I k)) ->
  mgsm_loop status lb n extra = (tried, Some m) ->
  (lb <= c_k J)%nat -> (1 <= c_k J)%nat ->
  (m <= c_k J)%nat.
Proof. exact min_gen_set_option_is_sound_walks. Qed.
Print Assumptions C05_min_gen_set_option_is_sound_for_walks.

(* END TO END from the caller's input (EndToEndBounds.v over EndToEnd3 / LowerBounds / SubgraphBound): MinFlowDecomp's search returns
   the minimum from ANY valid lower bound, the lower-bound options therefore cannot change the result, and the bounds the code
   computes -- ceil(log2(#distinct values)) and the optimum of any scanning window -- are valid *)
From FP Require Import Aug Search EndToEnd1 EndToEnd2 EndToEnd3 SubgraphBound EndToEndBounds.
From FP Require Peel PeelProofs1.
Theorem C05_lower_bound_choice_is_immaterial :
  forall (V : list node) (E : list edge) (s t : node) (f : edge -> Z) (Pa Sa : list (node * list node)) (topo : list node),
  NoDup V -> (forall e, In e E -> In (fst e) V /\ In (snd e) V) -> ~ In s V -> ~ In t V -> s <> t ->
  Peel.peel_inputs_ok E Pa Sa topo = true -> PeelProofs1.nonneg E f -> PeelProofs1.conserving E f ->
  forall (feasible : nat -> bool) (lb lb' : nat) (sts sts' : list raw),
  (forall k, feasible k = true <-> exists a, sat a (encode_kfd (e2e_inst V E s t f k))) ->
  (forall i, (i < S (length E) - lb)%nat -> exists x, nth_error sts i = Some x /\
             status_of x = if feasible (lb + i)%nat then Optimal else Infeasible) ->
  (forall i, (i < S (length E) - lb')%nat -> exists x, nth_error sts' i = Some x /\
             status_of x = if feasible (lb' + i)%nat then Optimal else Infeasible) ->
  valid_lb V E s t f lb -> valid_lb V E s t f lb' ->
  so_res (mpc_solve true lb (S (length E)) sts) = so_res (mpc_solve true lb' (S (length E)) sts').
Proof. exact lower_bound_choice_is_immaterial. Qed.
Print Assumptions C05_lower_bound_choice_is_immaterial.

Theorem C05_minflowdecomp_returns_the_minimum_from_any_valid_lower_bound :
  forall (V : list node) (E : list edge) (s t : node) (f : edge -> Z) (Pa Sa : list (node * list node)) (topo : list node),
  NoDup V -> (forall e, In e E -> In (fst e) V /\ In (snd e) V) -> ~ In s V -> ~ In t V -> s <> t ->
  Peel.peel_inputs_ok E Pa Sa topo = true -> PeelProofs1.nonneg E f -> PeelProofs1.conserving E f ->
  forall (feasible : nat -> bool) (lb : nat) (sts : list raw),
  (forall k, feasible k = true <-> exists a, sat a (encode_kfd (e2e_inst V E s t f k))) ->
  (forall i, (i < S (length E) - lb)%nat -> exists x, nth_error sts i = Some x /\
             status_of x = if feasible (lb + i)%nat then Optimal else Infeasible) ->
  valid_lb V E s t f lb ->
  exists kopt,
    so_res (mpc_solve true lb (S (length E)) sts) = Solved kopt /\
    (exists P w, decomposition (e2e_inst V E s t f kopt) P w) /\
    (forall k, (k < kopt)%nat -> ~ exists P w, decomposition (e2e_inst V E s t f k) P w).
Proof. exact minflowdecomp_from_any_valid_lower_bound. Qed.
Print Assumptions C05_minflowdecomp_returns_the_minimum_from_any_valid_lower_bound.

Theorem C05_log2_bound_is_valid :
  forall (V : list node) (E : list edge) (s t : node) (f : edge -> Z),
  (forall e, In e E -> In (fst e) V /\ In (snd e) V) -> ~ In s V -> ~ In t V ->
  forall L : list edge, incl L E -> ForallOrdPairs (fun e e' => f e <> f e') L -> valid_lb V E s t f (Nat.log2_up (length L)).
Proof. exact log2_bound_is_valid. Qed.
Print Assumptions C05_log2_bound_is_valid.

Theorem C05_scanning_bound_is_valid :
  forall (V : list node) (E : list edge) (s t : node) (f : edge -> Z) (topo : list node) (left right lbH : nat),
  dag_with_order V E s t topo ->
  (forall j, (j < lbH)%nat -> ~ exists PH wH,
      decomposition (e2e_inst (fst (window_subgraph topo left right E)) (snd (window_subgraph topo left right E)) s t f j) PH wH) ->
  valid_lb V E s t f lbH.
Proof. exact scanning_bound_is_valid. Qed.
Print Assumptions C05_scanning_bound_is_valid.

Theorem C05_valid_bounds_combine : forall (V : list node) (E : list edge) (s t : node) (f : edge -> Z), s <> t -> forall (a b : nat),
  valid_lb V E s t f a -> valid_lb V E s t f b -> valid_lb V E s t f (Nat.max a b).
Proof. exact valid_lb_max. Qed.
Print Assumptions C05_valid_bounds_combine.

(* non-vacuity: s -> a, a -> b (2), a -> c (3), b -> t, c -> t with two paths of weights 2 and 3 meets every premise; the source
   cut is {(a,b),(a,c)}, the source flow 5 and the theorem yields a generating multiset of at most 2 elements for {2,3} *)
Example C05_lower_bounds_nonvacuous :
  decomposition (lbI 2) lbP lbW /\ wf_graph lbG /\ src_cut lbG (f_ignore (lbI 2)) = [(1, 2); (1, 3)]%N /\
  (exists g : list Q, (length g <= 2)%nat /\ genset 1 [2%Q; 3%Q] (2 + (3 + 0))%Q g) /\ (Nat.log2_up 2 <= 2)%nat.
Proof.
  split; [exact lb_decomposition|]. split; [exact lb_wf|]. split; [exact lb_cut|]. split; [exact lb_gen_set_bound|exact lb_log2].
Qed.

(* use_subgraph_scanning_lowerbound (MinFlowDecomp): H = window_subgraph topo left right E is what
   graphutils.get_subgraph_between_topological_nodes returns (window nodes topo[left:right], every edge with an endpoint in the
   window, the outside endpoints as nodes; tied by E3), solved with the same flow values and the ignore list restricted to
   edges inside H.  Every decomposition of G into k source-to-sink paths restricts to a decomposition of H into kH <= k
   source-to-sink paths OF H (sources / sinks of H = nodes without in- / out-edges in H; paths without a window node are
   dropped, a path that only uses ignored edges of H keeps its route with weight 0), hence the optimum of H is a lower bound
   for G and starting the search there cuts off nothing. *)
From FP Require Import EndToEnd1 EndToEnd2 SubgraphBound.

Theorem C05_decomposition_restricts_to_the_window_subgraph :
  forall (V : list node) (E : list PathEnc.edge) (s t : node) (f : PathEnc.edge -> Z) (ign : list PathEnc.edge)
         (topo : list node) (left right k : nat) (P : N -> list node) (w : N -> Q),
  dag_with_order V E s t topo ->
  decomposition (sg_inst V E s t f ign k) P w ->
  let VH := fst (window_subgraph topo left right E) in let EH := snd (window_subgraph topo left right E) in
  exists (kH : nat) (PH : N -> list node) (wH : N -> Q),
    (kH <= k)%nat /\ decomposition (sg_inst VH EH s t f (restrict_ignore VH ign) kH) PH wH.
Proof. exact subgraph_restriction. Qed.
Print Assumptions C05_decomposition_restricts_to_the_window_subgraph.

Theorem C05_subgraph_scanning_lower_bound_is_sound :
  forall (V : list node) (E : list PathEnc.edge) (s t : node) (f : PathEnc.edge -> Z) (ign : list PathEnc.edge)
         (topo : list node) (left right k lbH : nat) (P : N -> list node) (w : N -> Q),
  dag_with_order V E s t topo ->
  let VH := fst (window_subgraph topo left right E) in let EH := snd (window_subgraph topo left right E) in
  (forall j, (j < lbH)%nat -> ~ exists PH wH, decomposition (sg_inst VH EH s t f (restrict_ignore VH ign) j) PH wH) ->
  decomposition (sg_inst V E s t f ign k) P w -> (lbH <= k)%nat.
Proof. exact subgraph_scanning_bound. Qed.
Print Assumptions C05_subgraph_scanning_lower_bound_is_sound.

(* the instance without an ignore list is EndToEnd2.e2e_inst, the one the C03 minimum theorem is stated for *)
Theorem C05_subgraph_scanning_lower_bound_is_sound_e2e :
  forall (V : list node) (E : list PathEnc.edge) (s t : node) (f : PathEnc.edge -> Z)
         (topo : list node) (left right k lbH : nat) (P : N -> list node) (w : N -> Q),
  dag_with_order V E s t topo ->
  let VH := fst (window_subgraph topo left right E) in let EH := snd (window_subgraph topo left right E) in
  (forall j, (j < lbH)%nat -> ~ exists PH wH, decomposition (e2e_inst VH EH s t f j) PH wH) ->
  decomposition (e2e_inst V E s t f k) P w -> (lbH <= k)%nat.
Proof. exact subgraph_scanning_bound_e2e. Qed.
Print Assumptions C05_subgraph_scanning_lower_bound_is_sound_e2e.

(* non-vacuity: 0 -> 1 -> 2 -> 3 and 0 -> 2 (flow 2 on 2 -> 3, 1 elsewhere), two paths of weight 1, window {1}: the
   premises hold, H = ({1, 0, 2}, {0 -> 1, 1 -> 2}) and exactly one of the two paths survives the restriction *)
Example C05_subgraph_scanning_nonvacuous :
  dag_with_order sbV sbE 10%N 11%N sbV /\ decomposition (sg_inst sbV sbE 10%N 11%N sbf [] 2) sbP sbw /\
  window_subgraph sbV 1 2 sbE = ([1; 0; 2]%N, [(0, 1); (1, 2)]%N) /\ k' sbV 1 2 2 sbP = 1%nat.
Proof. split; [exact sb_dag|]. split; [exact sb_decomposition|exact sb_window]. Qed.
