(* C05 — optimisation options never change solvability or the optimal objective.
   Part (c) of DESIGN §5/C05: bound-based fixing == row-based fixing.  Parts (a) fixing safe incompatible
   sequences to layers and (b) zero fixing are proved in the safety development (Props/C06.v, theorems named C06_fix_...). *)
From Coq Require Import List NArith ZArith QArith Bool Lia.
Import ListNotations.
From FP Require Import Lin Blocks OptProofs.
Local Open Scope Q_scope.

Theorem C05_lower_bound_update_equals_geq_row : forall (a : var -> Q) l1 c l2 rs ob mx m, clb c <= m ->
  (sat a {| cols := l1 ++ with_bounds c m (cub c) :: l2; rows := rs; obj := ob; maximize := mx |} <->
   sat a {| cols := l1 ++ c :: l2; rows := mkrow [(cvar c, 1)] SGe m :: rs; obj := ob; maximize := mx |}).
Proof. exact milp_raise_lb_eq_row. Qed.
Print Assumptions C05_lower_bound_update_equals_geq_row.

Theorem C05_fix_update_equals_eq_row : forall (a : var -> Q) l1 c l2 rs ob mx v, clb c <= v <= cub c ->
  (sat a {| cols := l1 ++ with_bounds c v v :: l2; rows := rs; obj := ob; maximize := mx |} <->
   sat a {| cols := l1 ++ c :: l2; rows := mkrow [(cvar c, 1)] SEq v :: rs; obj := ob; maximize := mx |}).
Proof. exact milp_fix_eq_row. Qed.
Print Assumptions C05_fix_update_equals_eq_row.
