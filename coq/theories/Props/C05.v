(* C05 — optimisation options never change solvability or the optimal objective.
   Part (c) of DESIGN §5/C05: bound-based fixing == row-based fixing.  Parts (a) fixing safe incompatible
   sequences to layers and (b) zero fixing are proved in the safety development (Props/C06.v, theorems named C06_fix_...). *)
From Coq Require Import List NArith ZArith QArith Bool Lia.
Import ListNotations.
From FP Require Import Lin Blocks OptProofs.
Local Open Scope Q_scope.

Theorem C05_lower_bound_update_equals_geq_row : forall (a : var -> Q) l1 c l2 rs ob mx m, clb c <= m ->
  (sat a {| cols := l1 ++ with_bounds c m (cub c) :: l2; rows := rs; obj := ob; maximize := mx |} <->
   sat a {| cols := l1 ++ c :: l2; rows := mkrow [(cvar c, 1)] SGe m :: rs; obj := ob; maximize := mx |}).
Proof. exact milp_raise_lb_eq_row. Qed.
Print Assumptions C05_lower_bound_update_equals_geq_row.

Theorem C05_fix_update_equals_eq_row : forall (a : var -> Q) l1 c l2 rs ob mx v, clb c <= v <= cub c ->
  (sat a {| cols := l1 ++ with_bounds c v v :: l2; rows := rs; obj := ob; maximize := mx |} <->
   sat a {| cols := l1 ++ c :: l2; rows := mkrow [(cvar c, 1)] SEq v :: rs; obj := ob; maximize := mx |}).
Proof. exact milp_fix_eq_row. Qed.
Print Assumptions C05_fix_update_equals_eq_row.

(* ---- safe-path fixing never changes feasibility of the k-model (DAG, kFlowDecomp; SafeFix.v) ----
   AbstractPathModelDAG fixes list number j of paths_to_fix into layer j (x[e, j] = 1 for each of its edges; through bounds,
   which by the two theorems above equals adding the rows).  If every list is SAFE (contained in some path of every
   decomposition: C06's theorems) and the lists are pairwise INCOMPATIBLE (no simple path contains two of them: they are
   chosen on an edge antichain; decided per instance by C06's verified decider), the model with the fixing rows is feasible
   exactly when the model without them is -- for every graph, flow, k, ignore set, weight type and subpath constraints. *)
From FP Require Import PathEnc PathEncProofs PathEncComplete SafeFix.
Theorem C05_safe_path_fixing_preserves_feasibility :
  forall (I : kfd_inst) (rank : node -> nat) (Rm : nat) (Ss : list (list PathEnc.edge)),
  PathEncProofs.wf_graph (p_graph (f_base I)) -> p_allow_empty (f_base I) = false ->
  (forall u v, In (u, v) (g_edges (p_graph (f_base I))) -> (rank u < rank v)%nat) -> (forall v, (rank v <= Rm)%nat) ->
  (forall c e, In c (p_cons (f_base I)) -> In e c -> In e (g_edges (p_graph (f_base I))) /\ (0 <= elen (f_base I) e)%Q) ->
  (length Ss <= p_k (f_base I))%nat ->
  (forall P w, decomposition I P w -> constraints_covered (f_base I) P ->
     forall j S, nth_error Ss j = Some S -> exists i, In i (layers (p_k (f_base I))) /\ incl S (EulerProofs1.pairs (P i))) ->
  (forall j j' S S', j <> j' -> nth_error Ss j = Some S -> nth_error Ss j' = Some S' ->
     forall l, NoDup l -> incl S (EulerProofs1.pairs l) -> incl S' (EulerProofs1.pairs l) -> False) ->
  ((exists a, sat a (with_rows (encode_kfd I) (fix_rows Ss))) <-> (exists a, sat a (encode_kfd I))).
Proof. exact safe_fix_preserves_feasibility. Qed.
Print Assumptions C05_safe_path_fixing_preserves_feasibility.

(* non-vacuity: on the diamond of PathEncExample.v the lists [(0,1)] and [(0,2)] are safe and incompatible, and the 2-model with
   both fixed (into layers 0 and 1) is feasible *)
From FP Require Import PathEncExample.
Example C05_fixing_premises_satisfiable :
  (forall P w, decomposition (exI 2) P w -> constraints_covered (f_base (exI 2)) P ->
     forall j S, nth_error exSs j = Some S -> exists i, In i (layers (p_k (f_base (exI 2)))) /\ incl S (EulerProofs1.pairs (P i))) /\
  (forall j j' S S', j <> j' -> nth_error exSs j = Some S -> nth_error exSs j' = Some S' ->
     forall l, NoDup l -> incl S (EulerProofs1.pairs l) -> incl S' (EulerProofs1.pairs l) -> False) /\
  (exists a, sat a (with_rows (encode_kfd (exI 2)) (fix_rows exSs))).
Proof. exact (conj ex_fix_safe (conj ex_fix_incompatible ex_fixed_model_feasible)). Qed.
Print Assumptions C05_fixing_premises_satisfiable.

(* ---- the route that is LIVE in the DAG models at the pinned commit: optimize_with_safety_as_subpath_constraints appends the safe
   lists to the subpath constraints.  Adding SAFE lists as constraints (coverage fraction <= 1) never changes feasibility of the
   k-model.  (The layer-fixing code of AbstractPathModelDAG, theorem above, is dormant at this commit: _apply_safety_optimizations
   is never called in the DAG class; the cyclic class does fix walks, see Props/C06.v.) ---- *)
Theorem C05_safety_as_subpath_constraints_preserves_feasibility :
  forall (I : kfd_inst) (rank : node -> nat) (Rm : nat) (Ss : list (list PathEnc.edge)),
  PathEncProofs.wf_graph (p_graph (f_base I)) -> p_allow_empty (f_base I) = false ->
  (forall u v, In (u, v) (g_edges (p_graph (f_base I))) -> (rank u < rank v)%nat) -> (forall v, (rank v <= Rm)%nat) ->
  (forall c e, In c (p_cons (f_base I) ++ Ss) -> In e c -> In e (g_edges (p_graph (f_base I))) /\ (0 <= elen (f_base I) e)%Q) ->
  (p_cov (f_base I) <= 1)%Q ->
  (forall P w, decomposition I P w -> constraints_covered (f_base I) P ->
     forall S, In S Ss -> exists i, In i (layers (p_k (f_base I))) /\ incl S (EulerProofs1.pairs (P i))) ->
  ((exists a, sat a (encode_kfd (add_cons I Ss))) <-> (exists a, sat a (encode_kfd I))).
Proof. exact safety_as_constraints_preserves_feasibility. Qed.
Print Assumptions C05_safety_as_subpath_constraints_preserves_feasibility.

Example C05_safety_as_constraints_premises_satisfiable : exists a, sat a (encode_kfd (add_cons (exI 2) exSs)).
Proof. exact ex_safety_as_constraints_feasible. Qed.
Print Assumptions C05_safety_as_constraints_premises_satisfiable.

(* the same for the path-cover models (kPathCover / MinPathCover with optimize_with_safety_as_subpath_constraints) *)
From FP Require Import PathCoverComplete SafeFixCover.
Theorem C05_cover_safety_as_subpath_constraints_preserves_feasibility :
  forall (B : path_inst) (ignore : list PathEnc.edge) (rank : node -> nat) (Rm : nat) (Ss : list (list PathEnc.edge)),
  PathEncProofs.wf_graph (p_graph B) -> p_allow_empty B = false ->
  (forall u v, In (u, v) (g_edges (p_graph B)) -> (rank u < rank v)%nat) -> (forall v, (rank v <= Rm)%nat) ->
  (forall c e, In c (p_cons B ++ Ss) -> In e c -> In e (g_edges (p_graph B)) /\ (0 <= elen B e)%Q) ->
  (p_cov B <= 1)%Q ->
  (forall P, path_cover B ignore P -> constraints_covered B P ->
     forall S, In S Ss -> exists i, In i (layers (p_k B)) /\ incl S (EulerProofs1.pairs (P i))) ->
  ((exists a, sat a (encode_kpc (add_cons_p B Ss) ignore)) <-> (exists a, sat a (encode_kpc B ignore))).
Proof. exact cover_safety_as_constraints_preserves_feasibility. Qed.
Print Assumptions C05_cover_safety_as_subpath_constraints_preserves_feasibility.

(* ---- audit additions (agent-walk, audit/props_C03_C05_C07_C08.md): the Examples above stated the two specific hypotheses of the fixing
   theorem and only the CONCLUSION side of the two constraint theorems; here every hypothesis of each theorem on the diamond ---- *)
From FP Require Import AuditExamples.
Example C05_fixing_all_premises_satisfiable :
  PathEncProofs.wf_graph (p_graph (f_base (exI 2))) /\ p_allow_empty (f_base (exI 2)) = false /\
  (forall u v, In (u, v) (g_edges (p_graph (f_base (exI 2)))) -> (exRank u < exRank v)%nat) /\ (forall v, (exRank v <= 3)%nat) /\
  (forall c e, In c (p_cons (f_base (exI 2))) -> In e c -> In e (g_edges (p_graph (f_base (exI 2)))) /\ (0 <= elen (f_base (exI 2)) e)%Q) /\
  (length exSs <= p_k (f_base (exI 2)))%nat /\
  (forall P w, decomposition (exI 2) P w -> constraints_covered (f_base (exI 2)) P ->
     forall j S, nth_error exSs j = Some S -> exists i, In i (layers (p_k (f_base (exI 2)))) /\ incl S (EulerProofs1.pairs (P i))) /\
  (forall j j' S S', j <> j' -> nth_error exSs j = Some S -> nth_error exSs j' = Some S' ->
     forall l, NoDup l -> incl S (EulerProofs1.pairs l) -> incl S' (EulerProofs1.pairs l) -> False).
Proof. exact ex_fix_all_premises. Qed.
Print Assumptions C05_fixing_all_premises_satisfiable.

Example C05_safety_as_constraints_hypotheses_satisfiable :
  (forall c e, In c (p_cons (f_base (exI 2)) ++ exSs) -> In e c -> In e (g_edges (p_graph (f_base (exI 2)))) /\ (0 <= elen (f_base (exI 2)) e)%Q) /\
  (p_cov (f_base (exI 2)) <= 1)%Q /\
  (forall P w, decomposition (exI 2) P w -> constraints_covered (f_base (exI 2)) P ->
     forall S, In S exSs -> exists i, In i (layers (p_k (f_base (exI 2)))) /\ incl S (EulerProofs1.pairs (P i))).
Proof. exact ex_safety_cons_premises. Qed.
Print Assumptions C05_safety_as_constraints_hypotheses_satisfiable.

(* the cover version had no instance at all: kPathCover on the diamond with k = 2, no ignore list; the lists [(0,1)] and [(0,2)] are safe
   because every cover passes every edge; the model is feasible *)
Example C05_cover_safety_hypotheses_satisfiable :
  PathEncProofs.wf_graph (p_graph (exB 2)) /\ p_allow_empty (exB 2) = false /\
  (forall u v, In (u, v) (g_edges (p_graph (exB 2))) -> (exRank u < exRank v)%nat) /\ (forall v, (exRank v <= 3)%nat) /\
  (forall c e, In c (p_cons (exB 2) ++ exSs) -> In e c -> In e (g_edges (p_graph (exB 2))) /\ (0 <= elen (exB 2) e)%Q) /\
  (p_cov (exB 2) <= 1)%Q /\
  (forall P, path_cover (exB 2) [] P -> constraints_covered (exB 2) P ->
     forall S, In S exSs -> exists i, In i (layers (p_k (exB 2))) /\ incl S (EulerProofs1.pairs (P i))) /\
  (exists a, sat a (encode_kpc (exB 2) [])).
Proof. exact ex_cover_safety_premises. Qed.
Print Assumptions C05_cover_safety_hypotheses_satisfiable.
