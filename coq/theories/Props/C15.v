(* C15 — MinGenSet and MinSetCover return true optima whenever one exists.
   Only property theorems (closed by [exact]), their assumptions, non-vacuity examples.
   Models: MiscEnc.v (encode_mgs, mgs_preprocess, mgsm_loop, py_int, encode_msc); semantics: Lin.v [sat].
   Optimality is relative to the solver specification (DESIGN §4): the loop theorems take it as the
   premises [status k = MgOptimal -> feasible k], [status k = MgInfeasible -> ~ feasible k]. *)
From Coq Require Import List NArith ZArith QArith Bool Arith Lia.
Import ListNotations.
From FP Require Import Lin Blocks BlocksProofs PathEnc MiscEnc MiscEncProofs MgsComplete LowerBoundsMgs MgsRange MgsPartsIff MgsRangeParts.
Local Open Scope Q_scope.

(* rows/columns of MinGenSet._create_solver(k) => the Gen values are a multiset of size k of values in
   [0,total] summing to total; every retained number j is sum_i x_ij * gen_i with integer multiplicities
   0 <= x_ij <= max_multiplicity (products exact through the C12 bridges); gen_0 <= .. <= gen_(k-2);
   partition block: every element in exactly one part of every constraint, part sums as given *)
Theorem C15_genset_rows_sound : forall (I : mgs_inst) (k : nat) (a : var -> Q), (1 <= mg_mult I)%nat ->
  sat a (encode_mgs I k) -> mgs_sem (prod_ub I) (pi_ub I) I k a.
Proof. exact mgs_enc_sound_code. Qed.
Print Assumptions C15_genset_rows_sound.

Theorem C15_genset_rows_give_generating_multiset : forall (I : mgs_inst) (k : nat) (a : var -> Q),
  (1 <= mg_mult I)%nat -> sat a (encode_mgs I k) ->
  let g := map (fun i => a (Gen i)) (layers k) in
  length g = k /\ genset (mg_mult I) (mg_numbers I) (mg_total I) g /\ (mg_int I = true -> Forall is_int g).
Proof. exact mgs_sound_multiset. Qed.
Print Assumptions C15_genset_rows_give_generating_multiset.

(* COMPLETENESS (partition constraints included): every generating multiset of size k -- in any order; integral when
   weight_type = int; for every partition constraint each element put into exactly one of its parts with the part sums as
   given (part_ok_strict) -- is carried by a satisfying assignment of the rows of _create_solver(k).  The only side
   condition is max_multiplicity >= 1; nothing is needed about the numbers or the total (they are sums of the elements). *)
Definition C15_genset_rows_complete_full_statement : Prop := forall (I : mgs_inst) (k : nat) (g : list Q),
  (1 <= mg_mult I)%nat -> length g = k ->
  genset (mg_mult I) (mg_numbers I) (mg_total I) g /\ (mg_int I = true -> Forall is_int g) /\
  Forall (part_ok_strict g) (parts_of I) ->
  exists a, sat a (encode_mgs I k).
Theorem C15_genset_rows_complete : C15_genset_rows_complete_full_statement.
Proof. exact mgs_enc_complete. Qed.
Print Assumptions C15_genset_rows_complete.

(* hence, without partition constraints: the model for k is satisfiable exactly when a generating multiset of size k exists *)
Theorem C15_model_feasible_iff_generating_multiset : forall (I : mgs_inst) (k : nat), mg_parts I = None -> (1 <= mg_mult I)%nat ->
  ((exists a, sat a (encode_mgs I k)) <-> exists g, length g = k /\ genset_for I g).
Proof. exact mgs_feasible_iff. Qed.
Print Assumptions C15_model_feasible_iff_generating_multiset.

(* generating multisets do not depend on the order of the elements (used to sort g for the symmetry rows) *)
Theorem C15_genset_permutation_invariant : forall (m : nat) (numbers : list Q) (total : Q) (g g' : list Q),
  Permutation.Permutation g g' -> genset m numbers total g -> genset m numbers total g'.
Proof. exact genset_perm. Qed.
Print Assumptions C15_genset_permutation_invariant.

(* ---- partition constraints: the rows admit EXACTLY the generating multisets that meet every constraint in the sense
   part_ok_t (parts_t I): each element in exactly one part index below the length of the longest constraint, the sums of the parts
   the constraint has as given (an element may sit in an index a shorter constraint does not have; it then adds to none of its sums) *)
Theorem C15_partition_block_sound : forall (I : mgs_inst) (k : nat) (a : var -> Q), (1 <= mg_mult I)%nat -> sat a (encode_mgs I k) ->
  Forall (part_ok_t (parts_t I) (map (fun i => a (Gen i)) (layers k))) (parts_of I).
Proof. exact mgs_parts_sound. Qed.
Print Assumptions C15_partition_block_sound.

Theorem C15_genset_rows_complete_exact : forall (I : mgs_inst) (k : nat) (g : list Q),
  (1 <= mg_mult I)%nat -> length g = k -> genset_rows I g -> exists a, sat a (encode_mgs I k).
Proof. exact mgs_enc_complete_rows. Qed.
Print Assumptions C15_genset_rows_complete_exact.

(* THE IFF with partition constraints (both directions, same predicate) *)
Theorem C15_model_feasible_iff_generating_multiset_with_partition_constraints : forall (I : mgs_inst) (k : nat), (1 <= mg_mult I)%nat ->
  ((exists a, sat a (encode_mgs I k)) <-> exists g, length g = k /\ genset_rows I g).
Proof. exact mgs_feasible_iff_parts. Qed.
Print Assumptions C15_model_feasible_iff_generating_multiset_with_partition_constraints.

(* the rows' predicate is the natural one (every element in exactly one part OF the constraint) whenever all constraints have the
   same number of parts, in particular for a single constraint; in general the natural predicate implies it (corollary used above) *)
Theorem C15_rows_predicate_natural_for_equal_lengths : forall (I : mgs_inst) (g : list Q),
  (forall cons, In cons (parts_of I) -> length cons = parts_t I) -> (genset_rows I g <-> genset_for I g).
Proof. exact genset_rows_strict. Qed.
Print Assumptions C15_rows_predicate_natural_for_equal_lengths.
Theorem C15_natural_predicate_implies_rows_predicate : forall (I : mgs_inst) (g : list Q), genset_for I g -> genset_rows I g.
Proof. exact genset_for_rows. Qed.
Print Assumptions C15_natural_predicate_implies_rows_predicate.

(* MinGenSet.solve returns the minimum also WITH partition constraints (solver specification): the reported size has a generating
   multiset meeting every constraint, no size from max(1, lowerbound) up to it has one *)
Theorem C15_mgs_returns_minimum_exact : forall (I : mgs_inst) (status : nat -> mstatus), (1 <= mg_mult I)%nat ->
  (forall k, status k = MgOptimal -> exists a, sat a (encode_mgs I k)) ->
  (forall k, status k = MgInfeasible -> forall a, ~ sat a (encode_mgs I k)) ->
  forall lb n extra tried k, mgsm_loop status lb n extra = (tried, Some k) ->
  (exists g, length g = k /\ genset_rows I g) /\ (Nat.max 1 lb <= k)%nat /\
  forall k' g, (Nat.max 1 lb <= k' < k)%nat -> length g = k' -> ~ genset_rows I g.
Proof. exact mgs_returns_minimum_rows. Qed.
Print Assumptions C15_mgs_returns_minimum_exact.

(* pre-processing keeps exactly the generating multisets of the caller's numbers *)
Theorem C15_preprocess_preserves_generating_multisets : forall (rm : bool) (mult : nat) (numbers : list Q) (total : Q) (g : list Q),
  (1 <= mult)%nat -> (genset mult (mgs_preprocess rm mult numbers total) total g <-> genset mult numbers total g).
Proof. exact genset_preprocess_iff. Qed.
Print Assumptions C15_preprocess_preserves_generating_multisets.

(* MinGenSet.solve returns a MINIMUM (relative to the solver specification, no partition constraints): the reported size k
   has a generating multiset and no size in lowerbound .. k-1 has one *)
Theorem C15_mgs_returns_minimum : forall (I : mgs_inst) (status : nat -> mstatus),
  mg_parts I = None -> (1 <= mg_mult I)%nat ->
  (forall k, status k = MgOptimal -> exists a, sat a (encode_mgs I k)) ->
  (forall k, status k = MgInfeasible -> forall a, ~ sat a (encode_mgs I k)) ->
  forall lb n extra tried k, mgsm_loop status lb n extra = (tried, Some k) ->
  (exists g, length g = k /\ genset_for I g) /\ (Nat.max 1 lb <= k)%nat /\
  forall k' g, (Nat.max 1 lb <= k' < k)%nat -> length g = k' -> ~ genset_for I g.
Proof. exact mgs_returns_minimum. Qed.
Print Assumptions C15_mgs_returns_minimum.

(* with partition constraints: the reported size carries a generating multiset; no smaller size from the lower bound on
   has a generating multiset meeting the partition constraints *)
Theorem C15_mgs_returns_minimum_with_partition_constraints : forall (I : mgs_inst) (status : nat -> mstatus),
  (1 <= mg_mult I)%nat ->
  (forall k, status k = MgOptimal -> exists a, sat a (encode_mgs I k)) ->
  (forall k, status k = MgInfeasible -> forall a, ~ sat a (encode_mgs I k)) ->
  forall lb n extra tried k, mgsm_loop status lb n extra = (tried, Some k) ->
  (exists g, length g = k /\ genset (mg_mult I) (mg_numbers I) (mg_total I) g /\ (mg_int I = true -> Forall is_int g)) /\ (Nat.max 1 lb <= k)%nat /\
  forall k' g, (Nat.max 1 lb <= k' < k)%nat -> length g = k' -> ~ genset_for I g.
Proof. exact mgs_returns_minimum_parts. Qed.
Print Assumptions C15_mgs_returns_minimum_with_partition_constraints.

(* ... and it does return one whenever a size of the searched range has a generating multiset and the solver is conclusive *)
Theorem C15_mgs_solves_when_possible : forall (I : mgs_inst) (status : nat -> mstatus),
  mg_parts I = None -> (1 <= mg_mult I)%nat ->
  (forall k, status k = MgInfeasible -> forall a, ~ sat a (encode_mgs I k)) ->
  forall lb n extra, (forall k, status k = MgOptimal \/ status k = MgInfeasible) ->
  (exists k g, In k (mgsm_range lb n extra) /\ length g = k /\ genset_for I g) ->
  exists tried k, mgsm_loop status lb n extra = (tried, Some k).
Proof. exact mgs_solves_when_possible. Qed.
Print Assumptions C15_mgs_solves_when_possible.

(* ---- the upper end of the search range always suffices (no partition constraints) ---- *)
(* the differences of the sorted numbers and the total: len(numbers) + 1 non-negative elements that sum to the total and
   generate every number as a prefix sum (multiplicity 1) *)
Theorem C15_range_witness : forall (mult : nat) (numbers : list Q) (total : Q), (1 <= mult)%nat -> 0 <= total ->
  Forall (fun a => 0 <= a <= total) numbers ->
  length (range_witness numbers total) = S (length numbers) /\ genset mult numbers total (range_witness numbers total).
Proof. exact range_witness_genset. Qed.
Print Assumptions C15_range_witness.

(* padding with zeros keeps a generating multiset generating ... *)
Theorem C15_genset_padding : forall (mult : nat) (numbers : list Q) (total : Q) (g : list Q) (n : nat),
  genset mult numbers total g -> genset mult numbers total (g ++ repeat 0 n).
Proof. exact genset_pad. Qed.
Print Assumptions C15_genset_padding.

(* ... hence "the model for k is satisfiable" is monotone in k (what a search that starts from a lower bound relies on) *)
Theorem C15_feasibility_monotone_in_k : forall (I : mgs_inst) (k k' : nat), mg_parts I = None -> (1 <= mg_mult I)%nat -> (k <= k')%nat ->
  (exists a, sat a (encode_mgs I k)) -> exists a, sat a (encode_mgs I k').
Proof. exact mgs_feasible_monotone. Qed.
Print Assumptions C15_feasibility_monotone_in_k.

(* for numbers in [0, total] (integral data for int) the model is satisfiable for every k >= len(numbers) + 1 *)
Theorem C15_range_upper_end_suffices : forall (I : mgs_inst), mg_parts I = None -> (1 <= mg_mult I)%nat -> mgs_domain I ->
  forall k, (S (length (mg_numbers I)) <= k)%nat -> exists a, sat a (encode_mgs I k).
Proof. exact mgs_model_feasible_from_n_plus_1. Qed.
Print Assumptions C15_range_upper_end_suffices.

(* MinGenSet.solve ALWAYS reports a size (solver specification, conclusive statuses) when every retained number lies in
   [0, total], lowerbound <= len(initial numbers) + 1, no partition constraints; by C15_mgs_returns_minimum it is the minimum *)
Theorem C15_mgs_always_solves : forall (I : mgs_inst) (status : nat -> mstatus) (lb n_initial : nat),
  mg_parts I = None -> (1 <= mg_mult I)%nat -> mgs_domain I ->
  (length (mg_numbers I) <= n_initial)%nat -> (lb <= S n_initial)%nat ->
  (forall k, status k = MgInfeasible -> forall a, ~ sat a (encode_mgs I k)) ->
  (forall k, status k = MgOptimal \/ status k = MgInfeasible) ->
  exists tried k, mgsm_loop status lb n_initial (extra_cuts (mg_parts I)) = (tried, Some k).
Proof. exact mgs_always_solves. Qed.
Print Assumptions C15_mgs_always_solves.

(* ---- the upper end of the search range suffices ALSO WITH PARTITION CONSTRAINTS (cut-point construction: the numbers and
   the inner prefix sums of every constraint as cut points of [0,total]; the differences of the sorted cut points) ---- *)
Theorem C15_range_suffices : forall (I : mgs_inst), (1 <= mg_mult I)%nat -> mgs_domain_parts I ->
  forall k, (Z.of_nat (length (mg_numbers I)) + 1 + extra_cuts (mg_parts I) <= Z.of_nat k)%Z ->
  (exists g, length g = k /\ genset_for I g) /\ exists a, sat a (encode_mgs I k).
Proof. exact mgs_range_suffices. Qed.
Print Assumptions C15_range_suffices.

(* MinGenSet.solve is SOLVED for EVERY input of the documented domain (numbers in [0,total]; every partition constraint a
   non-empty list of positive parts summing to the total; integral data for int; any lower bound up to the end of the range)
   and its answer is the MINIMUM -- under the solver specification with truthful statuses *)
Theorem C15_mgs_always_solves_minimum : forall (I : mgs_inst) (status : nat -> mstatus) (lb n_initial : nat),
  (1 <= mg_mult I)%nat -> mgs_domain_parts I -> (length (mg_numbers I) <= n_initial)%nat ->
  (Z.of_nat lb <= Z.of_nat n_initial + 1 + extra_cuts (mg_parts I))%Z ->
  (forall k, status k = MgOptimal -> exists a, sat a (encode_mgs I k)) ->
  (forall k, status k = MgInfeasible -> forall a, ~ sat a (encode_mgs I k)) ->
  (forall k, status k = MgOptimal \/ status k = MgInfeasible) ->
  exists tried k, mgsm_loop status lb n_initial (extra_cuts (mg_parts I)) = (tried, Some k) /\
    (exists g, length g = k /\ genset_rows I g) /\ (Nat.max 1 lb <= k)%nat /\
    forall k' g, (Nat.max 1 lb <= k' < k)%nat -> length g = k' -> ~ genset_rows I g.
Proof. exact mgs_always_solves_minimum. Qed.
Print Assumptions C15_mgs_always_solves_minimum.

(* outside that domain: with max_multiplicity = 1 a number above the total has no generating multiset of any size, so every
   model of the search is infeasible and MinGenSet ends unsolved (MinFlowDecomp's lower bound is then unavailable) *)
Theorem C15_number_above_total_infeasible : forall (numbers : list Q) (total : Q) (g : list Q) (a : Q),
  In a numbers -> total < a -> ~ genset 1 numbers total g.
Proof. exact number_above_total_infeasible. Qed.
Print Assumptions C15_number_above_total_infeasible.

(* towards completeness: the multiplicity's bit vector (sized from max(total, max_multiplicity), b959a54)
   represents every value 0 .. max_multiplicity *)
Theorem C15_multiplicity_bits_suffice : forall I : mgs_inst, 0 <= mg_total I ->
  (Z.of_nat (mg_mult I) < 2 ^ Z.of_nat (num_bits (prod_ub I)))%Z.
Proof. exact mgs_bits_suffice. Qed.
Print Assumptions C15_multiplicity_bits_suffice.
(* FIXED FINDING (mgs_multiplicity_cut_by_bit_width, b959a54): the old encoder (bits from total only) has no solution
   for k = 2 on numbers [1/2, 1/4], total 1, multiplicity 2 although {1/4, 3/4} generates both *)
Theorem C15_old_multiplicity_bits_refuted : exists (I : mgs_inst) (k : nat) (g : list Q),
  mg_mult I = 2%nat /\ length g = k /\ genset (mg_mult I) (mg_numbers I) (mg_total I) g /\
  (forall a, ~ sat a (encode_mgs_old I k)) /\ (Z.of_nat (mg_mult I) < 2 ^ Z.of_nat (num_bits (prod_ub I)))%Z.
Proof. exact mgs_old_multiplicity_bits_refuted. Qed.
Print Assumptions C15_old_multiplicity_bits_refuted.

(* FIXED FINDING (mgs_pi_bounded_by_total, a068bcc): with multiplicities a number may exceed the total; the old encoder
   bounded the products by the total and admitted nothing for k = 1 on numbers [1,2], total 1, multiplicity 2,
   which {1} generates; the encoder as it is now (pi <= max(total, numbers)) has a solution for k = 1 *)
Theorem C15_pi_bound_old_refuted : exists (I : mgs_inst) (k : nat),
  genset (mg_mult I) (mg_numbers I) (mg_total I) [1] /\ k = 1%nat /\
  (exists a, sat a (encode_mgs I k)) /\ forall a, ~ sat a (encode_mgs_pi_old I k).
Proof. exact mgs_pi_bound_old_refuted. Qed.
Print Assumptions C15_pi_bound_old_refuted.

(* __init__ as it is now (complements removed only for max_multiplicity = 1, 295fbde): removing total, zero,
   duplicates and complements loses nothing, for every max_multiplicity >= 1 *)
Theorem C15_complement_removal_sound : forall (mult : nat) (numbers : list Q) (total : Q) (g : list Q), (1 <= mult)%nat ->
  genset mult (mgs_preprocess true mult numbers total) total g -> genset mult numbers total g.
Proof. exact complement_removal_sound. Qed.
Print Assumptions C15_complement_removal_sound.

(* FIXED FINDING (mgs_complement_removal_with_multiplicity, 295fbde): the old pre-processing removed complements for
   every multiplicity, which is unsound *)
Theorem C15_complement_removal_old_refuted : exists numbers total g,
  genset 2 (mgs_preprocess_old true numbers total) total g /\ ~ genset 2 numbers total g /\
  mgs_preprocess true 2 numbers total = numbers.
Proof. exact complement_removal_old_refuted. Qed.
Print Assumptions C15_complement_removal_old_refuted.

(* solve() as it is now (after fixes 03febc7, 2966290, 883b781, 2a5d8e1; range max(1, lowerbound) .. len(numbers)+1+extra_cuts;
   [lb : nat] stands for max(0, lowerbound) of the Python int, mgsm_range_z): an answer k means the model for k was optimal and every
   size from the lower bound up to k-1 was proven infeasible: k is the least feasible size >= lowerbound *)
Theorem C15_loop_sound : forall (feasible : nat -> Prop) (status : nat -> mstatus),
  (forall k, status k = MgOptimal -> feasible k) -> (forall k, status k = MgInfeasible -> ~ feasible k) ->
  forall lb n extra tried k, mgsm_loop status lb n extra = (tried, Some k) ->
  feasible k /\ In k (mgsm_range lb n extra) /\ (Nat.max 1 lb <= k)%nat /\ forall k', (Nat.max 1 lb <= k' < k)%nat -> ~ feasible k'.
Proof. exact mgsm_loop_sound. Qed.
Print Assumptions C15_loop_sound.

(* unsolved: the whole range was proven infeasible, or the loop stopped at an inconclusive status *)
Theorem C15_loop_unsolved : forall (feasible : nat -> Prop) (status : nat -> mstatus),
  (forall k, status k = MgInfeasible -> ~ feasible k) ->
  forall lb n extra tried, mgsm_loop status lb n extra = (tried, None) ->
  (tried = mgsm_range lb n extra /\ forall k, In k (mgsm_range lb n extra) -> ~ feasible k) \/
  (exists k, In k tried /\ status k = MgOther).
Proof. exact mgsm_loop_none. Qed.
Print Assumptions C15_loop_unsolved.

(* with conclusive statuses solve() succeeds whenever some size in lowerbound .. len(numbers)+1+extra_cuts is feasible.
   Without partition constraints some size of the range IS feasible (C15_range_upper_end_suffices, C15_mgs_always_solves below);
   with partition constraints: C15_range_suffices, C15_mgs_always_solves_minimum) *)
Theorem C15_loop_complete_partial : forall (feasible : nat -> Prop) (status : nat -> mstatus),
  (forall k, status k = MgInfeasible -> ~ feasible k) ->
  forall lb n extra, (forall k, status k = MgOptimal \/ status k = MgInfeasible) ->
  (exists k, In k (mgsm_range lb n extra) /\ feasible k) -> exists tried k, mgsm_loop status lb n extra = (tried, Some k).
Proof. exact mgsm_loop_complete. Qed.
Print Assumptions C15_loop_complete_partial.
Definition C15_loop_complete_full_statement : Prop := forall (I : mgs_inst) (n_initial : nat) (status : nat -> mstatus),
  (forall k, status k = MgOptimal <-> exists a, sat a (encode_mgs I k)) -> (forall k, status k <> MgOther) ->
  (length (mg_numbers I) <= n_initial)%nat -> (exists k a, (1 <= k)%nat /\ sat a (encode_mgs I k)) ->
  exists tried k, mgsm_loop status 1 n_initial (extra_cuts (mg_parts I)) = (tried, Some k).

(* FIXED FINDING (mgs_upper_end_exclusive, 2966290): the old range excluded sizes len(numbers) and len(numbers)+1 *)
Theorem C15_loop_old_upper_end_refuted : exists numbers total,
  (exists g, length g = 2%nat /\ genset 1 numbers total g) /\
  (forall g, length g = 1%nat -> ~ genset 1 numbers total g) /\
  In 2%nat (mgsm_range 1 (length numbers) 0) /\ ~ In 2%nat (mgsm_range_old 1 (length numbers)) /\
  forall status, snd (mgsm_loop_old status 1 (length numbers)) = None \/ snd (mgsm_loop_old status 1 (length numbers)) = Some 1%nat.
Proof. exact mgsm_loop_old_upper_end_refuted. Qed.
Print Assumptions C15_loop_old_upper_end_refuted.
Theorem C15_loop_old_upper_end_refuted2 : exists numbers total,
  (exists g, length g = 3%nat /\ genset 1 numbers total g) /\
  ~ In 3%nat (mgsm_range_old 1 (length numbers)) /\ In 3%nat (mgsm_range 1 (length numbers) 0).
Proof. exact mgsm_loop_old_upper_end_refuted2. Qed.
Print Assumptions C15_loop_old_upper_end_refuted2.

(* FIXED FINDING (mgs_lowerbound_below_one, 2a5d8e1): the search that started at the lower bound itself met the empty model
   k = 0 (kModelEmpty, inconclusive) for lowerbound 0 and ended unsolved; the search as it is starts at max(1, lowerbound) --
   also for negative lower bounds -- and answers *)
Theorem C15_loop_from_lowerbound_zero_old_refuted : exists (status : nat -> mstatus) n,
  status 0%nat = MgOther /\ status 1%nat = MgOptimal /\
  mgsm_loop_from_lb status 0 n 0 = ([0%nat], None) /\ mgsm_loop status 0 n 0 = ([1%nat], Some 1%nat) /\
  mgsm_range_z (-3) n 0 = mgsm_range 0 n 0.
Proof. exact mgsm_loop_from_lb_zero_refuted. Qed.
Print Assumptions C15_loop_from_lowerbound_zero_old_refuted.

(* FIXED FINDING (mgs_skips_inconclusive, 03febc7): the old loop skipped an inconclusive run and reported a larger size
   as solved; the loop as it is now ends unsolved on the same status history *)
Theorem C15_loop_old_skips_inconclusive_refuted : exists (status : nat -> mstatus) lb n tried k,
  status 1%nat = MgOther /\ mgsm_loop_old status lb n = (tried, Some k) /\ In 1%nat tried /\ (1 < k)%nat /\
  mgsm_loop status lb n 0 = ([1%nat], None).
Proof. exact mgsm_loop_old_skips_inconclusive_refuted. Qed.
Print Assumptions C15_loop_old_skips_inconclusive_refuted.

(* FIXED FINDING (mgs_range_ignores_partition_constraints, 883b781): the range without the extra cut points misses
   the size-4 set {1,1,2,2} forced by the constraints [2,2,2] and [6]; the range as it is now contains it *)
Theorem C15_range_old_partition_refuted : exists numbers total parts g,
  length g = 4%nat /\ genset 1 numbers total g /\ Forall (part_ok g) parts /\
  ~ In 4%nat (mgsm_range 1 (length numbers) 0) /\ In 4%nat (mgsm_range 1 (length numbers) (extra_cuts (Some parts))).
Proof. exact mgsm_range_old_partition_refuted. Qed.
Print Assumptions C15_range_old_partition_refuted.

(* reading integer solver values: round() (the code as it is, f5a395c) returns the integer a value lies within 1/2 of *)
Theorem C15_round_reads_integer : forall (q : Q) (z : Z),
  inject_Z z - (1 # 2) < q -> q < inject_Z z + (1 # 2) -> py_round_half_even q = z.
Proof. exact py_round_near. Qed.
Print Assumptions C15_round_reads_integer.
(* FIXED FINDING (mgs_int_truncation, f5a395c): int(), used before, truncates a value just below 3 to 2 *)
Theorem C15_int_truncation_old_refuted : exists q : Q, 3 - (1 # 1000000) <= q /\ q < 3 /\ py_int q = 2%Z.
Proof. exact py_int_truncates_refuted. Qed.
Print Assumptions C15_int_truncation_old_refuted.

(* MinSetCover: the rows are satisfied exactly by the 0/1 choices whose chosen subsets cover the universe;
   the objective is the total weight of the choice *)
Theorem C15_setcover_rows_exact : forall (I : msc_inst) (m : milp) (a : var -> Q),
  encode_msc I = Some m -> (sat a m <-> msc_sem I a).
Proof. exact msc_enc_exact. Qed.
Print Assumptions C15_setcover_rows_exact.

Theorem C15_setcover_objective_is_weight : forall (I : msc_inst) (m : milp) (a : var -> Q),
  encode_msc I = Some m ->
  objective a m == sumq (fun iw => snd iw * a (Sub (fst iw))) (zipn 0 (firstn (length (sc_subsets I)) (msc_weights I))).
Proof. exact msc_objective_is_weight. Qed.
Print Assumptions C15_setcover_objective_is_weight.

(* default subset_weights=None (4e8a1f8): a model is built and its objective counts the chosen subsets *)
Theorem C15_setcover_default_weights_unit : forall (I : msc_inst) (a : var -> Q), sc_weights I = None ->
  exists m, encode_msc I = Some m /\ objective a m == sumq (fun j => a (Sub j)) (idxs (sc_subsets I)).
Proof. exact msc_default_weights_unit. Qed.
Print Assumptions C15_setcover_default_weights_unit.
(* FIXED FINDING (msc_default_weights_typeerror, 4e8a1f8): before the fix the default built no model *)
Theorem C15_setcover_default_weights_old_refuted : exists I : msc_inst,
  sc_weights I = None /\ encode_msc_old I = None /\ encode_msc I <> None /\
  (forall el, In el (sc_universe I) -> exists S, In S (sc_subsets I) /\ nmem el S = true).
Proof. exact msc_old_default_weights_refuted. Qed.
Print Assumptions C15_setcover_default_weights_old_refuted.

(* the E1 comparison itself is verified: when the extracted checker accepts, the LP read back from the solver and the model's LP
   have the same satisfying assignments, the same objective function and direction -- hence the same optimal solutions.  Every
   theorem above about `sat a (encode_mgs I k / encode_msc I)` therefore holds for the LP the implementation built on that instance. *)
From FP Require Import LinEquiv.
Theorem C15_lp_comparison_is_verified : forall (m1 m2 : milp), milp_equiv_b m1 m2 = true ->
  (forall a, sat a m1 <-> sat a m2) /\ (forall a, (objective a m1 == objective a m2)%Q) /\ maximize m1 = maximize m2.
Proof. exact milp_equiv_sound. Qed.
Print Assumptions C15_lp_comparison_is_verified.

Theorem C15_equivalent_lps_have_the_same_optima : forall (m1 m2 : milp), milp_equiv_b m1 m2 = true ->
  forall a, (sat a m1 /\ forall b, sat b m1 -> obj_le m1 a b) <-> (sat a m2 /\ forall b, sat b m2 -> obj_le m2 a b).
Proof. exact milp_equiv_optimal. Qed.
Print Assumptions C15_equivalent_lps_have_the_same_optima.

(* ---- non-vacuity ---- *)
(* a satisfiable MinGenSet model: numbers [1;2], total 3, k = 2 (assignment Gen = 1,2; X = identity) *)
Definition ex_mgs : mgs_inst := {| mg_numbers := [1; 2]; mg_total := 3; mg_int := true; mg_mult := 1; mg_parts := None |}.
Definition ex_mgs_a (v : var) : Q :=
  match vidx v with
  | [i] => if (vfam v =? fGen)%N then (if (i =? 0)%N then 1 else 2) else 0
  | [i; j] => if (i =? j)%N then (if (vfam v =? fX)%N then 1 else if (vfam v =? fPi)%N then (if (i =? 0)%N then 1 else 2) else 0) else 0
  | _ => 0
  end.
Example C15_nonvacuous_genset : sat ex_mgs_a (encode_mgs ex_mgs 2) /\ mgsm_loop (fun k => if (k =? 2)%nat then MgOptimal else MgInfeasible) 1 3 0 = ([1; 2]%nat, Some 2%nat) /\ mgsm_range 1 3 2 = [1; 2; 3; 4; 5; 6]%nat /\ mgsm_range 0 3 0 = [1; 2; 3; 4]%nat /\ mgsm_range_z (-2) 1 0 = [1; 2]%nat.
Proof.
  split; [split|repeat split; reflexivity].
  - apply Forall_dec_cols. vm_compute. reflexivity.
  - apply Forall_dec_rows. vm_compute. reflexivity.
Qed.
Example C15_nonvacuous_preprocess : mgs_preprocess true 1 [1; 6; 3; 4; 3; 7; 0] 7 = [1; 3] /\ mgs_preprocess true 2 [1; 6; 3; 4; 3; 7; 0] 7 = [1; 6; 4; 3].
Proof. split; vm_compute; reflexivity. Qed.
(* completeness is not vacuous: an unsorted generating multiset with a multiplicity 2 (bit-expansion rows) is admitted *)
Example C15_nonvacuous_complete : genset_for ex_complete_inst [3 # 4; 1 # 4] /\ exists a, sat a (encode_mgs ex_complete_inst 2).
Proof. split; [exact ex_complete_genset|exact ex_complete_sat]. Qed.
Example C15_nonvacuous_complete_with_partition_constraints : genset_for ex_parts_inst [2; 1; 2; 1] /\ exists a, sat a (encode_mgs ex_parts_inst 4).
Proof. split; [exact ex_parts_genset|exact ex_parts_sat]. Qed.
Example C15_nonvacuous_rows_predicate : genset_rows ex_parts_inst [2; 1; 2; 1] /\ parts_t ex_parts_inst = 3%nat.
Proof. split; [apply genset_for_rows; exact ex_parts_genset|reflexivity]. Qed.
Example C15_nonvacuous_range : range_witness [4; 1; 2] 7 = [1 - 0; 2 - 1; 4 - 2; 7 - 4] /\ mgs_domain ex_range_inst /\
  exists a, sat a (encode_mgs ex_range_inst 4).
Proof. exact ex_range. Qed.
Example C15_nonvacuous_range_with_partition_constraints : mgs_domain_parts ex_parts_inst /\
  cut_witness (mg_numbers ex_parts_inst) (parts_of ex_parts_inst) (mg_total ex_parts_inst) = [1 - 0; 1 - 1; (0 + 2) - 1; (0 + 2 + 2) - (0 + 2); 6 - (0 + 2 + 2)] /\
  exists a, sat a (encode_mgs ex_parts_inst 5).
Proof. exact ex_parts_domain. Qed.
(* the bound len(numbers) + 1 + extra_cuts of C15_range_suffices is tight: here it is 2, {2,4} works, no single element does *)
Example C15_range_bound_is_tight : (Z.of_nat (length (mg_numbers ex_tight_inst)) + 1 + extra_cuts (mg_parts ex_tight_inst) = 2)%Z /\
  genset_for ex_tight_inst [2; 4] /\ forall g, length g = 1%nat -> ~ genset_for ex_tight_inst g.
Proof. exact ex_tight. Qed.
(* a satisfiable MinSetCover model *)
Example C15_nonvacuous_setcover : exists m, encode_msc {| sc_universe := [1; 2; 3]%N; sc_subsets := [[1; 2]; [2; 3]; [3]]%N; sc_weights := Some [1; 1; 1] |} = Some m /\
  sat (fun v => match vidx v with [i] => if (i =? 2)%N then 0 else 1 | _ => 0 end) m.
Proof.
  eexists. split; [reflexivity|]. split.
  - apply Forall_dec_cols. vm_compute. reflexivity.
  - apply Forall_dec_rows. vm_compute. reflexivity.
Qed.

(* ---- audit addition (agent-c19, audit/props_C12_C15.md): the status function of C15_nonvacuous_genset (Optimal at 2, Infeasible
   everywhere else) is NOT truthful above 2 (size 3 is feasible by padding), so it does not instantiate the solver hypotheses of
   C15_mgs_returns_minimum* / C15_mgs_solves_when_possible / C15_mgs_always_solves(_minimum).  Here they all hold: numbers {1, 2},
   total 3, status Infeasible below 2 and Optimal from 2 on (Optimal is true of the rows for every k >= 2 by monotonicity,
   Infeasible for k < 2 because one element cannot be 1 and 3); conclusive everywhere; the search from lowerbound 0 tries 1, 2
   and reports 2 *)
From FP Require Import AuditExamples12.
Example C15_truthful_conclusive_status_exists :
  mg_parts au_mgs = None /\ (1 <= mg_mult au_mgs)%nat /\ mgs_domain au_mgs /\ (length (mg_numbers au_mgs) <= 2)%nat /\
  (forall k, au_status k = MgOptimal -> exists a, sat a (encode_mgs au_mgs k)) /\
  (forall k, au_status k = MgInfeasible -> forall a, ~ sat a (encode_mgs au_mgs k)) /\
  (forall k, au_status k = MgOptimal \/ au_status k = MgInfeasible) /\
  mgsm_loop au_status 0 2 (extra_cuts (mg_parts au_mgs)) = ([1; 2]%nat, Some 2%nat).
Proof. exact au_mgs_truthful_status. Qed.
Print Assumptions C15_truthful_conclusive_status_exists.

(* the hypothesis `milp_equiv_b m1 m2 = true` of the two LP-comparison theorems is met by two DIFFERENT presentations of one LP
   (reordered terms, a split coefficient, a negated row, a trivially true row): LinEquiv.milp_equiv_example *)
Example C15_lp_comparison_accepts_a_rewritten_lp :
  milp_equiv_b
    {| cols := [{| cvar := V 0%N [1%N]; clb := 0%Q; cub := 1%Q; cint := true |}];
       rows := [mkrow [(V 0%N [1%N], 1%Q); (V 0%N [2%N], 2%Q)] SLe 3%Q; mkrow [] SGe 0%Q]; obj := [(V 0%N [1%N], 1%Q)]; maximize := false |}
    {| cols := [{| cvar := V 0%N [1%N]; clb := 0%Q; cub := (2 # 2)%Q; cint := true |}];
       rows := [mkrow [(V 0%N [2%N], (- (1))%Q); (V 0%N [1%N], (- (1))%Q); (V 0%N [2%N], (- (1))%Q)] SGe (- (3))%Q]; obj := [(V 0%N [1%N], (1 # 2)%Q); (V 0%N [1%N], (1 # 2)%Q)]; maximize := false |}
  = true.
Proof. exact milp_equiv_example. Qed.
Print Assumptions C15_lp_comparison_accepts_a_rewritten_lp.
