(* C10 for the error models: "ignoring an element, or giving it error scale 0, removes its influence on feasibility and
   objective and nothing else" -- stated about the row-level models of the LPs as the code builds them
   (ErrEnc.encode_klae / encode_kmpe, tied by E1 in the C07 / C08 engines; WalkErrEnc.encode_klae_cycles /
   encode_kmpe_cycles, tied by E1_cycles).
   (1) the weight of an ignored edge (ignore list, source/sink edge, scale 0) does not occur in the model: equal milp.
       For the cyclic classes only under the hypothesis that the repetition caps are unchanged -- they are computed over ALL
       edges (stDiGraph.compute_edge_max_reachable_value); without it the statement is refuted (open finding
       cycles_rep_cap_from_reachable_max).
   (2) error scale 0 and membership in elements_to_ignore give the SAME milp.
   (3) ignoring one more edge only relaxes: the same assignment stays satisfying (the error column of the edge and its rows
       disappear), the objective does not grow -- provided the bound w_max, a maximum over the non-ignored edges, is unchanged;
       without that proviso: the OPTIMUM does not grow (DAG models, through the optimality theorems).
   (4) the cyclic optimality theorems with executable premises. *)
From Coq Require Import List NArith ZArith QArith Qabs Bool Arith Lia Permutation.
Import ListNotations.
From FP Require Import Lin Blocks BlocksProofs PathEnc PathEncProofs PathEncComplete SatCheck
                       ErrEnc ErrEncProofs ErrEncProofs3 ErrEncComplete ErrEncOptimal ErrEncKlae ErrEncOptimal2 ErrEncIgnore ErrEncIgnoreOpt
                       WalkEncRows WalkEncRowsProofs WalkCoverIff WalkChecked WalkErrEnc WalkErrEncProofs WalkErrComplete WalkErrOptimal
                       WalkErrOptExamples WalkErrIgnore.
Local Close Scope Q_scope.

(* ------------------------------------------------------------------ (1) DAG *)
Theorem C10_klae_ignored_value_has_no_influence : forall (I : err_inst) (fl : list (PathEnc.edge * Q)),
  (forall e, In e (g_edges (eG I)) -> mem_edge e (ign_all I) = false -> lookup_q e fl 0%Q = lookup_q e (e_flow I) 0%Q) ->
  encode_klae (with_flow I fl) = encode_klae I.
Proof. exact klae_ignored_value_has_no_influence. Qed.
Print Assumptions C10_klae_ignored_value_has_no_influence.

Theorem C10_kmpe_ignored_value_has_no_influence : forall (M : kmpe_inst) (fl : list (PathEnc.edge * Q)),
  (forall e, In e (g_edges (eG (m_err M))) -> mem_edge e (ign_all (m_err M)) = false ->
             lookup_q e fl 0%Q = lookup_q e (e_flow (m_err M)) 0%Q) ->
  encode_kmpe (kwith M (with_flow (m_err M) fl)) = encode_kmpe M.
Proof. exact kmpe_ignored_value_has_no_influence. Qed.
Print Assumptions C10_kmpe_ignored_value_has_no_influence.

(* the general frame: the model is a function of the non-ignored edges with their weights and scalings *)
Theorem C10_klae_model_depends_only_on_non_ignored : forall I J, err_agree I J -> encode_klae I = encode_klae J.
Proof. exact encode_klae_frame. Qed.
Print Assumptions C10_klae_model_depends_only_on_non_ignored.
Theorem C10_kmpe_model_depends_only_on_non_ignored : forall M N, kmpe_agree M N -> encode_kmpe M = encode_kmpe N.
Proof. exact encode_kmpe_frame. Qed.
Print Assumptions C10_kmpe_model_depends_only_on_non_ignored.

(* ------------------------------------------------------------------ (1) cyclic: under unchanged caps; refuted without *)
Theorem C10_klaec_ignored_value_has_no_influence : forall (I : werr_inst) (fl : list (PathEnc.edge * Q)),
  (forall e, In e (g_edges (x_graph I)) -> mem_edge e (x_ign_all I) = false -> lookup_q e fl 0%Q = lookup_q e (x_flow I) 0%Q) ->
  (forall e, In e (g_edges (x_graph I)) -> reach_max (xwith_flow I fl) e = reach_max I e) ->
  encode_klae_cycles (xwith_flow I fl) = encode_klae_cycles I.
Proof. exact klaec_ignored_value_has_no_influence. Qed.
Print Assumptions C10_klaec_ignored_value_has_no_influence.

Theorem C10_kmpec_ignored_value_has_no_influence : forall (I : werr_inst) (fl : list (PathEnc.edge * Q)),
  (forall e, In e (g_edges (x_graph I)) -> mem_edge e (x_ign_all I) = false -> lookup_q e fl 0%Q = lookup_q e (x_flow I) 0%Q) ->
  (forall e, In e (g_edges (x_graph I)) -> reach_max (xwith_flow I fl) e = reach_max I e) ->
  encode_kmpe_cycles (xwith_flow I fl) = encode_kmpe_cycles I.
Proof. exact kmpec_ignored_value_has_no_influence. Qed.
Print Assumptions C10_kmpec_ignored_value_has_no_influence.

(* open finding cycles_rep_cap_from_reachable_max: the weight of an IGNORED edge changes the generated model *)
Theorem C10_klaec_ignored_value_influence_refuted : exists I fl,
  (forall e, In e (g_edges (x_graph I)) -> mem_edge e (x_ign_all I) = false -> lookup_q e fl 0%Q = lookup_q e (x_flow I) 0%Q) /\
  encode_klae_cycles (xwith_flow I fl) <> encode_klae_cycles I.
Proof. exact klaec_ignored_value_influence_refuted. Qed.
Print Assumptions C10_klaec_ignored_value_influence_refuted.
Theorem C10_kmpec_ignored_value_influence_refuted : exists I fl,
  (forall e, In e (g_edges (x_graph I)) -> mem_edge e (x_ign_all I) = false -> lookup_q e fl 0%Q = lookup_q e (x_flow I) 0%Q) /\
  encode_kmpe_cycles (xwith_flow I fl) <> encode_kmpe_cycles I.
Proof. exact kmpec_ignored_value_influence_refuted. Qed.
Print Assumptions C10_kmpec_ignored_value_influence_refuted.

(* ------------------------------------------------------------------ (2) scale 0 == ignore *)
Theorem C10_klae_scale_zero_is_ignore : forall (I : err_inst) (e0 : PathEnc.edge),
  encode_klae (with_scale I ((e0, 0%Q) :: e_scale I)) = encode_klae (with_ignore I (e0 :: e_user_ignore I)).
Proof. exact klae_scale_zero_is_ignore. Qed.
Print Assumptions C10_klae_scale_zero_is_ignore.
Theorem C10_kmpe_scale_zero_is_ignore : forall (M : kmpe_inst) (e0 : PathEnc.edge),
  encode_kmpe (kwith M (with_scale (m_err M) ((e0, 0%Q) :: e_scale (m_err M)))) =
  encode_kmpe (kwith M (with_ignore (m_err M) (e0 :: e_user_ignore (m_err M)))).
Proof. exact kmpe_scale_zero_is_ignore. Qed.
Print Assumptions C10_kmpe_scale_zero_is_ignore.
Theorem C10_klaec_scale_zero_is_ignore : forall (I : werr_inst) (e0 : PathEnc.edge),
  encode_klae_cycles (xwith_scale I ((e0, 0%Q) :: x_scale I)) = encode_klae_cycles (xwith_ignore I (e0 :: x_ignore I)).
Proof. exact klaec_scale_zero_is_ignore. Qed.
Print Assumptions C10_klaec_scale_zero_is_ignore.
Theorem C10_kmpec_scale_zero_is_ignore : forall (I : werr_inst) (e0 : PathEnc.edge),
  encode_kmpe_cycles (xwith_scale I ((e0, 0%Q) :: x_scale I)) = encode_kmpe_cycles (xwith_ignore I (e0 :: x_ignore I)).
Proof. exact kmpec_scale_zero_is_ignore. Qed.
Print Assumptions C10_kmpec_scale_zero_is_ignore.

(* ------------------------------------------------------------------ (3) ignoring one more edge only relaxes *)
(* projection of the assignment: the identity -- the column Err(e0) and the rows of e0 are simply no longer part of the model *)
Theorem C10_klae_ignoring_only_relaxes : forall (I : err_inst) (e0 : PathEnc.edge),
  w_max (with_ignore I (e0 :: e_user_ignore I)) = w_max I ->
  forall a, (forall e, In e (basic_edges I) -> (0 <= scale_of I e)%Q) -> sat a (encode_klae I) ->
  sat a (encode_klae (with_ignore I (e0 :: e_user_ignore I))) /\
  (objective a (encode_klae (with_ignore I (e0 :: e_user_ignore I))) <= objective a (encode_klae I))%Q.
Proof. exact klae_ignoring_only_relaxes. Qed.
Print Assumptions C10_klae_ignoring_only_relaxes.

Theorem C10_kmpe_ignoring_only_relaxes : forall (M : kmpe_inst) (e0 : PathEnc.edge),
  w_max (m_err (kwith M (with_ignore (m_err M) (e0 :: e_user_ignore (m_err M))))) = w_max (m_err M) ->
  forall a, sat a (encode_kmpe M) ->
  sat a (encode_kmpe (kwith M (with_ignore (m_err M) (e0 :: e_user_ignore (m_err M))))) /\
  (objective a (encode_kmpe (kwith M (with_ignore (m_err M) (e0 :: e_user_ignore (m_err M))))) == objective a (encode_kmpe M))%Q.
Proof. exact kmpe_ignoring_only_relaxes. Qed.
Print Assumptions C10_kmpe_ignoring_only_relaxes.

Theorem C10_klaec_ignoring_only_relaxes : forall (I : werr_inst) (e0 : PathEnc.edge),
  x_wmax (xwith_ignore I (e0 :: x_ignore I)) = x_wmax I ->
  forall a, (forall e, In e (x_basic I) -> (0 <= xscale I e)%Q) -> sat a (encode_klae_cycles I) ->
  sat a (encode_klae_cycles (xwith_ignore I (e0 :: x_ignore I))) /\
  (objective a (encode_klae_cycles (xwith_ignore I (e0 :: x_ignore I))) <= objective a (encode_klae_cycles I))%Q.
Proof. exact klaec_ignoring_only_relaxes. Qed.
Print Assumptions C10_klaec_ignoring_only_relaxes.

Theorem C10_kmpec_ignoring_only_relaxes : forall (I : werr_inst) (e0 : PathEnc.edge),
  x_wmax (xwith_ignore I (e0 :: x_ignore I)) = x_wmax I ->
  forall a, sat a (encode_kmpe_cycles I) ->
  sat a (encode_kmpe_cycles (xwith_ignore I (e0 :: x_ignore I))) /\
  (objective a (encode_kmpe_cycles (xwith_ignore I (e0 :: x_ignore I))) == objective a (encode_kmpe_cycles I))%Q.
Proof. exact kmpec_ignoring_only_relaxes. Qed.
Print Assumptions C10_kmpec_ignoring_only_relaxes.

(* without the proviso on w_max (DAG models, relative to the solver specification): the optimum does not grow *)
Theorem C10_klae_ignoring_lowers_optimum : forall (I : err_inst) (e0 : PathEnc.edge) (a a1 : var -> Q) (rank : node -> nat) (Rm : nat),
  let I1 := with_ignore I (e0 :: e_user_ignore I) in
  e_given I = None -> wf_graph (eG I) -> p_allow_empty (e_base I) = false ->
  (forall u v, In (u, v) (g_edges (eG I)) -> (rank u < rank v)%nat) -> (forall v, (rank v <= Rm)%nat) ->
  klae_side I -> klae_side I1 ->
  sat a (encode_klae I) -> (forall b, sat b (encode_klae I) -> (objective a (encode_klae I) <= objective b (encode_klae I))%Q) ->
  sat a1 (encode_klae I1) -> (forall b, sat b (encode_klae I1) -> (objective a1 (encode_klae I1) <= objective b (encode_klae I1))%Q) ->
  (objective a1 (encode_klae I1) <= objective a (encode_klae I))%Q.
Proof. exact klae_ignoring_lowers_optimum. Qed.
Print Assumptions C10_klae_ignoring_lowers_optimum.

Theorem C10_kmpe_ignoring_lowers_optimum : forall (M : kmpe_inst) (e0 : PathEnc.edge) (a a1 : var -> Q) (rank : node -> nat) (Rm : nat),
  let M1 := kwith M (with_ignore (m_err M) (e0 :: e_user_ignore (m_err M))) in
  e_given (m_err M) = None -> m_pieces M = [] -> wf_graph (eG (m_err M)) -> p_allow_empty (e_base (m_err M)) = false ->
  (forall u v, In (u, v) (g_edges (eG (m_err M))) -> (rank u < rank v)%nat) -> (forall v, (rank v <= Rm)%nat) ->
  kmpe_side M -> err_domain (m_err M) -> err_domain (m_err M1) ->
  sat a (encode_kmpe M) -> (forall b, sat b (encode_kmpe M) -> (objective a (encode_kmpe M) <= objective b (encode_kmpe M))%Q) ->
  sat a1 (encode_kmpe M1) -> (forall b, sat b (encode_kmpe M1) -> (objective a1 (encode_kmpe M1) <= objective b (encode_kmpe M1))%Q) ->
  (objective a1 (encode_kmpe M1) <= objective a (encode_kmpe M))%Q.
Proof. exact kmpe_ignoring_lowers_optimum. Qed.
Print Assumptions C10_kmpe_ignoring_lowers_optimum.

(* ------------------------------------------------------------------ (4) cyclic optimality, premises executable *)
Theorem C10_klaec_optimal_checked : forall (I : werr_inst) (a : var -> Q),
  wf_stg_b (x_graph I) = true -> werr_domain_b I = true -> o_allow_empty (x_opts I) = false ->
  sat a (encode_klae_cycles I) ->
  (forall b, sat b (encode_klae_cycles I) -> (objective a (encode_klae_cycles I) <= objective b (encode_klae_cycles I))%Q) ->
  (exists P wt, klaec_admissible I P wt /\ (klaec_cost I P wt == objective a (encode_klae_cycles I))%Q) /\
  (forall P wt, klaec_admissible I P wt -> (objective a (encode_klae_cycles I) <= klaec_cost I P wt)%Q).
Proof. exact klaec_optimal_checked. Qed.
Print Assumptions C10_klaec_optimal_checked.

Theorem C10_kmpec_optimal_checked : forall (I : werr_inst) (a : var -> Q),
  wf_stg_b (x_graph I) = true -> winputs_ok_b (werr_walk I) = true -> o_allow_empty (x_opts I) = false ->
  sat a (encode_kmpe_cycles I) ->
  (forall b, sat b (encode_kmpe_cycles I) -> (objective a (encode_kmpe_cycles I) <= objective b (encode_kmpe_cycles I))%Q) ->
  (exists P wt sl, kmpec_admissible I P wt sl /\ (sumq sl (layers (x_k I)) == objective a (encode_kmpe_cycles I))%Q) /\
  (forall P wt sl, kmpec_admissible I P wt sl -> (objective a (encode_kmpe_cycles I) <= sumq sl (layers (x_k I)))%Q).
Proof. exact kmpec_optimal_checked. Qed.
Print Assumptions C10_kmpec_optimal_checked.

Theorem C10_kmpec_feasible_iff_checked : forall (I : werr_inst),
  wf_stg_b (x_graph I) = true -> winputs_ok_b (werr_walk I) = true -> o_allow_empty (x_opts I) = false ->
  ((exists a, sat a (encode_kmpe_cycles I)) <-> (exists P wt sl, kmpec_admissible I P wt sl)).
Proof. exact kmpec_feasible_iff_checked. Qed.
Print Assumptions C10_kmpec_feasible_iff_checked.

(* ------------------------------------------------------------------ non-vacuity *)
(* 2-cycle with a tail: ignoring the cycle edge b -> a (weight 1 < max 2) leaves w_max unchanged, so the relax theorem applies to
   the concrete satisfying assignment; the executable premises of the checked theorems hold; and changing the ignored weight to 5
   DOES change the cyclic model (the refutation witness), whereas the premise "caps unchanged" holds when it is changed to 2 *)
Example C10_err_nonvacuous :
  x_wmax (xwith_ignore tail_inst [(1, 0)%N]) = x_wmax tail_inst /\
  sat tail_klae_asg (encode_klae_cycles tail_inst) /\
  sat tail_klae_asg (encode_klae_cycles (xwith_ignore tail_inst [(1, 0)%N])) /\
  wf_stg_b (x_graph tail_inst) = true /\ werr_domain_b tail_inst = true /\
  (forall e, In e (g_edges (x_graph tail_ign)) ->
     reach_max (xwith_flow tail_ign [((0, 1)%N, 2%Q); ((1, 0)%N, 2%Q); ((2, 0)%N, 1%Q); ((1, 3)%N, 1%Q)]) e = reach_max tail_ign e).
Proof.
  assert (Hw : x_wmax (xwith_ignore tail_inst [(1, 0)%N]) = x_wmax tail_inst) by (vm_compute; reflexivity).
  split; [exact Hw|]. split; [exact tail_klae_sat|]. split.
  - apply (proj1 (klaec_ignoring_only_relaxes tail_inst (1, 0)%N Hw tail_klae_asg (fun e He => proj1 (proj2 tail_domain e He)) tail_klae_sat)).
  - split; [vm_compute; reflexivity|]. split; [vm_compute; reflexivity|].
    intros e He. cbn in He. destruct He as [<-|[<-|[<-|[<-|[]]]]]; vm_compute; reflexivity.
Qed.
