(* C04 — MinFlowDecompCycles finds a decomposition into the fewest walks; scale invariance.
   Models: WalkEncRows.encode_kfdc = the LP kFlowDecompCycles hands to the solver for one k (tied by E1 on
   every run, all option vectors); WalkSearch.mfdc_solve = the k-search of MinFlowDecompCycles.solve().
   Proved (all k, all digraphs, all option vectors, all assignments):
     - every solution of the LP for k IS a decomposition of the flow into k source-to-sink walks with
       non-negative weights of the requested type (C04_lp_solution_is_decomposition, ..._partial);
     - the search returns the least k whose LP the solver proves feasible, never an answer after an
       inconclusive status (the C04_search theorems).
   Refuted for the code as it is (finding rep_cap_from_own_flow): the converse direction (every
   decomposition is an LP solution) and hence scale invariance for float weights.  The converse for
   integer flows is only sampled (E2 exhaustive oracle on tiny instances). *)
From Coq Require Import List NArith ZArith QArith Bool Arith Lia Permutation.
Import ListNotations.
From FP Require Import Lin Blocks BlocksProofs PathEnc PathEncProofs Euler EulerProofs1 EulerProofs4 WalkDecode
                       SatCheck WalkEncRows WalkEncRowsProofs WalkSearch WalkExamples.
Local Close Scope Q_scope.

(* full statement about the encoding: LP(k) feasible <-> the flow decomposes into k weighted walks *)
Definition C04_full_statement : Prop := kfdc_exact_statement.

Theorem C04_lp_solution_is_decomposition_partial : forall I,
  wf_stg (c_graph I) -> o_allow_empty (c_opts I) = false ->
  feasible I -> exists x wt, decomposes I x wt.
Proof. exact kfdc_exact_partial. Qed.
Print Assumptions C04_lp_solution_is_decomposition_partial.

Theorem C04_lp_solution_is_decomposition : forall (I : kfdc_inst) (a : var -> Q),
  let G := c_graph I in let k := c_k I in
  let E := g_edges G in let s := g_src G in let t := g_snk G in
  wf_stg G -> o_allow_empty (c_opts I) = false ->
  sat a (encode_kfdc I) ->
  (forall i, In i (layers k) ->
     exists w, reconstruct (resid E (xint a i)) s = Some ([], w) /\ hd_error w = Some s /\ last w s = t /\
               (forall e, In e E -> count_e e (pairs w) = Z.to_nat (xint a i e) /\ (0 <= xint a i e)%Z /\
                                    (a (evar e i) == inject_Z (xint a i e))%Q) /\
               (forall e, ~ In e E -> count_e e (pairs w) = 0%nat)) /\
  (forall i, In i (layers k) -> (0 <= a (W i) <= kfdc_wmax I)%Q /\ (c_int I = true -> is_int (a (W i)))) /\
  (forall e, In e (kept_edges I) ->
     (sumq (fun i => a (W i) * inject_Z (xint a i e)) (layers k) == flow_of I e)%Q).
Proof. exact kfdc_sound. Qed.
Print Assumptions C04_lp_solution_is_decomposition.

(* the converse fails for the code as it is (repetition cap = the edge's own flow value) *)
Theorem C04_full_statement_refuted : ~ C04_full_statement.
Proof. exact kfdc_exact_refuted. Qed.
Print Assumptions C04_full_statement_refuted.

Theorem C04_small_flow_on_cycle_edge_is_infeasible : forall (I : kfdc_inst) (a : var -> Q) e,
  c_scale_free I = false -> In e (kept_edges I) -> is_scc_edge (c_graph I) e = true -> In e (map fst (c_flow I)) ->
  (0 < flow_of I e < 1)%Q -> ~ sat a (encode_kfdc I).
Proof. exact kfdc_small_flow_infeasible. Qed.
Print Assumptions C04_small_flow_on_cycle_edge_is_infeasible.

(* scale invariance (float weights), stated at full strength, is false of the faithful model *)
Definition C04_scale_invariance_statement : Prop := scale_invariance_statement.
Theorem C04_scale_invariance_refuted : ~ C04_scale_invariance_statement.
Proof. exact kfdc_scale_invariance_refuted. Qed.
Print Assumptions C04_scale_invariance_refuted.

(* ---- the k-search ---- *)
Theorem C04_search_answer_is_backed_by_the_solver : forall out tout given lb nE k,
  mfdc_solve out tout given lb nE = Solved k ->
  lb <= k <= nE /\ tout k = false /\ (uses_given given k = true \/ out k = Optimal) /\
  forall j, lb <= j < k -> out j = Infeasible.
Proof. exact mfdc_search_sound. Qed.
Print Assumptions C04_search_answer_is_backed_by_the_solver.

Theorem C04_search_returns_least_feasible_k : forall out tout given (feasible : nat -> Prop) lb nE kmin,
  (forall j, out j = Optimal <-> feasible j) -> (forall j, out j = Infeasible <-> ~ feasible j) ->
  (forall j, tout j = false) -> (forall g, given = Some g -> feasible g) ->
  feasible kmin -> (forall j, j < kmin -> ~ feasible j) -> lb <= kmin <= nE ->
  mfdc_solve out tout given lb nE = Solved kmin.
Proof. exact mfdc_search_min. Qed.
Print Assumptions C04_search_returns_least_feasible_k.

Theorem C04_search_inconclusive_gives_no_answer : forall out tout given lb nE k, lb <= k <= nE ->
  (forall j, lb <= j < k -> out j = Infeasible /\ tout j = false /\ uses_given given j = false) ->
  (tout k = true \/ (out k = Other /\ uses_given given k = false)) ->
  mfdc_solve out tout given lb nE = Unsolved.
Proof. exact mfdc_search_inconclusive. Qed.
Print Assumptions C04_search_inconclusive_gives_no_answer.

(* behaviour before the fix "include k = number of edges" (kept as documentation; fixed in /repo) *)
Theorem C04_upper_end_exclusive_refuted : exists out lb nE,
  lb <= nE /\ out nE = Optimal /\ mfdc_solve_old out (fun _ => false) None lb nE = Unsolved /\
  mfdc_solve out (fun _ => false) None lb nE = Solved nE.
Proof. exact mfdc_upper_exclusive_refuted. Qed.
Print Assumptions C04_upper_end_exclusive_refuted.

(* ---- non-vacuity ---- *)
Example C04_premises_satisfiable : wf_stg (c_graph (loop_inst 2)) /\ o_allow_empty (c_opts (loop_inst 2)) = false /\
  sat loop2_sol (encode_kfdc (loop_inst 2)) /\ xint loop2_sol 0%N (0, 0)%N = 2%Z.
Proof. split; [exact loopG_wf|]. split; [reflexivity|]. split; [exact loop2_feasible|]. vm_compute. reflexivity. Qed.

Example C04_search_example :
  mfdc_solve (fun k => if k <? 3 then Infeasible else Optimal) (fun _ => false) None 2 5 = Solved 3.
Proof. reflexivity. Qed.

(* ---- audit (audit/props_C04_C06_C09_C16.md): instances of the exact hypotheses that no Example reached ---- *)
From FP Require Import AuditExamples17.
(* all five hypotheses of C04_small_flow_on_cycle_edge_is_infeasible hold on the self-loop with flow 1/4 (and its LP is infeasible) *)
Example C04_small_flow_hypotheses_satisfiable :
  c_scale_free quarter_loop = false /\ In (0, 0)%N (kept_edges quarter_loop) /\ is_scc_edge (c_graph quarter_loop) (0, 0)%N = true /\
  In (0, 0)%N (map fst (c_flow quarter_loop)) /\ (0 < flow_of quarter_loop (0, 0)%N < 1)%Q /\
  forall a, ~ sat a (encode_kfdc quarter_loop).
Proof. exact small_flow_hypotheses. Qed.
Print Assumptions C04_small_flow_hypotheses_satisfiable.
(* all seven hypotheses of C04_search_returns_least_feasible_k (solver specification included) with feasible j := 3 <= j *)
Example C04_search_hypotheses_satisfiable :
  (forall j, ex_out j = Optimal <-> 3 <= j) /\ (forall j, ex_out j = Infeasible <-> ~ 3 <= j) /\
  (forall j : nat, (fun _ : nat => false) j = false) /\ (forall g, @None nat = Some g -> 3 <= g) /\
  3 <= 3 /\ (forall j, j < 3 -> ~ 3 <= j) /\ 2 <= 3 <= 5 /\
  mfdc_solve ex_out (fun _ => false) None 2 5 = Solved 3.
Proof. exact search_min_hypotheses. Qed.
Print Assumptions C04_search_hypotheses_satisfiable.
(* all hypotheses of C04_search_inconclusive_gives_no_answer: the run for k = 3 ends with an inconclusive status *)
Example C04_search_inconclusive_hypotheses_satisfiable :
  2 <= 3 <= 5 /\
  (forall j, 2 <= j < 3 -> ex_out2 j = Infeasible /\ (fun _ : nat => false) j = false /\ uses_given None j = false) /\
  ((fun _ : nat => false) 3 = true \/ (ex_out2 3 = Other /\ uses_given None 3 = false)) /\
  mfdc_solve ex_out2 (fun _ => false) None 2 5 = Unsolved.
Proof. exact search_inconclusive_hypotheses. Qed.
Print Assumptions C04_search_inconclusive_hypotheses_satisfiable.
