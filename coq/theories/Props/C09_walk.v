(* C01 / C02 / C09 on digraphs with cycles (statements shared by several properties; to be moved into the
   per-property files by the coordinator).
   Models: WalkEncRows.encode_walks / encode_kfdc / encode_kpcc (tied by E1, harness/e1cyc.py). *)
From Coq Require Import List NArith ZArith QArith Bool Arith Lia Permutation.
Import ListNotations.
From FP Require Import Lin Blocks BlocksProofs PathEnc PathEncProofs Euler EulerProofs1 EulerProofs4 WalkDecode
                       SatCheck WalkEncRows WalkEncRowsProofs WalkExamples WalkSearch WalkTree WalkEncComplete WalkEncIff WalkCoverIff WalkChecked.
Local Close Scope Q_scope.

(* C01 (cyclic): the rows 17a 17b 21 22a 19c with the columns' bounds and integrality force every layer's
   multiplicity vector to be exactly ONE source-to-sink walk: the reconstruction succeeds, leaves nothing
   over and traverses every edge e exactly x_i(e) times (for every subclass: the block is inherited) *)
(* C09 (cyclic): cover rows => every non-ignored edge is used at least once by some layer's walk *)
Theorem C09_kpcc_rows_force_cover : forall (I : kpcc_inst) (a : var -> Q) e,
  sat a (encode_kpcc I) ->
  In e (g_edges (pc_graph I)) -> mem_edge e (kpcc_ignore I) = false ->
  exists i, In i (layers (pc_k I)) /\ (1 <= xint a i e)%Z.
Proof. exact kpcc_covers. Qed.
Print Assumptions C09_kpcc_rows_force_cover.

Theorem C09_kpcc_layer_is_one_walk : forall (I : kpcc_inst) (a : var -> Q) i,
  let G := pc_graph I in
  wf_stg G -> o_allow_empty (pc_opts I) = false -> sat a (encode_kpcc I) -> In i (layers (pc_k I)) ->
  exists w, reconstruct (resid (g_edges G) (xint a i)) (g_src G) = Some ([], w) /\
            hd_error w = Some (g_src G) /\ last w (g_src G) = g_snk G /\
            (forall e, In e (g_edges G) -> count_e e (pairs w) = Z.to_nat (xint a i e)) /\
            (forall e, ~ In e (g_edges G) -> count_e e (pairs w) = 0%nat).
Proof. exact kpcc_layer_is_one_walk. Qed.
Print Assumptions C09_kpcc_layer_is_one_walk.

(* C09 (cyclic), completeness within the caps of the model: k source-to-sink walks that cover the non-ignored edges, stay
   within the repetition caps (|E*| * |V*| inside SCCs, 1 outside), respect the safety fixing and realise the subset
   constraints extend to a satisfying assignment of kPathCoverCycles' LP (Sel / Dist from the first-visit spanning tree) *)
Theorem C09_admissible_walk_cover_satisfies_the_lp : forall (I : kpcc_inst) (P : N -> list node),
  wf_stg (pc_graph I) -> cover_admissible I P -> exists a, sat a (encode_kpcc I).
Proof. exact kpcc_complete_admissible. Qed.
Print Assumptions C09_admissible_walk_cover_satisfies_the_lp.

Theorem C09_walk_cover_lp_feasible_iff_admissible_cover : forall (I : kpcc_inst),
  wf_stg (pc_graph I) -> o_allow_empty (pc_opts I) = false -> winputs_ok (kpcc_walk I) ->
  ((exists a, sat a (encode_kpcc I)) <-> (exists P, cover_admissible I P)).
Proof. exact kpcc_feasible_iff_within_caps. Qed.
Print Assumptions C09_walk_cover_lp_feasible_iff_admissible_cover.

Theorem C09_walk_cover_lp_feasible_iff_admissible_cover_checked : forall (I : kpcc_inst),
  wf_stg_b (pc_graph I) = true -> winputs_ok_b (kpcc_walk I) = true -> o_allow_empty (pc_opts I) = false ->
  ((exists a, sat a (encode_kpcc I)) <-> (exists P, cover_admissible I P)).
Proof. exact kpcc_feasible_iff_checked. Qed.
Print Assumptions C09_walk_cover_lp_feasible_iff_admissible_cover_checked.

(* MinPathCoverCycles returns the least number of walks of an admissible cover (relative to the solver specification) *)
Theorem C09_minpathcovercycles_returns_minimum_within_caps : forall (inst : nat -> kpcc_inst) (out : nat -> outcome) (lb nE kmin : nat),
  (forall j, pc_k (inst j) = j /\ wf_stg (pc_graph (inst j)) /\ o_allow_empty (pc_opts (inst j)) = false /\ winputs_ok (kpcc_walk (inst j))) ->
  (forall j, out j = Optimal <-> exists a, sat a (encode_kpcc (inst j))) ->
  (forall j, out j = Infeasible <-> ~ exists a, sat a (encode_kpcc (inst j))) ->
  (exists P, cover_admissible (inst kmin) P) ->
  (forall j, (j < kmin)%nat -> ~ exists P, cover_admissible (inst j) P) ->
  (lb <= kmin <= nE)%nat ->
  mfdc_solve out (fun _ => false) None lb nE = Solved kmin.
Proof. exact mpcc_returns_minimum_within_caps. Qed.
Print Assumptions C09_minpathcovercycles_returns_minimum_within_caps.

(* non-vacuity: the walk source x x sink is an admissible cover of the self-loop instance *)
Example C09_walk_cover_complete_nonvacuous :
  cover_admissible loop_kpcc (fun _ => [1; 0; 0; 2]%N) /\ exists a, sat a (encode_kpcc loop_kpcc).
Proof.
  assert (H : cover_admissible loop_kpcc (fun _ => [1; 0; 0; 2]%N)).
  { split; [|split; [|split; [|split]]].
    - intros i _. split; [reflexivity|]. split; [reflexivity|]. intros e He. cbn in He. cbn. tauto.
    - intros e He _. exists 0%N. split; [left; reflexivity|]. cbn in He. destruct He as [<-|[<-|[<-|[]]]]; vm_compute; discriminate.
    - intros i e _ He. cbn in He. destruct He as [<-|[<-|[<-|[]]]]; vm_compute; discriminate.
    - split; [intros e i H|intros e i m H]; vm_compute in H; destruct H.
    - intros j c H. cbn in H. destruct j; discriminate. }
  split; [exact H|]. apply (kpcc_complete_admissible loop_kpcc _ loopG_wf H).
Qed.

(* non-vacuity: the premises are satisfiable (self-loop instance, solved with one walk going round once) *)
Example C09_walk_premises_satisfiable :
  wf_stg loopG /\ sat loop_sol (encode_kfdc (loop_inst 1)) /\ sat loop_sol (encode_kpcc loop_kpcc).
Proof. split; [exact loopG_wf|]. split; [exact loop_feasible|exact loop_kpcc_feasible]. Qed.

(* ---- the verified exhaustive oracle for minimum walk covers (WalkCoverOracle.v): all source-to-sink walks that pass every edge at most c
   times are enumerated (the enumeration of WalkOracle.v); the least number of them covering X is found by exhaustive search.  It is exact
   for the walks within the capacity c, and with c >= |X| + 2 the capacity loses no minimum (a minimum cover with that bound exists), so the
   oracle returns the walk width: the least number of s-t walks of ANY multiplicities covering X.  The C09 engine runs the extracted
   min_wcover_model next to its cover + antichain certificate on small cyclic instances (counter verified_walk_cover_oracle_decided). *)
From FP Require WalkCoverOracle WalkWidth Dilworth.
Theorem C09_walk_cover_oracle_is_exact_within_the_capacity :
  forall (E : list PathEnc.edge) (s t : node) (X : list PathEnc.edge) (c kmax : nat),
  match WalkCoverOracle.min_wcover E s t X c kmax with
  | Some k => (k <= kmax)%nat /\ (exists l, WalkCoverOracle.ccover E s t X c l /\ length l = k) /\
              (forall l, WalkCoverOracle.ccover E s t X c l -> (k <= length l)%nat)
  | None => forall l, WalkCoverOracle.ccover E s t X c l -> (kmax < length l)%nat
  end.
Proof. exact WalkCoverOracle.min_wcover_correct. Qed.
Print Assumptions C09_walk_cover_oracle_is_exact_within_the_capacity.

Theorem C09_walk_cover_oracle_returns_the_walk_width :
  forall (E : list PathEnc.edge) (s t : node) (X : list PathEnc.edge) (c kmax : nat),
  (forall u v, In (u, v) E -> Dilworth.conn E s u /\ Dilworth.conn E v t) -> NoDup X -> incl X E -> (length X + 2 <= c)%nat ->
  match WalkCoverOracle.min_wcover E s t X c kmax with
  | Some k => (k <= kmax)%nat /\
              (exists A', NoDup A' /\ incl A' X /\ WalkWidth.walk_incompatible E A' /\ length A' = k) /\
              (exists W, length W = k /\ (forall l, In l W -> WalkWidth.st_walk E s t l) /\
                         (forall e, In e X -> exists l, In l W /\ In e (EulerProofs1.pairs l))) /\
              (forall W, (forall l, In l W -> WalkWidth.st_walk E s t l) ->
                         (forall e, In e X -> exists l, In l W /\ In e (EulerProofs1.pairs l)) -> (k <= length W)%nat)
  | None => forall W, (forall l, In l W -> WalkWidth.st_walk E s t l) ->
                      (forall e, In e X -> exists l, In l W /\ In e (EulerProofs1.pairs l)) -> (kmax < length W)%nat
  end.
Proof. exact WalkCoverOracle.min_wcover_is_walk_width. Qed.
Print Assumptions C09_walk_cover_oracle_returns_the_walk_width.

Example C09_walk_cover_oracle_nonvacuous :
  WalkCoverOracle.min_wcover_model WalkWidth.cyE 0%N 4%N [(1, 2); (2, 1); (2, 3)]%N 3 = Some 1%nat.
Proof. exact WalkCoverOracle.two_cycle_cover_oracle. Qed.
Print Assumptions C09_walk_cover_oracle_nonvacuous.

(* ---- audit (audit/props_C04_C06_C09_C16.md): ALL hypotheses of C09_minpathcovercycles_returns_minimum_within_caps, the solver
   specification included, on the self-loop graph: the k-cover model is feasible exactly for k >= 1 (k = 0 cannot cover the loop edge),
   statuses Infeasible, Optimal, ..., and the search computes Solved 1 ---- *)
From FP Require Import WalkWidthCaps AuditExamples17.
Example C09_walk_search_hypotheses_satisfiable :
  (forall j, pc_k (kset loop_kpcc j) = j /\ wf_stg (pc_graph (kset loop_kpcc j)) /\ o_allow_empty (pc_opts (kset loop_kpcc j)) = false /\
             winputs_ok (kpcc_walk (kset loop_kpcc j))) /\
  (forall j, cover_out j = Optimal <-> exists a, sat a (encode_kpcc (kset loop_kpcc j))) /\
  (forall j, cover_out j = Infeasible <-> ~ exists a, sat a (encode_kpcc (kset loop_kpcc j))) /\
  (exists P, cover_admissible (kset loop_kpcc 1) P) /\
  (forall j, (j < 1)%nat -> ~ exists P, cover_admissible (kset loop_kpcc j) P) /\ (0 <= 1 <= 3)%nat /\
  mfdc_solve cover_out (fun _ => false) None 0 3 = Solved 1.
Proof. exact loop_cover_search_hypotheses. Qed.
Print Assumptions C09_walk_search_hypotheses_satisfiable.
