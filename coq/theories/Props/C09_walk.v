(* C01 / C02 / C09 on digraphs with cycles (statements shared by several properties; to be moved into the
   per-property files by the coordinator).
   Models: WalkEncRows.encode_walks / encode_kfdc / encode_kpcc (tied by E1, harness/e1cyc.py). *)
From Coq Require Import List NArith ZArith QArith Bool Arith Lia Permutation.
Import ListNotations.
From FP Require Import Lin Blocks BlocksProofs PathEnc PathEncProofs Euler EulerProofs1 EulerProofs4 WalkDecode
                       SatCheck WalkEncRows WalkEncRowsProofs WalkExamples WalkSearch WalkTree WalkEncComplete WalkEncIff WalkCoverIff WalkChecked.
Local Close Scope Q_scope.

(* C01 (cyclic): the rows 17a 17b 21 22a 19c with the columns' bounds and integrality force every layer's
   multiplicity vector to be exactly ONE source-to-sink walk: the reconstruction succeeds, leaves nothing
   over and traverses every edge e exactly x_i(e) times (for every subclass: the block is inherited) *)
(* C09 (cyclic): cover rows => every non-ignored edge is used at least once by some layer's walk *)
Theorem C09_kpcc_rows_force_cover : forall (I : kpcc_inst) (a : var -> Q) e,
  sat a (encode_kpcc I) ->
  In e (g_edges (pc_graph I)) -> mem_edge e (kpcc_ignore I) = false ->
  exists i, In i (layers (pc_k I)) /\ (1 <= xint a i e)%Z.
Proof. exact kpcc_covers. Qed.
Print Assumptions C09_kpcc_rows_force_cover.

Theorem C09_kpcc_layer_is_one_walk : forall (I : kpcc_inst) (a : var -> Q) i,
  let G := pc_graph I in
  wf_stg G -> o_allow_empty (pc_opts I) = false -> sat a (encode_kpcc I) -> In i (layers (pc_k I)) ->
  exists w, reconstruct (resid (g_edges G) (xint a i)) (g_src G) = Some ([], w) /\
            hd_error w = Some (g_src G) /\ last w (g_src G) = g_snk G /\
            (forall e, In e (g_edges G) -> count_e e (pairs w) = Z.to_nat (xint a i e)) /\
            (forall e, ~ In e (g_edges G) -> count_e e (pairs w) = 0%nat).
Proof. exact kpcc_layer_is_one_walk. Qed.
Print Assumptions C09_kpcc_layer_is_one_walk.

(* C09 (cyclic), completeness within the caps of the model: k source-to-sink walks that cover the non-ignored edges, stay
   within the repetition caps (|E*| * |V*| inside SCCs, 1 outside), respect the safety fixing and realise the subset
   constraints extend to a satisfying assignment of kPathCoverCycles' LP (Sel / Dist from the first-visit spanning tree) *)
Theorem C09_admissible_walk_cover_satisfies_the_lp : forall (I : kpcc_inst) (P : N -> list node),
  wf_stg (pc_graph I) -> cover_admissible I P -> exists a, sat a (encode_kpcc I).
Proof. exact kpcc_complete_admissible. Qed.
Print Assumptions C09_admissible_walk_cover_satisfies_the_lp.

Theorem C09_walk_cover_lp_feasible_iff_admissible_cover : forall (I : kpcc_inst),
  wf_stg (pc_graph I) -> o_allow_empty (pc_opts I) = false -> winputs_ok (kpcc_walk I) ->
  ((exists a, sat a (encode_kpcc I)) <-> (exists P, cover_admissible I P)).
Proof. exact kpcc_feasible_iff_within_caps. Qed.
Print Assumptions C09_walk_cover_lp_feasible_iff_admissible_cover.

Theorem C09_walk_cover_lp_feasible_iff_admissible_cover_checked : forall (I : kpcc_inst),
  wf_stg_b (pc_graph I) = true -> winputs_ok_b (kpcc_walk I) = true -> o_allow_empty (pc_opts I) = false ->
  ((exists a, sat a (encode_kpcc I)) <-> (exists P, cover_admissible I P)).
Proof. exact kpcc_feasible_iff_checked. Qed.
Print Assumptions C09_walk_cover_lp_feasible_iff_admissible_cover_checked.

(* MinPathCoverCycles returns the least number of walks of an admissible cover (relative to the solver specification) *)
Theorem C09_minpathcovercycles_returns_minimum_within_caps : forall (inst : nat -> kpcc_inst) (out : nat -> outcome) (lb nE kmin : nat),
  (forall j, pc_k (inst j) = j /\ wf_stg (pc_graph (inst j)) /\ o_allow_empty (pc_opts (inst j)) = false /\ winputs_ok (kpcc_walk (inst j))) ->
  (forall j, out j = Optimal <-> exists a, sat a (encode_kpcc (inst j))) ->
  (forall j, out j = Infeasible <-> ~ exists a, sat a (encode_kpcc (inst j))) ->
  (exists P, cover_admissible (inst kmin) P) ->
  (forall j, (j < kmin)%nat -> ~ exists P, cover_admissible (inst j) P) ->
  (lb <= kmin <= nE)%nat ->
  mfdc_solve out (fun _ => false) None lb nE = Solved kmin.
Proof. exact mpcc_returns_minimum_within_caps. Qed.
Print Assumptions C09_minpathcovercycles_returns_minimum_within_caps.

(* non-vacuity: the walk source x x sink is an admissible cover of the self-loop instance *)
Example C09_walk_cover_complete_nonvacuous :
  cover_admissible loop_kpcc (fun _ => [1; 0; 0; 2]%N) /\ exists a, sat a (encode_kpcc loop_kpcc).
Proof.
  assert (H : cover_admissible loop_kpcc (fun _ => [1; 0; 0; 2]%N)).
  { split; [|split; [|split; [|split]]].
    - intros i _. split; [reflexivity|]. split; [reflexivity|]. intros e He. cbn in He. cbn. tauto.
    - intros e He _. exists 0%N. split; [left; reflexivity|]. cbn in He. destruct He as [<-|[<-|[<-|[]]]]; vm_compute; discriminate.
    - intros i e _ He. cbn in He. destruct He as [<-|[<-|[<-|[]]]]; vm_compute; discriminate.
    - split; [intros e i H|intros e i m H]; vm_compute in H; destruct H.
    - intros j c H. cbn in H. destruct j; discriminate. }
  split; [exact H|]. apply (kpcc_complete_admissible loop_kpcc _ loopG_wf H).
Qed.

(* non-vacuity: the premises are satisfiable (self-loop instance, solved with one walk going round once) *)
Example C09_walk_premises_satisfiable :
  wf_stg loopG /\ sat loop_sol (encode_kfdc (loop_inst 1)) /\ sat loop_sol (encode_kpcc loop_kpcc).
Proof. split; [exact loopG_wf|]. split; [exact loop_feasible|exact loop_kpcc_feasible]. Qed.
