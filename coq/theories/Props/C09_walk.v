(* C01 / C02 / C09 on digraphs with cycles (statements shared by several properties; to be moved into the
   per-property files by the coordinator).
   Models: WalkEncRows.encode_walks / encode_kfdc / encode_kpcc (tied by E1, harness/e1cyc.py). *)
From Coq Require Import List NArith ZArith QArith Bool Arith Lia Permutation.
Import ListNotations.
From FP Require Import Lin Blocks BlocksProofs PathEnc PathEncProofs Euler EulerProofs1 EulerProofs4 WalkDecode
                       SatCheck WalkEncRows WalkEncRowsProofs WalkExamples.
Local Close Scope Q_scope.

(* C01 (cyclic): the rows 17a 17b 21 22a 19c with the columns' bounds and integrality force every layer's
   multiplicity vector to be exactly ONE source-to-sink walk: the reconstruction succeeds, leaves nothing
   over and traverses every edge e exactly x_i(e) times (for every subclass: the block is inherited) *)
(* C09 (cyclic): cover rows => every non-ignored edge is used at least once by some layer's walk *)
Theorem C09_kpcc_rows_force_cover : forall (I : kpcc_inst) (a : var -> Q) e,
  sat a (encode_kpcc I) ->
  In e (g_edges (pc_graph I)) -> mem_edge e (kpcc_ignore I) = false ->
  exists i, In i (layers (pc_k I)) /\ (1 <= xint a i e)%Z.
Proof. exact kpcc_covers. Qed.
Print Assumptions C09_kpcc_rows_force_cover.

Theorem C09_kpcc_layer_is_one_walk : forall (I : kpcc_inst) (a : var -> Q) i,
  let G := pc_graph I in
  wf_stg G -> o_allow_empty (pc_opts I) = false -> sat a (encode_kpcc I) -> In i (layers (pc_k I)) ->
  exists w, reconstruct (resid (g_edges G) (xint a i)) (g_src G) = Some ([], w) /\
            hd_error w = Some (g_src G) /\ last w (g_src G) = g_snk G /\
            (forall e, In e (g_edges G) -> count_e e (pairs w) = Z.to_nat (xint a i e)) /\
            (forall e, ~ In e (g_edges G) -> count_e e (pairs w) = 0%nat).
Proof. exact kpcc_layer_is_one_walk. Qed.
Print Assumptions C09_kpcc_layer_is_one_walk.


(* non-vacuity: the premises are satisfiable (self-loop instance, solved with one walk going round once) *)
Example C09_walk_premises_satisfiable :
  wf_stg loopG /\ sat loop_sol (encode_kfdc (loop_inst 1)) /\ sat loop_sol (encode_kpcc loop_kpcc).
Proof. split; [exact loopG_wf|]. split; [exact loop_feasible|exact loop_kpcc_feasible]. Qed.
