(* C20 — graph files are parsed faithfully and malformed files are rejected.
   Only the property theorems (closed by [exact]), their assumptions, and non-vacuity examples.
   Model: Parser.v (transcription of graphutils.read_graph / read_graphs over lists of code-point strings).
   Descriptions: ParserProofs2.v (hitem, bitem), ParserProofs3.v (bdesc, render_block, denote, wf_block),
   ParserProofs4.v (wf_fblock).

   What a description may contain (all of it quantified universally):
     - any number of blocks, any non-'#' lines before the first block;
     - per block any number (>= 1 inside a file) of header-text lines  lead '#'^(1+k) gap text trail  and
       '#S' lines  lead "#S" gap t1 g1 ... tn gn  in any order, with duplicates, with any Python-isspace
       white space as lead / gap / trail (the last gap may be empty: last line without newline);
     - white-space-only lines before the count line; the count token is anything int() maps to b_n
       (parse_int t = IOk n: [+-]?digits); zero-vertex blocks (no constraint, only blank lines - for read_graph on its
       own also comment lines - after the count: since fc0735f the code validates them);
     - edge lines  lead u gu v gv w gw  with parse_float w = FOk x ([+-]?digits[.digits]?), repeated edges,
       blank lines (and, for read_graph on its own, comment lines) between them.
   What the code does with counts and width (graphutils.read_graph as of /repo 29f2322): the format has ONE count
   field, the vertex-count line; it is parsed with int(), compared with 0 (0: validate-empty and return early) and
   then dropped - it is stored nowhere and never compared with the number of nodes.  The format has NO width field.
   G.graph["n"], ["m"], ["w"] are computed from the parsed edges: number_of_nodes(), number_of_edges(),
   stDiGraph(G).get_width().  [graph] / [ginfo] are the complete attribute set of the result (G.graph keys exactly
   id, constraints [, n, m, w]; edge attribute exactly "flow"; no node attributes) - the engine compares key sets.
   gi_w is modelled by the value get_width is specified to return (largest antichain of condensation items, exhaustive
   search, C20_stored_width_is_max_antichain); the code's own route (networkx condensation + network simplex) is an
   external engine (DESIGN §4) and is tied per instance by the engine. *)
From Coq Require Import String Ascii.
From Coq Require Import List NArith ZArith Bool Arith Lia.
Import ListNotations.
From FP Require Import Parser ParserProofs1 ParserProofs2 ParserProofs3 ParserProofs4 ParserProofs5.
Local Open Scope N_scope.

(* ---------------------------------------------------------------- faithful parsing *)
(* whole files: every block comes back as its denotation (first header text as id, one constraint per distinct
   '#S' node sequence of >= 2 nodes as consecutive pairs, nodes / edges / n / m / w of the listed edges - every stored
   attribute); no OutOfFuel *)
Theorem C20_read_render : forall (pre : list str) (bs : list bdesc),
  Forall (fun l => is_hdr l = false) pre -> Forall wf_fblock bs ->
  read_graphs (pre ++ concat (map render_block bs)) = FRes (Ok (map denote bs)).
Proof. exact read_render. Qed.
Print Assumptions C20_read_render.

(* one block given to read_graph directly (cm = true: comment lines between the edge lines are skipped) *)
Theorem C20_read_graph_render : forall (cm : bool) (b : bdesc),
  wf_block cm b -> read_graph (render_block b) = Ok (denote b).
Proof. exact read_render_block. Qed.
Print Assumptions C20_read_graph_render.

(* what [denote] stores for the graph: exactly the listed endpoints and pairs, last listing decides the weight,
   n = number of nodes, m = number of edges; without repeated pairs the edge list is the listing *)
Theorem C20_graph_is_the_listing : forall (L : list wedge),
  let G := graph_of L in
  NoDup (gi_nodes G) /\ (forall x, In x (gi_nodes G) <-> endpoint x L) /\
  NoDup (map fst (gi_edges G)) /\ (forall p, In p (map fst (gi_edges G)) <-> In p (map fst L)) /\
  (forall L1 u v w L2, L = L1 ++ (u, v, w) :: L2 -> ~ In (u, v) (map fst L2) -> In (u, v, w) (gi_edges G)) /\
  gi_n G = length (gi_nodes G) /\ gi_m G = length (gi_edges G) /\
  (NoDup (map fst L) -> gi_edges G = L).
Proof. exact graph_of_spec. Qed.
Print Assumptions C20_graph_is_the_listing.

(* what [denote] stores as width: the size of a largest antichain of items (edges between different strongly connected
   components + one representative of every component that contains an edge; a, b comparable iff the end of one reaches
   the start of the other) *)
Theorem C20_stored_width_is_max_antichain : forall (L : list wedge),
  let G := graph_of L in
  let es := gi_edges G in
  (forall a b, In (a, b) (items G) ->
      (In (a, b) (map fst es) /\ ~ same_comp es a b) \/ (a = b /\ exists v, In (a, v) (map fst es) /\ same_comp es a v)) /\
  (forall u v, In (u, v) (map fst es) ->
      (~ same_comp es u v /\ In (u, v) (items G)) \/ (same_comp es u v /\ exists r, same_comp es u r /\ In (r, r) (items G))) /\
  (exists A, subl A (items G) /\ antichain es A /\ length A = gi_w G) /\
  (forall A, subl A (items G) -> antichain es A -> (length A <= gi_w G)%nat).
Proof. exact width_spec. Qed.
Print Assumptions C20_stored_width_is_max_antichain.

(* the vertex count written in the file only matters through "is it 0": it is not stored *)
Theorem C20_declared_count_is_not_stored : forall (b b' : bdesc),
  b_items b = b_items b' -> b_body b = b_body b' -> b_n b <> 0%Z -> b_n b' <> 0%Z -> denote b = denote b'.
Proof. exact denote_ignores_count. Qed.
Print Assumptions C20_declared_count_is_not_stored.

(* what [denote] stores for the constraints: one entry per distinct '#S' node sequence with at least two nodes *)
Theorem C20_one_constraint_per_distinct_S_line : forall (items : list hitem),
  exists seqs, spec_cons items = map pairs_of seqs /\ NoDup seqs /\
               forall t, In t seqs <-> In t (cons_toks items) /\ (2 <= length t)%nat.
Proof. exact spec_cons_spec. Qed.
Print Assumptions C20_one_constraint_per_distinct_S_line.

(* the number tokens whose value the model decides *)
Theorem C20_float_token_integer : forall (neg plus : bool) (ip : str), is_digits ip ->
  parse_float (sign_str neg plus ++ ip) = FOk {| dneg := neg; dmant := digits_val ip 0; dscale := 0 |}.
Proof. exact parse_float_integer. Qed.
Print Assumptions C20_float_token_integer.
Theorem C20_float_token_decimal : forall (neg plus : bool) (ip fp : str), is_digits ip -> is_digits fp ->
  parse_float (sign_str neg plus ++ ip ++ c_dot :: fp) = FOk {| dneg := neg; dmant := digits_val (ip ++ fp) 0; dscale := length fp |}.
Proof. exact parse_float_decimal. Qed.
Print Assumptions C20_float_token_decimal.
Theorem C20_int_token : forall (neg plus : bool) (ds : str), is_digits ds -> (length ds < 4000)%nat ->
  parse_int (sign_str neg plus ++ ds) = IOk (if neg then (- Z.of_N (digits_val ds 0))%Z else Z.of_N (digits_val ds 0)).
Proof. exact parse_int_digits. Qed.
Print Assumptions C20_int_token.
(* such tokens are automatically white-space-free fields / admissible count texts *)
Theorem C20_float_token_is_field : forall (s : str) (d : dec), parse_float s = FOk d -> token s.
Proof. exact parse_float_ok_token. Qed.
Print Assumptions C20_float_token_is_field.
Theorem C20_int_token_is_count_text : forall (t : str) (z : Z), parse_int t = IOk z -> count_text t.
Proof. exact count_text_of_int. Qed.
Print Assumptions C20_int_token_is_count_text.

(* ---------------------------------------------------------------- rejection (every Error is a ValueError of the code) *)
(* malformed edge line / non-numeric weight, anywhere in a file: good blocks before, count <> 0, well-formed lines
   before the damaged one, arbitrary non-'#' lines after it, anything after the block *)
Theorem C20_corrupt_edge_line_rejected : forall pre good b body_pre l post rest e,
  Forall (fun x => is_hdr x = false) pre -> Forall wf_fblock good ->
  wf_head b -> b_items b <> [] -> parse_int (b_ctok b) = IOk (b_n b) -> b_n b <> 0%Z ->
  Forall (wf_bitem false) body_pre ->
  (bad_edge_line l /\ e = EBadEdge) \/ (bad_weight_line l /\ e = EBadWeight) ->
  Forall (fun x => is_hdr x = false) post -> hdr_or_nil rest ->
  read_graphs (pre ++ concat (map render_block good) ++
               (map render_hitem (b_items b) ++ b_blanks b ++ count_line b :: (map render_bitem body_pre ++ l :: post)) ++ rest)
  = FRes (Error e).
Proof. exact corrupt_line_in_file. Qed.
Print Assumptions C20_corrupt_edge_line_rejected.

(* the same for read_graph on one block (comment lines allowed before the damaged line, anything after it) *)
Theorem C20_corrupt_edge_line_rejected_read_graph : forall cm b pre l post e,
  wf_head b -> parse_int (b_ctok b) = IOk (b_n b) -> b_n b <> 0%Z ->
  Forall (wf_bitem cm) pre ->
  (bad_edge_line l /\ e = EBadEdge) \/ (bad_weight_line l /\ e = EBadWeight) ->
  read_graph (map render_hitem (b_items b) ++ b_blanks b ++ count_line b :: (map render_bitem pre ++ l :: post)) = Error e.
Proof. exact bad_line_rejected. Qed.
Print Assumptions C20_corrupt_edge_line_rejected_read_graph.

(* non-numeric vertex count (whatever follows) *)
Theorem C20_bad_count_rejected : forall pre good items blanks lead t trail body rest,
  Forall (fun x => is_hdr x = false) pre -> Forall wf_fblock good ->
  Forall wf_hitem items -> items <> [] -> Forall all_ws blanks -> all_ws lead -> all_ws trail -> count_text t ->
  parse_int t = IBad ->
  Forall (fun x => is_hdr x = false) body -> hdr_or_nil rest ->
  read_graphs (pre ++ concat (map render_block good) ++ (map render_hitem items ++ blanks ++ (lead ++ t ++ trail) :: body) ++ rest)
  = FRes (Error EBadCount).
Proof. exact bad_count_in_file. Qed.
Print Assumptions C20_bad_count_rejected.
Theorem C20_bad_count_rejected_read_graph : forall items blanks lead t trail body,
  Forall wf_hitem items -> Forall all_ws blanks -> all_ws lead -> all_ws trail -> count_text t ->
  parse_int t = IBad ->
  read_graph (map render_hitem items ++ blanks ++ (lead ++ t ++ trail) :: body) = Error EBadCount.
Proof. exact bad_count_rejected. Qed.
Print Assumptions C20_bad_count_rejected_read_graph.
(* no vertex-count line at all: the file ends inside the header part of its last block *)
Theorem C20_missing_count_rejected : forall pre good items blanks,
  Forall (fun l => is_hdr l = false) pre -> Forall wf_fblock good ->
  Forall wf_hitem items -> items <> [] -> Forall all_ws blanks ->
  read_graphs (pre ++ concat (map render_block good) ++ map render_hitem items ++ blanks) = FRes (Error EMissingCount).
Proof. exact missing_count_at_eof. Qed.
Print Assumptions C20_missing_count_rejected.

(* a constraint edge that no edge line lists (count <> 0) *)
Theorem C20_missing_constraint_edge_rejected : forall pre good b rest,
  Forall (fun x => is_hdr x = false) pre -> Forall wf_fblock good ->
  wf_head b -> b_items b <> [] -> parse_int (b_ctok b) = IOk (b_n b) -> b_n b <> 0%Z ->
  Forall (wf_bitem false) (b_body b) ->
  (exists c p, In c (spec_cons (b_items b)) /\ In p c /\ ~ In p (map fst (listed (b_body b)))) ->
  hdr_or_nil rest ->
  read_graphs (pre ++ concat (map render_block good) ++ render_block b ++ rest) = FRes (Error EMissingConstraintEdge).
Proof. exact missing_constraint_edge_in_file. Qed.
Print Assumptions C20_missing_constraint_edge_rejected.
Theorem C20_missing_constraint_edge_rejected_read_graph : forall cm b,
  wf_head b -> parse_int (b_ctok b) = IOk (b_n b) -> b_n b <> 0%Z ->
  Forall (wf_bitem cm) (b_body b) ->
  (exists c p, In c (spec_cons (b_items b)) /\ In p c /\ ~ In p (map fst (listed (b_body b)))) ->
  read_graph (render_block b) = Error EMissingConstraintEdge.
Proof. exact missing_constraint_edge_rejected. Qed.
Print Assumptions C20_missing_constraint_edge_rejected_read_graph.

(* any block read_graph rejects makes read_graphs fail with the same error, after any number of good blocks *)
Theorem C20_first_failing_block_decides : forall pre good B rest e,
  Forall (fun l => is_hdr l = false) pre -> Forall wf_fblock good ->
  shaped B -> hdr_or_nil rest -> read_graph B = Error e ->
  read_graphs (pre ++ concat (map render_block good) ++ B ++ rest) = FRes (Error e).
Proof. exact corrupt_block_rejected. Qed.
Print Assumptions C20_first_failing_block_decides.

(* ---------------------------------------------------------------- blocks that declare 0 vertices (validated since fc0735f) *)
(* a constraint, or any line after the count that is neither blank nor a '#' line (e.g. a damaged or even a
   well-formed edge line), makes a zero-vertex block fail *)
Theorem C20_zero_block_rejected : forall pre good b body rest,
  Forall (fun x => is_hdr x = false) pre -> Forall wf_fblock good ->
  wf_head b -> b_items b <> [] -> parse_int (b_ctok b) = IOk 0%Z ->
  Forall (fun x => is_hdr x = false) body ->
  spec_cons (b_items b) <> [] \/ (exists l, In l body /\ unskipped l) ->
  hdr_or_nil rest ->
  exists e, read_graphs (pre ++ concat (map render_block good) ++ (map render_hitem (b_items b) ++ b_blanks b ++ count_line b :: body) ++ rest)
            = FRes (Error e) /\ (e = EZeroHasConstraints \/ e = EZeroHasEdges).
Proof. exact zero_block_in_file. Qed.
Print Assumptions C20_zero_block_rejected.
Theorem C20_zero_block_rejected_read_graph : forall b body,
  wf_head b -> parse_int (b_ctok b) = IOk 0%Z ->
  spec_cons (b_items b) <> [] \/ (exists l, In l body /\ unskipped l) ->
  exists e, read_graph (map render_hitem (b_items b) ++ b_blanks b ++ count_line b :: body) = Error e /\
            (e = EZeroHasConstraints \/ e = EZeroHasEdges).
Proof. exact zero_block_rejected. Qed.
Print Assumptions C20_zero_block_rejected_read_graph.

(* hence the rejection clauses hold whatever the count says *)
Theorem C20_corrupt_edge_line_rejected_any_count : forall pre good b body_pre l post rest,
  Forall (fun x => is_hdr x = false) pre -> Forall wf_fblock good ->
  wf_head b -> b_items b <> [] -> parse_int (b_ctok b) = IOk (b_n b) ->
  Forall (wf_bitem false) body_pre -> bad_edge_line l \/ bad_weight_line l ->
  Forall (fun x => is_hdr x = false) post -> hdr_or_nil rest ->
  exists e, read_graphs (pre ++ concat (map render_block good) ++
               (map render_hitem (b_items b) ++ b_blanks b ++ count_line b :: (map render_bitem body_pre ++ l :: post)) ++ rest)
            = FRes (Error e).
Proof. exact corrupt_line_in_file_any_count. Qed.
Print Assumptions C20_corrupt_edge_line_rejected_any_count.
Theorem C20_missing_constraint_edge_rejected_any_count : forall pre good b rest,
  Forall (fun x => is_hdr x = false) pre -> Forall wf_fblock good ->
  wf_head b -> b_items b <> [] -> parse_int (b_ctok b) = IOk (b_n b) ->
  (b_n b <> 0%Z -> Forall (wf_bitem false) (b_body b)) ->
  Forall (fun x => is_hdr x = false) (map render_bitem (b_body b)) ->
  (exists c p, In c (spec_cons (b_items b)) /\ In p c /\ ~ In p (map fst (listed (b_body b)))) ->
  hdr_or_nil rest ->
  exists e, read_graphs (pre ++ concat (map render_block good) ++ render_block b ++ rest) = FRes (Error e).
Proof. exact missing_constraint_edge_in_file_any_count. Qed.
Print Assumptions C20_missing_constraint_edge_rejected_any_count.
Theorem C20_corrupt_edge_line_rejected_any_count_read_graph : forall cm b pre l post,
  wf_head b -> parse_int (b_ctok b) = IOk (b_n b) ->
  Forall (wf_bitem cm) pre -> bad_edge_line l \/ bad_weight_line l ->
  exists e, read_graph (map render_hitem (b_items b) ++ b_blanks b ++ count_line b :: (map render_bitem pre ++ l :: post)) = Error e.
Proof. exact bad_line_rejected_any_count. Qed.
Print Assumptions C20_corrupt_edge_line_rejected_any_count_read_graph.

(* ---------------------------------------------------------------- non-vacuity *)
Definition s (x : string) : str := map N_of_ascii (list_ascii_of_string x).
Definition nl : str := [10].
Definition sp : str := [32].
Definition d (neg : bool) (m : N) (k : nat) : dec := {| dneg := neg; dmant := m; dscale := k |}.

(*  "junk"                       (skipped: before the first header)
    "# graph 1  name = foo"      block 1: id, a duplicated '#S' line, a one-node '#S' line, a repeated edge (last weight wins)
    "  #S a b c"
    "## second header"
    "#S a  b c"
    "#S a"
    ""
    " 3"
    "a b 1.5"
    ""
    "b c +2"
    "a b -0.25"
    "# empty"                    block 2: zero vertices
    "0"
    "#Sx y"                      block 3: no header text (id = None), tab-separated, last line without newline
    "7"
    "x<TAB>y<TAB>007.50"                                                                                         *)
Definition ex_b1 : bdesc :=
  {| b_items := [HHdr [] 0 sp (s "graph 1  name = foo") nl; HCons (s "  ") sp [(s "a", sp); (s "b", sp); (s "c", nl)];
                 HHdr [] 1 sp (s "second header") nl; HCons [] sp [(s "a", s "  "); (s "b", sp); (s "c", nl)]; HCons [] sp [(s "a", nl)]];
     b_blanks := [nl]; b_clead := sp; b_ctok := s "3"; b_ctrail := nl; b_n := 3%Z;
     b_body := [BEdge [] (s "a") sp (s "b") sp (s "1.5") nl (d false 15 1); BJunk nl;
                BEdge [] (s "b") sp (s "c") sp (s "+2") nl (d false 2 0);
                BEdge [] (s "a") sp (s "b") sp (s "-0.25") nl (d true 25 2)] |}.
Definition ex_b2 : bdesc :=
  {| b_items := [HHdr [] 0 sp (s "empty") nl]; b_blanks := []; b_clead := []; b_ctok := s "0"; b_ctrail := nl; b_n := 0%Z; b_body := [] |}.
Definition ex_b3 : bdesc :=
  {| b_items := [HCons [] [] [(s "x", sp); (s "y", nl)]]; b_blanks := []; b_clead := []; b_ctok := s "7"; b_ctrail := nl; b_n := 7%Z;
     b_body := [BEdge [] (s "x") [9] (s "y") [9] (s "007.50") [] (d false 750 2)] |}.
Definition ex_file : list str :=
  map (fun x => s x ++ nl)
      ["junk"; "# graph 1  name = foo"; "  #S a b c"; "## second header"; "#S a  b c"; "#S a"; ""; " 3"; "a b 1.5"; ""; "b c +2"; "a b -0.25";
       "# empty"; "0"; "#Sx y"; "7"]%string
  ++ [s "x" ++ [9] ++ s "y" ++ [9] ++ s "007.50"].

Example C20_ex_file_is_a_rendering : ex_file = [s "junk" ++ nl] ++ concat (map render_block [ex_b1; ex_b2; ex_b3]).
Proof. vm_compute. reflexivity. Qed.

Ltac ws := repeat (constructor; try reflexivity).
Ltac tok := split; [discriminate|ws].
Ltac cells := cbn [wf_cells]; repeat match goal with
  | |- _ /\ _ => split
  | |- token _ => tok
  | |- all_ws _ => ws
  | |- _ -> _ <> _ => let H := fresh in intros H; first [discriminate | exfalso; apply H; reflexivity]
  | |- True => exact I end.
Ltac trm := first [left; reflexivity | right; split; reflexivity].
Ltac src x e := exists x; split; [exists e; split; [cbn; tauto|cbn; tauto]|
                  intros ? Hin; cbn in Hin; repeat (destruct Hin as [<-|Hin]; [cbn; discriminate|]); destruct Hin].

Example C20_ex_blocks_are_well_formed : Forall wf_fblock [ex_b1; ex_b2; ex_b3] /\ Forall (fun l => is_hdr l = false) [s "junk" ++ nl].
Proof.
  split; [|repeat constructor].
  constructor; [|constructor; [|constructor; [|constructor]]].
  - (* block 1 *)
    split; [|discriminate].
    split; [|split; [reflexivity|right; split; [discriminate|]]].
    + split; [|split; [ws|split; [ws|split; [ws|split; [discriminate|split; [trm|cbn; discriminate]]]]]].
      constructor; [|constructor; [|constructor; [|constructor; [|constructor; [|constructor]]]]].
      * cbn. split; [ws|split; [ws|split; [ws|split; [trm|discriminate]]]].
      * cbn [wf_hitem]. split; [ws|split; [ws|]]. cells.
      * cbn. split; [ws|split; [ws|split; [ws|split; [trm|discriminate]]]].
      * cbn [wf_hitem]. split; [ws|split; [ws|]]. cells.
      * cbn [wf_hitem]. split; [ws|split; [ws|]]. cells.
    + split; [|split; [|split]].
      * constructor; [|constructor; [|constructor; [|constructor; [|constructor]]]].
        -- cbn [wf_bitem]. split; [ws|split; [|split; [cbn; discriminate|reflexivity]]]. cells.
        -- left. reflexivity.
        -- cbn [wf_bitem]. split; [ws|split; [|split; [cbn; discriminate|reflexivity]]]. cells.
        -- cbn [wf_bitem]. split; [ws|split; [|split; [cbn; discriminate|reflexivity]]]. cells.
      * intros c Hc p Hp. vm_compute in Hc. destruct Hc as [<-|[]]. cbn in Hp. destruct Hp as [<-|[<-|[]]]; vm_compute; tauto.
      * src (s "a") (s "a", s "b", d false 15 1).
      * src (s "c") (s "b", s "c", d false 2 0).
  - (* block 2: zero vertices *)
    split; [|discriminate].
    split; [|split; [reflexivity|left; split; [reflexivity|split; [reflexivity|constructor]]]].
    split; [|split; [ws|split; [ws|split; [ws|split; [discriminate|split; [trm|cbn; discriminate]]]]]].
    constructor; [|constructor]. cbn. split; [ws|split; [ws|split; [ws|split; [trm|discriminate]]]].
  - (* block 3 *)
    split; [|discriminate].
    split; [|split; [reflexivity|right; split; [discriminate|]]].
    + split; [|split; [ws|split; [ws|split; [ws|split; [discriminate|split; [trm|cbn; discriminate]]]]]].
      constructor; [|constructor]. cbn [wf_hitem]. split; [ws|split; [ws|]]. cells.
    + split; [|split; [|split]].
      * constructor; [|constructor]. cbn [wf_bitem]. split; [ws|split; [|split; [cbn; discriminate|reflexivity]]]. cells.
      * intros c Hc p Hp. vm_compute in Hc. destruct Hc as [<-|[]]. cbn in Hp. destruct Hp as [<-|[]]; vm_compute; tauto.
      * src (s "x") (s "x", s "y", d false 750 2).
      * src (s "y") (s "x", s "y", d false 750 2).
Qed.

(* hence, by C20_read_render, the model must return the three described graphs; it does: *)
Example C20_ex_result :
  read_graphs ex_file = FRes (Ok (map denote [ex_b1; ex_b2; ex_b3])) /\
  map denote [ex_b1; ex_b2; ex_b3] =
  [ {| gid := Some (s "graph 1  name = foo"); gcons := [[(s "a", s "b"); (s "b", s "c")]];
       ginf := Some {| gi_nodes := [s "a"; s "b"; s "c"]; gi_edges := [(s "a", s "b", d true 25 2); (s "b", s "c", d false 2 0)]; gi_n := 3; gi_m := 2; gi_w := 1 |} |};
    {| gid := Some (s "empty"); gcons := []; ginf := None |};
    {| gid := None; gcons := [[(s "x", s "y")]];
       ginf := Some {| gi_nodes := [s "x"; s "y"]; gi_edges := [(s "x", s "y", d false 750 2)]; gi_n := 2; gi_m := 1; gi_w := 1 |} |} ].
Proof. split; vm_compute; reflexivity. Qed.

(* single-line corruptions of that file are rejected with the expected error *)
Definition set_line (k : nat) (l : str) (ls : list str) : list str := firstn k ls ++ l :: skipn (S k) ls.
Example C20_ex_corruptions_rejected :
  read_graphs (set_line 10 (s "b c" ++ nl) ex_file) = FRes (Error EBadEdge) /\
  read_graphs (set_line 10 (s "b c two" ++ nl) ex_file) = FRes (Error EBadWeight) /\
  read_graphs (set_line 7 (s " three" ++ nl) ex_file) = FRes (Error EBadCount) /\
  read_graphs (set_line 7 nl ex_file) = FRes (Error EBadCount) /\
  read_graphs (set_line 4 (s "#S a c" ++ nl) ex_file) = FRes (Error EMissingConstraintEdge) /\
  read_graphs (firstn 13 ex_file) = FRes (Error EMissingCount) /\
  (* block 2 declares 0 vertices: an edge line or a '#S' constraint in it is rejected (accepted before fc0735f) *)
  read_graphs (firstn 14 ex_file ++ [s "a b 1" ++ nl] ++ skipn 14 ex_file) = FRes (Error EZeroHasEdges) /\
  read_graphs (firstn 14 ex_file ++ [s "a b" ++ nl] ++ skipn 14 ex_file) = FRes (Error EZeroHasEdges) /\
  read_graphs (set_line 12 (s "#S a b" ++ nl) ex_file) = FRes (Error EZeroHasConstraints) /\
  read_graphs [s "#S a b" ++ nl; s "0" ++ nl] = FRes (Error EZeroHasConstraints).
Proof. repeat split; vm_compute; reflexivity. Qed.

(* audit (2026-10-02): the hypothesis predicates of the rejection theorems hold of the lines used in C20_ex_corruptions_rejected *)
Example C20_ex_bad_lines_meet_the_hypotheses :
  bad_edge_line (s "b c" ++ nl) /\ hdr_or_nil [] /\ hdr_or_nil [s "# next" ++ nl] /\
  parse_int (s "3") = IOk 3%Z /\ parse_float (s "two") = FBad /\ parse_int (s "three") <> IOk 3%Z.
Proof.
  split; [repeat split; vm_compute; discriminate|]. split; [exact I|]. split; [vm_compute; reflexivity|].
  split; [vm_compute; reflexivity|]. split; [vm_compute; reflexivity|]. vm_compute. discriminate.
Qed.
