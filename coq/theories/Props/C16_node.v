(* C16 — MinErrorFlow with flow_attr_origin = 'node', in the caller's terms (NodeMefE2E.v).  Only Theorem / exact / Print Assumptions
   and a non-vacuity Example.  node_flow V E isint x: x : node -> Q is non-negative (integral for int) and some non-negative
   (integral) edge assignment y makes the inflow of every node with in-edges and the outflow of every node with out-edges equal to
   x v.  node_flow_cost = sum over the charged nodes (not ignored / attribute-less, scaling not 0) of sc v * |fq v - x v|.
   node_mef_inst: the instance node mode hands to the edge model: the node expansion (v.0 = 2v, v.1 = 2v+1; C11 /
   DilworthNode.expE_is_xrel tie it to NodeExpandedDiGraph), weight and scaling on the node edges, connecting edges and uncharged
   nodes' edges in edges_to_ignore; the form the model takes for graphs with cycles (no global source/sink, sparsity_lambda = 0). *)
From Coq Require Import List NArith ZArith QArith Bool Arith Lia.
Import ListNotations.
From FP Require Import Lin PathEnc MiscEnc MiscEncProofs MefBound DilworthNode NodeErrE2E NodeMefE2E.
Local Open Scope Q_scope.

(* key lemma: conserving flows of the expansion <-> (node flow, witness y) *)
Theorem C16_node_expansion_flow_is_node_flow : forall (V : list node) (E : list PathEnc.edge) (fq sc : node -> Q) (ign : list node) (isint : bool),
  NoDup V -> forall z, is_flow_nb (node_mef_inst V E fq sc ign isint) z -> node_flow_w V E isint (xn z) (yn z).
Proof. exact expansion_flow_is_node_flow. Qed.
Print Assumptions C16_node_expansion_flow_is_node_flow.

Theorem C16_node_flow_is_expansion_flow : forall (V : list node) (E : list PathEnc.edge) (fq sc : node -> Q) (ign : list node) (isint : bool),
  NoDup V -> forall x y, node_flow_w V E isint x y -> is_flow_nb (node_mef_inst V E fq sc ign isint) (zof x y).
Proof. exact node_flow_is_expansion_flow. Qed.
Print Assumptions C16_node_flow_is_expansion_flow.

(* the charged edges of the expanded instance are the node edges of the charged nodes; the distances agree *)
Theorem C16_node_costs_agree : forall (V : list node) (E : list PathEnc.edge) (fq sc : node -> Q) (ign : list node) (isint : bool) z,
  flow_cost (node_mef_inst V E fq sc ign isint) z == node_flow_cost V fq sc ign (xn z).
Proof. exact flow_cost_agree. Qed.
Print Assumptions C16_node_costs_agree.

(* an optimal solution of the expanded instance's rows, read back on the node edges, is a node flow that is closest to the node
   weights among ALL node flows (integral ones for weight_type = int) *)
Theorem C16_node_optimal_solution_is_closest_node_flow :
  forall (V : list node) (E : list PathEnc.edge) (fq sc : node -> Q) (ign : list node) (isint : bool),
  NoDup V -> NoDup E -> forall a : var -> Q, node_mef_domain V fq sc ign isint ->
  let I := node_mef_inst V E fq sc ign isint in
  sat a (encode_mef I) -> (forall b, sat b (encode_mef I) -> obj_le (encode_mef I) a b) ->
  let x := fun v => xof a (nedge v) in
  node_flow V E isint x /\
  (forall x', node_flow V E isint x' -> node_flow_cost V fq sc ign x <= node_flow_cost V fq sc ign x').
Proof. exact node_mef_optimal_is_closest_node_flow. Qed.
Print Assumptions C16_node_optimal_solution_is_closest_node_flow.

(* the few-flow-values second phase: any solution of the second model reads back as a node flow whose distance to the node weights is
   within the budget (1 + eps) * opt *)
Theorem C16_node_few_values_within_budget :
  forall (V : list node) (E : list PathEnc.edge) (fq sc : node -> Q) (ign : list node) (isint : bool),
  NoDup V -> forall (subset : list PathEnc.edge) (eps opt : Q) (nvals : nat) (a : var -> Q), node_mef_domain V fq sc ign isint ->
  sat a (encode_mef2 (node_mef_inst V E fq sc ign isint) subset eps opt nvals) ->
  node_flow V E isint (fun v => xof a (nedge v)) /\ node_flow_cost V fq sc ign (fun v => xof a (nedge v)) <= (1 + eps) * opt.
Proof. exact node_mef_few_values_within_budget. Qed.
Print Assumptions C16_node_few_values_within_budget.

(* non-vacuity: the chain 1 -> 2 -> 3 with node weights 10, 4, 10: the premises about the caller's input hold, the constant 10 is a
   node flow at distance 6, every node flow is at distance >= 6, and distance 6 forces the constant 10 (unique optimum) *)
Example C16_node_premises_satisfiable :
  NoDup mxV /\ NoDup mxE /\ (forall e, In e mxE -> In (fst e) mxV /\ In (snd e) mxV) /\
  node_mef_domain mxV mxfq mxsc [] false /\
  node_flow mxV mxE false (fun _ => 10) /\ node_flow_cost mxV mxfq mxsc [] (fun _ => 10) == 6 /\
  (forall x, node_flow mxV mxE false x -> 6 <= node_flow_cost mxV mxfq mxsc [] x) /\
  (forall x, node_flow mxV mxE false x -> node_flow_cost mxV mxfq mxsc [] x == 6 -> x 1%N == 10 /\ x 2%N == 10 /\ x 3%N == 10).
Proof. exact mx_premises. Qed.
Print Assumptions C16_node_premises_satisfiable.
