(* Concrete instances of the cyclic encoders: non-vacuity of the C01/C02/C04/C09 theorems and the
   witness of the scale-invariance finding (C04, key rep_cap_from_own_flow). *)
From Coq Require Import List NArith ZArith QArith Lqa Bool Lia Permutation.
Import ListNotations.
From FP Require Import Lin Blocks BlocksProofs PathEnc PathEncProofs SatCheck WalkEncRows WalkEncRowsProofs.
Set Default Timeout 120.
Local Close Scope Q_scope.

(* caller's graph: one node x with a self-loop, additional_starts = additional_ends = [x].
   ids: x = 0, source = 1, sink = 2 (networkx order: base nodes, then source, then sink) *)
Definition loopG : stgraph :=
  {| g_nodes := [0; 1; 2]%N; g_edges := [(0, 0); (1, 0); (0, 2)]%N; g_src := 1%N; g_snk := 2%N;
     g_succ := [(0, [0; 2]); (1, [0]); (2, [])]%N; g_pred := [(0, [0; 1]); (1, []); (2, [0])]%N |}.

Definition no_opts : walk_opts :=
  {| o_allow_empty := false; o_safe := false; o_geq := false; o_bounds := false; o_zero := false;
     o_safe_cons := false; o_anti_cons := false |}.

(* kFlowDecompCycles(loop with flow f, k = 1, weight_type = float), safety optimisations off *)
Definition loop_inst (f : Q) : kfdc_inst :=
  {| c_graph := loopG; c_k := 1; c_flow := [((0, 0)%N, f)]; c_ignore := []; c_int := false;
     c_cons := []; c_cov := 1%Q; c_opts := no_opts; c_safe_lists := []; c_fix := []; c_given := None;
     c_scale_free := false |}.

Lemma loopG_wf : wf_stg loopG.
Proof.
  split; [split| | |].
  - repeat constructor; cbn; intuition discriminate.
  - intros e He. cbn in He. intuition (subst; cbn; tauto).
  - intros v. destruct v as [|[[p|p|]|[p|p|]|]]; reflexivity.
  - intros v. destruct v as [|[[p|p|]|[p|p|]|]]; apply Permutation_refl.
  - intros e He. cbn in He. intuition (subst; cbn; discriminate).
  - intros e He. cbn in He. intuition (subst; cbn; discriminate).
  - discriminate.
  - repeat constructor; cbn; intuition discriminate.
  - cbn. tauto.
  - cbn. tauto.
Qed.

(* the walk  source x x sink  with weight 1: x(loop) = 1 *)
Definition loop_sol : var -> Q :=
  assign [ (evar (0, 0)%N 0%N, 1%Q); (evar (1, 0)%N 0%N, 1%Q); (evar (0, 2)%N 0%N, 1%Q);
           (svar (1, 0)%N 0%N, 1%Q); (svar (0, 2)%N 0%N, 1%Q);
           (Dist 1%N 0%N, 1%Q); (Dist 0%N 0%N, 2%Q); (Dist 2%N 0%N, 3%Q);
           (pvar (0, 0)%N 0%N, 1%Q); (W 0%N, 1%Q);
           (Bit (pvar (0, 0)%N 0%N) 0%N, 1%Q); (Comp (pvar (0, 0)%N 0%N) 0%N, 1%Q) ].

Lemma loop_feasible : sat loop_sol (encode_kfdc (loop_inst 1)).
Proof. apply sat_b_sound. vm_compute. reflexivity. Qed.

(* flow 2 on the loop: the walk goes round twice with weight 1 (two bits) *)
Definition loop2_sol : var -> Q :=
  assign [ (evar (0, 0)%N 0%N, 2%Q); (evar (1, 0)%N 0%N, 1%Q); (evar (0, 2)%N 0%N, 1%Q);
           (svar (1, 0)%N 0%N, 1%Q); (svar (0, 2)%N 0%N, 1%Q);
           (Dist 1%N 0%N, 1%Q); (Dist 0%N 0%N, 2%Q); (Dist 2%N 0%N, 3%Q);
           (pvar (0, 0)%N 0%N, 2%Q); (W 0%N, 1%Q);
           (Bit (pvar (0, 0)%N 0%N) 1%N, 1%Q); (Comp (pvar (0, 0)%N 0%N) 1%N, 1%Q) ].
Lemma loop2_feasible : sat loop2_sol (encode_kfdc (loop_inst 2)).
Proof. apply sat_b_sound. vm_compute. reflexivity. Qed.

(* multiplying every flow value by a positive constant *)
Definition scale_inst (c : Q) (I : kfdc_inst) : kfdc_inst :=
  {| c_graph := c_graph I; c_k := c_k I; c_flow := map (fun eq => (fst eq, (c * snd eq)%Q)) (c_flow I);
     c_ignore := c_ignore I; c_int := c_int I; c_cons := c_cons I; c_cov := c_cov I; c_opts := c_opts I;
     c_safe_lists := c_safe_lists I; c_fix := c_fix I; c_given := c_given I; c_scale_free := c_scale_free I |}.

Definition feasible (I : kfdc_inst) : Prop := exists a, sat a (encode_kfdc I).

(* C04, scale invariance at full strength (float weights): false of the faithful model *)
Definition scale_invariance_statement : Prop :=
  forall (I : kfdc_inst) (c : Q), (0 < c)%Q -> c_int I = false -> c_scale_free I = false -> wf_stg (c_graph I) ->
    (feasible I <-> feasible (scale_inst c I)).

Lemma loop_quarter_infeasible : ~ feasible (scale_inst (1 # 4)%Q (loop_inst 1)).
Proof.
  intros [a Ha]. apply (kfdc_small_flow_infeasible (scale_inst (1 # 4)%Q (loop_inst 1)) a (0, 0)%N); try exact Ha.
  - reflexivity.
  - vm_compute. left. reflexivity.
  - vm_compute. reflexivity.
  - cbn. left. reflexivity.
  - vm_compute. split; reflexivity.
Qed.

Theorem kfdc_scale_invariance_refuted : ~ scale_invariance_statement.
Proof.
  intros H. apply loop_quarter_infeasible.
  apply (H (loop_inst 1) (1 # 4)%Q); [reflexivity|reflexivity|reflexivity|exact loopG_wf|].
  exists loop_sol. exact loop_feasible.
Qed.

(* kPathCoverCycles on the same graph, k = 1 *)
Definition loop_kpcc : kpcc_inst :=
  {| pc_graph := loopG; pc_k := 1; pc_ignore := []; pc_cons := []; pc_cov := 1%Q; pc_opts := no_opts;
     pc_safe_lists := []; pc_fix := [] |}.
Lemma loop_kpcc_feasible : sat loop_sol (encode_kpcc loop_kpcc).
Proof. apply sat_b_sound. vm_compute. reflexivity. Qed.

(* ---- the encoding against the declarative notion of a decomposition into k weighted walks ---- *)
From FP Require Import Euler EulerProofs1 EulerProofs4 WalkDecode.

Definition decomposes (I : kfdc_inst) (x : N -> PathEnc.edge -> Z) (wt : N -> Q) : Prop :=
  let G := c_graph I in let k := c_k I in
  let E := g_edges G in let s := g_src G in let t := g_snk G in
  (forall i, In i (layers k) ->
     exists w, reconstruct (resid E (x i)) s = Some ([], w) /\ hd_error w = Some s /\ last w s = t /\
               (forall e, In e E -> count_e e (pairs w) = Z.to_nat (x i e) /\ (0 <= x i e)%Z) /\
               (forall e, ~ In e E -> count_e e (pairs w) = 0%nat)) /\
  (forall i, In i (layers k) -> (0 <= wt i)%Q /\ (c_int I = true -> is_int (wt i))) /\
  (forall e, In e (kept_edges I) -> (sumq (fun i => wt i * inject_Z (x i e)) (layers k) == flow_of I e)%Q).

(* full strength: the LP for k is feasible exactly when the flow decomposes into k weighted walks *)
Definition kfdc_exact_statement : Prop :=
  forall I, c_scale_free I = false -> wf_stg (c_graph I) -> o_allow_empty (c_opts I) = false ->
    (feasible I <-> exists x wt, decomposes I x wt).

(* proved half: every LP solution is a decomposition *)
Theorem kfdc_exact_partial I : wf_stg (c_graph I) -> o_allow_empty (c_opts I) = false ->
  feasible I -> exists x wt, decomposes I x wt.
Proof.
  intros WF Hae [a Ha]. destruct (kfdc_sound I a WF Hae Ha) as (H1 & H2 & H3).
  exists (xint a), (fun i => a (W i)). split; [|split].
  - intros i Hi. destruct (H1 i Hi) as (w & R & Hh & Hl & C1 & C0). exists w. repeat split; try assumption.
    + apply (C1 e H).
    + apply (C1 e H).
  - intros i Hi. destruct (H2 i Hi) as [[L _] T]. split; assumption.
  - exact H3.
Qed.

(* the other half fails for the code as it is: the loop with flow 1/4 decomposes into one walk of weight
   1/4, but its LP is infeasible because the loop's repetition cap is its own flow value 1/4 < 1 *)
Theorem kfdc_exact_refuted : ~ kfdc_exact_statement.
Proof.
  intros H. apply loop_quarter_infeasible.
  apply (H (scale_inst (1 # 4)%Q (loop_inst 1)) eq_refl loopG_wf eq_refl).
  exists (fun _ _ => 1%Z), (fun _ => (1 # 4)%Q). split; [|split].
  - intros i Hi. cbn in Hi. destruct Hi as [<-|[]].
    exists [1; 0; 0; 2]%N. split; [vm_compute; reflexivity|]. split; [reflexivity|]. split; [reflexivity|]. split.
    + intros e He. cbn in He. destruct He as [<-|[<-|[<-|[]]]]; split; try lia; vm_compute; reflexivity.
    + intros e He. cbn [pairs count_e].
      destruct (eqe (1, 0)%N e) eqn:Q1; [apply eqe_true in Q1; subst; exfalso; apply He; cbn; tauto|].
      destruct (eqe (0, 0)%N e) eqn:Q2; [apply eqe_true in Q2; subst; exfalso; apply He; cbn; tauto|].
      destruct (eqe (0, 2)%N e) eqn:Q3; [apply eqe_true in Q3; subst; exfalso; apply He; cbn; tauto|].
      reflexivity.
  - intros i _. split; [lra|discriminate].
  - intros e He. vm_compute in He. destruct He as [<-|[]]. vm_compute. reflexivity.
Qed.
