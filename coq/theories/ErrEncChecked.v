(* The C07 / C08 theorems restated with their premises replaced by EXECUTABLE checks that the extracted
   driver evaluates on every E1 instance (klaepremises / kmpepremises): WfCheck.premises_b (well-formed acyclic
   s-t graph, adjacency tables), CheckedInstances.cons_ok_b (constraints name edges, non-negative lengths),
   err_domain_b (non-negative weights, scalings in [0,1], integer type only with integer weights, at least one
   non-ignored weighted edge, k >= 1) and lengths_ok_b (non-negative integer edge lengths). *)
From Coq Require Import List NArith ZArith QArith Qabs Qround Lqa Bool Arith Lia Permutation.
Import ListNotations.
From FP Require Import Lin Blocks BlocksProofs PathEnc Euler EulerProofs1 EulerProofs4 DagDecode PathEncProofs PathEncComplete
                       WfCheck CheckedInstances ErrEnc ErrEncProofs ErrEncProofs2 ErrEncProofs3 ErrEncComplete ErrEncOptimal
                       ErrEncKlae ErrEncOptimal2.
Set Default Timeout 120.
Local Open Scope Q_scope.

Definition err_domain_b (I : err_inst) : bool :=
  forallb (fun e => Qle_bool 0 (flow_of I e) && Qle_bool 0 (scale_of I e) && Qle_bool (scale_of I e) 1 &&
                    (negb (e_int I) || qint_b (flow_of I e))) (basic_edges I)
  && match basic_edges I with [] => false | _ => true end && (1 <=? eK I)%nat.

Lemma err_domain_b_sound I : err_domain_b I = true -> err_domain I.
Proof.
  unfold err_domain_b, err_domain. rewrite !andb_true_iff. intros [[H1 H2] H3]. split; [|split].
  - rewrite forallb_forall in H1. intros e He. specialize (H1 e He). rewrite !andb_true_iff in H1.
    destruct H1 as [[[A B] C] D]. apply Qle_bool_iff in A, B, C. repeat split; try assumption.
    intros Hi. rewrite Hi in D. cbn in D. apply qint_b_sound. exact D.
  - destruct (basic_edges I); [discriminate|discriminate].
  - apply Nat.leb_le. exact H3.
Qed.

Definition lengths_ok_b (M : kmpe_inst) : bool :=
  forallb (fun e => Qle_bool 0 (plen M e) && qint_b (plen M e)) (g_edges (eG (m_err M))).
Lemma lengths_ok_b_sound M : lengths_ok_b M = true -> lengths_ok M.
Proof.
  unfold lengths_ok_b, lengths_ok. rewrite forallb_forall. intros H e He. specialize (H e He).
  apply andb_true_iff in H. destruct H as [A B]. split; [apply Qle_bool_iff; exact A|apply qint_b_sound; exact B].
Qed.

Definition klae_premises_b (I : err_inst) (order : list node) : bool :=
  premises_b (eG I) order && cons_ok_b (e_base I) && err_domain_b I.
Definition kmpe_premises_b (M : kmpe_inst) (order : list node) : bool :=
  klae_premises_b (m_err M) order && lengths_ok_b M.

Lemma klae_premises_b_sound I order : klae_premises_b I order = true ->
  wf_graph (eG I) /\ (exists rank Rm, (forall u v, In (u, v) (g_edges (eG I)) -> (rank u < rank v)%nat) /\ (forall v, (rank v <= Rm)%nat)) /\
  (forall c e, In c (p_cons (e_base I)) -> In e c -> In e (g_edges (eG I)) /\ 0 <= elen (e_base I) e) /\ err_domain I.
Proof.
  unfold klae_premises_b. rewrite !andb_true_iff. intros [[H1 H2] H3].
  destruct (premises_b_sound _ _ H1) as [WF Hr]. split; [exact WF|]. split; [exact Hr|].
  split; [apply (cons_ok_b_sound _ H2)|apply (err_domain_b_sound _ H3)].
Qed.

Lemma klae_side_of I :
  (forall c e, In c (p_cons (e_base I)) -> In e c -> In e (g_edges (eG I)) /\ 0 <= elen (e_base I) e) -> err_domain I -> klae_side I.
Proof.
  intros Hc (Hfs & Hne & Hk). split; [exact Hc|]. split; [|split; assumption].
  intros e He. destruct (Hfs e He) as (A & [B _] & C). tauto.
Qed.

(* ------------------------------------------------------------------ C07 *)
Theorem klae_optimal_checked (I : err_inst) (a : var -> Q) (order : list node) :
  klae_premises_b I order = true -> e_given I = None -> p_allow_empty (e_base I) = false ->
  sat a (encode_klae I) -> (forall b, sat b (encode_klae I) -> objective a (encode_klae I) <= objective b (encode_klae I)) ->
  (exists P w, st_paths (eG I) (eK I) P /\ adm_weights I w /\ constraints_covered (e_base I) P /\
               klae_cost I P w == objective a (encode_klae I)) /\
  (forall P w, st_paths (eG I) (eK I) P -> adm_weights I w -> constraints_covered (e_base I) P ->
               objective a (encode_klae I) <= klae_cost I P w).
Proof.
  intros Hp Hg Hae Hsat Hopt. destruct (klae_premises_b_sound I order Hp) as (WF & (rank & Rm & Hrank & HR) & Hc & Hd).
  exact (klae_optimal I a rank Rm Hg WF Hae Hrank HR (klae_side_of I Hc Hd) Hsat Hopt).
Qed.

Theorem klae_enc_sound_checked (I : err_inst) (a : var -> Q) (order : list node) :
  klae_premises_b I order = true -> e_given I = None -> p_allow_empty (e_base I) = false -> sat a (encode_klae I) ->
  let P := dec_path (eG I) a (length order) in let w := fun i => a (W i) in
  st_paths (eG I) (eK I) P /\
  (forall i, In i (layers (eK I)) -> 0 <= w i <= w_max I /\ (e_int I = true -> is_int (w i))) /\
  (forall e, In e (basic_edges I) -> klae_err I P w e <= a (Err (fst e) (snd e)) /\ a (Err (fst e) (snd e)) <= w_max I) /\
  constraints_covered (e_base I) P.
Proof.
  intros Hp Hg Hae Hsat.
  unfold klae_premises_b in Hp. rewrite !andb_true_iff in Hp. destruct Hp as [[H1 H2] _].
  destruct (premises_b_sound _ _ H1) as [WF _].
  unfold premises_b in H1. apply andb_true_iff in H1. destruct H1 as [_ Ht]. destruct (topo_ok_b_sound _ _ Ht) as [Hrank HR].
  exact (klae_decodes I a (fun v => index_of v order) (length order) Hg WF Hae Hrank HR
           (fun c e Hc He => proj1 (cons_ok_b_sound _ H2 c e Hc He)) Hsat).
Qed.

(* ------------------------------------------------------------------ C08 *)
Lemma kmpe_premises_b_sound M order : kmpe_premises_b M order = true ->
  wf_graph (eG (m_err M)) /\
  (exists rank Rm, (forall u v, In (u, v) (g_edges (eG (m_err M))) -> (rank u < rank v)%nat) /\ (forall v, (rank v <= Rm)%nat)) /\
  kmpe_side M /\ err_domain (m_err M).
Proof.
  unfold kmpe_premises_b. rewrite andb_true_iff. intros [H1 H2].
  destruct (klae_premises_b_sound _ _ H1) as (WF & Hr & Hc & Hd).
  split; [exact WF|]. split; [exact Hr|]. split; [split; [exact Hc|apply lengths_ok_b_sound; exact H2]|exact Hd].
Qed.

Theorem kmpe_feasible_iff_checked (M : kmpe_inst) (order : list node) :
  kmpe_premises_b M order = true -> e_given (m_err M) = None -> m_pieces M = [] -> p_allow_empty (e_base (m_err M)) = false ->
  ((exists a, sat a (encode_kmpe M)) <-> (exists P w sl, kmpe_choice M P w sl)).
Proof.
  intros Hp Hg Hpc Hae. destruct (kmpe_premises_b_sound M order Hp) as (WF & (rank & Rm & Hrank & HR) & Hs & _).
  exact (kmpe_feasible_iff M rank Rm Hg Hpc WF Hae Hrank HR Hs).
Qed.

Theorem kmpe_optimal_checked (M : kmpe_inst) (a : var -> Q) (order : list node) :
  kmpe_premises_b M order = true -> e_given (m_err M) = None -> m_pieces M = [] -> p_allow_empty (e_base (m_err M)) = false ->
  sat a (encode_kmpe M) -> (forall b, sat b (encode_kmpe M) -> objective a (encode_kmpe M) <= objective b (encode_kmpe M)) ->
  (exists P w sl, kmpe_choice_unbounded M P w sl /\ sumq sl (layers (eK (m_err M))) == objective a (encode_kmpe M)) /\
  (forall P w sl, kmpe_choice_unbounded M P w sl -> objective a (encode_kmpe M) <= sumq sl (layers (eK (m_err M)))).
Proof.
  intros Hp Hg Hpc Hae Hsat Hopt. destruct (kmpe_premises_b_sound M order Hp) as (WF & (rank & Rm & Hrank & HR) & Hs & Hd).
  exact (kmpe_optimal_unbounded M a rank Rm Hg Hpc WF Hae Hrank HR Hs Hd Hsat Hopt).
Qed.

Theorem kmpe_enc_sound_checked (M : kmpe_inst) (a : var -> Q) (order : list node) :
  kmpe_premises_b M order = true -> e_given (m_err M) = None -> m_pieces M = [] -> p_allow_empty (e_base (m_err M)) = false ->
  sat a (encode_kmpe M) ->
  kmpe_choice M (dec_path (eG (m_err M)) a (length order)) (fun i => a (W i)) (fun i => a (Slack i)) /\
  sumq (fun i => a (Slack i)) (layers (eK (m_err M))) == objective a (encode_kmpe M).
Proof.
  intros Hp Hg Hpc Hae Hsat.
  unfold kmpe_premises_b, klae_premises_b in Hp. rewrite !andb_true_iff in Hp. destruct Hp as [[[H1 H2] _] _].
  destruct (premises_b_sound _ _ H1) as [WF _].
  unfold premises_b in H1. apply andb_true_iff in H1. destruct H1 as [_ Ht]. destruct (topo_ok_b_sound _ _ Ht) as [Hrank HR].
  exact (kmpe_decodes M a (fun v => index_of v order) (length order) Hg Hpc WF Hae Hrank HR
           (fun c e Hc He => proj1 (cons_ok_b_sound _ H2 c e Hc He)) Hsat).
Qed.
