(* Given weights (solution_weights_superset) TOGETHER WITH subpath constraints, for kLeastAbsErrors and kMinPathError
   (row-level models ErrEnc.encode_klae / encode_kmpe with e_given = Some ws and p_cons <> []).  With given weights a layer
   may be empty (allow_empty_paths); a constraint is realised by ONE layer to the required fraction -- for an empty layer the
   covered length is 0, so the definition PathEncComplete.constraints_covered applies verbatim with P i = [].
   Path block: PathEncGivenComplete.kfdw_complete on the constraint-free copy of the base (every edge ignored) gives the
   10a/10c rows with "<= 1" and the path-count row; constraint block: PathEncComplete.sat_cons_cols / sat_cons_rows, which need
   nothing about the layers but the coverage inequality of the chosen layer. *)
From Coq Require Import List NArith ZArith QArith Qabs Qround Lqa Bool Arith Lia Permutation.
Import ListNotations.
From FP Require Import Lin Blocks BlocksProofs PathEnc Aug AugProofs Euler EulerProofs1 EulerProofs2 EulerProofs4 DagDecode
                       PathEncProofs PathEncComplete PathCoverComplete PathEncGiven PathEncGivenComplete
                       ErrEnc ErrEncProofs ErrEncProofs3 ErrEncComplete ErrEncOptimal ErrEncKlae ErrEncGiven ErrEncGivenMpe.
Set Default Timeout 120.
Local Open Scope Q_scope.

Definition nocons (B : path_inst) : path_inst :=
  {| p_graph := p_graph B; p_k := p_k B; p_allow_empty := p_allow_empty B; p_cons := []; p_cov := p_cov B; p_len := p_len B |}.
Definition dummy0 (I : err_inst) : kfd_inst :=
  {| f_base := nocons (e_base I); f_flow := []; f_ignore := g_edges (eG I); f_wmax := 0; f_int := false |}.

Lemma all_ignored0 I e : In e (g_edges (p_graph (f_base (dummy0 I)))) -> mem_edge e (f_ignore (dummy0 I)) = false -> False.
Proof. intros He H. cbn [dummy0 f_ignore f_base nocons p_graph] in *. apply (proj2 (mem_edge_In e _)) in He. unfold eG in H. congruence. Qed.

(* the base block (paths with "<= 1", constraints) and the path-count row under the indicator assignment, for layers that
   are empty or a path and constraints covered by the layer ch j *)
Lemma base_sat_given (I : err_inst) (ws : list Q) (P : N -> list node) (ch : N -> N) :
  wf_graph (eG I) -> p_allow_empty (e_base I) = true -> length ws = eK I ->
  given_layers (eG I) (eK I) P -> (sumz (used P) (layers (eK I)) <= Z.of_nat (e_korig I))%Z ->
  (forall c e, In c (p_cons (e_base I)) -> In e c -> 0 <= elen (e_base I) e) ->
  (forall n c, nth_error (p_cons (e_base I)) n = Some c ->
     In (ch (N.of_nat n)) (layers (eK I)) /\
     cons_length (e_base I) c * p_cov (e_base I) <= sumq (fun e => elen (e_base I) e * indq (mem_edge e (pairs (P (ch (N.of_nat n)))))) c) ->
  Forall (sat_col (asg P (fun _ => 0) ch)) (base_cols (e_base I)) /\ Forall (sat_row (asg P (fun _ => 0) ch)) (base_rows (e_base I)) /\
  sat_row (asg P (fun _ => 0) ch) (row_max_paths I).
Proof.
  intros WF Hae Hlen HL Hcount Hel Hch.
  pose proof (kfdw_complete (dummy0 I) ws (e_korig I) P WF Hae eq_refl Hlen HL
                (fun e He Hig => False_ind _ (all_ignored0 I e He Hig)) Hcount) as [DC DR].
  unfold encode_kfd_given in DC, DR. cbn [cols rows] in DC, DR. rewrite Forall_app in DR. destruct DR as [DRb DRg].
  unfold base_cols, base_rows in DC, DRb. cbn [dummy0 f_base nocons p_graph p_k p_allow_empty p_cons cons_cols cons_rows] in DC, DRb.
  rewrite app_nil_r in DC, DRb.
  assert (Ag : forall v, vfam v = fEdge -> asg P (fun _ => 0) (fun _ => 0%N) v = asg P (fun _ => 0) ch v).
  { intros [f idx] Hf. cbn [vfam] in Hf. subst f. unfold asg. cbn [vfam vidx]. destruct idx as [|a [|b [|c [|d r]]]]; reflexivity. }
  assert (EC : Forall (sat_col (asg P (fun _ => 0) ch)) (edge_cols (eG I) (eK I))).
  { rewrite Forall_forall in DC |- *. intros c Hc. apply (sat_col_ext (asg P (fun _ => 0) (fun _ => 0%N))); [|apply DC; exact Hc].
    apply Ag. unfold edge_cols in Hc. apply in_flat_map in Hc. destruct Hc as (i & _ & Hc). apply in_map_iff in Hc. destruct Hc as (e & <- & _). reflexivity. }
  assert (PR : Forall (sat_row (asg P (fun _ => 0) ch)) (path_rows (eG I) (eK I) (p_allow_empty (e_base I)))).
  { rewrite Forall_forall in DRb |- *. intros r Hr. apply (sat_row_ext (asg P (fun _ => 0) (fun _ => 0%N))); [|apply DRb; exact Hr].
    intros t Ht. apply Ag.
    assert (Hb : In r (base_rows (nocons (e_base I)))) by (unfold base_rows; cbn [nocons p_graph p_k p_allow_empty p_cons cons_rows]; rewrite app_nil_r; exact Hr).
    destruct (base_rows_fams (nocons (e_base I)) r t Hb Ht) as [F|F]; [exact F|].
    exfalso. unfold path_rows in Hr. apply in_app_or in Hr. destruct Hr as [Hr|Hr].
    - apply in_map_iff in Hr. destruct Hr as (i & <- & _). unfold row_10a, mkrow in Ht. cbn [lhs] in Ht. apply in_map_iff in Ht. destruct Ht as (v & <- & _). discriminate F.
    - apply in_flat_map in Hr. destruct Hr as (i & _ & Hr). apply in_map_iff in Hr. destruct Hr as (v & <- & _).
      unfold row_10c, mkrow in Ht. cbn [lhs] in Ht. apply in_app_or in Ht. destruct Ht as [Ht|Ht]; apply in_map_iff in Ht; destruct Ht as (u & <- & _); discriminate F. }
  split; [|split].
  - unfold base_cols. apply Forall_app. split; [exact EC|]. apply (sat_cons_cols (mk_kfd (e_base I)) P (fun _ => 0) ch Hel Hch).
  - unfold base_rows. apply Forall_app. split; [exact PR|]. apply (sat_cons_rows (mk_kfd (e_base I)) P (fun _ => 0) ch Hel Hch).
  - assert (R : sat_row (asg P (fun _ => 0) (fun _ => 0%N)) (row_max_paths I)).
    { rewrite Forall_forall in DRg. apply DRg. unfold kfdw_rows. apply in_or_app. right. left. reflexivity. }
    apply (sat_row_ext _ _ (row_max_paths I) (fun t (Ht : In t (src_out_terms (eG I) (eK I))) => Ag (fst t) (src_terms_fam _ _ t Ht)) R).
Qed.

(* ------------------------------------------------------------------ kLeastAbsErrors *)
Definition gasgc (I : err_inst) (ws : list Q) (P : N -> list node) (ch : N -> N) (x : var) : Q :=
  match vidx x with
  | [u; v; i] => if (vfam x =? fEdge)%N then onq P i (u, v) else 0
  | [p; q] => if (vfam x =? fErr)%N then gerr I ws P (p, q) else if (vfam x =? fR)%N then indq (p =? ch q)%N else 0
  | _ => 0
  end.
Lemma gasgc_agrees I ws P ch v : vfam v = fEdge \/ vfam v = fR -> asg P (fun _ => 0) ch v = gasgc I ws P ch v.
Proof.
  intros H. unfold asg, gasgc, onq, on. destruct v as [f idx]. cbn [vfam vidx] in *.
  destruct H as [-> | ->]; destruct idx as [|a [|b [|c [|d r]]]]; reflexivity.
Qed.

Definition cons_nonneg (B : path_inst) : Prop := forall c e, In c (p_cons B) -> In e c -> 0 <= elen B e.

Theorem klae_given_complete_cons (I : err_inst) (ws : list Q) (P : N -> list node) :
  e_given I = Some ws -> wf_graph (eG I) -> p_allow_empty (e_base I) = true -> length ws = eK I -> cons_nonneg (e_base I) ->
  klae_given_choice I ws P -> constraints_covered (e_base I) P ->
  exists a, sat a (encode_klae I) /\ objective a (encode_klae I) == gcost I ws P /\ (forall u v i, a (Edge u v i) = onq P i (u, v)).
Proof.
  intros Hg WF Hae Hlen Hel (HL & Hcount & Herr) Hcov.
  destruct (finite_choice (p_cons (e_base I))
              (fun n c i => In i (layers (eK I)) /\
                 cons_length (e_base I) c * p_cov (e_base I) <= sumq (fun e => elen (e_base I) e * indq (mem_edge e (pairs (P i)))) c)
              Hcov) as (ch & Hch).
  destruct (base_sat_given I ws P ch WF Hae Hlen HL Hcount Hel Hch) as (BC0 & BR0 & RM0).
  set (a := gasgc I ws P ch).
  destruct (base_transfer (e_base I) _ a (gasgc_agrees I ws P ch) (conj BC0 BR0)) as [BC BR].
  assert (Aerr : forall e, a (Err (fst e) (snd e)) = gerr I ws P e).
  { intros e. unfold a, gasgc, Err. cbn [vidx vfam]. rewrite <- surjective_pairing. reflexivity. }
  exists a. split; [split|split; [|reflexivity]].
  - unfold encode_klae. cbn [cols]. unfold klae_cols. rewrite Hg. apply Forall_app. split; [exact BC|].
    unfold err_cols. apply Forall_forall. intros c Hc. apply in_map_iff in Hc. destruct Hc as (e & <- & He).
    unfold sat_col, wcol_. cbn [cvar clb cub cint]. rewrite Aerr. destruct (Herr e He) as [E1 E2].
    split; [apply Qabs_nonneg|split; [exact E1|exact E2]].
  - unfold encode_klae. cbn [rows]. unfold klae_rows. rewrite Hg. rewrite !Forall_app. split; [exact BR|]. split.
    + apply Forall_flat_map. intros e He.
      assert (HS : forall c, eval a (map (fun iw => (Edge (fst e) (snd e) (fst iw), c (snd iw))) (zipn 0 ws))
                   == sumq (fun iw => c (snd iw) * onq P (fst iw) e) (zipn 0 ws)).
      { intros c. rewrite (eval_map_coef a (fun iw => Edge (fst e) (snd e) (fst iw)) (fun iw => c (snd iw))).
        apply sumq_ext. intros iw _. change (a (Edge (fst e) (snd e) (fst iw))) with (onq P (fst iw) (fst e, snd e)). rewrite <- surjective_pairing. reflexivity. }
      assert (HN : sumq (fun iw => - snd iw * onq P (fst iw) e) (zipn 0 ws) == - sumq (fun iw => snd iw * onq P (fst iw) e) (zipn 0 ws)).
      { generalize (zipn 0 ws). intros l. induction l as [|x l IH]; cbn [sumq]; [ring|]. rewrite IH. ring. }
      pose proof (Qle_Qabs (flow_of I e - sumq (fun iw => snd iw * onq P (fst iw) e) (zipn 0 ws))) as A1.
      pose proof (Qle_Qabs (- (flow_of I e - sumq (fun iw => snd iw * onq P (fst iw) e) (zipn 0 ws)))) as A2.
      rewrite Qabs_opp in A2. fold (gerr I ws P e) in A1, A2.
      constructor; [|constructor; [|constructor]]; unfold sat_row, row_9aa_given, row_9ab_given, mkrow; cbn [sns lhs rhs];
        rewrite eval_app.
      * rewrite (HS (fun q => - q)), HN. cbn [eval fst snd]. rewrite Aerr. lra.
      * rewrite (HS (fun q => q)). cbn [eval fst snd]. rewrite Aerr. lra.
    + constructor; [|constructor].
      apply (sat_row_ext _ a (row_max_paths I) (fun t (Ht : In t (src_out_terms (eG I) (eK I))) => gasgc_agrees I ws P ch (fst t) (or_introl (src_terms_fam _ _ t Ht))) RM0).
  - rewrite (klae_objective_value I a). unfold gcost. apply sumq_ext. intros e _. rewrite Aerr. reflexivity.
Qed.

(* decoding: the constraints are realised by the decoded layers *)
Lemma given_decoded_onq (I : err_inst) (ws : list Q) (a : var -> Q) (rank : node -> nat) (Rm : nat) :
  wf_graph (eG I) -> p_allow_empty (e_base I) = true -> length ws = eK I ->
  (forall u v, In (u, v) (g_edges (eG I)) -> (rank u < rank v)%nat) -> (forall v, (rank v <= Rm)%nat) ->
  sat a (encode_kfd_given (dummy_kfd I) ws (e_korig I)) ->
  forall i e, In i (layers (eK I)) -> In e (g_edges (eG I)) -> onq (dec_given (eG I) a Rm) i e == a (Edge (fst e) (snd e) i).
Proof.
  intros WF Hae Hlen Hrank HR HD i e Hi He.
  pose proof (given_layer_empty_or_path (dummy_kfd I) ws (e_korig I) a WF Hae Hlen HD rank Rm i Hrank HR Hi) as Hlay.
  cbn [dummy_kfd f_base] in Hlay.
  pose proof (g_bin (dummy_kfd I) ws (e_korig I) a HD i e Hi He) as Hb. cbn [dummy_kfd f_base] in Hb.
  destruct (xval_bin a i e Hb) as [EQ _]. rewrite EQ. unfold onq, dec_given, dec_path.
  destruct Hlay as [(H0 & Hz & _)|(H1 & p & D & L & Pm)].
  - unfold eG in *. rewrite H0. cbn [Z.eqb]. rewrite (Hz e He). reflexivity.
  - unfold eG in *. rewrite H1. cbn [Z.eqb]. rewrite D. apply (indq_xval (g_edges (p_graph (e_base I)))); [exact Hb|exact Pm|exact He].
Qed.

Lemma klae_given_HD (I : err_inst) (ws : list Q) (a : var -> Q) :
  e_given I = Some ws -> sat a (encode_klae I) -> sat a (encode_kfd_given (dummy_kfd I) ws (e_korig I)).
Proof.
  intros Hg [HC HRw]. unfold encode_klae in HC, HRw. cbn [cols rows] in HC, HRw. unfold klae_cols, klae_rows in HC, HRw.
  rewrite Hg in HC, HRw. rewrite Forall_app in HC. rewrite !Forall_app in HRw. destruct HC as [HCb _]. destruct HRw as (HRb & _ & HRm).
  split; [exact HCb|]. unfold encode_kfd_given. cbn [rows]. apply Forall_app. split; [exact HRb|].
  unfold kfdw_rows. apply Forall_app. split; [|exact HRm].
  apply Forall_forall. intros r Hr. apply in_map_iff in Hr. destruct Hr as (e & _ & He). apply filter_In in He. destruct He as [He Hn].
  exfalso. apply negb_true_iff in Hn. exact (all_ignored I e He Hn).
Qed.

Lemma given_constraints_decoded (I : err_inst) (ws : list Q) (a : var -> Q) (rank : node -> nat) (Rm : nat) :
  wf_graph (eG I) -> p_allow_empty (e_base I) = true -> length ws = eK I ->
  (forall u v, In (u, v) (g_edges (eG I)) -> (rank u < rank v)%nat) -> (forall v, (rank v <= Rm)%nat) ->
  (forall c e, In c (p_cons (e_base I)) -> In e c -> In e (g_edges (eG I))) ->
  sat a (encode_kfd_given (dummy_kfd I) ws (e_korig I)) ->
  constraints_covered (e_base I) (dec_given (eG I) a Rm).
Proof.
  intros WF Hae Hlen Hrank HR HcE HD n c Hn. pose proof HD as [Hc Hr].
  unfold encode_kfd_given in Hc, Hr. cbn [cols rows dummy_kfd f_base] in Hc, Hr. rewrite Forall_app in Hr. destruct Hr as [Hr _].
  destruct (cons_rows_sound (e_base I) a Hc Hr n c Hn) as (i & Hi & Hcv). exists i. split; [exact Hi|].
  assert (E1 : sumq (fun e => elen (e_base I) e * indq (mem_edge e (pairs (dec_given (eG I) a Rm i)))) c ==
               sumq (fun e => elen (e_base I) e * a (Edge (fst e) (snd e) i)) c).
  { apply sumq_ext. intros e He.
    assert (HeE : In e (g_edges (eG I))) by (apply (HcE c e); [apply nth_error_In with n; exact Hn|exact He]).
    pose proof (given_decoded_onq I ws a rank Rm WF Hae Hlen Hrank HR HD i e Hi HeE) as Q. unfold onq in Q. rewrite Q. reflexivity. }
  rewrite E1. exact Hcv.
Qed.

Theorem klae_given_optimal_cons (I : err_inst) (ws : list Q) (a : var -> Q) (rank : node -> nat) (Rm : nat) :
  e_given I = Some ws -> wf_graph (eG I) -> p_allow_empty (e_base I) = true -> length ws = eK I ->
  (forall u v, In (u, v) (g_edges (eG I)) -> (rank u < rank v)%nat) -> (forall v, (rank v <= Rm)%nat) ->
  (forall c e, In c (p_cons (e_base I)) -> In e c -> In e (g_edges (eG I)) /\ 0 <= elen (e_base I) e) ->
  (forall e, In e (basic_edges I) -> 0 <= scale_of I e /\ (e_int I = true -> is_int (flow_of I e))) ->
  (e_int I = true -> forall q, In q ws -> is_int q) ->
  sat a (encode_klae I) -> (forall b, sat b (encode_klae I) -> objective a (encode_klae I) <= objective b (encode_klae I)) ->
  (exists P, klae_given_choice I ws P /\ constraints_covered (e_base I) P /\ gcost I ws P == objective a (encode_klae I)) /\
  (forall P, klae_given_choice I ws P -> constraints_covered (e_base I) P -> objective a (encode_klae I) <= gcost I ws P).
Proof.
  intros Hg WF Hae Hlen Hrank HR Hcons Hdom Hwsint Hsat Hopt.
  assert (Hel : cons_nonneg (e_base I)) by (intros c e Hc He; apply (Hcons c e Hc He)).
  split.
  - destruct (klae_given_decodes I ws a rank Rm Hg WF Hae Hlen Hrank HR Hsat) as (HL & Hcount & Hd).
    pose proof (given_constraints_decoded I ws a rank Rm WF Hae Hlen Hrank HR (fun c e Hc He => proj1 (Hcons c e Hc He)) (klae_given_HD I ws a Hg Hsat)) as Hcov.
    set (P := dec_given (eG I) a Rm) in *.
    assert (Hch : klae_given_choice I ws P).
    { split; [exact HL|]. split; [exact Hcount|]. intros e He. destruct (Hd e He) as (D1 & D2 & _). split; [lra|].
      intros Hint. unfold gerr. apply is_int_abs. apply is_int_plus; [apply (Hdom e He); exact Hint|].
      apply is_int_opp. apply sumq_is_int. intros [i q] Hiq. cbn [fst snd].
      apply is_int_mult; [|apply onq_int]. apply (Hwsint Hint).
      destruct (in_zipn _ _ _ _ Hiq) as (n & _ & _ & Hn). rewrite Nat.sub_0_r in Hn. apply (nth_error_In _ _ Hn). }
    exists P. split; [exact Hch|]. split; [exact Hcov|].
    destruct (klae_given_complete_cons I ws P Hg WF Hae Hlen Hel Hch Hcov) as (b & Sb & Ob & _).
    apply Qle_antisym.
    + rewrite (klae_objective_value I a). unfold gcost. apply sumq_le_mono. intros e He.
      destruct (Hdom e He) as (S0 & _). destruct (Hd e He) as (D1 & _).
      assert (H2 : 0 <= scale_of I e * (a (Err (fst e) (snd e)) - gerr I ws P e)) by (apply Qmult_le_0_compat; lra). lra.
    + rewrite <- Ob. apply Hopt. exact Sb.
  - intros P Hch Hcov. destruct (klae_given_complete_cons I ws P Hg WF Hae Hlen Hel Hch Hcov) as (b & Sb & Ob & _).
    rewrite <- Ob. apply Hopt. exact Sb.
Qed.

(* ------------------------------------------------------------------ kMinPathError *)
Definition gmasgc (M : kmpe_inst) (P : N -> list node) (sl : N -> Q) (ch : N -> N) (x : var) : Q :=
  let G := eG (m_err M) in
  match vidx x with
  | [u; v; i] => if (vfam x =? fEdge)%N then onq P i (u, v)
                 else if (vfam x =? fGamma)%N then sl i * onq P i (u, v)
                 else if (vfam x =? fPos)%N then sumq (fun e' => plen M e' * onq P i e') (rev_edges G u)
                 else 0
  | [p; q] => if (vfam x =? fR)%N then indq (p =? ch q)%N else 0
  | [i] => if (vfam x =? fSlack)%N then sl i
           else if (vfam x =? fLen)%N then sumq (fun e' => plen M e' * onq P i e') (g_edges G)
           else 0
  | _ => 0
  end.

Lemma gmasgc_agrees M P sl ch v : vfam v = fEdge \/ vfam v = fR -> asg P (fun _ => 0) ch v = gmasgc M P sl ch v.
Proof.
  intros H. unfold asg, gmasgc, onq, on. destruct v as [f idx]. cbn [vfam vidx] in *.
  destruct H as [-> | ->]; destruct idx as [|a [|b [|c [|d r]]]]; reflexivity.
Qed.

Section GivenMpeCons.
  Variable M : kmpe_inst.
  Local Notation I := (m_err M).
  Variable ws : list Q.
  Variable P : N -> list node.
  Variable sl : N -> Q.
  Hypothesis Hg : e_given I = Some ws.
  Hypothesis Hpc : m_pieces M = [].
  Hypothesis WF : wf_graph (eG I).
  Hypothesis Hae : p_allow_empty (e_base I) = true.
  Variable ch : N -> N.
  Hypothesis Hel : cons_nonneg (e_base I).
  Hypothesis Hcv : forall n c, nth_error (p_cons (e_base I)) n = Some c ->
     In (ch (N.of_nat n)) (layers (eK I)) /\
     cons_length (e_base I) c * p_cov (e_base I) <= sumq (fun e => elen (e_base I) e * indq (mem_edge e (pairs (P (ch (N.of_nat n)))))) c.
  Hypothesis Hlen : length ws = eK I.
  Hypothesis Hpl : lengths_ok M.
  Hypothesis Hch : kmpe_given_choice M ws P sl.

  Let a := gmasgc M P sl ch.
  Lemma gc_edge u v i : a (Edge u v i) = onq P i (u, v). Proof. reflexivity. Qed.
  Lemma gc_gamma u v i : a (Gamma u v i) = sl i * onq P i (u, v). Proof. reflexivity. Qed.
  Lemma gc_pos u v i : a (Pos u v i) = sumq (fun e' => plen M e' * onq P i e') (rev_edges (eG I) u). Proof. reflexivity. Qed.
  Lemma gc_slack i : a (Slack i) = sl i. Proof. reflexivity. Qed.
  Lemma gc_len i : a (Len i) = sumq (fun e' => plen M e' * onq P i e') (g_edges (eG I)). Proof. reflexivity. Qed.

  Lemma gc_no_factors : has_factors M = false. Proof. unfold has_factors. rewrite Hpc. reflexivity. Qed.
  Lemma gc_term_nonneg i e : In e (g_edges (eG I)) -> 0 <= plen M e * onq P i e.
  Proof. intros He. pose proof (Hpl e He) as [P0 _]. pose proof (onq01 P i e). apply Qmult_le_0_compat; lra. Qed.

  Lemma kmpe_given_complete_ch : sat a (encode_kmpe M) /\ objective a (encode_kmpe M) == sumq sl (layers (eK I)).
  Proof.
    destruct Hch as (HL & Hcount & Hs & Herr).
    destruct (base_sat_given I ws P ch WF Hae Hlen HL Hcount Hel Hcv) as (DC & DRb & RM0).
    destruct (base_transfer (e_base I) _ a (gmasgc_agrees M P sl ch) (conj DC DRb)) as [BC BR].
    split; [split|].
    - unfold encode_kmpe. cbn [cols]. unfold kmpe_cols, factor_cols. rewrite Hg, gc_no_factors, app_nil_r.
      rewrite !Forall_app. split; [exact BC|]. split.
      + unfold pos_cols. apply Forall_app. split.
        * apply Forall_forall. intros c Hc. apply in_map_iff in Hc. destruct Hc as ([i e] & <- & Hie).
          unfold all_ik in Hie. apply in_flat_map in Hie. destruct Hie as (i' & Hi & Hie). apply in_map_iff in Hie.
          destruct Hie as (e' & E & He). injection E as <- <-. cbn [fst snd].
          unfold sat_col, icol. cbn [cvar clb cub cint]. rewrite gc_pos.
          pose proof (sumq_filter_le (fun e0 => plen M e0 * onq P i' e0) (fun e0 => mem_node (snd e0) (nodes_reaching (eG I) (fst e'))) (g_edges (eG I))
                        (fun e0 He0 => gc_term_nonneg i' e0 He0)) as FL.
          pose proof (len_bound_layer M P i' WF Hpl (HL i' Hi)) as LB. unfold rev_edges.
          split; [exact (proj1 FL)|split; [eapply Qle_trans; [exact (proj2 FL)|exact LB]|]].
          intros _. apply sumq_is_int. intros e0 He0. apply filter_In in He0. destruct He0 as [He0 _].
          apply is_int_mult; [apply (Hpl e0 He0)|apply onq_int].
        * apply Forall_forall. intros c Hc. apply in_map_iff in Hc. destruct Hc as (i & <- & Hi).
          unfold sat_col, icol. cbn [cvar clb cub cint]. rewrite gc_len.
          split; [apply ErrEncProofs3.sumq_nonneg; intros e He; apply (gc_term_nonneg i e He)|split; [apply (len_bound_layer M P i WF Hpl (HL i Hi))|]].
          intros _. apply sumq_is_int. intros e0 He0. apply is_int_mult; [apply (Hpl e0 He0)|apply onq_int].
      + unfold slack_cols. apply Forall_app. split.
        * apply Forall_forall. intros c Hc. apply in_map_iff in Hc. destruct Hc as (i & <- & Hi).
          unfold sat_col, wcol_. cbn [cvar clb cub cint]. rewrite gc_slack. destruct (Hs i Hi) as (S1 & S2). tauto.
        * apply Forall_forall. intros c Hc. apply in_map_iff in Hc. destruct Hc as ([i e] & <- & Hie).
          unfold all_ik in Hie. apply in_flat_map in Hie. destruct Hie as (i' & Hi & Hie). apply in_map_iff in Hie.
          destruct Hie as (e' & E & He). injection E as <- <-. cbn [fst snd].
          unfold sat_col, ccol. cbn [cvar clb cub cint]. rewrite gc_gamma, <- surjective_pairing.
          destruct (Hs i' Hi) as ([S1 S2] & _). pose proof (onq01 P i' e') as O.
          assert (H2 : 0 <= sl i' * onq P i' e') by (apply Qmult_le_0_compat; lra).
          assert (H3 : 0 <= sl i' * (1 - onq P i' e')) by (apply Qmult_le_0_compat; lra).
          split; [exact H2|split; [lra|intros D; discriminate D]].
    - unfold encode_kmpe. cbn [rows]. unfold kmpe_rows, factor_rows. rewrite Hg, gc_no_factors. cbn [app].
      rewrite !Forall_app. split; [exact BR|]. split; [|split].
      + unfold pos_rows. apply Forall_app. split.
        * apply Forall_flat_map. intros i Hi. apply Forall_forall. intros r Hr. apply in_map_iff in Hr. destruct Hr as (e & <- & He).
          unfold sat_row, row_pos, mkrow. cbn [sns lhs rhs eval fst snd].
          rewrite (eval_map_coef a (fun e' => Edge (fst e') (snd e') i) (fun e' => - plen M e')), gc_pos.
          assert (E : sumq (fun e' => - plen M e' * a (Edge (fst e') (snd e') i)) (rev_edges (eG I) (fst e))
                      == - sumq (fun e' => plen M e' * onq P i e') (rev_edges (eG I) (fst e))).
          { generalize (rev_edges (eG I) (fst e)). intros l. induction l as [|e' l IH]; cbn [sumq]; [ring|].
            rewrite IH, gc_edge, <- surjective_pairing. ring. }
          rewrite E. ring.
        * apply Forall_forall. intros r Hr. apply in_map_iff in Hr. destruct Hr as (i & <- & Hi).
          unfold sat_row, row_len, mkrow. cbn [sns lhs rhs eval fst snd].
          rewrite (eval_map_coef a (fun e' => Edge (fst e') (snd e') i) (fun e' => - plen M e')), gc_len.
          assert (E : sumq (fun e' => - plen M e' * a (Edge (fst e') (snd e') i)) (g_edges (eG I))
                      == - sumq (fun e' => plen M e' * onq P i e') (g_edges (eG I))).
          { generalize (g_edges (eG I)). intros l. induction l as [|e' l IH]; cbn [sumq]; [ring|].
            rewrite IH, gc_edge, <- surjective_pairing. ring. }
          rewrite E. ring.
      + apply Forall_flat_map. intros e He. unfold kmpe_edge_rows. rewrite Hg. rewrite Forall_app. split.
        * unfold gamma_prod_rows. apply Forall_flat_map. intros i Hi.
          assert (SV : slack_var M i = Slack i) by (unfold slack_var; rewrite gc_no_factors; reflexivity). rewrite SV.
          apply (mcc_rows_exact a _ _ _ 0 (w_max I)).
          -- rewrite gc_edge, <- surjective_pairing. unfold onq. destruct (mem_edge e (pairs (P i))); [right|left]; reflexivity.
          -- rewrite gc_slack. apply (Hs i Hi).
          -- rewrite gc_gamma, gc_edge, gc_slack. ring.
        * assert (HS : eval a (map (fun iw => (Edge (fst e) (snd e) (fst iw), - (scale_of I e * snd iw))) (zipn 0 ws))
                       == - (scale_of I e * gexpl ws P e)).
          { rewrite (eval_map_coef a (fun iw => Edge (fst e) (snd e) (fst iw)) (fun iw => - (scale_of I e * snd iw))).
            unfold gexpl. generalize (zipn 0 ws). intros l. induction l as [|x l IH]; cbn [sumq]; [ring|].
            rewrite IH, gc_edge, <- surjective_pairing. ring. }
          assert (HGa : sumq (fun i => a (Gamma (fst e) (snd e) i)) (layers (eK I)) == sumq (fun i => sl i * onq P i e) (layers (eK I))).
          { apply sumq_ext. intros i _. rewrite gc_gamma, <- surjective_pairing. reflexivity. }
          pose proof (Herr e He) as HE. apply Qabs_le_iff in HE.
          constructor; [|constructor; [|constructor]]; unfold sat_row, mrow_9aa_given, mrow_9ab_given, mkrow, gamma_terms; cbn [sns lhs rhs];
            rewrite eval_app, HS.
          -- rewrite (eval_map_const a (fun i => Gamma (fst e) (snd e) i) (- (1))), HGa. lra.
          -- rewrite (eval_map_const a (fun i => Gamma (fst e) (snd e) i) 1), HGa. lra.
      + constructor; [|constructor].
        apply (sat_row_ext _ a (row_max_paths I) (fun t (Ht : In t (src_out_terms (eG I) (eK I))) => gmasgc_agrees M P sl ch (fst t) (or_introl (src_terms_fam _ _ t Ht))) RM0).
    - unfold objective, encode_kmpe. cbn [obj]. unfold kmpe_obj. rewrite (eval_map_const a Slack 1).
      assert (E : sumq (fun i => a (Slack i)) (layers (eK I)) == sumq sl (layers (eK I))) by (apply sumq_ext; intros i _; rewrite gc_slack; reflexivity).
      rewrite E. ring.
  Qed.
End GivenMpeCons.

Theorem kmpe_given_complete_cons (M : kmpe_inst) (ws : list Q) (P : N -> list node) (sl : N -> Q) :
  e_given (m_err M) = Some ws -> m_pieces M = [] -> wf_graph (eG (m_err M)) -> p_allow_empty (e_base (m_err M)) = true ->
  length ws = eK (m_err M) -> lengths_ok M -> cons_nonneg (e_base (m_err M)) ->
  kmpe_given_choice M ws P sl -> constraints_covered (e_base (m_err M)) P ->
  exists a, sat a (encode_kmpe M) /\ objective a (encode_kmpe M) == sumq sl (layers (eK (m_err M))) /\
            (forall u v i, a (Edge u v i) = onq P i (u, v)) /\ (forall i, a (Slack i) = sl i).
Proof.
  intros Hg Hpc WF Hae Hlen Hpl Hel Hch Hcov.
  destruct (finite_choice (p_cons (e_base (m_err M)))
              (fun n c i => In i (layers (eK (m_err M))) /\
                 cons_length (e_base (m_err M)) c * p_cov (e_base (m_err M)) <= sumq (fun e => elen (e_base (m_err M)) e * indq (mem_edge e (pairs (P i)))) c)
              Hcov) as (ch & Hcv).
  destruct (kmpe_given_complete_ch M ws P sl Hg Hpc WF Hae ch Hel Hcv Hlen Hpl Hch) as [S O].
  exists (gmasgc M P sl ch). split; [exact S|]. split; [exact O|]. split; reflexivity.
Qed.

Lemma kmpe_given_HD (M : kmpe_inst) (ws : list Q) (a : var -> Q) :
  e_given (m_err M) = Some ws -> m_pieces M = [] -> sat a (encode_kmpe M) ->
  sat a (encode_kfd_given (dummy_kfd (m_err M)) ws (e_korig (m_err M))).
Proof.
  intros Hg Hpc Hsat. set (I := m_err M) in *.
  assert (HF : has_factors M = false) by (unfold has_factors; rewrite Hpc; reflexivity).
  pose proof Hsat as [HC HRw]. unfold encode_kmpe in HC, HRw. cbn [cols rows] in HC, HRw. unfold kmpe_cols, kmpe_rows, factor_cols, factor_rows in HC, HRw.
  fold I in HC, HRw. rewrite Hg, HF in HC, HRw. cbn [app] in HRw. rewrite app_nil_r in HC.
  rewrite !Forall_app in HC. rewrite !Forall_app in HRw. destruct HC as (HCb & HCp & HCs). destruct HRw as (HRb & HRp & HRe & HRm).
  split; [exact HCb|]. unfold encode_kfd_given. cbn [rows]. apply Forall_app. split; [exact HRb|].
  unfold kfdw_rows. apply Forall_app. split; [|exact HRm].
  apply Forall_forall. intros r Hr. apply in_map_iff in Hr. destruct Hr as (e & _ & He). apply filter_In in He. destruct He as [He Hn].
  exfalso. apply negb_true_iff in Hn. exact (all_ignored I e He Hn).
Qed.

Theorem kmpe_given_optimal_cons (M : kmpe_inst) (ws : list Q) (a : var -> Q) (rank : node -> nat) (Rm : nat) :
  e_given (m_err M) = Some ws -> m_pieces M = [] -> wf_graph (eG (m_err M)) -> p_allow_empty (e_base (m_err M)) = true ->
  length ws = eK (m_err M) -> lengths_ok M ->
  (forall u v, In (u, v) (g_edges (eG (m_err M))) -> (rank u < rank v)%nat) -> (forall v, (rank v <= Rm)%nat) ->
  (forall c e, In c (p_cons (e_base (m_err M))) -> In e c -> In e (g_edges (eG (m_err M))) /\ 0 <= elen (e_base (m_err M)) e) ->
  sat a (encode_kmpe M) -> (forall b, sat b (encode_kmpe M) -> objective a (encode_kmpe M) <= objective b (encode_kmpe M)) ->
  (exists P sl, kmpe_given_choice M ws P sl /\ constraints_covered (e_base (m_err M)) P /\
                sumq sl (layers (eK (m_err M))) == objective a (encode_kmpe M)) /\
  (forall P sl, kmpe_given_choice M ws P sl -> constraints_covered (e_base (m_err M)) P ->
                objective a (encode_kmpe M) <= sumq sl (layers (eK (m_err M)))).
Proof.
  intros Hg Hpc WF Hae Hlen Hpl Hrank HR Hcons Hsat Hopt.
  assert (Hel : cons_nonneg (e_base (m_err M))) by (intros c e Hc He; apply (Hcons c e Hc He)).
  split.
  - destruct (kmpe_given_decodes M ws a rank Rm Hg Hpc WF Hae Hlen Hrank HR Hsat) as [C O].
    pose proof (given_constraints_decoded (m_err M) ws a rank Rm WF Hae Hlen Hrank HR (fun c e Hc He => proj1 (Hcons c e Hc He))
                  (kmpe_given_HD M ws a Hg Hpc Hsat)) as Hcov.
    eexists _, _. split; [exact C|]. split; [exact Hcov|exact O].
  - intros P sl Hch Hcov. destruct (kmpe_given_complete_cons M ws P sl Hg Hpc WF Hae Hlen Hpl Hel Hch Hcov) as (b & Sb & Ob & _).
    rewrite <- Ob. apply Hopt. exact Sb.
Qed.

(* ------------------------------------------------------------------ non-vacuity: given weights [2;5], one constraint, the second layer EMPTY *)
From FP Require Import ErrEncProofs2.
Definition wit_base_gc : path_inst :=
  {| p_graph := wit_graph; p_k := 2; p_allow_empty := true; p_cons := [[(1, 2); (2, 3)]%N]; p_cov := 1%Q; p_len := None |}.
Definition wit_gc : err_inst :=
  {| e_base := wit_base_gc; e_flow := [((1, 2)%N, 2); ((2, 3)%N, 0)]; e_user_ignore := []; e_scale := [];
     e_int := true; e_given := Some [2; 5]; e_korig := 1 |}.
Definition wit_gc_P (i : N) : list node := match i with 0%N => [0; 1; 2; 3; 4]%N | _ => [] end.
Definition wit_gc_M : kmpe_inst := {| m_err := wit_gc; m_len := None; m_pieces := [] |}.

Lemma wit_gc_covered : constraints_covered wit_base_gc wit_gc_P.
Proof.
  intros n c Hn. destruct n as [|[|n]]; cbn in Hn; try discriminate Hn. injection Hn as <-.
  exists 0%N. split; [left; reflexivity|]. vm_compute. discriminate.
Qed.
Lemma wit_gc_layers : given_layers wit_graph 2 wit_gc_P.
Proof.
  intros i Hi. cbn in Hi. destruct Hi as [<-|[<-|[]]]; [right|left; reflexivity].
  cbn [wit_gc_P]. split; [reflexivity|]. split; [reflexivity|]. split.
  - repeat constructor; cbn; intros H; repeat (destruct H as [H|H]; [discriminate H|]); exact H.
  - intros e He. cbn in He. cbn. repeat (destruct He as [<-|He]; [tauto|]). destruct He.
Qed.
(* a constraint cannot be realised by empty layers only *)
Example given_constraint_needs_a_nonempty_layer : ~ constraints_covered wit_base_gc (fun _ => []).
Proof.
  intros H. destruct (H 0%nat _ eq_refl) as (i & _ & Hc). vm_compute in Hc. apply Hc. reflexivity.
Qed.
Example klae_given_cons_example :
  constraints_covered (e_base wit_gc) wit_gc_P /\ given_layers (eG wit_gc) (eK wit_gc) wit_gc_P /\
  sat (gasgc wit_gc [2; 5] wit_gc_P (fun _ => 0%N)) (encode_klae wit_gc) /\
  objective (gasgc wit_gc [2; 5] wit_gc_P (fun _ => 0%N)) (encode_klae wit_gc) == 2.
Proof.
  split; [exact wit_gc_covered|]. split; [exact wit_gc_layers|].
  split; [apply sat_b_sound; vm_compute; reflexivity|vm_compute; reflexivity].
Qed.
Example kmpe_given_cons_example :
  sat (gmasgc wit_gc_M wit_gc_P (fun i => match i with 0%N => 2 | _ => 0 end) (fun _ => 0%N)) (encode_kmpe wit_gc_M) /\
  objective (gmasgc wit_gc_M wit_gc_P (fun i => match i with 0%N => 2 | _ => 0 end) (fun _ => 0%N)) (encode_kmpe wit_gc_M) == 2.
Proof. split; [apply sat_b_sound; vm_compute; reflexivity|vm_compute; reflexivity]. Qed.
(* ... and the all-empty assignment violates the constraint rows *)
Example klae_given_cons_empty_rejected : sat_b (gasgc wit_gc [2; 5] (fun _ => []) (fun _ => 0%N)) (encode_klae wit_gc) = false.
Proof. vm_compute. reflexivity. Qed.
Example klae_given_cons_choice : klae_given_choice wit_gc [2; 5] wit_gc_P.
Proof.
  split; [exact wit_gc_layers|]. split; [vm_compute; discriminate|].
  intros e He. vm_compute in He. destruct He as [<-|[<-|[]]].
  - split; [vm_compute; discriminate|intros _; exists 0%Z; vm_compute; reflexivity].
  - split; [vm_compute; discriminate|intros _; exists 2%Z; vm_compute; reflexivity].
Qed.
