(* C17/C02 — executable models of graphutils.max_bottleneck_path and stDAG.decompose_using_max_bottleneck.
   max_bottleneck: DP over a topological order exactly as the code: B = +inf at nodes without
   in-edges, otherwise the first strict improvement over the predecessors (in adjacency order) wins
   and is recorded in maxInNeighbor; among the nodes with in-edges and without out-edges the first
   strictly better one (in topological order) is the sink; `B[sink] == 0` means "no path";
   back-walk through the recorded predecessors.  No sink at all -> the code evaluates B[None]
   (KeyError) = [MBNoSink].
   Inputs that come from networkx and are not derivable from the edge list: the topological order
   and the predecessor order of every node (successors matter only through emptiness).
   Proofs: PeelProofs1-3.v *)
From Coq Require Import List NArith ZArith Bool Arith Lia.
Import ListNotations.
From FP Require Import Reach.
Open Scope Z_scope.

Definition sumL {A} (g : A -> Z) (l : list A) : Z := fold_right (fun a s => g a + s) 0 l.

Definition outs (G : list edge) (v : node) : list edge := filter (fun e => (fst e =? v)%N) G.
Definition ins (G : list edge) (v : node) : list edge := filter (fun e => (snd e =? v)%N) G.

Definition ind1 (b : bool) : Z := if b then 1 else 0.
(* temp_G[path[i]][path[i+1]][flow_attr] -= bottleneck  for the consecutive pairs of the path *)
Definition sub (f : edge -> Z) (b : Z) (p : list node) : edge -> Z :=
  fun e => f e - b * ind1 (memE e (pairs p)).
Definition npos (G : list edge) (f : edge -> Z) : nat := length (filter (fun e => 0 <? f e) G).

Inductive outcome := MBPath (b : Z) (p : list node) | MBNoPath | MBNoSink.
Inductive peel_result := PeelOK (D : list (list node * Z)) | PeelKeyError | PeelOutOfFuel.

Section PeelLoop.
  Variable find : (edge -> Z) -> outcome.
  (* while True: b, path = max_bottleneck_path(...); if path is None: break; subtract; append *)
  Fixpoint peel (fuel : nat) (f : edge -> Z) : peel_result :=
    match fuel with
    | O => PeelOutOfFuel
    | S k => match find f with
             | MBNoSink => PeelKeyError
             | MBNoPath => PeelOK []
             | MBPath b p => match peel k (sub f b p) with
                             | PeelOK D => PeelOK ((p, b) :: D)
                             | r => r
                             end
             end
    end.
End PeelLoop.

Definition explained (D : list (list node * Z)) (e : edge) : Z :=
  sumL (fun pw => snd pw * ind1 (memE e (pairs (fst pw)))) D.

Section DP.
  Variable f : edge -> Z.
  Variable preds succs : node -> list node.        (* in networkx adjacency order *)

  Definition bval := option Z.                      (* None = +infinity *)
  Definition bmin (b : bval) (z : Z) : Z := match b with None => z | Some y => Z.min y z end.
  Definition zle (z : Z) (b : bval) : Prop := match b with None => True | Some y => z <= y end.

  Record st := { bB : node -> bval; bP : node -> node; bbest : option (node * Z) }.

  (* for u in predecessors(v): c = min(B[u], f(u,v)); if c > B[v]: B[v] = c; maxInNeighbor[v] = u *)
  Definition pick (Bf : node -> bval) (v : node) (acc : option (Z * node)) (u : node) : option (Z * node) :=
    let c := bmin (Bf u) (f (u, v)) in
    match acc with
    | None => Some (c, u)
    | Some (b, _) => if b <? c then Some (c, u) else acc
    end.
  Definition best_pred (Bf : node -> bval) (v : node) (ps : list node) : option (Z * node) :=
    fold_left (pick Bf v) ps None.

  Definition dp_step (s : st) (v : node) : st :=
    match preds v with
    | [] => {| bB := upd (bB s) v None; bP := bP s; bbest := bbest s |}
    | ps => match best_pred (bB s) v ps with
            | None => s
            | Some (b, u) =>
                {| bB := upd (bB s) v (Some b); bP := upd (bP s) v u;
                   bbest := match succs v with
                            | [] => match bbest s with
                                    | None => Some (v, b)
                                    | Some (w, bw) => if bw <? b then Some (v, b) else bbest s
                                    end
                            | _ => bbest s
                            end |}
            end
    end.

  Definition dp_init : st := {| bB := fun _ => None; bP := fun x => x; bbest := None |}.

  Fixpoint back (fuel : nat) (Pf : node -> node) (v : node) (acc : list node) : list node :=
    match fuel with
    | O => v :: acc
    | S k => match preds v with [] => v :: acc | _ => back k Pf (Pf v) (v :: acc) end
    end.

  Definition max_bottleneck (topo : list node) : outcome :=
    let s := fold_left dp_step topo dp_init in
    match bbest s with
    | None => MBNoSink
    | Some (v, b) => if b =? 0 then MBNoPath else MBPath b (back (length topo) (bP s) v [])
    end.
End DP.

(* decompose_using_max_bottleneck: the structure (topo, preds, succs) is that of temp_G and stays the
   same in every round; only the weights change.  Fuel = #positive edges + 1. *)
Definition decompose (G : list edge) (preds succs : node -> list node) (topo : list node) (f : edge -> Z) : peel_result :=
  peel (fun g => max_bottleneck g preds succs topo) (S (npos G f)) f.

(* executable wrappers: association lists *)
Definition flow_of (W : list (edge * Z)) : edge -> Z := wt W.
Definition adj_of (A : list (node * list node)) (v : node) : list node :=
  match find (fun p => (fst p =? v)%N) A with Some p => snd p | None => [] end.

Definition max_bottleneck_run (W : list (edge * Z)) (P S : list (node * list node)) (topo : list node) : outcome :=
  max_bottleneck (flow_of W) (adj_of P) (adj_of S) topo.
Definition decompose_run (W : list (edge * Z)) (P S : list (node * list node)) (topo : list node) : peel_result :=
  decompose (map fst W) (adj_of P) (adj_of S) topo (flow_of W).

(* verified checker of the structural inputs (what networkx contributes): G duplicate-free, topo a
   duplicate-free topological order containing every endpoint, the adjacency lists list exactly
   the in-/out-neighbours *)
Definition peel_inputs_ok (G : list edge) (P S : list (node * list node)) (topo : list node) : bool :=
  nodupE G && nodupb topo &&
  forallb (fun e => beforeb topo (fst e) (snd e)) G &&
  forallb (fun e => memN (fst e) (adj_of P (snd e)) && memN (snd e) (adj_of S (fst e))) G &&
  forallb (fun p => forallb (fun u => memE (u, fst p) G) (snd p)) P &&
  forallb (fun p => forallb (fun x => memE (fst p, x) G) (snd p)) S.
Fixpoint pos (l : list N) (v : N) : nat :=
  match l with [] => O | x :: r => if (x =? v)%N then O else S (pos r v) end.

(* checker used on the implementation's output: every edge's flow equals the summed path weights *)
Definition explains_ok (W : list (edge * Z)) (D : list (list node * Z)) : bool :=
  forallb (fun p => (explained D (fst p) =? snd p)%Z) W.
