(* Bridge from the generated rows of the cyclic models (WalkEncRows.v) to their meaning, and the
   composition with WalkDecode.decode_walk_sound / the Hierholzer reconstruction (C01 / C02 / C04 /
   C09 on digraphs with cycles). *)
From Coq Require Import List NArith ZArith QArith Qround Lqa Bool Arith Lia Permutation.
Import ListNotations.
From FP Require Import Lin Blocks BlocksProofs PathEnc PathEncProofs Euler EulerProofs1 EulerProofs4
                       WalkEnc WalkDecode WalkEncRows.
Set Default Timeout 60.
Local Close Scope Q_scope.

(* well-formed s-t digraph: PathEncProofs.wf_graph (duplicate-free edges, adjacency lists consistent with
   the edge list, source without in-edges, sink without out-edges) + a duplicate-free node list that
   contains source and sink *)
Record wf_stg (G : stgraph) : Prop := {
  wfs_graph : wf_graph G;
  wfs_nodup_n : NoDup (g_nodes G);
  wfs_src_in : In (g_src G) (g_nodes G);
  wfs_snk_in : In (g_snk G) (g_nodes G) }.

(* ---- integer values behind integral rationals ---- *)
Lemma is_int_floor q : is_int q -> (q == inject_Z (Qfloor q))%Q.
Proof. intros [z Hz]. rewrite (Qfloor_comp _ _ Hz), Qfloor_Z. exact Hz. Qed.

Lemma inj_le x y : (inject_Z x <= inject_Z y)%Q -> (x <= y)%Z.
Proof. rewrite <- Zle_Qle. auto. Qed.
Lemma inj_sub x y : (inject_Z (x - y) == inject_Z x - inject_Z y)%Q.
Proof. unfold Z.sub. rewrite inject_Z_plus, inject_Z_opp. reflexivity. Qed.

(* the integer multiplicity / selection / distance vectors of layer i *)
Definition xint (a : var -> Q) (i : N) (e : PathEnc.edge) : Z := Qfloor (a (evar e i)).
Definition yint (a : var -> Q) (i : N) (e : PathEnc.edge) : Z := Qfloor (a (svar e i)).
Definition dint (G : stgraph) (a : var -> Q) (i : N) (v : node) : Z :=
  if mem_node v (g_nodes G) then Qfloor (a (Dist v i)) else 0%Z.

Lemma mem_node_In v l : mem_node v l = true <-> In v l.
Proof.
  unfold mem_node. rewrite existsb_exists. split.
  - intros (x & Hx & E). apply N.eqb_eq in E. subst. exact Hx.
  - intros H. exists v. split; [exact H|apply N.eqb_refl].
Qed.

Lemma edge_eqb_eq (e1 e2 : PathEnc.edge) : edge_eqb e1 e2 = true <-> e1 = e2.
Proof.
  destruct e1 as [a b], e2 as [c d]. unfold edge_eqb. cbn [fst snd].
  rewrite andb_true_iff, !N.eqb_eq. split; [intros [-> ->]; reflexivity|intros E; injection E; auto].
Qed.
Lemma mem_edge_In e l : mem_edge e l = true <-> In e l.
Proof.
  unfold mem_edge. rewrite existsb_exists. split.
  - intros (x & Hx & E). apply edge_eqb_eq in E. subst. exact Hx.
  - intros H. exists e. split; [exact H|apply edge_eqb_eq; reflexivity].
Qed.

Lemma sumq_inj {A} (g : A -> Q) (f : A -> Z) (l : list A) :
  (forall x, In x l -> (g x == inject_Z (f x))%Q) ->
  (sumq g l == inject_Z (fold_right (fun x s => (f x + s)%Z) 0%Z l))%Q.
Proof.
  induction l as [|x l IH]; intros H; cbn [sumq fold_right]; [reflexivity|].
  rewrite inject_Z_plus, <- IH by (intros y Hy; apply H; right; exact Hy).
  rewrite (H x (or_introl eq_refl)). reflexivity.
Qed.

Lemma qnat_nonneg n : (0 <= qnat n)%Q.
Proof. unfold qnat. change 0%Q with (inject_Z 0). rewrite <- Zle_Qle. lia. Qed.

Lemma edge_lb_nonneg I e i : (0 <= edge_lb I e i)%Q.
Proof.
  unfold edge_lb. destruct (o_bounds (w_opts I)); [|lra].
  destruct (find _ (fix_items I)) as [[[e' i'] m]|]; [|lra].
  destruct (is_scc_edge (w_graph I) e); [|lra]. destruct (o_geq (w_opts I)); [apply qnat_nonneg|lra].
Qed.

(* edges incident to a vertex outside the node list do not exist *)
Lemma ins_outside G v : wf_graph G -> ~ In v (g_nodes G) -> WalkEnc.ins (g_edges G) v = [].
Proof.
  intros WF Hv. unfold WalkEnc.ins. destruct (filter (fun e => (snd e =? v)%N) (g_edges G)) as [|e l] eqn:F; [reflexivity|exfalso].
  assert (He : In e (filter (fun e => (snd e =? v)%N) (g_edges G))) by (rewrite F; left; reflexivity).
  apply filter_In in He. destruct He as [He Hv']. apply N.eqb_eq in Hv'. apply Hv. rewrite <- Hv'. apply (wf_ends G WF e He).
Qed.
Lemma outs_outside G v : wf_graph G -> ~ In v (g_nodes G) -> WalkEnc.outs (g_edges G) v = [].
Proof.
  intros WF Hv. unfold WalkEnc.outs. destruct (filter (fun e => (fst e =? v)%N) (g_edges G)) as [|e l] eqn:F; [reflexivity|exfalso].
  assert (He : In e (filter (fun e => (fst e =? v)%N) (g_edges G))) by (rewrite F; left; reflexivity).
  apply filter_In in He. destruct He as [He Hv']. apply N.eqb_eq in Hv'. apply Hv. rewrite <- Hv'. apply (wf_ends G WF e He).
Qed.

(* sums over adjacency lists are sums over the incident edges *)
Section Adjacency.
  Variable G : stgraph.
  Hypothesis WF : wf_graph G.
  Variable a : var -> Q.
  Variable mk : node -> node -> var.

  Lemma eval_out_terms c v :
    (eval a (map (fun w => (mk v w, c)) (succs G v)) == c * sumq (fun e => a (mk (fst e) (snd e))) (WalkEnc.outs (g_edges G) v))%Q.
  Proof.
    rewrite (eval_map_const a (fun w => mk v w) c). rewrite (wf_succ G WF), sumq_map. unfold WalkEnc.outs.
    apply Qmult_comp; [reflexivity|]. apply sumq_ext. intros e He. apply filter_In in He. destruct He as [_ He].
    apply N.eqb_eq in He. rewrite He. reflexivity.
  Qed.
  Lemma eval_in_terms c v :
    (eval a (map (fun u => (mk u v, c)) (preds G v)) == c * sumq (fun e => a (mk (fst e) (snd e))) (WalkEnc.ins (g_edges G) v))%Q.
  Proof.
    rewrite (eval_map_const a (fun u => mk u v) c). rewrite (sumq_perm _ _ _ (wf_pred G WF v)), sumq_map. unfold WalkEnc.ins.
    apply Qmult_comp; [reflexivity|]. apply sumq_ext. intros e He. apply filter_In in He. destruct He as [_ He].
    apply N.eqb_eq in He. rewrite He. reflexivity.
  Qed.
End Adjacency.

(* number of copies of an edge in the residual multigraph *)
Lemma count_resid_absent (L : list PathEnc.edge) (x : PathEnc.edge -> Z) e : ~ In e L -> count_e e (resid L x) = 0%nat.
Proof.
  intros Hn. unfold resid. induction L as [|e2 l IH2]; [reflexivity|]. cbn [flat_map]. rewrite count_e_app, count_e_repeat.
  destruct (eqe e2 e) eqn:Q; [apply eqe_true in Q; subst; exfalso; apply Hn; left; reflexivity|].
  cbn. apply IH2. intros X. apply Hn. right. exact X.
Qed.
Lemma count_resid (L : list PathEnc.edge) (x : PathEnc.edge -> Z) e : NoDup L -> In e L -> count_e e (resid L x) = Z.to_nat (x e).
Proof.
  intros ND Hin. induction L as [|e' L' IH]; [destruct Hin|].
  inversion ND as [|? ? Hni ND']; subst.
  change (resid (e' :: L') x) with (repeat e' (Z.to_nat (x e')) ++ resid L' x).
  rewrite count_e_app, count_e_repeat.
  destruct Hin as [->|Hin].
  - rewrite (proj2 (eqe_true e e) eq_refl), (count_resid_absent L' x e Hni). lia.
  - destruct (eqe e' e) eqn:Q; [apply eqe_true in Q; subst; contradiction|]. cbn. apply IH; assumption.
Qed.

(* ---------------------------------------------------------------------------------------------- *)
(* the walk block of one instance                                                                 *)
Section WalkRows.
  Variable I : walk_inst.
  Variable a : var -> Q.
  Let G := w_graph I.
  Let k := w_k I.
  Let E := g_edges G.
  Let s := g_src G.
  Let t := g_snk G.
  Hypothesis WFS : wf_stg G.
  Hypothesis Hcols : Forall (sat_col a) (walk_cols I).
  Hypothesis Hrows : Forall (sat_row a) (walk_rows I).

  Let WF : wf_graph G := wfs_graph G WFS.

  Lemma edge_col_sat i e : In i (layers k) -> In e E -> sat_col a (intcol (evar e i) (edge_lb I e i) (cap I e)).
  Proof.
    intros Hi He. apply (sat_cols_in a _ _ Hcols). unfold walk_cols. apply in_or_app. left.
    apply in_flat_map. exists i. split; [exact Hi|].
    apply (in_map (fun e => intcol (evar e i) (edge_lb I e i) (cap I e))) in He. exact He.
  Qed.

  (* integrality and bounds of the three column families *)
  Lemma edge_val i e : In i (layers k) -> In e E ->
    (a (evar e i) == inject_Z (xint a i e))%Q /\ (0 <= xint a i e)%Z /\ (edge_lb I e i <= a (evar e i) <= cap I e)%Q.
  Proof.
    intros Hi He. pose proof (edge_col_sat i e Hi He) as C. unfold sat_col, intcol in C. cbn [cvar clb cub cint] in C.
    destruct C as (L & U & Hint). pose proof (is_int_floor _ (Hint eq_refl)) as Ez. fold (xint a i e) in Ez.
    split; [exact Ez|]. split; [|split; assumption].
    apply inj_le. change (inject_Z 0) with 0%Q. rewrite <- Ez. pose proof (edge_lb_nonneg I e i). lra.
  Qed.

  Lemma sel_val i e : In i (layers k) -> In e E ->
    (a (svar e i) == inject_Z (yint a i e))%Q /\ (yint a i e = 0%Z \/ yint a i e = 1%Z).
  Proof.
    intros Hi He.
    assert (C : sat_col a (bincol (svar e i))).
    { apply (sat_cols_in a _ _ Hcols). unfold walk_cols. apply in_or_app. right. apply in_or_app. right.
      apply in_flat_map. exists i. split; [exact Hi|].
      apply (in_map (fun e => bincol (svar e i))) in He. exact He. }
    unfold sat_col, bincol in C. cbn [cvar clb cub cint] in C. destruct C as (L & U & Hint).
    pose proof (is_int_floor _ (Hint eq_refl)) as Ez. fold (yint a i e) in Ez. split; [exact Ez|].
    assert (0 <= yint a i e)%Z by (apply inj_le; change (inject_Z 0) with 0%Q; rewrite <- Ez; exact L).
    assert (yint a i e <= 1)%Z by (apply inj_le; change (inject_Z 1) with 1%Q; rewrite <- Ez; exact U).
    lia.
  Qed.

  Lemma dist_val i v : In i (layers k) -> In v (g_nodes G) ->
    (a (Dist v i) == inject_Z (dint G a i v))%Q /\ (0 <= dint G a i v)%Z.
  Proof.
    intros Hi Hv.
    assert (C : sat_col a (intcol (Dist v i) 0%Q (nnodes G))).
    { apply (sat_cols_in a _ _ Hcols). unfold walk_cols. apply in_or_app. right. apply in_or_app. left.
      apply in_flat_map. exists i. split; [exact Hi|].
      apply (in_map (fun v => intcol (Dist v i) 0%Q (nnodes G))) in Hv. exact Hv. }
    unfold sat_col, intcol in C. cbn [cvar clb cub cint] in C. destruct C as (L & U & Hint).
    pose proof (is_int_floor _ (Hint eq_refl)) as Ez. unfold dint. fold G.
    rewrite (proj2 (mem_node_In v (g_nodes G)) Hv). split; [exact Ez|].
    apply inj_le. change (inject_Z 0) with 0%Q. rewrite <- Ez. exact L.
  Qed.
  Lemma dint_nonneg i v : In i (layers k) -> (0 <= dint G a i v)%Z.
  Proof.
    intros Hi. destruct (in_dec N.eq_dec v (g_nodes G)) as [Hv|Hv]; [apply (dist_val i v Hi Hv)|].
    unfold dint. destruct (mem_node v (g_nodes G)) eqn:M; [apply mem_node_In in M; contradiction|lia].
  Qed.

  (* sums of edge / selection values over incident edges, as integers *)
  Lemma sum_edge_vals i l : In i (layers k) -> incl l E ->
    (sumq (fun e => a (Edge (fst e) (snd e) i)) l == inject_Z (WalkEnc.sumf (xint a i) l))%Q.
  Proof. intros Hi Hl. apply sumq_inj. intros e He. apply (edge_val i e Hi (Hl e He)). Qed.
  Lemma sum_sel_vals i l : In i (layers k) -> incl l E ->
    (sumq (fun e => a (Sel (fst e) (snd e) i)) l == inject_Z (WalkEnc.sumf (yint a i) l))%Q.
  Proof. intros Hi Hl. apply sumq_inj. intros e He. apply (sel_val i e Hi (Hl e He)). Qed.

  Lemma ins_incl v : incl (WalkEnc.ins E v) E.
  Proof. intros e He. apply filter_In in He. tauto. Qed.
  Lemma outs_incl v : incl (WalkEnc.outs E v) E.
  Proof. intros e He. apply filter_In in He. tauto. Qed.

  (* ---- row membership ---- *)
  Lemma in_walk_rows_17a i : In i (layers k) -> In (row_17a G (o_allow_empty (w_opts I)) i) (walk_rows I).
  Proof. intros Hi. unfold walk_rows. apply in_or_app. left. apply in_map. exact Hi. Qed.
  Lemma in_walk_rows_17b i v : In i (layers k) -> In v (inner G) -> In (row_17b G i v) (walk_rows I).
  Proof.
    intros Hi Hv. unfold walk_rows. apply in_or_app. right. apply in_or_app. left.
    apply in_flat_map. exists i. split; [exact Hi|]. apply in_map. exact Hv.
  Qed.
  Lemma in_walk_rows_21 i e : In i (layers k) -> In e E -> In (row_21 i e) (walk_rows I).
  Proof.
    intros Hi He. unfold walk_rows. do 2 (apply in_or_app; right). apply in_or_app. left.
    apply in_flat_map. exists i. split; [exact Hi|]. apply in_map. exact He.
  Qed.
  Lemma in_walk_rows_22a i v : In i (layers k) -> In v (non_src G) -> In (row_22a I i v) (walk_rows I).
  Proof.
    intros Hi Hv. unfold walk_rows. do 3 (apply in_or_app; right). apply in_or_app. left.
    apply in_flat_map. exists i. split; [exact Hi|]. apply in_flat_map. exists v. split; [exact Hv|]. left. reflexivity.
  Qed.
  Lemma in_walk_rows_19c i e : In i (layers k) -> In e E -> In (row_19c G i e) (walk_rows I).
  Proof.
    intros Hi He. unfold walk_rows. do 5 (apply in_or_app; right).
    apply in_flat_map. exists i. split; [exact Hi|]. apply in_map. exact He.
  Qed.

  (* ---- the semantic hypotheses of WalkDecode.decode_walk_sound ---- *)
  Lemma sem_17a i : o_allow_empty (w_opts I) = false -> In i (layers k) ->
    WalkEnc.sumf (xint a i) (WalkEnc.outs E s) = 1%Z.
  Proof.
    intros Hae Hi. pose proof (sat_rows_in a _ _ Hrows (in_walk_rows_17a i Hi)) as R.
    rewrite Hae in R. unfold sat_row, row_17a, mkrow in R. cbn [sns lhs rhs] in R.
    rewrite (eval_out_terms G WF a (fun u v => Edge u v i) 1%Q (g_src G)) in R. cbv beta in R. fold E in R.
    rewrite (sum_edge_vals i _ Hi (outs_incl (g_src G))) in R.
    apply inject_Z_inj_eq. change (inject_Z 1) with 1%Q. fold E s in R |- *. lra.
  Qed.

  Lemma sem_17b i v : In i (layers k) -> v <> s -> v <> t ->
    WalkEnc.sumf (xint a i) (WalkEnc.ins E v) = WalkEnc.sumf (xint a i) (WalkEnc.outs E v).
  Proof.
    intros Hi Hs Ht. destruct (in_dec N.eq_dec v (g_nodes G)) as [Hv|Hv].
    - assert (Hin : In v (inner G)).
      { unfold inner. apply filter_In. split; [exact Hv|].
        destruct (N.eqb_spec v (g_src G)); [contradiction|]. destruct (N.eqb_spec v (g_snk G)); [contradiction|]. reflexivity. }
      pose proof (sat_rows_in a _ _ Hrows (in_walk_rows_17b i v Hi Hin)) as R.
      unfold sat_row, row_17b, row_10c, mkrow in R. cbn [sns lhs rhs] in R. rewrite eval_app in R.
      rewrite (eval_in_terms G WF a (fun u w => Edge u w i) 1%Q v) in R.
      rewrite (eval_out_terms G WF a (fun u w => Edge u w i) (- (1))%Q v) in R. cbv beta in R. fold E in R.
      rewrite (sum_edge_vals i _ Hi (ins_incl v)), (sum_edge_vals i _ Hi (outs_incl v)) in R.
      apply inject_Z_inj_eq. fold E in R |- *. lra.
    - unfold E. rewrite (ins_outside G v WF Hv), (outs_outside G v WF Hv). reflexivity.
  Qed.

  Lemma sem_21 i e : In i (layers k) -> In e E -> (yint a i e <= xint a i e)%Z.
  Proof.
    intros Hi He. pose proof (sat_rows_in a _ _ Hrows (in_walk_rows_21 i e Hi He)) as R.
    unfold sat_row, row_21, mkrow in R. cbn [sns lhs rhs eval fst snd] in R.
    destruct (edge_val i e Hi He) as (Ex & _). destruct (sel_val i e Hi He) as (Ey & _).
    rewrite Ex, Ey in R. apply inj_le. lra.
  Qed.

  (* 22a with the code's big-M (sum of the in-edge caps, a rational) implies the same inequality with an
     integer constant: no in-edge selected => no in-flow *)
  Lemma sem_22a i v : In i (layers k) -> v <> s ->
    (WalkEnc.sumf (xint a i) (WalkEnc.ins E v) <=
     WalkEnc.sumf (xint a i) (WalkEnc.ins E v) * WalkEnc.sumf (yint a i) (WalkEnc.ins E v))%Z.
  Proof.
    intros Hi Hs.
    assert (Hx0 : (0 <= WalkEnc.sumf (xint a i) (WalkEnc.ins E v))%Z).
    { apply WalkEnc.sumf_nonneg. intros e He. apply (edge_val i e Hi (ins_incl v e He)). }
    assert (Hy0 : (0 <= WalkEnc.sumf (yint a i) (WalkEnc.ins E v))%Z).
    { apply WalkEnc.sumf_nonneg. intros e He. destruct (sel_val i e Hi (ins_incl v e He)) as [_ [-> | ->]]; lia. }
    destruct (in_dec N.eq_dec v (g_nodes G)) as [Hv|Hv].
    - assert (Hin : In v (non_src G)).
      { unfold non_src. apply filter_In. split; [exact Hv|]. destruct (N.eqb_spec v (g_src G)); [contradiction|reflexivity]. }
      pose proof (sat_rows_in a _ _ Hrows (in_walk_rows_22a i v Hi Hin)) as R.
      unfold sat_row, row_22a, mkrow in R. cbn [sns lhs rhs] in R. rewrite eval_app in R.
      fold G in R.
      rewrite (eval_in_terms G WF a (fun u w => Edge u w i) 1%Q v) in R.
      rewrite (eval_in_terms G WF a (fun u w => Sel u w i) (- Mv I v)%Q v) in R. cbv beta in R. fold E in R.
      rewrite (sum_edge_vals i _ Hi (ins_incl v)), (sum_sel_vals i _ Hi (ins_incl v)) in R. fold E in R.
      destruct (Z.eq_dec (WalkEnc.sumf (yint a i) (WalkEnc.ins E v)) 0) as [Y0|Y0].
      + rewrite Y0 in R |- *. change (inject_Z 0) with 0%Q in R.
        assert (WalkEnc.sumf (xint a i) (WalkEnc.ins E v) <= 0)%Z by (apply inj_le; change (inject_Z 0) with 0%Q; lra). lia.
      + nia.
    - unfold E. rewrite (ins_outside G v WF Hv). cbn. lia.
  Qed.

  Lemma sem_19c i u v : In i (layers k) -> In (u, v) E ->
    (dint G a i u + 1 - (Z.of_nat (length (g_nodes G)) + 1) * (1 - yint a i (u, v)) <= dint G a i v)%Z.
  Proof.
    intros Hi He. pose proof (sat_rows_in a _ _ Hrows (in_walk_rows_19c i (u, v) Hi He)) as R.
    unfold sat_row, row_19c, mkrow, bigM, nnodes in R. cbn [sns lhs rhs eval fst snd] in R.
    destruct (wf_ends G WF (u, v) He) as [Hu Hv]. cbn [fst snd] in Hu, Hv.
    destruct (dist_val i u Hi Hu) as (Eu & _). destruct (dist_val i v Hi Hv) as (Ev & _).
    destruct (sel_val i (u, v) Hi He) as (Ey & Hy). unfold svar in Ey. cbn [fst snd] in Ey.
    unfold svar in R. cbn [fst snd] in R. rewrite Eu, Ev, Ey in R.
    set (n := Z.of_nat (length (g_nodes G))) in *.
    destruct Hy as [Hy|Hy]; rewrite Hy in R |- *.
    - change (inject_Z 0) with 0%Q in R. apply inj_le.
      replace (dint G a i u + 1 - (n + 1) * (1 - 0))%Z with (dint G a i u - n)%Z by lia.
      rewrite inj_sub. lra.
    - change (inject_Z 1) with 1%Q in R. apply inj_le.
      replace (dint G a i u + 1 - (n + 1) * (1 - 1))%Z with (dint G a i u + 1)%Z by lia.
      rewrite inject_Z_plus. change (inject_Z 1) with 1%Q. lra.
  Qed.

  Lemma ins_src_nil' : WalkEnc.ins E s = [].
  Proof.
    unfold WalkEnc.ins. destruct (filter (fun e => (snd e =? s)%N) E) as [|e l] eqn:F; [reflexivity|exfalso].
    assert (He : In e (filter (fun e => (snd e =? s)%N) E)) by (rewrite F; left; reflexivity).
    apply filter_In in He. destruct He as [He Hv']. apply N.eqb_eq in Hv'. exact (wf_src G WF e He Hv').
  Qed.
  Lemma outs_snk_nil' : WalkEnc.outs E t = [].
  Proof.
    unfold WalkEnc.outs. destruct (filter (fun e => (fst e =? t)%N) E) as [|e l] eqn:F; [reflexivity|exfalso].
    assert (He : In e (filter (fun e => (fst e =? t)%N) E)) by (rewrite F; left; reflexivity).
    apply filter_In in He. destruct He as [He Hv']. apply N.eqb_eq in Hv'. exact (wf_snk G WF e He Hv').
  Qed.

  (* C01 (cyclic): in every layer the multiplicity vector is exactly ONE source-to-sink walk: the
     Hierholzer reconstruction of the residual multigraph succeeds, leaves nothing over, starts at the
     source, ends at the sink and traverses every edge e exactly x_i(e) times *)
  Theorem walk_layer_is_one_walk i : o_allow_empty (w_opts I) = false -> In i (layers k) ->
    exists w, reconstruct (resid E (xint a i)) s = Some ([], w) /\
              hd_error w = Some s /\ last w s = t /\
              Permutation (resid E (xint a i)) (pairs w) /\
              (forall e, In e E -> count_e e (pairs w) = Z.to_nat (xint a i e)) /\
              (forall e, ~ In e E -> count_e e (pairs w) = 0%nat).
  Proof.
    intros Hae Hi.
    destruct (decode_walk_sound E s t (g_nodes G) (xint a i) (yint a i) (dint G a i)
                (fun v => WalkEnc.sumf (xint a i) (WalkEnc.ins E v)) (Z.of_nat (length (g_nodes G)) + 1)%Z)
      as (w & R & P & Hh & Hl).
    - apply (wfs_nodup_n G WFS).
    - intros e He. apply (wf_ends G WF e He).
    - apply (wfs_src_in G WFS).
    - apply (wfs_snk_in G WFS).
    - apply (wf_st G WF).
    - intros e He. apply (edge_val i e Hi He).
    - intros e He. apply (sel_val i e Hi He).
    - intros v. apply dint_nonneg. exact Hi.
    - intros e He. apply sem_21; assumption.
    - intros v Hv. apply sem_22a; assumption.
    - intros u v He. apply sem_19c; assumption.
    - apply sem_17a; assumption.
    - intros v H1 H2. apply sem_17b; assumption.
    - apply ins_src_nil'.
    - apply outs_snk_nil'.
    - exists w. repeat split; try assumption.
      + intros e He. rewrite <- (count_e_perm e _ _ P). apply count_resid; [apply (wf_nodup_e G WF)|exact He].
      + intros e He. rewrite <- (count_e_perm e _ _ P). apply count_resid_absent. exact He.
  Qed.
End WalkRows.

(* ---------------------------------------------------------------------------------------------- *)
(* safety rows: what the zero / one sets force                                                    *)
Lemma mem_ei_In e i l : mem_ei e i l = true <-> In (e, i) l.
Proof.
  unfold mem_ei. rewrite existsb_exists. split.
  - intros ([e' i'] & Hx & H). cbn [fst snd] in H. apply andb_true_iff in H. destruct H as [H1 H2].
    apply edge_eqb_eq in H1. apply N.eqb_eq in H2. subst. exact Hx.
  - intros H. exists (e, i). split; [exact H|]. cbn [fst snd]. rewrite (proj2 (edge_eqb_eq e e) eq_refl), N.eqb_refl. reflexivity.
Qed.

Section SafetyRows.
  Variable I : walk_inst.
  Variable a : var -> Q.
  Let G := w_graph I.
  Let k := w_k I.
  Hypothesis Hcols : Forall (sat_col a) (walk_cols I).
  Hypothesis Hzero : Forall (sat_row a) (zero_rows I).
  Hypothesis Hfix : Forall (sat_row a) (fix_rows I).

  Lemma zero_val e i : In (e, i) (zero_set I) -> (a (evar e i) == 0)%Q.
  Proof.
    intros H. assert (R : sat_row a (mkrow [(evar e i, 1%Q)] SEq 0%Q)).
    { apply (sat_rows_in a _ _ Hzero). unfold zero_rows.
      apply (in_map (fun ei => mkrow [(evar (fst ei) (snd ei), 1%Q)] SEq 0%Q)) in H. exact H. }
    unfold sat_row, mkrow in R. cbn [sns lhs rhs eval fst snd] in R. lra.
  Qed.

  Lemma one_val e i : In i (layers k) -> In e (g_edges G) -> In (e, i) (one_set I) -> (a (evar e i) == 1)%Q.
  Proof.
    intros Hi He H. unfold one_set in H. apply in_map_iff in H. destruct H as ([[e' i'] m] & Eq & H).
    cbn [fst] in Eq. injection Eq as -> ->. apply filter_In in H. destruct H as [Hit Hscc]. cbn [fst] in Hscc.
    apply negb_true_iff in Hscc. fold G in Hscc.
    destruct (o_bounds (w_opts I)) eqn:B.
    - (* queued fix: the column itself is [1, 1] *)
      assert (C : sat_col a (intcol (evar e i) (edge_lb I e i) (cap I e))).
      { apply (sat_cols_in a _ _ Hcols). unfold walk_cols. apply in_or_app. left.
        apply in_flat_map. exists i. split; [exact Hi|].
        apply (in_map (fun e => intcol (evar e i) (edge_lb I e i) (cap I e))) in He. exact He. }
      unfold sat_col, intcol in C. cbn [cvar clb cub cint] in C. destruct C as (L & U & _).
      assert (Ecap : cap I e = 1%Q) by (unfold cap; fold G; rewrite Hscc; reflexivity).
      assert (Elb : edge_lb I e i = 1%Q).
      { unfold edge_lb. rewrite B.
        destruct (find (fun x => edge_eqb (fst (fst x)) e && (snd (fst x) =? i)%N) (fix_items I)) as [[[e2 i2] m2]|] eqn:F.
        - apply find_some in F. destruct F as [_ F]. cbn [fst snd] in F. apply andb_true_iff in F. destruct F as [F1 _].
          fold G. rewrite Hscc. reflexivity.
        - exfalso. pose proof (find_none _ _ F _ Hit) as N. cbn [fst snd] in N.
          rewrite (proj2 (edge_eqb_eq e e) eq_refl), N.eqb_refl in N. discriminate N. }
      rewrite Ecap in U. rewrite Elb in L. lra.
    - assert (R : sat_row a (mkrow [(evar e i, 1%Q)] SEq 1%Q)).
      { apply (sat_rows_in a _ _ Hfix). unfold fix_rows. rewrite B. apply in_flat_map. exists (e, i, m). split; [exact Hit|].
        fold G. rewrite Hscc. left. reflexivity. }
      unfold sat_row, mkrow in R. cbn [sns lhs rhs eval fst snd] in R. lra.
  Qed.
End SafetyRows.

(* ---------------------------------------------------------------------------------------------- *)
(* kFlowDecompCycles                                                                              *)
Section KfdcRows.
  Variable I : kfdc_inst.
  Variable a : var -> Q.
  Hypothesis Hsat : sat a (encode_kfdc I).
  Let WI := kfdc_walk I.
  Let G := c_graph I.
  Let k := c_k I.
  Let E := g_edges G.
  Let wm := kfdc_wmax I.

  Lemma kfdc_cols_sat : Forall (sat_col a) (walk_cols WI) /\ Forall (sat_col a) (sub_cols WI) /\ Forall (sat_col a) (kfdc_cols I).
  Proof.
    destruct Hsat as [Hc _]. unfold encode_kfdc in Hc. cbn [cols] in Hc. unfold base_wcols in Hc.
    rewrite !Forall_app in Hc. tauto.
  Qed.
  Lemma kfdc_rows_sat : Forall (sat_row a) (walk_rows WI) /\ Forall (sat_row a) (zero_rows WI) /\
    Forall (sat_row a) (fix_rows WI) /\ Forall (sat_row a) (sub_rows WI) /\ Forall (sat_row a) (kfdc_rows I).
  Proof.
    destruct Hsat as [_ Hr]. unfold encode_kfdc in Hr. cbn [rows] in Hr. unfold base_wrows in Hr.
    rewrite !Forall_app in Hr. tauto.
  Qed.

  Lemma kfdc_w_col i : In i (layers k) -> sat_col a (wcol_ (W i) wm (c_int I)).
  Proof.
    intros Hi. apply (sat_cols_in a _ _ (proj2 (proj2 kfdc_cols_sat))). unfold kfdc_cols. apply in_or_app. right.
    apply in_or_app. left. apply (in_map (fun i => wcol_ (W i) (kfdc_wmax I) (c_int I))) in Hi. exact Hi.
  Qed.
  Lemma kfdc_w_bounds i : In i (layers k) -> (0 <= a (W i) <= wm)%Q.
  Proof. intros Hi. pose proof (kfdc_w_col i Hi) as C. unfold sat_col, wcol_ in C. cbn [cvar clb cub] in C. tauto. Qed.
  Lemma kfdc_w_int i : In i (layers k) -> c_int I = true -> is_int (a (W i)).
  Proof. intros Hi Hint. pose proof (kfdc_w_col i Hi) as C. unfold sat_col, wcol_ in C. cbn [cvar clb cub cint] in C. apply C. exact Hint. Qed.

  Lemma kept_in_E e : In e (kept_edges I) -> In e E.
  Proof. intros H. unfold kept_edges in H. apply filter_In in H. tauto. Qed.

  (* the product of one (edge, layer) pair, whichever of the three encodings was chosen *)
  Lemma kfdc_product e i : In e (kept_edges I) -> In i (layers k) ->
    (a (pvar e i) == a (W i) * inject_Z (xint a i e))%Q.
  Proof.
    intros He Hi. pose proof (kept_in_E e He) as HeE.
    destruct kfdc_cols_sat as (Hwc & _ & Hkc). destruct kfdc_rows_sat as (Hwr & Hzr & Hfr & _ & Hkr).
    destruct (edge_val WI a Hwc i e Hi HeE) as (Ex & _ & _). fold (xint a i e) in Ex.
    assert (HR : Forall (sat_row a) (kfdc_prod_rows I e i)).
    { apply (sat_rows_incl a _ _ Hkr). intros r Hr. unfold kfdc_rows. apply in_or_app. left.
      apply in_flat_map. exists e. split; [exact He|]. unfold kfdc_edge_rows. apply in_or_app. left.
      apply in_flat_map. exists i. split; [exact Hi|exact Hr]. }
    unfold kfdc_prod_rows in HR. unfold prod_kind in HR.
    destruct (mem_ei e i (zero_set (kfdc_walk I))) eqn:Z0.
    - (* Pi = 0 and the zero row forces Edge = 0 *)
      cbn in HR. inversion HR as [|? ? R _]; subst. unfold sat_row, mkrow in R. cbn [sns lhs rhs eval fst snd] in R.
      apply mem_ei_In in Z0. pose proof (zero_val WI a Hzr e i Z0) as X0. rewrite <- Ex, X0. lra.
    - destruct (mem_ei e i (one_set (kfdc_walk I))) eqn:O1.
      + (* Pi = W and the fixing forces Edge = 1 *)
        cbn in HR. inversion HR as [|? ? R _]; subst. unfold sat_row, mkrow in R. cbn [sns lhs rhs eval fst snd] in R.
        apply mem_ei_In in O1. pose proof (one_val WI a Hwc Hfr e i Hi HeE O1) as X1. rewrite <- Ex, X1. lra.
      + (* bit expansion *)
        cbn in HR.
        assert (HC : Forall (sat_col a) (intprod_cols (pvar e i) 0%Q (prod_ub I e) (num_bits (prod_ub I e)))).
        { apply Forall_forall. intros c Hc. apply (sat_cols_in a _ _ Hkc). unfold kfdc_cols. do 2 (apply in_or_app; right).
          apply in_flat_map. exists e. split; [exact He|]. apply in_flat_map. exists i. split; [exact Hi|].
          unfold prod_kind. rewrite Z0, O1. cbn. exact Hc. }
        pose proof (proj1 (intprod_rows_sem (evar e i) (W i) (pvar e i) 0%Q (prod_ub I e) (num_bits (prod_ub I e))
                      ltac:(split; discriminate) ltac:(split; discriminate) ltac:(split; discriminate) a) (conj HC HR)) as S.
        cbn zeta in S. destruct S as (HB & HF & HX & HP).
        assert (Wb : (0 <= a (W i) <= prod_ub I e)%Q).
        { pose proof (kfdc_w_bounds i Hi) as [W0 W1]. split; [exact W0|]. unfold prod_ub.
          destruct (c_scale_free I); [|exact W1]. pose proof (qmax_ge_l (kfdc_wmax I) (cap (kfdc_walk I) e)) as Hq. unfold wm in W1. lra. }
        pose proof (comps_value (a (W i)) 0%Q (prod_ub I e) Wb _ _ HB HF) as V.
        rewrite <- HP, V, HX, Ex. reflexivity.
  Qed.

  (* C02 (cyclic): for every non-ignored edge the weights of the layers, multiplied by the number of
     times the layer's walk uses the edge, add up to its flow value *)
  Theorem kfdc_flow_explained e : In e (kept_edges I) ->
    (sumq (fun i => a (W i) * inject_Z (xint a i e)) (layers k) == flow_of I e)%Q.
  Proof.
    intros He. destruct kfdc_rows_sat as (_ & _ & _ & _ & Hkr).
    assert (R : sat_row a (mkrow (map (fun i => (pvar e i, 1%Q)) (layers k)) SEq (flow_of I e))).
    { apply (sat_rows_in a _ _ Hkr). unfold kfdc_rows. apply in_or_app. left. apply in_flat_map. exists e. split; [exact He|].
      unfold kfdc_edge_rows. apply in_or_app. right. left. reflexivity. }
    unfold sat_row, mkrow in R. cbn [sns lhs rhs] in R. rewrite (eval_map_const a (fun i => pvar e i) 1%Q) in R.
    rewrite <- R, Qmult_1_l. apply sumq_ext. intros i Hi. symmetry. apply kfdc_product; assumption.
  Qed.
End KfdcRows.

(* membership in kept_edges = an edge of the graph that is neither a source/sink edge nor ignored *)
Lemma kept_edges_spec I e : In e (kept_edges I) <->
  In e (g_edges (c_graph I)) /\ mem_edge e (st_edges (c_graph I) ++ c_ignore I) = false.
Proof.
  unfold kept_edges, kfdc_ignore. rewrite filter_In, negb_true_iff. tauto.
Qed.

(* ---- C01 + C02 (+ the shape clauses C04 needs) on digraphs with cycles, kFlowDecompCycles ---- *)
Theorem kfdc_sound (I : kfdc_inst) (a : var -> Q) :
  let G := c_graph I in let k := c_k I in
  let E := g_edges G in let s := g_src G in let t := g_snk G in
  wf_stg G -> o_allow_empty (c_opts I) = false ->
  sat a (encode_kfdc I) ->
  (* every layer is one source-to-sink walk using every edge e exactly x_i(e) >= 0 times *)
  (forall i, In i (layers k) ->
     exists w, reconstruct (resid E (xint a i)) s = Some ([], w) /\ hd_error w = Some s /\ last w s = t /\
               (forall e, In e E -> count_e e (pairs w) = Z.to_nat (xint a i e) /\ (0 <= xint a i e)%Z /\
                                    (a (evar e i) == inject_Z (xint a i e))%Q) /\
               (forall e, ~ In e E -> count_e e (pairs w) = 0%nat)) /\
  (* weights are within bounds and of the requested type *)
  (forall i, In i (layers k) -> (0 <= a (W i) <= kfdc_wmax I)%Q /\ (c_int I = true -> is_int (a (W i)))) /\
  (* and explain every non-ignored edge *)
  (forall e, In e (kept_edges I) ->
     (sumq (fun i => a (W i) * inject_Z (xint a i e)) (layers k) == flow_of I e)%Q).
Proof.
  intros G k E s t WF Hae Hsat. split; [|split].
  - intros i Hi. destruct (kfdc_cols_sat I a Hsat) as (Hc & _). destruct (kfdc_rows_sat I a Hsat) as (Hr & _).
    destruct (walk_layer_is_one_walk (kfdc_walk I) a WF Hc Hr i Hae Hi) as (w & R & Hh & Hl & _ & C1 & C0).
    exists w. repeat split; try assumption.
    + apply C1. assumption.
    + apply (edge_val (kfdc_walk I) a Hc i e Hi H).
    + apply (edge_val (kfdc_walk I) a Hc i e Hi H).
  - intros i Hi. split; [apply (kfdc_w_bounds I a Hsat i Hi)|apply (kfdc_w_int I a Hsat i Hi)].
  - intros e He. apply (kfdc_flow_explained I a Hsat e He).
Qed.

(* ---------------------------------------------------------------------------------------------- *)
(* kPathCoverCycles                                                                               *)
Lemma sumf_ge1_ex (f : N -> Z) (l : list N) : (forall i, In i l -> (0 <= f i)%Z) ->
  (1 <= fold_right (fun i s => (f i + s)%Z) 0%Z l)%Z -> exists i, In i l /\ (1 <= f i)%Z.
Proof.
  induction l as [|i l IH]; intros H0 S; cbn [fold_right] in S; [lia|].
  destruct (Z_le_gt_dec 1 (f i)) as [Hf|Hf]; [exists i; split; [left; reflexivity|exact Hf]|].
  assert (f i = 0%Z) by (specialize (H0 i (or_introl eq_refl)); lia).
  destruct IH as (j & Hj & Hfj); [intros j Hj; apply H0; right; exact Hj|lia|].
  exists j. split; [right; exact Hj|exact Hfj].
Qed.

(* C09 (cyclic): the cover rows force every non-ignored edge to be used by the walk of some layer *)
Theorem kpcc_covers (I : kpcc_inst) (a : var -> Q) e :
  sat a (encode_kpcc I) ->
  In e (g_edges (pc_graph I)) -> mem_edge e (kpcc_ignore I) = false ->
  exists i, In i (layers (pc_k I)) /\ (1 <= xint a i e)%Z.
Proof.
  intros [Hc Hr] He Hig. unfold encode_kpcc in Hc, Hr. cbn [cols rows] in Hc, Hr.
  unfold base_wcols in Hc. unfold base_wrows in Hr. rewrite !Forall_app in Hc. rewrite !Forall_app in Hr.
  destruct Hc as (Hwc & _). destruct Hr as (_ & Hcov).
  assert (R : sat_row a (mkrow (map (fun i => (evar e i, 1%Q)) (layers (pc_k I))) SGe 1%Q)).
  { apply (sat_rows_in a _ _ Hcov). unfold kpcc_rows.
    apply (in_map (fun e => mkrow (map (fun i => (evar e i, 1%Q)) (layers (pc_k I))) SGe 1%Q)).
    apply filter_In. split; [exact He|]. rewrite Hig. reflexivity. }
  unfold sat_row, mkrow in R. cbn [sns lhs rhs] in R. rewrite (eval_map_const a (fun i => evar e i) 1%Q) in R.
  rewrite (sumq_inj (fun i => a (evar e i)) (fun i => xint a i e)) in R.
  - apply sumf_ge1_ex.
    + intros i Hi. apply (edge_val (kpcc_walk I) a Hwc i e Hi He).
    + apply inj_le. change (inject_Z 1) with 1%Q. lra.
  - intros i Hi. apply (edge_val (kpcc_walk I) a Hwc i e Hi He).
Qed.

(* layers of a kPathCoverCycles solution are walks as well *)
Theorem kpcc_layer_is_one_walk (I : kpcc_inst) (a : var -> Q) i :
  let G := pc_graph I in
  wf_stg G -> o_allow_empty (pc_opts I) = false -> sat a (encode_kpcc I) -> In i (layers (pc_k I)) ->
  exists w, reconstruct (resid (g_edges G) (xint a i)) (g_src G) = Some ([], w) /\
            hd_error w = Some (g_src G) /\ last w (g_src G) = g_snk G /\
            (forall e, In e (g_edges G) -> count_e e (pairs w) = Z.to_nat (xint a i e)) /\
            (forall e, ~ In e (g_edges G) -> count_e e (pairs w) = 0%nat).
Proof.
  intros G WF Hae [Hc Hr] Hi. unfold encode_kpcc in Hc, Hr. cbn [cols rows] in Hc, Hr.
  unfold base_wcols in Hc. unfold base_wrows in Hr. rewrite !Forall_app in Hc. rewrite !Forall_app in Hr.
  destruct Hc as (Hwc & _). destruct Hr as ((Hwr & _) & _).
  destruct (walk_layer_is_one_walk (kpcc_walk I) a WF Hwc Hwr i Hae Hi) as (w & R & Hh & Hl & _ & C1 & C0).
  exists w. repeat split; assumption.
Qed.

(* ---- consequences used by C04 ---- *)
(* an SCC edge whose flow value lies strictly between 0 and 1 gets the repetition cap f(e) < 1, so no
   layer can use it and the model is infeasible (the formal content of finding "rep_cap_from_own_flow") *)
Theorem kfdc_small_flow_infeasible (I : kfdc_inst) (a : var -> Q) e :
  c_scale_free I = false -> In e (kept_edges I) -> is_scc_edge (c_graph I) e = true -> In e (map fst (c_flow I)) ->
  (0 < flow_of I e < 1)%Q -> ~ sat a (encode_kfdc I).
Proof.
  intros Hsf He Hscc Hfl [Hpos Hlt] Hsat.
  pose proof (kfdc_flow_explained I a Hsat e He) as F.
  assert (Z0 : forall i, In i (layers (c_k I)) -> xint a i e = 0%Z).
  { intros i Hi. destruct (kfdc_cols_sat I a Hsat) as (Hc & _).
    destruct (edge_val (kfdc_walk I) a Hc i e Hi (kept_in_E I e He)) as (Ex & X0 & _ & U).
    assert (Ecap : cap (kfdc_walk I) e = flow_of I e).
    { unfold cap. cbn [w_graph w_rep w_rep_default kfdc_walk]. rewrite Hscc. unfold flow_of, kfdc_rep. rewrite Hsf. cbn [andb].
      clear -Hfl. induction (c_flow I) as [|[e' q] l IH]; [destruct Hfl|]. cbn [lookup_q].
      destruct (edge_eqb e' e) eqn:Q; [reflexivity|]. apply IH. cbn [map fst] in Hfl. destruct Hfl as [->|Hfl]; [|exact Hfl].
      rewrite (proj2 (edge_eqb_eq e e) eq_refl) in Q. discriminate Q. }
    rewrite Ecap, Ex in U.
    assert (xint a i e < 1)%Z; [|lia].
    apply Z.lt_nge. intros Hge. rewrite Zle_Qle in Hge. change (inject_Z 1) with 1%Q in Hge. lra. }
  assert (S0 : (sumq (fun i => a (W i) * inject_Z (xint a i e)) (layers (c_k I)) == 0)%Q).
  { clear F. induction (layers (c_k I)) as [|i l IH]; cbn [sumq]; [reflexivity|].
    rewrite (Z0 i (or_introl eq_refl)), IH by (intros j Hj; apply Z0; right; exact Hj). change (inject_Z 0) with 0%Q. lra. }
  rewrite S0 in F. lra.
Qed.

(* ---------------------------------------------------------------------------------------------- *)
(* the executable decoder (Euler.solution_walk = model of get_solution_walks, tied to the code by the
   exact-output correspondence of C14) applied to the solver's values of a layer returns that walk   *)
Lemma residual_q_resid (L : list PathEnc.edge) (g : PathEnc.edge -> Q) (x : PathEnc.edge -> Z) :
  (forall e, In e L -> (g e == inject_Z (x e))%Q) ->
  residual_q (map (fun e => (e, g e)) L) = resid L x.
Proof.
  intros H. unfold residual_q, resid. induction L as [|e L IH]; [reflexivity|]. cbn [map flat_map].
  rewrite IH by (intros e' He'; apply H; right; exact He').
  assert (R : round_half_even (g e) = x e).
  { apply round_half_even_near; rewrite (H e (or_introl eq_refl)); lra. }
  rewrite R. reflexivity.
Qed.

Theorem walk_layer_solution_walk (I : walk_inst) (a : var -> Q) i :
  let G := w_graph I in let E := g_edges G in let s := g_src G in let t := g_snk G in
  wf_stg G -> Forall (sat_col a) (walk_cols I) -> Forall (sat_row a) (walk_rows I) ->
  o_allow_empty (w_opts I) = false -> In i (layers (w_k I)) ->
  exists w', solution_walk (map (fun e => (e, a (evar e i))) E) s t = Some (O, w') /\
             (forall e, In e E -> count_e e (pairs (s :: w' ++ [t])) = Z.to_nat (xint a i e)) /\
             (forall e, ~ In e E -> count_e e (pairs (s :: w' ++ [t])) = 0%nat).
Proof.
  intros G E s t WF Hc Hr Hae Hi.
  destruct (walk_layer_is_one_walk I a WF Hc Hr i Hae Hi) as (w & R & Hh & Hl & _ & C1 & C0).
  fold G E s t in R, Hh, Hl, C1, C0.
  destruct (strip_st_spec s t w (PathEncProofs.wf_st G (wfs_graph G WF)) Hh Hl) as (w' & Ew & S).
  exists w'. unfold solution_walk.
  rewrite (residual_q_resid E (fun e => a (evar e i)) (xint a i)).
  - rewrite R. cbn [length]. rewrite S. split; [reflexivity|]. rewrite <- Ew. split; assumption.
  - intros e He. apply (edge_val I a Hc i e Hi He).
Qed.
