(* C16: on integral data the integral optimum of MinErrorFlow is the real optimum.  Generic part: a balanced assignment (a
   circulation after contracting the nodes without conservation) with a non-integral edge contains an undirected cycle of
   non-integral edges (cut argument); pushing +-eps around it keeps the balance, and a cost that is affine between consecutive
   integers on every edge does not increase in one of the two directions; push until an edge becomes integral; iterate. *)
From Coq Require Import List NArith ZArith QArith Qround Lqa Bool Lia Permutation.
Import ListNotations.
From FP Require Import Lin Blocks BlocksProofs PathEnc PathEncProofs MiscEnc MiscEncProofs Reach ReachProofs1 MefBound MefChecked.
Set Default Timeout 60.
Open Scope Q_scope.

Definition intb (q : Q) : bool := Qeq_bool q (inject_Z (Qfloor q)).
Lemma intb_iff q : intb q = true <-> is_int q.
Proof.
  unfold intb. rewrite Qeq_bool_iff. split; [intros H; exists (Qfloor q); exact H|].
  intros [z Hz]. rewrite Hz at 2. rewrite Qfloor_Z. exact Hz.
Qed.

Lemma sumq_lin {A} (g h : A -> Q) (k : Q) l : sumq (fun x => g x + k * h x) l == sumq g l + k * sumq h l.
Proof. induction l as [|x l IH]; cbn [sumq]; [ring|]. rewrite IH. ring. Qed.

Lemma sumq_int {A} (g : A -> Q) l : (forall x, In x l -> is_int (g x)) -> is_int (sumq g l).
Proof.
  induction l as [|x l IH]; intros H; cbn [sumq]; [exists 0%Z; reflexivity|].
  destruct (H x (or_introl eq_refl)) as [z1 H1]. destruct IH as [z2 H2]; [intros w Hw; apply H; right; exact Hw|].
  exists (z1 + z2)%Z. rewrite H1, H2, inject_Z_plus. reflexivity.
Qed.

Lemma is_int_eq p q : p == q -> is_int p -> is_int q.
Proof. intros E [z H]. exists z. rewrite <- E. exact H. Qed.

(* a non-integer lies strictly between its floor and its floor + 1 *)
Lemma frac_between v : ~ is_int v -> inject_Z (Qfloor v) < v /\ v < inject_Z (Qfloor v) + 1.
Proof.
  intros H. pose proof (Qfloor_le v) as F1. pose proof (Qlt_floor v) as F2. rewrite inject_Z_plus in F2. change (inject_Z 1) with 1 in F2.
  split; [|exact F2]. destruct (Qlt_le_dec (inject_Z (Qfloor v)) v) as [C|C]; [exact C|]. exfalso. apply H. exists (Qfloor v). lra.
Qed.

Section Frac.
  Variables (src dst : edge -> node) (E : list edge).
  Hypothesis ND : NoDup E.

  Notation excq := (exc src dst E).
  Notation bal := (balanced src dst E).

  Lemma exc_lin y s k x : excq (fun e => y e + k * s e) x == excq y x + k * excq s x.
  Proof. unfold exc, infl, outfl. rewrite !sumq_lin. ring. Qed.

  Definition indq (e0 : edge) : edge -> Q := fun e => if eqe e e0 then 1 else 0.
  Lemma exc_indq e0 x : In e0 E -> excq (indq e0) x == ind (dst e0 =? x)%N - ind (src e0 =? x)%N.
  Proof.
    intros He. pose proof (exc_updq src dst E ND (fun _ => 0) e0 1 x He) as H. unfold updq in H. fold (indq e0) in H. rewrite H.
    assert (Z : excq (fun _ => 0) x == 0).
    { unfold exc, infl, outfl. rewrite !(sumq_zero (fun _ => 0)) by (intros; reflexivity). ring. }
    rewrite Z. ring.
  Qed.

  (* oriented chains: (e, true) traverses e forwards, (e, false) backwards *)
  Definition tl (p : edge * bool) : node := if snd p then src (fst p) else dst (fst p).
  Definition nxt (p : edge * bool) : node := if snd p then dst (fst p) else src (fst p).
  Definition sgq (b : bool) : Q := if b then 1 else - (1).

  Fixpoint ochain (a : node) (C : list (edge * bool)) (b : node) : Prop :=
    match C with [] => a = b | p :: C' => In (fst p) E /\ tl p = a /\ ochain (nxt p) C' b end.

  Definition sg (C : list (edge * bool)) : edge -> Q := fun e => sumq (fun p => if eqe e (fst p) then sgq (snd p) else 0) C.

  Lemma exc_sg x : forall C a b, ochain a C b -> excq (sg C) x == ind (b =? x)%N - ind (a =? x)%N.
  Proof.
    induction C as [|p C IH]; intros a b H; cbn [ochain] in H.
    - subst. unfold sg, exc, infl, outfl. cbn [sumq]. rewrite !(sumq_zero (fun _ => 0)) by (intros; reflexivity). ring.
    - destruct H as (He & Ht & H).
      assert (Ee : forall e, sg (p :: C) e == sg C e + sgq (snd p) * indq (fst p) e).
      { intros e. unfold sg, indq. cbn [sumq]. destruct (eqe e (fst p)); ring. }
      assert (Eexc : excq (sg (p :: C)) x == excq (fun e => sg C e + sgq (snd p) * indq (fst p) e) x).
      { unfold exc, infl, outfl. rewrite (sumq_ext (sg (p :: C)) (fun e => sg C e + sgq (snd p) * indq (fst p) e)) by (intros; apply Ee).
        rewrite (sumq_ext (sg (p :: C)) (fun e => sg C e + sgq (snd p) * indq (fst p) e) (filter (fun e => (src e =? x)%N) E)) by (intros; apply Ee). reflexivity. }
      rewrite Eexc, exc_lin, (IH _ _ H), (exc_indq _ x He). subst a. unfold tl, nxt, sgq. destruct (snd p); ring.
  Qed.

  Lemma ochain_app : forall C a b D c, ochain a C b -> ochain b D c -> ochain a (C ++ D) c.
  Proof. induction C as [|p C IH]; intros a b D c H1 H2; cbn [ochain app] in *; [subst; exact H2|]. destruct H1 as (H & H' & H''). repeat split; try assumption. eapply IH; eassumption. Qed.

  Lemma ochain_suffix : forall Q1 a p Q2 b, ochain a (Q1 ++ p :: Q2) b -> ochain (nxt p) Q2 b.
  Proof. induction Q1 as [|z Q1 IH]; intros a p Q2 b H; cbn [ochain app] in H; [tauto|]. destruct H as (_ & _ & H). eapply IH. exact H. Qed.

  Lemma ochain_simple : forall C a b, ochain a C b -> exists C', ochain a C' b /\ NoDup (a :: map nxt C') /\ incl C' C.
  Proof.
    induction C as [|p C IH]; intros a b H.
    - exists []. cbn. repeat split; [exact H|repeat constructor; intros []|intros x []].
    - cbn [ochain] in H. destruct H as (He & Hs & H). destruct (IH _ _ H) as (P1 & Hc & Hn & Hi).
      destruct (in_dec N.eq_dec a (nxt p :: map nxt P1)) as [Hin|Hout].
      + destruct Hin as [Ha|Hin].
        * exists P1. rewrite <- Ha. split; [exact Hc|]. split; [exact Hn|]. intros x Hx. right. apply Hi. exact Hx.
        * apply in_map_iff in Hin. destruct Hin as (p' & Hp' & Hin'). apply in_split in Hin'. destruct Hin' as (Q1 & Q2 & ->).
          exists Q2. split; [rewrite <- Hp'; eapply ochain_suffix; exact Hc|]. split.
          -- rewrite map_app in Hn. cbn [map] in Hn. rewrite Hp' in Hn. apply (NoDup_suffix (nxt p :: map nxt Q1) (a :: map nxt Q2)). exact Hn.
          -- intros x Hx. right. apply Hi. apply in_or_app. right. right. exact Hx.
      + exists (p :: P1). cbn [ochain map]. split; [repeat split; assumption|]. split; [constructor; assumption|].
        intros x [<-|Hx]; [left; reflexivity|right; apply Hi; exact Hx].
  Qed.

  Lemma endpoints_in : forall C a b, ochain a C b -> forall q, In q C -> In (tl q) (a :: map nxt C) /\ In (nxt q) (map nxt C).
  Proof.
    induction C as [|p C IH]; intros a b H q Hq; [destruct Hq|]. cbn [ochain] in H. destruct H as (_ & Ht & H). destruct Hq as [<-|Hq].
    - split; [left; symmetry; exact Ht|left; reflexivity].
    - destruct (IH _ _ H q Hq) as [H1 H2]. split; [right; exact H1|right; exact H2].
  Qed.

  Lemma tl_nxt_ends q : (tl q = src (fst q) /\ nxt q = dst (fst q)) \/ (tl q = dst (fst q) /\ nxt q = src (fst q)).
  Proof. unfold tl, nxt. destruct (snd q); tauto. Qed.

  (* a node-simple oriented chain uses every edge at most once *)
  Lemma simple_edges : forall C a b, ochain a C b -> NoDup (a :: map nxt C) -> NoDup (map fst C).
  Proof.
    induction C as [|p C IH]; intros a b H Hn; [constructor|]. cbn [ochain] in H. destruct H as (_ & Ht & H).
    inversion Hn as [|? ? Ha Hn']; subst. cbn [map] in *. constructor; [|apply (IH _ _ H Hn')].
    intros Hin. apply in_map_iff in Hin. destruct Hin as (q & Eq & Hq). destruct (endpoints_in _ _ _ H q Hq) as [H1 H2].
    assert (H2' : In (nxt q) (nxt p :: map nxt C)) by (right; exact H2).
    apply Ha. destruct (tl_nxt_ends q) as [[A B]|[A B]]; destruct (tl_nxt_ends p) as [[A' B']|[A' B']]; rewrite Eq in *; congruence.
  Qed.

  Lemma sumq_split_one (g : edge -> Q) e0 : forall l, NoDup l -> In e0 l ->
    sumq g l == g e0 + sumq g (filter (fun e => negb (eqe e e0)) l).
  Proof.
    induction l as [|z l IH]; intros Hn Hin; [destruct Hin|]. inversion Hn as [|? ? Hz Hn']; subst. cbn [sumq filter].
    destruct (eqe_spec z e0) as [->|Hne]; cbn [negb].
    - assert (Efl : filter (fun e => negb (eqe e e0)) l = l).
      { clear - Hz. induction l as [|w l IHl]; [reflexivity|]. cbn [filter]. destruct (eqe_spec w e0) as [->|Hw]; cbn [negb].
        - exfalso. apply Hz. left. reflexivity.
        - rewrite IHl; [reflexivity|]. intros C. apply Hz. right. exact C. }
      rewrite Efl. ring.
    - destruct Hin as [->|Hin]; [congruence|]. cbn [sumq]. rewrite (IH Hn' Hin). ring.
  Qed.

  Definition frac (y : edge -> Q) (e : edge) : bool := negb (intb (y e)).
  Lemma frac_true y e : frac y e = true <-> ~ is_int (y e).
  Proof. unfold frac. rewrite negb_true_iff. split; [intros H C; apply intb_iff in C; congruence|intros H; apply not_true_is_false; intros C; apply H; apply intb_iff; exact C]. Qed.
  Lemma frac_false y e : frac y e = false <-> is_int (y e).
  Proof. unfold frac. rewrite negb_false_iff. apply intb_iff. Qed.

  Section Cycle.
    Variable y : edge -> Q.
    Hypothesis balY : bal y.
    Variable e0 : edge.
    Hypothesis He0 : In e0 E.
    Hypothesis Hf0 : frac y e0 = true.

    Definition Fp (e : edge) : bool := frac y e && negb (eqe e e0).
    Definition stepu (x : node) : list node :=
      map dst (filter (fun e => Fp e && (src e =? x)%N) E) ++ map src (filter (fun e => Fp e && (dst e =? x)%N) E).
    Definition Tu : list node := closure (Unodes src dst E) stepu (dst e0).

    Lemma Tu_spec z : In z Tu <-> reach stepu (dst e0) z.
    Proof.
      unfold Tu. apply closure_correct_N.
      - apply NoDup_nodup.
      - intros x w _ Hw. unfold stepu in Hw. apply in_app_or in Hw. destruct Hw as [Hw|Hw]; apply in_map_iff in Hw; destruct Hw as (e & <- & He);
          apply filter_In in He; apply nodup_In; apply in_or_app; [right|left]; apply in_map; tauto.
      - apply nodup_In. apply in_or_app. right. apply in_map. exact He0.
    Qed.

    Lemma Tu_closed e : In e E -> Fp e = true -> (In (src e) Tu <-> In (dst e) Tu).
    Proof.
      intros He Hp. split; intros H; apply Tu_spec; apply Tu_spec in H; (eapply reach_step; [exact H|]); unfold stepu; apply in_or_app; [left|right];
        apply in_map; apply filter_In; (split; [exact He|]); rewrite Hp, N.eqb_refl; reflexivity.
    Qed.

    Lemma reach_ochain z : reach stepu (dst e0) z -> exists P, ochain (dst e0) P z /\ forall p, In p P -> Fp (fst p) = true.
    Proof.
      induction 1 as [|x w _ (P & Hc & Ha) Hw].
      - exists []. split; [reflexivity|intros p []].
      - unfold stepu in Hw. apply in_app_or in Hw. destruct Hw as [Hw|Hw]; apply in_map_iff in Hw; destruct Hw as (e & <- & He);
          apply filter_In in He; destruct He as [He Hp]; apply andb_true_iff in Hp; destruct Hp as [Hab Hs]; apply N.eqb_eq in Hs.
        + exists (P ++ [(e, true)]). split; [eapply ochain_app; [exact Hc|]; cbn; repeat split; assumption|].
          intros p Hp. apply in_app_or in Hp. destruct Hp as [Hp|[<-|[]]]; [apply Ha; exact Hp|exact Hab].
        + exists (P ++ [(e, false)]). split; [eapply ochain_app; [exact Hc|]; cbn; repeat split; assumption|].
          intros p Hp. apply in_app_or in Hp. destruct Hp as [Hp|[<-|[]]]; [apply Ha; exact Hp|exact Hab].
    Qed.

    (* the cut argument: without e0, its tail is still connected to its head through non-integral edges *)
    Lemma tail_connected : In (src e0) Tu.
    Proof.
      destruct (memN (src e0) Tu) eqn:Hm; [apply memN_In; exact Hm|]. exfalso.
      assert (HT : NoDup Tu) by apply closure_NoDup.
      assert (Hsum : sumq y (filter (fun e => memN (dst e) Tu) E) == sumq y (filter (fun e => memN (src e) Tu) E)).
      { rewrite <- (sumq_by_key y dst E Tu HT), <- (sumq_by_key y src E Tu HT).
        assert (Z : sumq (fun x => excq y x) Tu == 0) by (apply sumq_zero; intros x _; apply balY).
        unfold exc in Z. rewrite sumq_sub in Z. unfold infl, outfl in Z. lra. }
      rewrite (sumq_filter_split y (fun e => memN (src e) Tu) (filter (fun e => memN (dst e) Tu) E)) in Hsum.
      rewrite (sumq_filter_split y (fun e => memN (dst e) Tu) (filter (fun e => memN (src e) Tu) E)) in Hsum.
      rewrite !filter_filter in Hsum.
      assert (Eb : filter (fun e => memN (dst e) Tu && memN (src e) Tu) E = filter (fun e => memN (src e) Tu && memN (dst e) Tu) E)
        by (apply filter_ext_in'; intros e _; apply andb_comm).
      rewrite Eb in Hsum.
      set (ent := filter (fun e => memN (dst e) Tu && negb (memN (src e) Tu)) E) in *.
      set (lea := filter (fun e => memN (src e) Tu && negb (memN (dst e) Tu)) E) in *.
      assert (Hent0 : In e0 ent).
      { apply filter_In. split; [exact He0|]. rewrite Hm. cbn [negb]. rewrite andb_true_r. apply memN_In. apply Tu_spec. apply reach_refl. }
      assert (Hcross : forall e, In e E -> memN (src e) Tu <> memN (dst e) Tu -> e <> e0 -> is_int (y e)).
      { intros e He Hd Hne. apply frac_false. destruct (frac y e) eqn:Hf; [|reflexivity]. exfalso. apply Hd.
        assert (Hp : Fp e = true). { unfold Fp. rewrite Hf. destruct (eqe_spec e e0); [congruence|reflexivity]. }
        pose proof (Tu_closed e He Hp) as Hiff. destruct (memN (src e) Tu) eqn:A, (memN (dst e) Tu) eqn:B; try reflexivity.
        - apply memN_In in A. apply Hiff in A. apply memN_In in A. congruence.
        - apply memN_In in B. apply Hiff in B. apply memN_In in B. congruence. }
      assert (NDent : NoDup ent) by (apply NoDup_filter; exact ND).
      rewrite (sumq_split_one y e0 ent NDent Hent0) in Hsum.
      assert (I1 : is_int (sumq y lea)).
      { apply sumq_int. intros e He. apply filter_In in He. destruct He as [He Hp]. apply andb_true_iff in Hp. destruct Hp as [A B]. apply negb_true_iff in B.
        apply Hcross; [exact He|congruence|]. intros ->. apply memN_In in A. apply memN_In in A. congruence. }
      assert (I2 : is_int (sumq y (filter (fun e => negb (eqe e e0)) ent))).
      { apply sumq_int. intros e He. apply filter_In in He. destruct He as [He Hne]. apply filter_In in He. destruct He as [He Hp].
        apply andb_true_iff in Hp. destruct Hp as [A B]. apply negb_true_iff in B. apply Hcross; [exact He|congruence|].
        intros ->. apply negb_true_iff in Hne. assert (eqe e0 e0 = true) by (destruct (eqe_spec e0 e0); congruence). congruence. }
      apply (proj1 (frac_true y e0) Hf0). apply (is_int_eq (sumq y lea - sumq y (filter (fun e => negb (eqe e e0)) ent))); [lra|].
      apply is_int_sub; assumption.
    Qed.

    Lemma frac_cycle : exists C, ochain (src e0) C (src e0) /\ NoDup (map fst C) /\ C <> [] /\
      forall p, In p C -> In (fst p) E /\ frac y (fst p) = true.
    Proof.
      pose proof tail_connected as Ht. apply Tu_spec in Ht. destruct (reach_ochain _ Ht) as (P0 & Hc0 & Ha0).
      destruct (ochain_simple _ _ _ Hc0) as (P1 & Hc & Hn & Hi).
      exists ((e0, true) :: P1). split; [cbn; repeat split; [exact He0|exact Hc]|]. split; [|split; [discriminate|]].
      - cbn [map fst]. constructor; [|apply (simple_edges _ _ _ Hc Hn)]. intros Hin. apply in_map_iff in Hin. destruct Hin as (q & Eq & Hq).
        pose proof (Ha0 q (Hi q Hq)) as Hp. unfold Fp in Hp. rewrite Eq in Hp. apply andb_true_iff in Hp. destruct Hp as [_ Hp].
        assert (eqe e0 e0 = true) by (destruct (eqe_spec e0 e0); congruence). rewrite H in Hp. discriminate.
      - intros p [<-|Hp]; [split; [exact He0|exact Hf0]|]. pose proof (Ha0 p (Hi p Hp)) as Hpp. unfold Fp in Hpp. apply andb_true_iff in Hpp.
        split; [|tauto]. clear - Hc Hp. revert Hc Hp. generalize (dst e0). induction P1 as [|q P IH]; intros a Hc Hp; [destruct Hp|].
        cbn in Hc. destruct Hc as (Hq & _ & Hc). destruct Hp as [<-|Hp]; [exact Hq|eapply IH; eassumption].
    Qed.
  End Cycle.

  (* values of the sign function of an edge-simple oriented chain *)
  Lemma sg_out : forall C e, ~ In e (map fst C) -> sg C e == 0.
  Proof.
    induction C as [|p C IH]; intros e H; unfold sg in *; cbn [sumq]; [reflexivity|].
    destruct (eqe_spec e (fst p)) as [->|Hne]; [exfalso; apply H; left; reflexivity|]. rewrite IH; [ring|]. intros C0. apply H. right. exact C0.
  Qed.
  Lemma sg_in : forall C p, NoDup (map fst C) -> In p C -> sg C (fst p) == sgq (snd p).
  Proof.
    induction C as [|q C IH]; intros p Hn Hp; [destruct Hp|]. cbn [map] in Hn. inversion Hn as [|? ? Hq Hn']; subst. unfold sg. cbn [sumq]. fold (sg C (fst p)).
    destruct Hp as [->|Hp].
    - assert (eqe (fst p) (fst p) = true) by (destruct (eqe_spec (fst p) (fst p)); congruence). rewrite H. rewrite (sg_out C (fst p) Hq). ring.
    - destruct (eqe_spec (fst p) (fst q)) as [Eq|Hne]; [exfalso; apply Hq; rewrite <- Eq; apply in_map; exact Hp|]. rewrite (IH p Hn' Hp). ring.
  Qed.

  Fixpoint argminp {A} (f : A -> Q) (x : A) (l : list A) : A :=
    match l with [] => x | z :: r => let m := argminp f z r in if Qle_bool (f x) (f m) then x else m end.
  Lemma argminp_spec {A} (f : A -> Q) : forall l x, In (argminp f x l) (x :: l) /\ forall z, In z (x :: l) -> f (argminp f x l) <= f z.
  Proof.
    induction l as [|w l IH]; intros x; cbn [argminp].
    - split; [left; reflexivity|]. intros z [<-|[]]. lra.
    - destruct (IH w) as [Hin Hle]. destruct (Qle_bool (f x) (f (argminp f w l))) eqn:Eq.
      + apply Qle_bool_iff in Eq. split; [left; reflexivity|]. intros z [<-|Hz]; [lra|]. specialize (Hle z Hz). lra.
      + assert (f (argminp f w l) < f x). { apply Qnot_le_lt. intros C. apply Qle_bool_iff in C. congruence. }
        split; [right; exact Hin|]. intros z [<-|Hz]; [lra|]. apply Hle. exact Hz.
  Qed.

  (* ---- the cost: a sum of per-edge functions that are affine between consecutive integers ---- *)
  Variable c : edge -> Q -> Q.
  Variable slope : edge -> Z -> Q.
  Hypothesis c_proper : forall e v w, v == w -> c e v == c e w.
  Hypothesis c_affine : forall e z v, In e E -> inject_Z z <= v <= inject_Z z + 1 -> c e v == c e (inject_Z z) + slope e z * (v - inject_Z z).
  Definition costq (y : edge -> Q) : Q := sumq (fun e => c e (y e)) E.

  Lemma in_dec_edge (e : edge) (l : list edge) : {In e l} + {~ In e l}.
  Proof. apply in_dec. intros a b. destruct (eqe_spec a b); [left|right]; assumption. Qed.

  Lemma floor_nonneg v : 0 <= v -> 0 <= inject_Z (Qfloor v).
  Proof. intros H. apply Qfloor_resp_le in H. change (Qfloor 0) with 0%Z in H. change 0 with (inject_Z 0). rewrite <- Zle_Qle. exact H. Qed.

  Lemma is_int_floor1 v : is_int (inject_Z (Qfloor v) + 1).
  Proof. exists (Qfloor v + 1)%Z. rewrite inject_Z_plus. reflexivity. Qed.

  (* pushing around an undirected cycle of non-integral edges *)
  Lemma push_step y C a : (forall e, In e E -> 0 <= y e) -> bal y -> ochain a C a -> NoDup (map fst C) -> C <> [] ->
    (forall p, In p C -> In (fst p) E /\ frac y (fst p) = true) ->
    exists y1, bal y1 /\ (forall e, In e E -> 0 <= y1 e) /\ costq y1 <= costq y /\
               (length (filter (frac y1) E) < length (filter (frac y) E))%nat.
  Proof.
    intros Hpos Hbal Hch Hnd Hne HC.
    set (fl := fun e => inject_Z (Qfloor (y e))).
    set (roomP := fun p : edge * bool => if snd p then fl (fst p) + 1 - y (fst p) else y (fst p) - fl (fst p)).
    set (roomM := fun p : edge * bool => if snd p then y (fst p) - fl (fst p) else fl (fst p) + 1 - y (fst p)).
    assert (Hbetween : forall p, In p C -> fl (fst p) < y (fst p) /\ y (fst p) < fl (fst p) + 1).
    { intros p Hp. apply frac_between. apply frac_true. apply (HC p Hp). }
    destruct C as [|p0 C']; [congruence|]. set (Cc := p0 :: C') in *.
    destruct (argminp_spec roomP C' p0) as [HinP HleP]. destruct (argminp_spec roomM C' p0) as [HinM HleM].
    set (pP := argminp roomP p0 C') in *. set (pM := argminp roomM p0 C') in *.
    set (dP := roomP pP). set (dM := roomM pM).
    assert (HdP : 0 < dP) by (unfold dP, roomP; destruct (Hbetween pP HinP); destruct (snd pP); lra).
    assert (HdM : 0 < dM) by (unfold dM, roomM; destruct (Hbetween pM HinM); destruct (snd pM); lra).
    set (S := sumq (fun e => slope e (Qfloor (y e)) * sg Cc e) E).
    (* everything for an eps in [-dM, dP] *)
    assert (Hgen : forall eps, - dM <= eps <= dP ->
              let y1 := fun e => y e + eps * sg Cc e in
              bal y1 /\ (forall e, In e E -> 0 <= y1 e) /\ costq y1 == costq y + eps * S /\
              (forall e, In e E -> frac y1 e = true -> frac y e = true) /\
              (forall p, In p Cc -> y1 (fst p) == y (fst p) + eps * sgq (snd p))).
    { intros eps Heps y1.
      assert (Hval : forall p, In p Cc -> y1 (fst p) == y (fst p) + eps * sgq (snd p)).
      { intros p Hp. unfold y1. rewrite (sg_in Cc p Hnd Hp). reflexivity. }
      assert (Hrange : forall p, In p Cc -> fl (fst p) <= y1 (fst p) <= fl (fst p) + 1).
      { intros p Hp. rewrite (Hval p Hp). pose proof (HleP p Hp) as A. pose proof (HleM p Hp) as B. fold pP in A. fold pM in B. fold dP in A. fold dM in B.
        unfold roomP in A. unfold roomM in B. unfold sgq. destruct (snd p); lra. }
      assert (Hout : forall e, ~ In e (map fst Cc) -> y1 e == y e).
      { intros e He. unfold y1. rewrite (sg_out Cc e He). ring. }
      split; [|split; [|split; [|split]]].
      - intros x. unfold y1. rewrite (exc_lin y (sg Cc) eps x), (Hbal x), (exc_sg x Cc a a Hch). ring.
      - intros e He. destruct (in_dec_edge e (map fst Cc)) as [Hin|Ho].
        + apply in_map_iff in Hin. destruct Hin as (p & <- & Hp). destruct (Hrange p Hp) as [A _].
          pose proof (floor_nonneg (y (fst p)) (Hpos _ (proj1 (HC p Hp)))). unfold fl in A. lra.
        + rewrite (Hout e Ho). apply Hpos. exact He.
      - unfold costq, S. rewrite <- sumq_lin. apply sumq_ext. intros e He. destruct (in_dec_edge e (map fst Cc)) as [Hin|Ho].
        + apply in_map_iff in Hin. destruct Hin as (p & <- & Hp). destruct (Hbetween p Hp) as [B1 B2].
          rewrite (c_affine (fst p) (Qfloor (y (fst p))) (y1 (fst p)) (proj1 (HC p Hp)) (Hrange p Hp)).
          rewrite (c_affine (fst p) (Qfloor (y (fst p))) (y (fst p)) (proj1 (HC p Hp)) ltac:(unfold fl in *; lra)).
          unfold y1. ring.
        + rewrite (c_proper e _ _ (Hout e Ho)). rewrite (sg_out Cc e Ho). ring.
      - intros e He Hf. destruct (in_dec_edge e (map fst Cc)) as [Hin|Ho].
        + apply in_map_iff in Hin. destruct Hin as (p & <- & Hp). apply (HC p Hp).
        + apply frac_true. apply frac_true in Hf. intros Hi. apply Hf. apply (is_int_eq (y e)); [symmetry; apply Hout; exact Ho|exact Hi].
      - exact Hval. }
    destruct (Qlt_le_dec 0 S) as [HS|HS].
    - (* push backwards by dM *)
      destruct (Hgen (- dM) ltac:(lra)) as (B1 & B2 & B3 & B4 & B5). cbv zeta in *.
      exists (fun e => y e + - dM * sg Cc e). split; [exact B1|]. split; [exact B2|]. split; [rewrite B3; nra|].
      apply (filter_length_lt _ _ E (fst pM)); [exact B4|apply (HC pM HinM)|apply (HC pM HinM)|].
      apply frac_false. apply (is_int_eq _ _ (Qeq_sym _ _ (B5 pM HinM))). unfold dM, roomM, sgq, fl. destruct (snd pM).
      + apply (is_int_eq (inject_Z (Qfloor (y (fst pM))))); [ring|exists (Qfloor (y (fst pM))); reflexivity].
      + apply (is_int_eq (inject_Z (Qfloor (y (fst pM))) + 1)); [ring|apply is_int_floor1].
    - destruct (Hgen dP ltac:(lra)) as (B1 & B2 & B3 & B4 & B5). cbv zeta in *.
      exists (fun e => y e + dP * sg Cc e). split; [exact B1|]. split; [exact B2|]. split; [rewrite B3; nra|].
      apply (filter_length_lt _ _ E (fst pP)); [exact B4|apply (HC pP HinP)|apply (HC pP HinP)|].
      apply frac_false. apply (is_int_eq _ _ (Qeq_sym _ _ (B5 pP HinP))). unfold dP, roomP, sgq, fl. destruct (snd pP).
      + apply (is_int_eq (inject_Z (Qfloor (y (fst pP))) + 1)); [ring|apply is_int_floor1].
      + apply (is_int_eq (inject_Z (Qfloor (y (fst pP))))); [ring|exists (Qfloor (y (fst pP))); reflexivity].
  Qed.

  (* every non-negative balanced assignment is matched or beaten by an integral one *)
  Theorem integral_no_worse : forall n y, (length (filter (frac y) E) <= n)%nat -> (forall e, In e E -> 0 <= y e) -> bal y ->
    exists y', bal y' /\ (forall e, In e E -> 0 <= y' e) /\ (forall e, In e E -> is_int (y' e)) /\ costq y' <= costq y.
  Proof.
    induction n as [|n IH]; intros y Hc Hpos Hb.
    - exists y. split; [exact Hb|]. split; [exact Hpos|]. split; [|lra]. intros e He. apply frac_false. destruct (frac y e) eqn:Hf; [|reflexivity]. exfalso.
      assert (In e (filter (frac y) E)) by (apply filter_In; split; assumption). destruct (filter (frac y) E); [destruct H|cbn in Hc; lia].
    - destruct (existsb (frac y) E) eqn:Ex.
      + apply existsb_exists in Ex. destruct Ex as (e0 & He0 & Hf0).
        destruct (frac_cycle y Hb e0 He0 Hf0) as (C & Hch & Hnd & Hne & HC).
        destruct (push_step y C (src e0) Hpos Hb Hch Hnd Hne HC) as (y1 & B1 & B2 & B3 & B4).
        destruct (IH y1 ltac:(lia) B2 B1) as (y' & A1 & A2 & A3 & A4). exists y'. repeat split; try assumption. lra.
      + exists y. split; [exact Hb|]. split; [exact Hpos|]. split; [|lra]. intros e He. apply frac_false. destruct (frac y e) eqn:Hf; [|reflexivity].
        exfalso. assert (existsb (frac y) E = true) by (apply existsb_exists; exists e; split; assumption). congruence.
  Qed.
End Frac.

(* ---------------------------------------------------------------- MinErrorFlow on integral data *)
Lemma absd_le f v : v <= f -> absd f v == f - v.
Proof. intros H. destruct (absd_spec f v) as (A1 & A2 & [A|A]); [exact A|lra]. Qed.
Lemma absd_ge f v : f <= v -> absd f v == v - f.
Proof. intros H. destruct (absd_spec f v) as (A1 & A2 & [A|A]); [lra|exact A]. Qed.
Lemma absd_proper f v w : v == w -> absd f v == absd f w.
Proof.
  intros Ev. destruct (Qlt_le_dec f v) as [C|C].
  - rewrite (absd_ge f v), (absd_ge f w) by lra. lra.
  - rewrite (absd_le f v), (absd_le f w) by lra. lra.
Qed.

Lemma sumq_add' {A} (g h : A -> Q) l : sumq g l + sumq h l == sumq (fun x => g x + h x) l.
Proof. induction l as [|x l IH]; cbn [sumq]; [ring|]. rewrite <- IH. ring. Qed.

Lemma sumq_filter_if {A} (g : A -> Q) (p : A -> bool) l : sumq g (filter p l) == sumq (fun x => if p x then g x else 0) l.
Proof. induction l as [|x l IH]; cbn [filter sumq]; [reflexivity|]. destruct (p x); cbn [sumq]; rewrite IH; ring. Qed.

Section MefIntegral.
  Variable I : mef_inst.
  Let E := mef_edges I.
  Hypothesis ND : NoDup E.
  Hypothesis f_int : forall e, In e E -> is_int (fval I e).

  (* a non-negative RATIONAL flow with conservation where the model requires it *)
  Definition is_flow_real (y : edge -> Q) : Prop :=
    (forall e, In e E -> 0 <= y e) /\
    (forall v, In v (mef_nodes I) -> conserved I v = true -> sumq y (mef_in_edges E v) == sumq y (out_edges E v)).

  Definition sob (e : edge) : bool :=
    Qlt_bool 0 (mef_lambda I) && match mef_src I with Some s => (fst e =? s)%N | None => false end.
  Definition cedge (e : edge) (v : Q) : Q :=
    (if ignored I e then 0 else scale_of I e * absd (fval I e) v) + (if sob e then mef_lambda I * v else 0).
  Definition sledge (e : edge) (z : Z) : Q :=
    (if ignored I e then 0 else scale_of I e * (if Qle_bool (fval I e) (inject_Z z) then 1 else - (1))) + (if sob e then mef_lambda I else 0).

  Lemma flow_cost_edges y : flow_cost I y == sumq (fun e => cedge e (y e)) E.
  Proof.
    unfold flow_cost, charged, src_out, cedge. fold E. rewrite sumq_filter_if.
    assert (Hs : mef_lambda I * sumq y (if Qlt_bool 0 (mef_lambda I) then match mef_src I with Some s => out_edges E s | None => [] end else []) ==
                 sumq (fun e => if sob e then mef_lambda I * y e else 0) E).
    { unfold sob. destruct (Qlt_bool 0 (mef_lambda I)); cbn [andb].
      - destruct (mef_src I) as [s|].
        + unfold out_edges. rewrite sumq_filter_if.
          clear. induction E as [|x l IH]; cbn [sumq]; [ring|]. rewrite <- IH. destruct (fst x =? s)%N; ring.
        + cbn [sumq]. rewrite (sumq_zero (fun _ => 0)) by (intros; reflexivity). ring.
      - cbn [sumq]. rewrite (sumq_zero (fun _ => 0)) by (intros; reflexivity). ring. }
    rewrite Hs, sumq_add'. apply sumq_ext. intros e _. cbn beta. destruct (ignored I e); cbn [negb]; ring.
  Qed.

  Lemma cedge_proper e v w : v == w -> cedge e v == cedge e w.
  Proof.
    intros H. unfold cedge. pose proof (absd_proper (fval I e) v w H) as Ha.
    destruct (ignored I e), (sob e); try rewrite Ha; try rewrite H; reflexivity.
  Qed.

  Lemma cedge_affine e z v : In e E -> inject_Z z <= v <= inject_Z z + 1 ->
    cedge e v == cedge e (inject_Z z) + sledge e z * (v - inject_Z z).
  Proof.
    intros He [H1 H2]. unfold cedge, sledge. destruct (f_int e He) as [zf Hf].
    destruct (Qle_bool (fval I e) (inject_Z z)) eqn:Ef.
    - apply Qle_bool_iff in Ef. pose proof (absd_ge (fval I e) v ltac:(lra)) as A1. pose proof (absd_ge (fval I e) (inject_Z z) ltac:(lra)) as A2.
      destruct (ignored I e), (sob e); try rewrite A1; try rewrite A2; ring.
    - assert (Hlt : inject_Z z < fval I e). { apply Qnot_le_lt. intros C. apply Qle_bool_iff in C. congruence. }
      assert (Hge : inject_Z z + 1 <= fval I e).
      { rewrite Hf in *. rewrite <- Zlt_Qlt in Hlt. change 1 with (inject_Z 1). rewrite <- inject_Z_plus, <- Zle_Qle. lia. }
      pose proof (absd_le (fval I e) v ltac:(lra)) as A1. pose proof (absd_le (fval I e) (inject_Z z) ltac:(lra)) as A2.
      destruct (ignored I e), (sob e); try rewrite A1; try rewrite A2; ring.
  Qed.

  (* on integral weights every rational flow is matched or beaten by an INTEGRAL flow *)
  Theorem mef_integral_no_worse y : is_flow_real y ->
    exists y', is_flow_real y' /\ (forall e, In e E -> is_int (y' e)) /\ flow_cost I y' <= flow_cost I y.
  Proof.
    intros [Hpos Hc].
    destruct (integral_no_worse (psrc I) (pdst I) E ND cedge sledge cedge_proper cedge_affine
                (length (filter (frac y) E)) y (le_n _) Hpos (proj2 (balanced_iff I y) Hc)) as (y' & B1 & B2 & B3 & B4).
    exists y'. split; [split; [exact B2|apply (proj1 (balanced_iff I y')); exact B1]|]. split; [exact B3|].
    rewrite !flow_cost_edges. exact B4.
  Qed.
End MefIntegral.

(* THE INTEGRAL OPTIMUM IS THE REAL OPTIMUM: for weight_type = int on integral non-negative weights an optimal solution of the
   rows (solver specification) is a closest flow among ALL non-negative conserving RATIONAL flows *)
Theorem mef_integral_optimum_is_real_optimum (I : mef_inst) (a : var -> Q) :
  mef_int I = true -> mef_domain_b I = true ->
  sat a (encode_mef I) -> (forall b, sat b (encode_mef I) -> obj_le (encode_mef I) a b) ->
  forall y, is_flow_real I y -> flow_cost I (xof a) <= flow_cost I y.
Proof.
  intros Hint Hd Hsat Hopt y Hy. destruct (mef_domain_b_sound I Hd) as (H1 & H2 & H3 & H4).
  destruct (mef_integral_no_worse I H1 (H3 Hint) y Hy) as (y' & [Hp' Hc'] & Hi' & Hle).
  destruct (mef_optimal_is_closest_full I a H1 H2 H3 H4 Hsat Hopt) as [_ Hbest].
  assert (Hnb : is_flow_nb I y') by (split; [intros e He; split; [apply Hp'; exact He|intros _; apply Hi'; exact He]|exact Hc']).
  specialize (Hbest y' Hnb). lra.
Qed.

(* non-vacuity: two parallel routes s->a->t (weights 1, 0) and s->b->t (weights 0, 1): every value u in [0,1] on a route costs
   |1-u| + u = 1, so the fractional flow 1/2 everywhere and the integral flow 0 everywhere have the same cost 2 *)
Definition ex_frac : mef_inst :=
  {| mef_nodes := [0; 1; 2; 3]%N; mef_edges := [(0, 1); (1, 3); (0, 2); (2, 3)]%N;
     mef_flow := [((0, 1)%N, 1); ((1, 3)%N, 0); ((0, 2)%N, 0); ((2, 3)%N, 1)];
     mef_ignore := []; mef_scale := []; mef_lambda := 0; mef_src := None; mef_int := true |}.
Lemma ex_frac_flows : mef_domain_b ex_frac = true /\ is_flow_real ex_frac (fun _ => 1 # 2) /\ is_flow_real ex_frac (fun _ => 0) /\
  ~ is_int (1 # 2) /\ flow_cost ex_frac (fun _ => 1 # 2) == 2 /\ flow_cost ex_frac (fun _ => 0) == 2.
Proof.
  split; [vm_compute; reflexivity|]. split; [|split; [|split; [|split]]].
  - split; [intros e _; lra|]. intros v [<-|[<-|[<-|[<-|[]]]]] H; try discriminate H; vm_compute; reflexivity.
  - split; [intros e _; lra|]. intros v [<-|[<-|[<-|[<-|[]]]]] H; try discriminate H; vm_compute; reflexivity.
  - intros [z Hz]. unfold Qeq in Hz. cbn in Hz. lia.
  - vm_compute. reflexivity.
  - vm_compute. reflexivity.
Qed.
