(* NodeExpProofs — proofs about NodeExp.v (C11): names, round trips, ignore list, edge set of the
   expansion, correspondence of routes. *)
From Coq Require Import List String Ascii Bool Arith ZArith Lia.
Import ListNotations.
From FP Require Import NodeExp.
Local Open Scope string_scope.
Local Open Scope list_scope.
Set Default Timeout 30.

(* ------------------------------------------------------------------ strings / slices *)
Lemma slen_append a b : String.length (String.append a b) = String.length a + String.length b.
Proof. induction a; cbn; auto. Qed.

Lemma sfirstn_append a b : ne_sfirstn (String.length a) (String.append a b) = a.
Proof. induction a; cbn; [destruct b; reflexivity | now rewrite IHa]. Qed.

Lemma sskipn_append a b : ne_sskipn (String.length a) (String.append a b) = b.
Proof. induction a; cbn; auto. Qed.

Lemma drop_last2_append2 v (c d : ascii) :
  ne_drop_last2 (String.append v (String c (String d EmptyString))) = v.
Proof.
  unfold ne_drop_last2. rewrite slen_append. cbn [String.length].
  replace (String.length v + 2 - 2) with (String.length v) by lia. apply sfirstn_append.
Qed.
Lemma last2_append2 v (c d : ascii) :
  ne_last2 (String.append v (String c (String d EmptyString))) = String c (String d EmptyString).
Proof.
  unfold ne_last2. rewrite slen_append. cbn [String.length].
  replace (String.length v + 2 - 2) with (String.length v) by lia. apply sskipn_append.
Qed.

Lemma drop_last2_exp0 v : ne_drop_last2 (ne_exp0 v) = v. Proof. apply drop_last2_append2. Qed.
Lemma drop_last2_exp1 v : ne_drop_last2 (ne_exp1 v) = v. Proof. apply drop_last2_append2. Qed.
Lemma last2_exp0 v : ne_last2 (ne_exp0 v) = ".0". Proof. apply last2_append2. Qed.
Lemma last2_exp1 v : ne_last2 (ne_exp1 v) = ".1". Proof. apply last2_append2. Qed.

(* injectivity and disjointness of the expanded names — for ALL names, including names that
   themselves contain dots or end in ".0"/".1", and the empty name *)
Lemma exp0_inj u v : ne_exp0 u = ne_exp0 v -> u = v.
Proof. intros H. apply (f_equal ne_drop_last2) in H. now rewrite !drop_last2_exp0 in H. Qed.
Lemma exp1_inj u v : ne_exp1 u = ne_exp1 v -> u = v.
Proof. intros H. apply (f_equal ne_drop_last2) in H. now rewrite !drop_last2_exp1 in H. Qed.
Lemma exp0_neq_exp1 u v : ne_exp0 u <> ne_exp1 v.
Proof. intros H. apply (f_equal ne_last2) in H. rewrite last2_exp0, last2_exp1 in H. discriminate. Qed.

(* ------------------------------------------------------------------ get_condensed_paths *)
Lemma is_node_true G v : ne_is_node G v = true <-> In v (map ne_nm G).
Proof.
  unfold ne_is_node. rewrite existsb_exists. split.
  - intros [nd [Hin He]]. apply String.eqb_eq in He. subst. now apply in_map.
  - intros H. apply in_map_iff in H. destruct H as [nd [<- Hin]]. exists nd. split; auto. apply String.eqb_refl.
Qed.

(* condensing the expansion of ANY path of the original graph gives the path back.  Preconditions on
   names: the nodes of the path are nodes of G and none of them IS the synthetic global source/sink
   name ('source'/'sink' + str(id(graph object))).  No other restriction: empty names, names with dots,
   names ending in ".0"/".1" are fine; the empty path and single-node paths are instances. *)
Theorem condense_expand_path G gsrc gsnk p :
  (forall v, In v p -> ne_is_node G v = true) ->
  (forall v, In v p -> v <> gsrc /\ v <> gsnk) ->
  ne_condense_path G gsrc gsnk (ne_expand_path p) = NE_Ok p.
Proof.
  induction p as [|v p IH]; intros Hn Hs; [reflexivity|].
  cbn [ne_expand_path ne_condense_path].
  rewrite last2_exp0, drop_last2_exp0. cbn [String.eqb Ascii.eqb Bool.eqb].
  rewrite (Hn v (or_introl eq_refl)).
  destruct (Hs v (or_introl eq_refl)) as [H1 H2].
  apply String.eqb_neq in H1, H2. rewrite H1, H2. cbn.
  rewrite IH; [reflexivity| |]; intros; [apply Hn|apply Hs]; now right.
Qed.

Corollary condense_expand_single_node G gsrc gsnk v :
  ne_is_node G v = true -> v <> gsrc -> v <> gsnk ->
  ne_condense_path G gsrc gsnk [ne_exp0 v; ne_exp1 v] = NE_Ok [v].
Proof.
  intros. apply (condense_expand_path G gsrc gsnk [v]); intros w [<-|[]]; auto.
Qed.

Lemma condense_empty G gsrc gsnk : ne_condense_path G gsrc gsnk [] = NE_Ok [].
Proof. reflexivity. Qed.

(* what the slicing loop does to paths that are NOT expansions: a single (or trailing odd) element is never looked at *)
Lemma condense_singleton G gsrc gsnk a : ne_condense_path G gsrc gsnk [a] = NE_Ok [].
Proof. reflexivity. Qed.

Lemma condense_paths_expand G gsrc gsnk ps :
  (forall p v, In p ps -> In v p -> ne_is_node G v = true /\ v <> gsrc /\ v <> gsnk) ->
  ne_condense_paths G gsrc gsnk (map ne_expand_path ps) = NE_Ok ps.
Proof.
  unfold ne_condense_paths. induction ps as [|p ps IH]; intros H; [reflexivity|].
  cbn [map ne_mapM]. rewrite condense_expand_path.
  - cbn [ne_bind]. rewrite IH; [reflexivity|]. intros q v Hq Hv. apply (H q v); auto. now right.
  - intros v Hv. apply (H p v); auto. now left.
  - intros v Hv. apply (H p v); auto. now left.
Qed.

(* two-step induction on lists *)
Lemma list_ind2 {A} (P : list A -> Prop) :
  P [] -> (forall a, P [a]) -> (forall a b r, P r -> P (a :: b :: r)) -> forall l, P l.
Proof.
  intros H0 H1 H2. fix IH 1. intros [|a [|b r]]; [exact H0|exact (H1 a)|exact (H2 a b r (IH r))].
Qed.

(* every successfully condensed path consists of original node names only: no ".0"/".1" name and no
   synthetic source/sink can leak unless it is itself a node of the caller's graph *)
Theorem condense_path_names G gsrc gsnk p q :
  ne_condense_path G gsrc gsnk p = NE_Ok q -> forall v, In v q -> ne_is_node G v = true.
Proof.
  revert q. induction p as [| a | a b r IH] using list_ind2; intros q H v Hv.
  - injection H as <-. destruct Hv.
  - injection H as <-. destruct Hv.
  - cbn [ne_condense_path] in H.
    destruct (String.eqb (ne_last2 a) ".0"); [|discriminate].
    destruct (ne_is_node G (ne_drop_last2 a)) eqn:En;
      destruct (String.eqb (ne_drop_last2 a) gsrc || String.eqb (ne_drop_last2 a) gsnk) eqn:Es; cbn in H; try discriminate;
      destruct (ne_condense_path G gsrc gsnk r) as [t|e] eqn:Er; cbn in H; try discriminate; injection H as <-.
    + eapply IH; eauto.
    + destruct Hv as [<-|Hv]; auto. eapply IH; eauto.
    + eapply IH; eauto.
Qed.

(* and its length: one original node per PAIR of expanded nodes, minus the synthetic ones *)
Theorem condense_path_length G gsrc gsnk p q :
  ne_condense_path G gsrc gsnk p = NE_Ok q -> List.length q <= Nat.div2 (List.length p).
Proof.
  revert q. induction p as [| a | a b r IH] using list_ind2; intros q H.
  - injection H as <-. cbn. lia.
  - injection H as <-. cbn. lia.
  - cbn [ne_condense_path] in H.
    destruct (String.eqb (ne_last2 a) ".0"); [|discriminate].
    destruct (negb (ne_is_node G (ne_drop_last2 a)) && negb (String.eqb (ne_drop_last2 a) gsrc || String.eqb (ne_drop_last2 a) gsnk)); [discriminate|].
    destruct (ne_condense_path G gsrc gsnk r) as [t|e] eqn:Er; cbn in H; try discriminate.
    specialize (IH t eq_refl). injection H as <-.
    cbn [List.length Nat.div2]. destruct (String.eqb (ne_drop_last2 a) gsrc || String.eqb (ne_drop_last2 a) gsnk); cbn [List.length]; lia.
Qed.

(* ------------------------------------------------------------------ elements, starts, ends *)
(* specification-side inverse of get_expanded_edge *)
Definition ne_condense_elem (e : string * string) : ne_elem :=
  if String.eqb (ne_last2 (fst e)) ".0" then NE_Node (ne_drop_last2 (fst e))
  else NE_Edge (ne_drop_last2 (fst e)) (ne_drop_last2 (snd e)).

Lemma condense_elem_node v : ne_condense_elem (ne_exp0 v, ne_exp1 v) = NE_Node v.
Proof. unfold ne_condense_elem. cbn [fst snd]. now rewrite last2_exp0, drop_last2_exp0. Qed.
Lemma condense_elem_edge u v : ne_condense_elem (ne_exp1 u, ne_exp0 v) = NE_Edge u v.
Proof. unfold ne_condense_elem. cbn [fst snd]. now rewrite last2_exp1, drop_last2_exp1, drop_last2_exp0. Qed.

Theorem expand_element_roundtrip G el e :
  ne_expanded_edge G el = NE_Ok e -> ne_condense_elem e = el.
Proof.
  destruct el as [v|u v]; cbn [ne_expanded_edge].
  - destruct (ne_is_node G v); [|discriminate]. intros H. injection H as <-. apply condense_elem_node.
  - destruct (ne_is_edge G u v); [|discriminate]. intros H. injection H as <-. apply condense_elem_edge.
Qed.

(* get_expanded_edge succeeds exactly on the nodes / edges of the original graph *)
Theorem expanded_edge_defined G el :
  (exists e, ne_expanded_edge G el = NE_Ok e) <->
  match el with NE_Node v => ne_is_node G v = true | NE_Edge u v => ne_is_edge G u v = true end.
Proof.
  destruct el as [v|u v]; cbn [ne_expanded_edge].
  - destruct (ne_is_node G v); split; eauto; [intros [e H]|intros H]; discriminate.
  - destruct (ne_is_edge G u v); split; eauto; [intros [e H]|intros H]; discriminate.
Qed.

(* distinct elements have distinct images *)
Corollary expanded_edge_inj G el1 el2 e :
  ne_expanded_edge G el1 = NE_Ok e -> ne_expanded_edge G el2 = NE_Ok e -> el1 = el2.
Proof. intros H1 H2. apply expand_element_roundtrip in H1, H2. congruence. Qed.

Lemma mapM_ok_map {A B} (f : A -> ne_res B) (g : A -> B) l :
  (forall a, In a l -> f a = NE_Ok (g a)) -> ne_mapM f l = NE_Ok (map g l).
Proof.
  induction l as [|a l IH]; intros H; [reflexivity|]. cbn [ne_mapM map].
  rewrite (H a (or_introl eq_refl)). cbn [ne_bind]. rewrite IH; [reflexivity|]. intros; apply H; now right.
Qed.

Lemma mapM_ok_inv {A B} (f : A -> ne_res B) l r :
  ne_mapM f l = NE_Ok r -> Forall2 (fun a b => f a = NE_Ok b) l r.
Proof.
  revert r. induction l as [|a l IH]; intros r H; cbn [ne_mapM] in H.
  - injection H as <-. constructor.
  - destruct (f a) as [b|e] eqn:Ef; cbn [ne_bind] in H; [|discriminate].
    destruct (ne_mapM f l) as [t|e] eqn:Et; cbn [ne_bind] in H; [|discriminate].
    injection H as <-. constructor; auto.
Qed.

Theorem expanded_starts_spec G l x :
  ne_expanded_starts G l = NE_Ok x ->
  x = map ne_exp0 l /\ map ne_drop_last2 x = l /\ forall v, In v l -> ne_is_node G v = true.
Proof.
  unfold ne_expanded_starts. intros H. apply mapM_ok_inv in H.
  induction H as [|v b l x Hvb H IH]; [repeat split; auto; intros ? []|].
  destruct IH as [-> [IH2 IH3]]. cbn [ne_expanded_edge ne_bind] in Hvb.
  destruct (ne_is_node G v) eqn:En; cbn [ne_bind fst] in Hvb; [|discriminate]. injection Hvb as <-.
  cbn [map]. rewrite drop_last2_exp0, IH2. repeat split; auto. intros w [<-|Hw]; auto.
Qed.
Theorem expanded_ends_spec G l x :
  ne_expanded_ends G l = NE_Ok x ->
  x = map ne_exp1 l /\ map ne_drop_last2 x = l /\ forall v, In v l -> ne_is_node G v = true.
Proof.
  unfold ne_expanded_ends. intros H. apply mapM_ok_inv in H.
  induction H as [|v b l x Hvb H IH]; [repeat split; auto; intros ? []|].
  destruct IH as [-> [IH2 IH3]]. cbn [ne_expanded_edge ne_bind] in Hvb.
  destruct (ne_is_node G v) eqn:En; cbn [ne_bind snd] in Hvb; [|discriminate]. injection Hvb as <-.
  cbn [map]. rewrite drop_last2_exp1, IH2. repeat split; auto. intros w [<-|Hw]; auto.
Qed.

(* ------------------------------------------------------------------ subpath / subset constraints *)
(* specification-side inverses *)
Definition ne_condense_cons_nodes (x : list (string * string)) : list ne_elem :=
  map (fun e => NE_Node (ne_drop_last2 (fst e))) x.
Definition ne_condense_cons_edges (x : list (string * string)) : list ne_elem :=
  flat_map (fun e => if String.eqb (ne_last2 (fst e)) ".1"
                     then [NE_Edge (ne_drop_last2 (fst e)) (ne_drop_last2 (snd e))] else []) x.
(* an expanded edge constraint contains an edge leaving a ".1" node, an expanded node constraint never does *)
Definition ne_condense_constraint (x : list (string * string)) : list ne_elem :=
  if existsb (fun e => String.eqb (ne_last2 (fst e)) ".1") x then ne_condense_cons_edges x else ne_condense_cons_nodes x.

Lemma cons_nodes_roundtrip G c x :
  ne_cons_nodes G c = NE_Ok x ->
  ne_condense_cons_nodes x = c /\ existsb (fun e => String.eqb (ne_last2 (fst e)) ".1") x = false /\
  x = flat_map (fun el => match el with NE_Node v => [(ne_exp0 v, ne_exp1 v)] | _ => [] end) c.
Proof.
  unfold ne_cons_nodes. intros H. apply mapM_ok_inv in H.
  induction H as [|el b c x Hb H IH]; [repeat split; auto|].
  destruct IH as [IH1 [IH2 IH3]]. destruct el as [v|u v]; [|discriminate].
  destruct (ne_is_node G v); [|discriminate]. injection Hb as <-.
  unfold ne_condense_cons_nodes in *. cbn [map existsb fst flat_map app].
  rewrite last2_exp0, drop_last2_exp0, IH1, IH2, <- IH3. repeat split; auto.
Qed.

Lemma cons_edges_roundtrip G c : forall x,
  ne_cons_edges G c = NE_Ok x ->
  ne_condense_cons_edges x = c /\
  (c <> [] -> existsb (fun e => String.eqb (ne_last2 (fst e)) ".1") x = true) /\
  (* the trailing node: the expansion ends with the node edge of the head of the LAST edge *)
  (forall u v, last c (NE_Node "") = NE_Edge u v -> c <> [] -> last x ("", "") = (ne_exp0 v, ne_exp1 v)) /\
  (c = [] -> x = []).
Proof.
  induction c as [|el c IH]; intros x H.
  - cbn in H. injection H as <-. repeat split; auto; intros; congruence.
  - destruct el as [w|u v]; [discriminate|]. cbn [ne_cons_edges] in H.
    destruct (ne_is_edge G u v); [|discriminate].
    destruct c as [|el2 c].
    + injection H as <-. unfold ne_condense_cons_edges. cbn [flat_map fst snd app existsb].
      rewrite !last2_exp0, !last2_exp1, !drop_last2_exp1, !drop_last2_exp0. cbn.
      split; [reflexivity|split; [reflexivity|split; [|discriminate]]].
      intros u' v' Hl _. cbn in Hl. injection Hl as <- <-. reflexivity.
    + destruct (ne_cons_edges G (el2 :: c)) as [t|e] eqn:Et; cbn [ne_bind] in H; [|discriminate].
      injection H as <-. destruct (IH t eq_refl) as [IH1 [IH2 [IH3 _]]].
      unfold ne_condense_cons_edges in *. cbn [flat_map fst snd app existsb].
      rewrite !last2_exp0, !last2_exp1, !drop_last2_exp1, !drop_last2_exp0. cbn [String.eqb Ascii.eqb Bool.eqb app orb].
      rewrite IH1. split; [reflexivity|split; [reflexivity|split; [|discriminate]]].
      intros u' v' Hl _. specialize (IH3 u' v').
      change (last (NE_Edge u v :: el2 :: c) (NE_Node "")) with (last (el2 :: c) (NE_Node "")) in Hl.
      assert (Hne : t <> []).
      { intros ->. assert (X : el2 :: c <> []) by congruence. specialize (IH2 X). discriminate. }
      destruct t as [|t0 t]; [congruence|].
      change (last ((ne_exp0 u, ne_exp1 u) :: (ne_exp1 u, ne_exp0 v) :: t0 :: t) ("", "")) with (last (t0 :: t) ("", "")).
      apply IH3; auto. congruence.
Qed.

(* expanding a list of constraints (node lists or edge lists) and condensing each result gives the
   original constraints back; holds whenever get_expanded_subpath_constraints does not raise *)
Theorem expand_constraint_roundtrip G cs xs :
  ne_expand_constraints G cs = NE_Ok xs -> map ne_condense_constraint xs = cs.
Proof.
  unfold ne_expand_constraints. destruct cs as [|c0 cs']; intros H; [now injection H as <-|].
  destruct (existsb _ (c0 :: cs')); [discriminate|].
  remember (c0 :: cs') as cs eqn:Ecs. clear Ecs cs'.
  destruct c0 as [|[v|u v] c0]; [discriminate| |].
  - apply mapM_ok_inv in H. induction H as [|c x cs' xs' Hc H IH]; [reflexivity|].
    cbn [map]. rewrite IH. apply cons_nodes_roundtrip in Hc. destruct Hc as [H1 [H2 _]].
    unfold ne_condense_constraint. now rewrite H2, H1.
  - apply mapM_ok_inv in H. induction H as [|c x cs' xs' Hc H IH]; [reflexivity|].
    cbn [map]. rewrite IH. apply cons_edges_roundtrip in Hc. destruct Hc as [H1 [H2 [_ H4]]].
    unfold ne_condense_constraint. destruct c as [|el c].
    + now rewrite (H4 eq_refl).
    + rewrite H2 by congruence. now rewrite H1.
Qed.

(* an empty constraint anywhere in the list is rejected with ValueError (never IndexError, never silently expanded) *)
Theorem expand_constraints_rejects_empty G cs :
  In [] cs -> ne_expand_constraints G cs = NE_Err NE_ValueError.
Proof.
  intros H. unfold ne_expand_constraints. destruct cs as [|c0 cs']; [destruct H|].
  assert (E : existsb (fun c : list ne_elem => match c with [] => true | _ => false end) (c0 :: cs') = true)
    by (apply existsb_exists; exists []; auto).
  now rewrite E.
Qed.

(* ------------------------------------------------------------------ edges_to_ignore: the exact list *)
Definition ne_ign_of_node (flow : string) (nd : ne_innode) : list (string * string) :=
  (match ne_dget (ne_at nd) flow with Some _ => [] | None => [(ne_exp0 (ne_nm nd), ne_exp1 (ne_nm nd))] end)
  ++ map (fun pe => (ne_exp1 (fst pe), ne_exp0 (ne_nm nd))) (ne_preds nd).

Lemma pred_fold_snd len n0 ps : forall st,
  snd (fold_left (ne_pred_step len n0) ps st) = snd st ++ map (fun pe => (ne_exp1 (fst pe), n0)) ps.
Proof.
  induction ps as [|pe ps IH]; intros st; cbn [fold_left map]; [now rewrite app_nil_r|].
  rewrite IH. unfold ne_pred_step. cbn [snd]. now rewrite <- app_assoc.
Qed.

Lemma node_step_snd flow len st nd :
  snd (ne_node_step flow len st nd) = snd st ++ ne_ign_of_node flow nd.
Proof.
  unfold ne_node_step, ne_ign_of_node. cbn [snd]. rewrite pred_fold_snd. cbn [snd].
  destruct (ne_dget (ne_at nd) flow); cbn [snd app]; [reflexivity|]. now rewrite <- app_assoc.
Qed.

Lemma core_fold_snd flow len G : forall st,
  snd (fold_left (ne_node_step flow len) G st) = snd st ++ flat_map (ne_ign_of_node flow) G.
Proof.
  induction G as [|nd G IH]; intros st; cbn [fold_left flat_map]; [now rewrite app_nil_r|].
  rewrite IH, node_step_snd. now rewrite <- app_assoc.
Qed.

(* edges_to_ignore as the constructor builds it, in order: per node (in G.nodes order) first its own
   expansion edge iff the node lacks the attribute, then the images (p.1, v.0) of its in-edges in
   G.predecessors order.  Nothing else; in particular no expansion edge of a node that HAS the attribute. *)
Theorem expand_ignore_exact G flow len :
  snd (ne_expand_core G flow len) = flat_map (ne_ign_of_node flow) G.
Proof. unfold ne_expand_core. now rewrite core_fold_snd. Qed.

(* ------------------------------------------------------------------ the edge set of the expansion *)
Definition ne_ekeys (g : ne_nx) : list (string * string) := map fst (ne_xe g).

Lemma edge_eqb_eq e f : ne_edge_eqb e f = true <-> e = f.
Proof.
  unfold ne_edge_eqb. rewrite andb_true_iff, !String.eqb_eq. destruct e, f; cbn. split; [intros [-> ->]; auto|intros H; injection H; auto].
Qed.
Lemma upd_edge_keys l e a : map fst (ne_upd_edge l e a) = map fst l.
Proof. induction l as [|[f d] l IH]; cbn; auto. destruct (ne_edge_eqb f e); cbn; congruence. Qed.
Lemma has_edge_In g e : ne_has_edge g e = true <-> In e (ne_ekeys g).
Proof.
  unfold ne_has_edge, ne_ekeys. rewrite existsb_exists, in_map_iff. split.
  - intros [x [Hx He]]. apply edge_eqb_eq in He. eauto.
  - intros [x [He Hx]]. exists x. split; auto. now apply edge_eqb_eq.
Qed.
Lemma add_node_keys g v a : ne_ekeys (ne_add_node g v a) = ne_ekeys g.
Proof. unfold ne_add_node. destruct (ne_has_node g v); reflexivity. Qed.
Lemma touch_keys g v : ne_ekeys (ne_touch g v) = ne_ekeys g.
Proof. unfold ne_touch. destruct (ne_has_node g v); reflexivity. Qed.
Lemma set_eattr_keys g u v k x : ne_ekeys (ne_set_eattr g u v k x) = ne_ekeys g.
Proof. unfold ne_set_eattr, ne_ekeys. cbn. apply upd_edge_keys. Qed.
Lemma add_edge_keys g u v a e :
  In e (ne_ekeys (ne_add_edge g u v a)) <-> In e (ne_ekeys g) \/ e = (u, v).
Proof.
  unfold ne_add_edge. cbv zeta.
  destruct (ne_has_edge (ne_touch (ne_touch g u) v) (u, v)) eqn:E.
  - apply has_edge_In in E. rewrite !touch_keys in E. unfold ne_ekeys at 1. cbn [ne_xe]. rewrite upd_edge_keys.
    change (map fst (ne_xe (ne_touch (ne_touch g u) v))) with (ne_ekeys (ne_touch (ne_touch g u) v)). rewrite !touch_keys.
    split; auto. intros [H| ->]; auto.
  - unfold ne_ekeys at 1. cbn [ne_xe]. rewrite map_app, in_app_iff. cbn [map fst In].
    change (map fst (ne_xe (ne_touch (ne_touch g u) v))) with (ne_ekeys (ne_touch (ne_touch g u) v)). rewrite !touch_keys.
    intuition congruence.
Qed.

Lemma fold_keys {S A} (proj : S -> ne_nx) (f : S -> A -> S) (k : A -> list (string * string))
      (Hf : forall s a e, In e (ne_ekeys (proj (f s a))) <-> In e (ne_ekeys (proj s)) \/ In e (k a)) :
  forall l s e, In e (ne_ekeys (proj (fold_left f l s))) <-> In e (ne_ekeys (proj s)) \/ In e (flat_map k l).
Proof.
  induction l as [|a l IHl]; intros s e; cbn [fold_left flat_map].
  - cbn [In]. tauto.
  - rewrite IHl, Hf, in_app_iff. tauto.
Qed.

Lemma pred_step_keys len n0 st pe e :
  In e (ne_ekeys (fst (ne_pred_step len n0 st pe))) <-> In e (ne_ekeys (fst st)) \/ In e [(ne_exp1 (fst pe), n0)].
Proof.
  unfold ne_pred_step. cbn [fst].
  assert (X : forall g, g = ne_add_edge (fst st) (ne_exp1 (fst pe)) n0 (snd pe) \/
                        (exists l, g = ne_set_eattr (ne_add_edge (fst st) (ne_exp1 (fst pe)) n0 (snd pe)) (ne_exp1 (fst pe)) n0 l 0%Z) ->
                        In e (ne_ekeys g) <-> In e (ne_ekeys (fst st)) \/ In e [(ne_exp1 (fst pe), n0)]).
  { intros g [-> | [l ->]]; rewrite ?set_eattr_keys, add_edge_keys; cbn [In]; intuition. }
  apply X. destruct len as [l|]; auto. destruct (ne_dget (snd pe) l); eauto.
Qed.

Lemma succ_step_keys n1 g se e :
  In e (ne_ekeys (ne_succ_step n1 g se)) <-> In e (ne_ekeys g) \/ In e [(n1, ne_exp0 (fst se))].
Proof. unfold ne_succ_step. rewrite add_edge_keys. cbn [In]. intuition. Qed.

Definition ne_keys_of_node (nd : ne_innode) : list (string * string) :=
  (ne_exp0 (ne_nm nd), ne_exp1 (ne_nm nd))
  :: map (fun pe => (ne_exp1 (fst pe), ne_exp0 (ne_nm nd))) (ne_preds nd)
  ++ map (fun se => (ne_exp1 (ne_nm nd), ne_exp0 (fst se))) (ne_succs nd).

Lemma flat_map_single {A B} (f : A -> B) l : flat_map (fun a => [f a]) l = map f l.
Proof. induction l; cbn; congruence. Qed.

Lemma node_step_keys flow len st nd e :
  In e (ne_ekeys (fst (ne_node_step flow len st nd))) <-> In e (ne_ekeys (fst st)) \/ In e (ne_keys_of_node nd).
Proof.
  unfold ne_node_step. cbn [fst].
  rewrite (fold_keys (fun g => g) (ne_succ_step (ne_exp1 (ne_nm nd))) (fun se => [(ne_exp1 (ne_nm nd), ne_exp0 (fst se))])
                     (fun s a e' => succ_step_keys _ s a e')).
  rewrite (fold_keys fst (ne_pred_step len (ne_exp0 (ne_nm nd))) (fun pe => [(ne_exp1 (fst pe), ne_exp0 (ne_nm nd))])
                     (fun s a e' => pred_step_keys _ _ s a e')).
  rewrite !flat_map_single. cbn [fst].
  set (g3 := ne_add_edge (ne_add_node (ne_add_node (fst st) (ne_exp0 (ne_nm nd)) (ne_at nd)) (ne_exp1 (ne_nm nd)) (ne_at nd))
                         (ne_exp0 (ne_nm nd)) (ne_exp1 (ne_nm nd)) (ne_at nd)).
  assert (K3 : In e (ne_ekeys g3) <-> In e (ne_ekeys (fst st)) \/ e = (ne_exp0 (ne_nm nd), ne_exp1 (ne_nm nd))).
  { unfold g3. rewrite add_edge_keys, !add_node_keys. reflexivity. }
  assert (K5 : forall g, ne_ekeys g = ne_ekeys g3 -> In e (ne_ekeys g) <-> In e (ne_ekeys (fst st)) \/ e = (ne_exp0 (ne_nm nd), ne_exp1 (ne_nm nd))).
  { intros g ->. exact K3. }
  unfold ne_keys_of_node. cbn [In]. rewrite in_app_iff.
  rewrite K5; [intuition|].
  destruct (ne_dget (ne_at nd) flow); cbn [fst]; destruct len as [l|]; try destruct (ne_dget (ne_at nd) l);
    rewrite ?set_eattr_keys; reflexivity.
Qed.

(* the edges of the expanded graph: exactly one expansion edge per node, and the images of the
   predecessor / successor adjacency entries *)
Theorem expand_edges_spec G flow len e :
  In e (ne_ekeys (fst (ne_expand_core G flow len))) <-> In e (flat_map ne_keys_of_node G).
Proof.
  unfold ne_expand_core.
  rewrite (fold_keys fst (ne_node_step flow len) ne_keys_of_node (fun s a e' => node_step_keys flow len s a e')).
  cbn. intuition.
Qed.

(* ------------------------------------------------------------------ the node set of the expansion, and G.edges *)
Definition ne_nkeys (g : ne_nx) : list string := map fst (ne_xn g).

Lemma has_node_In g v : ne_has_node g v = true <-> In v (ne_nkeys g).
Proof.
  unfold ne_has_node, ne_nkeys. rewrite existsb_exists, in_map_iff. split.
  - intros [x [Hx He]]. apply String.eqb_eq in He. eauto.
  - intros [x [He Hx]]. exists x. split; auto. now apply String.eqb_eq.
Qed.
Lemma upd_node_keys l v a : map fst (ne_upd_node l v a) = map fst l.
Proof. induction l as [|[n d] l IH]; cbn; auto. destruct (String.eqb n v); cbn; congruence. Qed.
Lemma add_node_nkeys g v a x : In x (ne_nkeys (ne_add_node g v a)) <-> In x (ne_nkeys g) \/ x = v.
Proof.
  unfold ne_add_node. destruct (ne_has_node g v) eqn:E.
  - apply has_node_In in E. unfold ne_nkeys at 1. cbn [ne_xn]. rewrite upd_node_keys. fold (ne_nkeys g).
    split; auto. intros [H| ->]; auto.
  - unfold ne_nkeys at 1. cbn [ne_xn]. rewrite map_app, in_app_iff. cbn. fold (ne_nkeys g). intuition.
Qed.
Lemma touch_nkeys g v x : In x (ne_nkeys (ne_touch g v)) <-> In x (ne_nkeys g) \/ x = v.
Proof.
  unfold ne_touch. destruct (ne_has_node g v) eqn:E.
  - apply has_node_In in E. split; auto. intros [H| ->]; auto.
  - unfold ne_nkeys at 1. cbn [ne_xn]. rewrite map_app, in_app_iff. cbn. fold (ne_nkeys g). intuition.
Qed.
Lemma add_edge_nkeys g u v a x : In x (ne_nkeys (ne_add_edge g u v a)) <-> In x (ne_nkeys g) \/ x = u \/ x = v.
Proof.
  unfold ne_add_edge. cbv zeta.
  assert (X : In x (ne_nkeys (ne_touch (ne_touch g u) v)) <-> In x (ne_nkeys g) \/ x = u \/ x = v)
    by (rewrite !touch_nkeys; tauto).
  destruct (ne_has_edge (ne_touch (ne_touch g u) v) (u, v)); exact X.
Qed.
Lemma set_eattr_nkeys g u v k x : ne_nkeys (ne_set_eattr g u v k x) = ne_nkeys g.
Proof. reflexivity. Qed.

(* every edge leaves a node of the graph *)
Definition ne_srcs_ok (g : ne_nx) : Prop := forall e, In e (ne_ekeys g) -> In (fst e) (ne_nkeys g).

Lemma add_node_srcs_ok g v a : ne_srcs_ok g -> ne_srcs_ok (ne_add_node g v a).
Proof. intros H e He. rewrite add_node_keys in He. apply add_node_nkeys. auto. Qed.
Lemma add_edge_srcs_ok g u v a : ne_srcs_ok g -> ne_srcs_ok (ne_add_edge g u v a).
Proof. intros H e He. apply add_edge_keys in He. apply add_edge_nkeys. destruct He as [He| ->]; auto. Qed.
Lemma set_eattr_srcs_ok g u v k x : ne_srcs_ok g -> ne_srcs_ok (ne_set_eattr g u v k x).
Proof. intros H e He. rewrite set_eattr_keys in He. rewrite set_eattr_nkeys. auto. Qed.

Lemma fold_inv {S A} (P : S -> Prop) (f : S -> A -> S) (Hf : forall s a, P s -> P (f s a)) : forall l s, P s -> P (fold_left f l s).
Proof. induction l as [|a l IH]; cbn; auto. Qed.

Lemma pred_step_srcs_ok len n0 st pe : ne_srcs_ok (fst st) -> ne_srcs_ok (fst (ne_pred_step len n0 st pe)).
Proof.
  intros H. unfold ne_pred_step. cbn [fst]. destruct len as [l|]; [destruct (ne_dget (snd pe) l)|];
    auto using add_edge_srcs_ok, set_eattr_srcs_ok.
Qed.
Lemma node_step_srcs_ok flow len st nd : ne_srcs_ok (fst st) -> ne_srcs_ok (fst (ne_node_step flow len st nd)).
Proof.
  intros H. unfold ne_node_step. cbn [fst].
  apply (fold_inv ne_srcs_ok); [intros; now apply add_edge_srcs_ok|].
  apply (fold_inv (fun s => ne_srcs_ok (fst s))); [intros; now apply pred_step_srcs_ok|]. cbn [fst].
  assert (H3 : ne_srcs_ok (ne_add_edge (ne_add_node (ne_add_node (fst st) (ne_exp0 (ne_nm nd)) (ne_at nd)) (ne_exp1 (ne_nm nd)) (ne_at nd))
                                      (ne_exp0 (ne_nm nd)) (ne_exp1 (ne_nm nd)) (ne_at nd)))
    by auto using add_edge_srcs_ok, add_node_srcs_ok.
  destruct (ne_dget (ne_at nd) flow); cbn [fst]; destruct len as [l|]; try destruct (ne_dget (ne_at nd) l);
    auto using set_eattr_srcs_ok.
Qed.
Lemma expand_core_srcs_ok G flow len : ne_srcs_ok (fst (ne_expand_core G flow len)).
Proof.
  unfold ne_expand_core. apply (fold_inv (fun s => ne_srcs_ok (fst s))); [intros; now apply node_step_srcs_ok|].
  intros e [].
Qed.

(* list(G.edges(data=True)) enumerates exactly the stored edges *)
Lemma edges_view_In g x : ne_srcs_ok g -> (In x (ne_edges_view g) <-> In x (ne_xe g)).
Proof.
  intros H. unfold ne_edges_view. rewrite in_flat_map. split.
  - intros [n [_ Hx]]. apply filter_In in Hx. tauto.
  - intros Hx. assert (Hs : In (fst (fst x)) (ne_nkeys g)) by (apply (H (fst x)); unfold ne_ekeys; now apply in_map).
    unfold ne_nkeys in Hs. apply in_map_iff in Hs. destruct Hs as [n [Hn Hin]]. exists n. split; auto.
    apply filter_In. split; auto. rewrite Hn. apply String.eqb_refl.
Qed.
Theorem expand_edges_view G flow len x :
  In x (ne_edges_view (fst (ne_expand_core G flow len))) <-> In x (ne_xe (fst (ne_expand_core G flow len))).
Proof. apply edges_view_In, expand_core_srcs_ok. Qed.

Lemma fold_nkeys {S A} (proj : S -> ne_nx) (f : S -> A -> S) (k : A -> list string)
      (Hf : forall s a e, In e (ne_nkeys (proj (f s a))) <-> In e (ne_nkeys (proj s)) \/ In e (k a)) :
  forall l s e, In e (ne_nkeys (proj (fold_left f l s))) <-> In e (ne_nkeys (proj s)) \/ In e (flat_map k l).
Proof.
  induction l as [|a l IHl]; intros s e; cbn [fold_left flat_map].
  - cbn [In]. tauto.
  - rewrite IHl, Hf, in_app_iff. tauto.
Qed.

Definition ne_names_of_node (nd : ne_innode) : list string :=
  ne_exp0 (ne_nm nd) :: ne_exp1 (ne_nm nd) :: map (fun pe => ne_exp1 (fst pe)) (ne_preds nd) ++ map (fun se => ne_exp0 (fst se)) (ne_succs nd).

Lemma pred_step_nkeys len n0 st pe x :
  In x (ne_nkeys (fst (ne_pred_step len n0 st pe))) <-> In x (ne_nkeys (fst st)) \/ In x [ne_exp1 (fst pe); n0].
Proof.
  unfold ne_pred_step. cbn [fst].
  assert (X : In x (ne_nkeys (ne_add_edge (fst st) (ne_exp1 (fst pe)) n0 (snd pe))) <-> In x (ne_nkeys (fst st)) \/ In x [ne_exp1 (fst pe); n0])
    by (rewrite add_edge_nkeys; cbn [In]; intuition).
  destruct len as [l|]; [destruct (ne_dget (snd pe) l)|]; rewrite ?set_eattr_nkeys; exact X.
Qed.

Lemma node_step_nkeys flow len st nd x :
  In x (ne_nkeys (fst (ne_node_step flow len st nd))) <-> In x (ne_nkeys (fst st)) \/ In x (ne_names_of_node nd).
Proof.
  unfold ne_node_step. cbn [fst].
  rewrite (fold_nkeys (fun g => g) (ne_succ_step (ne_exp1 (ne_nm nd))) (fun se => [ne_exp1 (ne_nm nd); ne_exp0 (fst se)])).
  2:{ intros s a e. unfold ne_succ_step. rewrite add_edge_nkeys. cbn [In]. intuition. }
  rewrite (fold_nkeys fst (ne_pred_step len (ne_exp0 (ne_nm nd))) (fun pe => [ne_exp1 (fst pe); ne_exp0 (ne_nm nd)])
                      (fun s a e' => pred_step_nkeys _ _ s a e')).
  cbn [fst].
  set (g3 := ne_add_edge (ne_add_node (ne_add_node (fst st) (ne_exp0 (ne_nm nd)) (ne_at nd)) (ne_exp1 (ne_nm nd)) (ne_at nd))
                         (ne_exp0 (ne_nm nd)) (ne_exp1 (ne_nm nd)) (ne_at nd)).
  assert (K3 : In x (ne_nkeys g3) <-> In x (ne_nkeys (fst st)) \/ x = ne_exp0 (ne_nm nd) \/ x = ne_exp1 (ne_nm nd)).
  { unfold g3. rewrite add_edge_nkeys, !add_node_nkeys. tauto. }
  assert (K5 : forall g, ne_nkeys g = ne_nkeys g3 -> In x (ne_nkeys g) <-> In x (ne_nkeys (fst st)) \/ x = ne_exp0 (ne_nm nd) \/ x = ne_exp1 (ne_nm nd)).
  { intros g ->. exact K3. }
  assert (F1 : In x (flat_map (fun pe : string * ne_attrs => [ne_exp1 (fst pe); ne_exp0 (ne_nm nd)]) (ne_preds nd)) ->
               x = ne_exp0 (ne_nm nd) \/ In x (map (fun pe => ne_exp1 (fst pe)) (ne_preds nd))).
  { rewrite in_flat_map. intros [pe [Hpe [<-|[<-|[]]]]]; auto. right. apply in_map_iff. exists pe. auto. }
  assert (F2 : In x (flat_map (fun se : string * ne_attrs => [ne_exp1 (ne_nm nd); ne_exp0 (fst se)]) (ne_succs nd)) ->
               x = ne_exp1 (ne_nm nd) \/ In x (map (fun se => ne_exp0 (fst se)) (ne_succs nd))).
  { rewrite in_flat_map. intros [se [Hse [<-|[<-|[]]]]]; auto. right. apply in_map_iff. exists se. auto. }
  assert (B1 : In x (map (fun pe => ne_exp1 (fst pe)) (ne_preds nd)) ->
               In x (flat_map (fun pe : string * ne_attrs => [ne_exp1 (fst pe); ne_exp0 (ne_nm nd)]) (ne_preds nd))).
  { rewrite in_map_iff, in_flat_map. intros [pe [<- Hpe]]. exists pe. cbn. auto. }
  assert (B2 : In x (map (fun se => ne_exp0 (fst se)) (ne_succs nd)) ->
               In x (flat_map (fun se : string * ne_attrs => [ne_exp1 (ne_nm nd); ne_exp0 (fst se)]) (ne_succs nd))).
  { rewrite in_map_iff, in_flat_map. intros [se [<- Hse]]. exists se. cbn. auto. }
  unfold ne_names_of_node. cbn [In]. rewrite in_app_iff.
  rewrite K5.
  - intuition.
  - destruct (ne_dget (ne_at nd) flow); cbn [fst]; destruct len as [l|]; try destruct (ne_dget (ne_at nd) l);
      rewrite ?set_eattr_nkeys; reflexivity.
Qed.

(* the nodes of the expanded graph (before synthetic source/sink): v.0 and v.1 for the nodes v of G *)
Theorem expand_nodes_spec G flow len x :
  In x (ne_nkeys (fst (ne_expand_core G flow len))) <-> In x (flat_map ne_names_of_node G).
Proof.
  unfold ne_expand_core.
  rewrite (fold_nkeys fst (ne_node_step flow len) ne_names_of_node (fun s a e' => node_step_nkeys flow len s a e')).
  cbn. intuition.
Qed.

(* ------------------------------------------------------------------ graph-level reading *)
Definition ne_inode (G : ne_ingraph) (v : string) : Prop := In v (map ne_nm G).
(* (u, v) is an edge of the original graph: u is listed among G.predecessors(v) *)
Definition ne_iedge (G : ne_ingraph) (u v : string) : Prop :=
  exists nd, In nd G /\ ne_nm nd = v /\ In u (map fst (ne_preds nd)).
(* what networkx guarantees about a DiGraph: node names are unique, every successor entry has its
   predecessor entry, endpoints of edges are nodes *)
Record ne_wf (G : ne_ingraph) : Prop := {
  wf_nodup : NoDup (map ne_nm G);
  wf_succ : forall nd s, In nd G -> In s (map fst (ne_succs nd)) -> ne_iedge G (ne_nm nd) s;
  wf_tail : forall u v, ne_iedge G u v -> ne_inode G u }.

(* the edge relation of "the graph in which each node v is split into an edge (v.0, v.1) and each
   original edge (u, v) becomes (u.1, v.0)" *)
Definition ne_xrel (N : string -> Prop) (E : string -> string -> Prop) (a b : string) : Prop :=
  (exists v, N v /\ a = ne_exp0 v /\ b = ne_exp1 v) \/ (exists u v, E u v /\ a = ne_exp1 u /\ b = ne_exp0 v).

Theorem expand_edges_rel G flow len a b :
  ne_wf G ->
  (In (a, b) (ne_ekeys (fst (ne_expand_core G flow len))) <-> ne_xrel (ne_inode G) (ne_iedge G) a b).
Proof.
  intros W. rewrite expand_edges_spec, in_flat_map. unfold ne_keys_of_node. split.
  - intros [nd [Hnd [H|H]]].
    + injection H as <- <-. left. exists (ne_nm nd). repeat split; auto. now apply in_map.
    + apply in_app_iff in H. destruct H as [H|H]; apply in_map_iff in H; destruct H as [x [Hx Hin]]; injection Hx as <- <-.
      * right. exists (fst x), (ne_nm nd). repeat split; auto. exists nd. repeat split; auto. now apply in_map.
      * right. exists (ne_nm nd), (fst x). repeat split; auto. apply (wf_succ G W); auto. now apply in_map.
  - intros [[v [Hv [-> ->]]] | [u [v [[nd [Hnd [<- Hu]]] [-> ->]]]]].
    + apply in_map_iff in Hv. destruct Hv as [nd [<- Hnd]]. exists nd. split; auto. now left.
    + exists nd. split; auto. right. apply in_app_iff. left. apply in_map_iff in Hu. destruct Hu as [pe [<- Hpe]].
      apply in_map_iff. now exists pe.
Qed.

(* edges_to_ignore = images of ALL original edges + expansion edges of the nodes WITHOUT the attribute *)
Theorem expand_ignore_spec G flow len e :
  In e (snd (ne_expand_core G flow len)) <->
  (exists u v, ne_iedge G u v /\ e = (ne_exp1 u, ne_exp0 v)) \/
  (exists nd, In nd G /\ ne_dget (ne_at nd) flow = None /\ e = (ne_exp0 (ne_nm nd), ne_exp1 (ne_nm nd))).
Proof.
  rewrite expand_ignore_exact, in_flat_map. unfold ne_ign_of_node. split.
  - intros [nd [Hnd H]]. apply in_app_iff in H. destruct H as [H|H].
    + right. exists nd. destruct (ne_dget (ne_at nd) flow); [destruct H|]. destruct H as [<-|[]]. auto.
    + left. apply in_map_iff in H. destruct H as [pe [<- Hpe]]. exists (fst pe), (ne_nm nd). split; auto.
      exists nd. repeat split; auto. now apply in_map.
  - intros [[u [v [[nd [Hnd [<- Hu]]] ->]]] | [nd [Hnd [Hd ->]]]]; exists nd; split; auto; apply in_app_iff.
    + right. apply in_map_iff in Hu. destruct Hu as [pe [<- Hpe]]. apply in_map_iff. now exists pe.
    + left. rewrite Hd. now left.
Qed.

Lemma nodup_map_inj {A B} (f : A -> B) l a b : NoDup (map f l) -> In a l -> In b l -> f a = f b -> a = b.
Proof.
  induction l as [|x l IH]; cbn; intros N Ha Hb E; [destruct Ha|]. inversion N as [|? ? Hx N']; subst.
  destruct Ha as [->|Ha], Hb as [->|Hb]; auto.
  - exfalso. apply Hx. rewrite E. now apply in_map.
  - exfalso. apply Hx. rewrite <- E. now apply in_map.
Qed.

(* a node that carries the attribute is NOT ignored by the constructor *)
Theorem node_with_attr_not_ignored G flow len nd x :
  ne_wf G -> In nd G -> ne_dget (ne_at nd) flow = Some x ->
  ~ In (ne_exp0 (ne_nm nd), ne_exp1 (ne_nm nd)) (snd (ne_expand_core G flow len)).
Proof.
  intros W Hnd Hx H. apply expand_ignore_spec in H. destruct H as [[u [v [_ H]]] | [nd' [Hnd' [Hd H]]]].
  - injection H as H _. now apply exp0_neq_exp1 in H.
  - injection H as H _. apply exp0_inj in H.
    assert (nd = nd') by (eapply nodup_map_inj; eauto using wf_nodup). subst. congruence.
Qed.

(* the ignore list the model classes hand to the edge-mode machinery: constructor list + user-ignored nodes *)
Theorem ignore_internal_spec G ign elems l :
  ne_ignore_internal G ign elems = NE_Ok l ->
  forall e, In e l <-> In e ign \/ exists v, In (NE_Node v) elems /\ ne_is_node G v = true /\ e = (ne_exp0 v, ne_exp1 v).
Proof.
  unfold ne_ignore_internal. destruct (forallb _ elems) eqn:Ef; [|discriminate].
  destruct (ne_mapM (ne_expanded_edge G) elems) as [x|] eqn:Em; cbn [ne_bind]; [|discriminate].
  intros H e. injection H as <-. rewrite in_app_iff. apply mapM_ok_inv in Em.
  assert (X : In e x <-> exists v, In (NE_Node v) elems /\ ne_is_node G v = true /\ e = (ne_exp0 v, ne_exp1 v)).
  { revert Ef. induction Em as [|el b elems x Hb Em IH]; intros Ef; [split; [intros []|intros [v [[] _]]]|].
    cbn [forallb] in Ef. apply andb_true_iff in Ef. destruct Ef as [E1 E2].
    destruct el as [w|u w]; [|discriminate]. cbn [ne_expanded_edge] in Hb.
    cbn [In]. rewrite (IH E2). split.
    - intros [<-|[v [Hv Hr]]]; [|exists v; split; auto].
      destruct (ne_is_node G w) eqn:En; [|discriminate]. injection Hb as <-. exists w. auto.
    - intros [v [[Hv|Hv] [Hn ->]]]; [left|right; eauto]. injection Hv as ->. rewrite Hn in Hb. now injection Hb as <-. }
  tauto.
Qed.

(* ------------------------------------------------------------------ routes of G and of expand G *)
(* non-empty walks given as node lists *)
Inductive ne_walk (R : string -> string -> Prop) : list string -> Prop :=
| nw_one v : ne_walk R [v]
| nw_cons a b r : R a b -> ne_walk R (b :: r) -> ne_walk R (a :: b :: r).

Lemma expand_path_inj p q : ne_expand_path p = ne_expand_path q -> p = q.
Proof.
  revert q. induction p as [|a p IH]; intros [|b q] H; cbn in H; try discriminate; auto.
  injection H as H0 _ H. apply exp0_inj in H0. subst. f_equal. auto.
Qed.

Lemma expand_path_hd p v r : p = v :: r -> exists t, ne_expand_path p = ne_exp0 v :: t.
Proof. intros ->. cbn. eauto. Qed.
Lemma expand_path_last p d : p <> [] -> last (ne_expand_path p) d = ne_exp1 (last p d).
Proof.
  induction p as [|a p IH]; [congruence|]. intros _. destruct p as [|b p]; [reflexivity|].
  change (ne_expand_path (a :: b :: p)) with (ne_exp0 a :: ne_exp1 a :: ne_expand_path (b :: p)).
  change (last (a :: b :: p) d) with (last (b :: p) d). rewrite <- IH by congruence.
  cbn [ne_expand_path]. reflexivity.
Qed.

(* G -> expand G *)
Theorem expand_walk (N : string -> Prop) (E : string -> string -> Prop) p :
  (forall v, In v p -> N v) -> ne_walk E p -> ne_walk (ne_xrel N E) (ne_expand_path p).
Proof.
  intros HN W. induction W as [v | a b r Hab W IH]; cbn [ne_expand_path].
  - constructor; [|constructor]. left. exists v. repeat split; auto. apply HN. now left.
  - constructor.
    + left. exists a. repeat split; auto. apply HN. now left.
    + constructor.
      * right. exists a, b. auto.
      * apply IH. intros v Hv. apply HN. now right.
Qed.

(* expand G -> G: every walk of the expansion that starts at some v.0 and ends at some w.1 is the
   expansion of a walk of G *)
Theorem walk_of_expanded (N : string -> Prop) (E : string -> string -> Prop) q :
  forall v, ne_walk (ne_xrel N E) q -> (exists t, q = ne_exp0 v :: t) -> (exists w, last q "" = ne_exp1 w) ->
  exists p, q = ne_expand_path p /\ ne_walk E p /\ (forall x, In x p -> N x) /\ exists t, p = v :: t.
Proof.
  induction q as [| a | a b r IH] using list_ind2; intros v W [t Ht] [w Hw].
  - discriminate.
  - injection Ht as -> <-. cbn in Hw. now apply exp0_neq_exp1 in Hw.
  - injection Ht as -> <-. inversion W as [|? ? ? Hab W']; subst.
    destruct Hab as [[v' [Nv [H0 ->]]] | [u [v' [_ [H0 _]]]]]; [|now apply exp0_neq_exp1 in H0].
    apply exp0_inj in H0. subst v'.
    destruct r as [|c r].
    + exists [v]. repeat split; eauto. * constructor. * intros x [<-|[]]; auto.
    + inversion W' as [|? ? ? Hbc W'']; subst.
      destruct Hbc as [[v' [_ [H0 _]]] | [u [v2 [Euv [H0 ->]]]]]; [symmetry in H0; now apply exp0_neq_exp1 in H0|].
      apply exp1_inj in H0. subst u.
      destruct (IH v2 W'') as [p [Hp [Wp [Np [tp ->]]]]]; eauto.
      exists (v :: v2 :: tp). split; [cbn [ne_expand_path]; now rewrite Hp|]. split; [now constructor|]. split; eauto.
      intros x [<-|Hx]; auto.
Qed.

(* the correspondence is one-to-one, with inverse get_condensed_paths *)
Theorem expand_routes_bij (N : string -> Prop) (E : string -> string -> Prop) :
  (forall p, p <> [] -> (forall v, In v p -> N v) -> ne_walk E p ->
     ne_walk (ne_xrel N E) (ne_expand_path p) /\
     (exists t, ne_expand_path p = ne_exp0 (hd "" p) :: t) /\ last (ne_expand_path p) "" = ne_exp1 (last p "")) /\
  (forall q v w, ne_walk (ne_xrel N E) q -> (exists t, q = ne_exp0 v :: t) -> last q "" = ne_exp1 w ->
     exists! p, q = ne_expand_path p /\ ne_walk E p /\ (forall x, In x p -> N x) /\ hd "" p = v /\ last p "" = w).
Proof.
  split.
  - intros p Hne HN W. split; [now apply expand_walk|]. split.
    + destruct p as [|a r]; [congruence|]. cbn. eauto.
    + now apply expand_path_last.
  - intros q v w W Hh Hl. destruct (walk_of_expanded N E q v W Hh (ex_intro _ w Hl)) as [p [Hp [Wp [Np [t ->]]]]].
    exists (v :: t). split.
    + repeat split; auto. subst q. rewrite expand_path_last in Hl by congruence. now apply exp1_inj in Hl.
    + intros p' [Hp' _]. apply expand_path_inj. congruence.
Qed.

(* sources and sinks correspond *)
Theorem expand_source_iff (N : string -> Prop) (E : string -> string -> Prop) v : (forall u, ~ E u v) <-> (forall a, ~ ne_xrel N E a (ne_exp0 v)).
Proof.
  split.
  - intros H a [[v' [_ [_ H1]]] | [u [v' [Euv [_ H1]]]]]; [now apply exp0_neq_exp1 in H1|]. apply exp0_inj in H1. subst. now apply (H u).
  - intros H u Euv. apply (H (ne_exp1 u)). right. eauto.
Qed.
Theorem expand_sink_iff (N : string -> Prop) (E : string -> string -> Prop) v : (forall w, ~ E v w) <-> (forall b, ~ ne_xrel N E (ne_exp1 v) b).
Proof.
  split.
  - intros H b [[v' [_ [H1 _]]] | [u [v' [Euv [H1 _]]]]]; [symmetry in H1; now apply exp0_neq_exp1 in H1|]. apply exp1_inj in H1. subst. now apply (H v').
  - intros H w Evw. apply (H (ne_exp0 w)). right. eauto.
Qed.

(* multiplicities: the expansion edge of v is traversed exactly as often as v is visited, the image
   of an original edge exactly as often as the edge *)
Fixpoint ne_pairs (p : list string) : list (string * string) :=
  match p with
  | a :: r => match r with b :: _ => (a, b) :: ne_pairs r | [] => [] end
  | [] => []
  end.
Definition ne_edec : forall x y : string * string, {x = y} + {x <> y}.
Proof. decide equality; apply string_dec. Defined.

Lemma pairs_expand_cons a r :
  ne_pairs (ne_expand_path (a :: r)) =
  (ne_exp0 a, ne_exp1 a) :: match r with b :: _ => (ne_exp1 a, ne_exp0 b) :: ne_pairs (ne_expand_path r) | [] => [] end.
Proof. destruct r; reflexivity. Qed.

Theorem expand_visit_count p v :
  count_occ ne_edec (ne_pairs (ne_expand_path p)) (ne_exp0 v, ne_exp1 v) = count_occ string_dec p v.
Proof.
  induction p as [|a r IH]; [reflexivity|]. rewrite pairs_expand_cons.
  assert (T : count_occ ne_edec (match r with b :: _ => (ne_exp1 a, ne_exp0 b) :: ne_pairs (ne_expand_path r) | [] => [] end) (ne_exp0 v, ne_exp1 v)
              = count_occ string_dec r v).
  { destruct r as [|b r']; [reflexivity|]. rewrite count_occ_cons_neq; auto.
    intros H. injection H as H _. symmetry in H. now apply exp0_neq_exp1 in H. }
  destruct (string_dec a v) as [->|Hne].
  - rewrite !count_occ_cons_eq by reflexivity. now rewrite T.
  - rewrite !count_occ_cons_neq; auto. intros H. injection H as H _. now apply exp0_inj in H.
Qed.

Theorem expand_edge_count p u v :
  count_occ ne_edec (ne_pairs (ne_expand_path p)) (ne_exp1 u, ne_exp0 v) = count_occ ne_edec (ne_pairs p) (u, v).
Proof.
  induction p as [|a r IH]; [reflexivity|]. rewrite pairs_expand_cons.
  rewrite count_occ_cons_neq by (intros H; injection H as H _; now apply exp0_neq_exp1 in H).
  destruct r as [|b r']; [reflexivity|].
  change (ne_pairs (a :: b :: r')) with ((a, b) :: ne_pairs (b :: r')).
  destruct (ne_edec (a, b) (u, v)) as [H|H].
  - injection H as -> ->. rewrite !count_occ_cons_eq by reflexivity. now rewrite IH.
  - rewrite !count_occ_cons_neq; auto. intros H'. injection H' as H1 H2. apply exp1_inj in H1. apply exp0_inj in H2. congruence.
Qed.

(* ------------------------------------------------------------------ remove_empty in node mode: OLD behaviour refuted, CURRENT behaviour proved *)
(* Before /repo 7b35658 get_solution(remove_empty=True) filtered the CONDENSED paths with len(path) > 1: an
   internal path [v.0, v.1] is a genuine route through the single node v carrying weight w; it was condensed
   to [v] and then dropped together with its weight. *)
Definition ne_G1 : ne_ingraph := [{| ne_nm := "a"; ne_at := [("flow", 5%Z)]; ne_preds := []; ne_succs := [] |}].

Theorem remove_empty_old_drops_single_node_refuted :
  exists G gsrc gsnk internal weights,
    internal = map ne_expand_path [["a"]] /\ weights = [5%Z] /\
    ne_node_solution_old G gsrc gsnk internal weights false = NE_Ok [(["a"], 5%Z)] /\
    ne_node_solution_old G gsrc gsnk internal weights true = NE_Ok [].
Proof. exists ne_G1, "source1", "sink1", [["a.0"; "a.1"]], [5%Z]. vm_compute. repeat split. Qed.

(* ------------------------------------------------------------------ packaged statements for Props/C11.v *)
Theorem exp_names_spec :
  (forall u v, ne_exp0 u = ne_exp0 v -> u = v) /\ (forall u v, ne_exp1 u = ne_exp1 v -> u = v) /\
  (forall u v, ne_exp0 u <> ne_exp1 v) /\
  (forall v, ne_drop_last2 (ne_exp0 v) = v /\ ne_last2 (ne_exp0 v) = ".0") /\
  (forall v, ne_drop_last2 (ne_exp1 v) = v /\ ne_last2 (ne_exp1 v) = ".1").
Proof.
  repeat split; intros; auto using exp0_inj, exp1_inj, exp0_neq_exp1, drop_last2_exp0, drop_last2_exp1, last2_exp0, last2_exp1.
Qed.

Theorem cons_edges_trailing_node G c x u v :
  ne_cons_edges G c = NE_Ok x -> c <> [] -> last c (NE_Node "") = NE_Edge u v ->
  last x ("", "") = (ne_exp0 v, ne_exp1 v).
Proof. intros H Hne Hl. destruct (cons_edges_roundtrip G c x H) as [_ [_ [H3 _]]]. eauto. Qed.

(* the clause about remove_empty: a route whose INTERNAL path is non-empty survives
   get_solution(remove_empty=True).  Stated for either version of the glue code. *)
Definition remove_empty_keeps_routes_statement
           (node_solution : ne_ingraph -> string -> string -> list (list string) -> list Z -> bool -> ne_res (list (list string * Z))) : Prop :=
  forall G gsrc gsnk (p : list string) (w : Z),
    p <> [] -> (forall v, In v p -> ne_is_node G v = true /\ v <> gsrc /\ v <> gsnk) ->
    node_solution G gsrc gsnk [ne_expand_path p] [w] true = NE_Ok [(p, w)].

Theorem remove_empty_old_keeps_routes_refuted : ~ remove_empty_keeps_routes_statement ne_node_solution_old.
Proof.
  intros H. specialize (H ne_G1 "source1" "sink1" ["a"] 5%Z).
  assert (X : ne_node_solution_old ne_G1 "source1" "sink1" [ne_expand_path ["a"]] [5%Z] true = NE_Ok []) by (vm_compute; reflexivity).
  rewrite X in H. assert (Y : @NE_Ok (list (list string * Z)) [] = NE_Ok [(["a"], 5%Z)]).
  { apply H; [discriminate|]. intros v [<-|[]]. vm_compute. repeat split; discriminate. }
  discriminate.
Qed.

(* the code as it is now satisfies the clause, single-node routes included *)
Theorem remove_empty_keeps_routes : remove_empty_keeps_routes_statement ne_node_solution.
Proof.
  intros G gsrc gsnk p w Hne Hp. unfold ne_node_solution. change [ne_expand_path p] with (map ne_expand_path [p]).
  rewrite condense_paths_expand.
  - cbn [ne_bind combine map ne_remove_empty filter fst snd]. destruct p as [|a r]; [congruence|]. reflexivity.
  - intros q v [<-|[]] Hv. now apply Hp.
Qed.

(* without the flag nothing is filtered; with it, exactly the routes with an empty internal path go *)
Lemma proj_combine3 (ps : list (list string)) : forall ws,
  map (fun x : list string * list string * Z => (fst (fst x), snd x)) (combine (combine ps (map ne_expand_path ps)) ws) = combine ps ws.
Proof. induction ps as [|p ps IH]; intros [|w ws]; cbn; auto. now rewrite IH. Qed.
Lemma proj_filter3 (ps : list (list string)) : forall ws,
  map (fun x : list string * list string * Z => (fst (fst x), snd x)) (ne_remove_empty (combine (combine ps (map ne_expand_path ps)) ws)) =
  filter (fun pw : list string * Z => negb (Nat.eqb (List.length (fst pw)) 0)) (combine ps ws).
Proof.
  unfold ne_remove_empty.
  induction ps as [|p ps IH]; intros [|w ws]; cbn [map combine filter]; auto.
  specialize (IH ws). cbn [fst snd].
  destruct p as [|a r].
  - exact IH.
  - change (ne_expand_path (a :: r)) with (ne_exp0 a :: ne_exp1 a :: ne_expand_path r).
    cbn [List.length Nat.ltb Nat.leb Nat.eqb negb map fst snd]. f_equal. exact IH.
Qed.
Theorem node_solution_no_filter G gsrc gsnk ps ws :
  (forall p v, In p ps -> In v p -> ne_is_node G v = true /\ v <> gsrc /\ v <> gsnk) ->
  ne_node_solution G gsrc gsnk (map ne_expand_path ps) ws false = NE_Ok (combine ps ws).
Proof.
  intros Hp. unfold ne_node_solution. rewrite condense_paths_expand by exact Hp. cbn [ne_bind]. now rewrite proj_combine3.
Qed.
Theorem node_solution_filter G gsrc gsnk ps ws :
  (forall p v, In p ps -> In v p -> ne_is_node G v = true /\ v <> gsrc /\ v <> gsnk) ->
  ne_node_solution G gsrc gsnk (map ne_expand_path ps) ws true = NE_Ok (filter (fun pw => negb (Nat.eqb (List.length (fst pw)) 0)) (combine ps ws)).
Proof.
  intros Hp. unfold ne_node_solution. rewrite condense_paths_expand by exact Hp. cbn [ne_bind]. now rewrite proj_filter3.
Qed.

(* ------------------------------------------------------------------ node set under well-formedness *)
Theorem expand_nodes_rel G flow len x :
  ne_wf G ->
  (In x (ne_nkeys (fst (ne_expand_core G flow len))) <-> exists v, ne_inode G v /\ (x = ne_exp0 v \/ x = ne_exp1 v)).
Proof.
  intros W. rewrite expand_nodes_spec, in_flat_map. unfold ne_names_of_node. split.
  - intros [nd [Hnd H]]. cbn [In] in H. rewrite in_app_iff in H.
    assert (Nv : ne_inode G (ne_nm nd)) by (unfold ne_inode; now apply in_map).
    destruct H as [<-|[<-|[H|H]]]; eauto; apply in_map_iff in H; destruct H as [y [<- Hy]].
    + exists (fst y). split; auto. apply (wf_tail G W (fst y) (ne_nm nd)). exists nd. repeat split; auto. now apply in_map.
    + exists (fst y). split; auto. destruct (wf_succ G W nd (fst y) Hnd) as [nd' [Hnd' [E _]]]; [now apply in_map|].
      unfold ne_inode. rewrite <- E. now apply in_map.
  - intros [v [Hv H]]. unfold ne_inode in Hv. apply in_map_iff in Hv. destruct Hv as [nd [<- Hnd]].
    exists nd. split; auto. cbn [In]. destruct H as [-> | ->]; auto.
Qed.
