(* C19 — proofs about Validate.v (the model of the current, repaired code): for every class X
     validate_sound_X     validate_X i = RaiseValueError -> in_domain_X i = false
     validate_complete_X  in_domain_X i = false -> [deviates_X i = false ->] validate_X i = RaiseValueError
     accepts_domain_X     in_domain_X i = true -> has_live i = true -> (class specific side conditions) -> validate_X i = Accept
   [deviates_X] names exactly the deviations that are still open; where none is left the theorem is unconditional. *)
From Coq Require Import List Bool ZArith QArith Arith Lia.
Import ListNotations.
From FP Require Import Validate.
Local Close Scope Q_scope.
Local Open Scope bool_scope.
Set Default Timeout 60.

(* ------------------------------------------------------------------ small facts *)
Lemma kind_eqb_eq a b : kind_eqb a b = true <-> a = b.
Proof. destruct a, b; cbn; split; intros; try reflexivity; try discriminate. Qed.

Lemma has_live_all_ignored i : has_live i = negb (all_ignored i).
Proof.
  unfold has_live, all_ignored. induction (elems i) as [|e l IH]; cbn; [reflexivity|].
  rewrite IH. destruct (ignored (origin i) e); reflexivity.
Qed.

Lemma missing_bad_live i : missing_live i = true -> bad_live i = true.
Proof.
  unfold missing_live, bad_live. induction (elems i) as [|e l IH]; cbn; [discriminate|].
  destruct (ignored (origin i) e); cbn; [exact IH|].
  destruct (e_w e); cbn; auto.
Qed.

Lemma all_missing_live_bad i :
  forallb (fun e => missing_w (e_w e)) (elems i) = true -> has_live i = true -> bad_live i = true.
Proof.
  unfold has_live, bad_live. induction (elems i) as [|e l IH]; cbn; [discriminate|].
  intros H1 H2. apply andb_prop in H1 as [M H1].
  destruct (ignored (origin i) e); cbn in *; [auto|].
  destruct (e_w e); cbn in *; try discriminate; reflexivity.
Qed.

Lemma no_usable_live_bad i : no_usable i = true -> has_live i = true -> bad_live i = true.
Proof.
  unfold no_usable, has_live, bad_live, ignored. induction (elems i) as [|e l IH]; cbn; [discriminate|].
  intros H1 H2. apply andb_prop in H1 as [M H1].
  destruct (e_ign e); cbn in *; [auto|].
  destruct (e_w e); cbn in *; try discriminate.
  destruct (origin i); cbn in *; auto.
Qed.

(* ------------------------------------------------------------------ constraints *)
Lemma check_each_ve cs o : check_each cs = Some o -> o = VE.
Proof.
  induction cs as [|c r IH]; cbn; [discriminate|].
  unfold guard, seq. destruct (is_nil (c_items c)); [intros [= <-]; reflexivity|].
  destruct (forallb _ (c_items c)); cbn; [|intros [= <-]; reflexivity].
  destruct (forallb it_in_graph (c_items c)); cbn; [exact IH|intros [= <-]; reflexivity].
Qed.
Lemma check_cons_ve cs o : check_cons cs = Some o -> o = VE.
Proof.
  unfold check_cons, guard, seq. destruct (forallb c_is_list cs); cbn; [apply check_each_ve|intros [= <-]; reflexivity].
Qed.

Lemma item_good_split kd l :
  forallb (item_good kd) l = forallb (fun it => kind_eqb (it_kind it) kd) l && forallb it_in_graph l.
Proof.
  induction l as [|a l IH]; cbn; [reflexivity|]. rewrite IH. unfold item_good.
  destruct (kind_eqb (it_kind a) kd), (it_in_graph a); cbn; try reflexivity;
  rewrite ?andb_false_r; reflexivity.
Qed.

Lemma check_cons_wf cs : check_cons cs = None <-> cons_wf_kind IPair cs = true.
Proof.
  unfold check_cons, cons_wf_kind.
  induction cs as [|c r IH]; cbn; [split; reflexivity|].
  rewrite item_good_split.
  destruct (c_is_list c); cbn; [|split; discriminate].
  unfold guard, seq in *.
  destruct (forallb c_is_list r); cbn in *.
  - destruct (is_nil (c_items c)); cbn; [split; discriminate|].
    destruct (forallb (fun it => kind_eqb (it_kind it) IPair) (c_items c)); cbn; [|split; discriminate].
    destruct (forallb it_in_graph (c_items c)); cbn; [exact IH|split; discriminate].
  - split; [discriminate|]. intros H. apply andb_prop in H as [_ H]. apply IH in H. discriminate.
Qed.

(* expanded constraints: only emptiness survives *)
Lemma check_each_expanded cs :
  check_each (expanded cs) = None <-> forallb (fun c => negb (is_nil (c_items c))) cs = true.
Proof.
  induction cs as [|c r IH]; cbn; [split; reflexivity|].
  unfold guard, seq.
  destruct (c_items c) as [|a l]; cbn; [split; discriminate|].
  assert (E1 : forallb (fun it => kind_eqb (it_kind it) IPair) (map (fun _ => good_item) l) = true) by (induction l; cbn; auto).
  assert (E2 : forallb it_in_graph (map (fun _ => good_item) l) = true) by (induction l; cbn; auto).
  rewrite E1, E2. cbn. exact IH.
Qed.
Lemma check_cons_expanded cs :
  check_cons (expanded cs) = None <-> forallb (fun c => negb (is_nil (c_items c))) cs = true.
Proof.
  unfold check_cons, guard, seq.
  assert (E : forallb c_is_list (expanded cs) = true) by (induction cs; cbn; auto).
  rewrite E. cbn. apply check_each_expanded.
Qed.

Lemma forallb_all_items (p : item -> bool) cs :
  forallb p (all_items cs) = forallb (fun c => forallb p (c_items c)) cs.
Proof.
  unfold all_items. induction cs as [|c r IH]; cbn; [reflexivity|]. rewrite forallb_app, IH. reflexivity.
Qed.

Lemma first_bad_none l : first_bad_edge_item l = None <-> forallb (item_good IPair) l = true.
Proof.
  induction l as [|a l IH]; cbn; [split; reflexivity|]. unfold item_good at 1.
  destruct (it_kind a); cbn; try (split; discriminate).
  destruct (it_in_graph a); cbn; [exact IH|split; discriminate].
Qed.

Lemma wf_three kd cs :
  cons_wf_kind kd cs = forallb c_is_list cs && forallb (fun c => negb (is_nil (c_items c))) cs
                       && forallb (fun c => forallb (item_good kd) (c_items c)) cs.
Proof.
  unfold cons_wf_kind. induction cs as [|c r IH]; cbn; [reflexivity|]. rewrite IH.
  destruct (c_is_list c), (negb (is_nil (c_items c))), (forallb (item_good kd) (c_items c)),
    (forallb c_is_list r), (forallb (fun c => negb (is_nil (c_items c))) r),
    (forallb (fun c => forallb (item_good kd) (c_items c)) r); reflexivity.
Qed.

(* node mode: the expansion succeeds and the expanded constraints pass the check  <->  documented shape *)
Lemma nonempty_existsb cs :
  existsb (fun c => is_nil (c_items c)) cs = negb (forallb (fun c => negb (is_nil (c_items c))) cs).
Proof. induction cs as [|c r IH]; cbn; auto. rewrite IH. destruct (is_nil (c_items c)); reflexivity. Qed.
Lemma expand_ok_iff cs :
  (expand_cons cs = None /\ check_cons (expanded cs) = None) <->
  cons_wf_kind IStr cs || cons_wf_kind IPair cs = true.
Proof.
  rewrite check_cons_expanded, !wf_three.
  destruct (forallb c_is_list cs) eqn:L.
  2:{ unfold expand_cons, guard, seq. rewrite L. cbn. split; [intros [? _]; discriminate|discriminate]. }
  destruct (forallb (fun c => negb (is_nil (c_items c))) cs) eqn:NE.
  2:{ cbn. split; [intros [_ ?]; discriminate|discriminate]. }
  cbn [andb]. rewrite <- !forallb_all_items.
  destruct cs as [|c0 r]. { cbn. split; auto. }
  destruct (c_items c0) as [|it0 l0] eqn:I0. { cbn in NE. rewrite I0 in NE. discriminate. }
  assert (A0 : all_items (c0 :: r) = it0 :: (l0 ++ all_items r)) by (unfold all_items; cbn; rewrite I0; reflexivity).
  assert (EX : expand_cons (c0 :: r) =
               match it_kind it0 with
               | IStr => guard (negb (forallb (item_good IStr) (all_items (c0 :: r)))) VE
               | IPair | ITriple => first_bad_edge_item (all_items (c0 :: r))
               | IInt => Some VE
               end).
  { unfold expand_cons. unfold guard at 1 2. unfold seq. rewrite L, nonempty_existsb, NE. cbn [negb]. rewrite I0. reflexivity. }
  rewrite EX, A0. set (rest := l0 ++ all_items r). clear EX A0.
  assert (GS : forall kd, item_good kd it0 = kind_eqb (it_kind it0) kd && it_in_graph it0) by reflexivity.
  destruct (it_kind it0) eqn:K0.
  - unfold guard. cbn [forallb]. rewrite !GS. cbn [kind_eqb andb orb].
    rewrite orb_false_r.
    destruct (it_in_graph it0 && forallb (item_good IStr) rest); cbn; (split; intro H; [try (destruct H as [H _]; discriminate); reflexivity | try discriminate; auto]).
  - rewrite first_bad_none. cbn [forallb]. rewrite !GS. cbn [kind_eqb andb orb].
    destruct (it_in_graph it0 && forallb (item_good IPair) rest); cbn; (split; intro H; [try (destruct H as [H _]; discriminate); reflexivity | try discriminate; auto]).
  - cbn [first_bad_edge_item forallb]. rewrite K0, !GS. cbn.
    split; [intros [? _]; discriminate|discriminate].
  - cbn [forallb]. rewrite !GS. cbn.
    split; [intros [? _]; discriminate|discriminate].
Qed.

Lemma first_bad_outcomes l o : first_bad_edge_item l = Some o -> o = VE.
Proof.
  induction l as [|a l IH]; cbn; [discriminate|].
  destruct (it_kind a); try (intros [= <-]; auto).
  destruct (it_in_graph a); [exact IH|intros [= <-]; auto].
Qed.
(* the expansion of node-mode constraints can only fail with ValueError *)
Lemma expand_outcomes cs o : expand_cons cs = Some o -> o = VE.
Proof.
  unfold expand_cons, guard, seq. destruct (forallb c_is_list cs); cbn; [|intros [= <-]; auto].
  destruct (existsb _ cs); [intros [= <-]; auto|].
  destruct cs as [|c0 r]; [discriminate|].
  destruct (c_items c0) as [|it0 l0]; [discriminate|].
  destruct (it_kind it0).
  - destruct (forallb _ _); cbn; [discriminate|intros [= <-]; auto].
  - apply first_bad_outcomes.
  - apply first_bad_outcomes.
  - intros [= <-]; auto.
Qed.


(* internal constraints pass the check  <->  documented shape (given a successful expansion in node mode) *)
Lemma cons_ok_edge i : origin i <> ONode -> (check_cons (internal_cons i) = None <-> cons_wf i = true).
Proof.
  intros O. unfold internal_cons, cons_wf. destruct (origin i); try congruence; apply check_cons_wf.
Qed.
Lemma cons_ok_node i : origin i = ONode ->
  ((expand_cons (cons i) = None /\ check_cons (internal_cons i) = None) <-> cons_wf i = true).
Proof. intros O. unfold internal_cons, cons_wf. rewrite O. apply expand_ok_iff. Qed.

(* ------------------------------------------------------------------ tactics *)
Ltac bsimp := cbn [andb orb negb guard andthen seq is_nil] in *;
  rewrite ?orb_true_r, ?andb_false_r, ?andb_true_r, ?orb_false_r in *; cbn [andb orb negb guard andthen seq is_nil] in *.
Ltac split_dom H :=
  repeat match type of H with
         | _ && _ = true => let H1 := fresh "D" in let H2 := fresh "D" in apply andb_prop in H as [H1 H2]; split_dom H1; split_dom H2
         end.
Ltac norm_hyps :=
  repeat match goal with
         | H : negb _ = true |- _ => apply negb_true_iff in H
         | H : negb _ = false |- _ => apply negb_false_iff in H
         | H : _ && _ = true |- _ => let H1 := fresh H in apply andb_prop in H as [H H1]
         | H : _ || _ = false |- _ => let H1 := fresh H in apply orb_false_elim in H as [H H1]
         end.
(* walk down a chain of guards: a firing guard must close the goal, a passing guard leaves its fact *)
Ltac walk tac :=
  repeat match goal with
         | |- context [guard ?c _] => let E := fresh "G" in destruct c eqn:E; bsimp; [solve [tac] | ]
         end.

Ltac rw_in H :=
  repeat match goal with
         | E : _ = true |- _ => tryif constr_eq E H then fail else rewrite E in H
         | E : _ = false |- _ => tryif constr_eq E H then fail else rewrite E in H
         | E : _ = None |- _ => tryif constr_eq E H then fail else rewrite E in H
         | E : _ = Some _ |- _ => tryif constr_eq E H then fail else rewrite E in H
         end.
Ltac rw_goal :=
  repeat match goal with
         | E : _ = true |- _ => rewrite E
         | E : _ = false |- _ => rewrite E
         | E : _ = None |- _ => rewrite E
         | E : _ = Some _ |- _ => rewrite E
         end.
Ltac unfold_all :=
  unfold validate_stDAG, validate_stDiGraph, validate_NodeExpandedDiGraph, validate_kFlowDecomp, validate_MinFlowDecomp,
    validate_kMinPathError, validate_kLeastAbsErrors, validate_kErrDAG, validate_kPathCover, validate_MinPathCover,
    validate_MinErrorFlow, validate_kFlowDecompCycles, validate_kLeastAbsErrorsCycles, validate_kMinPathErrorCycles,
    validate_kPathCoverCycles, validate_MinPathCoverCycles, validate_MinFlowDecompCycles,
    mfd_solve, kfd_core, kfdc_core, front_cover, front, front_node, front_edge, front_cover, v_stdag, v_stdigraph, v_ssg_common, v_nodeexp,
    v_maxflow, v_pathmodel, v_walkmodel, v_walkmodel_k, k_own_bad, k_base_bad, k_base_bad_gen, k_bad_gen, k_bad, st_of, en_of, no_src, no_snk, VE in *.
Ltac unfold_dom :=
  unfold in_domain_stDAG, in_domain_stDiGraph, in_domain_NodeExpandedDiGraph, in_domain_kFlowDecomp, in_domain_MinFlowDecomp,
    in_domain_kMinPathError, in_domain_kLeastAbsErrors, in_domain_kErrDAG, in_domain_kPathCover, in_domain_MinPathCover,
    in_domain_MinErrorFlow, in_domain_kFlowDecompCycles, in_domain_MinFlowDecompCycles, in_domain_kLeastAbsErrorsCycles,
    in_domain_kMinPathErrorCycles, in_domain_kErrCycles, in_domain_kPathCoverCycles, in_domain_MinPathCoverCycles,
    k_dom, dom_graph_dag, dom_graph_cyc, dom_size, dom_ign, dom_starts, dom_weights, dom_cons, dom_covlen, dom_flow, origin_ok in *.

(* ================================================================== stDAG *)
Theorem validate_sound_stDAG i : validate_stDAG i = RaiseValueError -> in_domain_stDAG i = false.
Proof.
  intros H. destruct (in_domain_stDAG i) eqn:D; [exfalso|reflexivity].
  unfold_dom. norm_hyps. unfold_all. rw_in H. bsimp. discriminate.
Qed.
Theorem validate_complete_stDAG i : in_domain_stDAG i = false -> validate_stDAG i = RaiseValueError.
Proof.
  intros D. unfold_all. walk ltac:(reflexivity).
  exfalso. unfold_dom. norm_hyps. rw_in D. bsimp. discriminate.
Qed.
Theorem accepts_domain_stDAG i : in_domain_stDAG i = true -> validate_stDAG i = Accept.
Proof. intros D. unfold_dom. norm_hyps. unfold_all. rw_goal. reflexivity. Qed.

(* ================================================================== stDiGraph *)
Theorem validate_sound_stDiGraph i : validate_stDiGraph i = RaiseValueError -> in_domain_stDiGraph i = false.
Proof.
  intros H. destruct (in_domain_stDiGraph i) eqn:D; [exfalso|reflexivity].
  unfold_dom. norm_hyps. unfold_all. rw_in H. bsimp.
  destruct (has_source i), (has_sink i), (is_nil (starts i)), (is_nil (ends i)); bsimp; discriminate.
Qed.
Theorem validate_complete_stDiGraph i : in_domain_stDiGraph i = false -> validate_stDiGraph i = RaiseValueError.
Proof.
  intros D. unfold_all. walk ltac:(reflexivity).
  exfalso. unfold_dom. norm_hyps. rw_in D. bsimp.
  destruct (has_source i), (has_sink i), (is_nil (starts i)), (is_nil (ends i)); bsimp; discriminate.
Qed.
Theorem accepts_domain_stDiGraph i : in_domain_stDiGraph i = true -> validate_stDiGraph i = Accept.
Proof.
  intros D. unfold_dom. norm_hyps. unfold_all. rw_goal. bsimp.
  destruct (has_source i), (has_sink i), (is_nil (starts i)), (is_nil (ends i)); bsimp; try discriminate; reflexivity.
Qed.
Definition ex_graph : input :=
  {| nodes_str := [true; true]; n_edges := 2; acyclic := false; has_selfloop := false; ign_pct := PNone; trust_pct := PNone; has_source := true; has_sink := true;
     origin := OEdge; wtype := TFloat;
     elems := [ {| e_w := WPos; e_ign := false |}; {| e_w := WPos; e_ign := false |} ];
     conserving := true; k := KInt 2; has_superset := false; cons := []; cov := 1%Q; cov_len := None; has_len_attr := false; starts := []; ends := []; ign := []; search_enters := true |}.

(* ================================================================== NodeExpandedDiGraph *)
Theorem validate_sound_NodeExpandedDiGraph i :
  validate_NodeExpandedDiGraph i = RaiseValueError -> in_domain_NodeExpandedDiGraph i = false.
Proof.
  intros H. destruct (in_domain_NodeExpandedDiGraph i) eqn:D; [exfalso|reflexivity].
  unfold_dom. norm_hyps. unfold_all. rw_in H. bsimp.
  destruct (is_nil (starts i) && is_nil (ends i)); bsimp; discriminate.
Qed.
Theorem validate_complete_NodeExpandedDiGraph i :
  in_domain_NodeExpandedDiGraph i = false -> validate_NodeExpandedDiGraph i = RaiseValueError.
Proof.
  intros D. unfold_all. walk ltac:(reflexivity).
  exfalso. unfold_dom. norm_hyps. rw_in D. bsimp. discriminate.
Qed.
Theorem accepts_domain_NodeExpandedDiGraph i :
  in_domain_NodeExpandedDiGraph i = true -> validate_NodeExpandedDiGraph i = Accept.
Proof.
  intros D. unfold_dom. norm_hyps. unfold_all. rw_goal. bsimp.
  destruct (is_nil (starts i) && is_nil (ends i)); reflexivity.
Qed.

(* finish a hypothesis of the form  <nested ifs> = outcome  by case analysis on the remaining conditions *)
Ltac dleaf c :=
  lazymatch c with
  | ?a && ?b => dleaf a
  | ?a || ?b => dleaf a
  | negb ?a => dleaf a
  | _ => let E := fresh "C" in destruct c eqn:E; try rewrite E in *
  end.
Ltac clash :=
  repeat match goal with
         | E : ?x = ?v, H' : context [?x] |- _ =>
           lazymatch x with true => fail | false => fail | _ => idtac end;
           lazymatch v with true => idtac | false => idtac end;
           tryif constr_eq E H' then fail else (rewrite E in H'; bsimp)
         end;
  try discriminate.
Ltac fin H :=
  unfold guard, andthen, seq in H;
  repeat (match type of H with
          | context [if ?c then _ else _] => dleaf c
          end; bsimp);
  try discriminate; try solve [clash].
Ltac fing :=
  unfold guard, andthen, seq;
  repeat (match goal with
          | |- context [if ?c then _ else _] => dleaf c
          end; bsimp);
  try discriminate; try reflexivity; try solve [clash].

Lemma eqb0_false n : negb (Nat.eqb n 0) = true -> Nat.eqb n 0 = false.
Proof. destruct n; cbn; auto; discriminate. Qed.

(* facts that follow from  cons_wf i = true  for the two modes *)
Lemma wf_edge_facts i : origin i <> ONode -> cons_wf i = true -> check_cons (internal_cons i) = None.
Proof. intros O W. apply cons_ok_edge; auto. Qed.
Lemma wf_node_facts i : origin i = ONode -> cons_wf i = true ->
  expand_cons (cons i) = None /\ check_cons (internal_cons i) = None.
Proof. intros O W. apply cons_ok_node in W as [W1 W2]; auto. Qed.
Lemma k_pos_facts i : k_pos_int i = true -> k_is_int i = true /\ k_le0 i = false.
Proof.
  unfold k_pos_int, k_is_int, k_le0. destruct (k i); [|discriminate|discriminate|discriminate|discriminate].
  intros H. split; [reflexivity|]. apply Z.ltb_lt in H. apply Z.leb_gt. exact H.
Qed.
Lemma k_pos_from i : k_is_int i = true -> k_le0 i = false -> k_pos_int i = true.
Proof.
  unfold k_pos_int, k_is_int, k_le0. destruct (k i); [|discriminate|discriminate|discriminate|discriminate].
  intros _ H. apply Z.leb_gt in H. apply Z.ltb_lt. exact H.
Qed.


Ltac use_wf i :=
  match goal with
  | O : origin i = ONode, W : cons_wf i = true |- _ =>
    let W1 := fresh "W" in let W2 := fresh "W" in destruct (wf_node_facts i O W) as [W1 W2]
  | O : origin i = OEdge, W : cons_wf i = true |- _ =>
    let W1 := fresh "W" in let O' := fresh "O" in
    assert (O' : origin i <> ONode) by congruence; pose proof (wf_edge_facts i O' W) as W1
  end.
Ltac use_size :=
  repeat match goal with
         | E : negb (Nat.eqb _ 0) = true |- _ => apply eqb0_false in E
         end.
Lemma cons_bad_edge i : origin i <> ONode -> cons_wf i = false -> check_cons (internal_cons i) = Some VE.
Proof.
  intros O W. destruct (check_cons (internal_cons i)) as [o|] eqn:E.
  - apply check_cons_ve in E. subst. reflexivity.
  - apply cons_ok_edge in E; auto. congruence.
Qed.
Lemma cons_bad_node i : origin i = ONode -> cons_wf i = false ->
  expand_cons (cons i) = Some VE \/ (expand_cons (cons i) = None /\ check_cons (internal_cons i) = Some VE).
Proof.
  intros O W.
  destruct (expand_cons (cons i)) as [o|] eqn:E.
  - left. apply expand_outcomes in E as ->; auto.
  - right. split; auto. destruct (check_cons (internal_cons i)) as [o|] eqn:E2.
    + apply check_cons_ve in E2. subst. reflexivity.
    + assert (cons_wf i = true) by (apply cons_ok_node; auto). congruence.
Qed.
Ltac split_dev V :=
  repeat match type of V with
         | _ || _ = false => let V1 := fresh "V" in let V2 := fresh "V" in apply orb_false_elim in V as [V1 V2]; split_dev V1; split_dev V2
         end.
Lemma all_in_map_true (l : list bool) : all_in (map (fun _ => true) l) = true.
Proof. induction l; cbn; auto. Qed.
Lemma is_nil_map {A B} (f : A -> B) l : is_nil (map f l) = is_nil l.
Proof. destruct l; reflexivity. Qed.
Ltac use_bad i :=
  match goal with
  | O : origin i = ONode, W : cons_wf i = false |- _ =>
    let CB := fresh "CB" in let CB1 := fresh "CB" in let CB2 := fresh "CB" in
    destruct (cons_bad_node i O W) as [CB|[CB1 CB2]]
  | O : origin i = OEdge, W : cons_wf i = false |- _ =>
    let O' := fresh "O" in let CB := fresh "CB" in
    assert (O' : origin i <> ONode) by congruence; pose proof (cons_bad_edge i O' W) as CB
  end.
Ltac prep_lists := rewrite ?all_in_map_true, ?is_nil_map in *.
Ltac crunch :=
  norm_hyps;
  repeat (match goal with
          | H : ?e = _ |- _ =>
            lazymatch e with
            | _ && _ => dleaf e
            | _ || _ => dleaf e
            end
          end; bsimp; norm_hyps);
  try discriminate; try reflexivity; try solve [clash].
Ltac rw_origin i O :=
  repeat match goal with H : context [origin i] |- _ => tryif constr_eq H O then fail else rewrite O in H end.
Definition dev_noncons (i : input) := ign_internal_empty i && negb (conserving i).

(* generic scripts *)
Ltac sound_script i :=
  unfold_dom; unfold_all; destruct (origin i) eqn:O; bsimp; try discriminate;
  match goal with D : _ = true |- _ => split_dom D end; use_size; norm_hyps; try use_wf i;
  prep_lists;
  match goal with H : _ = RaiseValueError |- _ => rw_in H; bsimp; try rewrite O in H; fin H end; crunch.
Ltac accept_script i :=
  unfold dev_noncons in *; unfold_dom; unfold_all; destruct (origin i) eqn:O; bsimp; try discriminate;
  match goal with D : _ = true |- _ => split_dom D end; use_size; norm_hyps; try use_wf i;
  rw_origin i O; prep_lists; rw_goal; bsimp; fing; crunch.
Ltac complete_script i :=
  unfold dev_noncons in *; unfold_dom; unfold_all; destruct (origin i) eqn:O; bsimp; try reflexivity;
  (destruct (cons_wf i) eqn:W; [use_wf i | use_bad i]);
  rw_origin i O; prep_lists; rw_goal; bsimp; fing; crunch.

(* modifiers used for witnesses and examples *)
Definition set_cons (i : input) (cs : list constr) (c : Q) : input :=
  {| nodes_str := nodes_str i; n_edges := n_edges i; acyclic := acyclic i; has_selfloop := has_selfloop i; ign_pct := ign_pct i; trust_pct := trust_pct i; has_source := has_source i; has_sink := has_sink i;
     origin := origin i; wtype := wtype i; elems := elems i;
     conserving := conserving i; k := k i; has_superset := has_superset i; cons := cs; cov := c; cov_len := cov_len i; has_len_attr := has_len_attr i; starts := starts i; ends := ends i; ign := ign i;
     search_enters := search_enters i |}.
Definition set_k (i : input) (kk : ktag) : input :=
  {| nodes_str := nodes_str i; n_edges := n_edges i; acyclic := acyclic i; has_selfloop := has_selfloop i; ign_pct := ign_pct i; trust_pct := trust_pct i; has_source := has_source i; has_sink := has_sink i;
     origin := origin i; wtype := wtype i; elems := elems i;
     conserving := conserving i; k := kk; has_superset := has_superset i; cons := cons i; cov := cov i; cov_len := cov_len i; has_len_attr := has_len_attr i; starts := starts i; ends := ends i; ign := ign i;
     search_enters := search_enters i |}.
Definition set_origin (i : input) (o : origin_tag) (w : wtype_tag) : input :=
  {| nodes_str := nodes_str i; n_edges := n_edges i; acyclic := acyclic i; has_selfloop := has_selfloop i; ign_pct := ign_pct i; trust_pct := trust_pct i; has_source := has_source i; has_sink := has_sink i;
     origin := o; wtype := w; elems := elems i;
     conserving := conserving i; k := k i; has_superset := has_superset i; cons := cons i; cov := cov i; cov_len := cov_len i; has_len_attr := has_len_attr i; starts := starts i; ends := ends i; ign := ign i;
     search_enters := search_enters i |}.
Definition set_flags (i : input) (acy cons_ se : bool) (ns : list bool) : input :=
  {| nodes_str := ns; n_edges := n_edges i; acyclic := acy; has_selfloop := has_selfloop i; ign_pct := ign_pct i; trust_pct := trust_pct i; has_source := has_source i; has_sink := has_sink i;
     origin := origin i; wtype := wtype i; elems := elems i;
     conserving := cons_; k := k i; has_superset := has_superset i; cons := cons i; cov := cov i; cov_len := cov_len i; has_len_attr := has_len_attr i; starts := starts i; ends := ends i; ign := ign i;
     search_enters := se |}.
Definition set_elems (i : input) (es : list elem) (se : bool) : input :=
  {| nodes_str := nodes_str i; n_edges := n_edges i; acyclic := acyclic i; has_selfloop := has_selfloop i; ign_pct := ign_pct i; trust_pct := trust_pct i; has_source := has_source i; has_sink := has_sink i;
     origin := origin i; wtype := wtype i; elems := es;
     conserving := conserving i; k := k i; has_superset := has_superset i; cons := cons i; cov := cov i; cov_len := cov_len i; has_len_attr := has_len_attr i; starts := starts i; ends := ends i; ign := ign i;
     search_enters := se |}.
Definition set_starts (i : input) (hs : bool) (sts : list bool) : input :=
  {| nodes_str := nodes_str i; n_edges := n_edges i; acyclic := acyclic i; has_selfloop := has_selfloop i; ign_pct := ign_pct i; trust_pct := trust_pct i; has_source := hs; has_sink := has_sink i;
     origin := origin i; wtype := wtype i; elems := elems i;
     conserving := conserving i; k := k i; has_superset := has_superset i; cons := cons i; cov := cov i; cov_len := cov_len i; has_len_attr := has_len_attr i; starts := sts; ends := ends i; ign := ign i;
     search_enters := search_enters i |}.
Definition set_covlen (i : input) (l : option Q) (a : bool) : input :=
  {| nodes_str := nodes_str i; n_edges := n_edges i; acyclic := acyclic i; has_selfloop := has_selfloop i; ign_pct := ign_pct i; trust_pct := trust_pct i; has_source := has_source i; has_sink := has_sink i;
     origin := origin i; wtype := wtype i; elems := elems i;
     conserving := conserving i; k := k i; has_superset := has_superset i; cons := cons i; cov := cov i; cov_len := l; has_len_attr := a; starts := starts i;
     ends := ends i; ign := ign i; search_enters := search_enters i |}.
Definition set_loop_pct (i : input) (sl : bool) (ip tp : pct) : input :=
  {| nodes_str := nodes_str i; n_edges := n_edges i; acyclic := acyclic i; has_selfloop := sl; ign_pct := ip; trust_pct := tp;
     has_source := has_source i; has_sink := has_sink i; origin := origin i; wtype := wtype i; elems := elems i;
     conserving := conserving i; k := k i; has_superset := has_superset i; cons := cons i; cov := cov i; cov_len := cov_len i; has_len_attr := has_len_attr i;
     starts := starts i; ends := ends i; ign := ign i; search_enters := search_enters i |}.
Definition set_superset (i : input) (b : bool) : input :=
  {| nodes_str := nodes_str i; n_edges := n_edges i; acyclic := acyclic i; has_selfloop := has_selfloop i; ign_pct := ign_pct i;
     trust_pct := trust_pct i; has_source := has_source i; has_sink := has_sink i; origin := origin i; wtype := wtype i;
     elems := elems i; conserving := conserving i; k := k i; has_superset := b; cons := cons i; cov := cov i; cov_len := cov_len i;
     has_len_attr := has_len_attr i; starts := starts i; ends := ends i; ign := ign i; search_enters := search_enters i |}.
Definition ex_dag : input := set_flags ex_graph true true true [true; true].
Definition neg_elem := {| e_w := WNeg; e_ign := false |}.
Definition ign_elem := {| e_w := WPos; e_ign := true |}.
Definition pair_then_int := [ {| c_is_list := true; c_items := [ {| it_kind := IPair; it_in_graph := true |}; {| it_kind := IInt; it_in_graph := false |} ] |} ].

(* ================================================================== kFlowDecomp *)
(* OPEN: every weighted element ignored (#24) *)
Definition deviates_kFlowDecomp (i : input) := all_ignored i.
Theorem validate_sound_kFlowDecomp i : validate_kFlowDecomp i = RaiseValueError -> in_domain_kFlowDecomp i = false.
Proof. intros H. destruct (in_domain_kFlowDecomp i) eqn:D; [exfalso|reflexivity]. sound_script i. Qed.
Theorem validate_complete_kFlowDecomp i :
  in_domain_kFlowDecomp i = false -> deviates_kFlowDecomp i = false -> validate_kFlowDecomp i = RaiseValueError.
Proof. intros D V. unfold deviates_kFlowDecomp in V. complete_script i. Qed.
Theorem accepts_domain_kFlowDecomp i :
  in_domain_kFlowDecomp i = true -> has_live i = true -> validate_kFlowDecomp i = Accept.
Proof. intros D L. rewrite has_live_all_ignored in L. apply negb_true_iff in L. accept_script i. Qed.
(* still open: DESIGN #24 (every weighted element ignored) *)
Theorem validate_kFlowDecomp_refuted_all_ignored :
  exists i, in_domain_kFlowDecomp i = false /\ validate_kFlowDecomp i = RaiseOther EOverflow.
Proof. exists (set_origin (set_k (set_elems ex_dag [ign_elem] true) (KInt 0)) OEdge TInt). vm_compute. auto. Qed.

(* ================================================================== MinFlowDecomp *)
Definition deviates_MinFlowDecomp (i : input) := all_ignored i || negb (search_enters i).
Theorem validate_sound_MinFlowDecomp i : validate_MinFlowDecomp i = RaiseValueError -> in_domain_MinFlowDecomp i = false.
Proof.
  intros H. destruct (in_domain_MinFlowDecomp i) eqn:D; [exfalso|reflexivity].
  unfold_dom; unfold_all; destruct (origin i) eqn:O; bsimp; try discriminate;
  split_dom D; use_size; norm_hyps; try use_wf i; prep_lists;
  destruct (starts i), (ends i); cbn in *; try discriminate; rw_in H; bsimp; fin H; crunch.
Qed.
Theorem validate_complete_MinFlowDecomp i :
  in_domain_MinFlowDecomp i = false -> deviates_MinFlowDecomp i = false -> validate_MinFlowDecomp i = RaiseValueError.
Proof.
  intros D V. unfold deviates_MinFlowDecomp in V. split_dev V. norm_hyps.
  unfold_dom; unfold_all; destruct (origin i) eqn:O; bsimp; try reflexivity;
  (destruct (cons_wf i) eqn:W; [use_wf i | use_bad i]);
  prep_lists; rw_goal; bsimp;
  destruct (starts i) as [|s0 sl], (ends i) as [|e0 el]; bsimp; try reflexivity; fing; crunch.
Qed.
Theorem accepts_domain_MinFlowDecomp i :
  in_domain_MinFlowDecomp i = true -> has_live i = true -> search_enters i = true -> validate_MinFlowDecomp i = Accept.
Proof.
  intros D L S. rewrite has_live_all_ignored in L. apply negb_true_iff in L.
  unfold_dom; unfold_all; destruct (origin i) eqn:O; bsimp; try discriminate;
  split_dom D; use_size; norm_hyps; try use_wf i; prep_lists;
  destruct (starts i), (ends i); cbn in *; try discriminate; rw_goal; bsimp; fing; crunch.
Qed.

(* ================================================================== kMinPathError / kLeastAbsErrors *)
(* OPEN: every weighted element ignored (#24) *)
Definition deviates_kErrDAG (i : input) := all_ignored i.
Theorem validate_sound_kErrDAG none_ok i : validate_kErrDAG none_ok i = RaiseValueError -> in_domain_kErrDAG none_ok i = false.
Proof.
  intros H. destruct (in_domain_kErrDAG none_ok i) eqn:D; [exfalso|reflexivity].
  unfold validate_kErrDAG, in_domain_kErrDAG in *. destruct none_ok; sound_script i.
Qed.
Theorem validate_complete_kErrDAG none_ok i :
  in_domain_kErrDAG none_ok i = false -> deviates_kErrDAG i = false -> validate_kErrDAG none_ok i = RaiseValueError.
Proof.
  intros D V. unfold deviates_kErrDAG in V. unfold validate_kErrDAG, in_domain_kErrDAG in *.
  destruct none_ok; bsimp; (destruct (k_bad_gen _ i) eqn:KB; bsimp; [reflexivity|]); unfold k_bad_gen in KB; bsimp; complete_script i.
Qed.
Theorem accepts_domain_kErrDAG none_ok i :
  in_domain_kErrDAG none_ok i = true -> has_live i = true -> validate_kErrDAG none_ok i = Accept.
Proof.
  intros D L. rewrite has_live_all_ignored in L. apply negb_true_iff in L.
  unfold validate_kErrDAG, in_domain_kErrDAG in *. destruct none_ok; accept_script i.
Qed.
