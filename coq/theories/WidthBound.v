(* The width lower bound of MinFlowDecomp with the GRAPH-RELATIVE notion of incompatibility (Dilworth.incompatible_in: no path OF
   THE GRAPH contains two of the edges): a decomposition of a flow that is positive on such a set has at least that many paths.
   AntichainBound.decomposition_needs_antichain_many_paths states this for the stronger hypothesis `incompatible_edges` (no
   duplicate-free node list at all contains both), which few edge sets satisfy; this is the statement the code's width is about. *)
From Coq Require Import List NArith ZArith QArith Lqa Bool Arith Lia Permutation.
Import ListNotations.
From FP Require Import Lin Blocks BlocksProofs PathEnc Euler EulerProofs1 EulerProofs2 DagDecode PathEncProofs PathEncComplete PathCoverComplete
                       SafeFix AntichainBound Dilworth.
Set Default Timeout 60.
Local Close Scope Q_scope.

Theorem decomposition_needs_width_many_paths (I : kfd_inst) (A' : list PathEnc.edge) (P : N -> list node) (w : N -> Q) :
  NoDup A' -> incompatible_in (g_edges (p_graph (f_base I))) A' ->
  (forall e, In e A' -> In e (g_edges (p_graph (f_base I))) /\ mem_edge e (f_ignore I) = false /\ (0 < lookup_q e (f_flow I) 0)%Q) ->
  decomposition I P w -> (length A' <= p_k (f_base I))%nat.
Proof.
  intros ND Hinc HA (HP & Hw & Hf).
  apply (incompatible_in_needs_layers (p_k (f_base I)) P (g_edges (p_graph (f_base I))) A' ND Hinc).
  - intros i Hi. destruct (HP i Hi) as (_ & _ & H1 & H2). split; assumption.
  - intros e He. destruct (HA e He) as (HeE & Hig & Hpos). pose proof (Hf e HeE Hig) as F.
    destruct (existsb (fun i => mem_edge e (pairs (P i))) (layers (p_k (f_base I)))) eqn:Ex.
    + apply existsb_exists in Ex. destruct Ex as (i & Hi & M). exists i. split; [exact Hi|apply mem_edge_In; exact M].
    + exfalso. assert (Z0 : (sumq (fun i => w i * indq (mem_edge e (pairs (P i)))) (layers (p_k (f_base I))) == 0)%Q).
      { assert (Hall : forall i, In i (layers (p_k (f_base I))) -> mem_edge e (pairs (P i)) = false).
        { intros i Hi. destruct (mem_edge e (pairs (P i))) eqn:M; [|reflexivity].
          assert (existsb (fun i => mem_edge e (pairs (P i))) (layers (p_k (f_base I))) = true) by (apply existsb_exists; exists i; auto). congruence. }
        clear - Hall. induction (layers (p_k (f_base I))) as [|i l IH]; [reflexivity|]. cbn [sumq].
        rewrite (Hall i (or_introl eq_refl)). cbn [indq]. rewrite IH by (intros j Hj; apply Hall; right; exact Hj). ring. }
      rewrite Z0 in F. rewrite <- F in Hpos. lra.
Qed.
