(* Audit instances for the given-weights optimality theorems of C07 / C08 (hypotheses incl. an OPTIMAL satisfying assignment). *)
From Coq Require Import List NArith ZArith QArith Lqa Bool Arith Lia.
Import ListNotations.
From FP Require Import Lin Blocks PathEnc PathEncProofs PathEncComplete ErrEnc ErrEncProofs ErrEncProofs2 ErrEncComplete ErrEncChecked ErrEncGiven ErrEncGivenMpe SatCheck.
Local Close Scope Q_scope.

Definition wg_rank (v : node) : nat := N.to_nat (N.min v 4).

Lemma klae_given_optimal_premises :
  e_given wit_given = Some [2%Q] /\ wf_graph (eG wit_given) /\ p_allow_empty (e_base wit_given) = true /\ p_cons (e_base wit_given) = [] /\
  length [2%Q] = eK wit_given /\
  (forall u v, In (u, v) (g_edges (eG wit_given)) -> (wg_rank u < wg_rank v)%nat) /\ (forall v, (wg_rank v <= 4)%nat) /\
  (forall e, In e (basic_edges wit_given) -> (0 <= scale_of wit_given e)%Q /\ (e_int wit_given = true -> is_int (flow_of wit_given e))) /\
  (e_int wit_given = true -> forall q, In q [2%Q] -> is_int q) /\
  sat (gasg wit_given [2%Q] wit_given_P) (encode_klae wit_given) /\
  (forall b, sat b (encode_klae wit_given) ->
     (objective (gasg wit_given [2%Q] wit_given_P) (encode_klae wit_given) <= objective b (encode_klae wit_given))%Q).
Proof.
  split; [reflexivity|]. split; [exact wit_graph_wf|]. split; [reflexivity|]. split; [reflexivity|]. split; [reflexivity|].
  split; [intros u v H; cbn in H; destruct H as [H|[H|[H|[H|[]]]]]; injection H as <- <-; unfold wg_rank; cbn; lia|].
  split; [intros v; unfold wg_rank; lia|].
  split.
  { intros e He. vm_compute in He. destruct He as [<-|[<-|[]]]; (split; [vm_compute; discriminate|intros _]); [exists 2%Z|exists 0%Z]; vm_compute; reflexivity. }
  split; [intros _ q [<-|[]]; exists 2%Z; reflexivity|].
  split; [exact (proj1 klae_given_example)|].
  intros b [Hc Hr].
  assert (EA : (objective (gasg wit_given [2%Q] wit_given_P) (encode_klae wit_given) == 2)%Q) by exact (proj2 klae_given_example).
  rewrite EA. unfold objective.
  remember (obj (encode_klae wit_given)) as ob eqn:EO. vm_compute in EO. subst ob.
  remember (rows (encode_klae wit_given)) as rs eqn:ER. vm_compute in ER. subst rs.
  remember (cols (encode_klae wit_given)) as cs eqn:EC. vm_compute in EC. subst cs.
  split_forall Hr. split_forall Hc.
  unfold sat_row in *. unfold sat_col in *. cbn [sns lhs rhs eval fst snd cvar clb cub cint] in *.
  lra.
Qed.

