(* Instances of the exact hypotheses of older property theorems (Props/C03.v, Props/C05.v) that no stated Example reached: written for
   the audit of 2026-10-02 (audit/props_C03_C05_C07_C08.md).  Everything is about the diamond of PathEncExample.v. *)
From Coq Require Import List NArith ZArith QArith Lqa Bool Arith Lia.
Import ListNotations.
From FP Require Import Lin PathEnc Euler EulerProofs1 PathEncProofs PathEncComplete PathCoverComplete SafeFix SafeFixCover PathEncExample
                       CoverOracle FlowOracle Search SearchProofs1.
Local Close Scope Q_scope.

(* C05_safe_path_fixing_preserves_feasibility: every hypothesis at once *)
Lemma ex_fix_all_premises :
  wf_graph (p_graph (f_base (exI 2))) /\ p_allow_empty (f_base (exI 2)) = false /\
  (forall u v, In (u, v) (g_edges (p_graph (f_base (exI 2)))) -> (exRank u < exRank v)%nat) /\ (forall v, (exRank v <= 3)%nat) /\
  (forall c e, In c (p_cons (f_base (exI 2))) -> In e c -> In e (g_edges (p_graph (f_base (exI 2)))) /\ (0 <= elen (f_base (exI 2)) e)%Q) /\
  (length exSs <= p_k (f_base (exI 2)))%nat /\
  (forall P w, decomposition (exI 2) P w -> constraints_covered (f_base (exI 2)) P ->
     forall j S, nth_error exSs j = Some S -> exists i, In i (layers (p_k (f_base (exI 2)))) /\ incl S (pairs (P i))) /\
  (forall j j' S S', j <> j' -> nth_error exSs j = Some S -> nth_error exSs j' = Some S' ->
     forall l, NoDup l -> incl S (pairs l) -> incl S' (pairs l) -> False).
Proof.
  split; [exact ex_wf|]. split; [reflexivity|]. split; [exact ex_rank|]. split; [exact ex_rank_le|]. split; [exact (ex_cons_ok 2)|].
  split; [cbn; lia|]. split; [exact ex_fix_safe|exact ex_fix_incompatible].
Qed.

(* C05_safety_as_subpath_constraints_preserves_feasibility: its three specific hypotheses *)
Lemma ex_safety_cons_premises :
  (forall c e, In c (p_cons (f_base (exI 2)) ++ exSs) -> In e c -> In e (g_edges (p_graph (f_base (exI 2)))) /\ (0 <= elen (f_base (exI 2)) e)%Q) /\
  (p_cov (f_base (exI 2)) <= 1)%Q /\
  (forall P w, decomposition (exI 2) P w -> constraints_covered (f_base (exI 2)) P ->
     forall S, In S exSs -> exists i, In i (layers (p_k (f_base (exI 2)))) /\ incl S (pairs (P i))).
Proof.
  split; [|split].
  - intros c e Hc He. cbn in Hc. destruct Hc as [<-|[<-|[<-|[]]]]; cbn in He; unfold elen; cbn [p_len f_base exI exB];
      (split; [cbn; intuition (subst; auto)|lra]).
  - cbn. lra.
  - intros P w Hd Hcc S HS. destruct (In_nth_error _ _ HS) as (j & Hj). exact (ex_fix_safe P w Hd Hcc j S Hj).
Qed.

(* C05_cover_safety_as_subpath_constraints_preserves_feasibility: every hypothesis, for the cover instance exB 2 without ignore list;
   the two lists are safe because every cover passes every edge *)
Lemma ex_cover_safety_premises :
  wf_graph (p_graph (exB 2)) /\ p_allow_empty (exB 2) = false /\
  (forall u v, In (u, v) (g_edges (p_graph (exB 2))) -> (exRank u < exRank v)%nat) /\ (forall v, (exRank v <= 3)%nat) /\
  (forall c e, In c (p_cons (exB 2) ++ exSs) -> In e c -> In e (g_edges (p_graph (exB 2))) /\ (0 <= elen (exB 2) e)%Q) /\
  (p_cov (exB 2) <= 1)%Q /\
  (forall P, path_cover (exB 2) [] P -> constraints_covered (exB 2) P ->
     forall S, In S exSs -> exists i, In i (layers (p_k (exB 2))) /\ incl S (pairs (P i))) /\
  (exists a, sat a (encode_kpc (exB 2) [])).
Proof.
  split; [exact ex_wf|]. split; [reflexivity|]. split; [exact ex_rank|]. split; [exact ex_rank_le|]. split; [|split; [|split]].
  - intros c e Hc He. cbn in Hc. destruct Hc as [<-|[<-|[<-|[]]]]; cbn in He; unfold elen; cbn [p_len exB];
      (split; [cbn; intuition (subst; auto)|lra]).
  - cbn. lra.
  - intros P [_ Hcov] _ S HS. cbn in HS. destruct HS as [<-|[<-|[]]].
    + destruct (Hcov (0, 1)%N) as (i & Hi & M); [cbn; auto|reflexivity|]. exists i. split; [exact Hi|]. intros e [<-|[]]. apply mem_edge_In. exact M.
    + destruct (Hcov (0, 2)%N) as (i & Hi & M); [cbn; auto|reflexivity|]. exists i. split; [exact Hi|]. intros e [<-|[]]. apply mem_edge_In. exact M.
  - exact ex_kpc_feasible_2.
Qed.

(* C03_verified_oracle_returns_the_minimum: the hypotheses hold for the diamond and the oracle answers 2 (the constraint forces two paths) *)
Lemma ex_oracle_premises :
  wf_graph (p_graph (f_base (exI 0))) /\ (forall u v, In (u, v) (g_edges (p_graph (f_base (exI 0)))) -> (exRank u < exRank v)%nat) /\
  f_int (exI 0) = true /\
  (forall e, In e (need_of (exI 0)) -> is_int (lookup_q e (f_flow (exI 0)) 0%Q) /\ (0 <= lookup_q e (f_flow (exI 0)) 0 <= f_wmax (exI 0))%Q) /\
  (0 <= f_wmax (exI 0))%Q /\ min_fd (exI 0) 3 = Some 2%nat.
Proof.
  split; [exact ex_wf|]. split; [exact ex_rank|]. split; [reflexivity|]. split; [|split; [cbn; lra|vm_compute; reflexivity]].
  intros e He. cbn in He. destruct He as [<-|[<-|[<-|[<-|[]]]]].
  - split; [exists 2%Z; vm_compute; reflexivity|vm_compute; split; discriminate].
  - split; [exists 3%Z; vm_compute; reflexivity|vm_compute; split; discriminate].
  - split; [exists 2%Z; vm_compute; reflexivity|vm_compute; split; discriminate].
  - split; [exists 3%Z; vm_compute; reflexivity|vm_compute; split; discriminate].
Qed.

(* C03_search_returns_least_feasible_k: a feasibility predicate that is false below 2, the status list of an exact solver from lb = 1 *)
Lemma ex_search_premises :
  let feasible := fun k => (2 <=? k)%nat in
  let sts := map (fun k => mkraw (if feasible k then Optimal else Infeasible) false) (seq 1 3) in
  (forall i, (i < 4 - 1)%nat -> exists x, nth_error sts i = Some x /\ status_of x = if feasible (1 + i)%nat then Optimal else Infeasible) /\
  feasible 2%nat = true /\ (forall k, (k < 2)%nat -> feasible k = false) /\ (1 <= 2 < 4)%nat /\
  so_res (mpc_solve true 1 4 sts) = Solved 2%nat.
Proof.
  cbn zeta. split; [|split; [reflexivity|split; [|split; [lia|vm_compute; reflexivity]]]].
  - intros i Hi. do 3 (destruct i as [|i]; [eexists; split; reflexivity|]). lia.
  - intros k Hk. destruct k as [|[|k]]; [reflexivity|reflexivity|lia].
Qed.
