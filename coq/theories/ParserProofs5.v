(* C20 — the stored width G.graph["w"]: [Parser.width] is the size of a largest set of pairwise incomparable
   items of the parsed graph, items = the edges between different strongly connected components and one
   representative per component that contains an edge, comparability = declarative reachability. *)
From Coq Require Import List NArith ZArith Bool Arith Lia.
Import ListNotations.
From FP Require Reach ReachProofs1.
From FP Require Import Parser ParserProofs1 ParserProofs2 ParserProofs3.
Set Default Timeout 30.
Local Open Scope nat_scope.

(* ---------------------------------------------------------------- sub-lists and antichains *)
Inductive subl {A : Type} : list A -> list A -> Prop :=
| subl_nil : subl [] []
| subl_skip x l1 l2 : subl l1 l2 -> subl l1 (x :: l2)
| subl_take x l1 l2 : subl l1 l2 -> subl (x :: l1) (x :: l2).

Lemma subl_In {A} (l1 l2 : list A) : subl l1 l2 -> forall x, In x l1 -> In x l2.
Proof. induction 1; intros y Hy; [destruct Hy|right; auto|destruct Hy as [<-|Hy]; [left; reflexivity|right; auto]]. Qed.

Section Best.
  Variable tab : list (str * list str).
  Notation cmp := (comparable tab).

  Lemma comparable_sym a b : cmp a b = cmp b a.
  Proof. unfold comparable. apply orb_comm. Qed.

  Definition indepW (A C : list (str * str)) : Prop :=
    ForallOrdPairs (fun a b => cmp a b = false) A /\ forall a c, In a A -> In c C -> cmp a c = false.

  Lemma free_spec i C : forallb (fun c => negb (cmp i c)) C = true <-> forall c, In c C -> cmp i c = false.
  Proof.
    rewrite forallb_forall. split; intros H c Hc; specialize (H c Hc); [apply negb_true_iff in H|apply negb_true_iff]; exact H.
  Qed.

  Lemma best_ge_skip i r C : best tab r C <= best tab (i :: r) C.
  Proof. cbn [best]. destruct (forallb _ C); [apply Nat.le_max_r|apply Nat.le_refl]. Qed.

  Lemma best_upper items : forall C A, subl A items -> indepW A C -> length A + length C <= best tab items C.
  Proof.
    induction items as [|i r IH]; intros C A Hs Hi.
    - inversion Hs; subst. cbn. lia.
    - inversion Hs as [|x l1 l2 Hs'|x l1 l2 Hs']; subst.
      + eapply Nat.le_trans; [apply IH; eassumption|apply best_ge_skip].
      + destruct Hi as [Hp Hc]. inversion Hp as [|a l Hfa Hp']; subst.
        assert (T : forallb (fun c => negb (cmp i c)) C = true).
        { apply free_spec. intros c Hin. apply Hc; [left; reflexivity|assumption]. }
        cbn [best]. rewrite T.
        assert (Hi' : indepW l1 (i :: C)).
        { split; [assumption|]. intros a c Ha [<-|Hc'].
          - rewrite comparable_sym. rewrite Forall_forall in Hfa. apply Hfa. assumption.
          - apply Hc; [right; assumption|assumption]. }
        specialize (IH (i :: C) l1 Hs' Hi'). cbn [length] in *.
        eapply Nat.le_trans; [|apply Nat.le_max_l]. lia.
  Qed.

  Lemma best_attained items : forall C, exists A, subl A items /\ indepW A C /\ best tab items C = length A + length C.
  Proof.
    induction items as [|i r IH]; intros C.
    - exists []. split; [constructor|]. split; [split; [constructor|intros a c []]|reflexivity].
    - cbn [best]. destruct (IH C) as (A0 & Hs0 & Hi0 & E0).
      destruct (forallb (fun c => negb (cmp i c)) C) eqn:T.
      + destruct (IH (i :: C)) as (A1 & Hs1 & (Hp1 & Hc1) & E1).
        destruct (Nat.max_spec (best tab r (i :: C)) (best tab r C)) as [[_ ->]|[_ ->]].
        * exists A0. split; [constructor; assumption|]. split; assumption.
        * exists (i :: A1). split; [constructor; assumption|]. split.
          -- split.
             ++ constructor; [|assumption]. apply Forall_forall. intros a Ha. rewrite comparable_sym. apply Hc1; [assumption|left; reflexivity].
             ++ intros a c [<-|Ha] Hc; [apply (proj1 (free_spec i C) T); assumption|apply Hc1; [assumption|right; assumption]].
          -- rewrite E1. cbn [length]. lia.
      + exists A0. split; [constructor; assumption|]. split; assumption.
  Qed.
End Best.

(* ---------------------------------------------------------------- reachability table *)
Lemma str_eqb_reflect x y : reflect (x = y) (str_eqb x y).
Proof. destruct (str_eqb x y) eqn:E; constructor; [apply str_eqb_eq; assumption|apply str_eqb_neq; assumption]. Qed.

Definition greach (es : list wedge) : str -> str -> Prop := Reach.reach (succs es).

Lemma succs_In es u v : In v (succs es u) <-> In (u, v) (map fst es).
Proof.
  unfold succs. rewrite in_map_iff. split.
  - intros ([[a b] w] & E & Hin). apply filter_In in Hin. destruct Hin as [Hin Ha]. cbn [fst snd] in *.
    apply str_eqb_eq in Ha. subst. apply in_map_iff. exists (u, v, w). split; [reflexivity|assumption].
  - intros H. apply in_map_iff in H. destruct H as ([[a b] w] & E & Hin). cbn [fst] in E. inversion E; subst.
    exists (u, v, w). split; [reflexivity|]. apply filter_In. split; [assumption|]. cbn [fst]. apply str_eqb_refl.
Qed.

Lemma find_tab (f : str -> list str) ns u : In u ns ->
  find (fun p => str_eqb (fst p) u) (map (fun x => (x, f x)) ns) = Some (u, f u).
Proof.
  induction ns as [|a ns IH]; intros H; [destruct H|]. cbn [map find fst].
  destruct (str_eqb a u) eqn:E; [apply str_eqb_eq in E; subst; reflexivity|].
  destruct H as [->|H]; [rewrite str_eqb_refl in E; discriminate|apply IH; assumption].
Qed.

(* ns = the nodes, closed under the edges of es *)
Definition closed_nodes (ns : list str) (es : list wedge) : Prop :=
  NoDup ns /\ forall u v, In (u, v) (map fst es) -> In u ns /\ In v ns.

Lemma reaches_spec ns es u v : closed_nodes ns es -> In u ns ->
  (reaches (reach_tab ns es) u v = true <-> greach es u v).
Proof.
  intros [Hnd Hcl] Hu. unfold reaches, reach_tab. rewrite (find_tab (fun x => Reach.clos str_eqb (succs es) (S (length ns)) [x]) ns u Hu).
  cbn [snd]. rewrite mem_str_In. unfold greach.
  apply (ReachProofs1.clos_correct str str_eqb str_eqb_reflect (succs es) ns); try assumption.
  intros x y _ Hy. apply succs_In in Hy. apply (Hcl x y Hy).
Qed.

Lemma graph_of_closed L : closed_nodes (gi_nodes (graph_of L)) (gi_edges (graph_of L)).
Proof.
  destruct (graph_of_spec L) as (Hnd & Hn & _ & He & _). split; [exact Hnd|].
  intros u v H. apply He in H. apply in_map_iff in H. destruct H as (e & Ee & Hin).
  split; apply Hn; exists e; (split; [assumption|]); rewrite Ee; [left|right]; reflexivity.
Qed.

(* ---------------------------------------------------------------- the items *)
Definition same_comp (es : list wedge) (u v : str) : Prop := greach es u v /\ greach es v u.

Lemma same_scc_spec ns es u v : closed_nodes ns es -> In u ns -> In v ns ->
  (same_scc (reach_tab ns es) u v = true <-> same_comp es u v).
Proof.
  intros Hc Hu Hv. unfold same_scc, same_comp. rewrite andb_true_iff. rewrite !(reaches_spec ns es) by assumption. tauto.
Qed.

(* every item is an edge between two components, or (r,r) for the tail r of an edge inside a component *)
Lemma items_sound ns es : closed_nodes ns es -> forall l reps a b, incl (map fst l) (map fst es) ->
  In (a, b) (items_of (reach_tab ns es) l reps) ->
  (In (a, b) (map fst l) /\ ~ same_comp es a b) \/ (a = b /\ exists v, In (a, v) (map fst l) /\ same_comp es a v).
Proof.
  intros Hc. induction l as [|[[u v] w] l IH]; intros reps a b Hincl Hin; [destruct Hin|].
  assert (Huv : In u ns /\ In v ns) by (apply (proj2 Hc); apply Hincl; left; reflexivity).
  assert (Hincl' : incl (map fst l) (map fst es)) by (intros x Hx; apply Hincl; right; assumption).
  assert (Lift : forall reps', In (a, b) (items_of (reach_tab ns es) l reps') ->
     (In (a, b) (map fst ((u, v, w) :: l)) /\ ~ same_comp es a b) \/ (a = b /\ exists v0, In (a, v0) (map fst ((u, v, w) :: l)) /\ same_comp es a v0)).
  { intros reps' H. destruct (IH reps' a b Hincl' H) as [[H1 H2]|[H1 (v0 & H2 & H3)]]; [left; split; [right; assumption|assumption]|].
    right. split; [assumption|]. exists v0. split; [right; assumption|assumption]. }
  cbn [items_of] in Hin. destruct (same_scc (reach_tab ns es) u v) eqn:S.
  - apply (same_scc_spec ns es u v Hc (proj1 Huv) (proj2 Huv)) in S.
    destruct (existsb (same_scc (reach_tab ns es) u) reps); [apply (Lift reps); assumption|].
    destruct Hin as [E|Hin]; [|apply (Lift (u :: reps)); assumption].
    inversion E; subst. right. split; [reflexivity|]. exists v. split; [left; reflexivity|assumption].
  - destruct Hin as [E|Hin]; [|apply (Lift reps); assumption].
    inversion E; subst. left. split; [left; reflexivity|]. intros HS.
    apply (same_scc_spec ns es a b Hc (proj1 Huv) (proj2 Huv)) in HS. congruence.
Qed.

(* every edge is accounted for: itself if it joins two components, else by a representative (r,r) of its component
   (r among the earlier representatives [reps] or a new item) *)
Lemma items_complete ns es : closed_nodes ns es -> forall l reps, incl (map fst l) (map fst es) -> incl reps ns ->
  forall u v, In (u, v) (map fst l) ->
  (~ same_comp es u v /\ In (u, v) (items_of (reach_tab ns es) l reps)) \/
  (same_comp es u v /\ exists r, same_comp es u r /\ (In r reps \/ In (r, r) (items_of (reach_tab ns es) l reps))).
Proof.
  intros Hc. induction l as [|[[a b] w] l IH]; intros reps Hincl Hreps u v Hin; [destruct Hin|].
  assert (Hab : In a ns /\ In b ns) by (apply (proj2 Hc); apply Hincl; left; reflexivity).
  assert (Hincl' : incl (map fst l) (map fst es)) by (intros x Hx; apply Hincl; right; assumption).
  cbn [items_of]. destruct (same_scc (reach_tab ns es) a b) eqn:S.
  - pose proof (proj1 (same_scc_spec ns es a b Hc (proj1 Hab) (proj2 Hab)) S) as Sab.
    destruct (existsb (same_scc (reach_tab ns es) a) reps) eqn:X.
    + apply existsb_exists in X. destruct X as (r & Hr & Sr).
      apply (same_scc_spec ns es a r Hc (proj1 Hab) (Hreps r Hr)) in Sr.
      destruct Hin as [E|Hin]; [|apply IH; assumption].
      cbn [fst] in E. inversion E; subst. right. split; [assumption|]. exists r. split; [assumption|left; assumption].
    + destruct Hin as [E|Hin].
      * cbn [fst] in E. inversion E; subst. right. split; [assumption|]. exists u. split; [split; constructor|]. right. left. reflexivity.
      * assert (Hreps' : incl (a :: reps) ns) by (intros x [<-|Hx]; [apply Hab|apply Hreps; assumption]).
        destruct (IH (a :: reps) Hincl' Hreps' u v Hin) as [[H1 H2]|[H1 (r & H2 & H3)]]; [left; split; [assumption|right; assumption]|].
        right. split; [assumption|]. exists r. split; [assumption|].
        destruct H3 as [[<-|H3]|H3]; [right; left; reflexivity|left; assumption|right; right; assumption].
  - destruct Hin as [E|Hin].
    + cbn [fst] in E. inversion E; subst. left. split; [|left; reflexivity]. intros HS.
      apply (same_scc_spec ns es u v Hc (proj1 Hab) (proj2 Hab)) in HS. congruence.
    + destruct (IH reps Hincl' Hreps u v Hin) as [[H1 H2]|[H1 (r & H2 & H3)]]; [left; split; [assumption|right; assumption]|].
      right. split; [assumption|]. exists r. split; [assumption|]. destruct H3 as [H3|H3]; [left; assumption|right; right; assumption].
Qed.

Lemma items_nodes ns es : closed_nodes ns es -> forall a b, In (a, b) (items_of (reach_tab ns es) es []) -> In a ns /\ In b ns.
Proof.
  intros Hc a b H. destruct (items_sound ns es Hc es [] a b (fun x Hx => Hx) H) as [[H1 _]|[-> (v & H1 & _)]].
  - apply (proj2 Hc). assumption.
  - destruct (proj2 Hc _ _ H1) as [Hb _]. split; assumption.
Qed.

(* ---------------------------------------------------------------- the stored width *)
(* a before b: the end of a reaches the start of b *)
Definition comparable_items (es : list wedge) (a b : str * str) : Prop := greach es (snd a) (fst b) \/ greach es (snd b) (fst a).
Definition antichain (es : list wedge) (A : list (str * str)) : Prop := ForallOrdPairs (fun a b => ~ comparable_items es a b) A.
Definition items (G : ginfo) : list (str * str) := items_of (reach_tab (gi_nodes G) (gi_edges G)) (gi_edges G) [].

Lemma comparable_spec ns es a b : closed_nodes ns es -> In (snd a) ns -> In (snd b) ns ->
  (comparable (reach_tab ns es) a b = true <-> comparable_items es a b).
Proof.
  intros Hc Ha Hb. unfold comparable, comparable_items. rewrite orb_true_iff. rewrite !(reaches_spec ns es) by assumption. tauto.
Qed.

Lemma antichain_bool ns es A : closed_nodes ns es -> (forall a, In a A -> In (fst a) ns /\ In (snd a) ns) ->
  (ForallOrdPairs (fun a b => comparable (reach_tab ns es) a b = false) A <-> antichain es A).
Proof.
  intros Hc. unfold antichain. induction A as [|a A IH]; intros Hn; [split; constructor|].
  assert (Hn' : forall x, In x A -> In (fst x) ns /\ In (snd x) ns) by (intros x Hx; apply Hn; right; assumption).
  split; intros H; inversion H as [|? ? Hf Hp]; subst; constructor; try (apply (IH Hn'); assumption).
  - apply Forall_forall. intros b Hb Hcmp. rewrite Forall_forall in Hf. specialize (Hf b Hb).
    apply (comparable_spec ns es a b Hc (proj2 (Hn a (or_introl eq_refl))) (proj2 (Hn' b Hb))) in Hcmp. congruence.
  - apply Forall_forall. intros b Hb. rewrite Forall_forall in Hf. specialize (Hf b Hb).
    destruct (comparable (reach_tab ns es) a b) eqn:E; [|reflexivity]. exfalso. apply Hf.
    apply (comparable_spec ns es a b Hc (proj2 (Hn a (or_introl eq_refl))) (proj2 (Hn' b Hb))). assumption.
Qed.

Theorem width_spec L :
  let G := graph_of L in
  let es := gi_edges G in
  (* the items: the edges between different components, and a representative of every component with an edge *)
  (forall a b, In (a, b) (items G) ->
      (In (a, b) (map fst es) /\ ~ same_comp es a b) \/ (a = b /\ exists v, In (a, v) (map fst es) /\ same_comp es a v)) /\
  (forall u v, In (u, v) (map fst es) ->
      (~ same_comp es u v /\ In (u, v) (items G)) \/ (same_comp es u v /\ exists r, same_comp es u r /\ In (r, r) (items G))) /\
  (* gi_w is the size of a largest antichain of items *)
  (exists A, subl A (items G) /\ antichain es A /\ length A = gi_w G) /\
  (forall A, subl A (items G) -> antichain es A -> length A <= gi_w G).
Proof.
  intros G es. pose proof (graph_of_closed L) as Hc. fold G in Hc. fold es in Hc.
  assert (Hitems : forall A, subl A (items G) -> forall a, In a A -> In (fst a) (gi_nodes G) /\ In (snd a) (gi_nodes G)).
  { intros A Hs [a b] Ha. apply (items_nodes (gi_nodes G) es Hc). apply (subl_In _ _ Hs). assumption. }
  split; [|split; [|split]].
  - intros a b H. apply (items_sound (gi_nodes G) es Hc es [] a b (fun x Hx => Hx) H).
  - intros u v H. destruct (items_complete (gi_nodes G) es Hc es [] (fun x Hx => Hx) (fun x Hx => match Hx with end) u v H) as [X|[H1 (r & H2 & [[]|H3])]].
    + left. exact X.
    + right. split; [assumption|]. exists r. split; assumption.
  - destruct (best_attained (reach_tab (gi_nodes G) es) (items G) []) as (A & Hs & (Hp & _) & E).
    exists A. split; [assumption|]. split.
    + apply (antichain_bool (gi_nodes G) es A Hc (Hitems A Hs)). assumption.
    + cbn [length] in E. rewrite Nat.add_0_r in E. symmetry. exact E.
  - intros A Hs Ha.
    pose proof (best_upper (reach_tab (gi_nodes G) es) (items G) [] A Hs) as U. cbn [length] in U. rewrite Nat.add_0_r in U.
    apply U. split; [|intros a c _ []]. apply (antichain_bool (gi_nodes G) es A Hc (Hitems A Hs)). assumption.
Qed.

Lemma denote_ignores_count (b b' : bdesc) :
  b_items b = b_items b' -> b_body b = b_body b' -> b_n b <> 0%Z -> b_n b' <> 0%Z -> denote b = denote b'.
Proof.
  intros Ei Eb Hz Hz'. unfold denote. rewrite Ei, Eb.
  destruct (b_n b =? 0)%Z eqn:Z1; [apply Z.eqb_eq in Z1; contradiction|].
  destruct (b_n b' =? 0)%Z eqn:Z2; [apply Z.eqb_eq in Z2; contradiction|]. reflexivity.
Qed.
