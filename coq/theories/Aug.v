(* Model of AbstractSourceSinkGraph._augment_with_source_sink: the s-t graph every model works on. *)
From Coq Require Import List NArith Bool.
Import ListNotations.
From FP Require Import Lin PathEnc.

Definition memn (u : node) (l : list node) : bool := existsb (N.eqb u) l.
Definition indeg0 (E : list edge) (u : node) : bool := negb (existsb (fun e => (snd e =? u)%N) E).
Definition outdeg0 (E : list edge) (u : node) : bool := negb (existsb (fun e => (fst e =? u)%N) E).

Definition is_start (E : list edge) (S : list node) (u : node) : bool := indeg0 E u || memn u S.
Definition is_end (E : list edge) (T : list node) (u : node) : bool := outdeg0 E u || memn u T.

(* base edges first, then per node (in node order) the source edge and the sink edge *)
Definition aug_edges (V : list node) (E : list edge) (S T : list node) (s t : node) : list edge :=
  E ++ flat_map (fun u => (if is_start E S u then [(s, u)] else []) ++ (if is_end E T u then [(u, t)] else [])) V.

Definition aug_source_edges (V : list node) (E : list edge) (S : list node) (s : node) : list edge :=
  map (fun u => (s, u)) (filter (is_start E S) V).
Definition aug_sink_edges (V : list node) (E : list edge) (T : list node) (t : node) : list edge :=
  map (fun u => (u, t)) (filter (is_end E T) V).
