(* C15: the upper end of MinGenSet's search range always suffices (no partition constraints): the differences of the
   sorted numbers and the total form a generating multiset of size len(numbers) + 1; padding with zeros gives every
   larger size (feasibility is monotone in k); a number above the total has no generating multiset for multiplicity 1. *)
From Coq Require Import List NArith ZArith QArith Lqa Bool Lia Permutation Sorting.Sorted.
Import ListNotations.
From FP Require Import Lin Blocks BlocksProofs PathEnc PathEncProofs MiscEnc MiscEncProofs MgsComplete LowerBoundsMgs.
Set Default Timeout 60.
Open Scope Q_scope.

(* differences of an ascending list, starting at [prev] and ending at [total] *)
Fixpoint diffs (total prev : Q) (s : list Q) : list Q :=
  match s with [] => [total - prev] | a :: r => (a - prev) :: diffs total a r end.

Lemma diffs_length total : forall s prev, length (diffs total prev s) = S (length s).
Proof. induction s as [|a r IH]; intros prev; cbn [diffs length]; [reflexivity|]. rewrite IH. reflexivity. Qed.

Lemma diffs_sum total : forall s prev, sumql (diffs total prev s) == total - prev.
Proof. induction s as [|a r IH]; intros prev; cbn [diffs sumql]; [ring|]. rewrite IH. ring. Qed.

Lemma diffs_nonneg total : forall s prev, Sorted Qle s -> HdRel Qle prev s -> prev <= total -> Forall (fun a => a <= total) s ->
  Forall (fun v => 0 <= v) (diffs total prev s).
Proof.
  induction s as [|a r IH]; intros prev Hs Hh Hp Hf; cbn [diffs].
  - constructor; [lra|constructor].
  - inversion Hs as [|? ? Hs' Hh']; subst. inversion Hh as [|? ? Hpa]; subst. inversion Hf as [|? ? Ha Hf']; subst.
    constructor; [lra|]. apply IH; assumption.
Qed.

Lemma diffs_int total : forall s prev, is_int total -> is_int prev -> Forall is_int s -> Forall is_int (diffs total prev s).
Proof.
  induction s as [|a r IH]; intros prev Ht Hp Hf; cbn [diffs].
  - constructor; [apply is_int_sub; assumption|constructor].
  - inversion Hf as [|? ? Ha Hf']; subst. constructor; [apply is_int_sub; assumption|]. apply IH; assumption.
Qed.

(* every element of s is a prefix sum of the differences *)
Lemma diffs_prefix total : forall s prev a, In a s ->
  exists xs, length xs = length (diffs total prev s) /\ Forall (fun x => (0 <= x <= 1)%Z) xs /\ a - prev == dotz xs (diffs total prev s).
Proof.
  induction s as [|b r IH]; intros prev a Ha; [destruct Ha|]. cbn [diffs]. destruct Ha as [->|Ha].
  - exists (1%Z :: repeat 0%Z (length (diffs total a r))). split; [cbn [length]; rewrite repeat_length; reflexivity|]. split.
    + constructor; [lia|]. apply Forall_forall. intros x Hx. apply repeat_spec in Hx. subst. lia.
    + cbn [dotz]. rewrite dotz_repeat0. change (inject_Z 1) with 1. ring.
  - destruct (IH b a Ha) as (xs & Hl & Hf & He). exists (1%Z :: xs). split; [cbn [length]; rewrite Hl; reflexivity|]. split.
    + constructor; [lia|exact Hf].
    + cbn [dotz]. rewrite <- He. change (inject_Z 1) with 1. ring.
Qed.

Lemma gen_by_mono m m' g a : (m <= m')%nat -> gen_by m g a -> gen_by m' g a.
Proof.
  intros Hm (xs & Hl & Hf & He). exists xs. split; [exact Hl|]. split; [|exact He].
  eapply Forall_impl; [|exact Hf]. intros x Hx. cbn beta in *. lia.
Qed.

Lemma HdRel_min (s : list Q) : Forall (fun a => 0 <= a) s -> HdRel Qle 0 s.
Proof. intros H. destruct s; constructor. inversion H; assumption. Qed.

(* the witness: differences of the sorted numbers *)
Definition range_witness (numbers : list Q) (total : Q) : list Q := diffs total 0 (qsort numbers).

Theorem range_witness_genset mult numbers total : (1 <= mult)%nat -> 0 <= total ->
  Forall (fun a => 0 <= a <= total) numbers ->
  length (range_witness numbers total) = S (length numbers) /\ genset mult numbers total (range_witness numbers total).
Proof.
  intros Hm Ht Hn. pose proof (qsort_perm numbers) as HP. unfold range_witness.
  assert (Hs : Forall (fun a => 0 <= a <= total) (qsort numbers)).
  { apply Forall_forall. intros a Ha. rewrite Forall_forall in Hn. apply Hn. eapply Permutation_in; [symmetry; exact HP|exact Ha]. }
  split; [rewrite diffs_length, <- (Permutation_length HP); reflexivity|]. split; [|split].
  - apply diffs_nonneg; [apply qsort_sorted| |lra|].
    + apply HdRel_min. eapply Forall_impl; [|exact Hs]. intros a [H _]. exact H.
    + eapply Forall_impl; [|exact Hs]. intros a [_ H]. exact H.
  - rewrite diffs_sum. ring.
  - intros a Ha. apply (gen_by_mono 1 mult); [exact Hm|].
    destruct (diffs_prefix total (qsort numbers) 0 a (Permutation_in _ HP Ha)) as (xs & Hl & Hf & He).
    exists xs. split; [exact Hl|]. split; [exact Hf|]. rewrite <- He. ring.
Qed.

Lemma range_witness_int numbers total : is_int total -> Forall is_int numbers -> Forall is_int (range_witness numbers total).
Proof.
  intros Ht Hn. unfold range_witness. apply diffs_int; [exact Ht|exists 0%Z; reflexivity|].
  apply Forall_forall. intros a Ha. rewrite Forall_forall in Hn. apply Hn. eapply Permutation_in; [symmetry; apply qsort_perm|exact Ha].
Qed.

(* ---------------------------------------------------------------- padding and monotone feasibility *)
Lemma genset_for_pad (I : mgs_inst) g j : mg_parts I = None -> genset_for I g -> genset_for I (g ++ repeat 0 j).
Proof.
  intros Hp (Hg & Hi & _). split; [apply genset_pad; exact Hg|]. split.
  - intros H. apply Forall_app. split; [apply Hi; exact H|]. apply Forall_forall. intros v Hv. apply repeat_spec in Hv. subst. exists 0%Z. reflexivity.
  - unfold parts_of. rewrite Hp. constructor.
Qed.

(* "the model for k is satisfiable" is monotone in k (what a search starting from a lower bound relies on) *)
Theorem mgs_feasible_monotone (I : mgs_inst) k k' : mg_parts I = None -> (1 <= mg_mult I)%nat -> (k <= k')%nat ->
  (exists a, sat a (encode_mgs I k)) -> exists a, sat a (encode_mgs I k').
Proof.
  intros Hp Hm Hk Hs. apply (mgs_feasible_iff I k Hp Hm) in Hs. destruct Hs as (g & Hl & Hg).
  apply (mgs_feasible_iff I k' Hp Hm). exists (g ++ repeat 0 (k' - k)). split; [rewrite app_length, repeat_length; lia|].
  apply genset_for_pad; assumption.
Qed.

(* ---------------------------------------------------------------- the upper end of the range suffices *)
(* the domain: numbers in [0, total]; integral data for weight_type = int *)
Definition mgs_domain (I : mgs_inst) : Prop :=
  0 <= mg_total I /\ Forall (fun a => 0 <= a <= mg_total I) (mg_numbers I) /\
  (mg_int I = true -> is_int (mg_total I) /\ Forall is_int (mg_numbers I)).

Theorem mgs_witness_exists (I : mgs_inst) : mg_parts I = None -> (1 <= mg_mult I)%nat -> mgs_domain I ->
  forall k, (S (length (mg_numbers I)) <= k)%nat -> exists g, length g = k /\ genset_for I g.
Proof.
  intros Hp Hm (Ht & Hn & Hi) k Hk.
  destruct (range_witness_genset (mg_mult I) (mg_numbers I) (mg_total I) Hm Ht Hn) as [Hl Hg].
  exists (range_witness (mg_numbers I) (mg_total I) ++ repeat 0 (k - S (length (mg_numbers I)))).
  split; [rewrite app_length, repeat_length, Hl; lia|]. apply genset_for_pad; [exact Hp|]. split; [exact Hg|]. split.
  - intros H. destruct (Hi H) as [H1 H2]. apply range_witness_int; assumption.
  - unfold parts_of. rewrite Hp. constructor.
Qed.

Theorem mgs_model_feasible_from_n_plus_1 (I : mgs_inst) : mg_parts I = None -> (1 <= mg_mult I)%nat -> mgs_domain I ->
  forall k, (S (length (mg_numbers I)) <= k)%nat -> exists a, sat a (encode_mgs I k).
Proof.
  intros Hp Hm Hd k Hk. destruct (mgs_witness_exists I Hp Hm Hd k Hk) as (g & Hl & Hg). eapply mgs_enc_complete; eassumption.
Qed.

(* the range lowerbound .. max(lowerbound, len(initial_numbers) + 1 + extra) contains len(initial_numbers) + 1 *)
Lemma range_contains_upper lb n extra : (lb <= S n)%nat -> (0 <= extra)%Z -> In (S n) (mgsm_range lb n extra).
Proof.
  intros Hlb He. unfold mgsm_range, mgsm_first. cbv zeta. apply in_seq. set (lb' := Nat.max 1 lb). assert (Hlb' : (lb' <= S n)%nat) by (unfold lb'; lia). clearbody lb'. clear Hlb. rename lb' into lb0.
  pose proof (Z.le_max_r (Z.of_nat lb0 + 1) (Z.of_nat n + 2 + extra)) as H1. pose proof (Z.le_max_l (Z.of_nat lb0 + 1) (Z.of_nat n + 2 + extra)) as H2.
  set (M := Z.max (Z.of_nat lb0 + 1) (Z.of_nat n + 2 + extra)) in *. split; [exact Hlb'|]. rewrite Nat2Z.inj_lt, Nat2Z.inj_add, Z2Nat.id by lia. lia.
Qed.

(* MinGenSet.solve ALWAYS reports a size (under the solver specification with conclusive statuses) when every retained
   number lies in [0, total], the lower bound is at most len(initial numbers) + 1 and there are no partition constraints *)
Theorem mgs_always_solves (I : mgs_inst) (status : nat -> mstatus) lb n_initial :
  mg_parts I = None -> (1 <= mg_mult I)%nat -> mgs_domain I ->
  (length (mg_numbers I) <= n_initial)%nat -> (lb <= S n_initial)%nat ->
  (forall k, status k = MgInfeasible -> forall a, ~ sat a (encode_mgs I k)) ->
  (forall k, status k = MgOptimal \/ status k = MgInfeasible) ->
  exists tried k, mgsm_loop status lb n_initial (extra_cuts (mg_parts I)) = (tried, Some k).
Proof.
  intros Hp Hm Hd Hn Hlb Hinf Hc. apply (mgs_solves_when_possible I status Hp Hm Hinf lb n_initial _ Hc).
  destruct (mgs_witness_exists I Hp Hm Hd (S n_initial) ltac:(lia)) as (g & Hl & Hg).
  exists (S n_initial), g. split; [|split; assumption]. apply range_contains_upper; [exact Hlb|]. rewrite Hp. cbn. lia.
Qed.

(* ---------------------------------------------------------------- a number above the total *)
Lemma sumql_nonneg0 l : Forall (fun v => 0 <= v) l -> 0 <= sumql l.
Proof. induction 1 as [|w l Hw _ IHl]; cbn [sumql]; lra. Qed.

Lemma dotz_le_sum : forall xs g, Forall (fun x => (0 <= x <= 1)%Z) xs -> Forall (fun v => 0 <= v) g -> dotz xs g <= sumql g.
Proof.
  induction xs as [|x xs IH]; intros g Hx Hg; destruct g as [|v g]; cbn [dotz sumql]; try lra.
  - pose proof (sumql_nonneg0 _ Hg) as H. cbn [sumql] in H. exact H.
  - inversion Hx as [|? ? Hx0 Hx']; subst. inversion Hg as [|? ? Hv Hg']; subst. specialize (IH g Hx' Hg').
    assert (x = 0 \/ x = 1)%Z as [->| ->] by lia; [change (inject_Z 0) with 0|change (inject_Z 1) with 1]; lra.
Qed.

(* with max_multiplicity = 1 a number above the total has no generating multiset at all (of any size): every model of the
   search is infeasible and MinGenSet ends unsolved -- the reason MinFlowDecomp's lower bound is then unavailable *)
Theorem number_above_total_infeasible numbers total g a : In a numbers -> total < a -> ~ genset 1 numbers total g.
Proof.
  intros Ha Hlt (Hpos & Hsum & Hgen). destruct (Hgen a Ha) as (xs & Hl & Hf & He).
  pose proof (dotz_le_sum xs g Hf Hpos). lra.
Qed.

(* non-vacuity: numbers [4,1,2], total 7: witness {1,1,2,3} of size 4 = len(numbers) + 1 *)
Definition ex_range_inst : mgs_inst := {| mg_numbers := [4; 1; 2]; mg_total := 7; mg_int := true; mg_mult := 1; mg_parts := None |}.
Lemma ex_range : range_witness [4; 1; 2] 7 = [1 - 0; 2 - 1; 4 - 2; 7 - 4] /\ mgs_domain ex_range_inst /\
  exists a, sat a (encode_mgs ex_range_inst 4).
Proof.
  assert (Hd : mgs_domain ex_range_inst).
  { split; [cbn; lra|]. split; [repeat constructor; cbn; lra|]. intros _. split; [exists 7%Z; reflexivity|].
    repeat constructor; [exists 4%Z|exists 1%Z|exists 2%Z]; reflexivity. }
  split; [reflexivity|]. split; [exact Hd|]. apply (mgs_model_feasible_from_n_plus_1 ex_range_inst); [reflexivity|cbn; lia|exact Hd|cbn; lia].
Qed.
