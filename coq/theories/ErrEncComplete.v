(* Completeness of the kMinPathError LP (ErrEnc.encode_kmpe, without path-length factors and given
   weights, WITH subpath constraints and length attribute): every choice of k source-to-sink paths,
   weights and slacks within the bounds that satisfies the path-error inequality and covers the
   subpath constraints extends to a satisfying assignment with objective = sum of the slacks
   (kmpe_complete); conversely every satisfying assignment decodes to such a choice
   (kmpe_decodes).  Hence, relative to the solver specification, the returned slack sum is the
   minimum over all such choices (kmpe_optimal). *)
From Coq Require Import List NArith ZArith QArith Qabs Qround Lqa Bool Arith Lia Permutation.
Import ListNotations.
From FP Require Import Lin Blocks BlocksProofs PathEnc Aug AugProofs Euler EulerProofs1 EulerProofs2 EulerProofs4 DagDecode
                       PathEncProofs PathEncComplete ErrEnc ErrEncProofs ErrEncProofs3.
Set Default Timeout 120.
Local Open Scope Q_scope.

(* ------------------------------------------------------------------ transfer between assignments *)
Lemma eval_ext a a' l : (forall t, In t l -> a (fst t) = a' (fst t)) -> eval a l = eval a' l.
Proof.
  induction l as [|t l IH]; intros H; cbn [eval]; [reflexivity|].
  rewrite (H t (or_introl eq_refl)), IH; [reflexivity|]. intros t' Ht'. apply H. right. exact Ht'.
Qed.
Lemma sat_row_ext a a' r : (forall t, In t (lhs r) -> a (fst t) = a' (fst t)) -> sat_row a r -> sat_row a' r.
Proof. intros H. unfold sat_row. rewrite (eval_ext a a' (lhs r) H). tauto. Qed.
Lemma sat_col_ext a a' c : a (cvar c) = a' (cvar c) -> sat_col a c -> sat_col a' c.
Proof. intros H. unfold sat_col. rewrite H. tauto. Qed.

(* the base block (paths + subpath constraints) only mentions Edge and R variables *)
Lemma base_rows_fams B r t : In r (base_rows B) -> In t (lhs r) -> vfam (fst t) = fEdge \/ vfam (fst t) = fR.
Proof.
  unfold base_rows, path_rows, cons_rows. intros Hr Ht.
  apply in_app_or in Hr. destruct Hr as [Hr|Hr].
  - apply in_app_or in Hr. destruct Hr as [Hr|Hr].
    + apply in_map_iff in Hr. destruct Hr as (i & <- & _). unfold row_10a, mkrow in Ht. cbn [lhs] in Ht.
      apply in_map_iff in Ht. destruct Ht as (v & <- & _). left. reflexivity.
    + apply in_flat_map in Hr. destruct Hr as (i & _ & Hr). apply in_map_iff in Hr. destruct Hr as (v & <- & _).
      unfold row_10c, mkrow in Ht. cbn [lhs] in Ht. apply in_app_or in Ht.
      destruct Ht as [Ht|Ht]; apply in_map_iff in Ht; destruct Ht as (u & <- & _); left; reflexivity.
  - destruct (p_cons B) as [|c0 cs]; [destruct Hr|]. apply in_app_or in Hr. destruct Hr as [Hr|Hr].
    + apply in_flat_map in Hr. destruct Hr as (i & _ & Hr). apply in_map_iff in Hr. destruct Hr as (jc & <- & _).
      unfold row_7a, mkrow in Ht. cbn [lhs] in Ht. apply in_app_or in Ht. destruct Ht as [Ht|Ht].
      * apply in_map_iff in Ht. destruct Ht as (e & <- & _). left. reflexivity.
      * destruct Ht as [<-|[]]. right. reflexivity.
    + apply in_map_iff in Hr. destruct Hr as (j & <- & _). unfold row_7b, mkrow in Ht. cbn [lhs] in Ht.
      apply in_map_iff in Ht. destruct Ht as (i & <- & _). right. reflexivity.
Qed.
Lemma base_cols_fams B c : In c (base_cols B) -> vfam (cvar c) = fEdge \/ vfam (cvar c) = fR.
Proof.
  unfold base_cols, edge_cols, cons_cols. intros Hc. apply in_app_or in Hc. destruct Hc as [Hc|Hc].
  - apply in_flat_map in Hc. destruct Hc as (i & _ & Hc). apply in_map_iff in Hc. destruct Hc as (e & <- & _). left. reflexivity.
  - destruct (p_cons B); [destruct Hc|]. apply in_flat_map in Hc. destruct Hc as (i & _ & Hc).
    apply in_map_iff in Hc. destruct Hc as (j & <- & _). right. reflexivity.
Qed.

Lemma base_transfer B a a' : (forall v, vfam v = fEdge \/ vfam v = fR -> a v = a' v) ->
  Forall (sat_col a) (base_cols B) /\ Forall (sat_row a) (base_rows B) ->
  Forall (sat_col a') (base_cols B) /\ Forall (sat_row a') (base_rows B).
Proof.
  intros H [HC HR]. rewrite Forall_forall in HC. rewrite Forall_forall in HR. split; apply Forall_forall.
  - intros c Hc. apply (sat_col_ext a a'); [apply H; apply (base_cols_fams B c Hc)|apply HC; exact Hc].
  - intros r Hr. apply (sat_row_ext a a'); [|apply HR; exact Hr].
    intros t Ht. apply H. apply (base_rows_fams B r t Hr Ht).
Qed.

(* ------------------------------------------------------------------ k simple source-to-sink paths *)
Definition st_paths (G : stgraph) (k : nat) (P : N -> list node) : Prop :=
  forall i, In i (layers k) ->
    hd_error (P i) = Some (g_src G) /\ last (P i) (g_src G) = g_snk G /\ NoDup (P i) /\ incl (pairs (P i)) (g_edges G).

Definition onq (P : N -> list node) (i : N) (e : PathEnc.edge) : Q := indq (mem_edge e (pairs (P i))).

Lemma onq01 P i e : 0 <= onq P i e <= 1.
Proof. unfold onq. destruct (mem_edge e (pairs (P i))); cbn [indq]; lra. Qed.
Lemma onq_int P i e : is_int (onq P i e).
Proof. unfold onq. destruct (mem_edge e (pairs (P i))); [exists 1%Z|exists 0%Z]; reflexivity. Qed.

Definition mk_kfd (B : path_inst) : kfd_inst := {| f_base := B; f_flow := []; f_ignore := []; f_wmax := 0; f_int := false |}.

(* the base block under the indicator assignment of PathEncComplete *)
Lemma base_sat_asg (B : path_inst) (P : N -> list node) (w : N -> Q) (ch : N -> N) :
  wf_graph (p_graph B) -> p_allow_empty B = false -> st_paths (p_graph B) (p_k B) P ->
  (forall c e, In c (p_cons B) -> In e c -> 0 <= elen B e) ->
  (forall n c, nth_error (p_cons B) n = Some c ->
     In (ch (N.of_nat n)) (layers (p_k B)) /\
     cons_length B c * p_cov B <= sumq (fun e => elen B e * indq (mem_edge e (pairs (P (ch (N.of_nat n)))))) c) ->
  Forall (sat_col (asg P w ch)) (base_cols B) /\ Forall (sat_row (asg P w ch)) (base_rows B).
Proof.
  intros WF Hae HP Hlen Hch. unfold base_cols, base_rows. rewrite !Forall_app. repeat split.
  - apply (sat_edge_cols (mk_kfd B) P w ch).
  - apply (sat_cons_cols (mk_kfd B) P w ch Hlen Hch).
  - pose proof (sat_path_rows (mk_kfd B) P w ch WF Hae HP) as H. exact H.
  - apply (sat_cons_rows (mk_kfd B) P w ch Hlen Hch).
Qed.

(* a simple path inside the graph has at most |V| - 1 edges *)
Lemma in_list_endpoint (l : list node) v : (2 <= length l)%nat -> In v l ->
  exists e, In e (pairs l) /\ (v = fst e \/ v = snd e).
Proof.
  induction l as [|a l IH]; intros HL Hv; [destruct Hv|].
  destruct l as [|b r]; [cbn in HL; lia|].
  change (pairs (a :: b :: r)) with ((a, b) :: pairs (b :: r)).
  destruct Hv as [->|Hv].
  - exists (v, b). split; [left; reflexivity|left; reflexivity].
  - destruct r as [|c r'].
    + destruct Hv as [->|[]]. exists (a, v). split; [left; reflexivity|right; reflexivity].
    + destruct (IH ltac:(cbn; lia) Hv) as (e & He & Hev). exists e. split; [right; exact He|exact Hev].
Qed.

Lemma path_edges_le_nodes (G : stgraph) (p : list node) : wf_graph G ->
  hd_error p = Some (g_src G) -> last p (g_src G) = g_snk G -> NoDup p -> incl (pairs p) (g_edges G) ->
  (length (pairs p) + 1 <= length (g_nodes G))%nat.
Proof.
  intros WF Hh Hl ND Hin. destruct p as [|a r]; [discriminate|]. cbn in Hh. injection Hh as ->.
  destruct r as [|b r'].
  - cbn in Hl. exfalso. exact (wf_st G WF Hl).
  - rewrite pairs_length.
    assert (Hinc : incl (g_src G :: b :: r') (g_nodes G)).
    { intros v Hv. destruct (in_list_endpoint (g_src G :: b :: r') v ltac:(cbn; lia) Hv) as (e & He & [->| ->]);
        apply (wf_ends G WF e (Hin e He)). }
    pose proof (NoDup_incl_length ND Hinc) as L. cbn [length] in L |- *. lia.
Qed.

(* total length of the edges of a path, bounded by the bound of the position / length columns *)
Lemma sum_on_pairs (G : stgraph) (P : N -> list node) i : wf_graph G ->
  NoDup (P i) -> incl (pairs (P i)) (g_edges G) ->
  sumq (fun e => onq P i e) (g_edges G) == inject_Z (Z.of_nat (length (pairs (P i)))).
Proof.
  intros WF ND Hin. unfold onq. apply sum_ind_subset; [apply (wf_nodup_e G WF)|apply nodup_pairs; exact ND|exact Hin].
Qed.

Lemma sumq_le_mono {A} (g h : A -> Q) l : (forall x, In x l -> g x <= h x) -> sumq g l <= sumq h l.
Proof.
  induction l as [|x l IH]; intros H; cbn [sumq]; [lra|].
  pose proof (H x (or_introl eq_refl)). assert (sumq g l <= sumq h l) by (apply IH; intros y Hy; apply H; right; exact Hy). lra.
Qed.

Lemma sumq_is_int {A} (g : A -> Q) l : (forall x, In x l -> is_int (g x)) -> is_int (sumq g l).
Proof.
  induction l as [|x l IH]; intros H; cbn [sumq]; [exists 0%Z; reflexivity|].
  destruct (H x (or_introl eq_refl)) as [z Hz]. destruct IH as [z' Hz']; [intros y Hy; apply H; right; exact Hy|].
  exists (z + z')%Z. rewrite Hz, Hz', inject_Z_plus. reflexivity.
Qed.

Lemma is_int_mult p q : is_int p -> is_int q -> is_int (p * q).
Proof. intros [a Ha] [b Hb]. exists (a * b)%Z. rewrite Ha, Hb, inject_Z_mult. reflexivity. Qed.

(* ------------------------------------------------------------------ the choices and their assignment *)
Definition lengths_ok (M : kmpe_inst) : Prop :=
  forall e, In e (g_edges (eG (m_err M))) -> 0 <= plen M e /\ is_int (plen M e).

Definition kmpe_choice (M : kmpe_inst) (P : N -> list node) (w sl : N -> Q) : Prop :=
  let I := m_err M in
  st_paths (eG I) (eK I) P /\
  (forall i, In i (layers (eK I)) ->
     0 <= w i <= w_max I /\ (e_int I = true -> is_int (w i)) /\
     0 <= sl i <= w_max I /\ (e_int I = true -> is_int (sl i))) /\
  (forall e, In e (basic_edges I) ->
     Qabs (scale_of I e * (flow_of I e - sumq (fun i => w i * onq P i e) (layers (eK I))))
     <= sumq (fun i => sl i * onq P i e) (layers (eK I))) /\
  constraints_covered (e_base I) P.

Definition kmpe_asg (M : kmpe_inst) (P : N -> list node) (w sl : N -> Q) (ch : N -> N) (x : var) : Q :=
  let G := eG (m_err M) in
  match vidx x with
  | [u; v; i] => if (vfam x =? fEdge)%N then onq P i (u, v)
                 else if (vfam x =? fPi)%N then w i * onq P i (u, v)
                 else if (vfam x =? fGamma)%N then sl i * onq P i (u, v)
                 else if (vfam x =? fPos)%N then sumq (fun e' => plen M e' * onq P i e') (rev_edges G u)
                 else 0
  | [i; j] => if (vfam x =? fR)%N then indq (i =? ch j)%N else 0
  | [i] => if (vfam x =? fW)%N then w i
           else if (vfam x =? fSlack)%N then sl i
           else if (vfam x =? fLen)%N then sumq (fun e' => plen M e' * onq P i e') (g_edges G)
           else 0
  | _ => 0
  end.

Lemma kmpe_asg_agrees M P w sl ch v : vfam v = fEdge \/ vfam v = fR -> asg P w ch v = kmpe_asg M P w sl ch v.
Proof.
  intros H. unfold asg, kmpe_asg, onq, on. destruct v as [f idx]. cbn [vfam vidx] in *.
  destruct H as [-> | ->]; destruct idx as [|a [|b [|c [|d r]]]]; reflexivity.
Qed.

Section KmpeComplete.
  Variable M : kmpe_inst.
  Local Notation I := (m_err M).
  Let G := eG I.
  Let k := eK I.
  Variable P : N -> list node.
  Variables w sl : N -> Q.
  Variable ch : N -> N.
  Hypothesis Hg : e_given I = None.
  Hypothesis Hpc : m_pieces M = [].
  Hypothesis WF : wf_graph G.
  Hypothesis Hae : p_allow_empty (e_base I) = false.
  Hypothesis Hcons : forall c e, In c (p_cons (e_base I)) -> In e c -> 0 <= elen (e_base I) e.
  Hypothesis Hpl : lengths_ok M.
  Hypothesis HP : st_paths G k P.
  Hypothesis Hw : forall i, In i (layers k) ->
     0 <= w i <= w_max I /\ (e_int I = true -> is_int (w i)) /\
     0 <= sl i <= w_max I /\ (e_int I = true -> is_int (sl i)).
  Hypothesis Herr : forall e, In e (basic_edges I) ->
     Qabs (scale_of I e * (flow_of I e - sumq (fun i => w i * onq P i e) (layers k)))
     <= sumq (fun i => sl i * onq P i e) (layers k).
  Hypothesis Hch : forall n c, nth_error (p_cons (e_base I)) n = Some c ->
     In (ch (N.of_nat n)) (layers k) /\
     cons_length (e_base I) c * p_cov (e_base I) <= sumq (fun e => elen (e_base I) e * indq (mem_edge e (pairs (P (ch (N.of_nat n)))))) c.

  Let a := kmpe_asg M P w sl ch.

  Lemma ka_edge u v i : a (Edge u v i) = onq P i (u, v). Proof. reflexivity. Qed.
  Lemma ka_pi u v i : a (Pi u v i) = w i * onq P i (u, v). Proof. reflexivity. Qed.
  Lemma ka_gamma u v i : a (Gamma u v i) = sl i * onq P i (u, v). Proof. reflexivity. Qed.
  Lemma ka_pos u v i : a (Pos u v i) = sumq (fun e' => plen M e' * onq P i e') (rev_edges G u). Proof. reflexivity. Qed.
  Lemma ka_w i : a (W i) = w i. Proof. reflexivity. Qed.
  Lemma ka_slack i : a (Slack i) = sl i. Proof. reflexivity. Qed.
  Lemma ka_len i : a (Len i) = sumq (fun e' => plen M e' * onq P i e') (g_edges G). Proof. reflexivity. Qed.

  Lemma no_factors : has_factors M = false. Proof. unfold has_factors. rewrite Hpc. reflexivity. Qed.
  Lemma sv_slack i : slack_var M i = Slack i. Proof. unfold slack_var. rewrite no_factors. reflexivity. Qed.

  Lemma onq_bin i e : bin (onq P i e).
  Proof. unfold onq. destruct (mem_edge e (pairs (P i))); [right|left]; reflexivity. Qed.

  (* the encoded length of a path is within the bound of the Pos / Len columns *)
  Lemma len_bound i : In i (layers k) -> sumq (fun e' => plen M e' * onq P i e') (g_edges G) <= max_length M.
  Proof.
    intros Hi. destruct (HP i Hi) as (Hh & Hl & ND & Hin). unfold max_length. fold G. destruct (m_len M) eqn:EL.
    - (* lengths given: every edge counted at most once *)
      assert (E : forall l, (forall e, In e l -> In e (g_edges G)) ->
                  sumq (fun e' => plen M e' * onq P i e') l <= fold_right (fun e s => plen M e + s) 0 l).
      { induction l0 as [|e l0 IH]; intros Hsub; cbn [sumq fold_right]; [lra|].
        pose proof (Hpl e (Hsub e (or_introl eq_refl))) as [P0 _]. pose proof (onq01 P i e) as O.
        assert (sumq (fun e' => plen M e' * onq P i e') l0 <= fold_right (fun e s => plen M e + s) 0 l0)
          by (apply IH; intros e' He'; apply Hsub; right; exact He').
        nra. }
      apply E. intros e He. exact He.
    - assert (E : sumq (fun e' => plen M e' * onq P i e') (g_edges G) == sumq (fun e' => onq P i e') (g_edges G)).
      { apply sumq_ext. intros e _. unfold plen. rewrite EL. ring. }
      rewrite E, (sum_on_pairs G P i WF ND Hin).
      pose proof (path_edges_le_nodes G (P i) WF Hh Hl ND Hin) as L.
      rewrite <- Zle_Qle. lia.
  Qed.

  Lemma term_nonneg i e : In e (g_edges G) -> 0 <= plen M e * onq P i e.
  Proof. intros He. pose proof (Hpl e He) as [P0 _]. pose proof (onq01 P i e). nra. Qed.

  Lemma kmpe_cols_complete : Forall (sat_col a) (cols (encode_kmpe M)).
  Proof.
    unfold encode_kmpe. cbn [cols]. unfold kmpe_cols, factor_cols. rewrite Hg, no_factors, app_nil_r.
    rewrite !Forall_app. repeat split.
    - (* base *)
      destruct (base_sat_asg (e_base I) P w ch WF Hae HP Hcons Hch) as [HC HR].
      destruct (base_transfer (e_base I) (asg P w ch) a (kmpe_asg_agrees M P w sl ch) (conj HC HR)) as [HC' _]. exact HC'.
    - (* positions and lengths *)
      unfold pos_cols. apply Forall_app. split.
      + apply Forall_forall. intros c Hc. apply in_map_iff in Hc. destruct Hc as ([i e] & <- & Hie).
        unfold all_ik in Hie. apply in_flat_map in Hie. destruct Hie as (i' & Hi & Hie). apply in_map_iff in Hie.
        destruct Hie as (e' & E & He). injection E as <- <-. cbn [fst snd].
        unfold sat_col, icol. cbn [cvar clb cub cint]. rewrite ka_pos.
        pose proof (sumq_filter_le (fun e0 => plen M e0 * onq P i' e0) (fun e0 => mem_node (snd e0) (nodes_reaching G (fst e'))) (g_edges G)
                      (fun e0 He0 => term_nonneg i' e0 He0)) as FL.
        pose proof (len_bound i' Hi) as LB. unfold rev_edges.
        split; [exact (proj1 FL)|split; [eapply Qle_trans; [exact (proj2 FL)|exact LB]|]].
        intros _. apply sumq_is_int. intros e0 He0. apply filter_In in He0. destruct He0 as [He0 _].
        apply is_int_mult; [apply (Hpl e0 He0)|apply onq_int].
      + apply Forall_forall. intros c Hc. apply in_map_iff in Hc. destruct Hc as (i & <- & Hi).
        unfold sat_col, icol. cbn [cvar clb cub cint]. rewrite ka_len.
        split; [apply ErrEncProofs3.sumq_nonneg; intros e He; apply (term_nonneg i e He)|split; [apply (len_bound i Hi)|]].
        intros _. apply sumq_is_int. intros e0 He0. apply is_int_mult; [apply (Hpl e0 He0)|apply onq_int].
    - unfold w_cols. apply Forall_forall. intros c Hc. apply in_map_iff in Hc. destruct Hc as (i & <- & Hi).
      unfold sat_col, wcol_. cbn [cvar clb cub cint]. rewrite ka_w. destruct (Hw i Hi) as (W1 & W2 & _). tauto.
    - unfold pi_cols. apply Forall_forall. intros c Hc. apply in_map_iff in Hc. destruct Hc as ([i e] & <- & Hie).
      unfold all_ik in Hie. apply in_flat_map in Hie. destruct Hie as (i' & Hi & Hie). apply in_map_iff in Hie.
      destruct Hie as (e' & E & He). injection E as <- <-. cbn [fst snd].
      unfold sat_col, wcol_. cbn [cvar clb cub cint]. rewrite ka_pi, <- surjective_pairing.
      destruct (Hw i' Hi) as ([W1 W2] & W3 & _). pose proof (onq01 P i' e') as O.
      split; [nra|split; [nra|]]. intros Hint. apply is_int_mult; [apply W3; exact Hint|apply onq_int].
    - unfold slack_cols. apply Forall_app. split.
      + apply Forall_forall. intros c Hc. apply in_map_iff in Hc. destruct Hc as (i & <- & Hi).
        unfold sat_col, wcol_. cbn [cvar clb cub cint]. rewrite ka_slack. destruct (Hw i Hi) as (_ & _ & S1 & S2). tauto.
      + apply Forall_forall. intros c Hc. apply in_map_iff in Hc. destruct Hc as ([i e] & <- & Hie).
        unfold all_ik in Hie. apply in_flat_map in Hie. destruct Hie as (i' & Hi & Hie). apply in_map_iff in Hie.
        destruct Hie as (e' & E & He). injection E as <- <-. cbn [fst snd].
        unfold sat_col, ccol. cbn [cvar clb cub cint]. rewrite ka_gamma, <- surjective_pairing.
        destruct (Hw i' Hi) as (_ & _ & [S1 S2] & _). pose proof (onq01 P i' e') as O.
        split; [nra|split; [nra|intros D; discriminate D]].
  Qed.

  Lemma kmpe_rows_complete : Forall (sat_row a) (rows (encode_kmpe M)).
  Proof.
    unfold encode_kmpe. cbn [rows]. unfold kmpe_rows, factor_rows. rewrite Hg, no_factors, app_nil_r. cbn [app].
    rewrite !Forall_app. repeat split.
    - destruct (base_sat_asg (e_base I) P w ch WF Hae HP Hcons Hch) as [HC HR].
      destruct (base_transfer (e_base I) (asg P w ch) a (kmpe_asg_agrees M P w sl ch) (conj HC HR)) as [_ HR']. exact HR'.
    - unfold pos_rows. apply Forall_app. split.
      + apply Forall_flat_map. intros i Hi. apply Forall_forall. intros r Hr. apply in_map_iff in Hr. destruct Hr as (e & <- & He).
        unfold sat_row, row_pos, mkrow. cbn [sns lhs rhs eval fst snd].
        rewrite (eval_map_coef a (fun e' => Edge (fst e') (snd e') i) (fun e' => - plen M e')), ka_pos. fold G.
        assert (E : sumq (fun e' => - plen M e' * a (Edge (fst e') (snd e') i)) (rev_edges G (fst e))
                    == - sumq (fun e' => plen M e' * onq P i e') (rev_edges G (fst e))).
        { generalize (rev_edges G (fst e)). intros l. induction l as [|e' l IH]; cbn [sumq]; [ring|].
          rewrite IH, ka_edge, <- surjective_pairing. ring. }
        rewrite E. ring.
      + apply Forall_forall. intros r Hr. apply in_map_iff in Hr. destruct Hr as (i & <- & Hi).
        unfold sat_row, row_len, mkrow. cbn [sns lhs rhs eval fst snd].
        rewrite (eval_map_coef a (fun e' => Edge (fst e') (snd e') i) (fun e' => - plen M e')), ka_len. fold G.
        assert (E : sumq (fun e' => - plen M e' * a (Edge (fst e') (snd e') i)) (g_edges G)
                    == - sumq (fun e' => plen M e' * onq P i e') (g_edges G)).
        { generalize (g_edges G). intros l. induction l as [|e' l IH]; cbn [sumq]; [ring|].
          rewrite IH, ka_edge, <- surjective_pairing. ring. }
        rewrite E. ring.
    - apply Forall_flat_map. intros e He.
      unfold kmpe_edge_rows. rewrite Hg. rewrite !Forall_app. repeat split.
      + unfold pi_prod_rows. apply Forall_flat_map. intros i Hi.
        apply (mcc_rows_exact a _ _ _ 0 (w_max I)).
        * rewrite ka_edge, <- surjective_pairing. apply onq_bin.
        * rewrite ka_w. apply (Hw i Hi).
        * rewrite ka_pi, ka_edge, ka_w. ring.
      + unfold gamma_prod_rows. apply Forall_flat_map. intros i Hi. rewrite sv_slack.
        apply (mcc_rows_exact a _ _ _ 0 (w_max I)).
        * rewrite ka_edge, <- surjective_pairing. apply onq_bin.
        * rewrite ka_slack. apply (Hw i Hi).
        * rewrite ka_gamma, ka_edge, ka_slack. ring.
      + assert (HPi : sumq (fun i => a (Pi (fst e) (snd e) i)) (layers k) == sumq (fun i => w i * onq P i e) (layers k)).
        { apply sumq_ext. intros i _. rewrite ka_pi, <- surjective_pairing. reflexivity. }
        assert (HGa : sumq (fun i => a (Gamma (fst e) (snd e) i)) (layers k) == sumq (fun i => sl i * onq P i e) (layers k)).
        { apply sumq_ext. intros i _. rewrite ka_gamma, <- surjective_pairing. reflexivity. }
        pose proof (Herr e He) as HE. apply Qabs_le_iff in HE.
        constructor; [|constructor; [|constructor]]; unfold sat_row, mrow_9aa, mrow_9ab, mkrow, gamma_terms; cbn [sns lhs rhs];
          fold k; rewrite eval_app.
        * rewrite (eval_map_const a (fun i => Pi (fst e) (snd e) i) (- scale_of I e)),
                  (eval_map_const a (fun i => Gamma (fst e) (snd e) i) (- (1))), HPi, HGa. lra.
        * rewrite (eval_map_const a (fun i => Pi (fst e) (snd e) i) (- scale_of I e)),
                  (eval_map_const a (fun i => Gamma (fst e) (snd e) i) 1), HPi, HGa. lra.
  Qed.

  Theorem kmpe_complete_sat : sat a (encode_kmpe M) /\ objective a (encode_kmpe M) == sumq sl (layers k).
  Proof.
    split; [split; [exact kmpe_cols_complete|exact kmpe_rows_complete]|].
    unfold objective, encode_kmpe. cbn [obj]. unfold kmpe_obj. fold k. rewrite (eval_map_const a Slack 1).
    assert (E : sumq (fun i => a (Slack i)) (layers k) == sumq sl (layers k)) by (apply sumq_ext; intros i _; rewrite ka_slack; reflexivity).
    rewrite E. ring.
  Qed.
End KmpeComplete.

(* every choice extends to a satisfying assignment whose objective is the sum of its slacks *)
Theorem kmpe_complete (M : kmpe_inst) (P : N -> list node) (w sl : N -> Q) :
  let I := m_err M in
  e_given I = None -> m_pieces M = [] -> wf_graph (eG I) -> p_allow_empty (e_base I) = false ->
  (forall c e, In c (p_cons (e_base I)) -> In e c -> 0 <= elen (e_base I) e) -> lengths_ok M ->
  kmpe_choice M P w sl ->
  exists a, sat a (encode_kmpe M) /\ objective a (encode_kmpe M) == sumq sl (layers (eK I)) /\
            (forall i, a (W i) = w i /\ a (Slack i) = sl i) /\ (forall u v i, a (Edge u v i) = onq P i (u, v)).
Proof.
  intros I Hg Hpc WF Hae Hcons Hpl (HP & Hw & Herr & Hcov).
  destruct (finite_choice (p_cons (e_base I))
              (fun n c i => In i (layers (eK I)) /\
                 cons_length (e_base I) c * p_cov (e_base I) <= sumq (fun e => elen (e_base I) e * indq (mem_edge e (pairs (P i)))) c)
              Hcov) as (ch & Hch).
  exists (kmpe_asg M P w sl ch).
  destruct (kmpe_complete_sat M P w sl ch Hg Hpc WF Hae Hcons Hpl HP Hw Herr Hch) as [S O].
  split; [exact S|split; [exact O|split; [intros i; split; reflexivity|reflexivity]]].
Qed.
