(* C05/C03 end to end: MinFlowDecomp's search returns the same, minimal, number of paths from WHATEVER lower bound it starts at,
   provided the bound is semantically valid (no decomposition has fewer paths) -- and the bounds the code computes are:
   ceil(log2(#distinct flow values)) (LowerBounds.log2_bound) and the optimum of any scanning window
   (SubgraphBound.subgraph_scanning_bound_e2e).  Hypotheses about the CALLER's input only, as in EndToEnd3. *)
From Coq Require Import List NArith ZArith QArith Lqa Bool Arith Lia Permutation.
Import ListNotations.
From FP Require Import Lin Blocks BlocksProofs PathEnc Aug AugProofs Euler EulerProofs1 EulerProofs2 DagDecode PathEncProofs PathEncComplete
                       WfCheck EndToEnd1 EndToEnd2 EndToEnd3 LowerBounds SubgraphBound.
From FP Require Import Search SearchProofs1 SearchProofs2.
From FP Require Reach ReachProofs1 Peel PeelProofs1 PeelProofs3.
Set Default Timeout 60.
Local Close Scope Q_scope.

Section Bounds.
  Variables (V : list node) (E : list edge) (s t : node) (f : edge -> Z).
  Variables (Pa Sa : list (node * list node)) (topo : list node).
  Hypothesis NDV : NoDup V.
  Hypothesis HE : forall e, In e E -> In (fst e) V /\ In (snd e) V.
  Hypothesis Hs : ~ In s V.
  Hypothesis Ht : ~ In t V.
  Hypothesis Hst : s <> t.
  Hypothesis Hok : Peel.peel_inputs_ok E Pa Sa topo = true.
  Hypothesis Hnn : PeelProofs1.nonneg E f.
  Hypothesis Hcons : PeelProofs1.conserving E f.

  (* a lower bound is VALID when no decomposition has fewer paths *)
  Definition valid_lb (lb : nat) : Prop := forall k P w, decomposition (e2e_inst V E s t f k) P w -> (lb <= k)%nat.

  Lemma e2e_feasible_iff (k : nat) :
    (exists a, sat a (encode_kfd (e2e_inst V E s t f k))) <-> (exists P w, decomposition (e2e_inst V E s t f k) P w).
  Proof.
    pose proof Hok as Hok'. unfold Peel.peel_inputs_ok in Hok'.
    apply andb_true_iff in Hok'. destruct Hok' as [Hok' _]. apply andb_true_iff in Hok'. destruct Hok' as [Hok' _].
    apply andb_true_iff in Hok'. destruct Hok' as [Hok' _]. apply andb_true_iff in Hok'. destruct Hok' as [Hok' Hbefore].
    apply andb_true_iff in Hok'. destruct Hok' as [HndE Hndt].
    apply ReachProofs1.nodupE_NoDup in HndE. apply ReachProofs1.nodupb_NoDup in Hndt.
    assert (Htopo : forall u v, In (u, v) E -> (posn topo u < posn topo v)%nat).
    { intros u v He. rewrite !posn_pos. apply PeelProofs3.beforeb_pos; [exact Hndt|].
      rewrite forallb_forall in Hbefore. exact (Hbefore (u, v) He). }
    assert (WF := st_of_wf V E s t Hs Ht Hst HE NDV HndE).
    assert (Hrank := st_rank_increasing V E s t Hs Ht Hst HE topo Htopo).
    assert (HR : forall v, (st_rank s t topo v <= S (S (length topo)))%nat) by (intros v; apply st_rank_le; exact Hst).
    apply (kfd_feasible_iff (e2e_inst V E s t f k) (st_rank s t topo) (S (S (length topo)))); [exact WF|reflexivity|reflexivity|exact Hrank|exact HR].
  Qed.

  (* the search, started at ANY valid lower bound, returns the minimum *)
  Theorem minflowdecomp_from_any_valid_lower_bound (feasible : nat -> bool) (lb : nat) (sts : list raw) :
    (forall k, feasible k = true <-> exists a, sat a (encode_kfd (e2e_inst V E s t f k))) ->
    (forall i, (i < S (length E) - lb)%nat -> exists x, nth_error sts i = Some x /\
               status_of x = if feasible (lb + i)%nat then Optimal else Infeasible) ->
    valid_lb lb ->
    exists kopt,
      so_res (mpc_solve true lb (S (length E)) sts) = Solved kopt /\
      (exists P w, decomposition (e2e_inst V E s t f kopt) P w) /\
      (forall k, (k < kopt)%nat -> ~ exists P w, decomposition (e2e_inst V E s t f k) P w).
  Proof.
    intros Hspec Hsts Hv.
    assert (Hlb : forall k, (k < lb)%nat -> feasible k = false).
    { intros k Hk. destruct (feasible k) eqn:Fk; [|reflexivity]. exfalso.
      apply Hspec in Fk. apply e2e_feasible_iff in Fk. destruct Fk as (P & w & D). pose proof (Hv k P w D). lia. }
    destruct (minflowdecomp_end_to_end V E s t f Pa Sa topo feasible lb sts NDV HE Hs Ht Hst Hok Hnn Hcons Hspec Hsts Hlb)
      as (kopt & H1 & _ & H3 & H4).
    exists kopt. split; [exact H1|]. split; [exact H3|exact H4].
  Qed.

  (* ... hence the choice among valid lower bounds (the lower-bound OPTIONS) does not change the result *)
  Theorem lower_bound_choice_is_immaterial (feasible : nat -> bool) (lb lb' : nat) (sts sts' : list raw) :
    (forall k, feasible k = true <-> exists a, sat a (encode_kfd (e2e_inst V E s t f k))) ->
    (forall i, (i < S (length E) - lb)%nat -> exists x, nth_error sts i = Some x /\
               status_of x = if feasible (lb + i)%nat then Optimal else Infeasible) ->
    (forall i, (i < S (length E) - lb')%nat -> exists x, nth_error sts' i = Some x /\
               status_of x = if feasible (lb' + i)%nat then Optimal else Infeasible) ->
    valid_lb lb -> valid_lb lb' ->
    so_res (mpc_solve true lb (S (length E)) sts) = so_res (mpc_solve true lb' (S (length E)) sts').
  Proof.
    intros Hspec Hsts Hsts' Hv Hv'.
    destruct (minflowdecomp_from_any_valid_lower_bound feasible lb sts Hspec Hsts Hv) as (k1 & R1 & (P1 & w1 & D1) & M1).
    destruct (minflowdecomp_from_any_valid_lower_bound feasible lb' sts' Hspec Hsts' Hv') as (k2 & R2 & (P2 & w2 & D2) & M2).
    rewrite R1, R2. f_equal.
    destruct (lt_eq_lt_dec k1 k2) as [[H|H]|H]; [exfalso|exact H|exfalso].
    - apply (M2 k1 H). exists P1, w1. exact D1.
    - apply (M1 k2 H). exists P2, w2. exact D2.
  Qed.

  (* the caller's edges are edges of the s-t graph that must be explained, with the caller's flow value *)
  Lemma e2e_live (k : nat) (e : edge) : In e E ->
    In e (g_edges (p_graph (f_base (e2e_inst V E s t f k)))) /\ mem_edge e (f_ignore (e2e_inst V E s t f k)) = false.
  Proof.
    intros He. split.
    - cbn. apply (aug_in V E [] [] s t). left. exact He.
    - cbn [f_ignore e2e_inst]. destruct (mem_edge e (synth V E s t)) eqn:M; [|reflexivity]. exfalso.
      apply mem_edge_In in M. unfold synth, aug_source_edges, aug_sink_edges in M. apply in_app_or in M.
      destruct (HE e He) as [H1 H2]. destruct M as [M|M]; apply in_map_iff in M; destruct M as (u & <- & _); cbn in *; contradiction.
  Qed.

  Lemma e2e_flow (k : nat) (e : edge) : In e E -> LowerBounds.flow_of (e2e_inst V E s t f k) e = inject_Z (f e).
  Proof. intros He. unfold LowerBounds.flow_of. cbn. apply lookup_flow. exact He. Qed.

  (* the bounds the code computes are valid: (1) distinct flow values *)
  Theorem log2_bound_is_valid (L : list edge) :
    incl L E -> ForallOrdPairs (fun e e' => f e <> f e') L -> valid_lb (Nat.log2_up (length L)).
  Proof.
    intros HL Hd k P w D.
    pose proof (log2_bound (e2e_inst V E s t f k) P w L D) as B. cbn [p_k f_base e2e_inst] in B. apply B.
    - intros e He. apply e2e_live. apply HL. exact He.
    - clear - HL Hd. induction Hd as [|e L He Hd IH]; [constructor|]. constructor.
      + apply Forall_forall. intros e' He'. rewrite Forall_forall in He.
        rewrite (e2e_flow k e (HL e (or_introl eq_refl))), (e2e_flow k e' (HL e' (or_intror He'))).
        intros Q. apply (He e' He'). apply (proj1 (inject_Z_injective _ _)) in Q. exact Q.
      + apply IH. intros x Hx. apply HL. right. exact Hx.
  Qed.

  (* (2) the optimum of a scanning window *)
  Theorem scanning_bound_is_valid (left right lbH : nat) :
    dag_with_order V E s t topo ->
    (forall j, (j < lbH)%nat -> ~ exists PH wH,
        decomposition (e2e_inst (fst (window_subgraph topo left right E)) (snd (window_subgraph topo left right E)) s t f j) PH wH) ->
    valid_lb lbH.
  Proof.
    intros HG Hmin k P w D. exact (subgraph_scanning_bound_e2e V E s t f topo left right k lbH P w HG Hmin D).
  Qed.

  Lemma valid_lb_max (a b : nat) : valid_lb a -> valid_lb b -> valid_lb (Nat.max a b).
  Proof. intros Ha Hb k P w D. pose proof (Ha k P w D). pose proof (Hb k P w D). lia. Qed.

  Lemma valid_lb_le (a b : nat) : (a <= b)%nat -> valid_lb b -> valid_lb a.
  Proof. intros H Hb k P w D. pose proof (Hb k P w D). lia. Qed.
End Bounds.

(* non-vacuity: on the diamond of EndToEndExample.v the two branch values 2 and 3 give the valid bound ceil(log2 2) = 1, and
   the search started there (or at 1 = any other valid bound) returns the minimum *)
From FP Require Import EndToEndExample.
Example bounds_example : valid_lb xV xE 0%N 5%N xf (Nat.log2_up (length [(1, 2); (1, 3)]%N)).
Proof.
  destruct e2e_premises_satisfiable as (NDV & HE & Hs & Ht & Hst & Hok & Hnn & Hcons).
  apply (log2_bound_is_valid xV xE 0%N 5%N xf HE Hs Ht).
  - unfold incl. intros e He. cbn in He. cbn. intuition.
  - repeat constructor. vm_compute. discriminate.
Qed.
