(* C17/C02 — proofs, part 2: the DP model of graphutils.max_bottleneck_path is a sound and complete finder
   of positive-bottleneck source-to-sink paths (ported from the design prototype). *)
From Coq Require Import List NArith ZArith Bool Arith Lia.
Import ListNotations.
From FP Require Import Reach ReachProofs1 Peel PeelProofs1.
Set Default Timeout 60.
Open Scope Z_scope.

Section DP.
  Variable G : list edge.
  Variable f : edge -> Z.
  Variable preds succs : node -> list node.        (* in networkx adjacency order *)
  Hypothesis preds_ok : forall u v, In u (preds v) <-> In (u, v) G.
  Hypothesis f_nonneg : forall e, In e G -> 0 <= f e.

  Notation pick := (pick f).
  Notation best_pred := (best_pred f).
  Notation step := (dp_step f preds succs).
  Notation init := dp_init.
  Notation back := (back preds).
  Notation max_bottleneck := (max_bottleneck f preds succs).
  Notation sorted := (sorted preds).
  Notation B := bB. Notation P := bP. Notation best := bbest.
  Notation Path := MBPath. Notation NoPath := MBNoPath. Notation NoSink := MBNoSink.

  (* ---- best_pred ---- *)
  Lemma best_pred_spec Bf v ps : ps <> [] ->
    exists b u, best_pred Bf v ps = Some (b, u) /\ In u ps /\ b = bmin (Bf u) (f (u, v)) /\
                forall u', In u' ps -> bmin (Bf u') (f (u', v)) <= b.
  Proof.
    unfold best_pred.
    assert (Gen : forall ps acc,
      (acc = None \/ exists b u, acc = Some (b, u) /\ b = bmin (Bf u) (f (u, v))) ->
      (ps <> [] \/ acc <> None) ->
      exists b u, fold_left (pick Bf v) ps acc = Some (b, u) /\ b = bmin (Bf u) (f (u, v)) /\
        (In u ps \/ exists b0, acc = Some (b0, u)) /\
        (forall u', In u' ps -> bmin (Bf u') (f (u', v)) <= b) /\
        (forall b0 u0, acc = Some (b0, u0) -> b0 <= b)).
    { clear ps. induction ps as [|u0 ps IH]; intros acc Hacc Hne.
      - destruct Hacc as [->|(b & u & -> & Hb)]; [destruct Hne; congruence|].
        exists b, u. simpl. repeat split; try assumption; try (right; exists b; reflexivity); try (intros b0' u1' E'; inversion E'; lia); try (intros u' Hu'; destruct Hu').
      - simpl. set (acc' := pick Bf v acc u0).
        assert (Hacc' : exists b u, acc' = Some (b, u) /\ b = bmin (Bf u) (f (u, v)) /\ bmin (Bf u0) (f (u0, v)) <= b /\
                   (u = u0 \/ exists b0, acc = Some (b0, u)) /\ (forall b0 u1, acc = Some (b0, u1) -> b0 <= b)).
        { unfold acc', pick. destruct Hacc as [->|(b & u & -> & Hb)].
          - exists (bmin (Bf u0) (f (u0, v))), u0.
            repeat split; try lia; try (left; reflexivity); try (intros; discriminate).
          - destruct (b <? bmin (Bf u0) (f (u0, v))) eqn:L.
            + apply Z.ltb_lt in L. exists (bmin (Bf u0) (f (u0, v))), u0.
              repeat split; try lia; try (left; reflexivity); try (intros b0' u1' E'; inversion E'; lia).
            + apply Z.ltb_ge in L. exists b, u.
              repeat split; try assumption; try lia; try (right; exists b; reflexivity); try (intros b0' u1' E'; inversion E'; lia). }
        destruct Hacc' as (b1 & u1 & E1 & Hb1 & Hle1 & Hor1 & Hmon1).
        destruct (IH acc') as (b & u & Hf & Hb & Hin & Hmax & Hmon).
        + right. exists b1, u1. tauto.
        + right. rewrite E1. discriminate.
        + exists b, u. repeat split; try assumption.
          * destruct Hin as [Hin|(b0 & E0)]; [left; right; assumption|].
            rewrite E1 in E0. inversion E0; subst. destruct Hor1 as [->|Hx]; [left; left; reflexivity|right; assumption].
          * intros u' [<-|Hu']; [specialize (Hmon _ _ E1); lia|apply Hmax; assumption].
          * intros b0 u2 E. specialize (Hmon1 _ _ E). specialize (Hmon _ _ E1). lia. }
    intros Hne. destruct (Gen ps None (or_introl eq_refl) (or_introl Hne)) as (b & u & Hf & Hb & Hin & Hmax & _).
    exists b, u. repeat split; try assumption. destruct Hin as [Hin|(b0 & E)]; [assumption|discriminate].
  Qed.

  (* ---- the DP invariant ---- *)
  Definition src_path (q : list node) (v : node) : Prop :=
    preds (hd v q) = [] /\ incl (pairs (q ++ [v])) G.

  Record Inv (done : list node) (s : st) : Prop := {
    A_ub : forall v, In v done -> forall q z, src_path q v ->
             (forall e, In e (pairs (q ++ [v])) -> z <= f e) -> zle z (B s v);
    B_src : forall v, In v done -> preds v = [] -> B s v = None;
    B_wit : forall v, In v done -> preds v <> [] ->
             exists b q, B s v = Some b /\ src_path q v /\ q <> [] /\ (length q <= length done)%nat /\
               (forall e, In e (pairs (q ++ [v])) -> b <= f e) /\
               (exists e, In e (pairs (q ++ [v])) /\ f e = b) /\
               (forall Pf, (forall x, In x done -> Pf x = P s x) ->
                  forall fuel acc, (length q <= fuel)%nat -> back fuel Pf v acc = q ++ v :: acc);
    Best_in : forall w bw, best s = Some (w, bw) ->
                In w done /\ preds w <> [] /\ succs w = [] /\ B s w = Some bw;
    Best_max : forall w, In w done -> preds w <> [] -> succs w = [] ->
                exists bw b0 w0, B s w = Some bw /\ best s = Some (w0, b0) /\ bw <= b0
  }.

  Lemma pairs_snoc2 (q : list node) a b : pairs ((q ++ [a]) ++ [b]) = pairs (q ++ [a]) ++ [(a, b)].
  Proof.
    induction q as [|x q IH]; [reflexivity|].
    change (((x :: q) ++ [a]) ++ [b]) with (x :: ((q ++ [a]) ++ [b])).
    change ((x :: q) ++ [a]) with (x :: (q ++ [a])).
    destruct (q ++ [a]) as [|y l] eqn:E; [destruct q; discriminate|].
    change ((y :: l) ++ [b]) with (y :: (l ++ [b])) in *.
    rewrite !pairs_cons2. rewrite IH. reflexivity.
  Qed.
  Lemma hd_snoc' (q : list node) a d : hd d (q ++ [a]) = hd a q.
  Proof. destruct q; reflexivity. Qed.


  Lemma Inv_init : Inv [] init.
  Proof. constructor; try (intros ? []); intros; simpl in *; discriminate. Qed.

  Lemma Inv_step done s v : Inv done s -> ~ In v done ->
    (forall u, In u (preds v) -> In u done) -> Inv (done ++ [v]) (step s v).
  Proof.
    intros I Hv Hp. unfold dp_step.
    destruct (preds v) as [|p0 ps] eqn:Epv.
    - (* v is a source *)
      constructor; simpl.
      + intros x Hx q z Hq Hz. apply in_app_or in Hx. destruct Hx as [Hx|[<-|[]]].
        * rewrite upd_other by (intros ->; contradiction). eapply (A_ub _ _ I); eassumption.
        * rewrite upd_same. exact Logic.I.
      + intros x Hx Hs. apply in_app_or in Hx. destruct Hx as [Hx|[<-|[]]].
        * rewrite upd_other by (intros ->; contradiction). apply (B_src _ _ I); assumption.
        * apply upd_same.
      + intros x Hx Hs. apply in_app_or in Hx. destruct Hx as [Hx|[<-|[]]]; [|congruence].
        destruct (B_wit _ _ I x Hx Hs) as (b & q & HB & Hq & Hne & Hl & Hmin & Hex & Hback).
        exists b, q. rewrite upd_other by (intros ->; contradiction).
        repeat split; try assumption; try apply Hq; try (rewrite app_length; simpl; lia).
        intros Pf HPf. apply Hback. intros y Hy. apply HPf. apply in_or_app. left. assumption.
      + intros w bw Hb. destruct (Best_in _ _ I w bw Hb) as (H1 & H2 & H3 & H4). repeat split; try assumption.
        * apply in_or_app. left. assumption.
        * rewrite upd_other by (intros ->; contradiction). assumption.
      + intros w Hw Hpw Hsw. apply in_app_or in Hw. destruct Hw as [Hw|[<-|[]]]; [|congruence].
        destruct (Best_max _ _ I w Hw Hpw Hsw) as (bw & b0 & w0 & H1 & H2 & H3).
        exists bw, b0, w0. rewrite upd_other by (intros ->; contradiction). tauto.
    - (* v has predecessors *)
      assert (Hne : p0 :: ps <> []) by discriminate.
      destruct (best_pred_spec (B s) v (p0 :: ps) Hne) as (b & u & Ebp & Hu & Hb & Hmax).
      rewrite Ebp.
      assert (Hud : In u done) by (apply Hp; assumption).
      rewrite <- Epv in Hu, Hmax, Hp.
      assert (HuvG : In (u, v) G) by (apply preds_ok; assumption).
      assert (Huv : u <> v) by (intros ->; contradiction).
      (* the witness path for v *)
      assert (Wit : exists q, src_path q v /\ q <> [] /\ (length q <= length (done ++ [v]))%nat /\
                 (forall e, In e (pairs (q ++ [v])) -> b <= f e) /\
                 (exists e, In e (pairs (q ++ [v])) /\ f e = b) /\
                 (forall Pf, (forall x, In x (done ++ [v]) -> Pf x = upd (P s) v u x) ->
                    forall fuel acc, (length q <= fuel)%nat -> back fuel Pf v acc = q ++ v :: acc)).
      { destruct (preds u) as [|pu0 pus] eqn:Epu.
        - exists [u]. pose proof (B_src _ _ I u Hud Epu) as HBu. rewrite HBu in Hb. simpl in Hb.
          split; [split; [simpl; assumption|simpl; intros e [<-|[]]; assumption]|].
          split; [discriminate|]. split; [rewrite app_length; simpl; lia|].
          split; [simpl; intros e [<-|[]]; lia|]. split; [exists (u, v); simpl; split; [left; reflexivity|lia]|].
          intros Pf HPf fuel acc Hf. destruct fuel as [|k]; [simpl in Hf; lia|]. simpl. rewrite Epv.
          assert (Pf v = u) by (rewrite HPf; [apply upd_same|apply in_or_app; right; left; reflexivity]). rewrite H.
          destruct k; simpl; [reflexivity|rewrite Epu; reflexivity].
        - assert (Hpu : preds u <> []) by (rewrite Epu; discriminate).
          destruct (B_wit _ _ I u Hud Hpu) as (bu & qu & HBu & Hqu & Hqne & Hql & Hqmin & Hqex & Hqback).
          rewrite HBu in Hb. simpl in Hb.
          exists (qu ++ [u]). pose proof (pairs_snoc2 qu u v) as Eps.
          split; [split|].
          + rewrite hd_snoc'. destruct Hqu as [H1 _]. destruct qu; [congruence|exact H1].
          + intros e He. rewrite Eps in He. apply in_app_or in He. destruct He as [He|[<-|[]]]; [apply Hqu; assumption|assumption].
          + split; [destruct qu; discriminate|]. split; [rewrite !app_length; simpl; lia|].
            split.
            * intros e He. rewrite Eps in He. apply in_app_or in He. destruct He as [He|[<-|[]]]; [specialize (Hqmin e He); lia|lia].
            * split.
              -- rewrite Eps. destruct (Z_le_gt_dec bu (f (u, v))) as [Hle|Hgt].
                 ++ destruct Hqex as (e & He & Hfe). exists e. split; [apply in_or_app; left; assumption|lia].
                 ++ exists (u, v). split; [apply in_or_app; right; left; reflexivity|lia].
              -- intros Pf HPf fuel acc Hf. rewrite app_length in Hf. simpl in Hf.
                 destruct fuel as [|k]; [lia|]. simpl. rewrite Epv.
                 assert (Pf v = u) by (rewrite HPf; [apply upd_same|apply in_or_app; right; left; reflexivity]). rewrite H.
                 rewrite (Hqback Pf); [rewrite <- app_assoc; reflexivity| |lia].
                 intros x Hx. rewrite HPf by (apply in_or_app; left; assumption).
                 apply upd_other. intros ->. contradiction. }
      destruct Wit as (q & Hq & Hqne & Hql & Hqmin & Hqex & Hqback).
      constructor; cbn [B P best].
      + intros x Hx q' z Hq' Hz. apply in_app_or in Hx. destruct Hx as [Hx|[<-|[]]].
        * rewrite upd_other by (intros ->; contradiction). eapply (A_ub _ _ I); eassumption.
        * rewrite upd_same. simpl.
          destruct Hq' as [Hs HG']. destruct q' as [|y q'] using rev_ind; [simpl in Hs; congruence|]. clear IHq'.
          rewrite pairs_snoc2 in HG', Hz. rewrite hd_snoc' in Hs.
          assert (HyG : In (y, v) G) by (apply HG'; apply in_or_app; right; left; reflexivity).
          assert (Hyp : In y (preds v)) by (apply preds_ok; assumption).
          assert (Hyd : In y done) by (apply Hp; assumption).
          assert (zle z (B s y)).
          { apply (A_ub _ _ I y Hyd q' z).
            - split; [destruct q'; assumption|]. intros e He. apply HG'. apply in_or_app. left. assumption.
            - intros e He. apply Hz. apply in_or_app. left. assumption. }
          assert (z <= f (y, v)) by (apply Hz; apply in_or_app; right; left; reflexivity).
          specialize (Hmax y Hyp). unfold bmin in Hmax. destruct (B s y); simpl in H; lia.
      + intros x Hx Hs. apply in_app_or in Hx. destruct Hx as [Hx|[<-|[]]]; [|congruence].
        rewrite upd_other by (intros ->; contradiction). apply (B_src _ _ I); assumption.
      + intros x Hx Hs. apply in_app_or in Hx. destruct Hx as [Hx|[<-|[]]].
        * destruct (B_wit _ _ I x Hx Hs) as (bx & qx & HB & Hqx & Hne' & Hl & Hmin & Hex & Hback).
          exists bx, qx. rewrite upd_other by (intros ->; contradiction).
          repeat split; try assumption; try apply Hqx; try (rewrite app_length; simpl; lia).
          intros Pf HPf. apply Hback. intros y Hy. rewrite HPf by (apply in_or_app; left; assumption).
          apply upd_other. intros ->. contradiction.
        * exists b, q. rewrite upd_same. repeat split; try assumption; try apply Hq.
      + intros w bw Hb'. 
        assert (Hold : forall w bw, best s = Some (w, bw) -> In w (done ++ [v]) /\ preds w <> [] /\ succs w = [] /\ upd (B s) v (Some b) w = Some bw).
        { intros w' bw' Hb''. destruct (Best_in _ _ I w' bw' Hb'') as (H1 & H2 & H3 & H4). repeat split; try assumption.
          - apply in_or_app. left. assumption.
          - rewrite upd_other by (intros ->; contradiction). assumption. }
        assert (Hnew : In v (done ++ [v]) /\ preds v <> [] /\ upd (B s) v (Some b) v = Some b).
        { repeat split; [apply in_or_app; right; left; reflexivity|rewrite Epv; discriminate|apply upd_same]. }
        destruct (succs v) eqn:Esv; [|apply Hold; assumption].
        destruct (best s) as [[w0 b0]|] eqn:Ebs.
        * destruct (b0 <? b); [inversion Hb'; subst; tauto|apply Hold; assumption].
        * inversion Hb'; subst. tauto.
      + intros w Hw Hpw Hsw. apply in_app_or in Hw. destruct Hw as [Hw|[<-|[]]].
        * destruct (Best_max _ _ I w Hw Hpw Hsw) as (bw & b0 & w0 & H1 & H2 & H3).
          rewrite upd_other by (intros ->; contradiction). rewrite H2.
          destruct (succs v); [|exists bw, b0, w0; tauto].
          destruct (b0 <? b) eqn:L; [apply Z.ltb_lt in L; exists bw, b, v; repeat split; try assumption; lia|exists bw, b0, w0; tauto].
        * rewrite upd_same, Hsw. destruct (best s) as [[w0 b0]|].
          -- destruct (b0 <? b) eqn:L; [exists b, b, v; repeat split; lia|apply Z.ltb_ge in L; exists b, b0, w0; repeat split; lia].
          -- exists b, b, v. repeat split; lia.
  Qed.


  Lemma Inv_fold rest : forall done s, Inv done s -> sorted done rest ->
    Inv (done ++ rest) (fold_left step rest s).
  Proof.
    induction rest as [|v r IH]; intros done s I S; simpl.
    - rewrite app_nil_r. assumption.
    - destruct S as (S1 & S2 & S3). replace (done ++ v :: r) with ((done ++ [v]) ++ r) by (rewrite <- app_assoc; reflexivity).
      apply IH; [apply Inv_step; assumption|assumption].
  Qed.

  Lemma last_snoc' (q : list node) a d : last (q ++ [a]) d = a.
  Proof. induction q as [|x q IH]; [reflexivity|]. simpl. destruct (q ++ [a]) eqn:E; [destruct q; discriminate|]. exact IH. Qed.

  Theorem max_bottleneck_sound topo b p : sorted [] topo -> max_bottleneck topo = Path b p ->
    0 < b /\ pairs p <> [] /\ incl (pairs p) G /\ preds (hd 0%N p) = [] /\ succs (last p 0%N) = [] /\
    (forall e, In e (pairs p) -> b <= f e) /\ (exists e, In e (pairs p) /\ f e = b).
  Proof.
    intros S H. unfold max_bottleneck in H.
    pose proof (Inv_fold topo [] init Inv_init S) as I. simpl in I.
    set (s := fold_left step topo init) in *.
    destruct (best s) as [[v b0]|] eqn:Eb; [|discriminate].
    destruct (b0 =? 0) eqn:E0; [discriminate|]. inversion H; subst b0 p. clear H.
    destruct (Best_in _ _ I v b Eb) as (Hv & Hpv & Hsv & HBv).
    destruct (B_wit _ _ I v Hv Hpv) as (b' & q & HB' & Hq & Hqne & Hql & Hmin & Hex & Hback).
    rewrite HBv in HB'. inversion HB'; subst b'.
    rewrite (Hback (P s) (fun x _ => eq_refl) (length topo) [] Hql).
    apply Z.eqb_neq in E0.
    assert (Hb0 : 0 <= b).
    { destruct Hex as (e & He & Hfe). rewrite <- Hfe. apply f_nonneg. apply Hq. assumption. }
    repeat split; try lia; try assumption; try apply Hq.
    - destruct q as [|y q] using rev_ind; [congruence|]. rewrite pairs_snoc2. intros E. apply app_eq_nil in E. destruct E; discriminate.
    - destruct Hq as [H1 _]. destruct q; [congruence|exact H1].
    - rewrite last_snoc'. assumption.
  Qed.

  Lemma all_or_ex (l : list edge) : (forall e, In e l -> 1 <= f e) \/ (exists e, In e l /\ f e <= 0).
  Proof.
    induction l as [|e l [IH|(e' & He' & Hf)]].
    - left. intros ? [].
    - destruct (Z_le_gt_dec 1 (f e)); [left; intros x [<-|Hx]; [assumption|apply IH; assumption]|right; exists e; split; [left; reflexivity|lia]].
    - right. exists e'. split; [right|]; assumption.
  Qed.

  Theorem max_bottleneck_complete topo : sorted [] topo -> max_bottleneck topo <> NoSink ->
    (forall b p, max_bottleneck topo <> Path b p) ->
    forall q w, src_path q w -> q <> [] -> In w topo -> succs w = [] ->
    exists e, In e (pairs (q ++ [w])) /\ f e <= 0.
  Proof.
    intros S HNS HNP q w Hq Hqne Hw Hsw. unfold max_bottleneck in *.
    pose proof (Inv_fold topo [] init Inv_init S) as I. simpl in I.
    set (s := fold_left step topo init) in *.
    destruct (best s) as [[v b0]|] eqn:Eb; [|congruence].
    destruct (b0 =? 0) eqn:E0; [|exfalso; eapply HNP; reflexivity]. apply Z.eqb_eq in E0. subst b0.
    assert (Hpw : preds w <> []).
    { destruct q as [|y q] using rev_ind; [congruence|]. destruct Hq as [_ HG]. rewrite pairs_snoc2 in HG.
      assert (In (y, w) G) by (apply HG; apply in_or_app; right; left; reflexivity). apply preds_ok in H.
      intros E. rewrite E in H. destruct H. }
    destruct (Best_max _ _ I w Hw Hpw Hsw) as (bw & b1 & w1 & H1 & H2 & H3).
    rewrite Eb in H2. inversion H2; subst b1 w1.
    destruct (all_or_ex (pairs (q ++ [w]))) as [Hall|Hex]; [exfalso|assumption].
    pose proof (A_ub _ _ I w Hw q 1 Hq Hall) as Hz. rewrite H1 in Hz. simpl in Hz. lia.
  Qed.

  Theorem max_bottleneck_nosink topo : sorted [] topo -> max_bottleneck topo = NoSink ->
    forall w, In w topo -> preds w <> [] -> succs w = [] -> False.
  Proof.
    intros S H w Hw Hpw Hsw. unfold max_bottleneck in H.
    pose proof (Inv_fold topo [] init Inv_init S) as I. simpl in I.
    destruct (Best_max _ _ I w Hw Hpw Hsw) as (bw & b1 & w1 & H1 & H2 & H3). rewrite H2 in H.
    destruct (b1 =? 0); discriminate.
  Qed.
End DP.


