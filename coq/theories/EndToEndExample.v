From Coq Require Import List NArith ZArith Bool Arith Lia.
Import ListNotations.
From FP Require Import Lin PathEnc EndToEnd1 EndToEnd2 EndToEnd3.
From FP Require Reach Peel PeelProofs1.

(* non-vacuity of the caller-level premises: the diamond 1->2->4, 1->3->4 with flows 2 / 3 *)
Definition xV : list node := [1; 2; 3; 4]%N.
Definition xE : list edge := [(1, 2); (1, 3); (2, 4); (3, 4)]%N.
Definition xf (e : edge) : Z := if (snd e =? 2)%N || (fst e =? 2)%N then 2%Z else 3%Z.
Definition xPa : list (node * list node) := [(1, []); (2, [1]); (3, [1]); (4, [2; 3])]%N.
Definition xSa : list (node * list node) := [(1, [2; 3]); (2, [4]); (3, [4]); (4, [])]%N.

Example e2e_premises_satisfiable :
  NoDup xV /\ (forall e, In e xE -> In (fst e) xV /\ In (snd e) xV) /\ ~ In 0%N xV /\ ~ In 5%N xV /\ 0%N <> 5%N /\
  Peel.peel_inputs_ok xE xPa xSa [1; 2; 3; 4]%N = true /\ PeelProofs1.nonneg xE xf /\ PeelProofs1.conserving xE xf.
Proof.
  split; [repeat constructor; cbn; intuition discriminate|].
  split; [intros e He; cbn in He; intuition (subst; cbn; auto)|].
  split; [cbn; intuition discriminate|]. split; [cbn; intuition discriminate|]. split; [discriminate|].
  split; [vm_compute; reflexivity|].
  split.
  - intros e He. cbn in He. intuition (subst; vm_compute; discriminate).
  - intros v Hi Ho.
    destruct v as [|[[p|p|]|[[p|p|]|p|]|]]; try (exfalso; apply Hi; reflexivity); try (exfalso; apply Ho; reflexivity); try reflexivity.
Qed.
