(* C01 on DAG models: the path decoded from a layer of any assignment satisfying the path rows is,
   after stripping the synthetic source and sink, a simple source-to-sink route of the CALLER's graph. *)
From Coq Require Import List NArith ZArith QArith Bool Arith Lia Permutation.
Import ListNotations.
From FP Require Import Lin Blocks BlocksProofs PathEnc Aug AugProofs Euler EulerProofs1 EulerProofs4 DagDecode PathEncProofs.
Set Default Timeout 60.
Local Close Scope Q_scope.

Lemma NoDup_removelast {A} (l : list A) : NoDup l -> NoDup (removelast l).
Proof.
  induction l as [|a l IH]; intros ND; [constructor|]. destruct l as [|b l]; [constructor|].
  cbn [removelast]. inversion ND as [|? ? Hni ND']; subst. constructor.
  - intros Hin. apply Hni. clear - Hin. revert b Hin. induction l as [|c l IHl]; intros b Hin; [destruct Hin|].
    cbn [removelast] in Hin. destruct Hin as [<-|Hin]; [left; reflexivity|right; apply IHl; exact Hin].
  - apply IH. exact ND'.
Qed.

Theorem dag_layer_route_valid
  (V : list node) (E : list edge) (S T : list node)          (* the caller's graph, additional starts/ends *)
  (G : stgraph) (k : nat) (a : var -> Q) (rank : node -> nat) (Rm : nat) (i : N) :
  let s := g_src G in let t := g_snk G in
  ~ In s V -> ~ In t V ->
  (forall e, In e E -> In (fst e) V /\ In (snd e) V) ->
  (forall e, In e (g_edges G) <-> In e (aug_edges V E S T s t)) ->      (* G is the augmentation of (V,E) *)
  wf_graph G ->
  (forall u v, In (u, v) (g_edges G) -> (rank u < rank v)%nat) -> (forall v, (rank v <= Rm)%nat) ->
  Forall (sat_col a) (edge_cols G k) -> Forall (sat_row a) (path_rows G k false) ->
  In i (layers k) ->
  exists p, decode (g_edges G) (xval a i) t (Datatypes.S Rm) s = Some p /\
    let r := removelast p in                                     (* what get_solution_paths returns *)
    p = r ++ [t] /\ r <> [] /\ NoDup r /\
    (forall v, In v r -> In v V) /\ incl (pairs r) E /\
    is_start E S (hd s r) = true /\ is_end E T (last r s) = true /\
    Permutation (Sup (g_edges G) (xval a i)) (pairs (s :: p)).
Proof.
  intros s t Hs Ht HE Haug WF Hrank HR Hc Hr Hi.
  destruct (layer_is_one_path G k a WF Hc Hr rank Rm i Hrank HR Hi) as (p & D & L & P).
  exists p. split; [exact D|]. cbn zeta.
  assert (Hst : s <> t) by (apply (wf_st G WF)).
  assert (Hp : p <> []) by (intros ->; cbn in L; fold s t in L; congruence).
  assert (Ep : p = removelast p ++ [t]).
  { rewrite (app_removelast_last s Hp) at 1. fold s t in L. rewrite L. reflexivity. }
  assert (Hin : incl (pairs (s :: removelast p ++ [t])) (aug_edges V E S T s t)).
  { rewrite <- Ep. intros e He. apply Haug. apply (Permutation_in _ (Permutation_sym P)) in He.
    apply Sup_In in He. tauto. }
  destruct (aug_route_valid V E S T s t Hs Ht Hst HE (removelast p) Hin) as (R1 & R2 & R3 & R4 & R5).
  assert (HinG : incl (pairs (s :: p)) (g_edges G)).
  { intros e He. apply (Permutation_in _ (Permutation_sym P)) in He. apply Sup_In in He. tauto. }
  destruct (rank_walk_nodup (g_edges G) rank Hrank p s HinG) as [ND _].
  repeat split; try assumption.
  apply NoDup_removelast. inversion ND; assumption.
Qed.
