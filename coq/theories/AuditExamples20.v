(* Instances used by the audit Examples of Props/C10_walk.v and Props/C10.v (second audit round): a digraph with a cycle and a
   subset constraint, with a satisfying assignment checked by the verified LP checker. *)
From Coq Require Import List NArith ZArith QArith Bool Arith Lia.
Import ListNotations.
From FP Require Import Lin PathEnc PathEncProofs SatCheck WalkEncRows WalkEncRowsProofs WalkExamples WalkEnc.
Local Close Scope Q_scope.

(* kFlowDecompCycles on the self-loop graph (source -> x, x -> x, x -> sink), flow 1 on the loop, k = 1, with the subset constraint {x -> x} *)
Definition loop_cons_inst : kfdc_inst :=
  {| c_graph := loopG; c_k := 1; c_flow := [((0, 0)%N, 1%Q)]; c_ignore := []; c_int := false;
     c_cons := [[(0, 0)%N]]; c_cov := 1%Q; c_opts := no_opts; c_safe_lists := []; c_fix := []; c_given := None;
     c_scale_free := false |}.
Definition loop_cons_sol : var -> Q :=
  assign [ (evar (0, 0)%N 0%N, 1%Q); (evar (1, 0)%N 0%N, 1%Q); (evar (0, 2)%N 0%N, 1%Q);
           (svar (1, 0)%N 0%N, 1%Q); (svar (0, 2)%N 0%N, 1%Q);
           (Dist 1%N 0%N, 1%Q); (Dist 0%N 0%N, 2%Q); (Dist 2%N 0%N, 3%Q);
           (pvar (0, 0)%N 0%N, 1%Q); (W 0%N, 1%Q);
           (Bit (pvar (0, 0)%N 0%N) 0%N, 1%Q); (Comp (pvar (0, 0)%N 0%N) 0%N, 1%Q);
           (R 0%N 0%N, 1%Q); (uvar (0, 0)%N 0%N, 1%Q); (uvar (1, 0)%N 0%N, 1%Q); (uvar (0, 2)%N 0%N, 1%Q) ].
Lemma loop_cons_feasible : sat loop_cons_sol (encode_kfdc loop_cons_inst).
Proof. apply sat_b_sound. vm_compute. reflexivity. Qed.
From FP Require Import WalkEncIff.
Lemma loop_cons_inputs_ok : inputs_ok loop_cons_inst.
Proof.
  split.
  - intros c e Hc He. vm_compute in Hc. destruct Hc as [<-|[]]. destruct He as [<-|[]]. vm_compute. tauto.
  - intros w e Hw. destruct Hw.
Qed.

(* the cover model kPathCoverCycles on the same graph with the same subset constraint *)
From FP Require Import WalkCoverIff.
Definition loop_cons_kpcc : kpcc_inst :=
  {| pc_graph := loopG; pc_k := 1; pc_ignore := []; pc_cons := [[(0, 0)%N]]; pc_cov := 1%Q; pc_opts := no_opts;
     pc_safe_lists := []; pc_fix := [] |}.
Lemma loop_cons_kpcc_feasible : sat loop_cons_sol (encode_kpcc loop_cons_kpcc).
Proof. apply sat_b_sound. vm_compute. reflexivity. Qed.
Lemma loop_cons_kpcc_inputs_ok : winputs_ok (kpcc_walk loop_cons_kpcc).
Proof.
  split.
  - intros c e Hc He. vm_compute in Hc. destruct Hc as [<-|[]]. destruct He as [<-|[]]. vm_compute. tauto.
  - intros w e Hw. destruct Hw.
Qed.
