(* Integration prototype: the walk-encoding constraints of one layer imply the hypotheses of
   reconstruct_correct for the residual multigraph built from the (integer) edge values. *)
From Coq Require Import List NArith ZArith Bool Arith Lia Permutation.
Import ListNotations.
From FP Require Import Euler EulerProofs1 EulerProofs2 EulerProofs3 WalkEnc.
Set Default Timeout 30.

(* residual multigraph: each edge repeated x(e) times, in edge order *)
Definition resid (G : graph) (x : edge -> Z) : graph :=
  flat_map (fun e => repeat e (Z.to_nat (x e))) G.

Lemma in_resid G x e : In e (resid G x) <-> In e G /\ (1 <= x e)%Z.
Proof.
  unfold resid. rewrite in_flat_map. split.
  - intros (e' & He' & Hr). apply repeat_spec in Hr as E. subst e'. split; [assumption|].
    destruct (Z.to_nat (x e)) eqn:T; [destruct Hr|lia].
  - intros [HG Hx]. exists e. split; [assumption|]. destruct (Z.to_nat (x e)) eqn:T; [lia|left; reflexivity].
Qed.

Lemma filter_repeat {A} (f : A -> bool) a n : length (filter f (repeat a n)) = if f a then n else O.
Proof. induction n as [|n IH]; simpl; [destruct (f a); reflexivity|]. destruct (f a) eqn:F; simpl; rewrite ?IH, ?F; reflexivity. Qed.

Lemma len_filter_resid G x (p : edge -> bool) : (forall e, In e G -> (0 <= x e)%Z) ->
  Z.of_nat (length (filter p (resid G x))) = WalkEnc.sumf x (filter p G).
Proof.
  intros Hx. induction G as [|e G IH]; [reflexivity|].
  assert (IH' := IH (fun e' h => Hx e' (or_intror h))). clear IH.
  assert (He := Hx e (or_introl eq_refl)).
  change (resid (e :: G) x) with (repeat e (Z.to_nat (x e)) ++ resid G x).
  rewrite filter_app, app_length, Nat2Z.inj_add, IH', filter_repeat. cbn [filter].
  destruct (p e).
  - change (WalkEnc.sumf x (e :: filter p G)) with (x e + WalkEnc.sumf x (filter p G))%Z. lia.
  - lia.
Qed.
Lemma outd_resid G x v : (forall e, In e G -> (0 <= x e)%Z) ->
  Z.of_nat (outd (resid G x) v) = WalkEnc.sumf x (filter (fun e => (fst e =? v)%N) G).
Proof. intros Hx. unfold outd. apply len_filter_resid. assumption. Qed.
Lemma ind_resid G x v : (forall e, In e G -> (0 <= x e)%Z) ->
  Z.of_nat (ind (resid G x) v) = WalkEnc.sumf x (filter (fun e => (snd e =? v)%N) G).
Proof. intros Hx. unfold ind. apply len_filter_resid. assumption. Qed.

(* total excess over a duplicate-free node list covering all endpoints is zero *)
Definition sumZ (f : node -> Z) (V : list node) : Z := fold_right (fun v a => (f v + a)%Z) 0%Z V.
Lemma sumZ_add f g V : sumZ (fun v => (f v + g v)%Z) V = (sumZ f V + sumZ g V)%Z.
Proof. induction V as [|v V IH]; simpl; [reflexivity|]. rewrite IH. lia. Qed.
Lemma sumZ_ext f g V : (forall v, f v = g v) -> sumZ f V = sumZ g V.
Proof. intros H. induction V as [|v V IH]; simpl; [reflexivity|]. rewrite IH, H. reflexivity. Qed.
Lemma sumZ_ind1 a V : NoDup V -> In a V -> sumZ (fun v => ind1 (a =? v)%N) V = 1%Z.
Proof.
  induction 1 as [|v V Hv ND IH]; intros Hin; [destruct Hin|]. simpl.
  destruct Hin as [->|Hin].
  - rewrite N.eqb_refl. cbn [ind1].
    assert (Z0 : sumZ (fun v => ind1 (a =? v)%N) V = 0%Z).
    { clear IH ND. induction V as [|w V IHV]; [reflexivity|]. simpl. destruct (N.eqb_spec a w) as [->|_]; [exfalso; apply Hv; left; reflexivity|].
      cbn [ind1]. rewrite IHV; [reflexivity|]. intros X. apply Hv. right. assumption. }
    rewrite Z0. reflexivity.
  - destruct (N.eqb_spec a v) as [->|_]; [contradiction|]. cbn [ind1]. rewrite (IH Hin). reflexivity.
Qed.

Lemma sum_outd (g : graph) V : NoDup V -> (forall e, In e g -> In (fst e) V) ->
  sumZ (fun v => Z.of_nat (outd g v)) V = Z.of_nat (length g).
Proof.
  intros ND. induction g as [|e g IH]; intros H.
  - clear. unfold outd. induction V as [|v V IHV]; [reflexivity|]. simpl in *. rewrite IHV. reflexivity.
  - rewrite (sumZ_ext _ (fun v => (ind1 (fst e =? v)%N + Z.of_nat (outd g v))%Z)).
    + rewrite sumZ_add, (sumZ_ind1 _ V ND (H e (or_introl eq_refl))), IH by (intros e' h; apply H; right; assumption).
      cbn [length]. lia.
    + intros v. unfold outd. cbn [filter]. destruct (fst e =? v)%N; cbn [ind1 length]; lia.
Qed.
Lemma sum_ind (g : graph) V : NoDup V -> (forall e, In e g -> In (snd e) V) ->
  sumZ (fun v => Z.of_nat (ind g v)) V = Z.of_nat (length g).
Proof.
  intros ND. induction g as [|e g IH]; intros H.
  - clear. unfold ind. induction V as [|v V IHV]; [reflexivity|]. simpl in *. rewrite IHV. reflexivity.
  - rewrite (sumZ_ext _ (fun v => (ind1 (snd e =? v)%N + Z.of_nat (ind g v))%Z)).
    + rewrite sumZ_add, (sumZ_ind1 _ V ND (H e (or_introl eq_refl))), IH by (intros e' h; apply H; right; assumption).
      cbn [length]. lia.
    + intros v. unfold ind. cbn [filter]. destruct (snd e =? v)%N; cbn [ind1 length]; lia.
Qed.

Theorem sum_exc_zero (g : graph) V : NoDup V ->
  (forall e, In e g -> In (fst e) V /\ In (snd e) V) -> sumZ (exc g) V = 0%Z.
Proof.
  intros ND H.
  rewrite (sumZ_ext _ (fun v => (Z.of_nat (outd g v) + (- Z.of_nat (ind g v)))%Z)) by (intros v; unfold exc; lia).
  rewrite sumZ_add.
  assert (E : sumZ (fun v => (- Z.of_nat (ind g v))%Z) V = (- sumZ (fun v => Z.of_nat (ind g v)) V)%Z).
  { clear. induction V as [|v V IH]; simpl; [reflexivity|]. rewrite IH. lia. }
  rewrite E, (sum_outd g V ND (fun e h => proj1 (H e h))), (sum_ind g V ND (fun e h => proj2 (H e h))). lia.
Qed.

Lemma sumZ_zero f V : (forall v, In v V -> f v = 0%Z) -> sumZ f V = 0%Z.
Proof. induction V as [|v V IH]; intros H; simpl; [reflexivity|]. rewrite H by (left; reflexivity). rewrite IH; [reflexivity|]. intros w Hw. apply H. right. assumption. Qed.

Lemma sumZ_one f V a : NoDup V -> In a V -> (forall v, In v V -> v <> a -> f v = 0%Z) -> sumZ f V = f a.
Proof.
  induction 1 as [|v V Hv ND IH]; intros Hin H0; [destruct Hin|]. simpl. destruct Hin as [->|Hin].
  - rewrite sumZ_zero; [lia|]. intros w Hw. apply H0; [right; assumption|]. intros ->. contradiction.
  - rewrite (H0 v (or_introl eq_refl)) by (intros ->; contradiction). rewrite IH; [reflexivity|assumption|].
    intros w Hw Hne. apply H0; [right; assumption|assumption].
Qed.

Lemma sumZ_two f V a b : NoDup V -> In a V -> In b V -> a <> b ->
  (forall v, In v V -> v <> a -> v <> b -> f v = 0%Z) -> sumZ f V = (f a + f b)%Z.
Proof.
  induction 1 as [|v V Hv ND IH]; intros Ha Hb Hab H0; [destruct Ha|]. simpl.
  destruct Ha as [->|Ha]; destruct Hb as [->|Hb]; try congruence.
  - rewrite (sumZ_one f V b ND Hb); [reflexivity|]. intros w Hw Hne. apply H0; [right; assumption| |assumption]. intros ->. contradiction.
  - rewrite (sumZ_one f V a ND Ha); [lia|]. intros w Hw Hne. apply H0; [right; assumption|assumption|]. intros ->. contradiction.
  - rewrite (H0 v (or_introl eq_refl)) by (intros ->; contradiction). rewrite IH; try assumption; [reflexivity|].
    intros w Hw. apply H0. right. assumption.
Qed.

Section WalkDecode.
  Variable G : graph.
  Variables s t : node.
  Variable V : list node.
  Variables x y : edge -> Z.
  Variable d : node -> Z.
  Variable Mv : node -> Z.
  Variable M : Z.
  Hypothesis V_nodup : NoDup V.
  Hypothesis V_cov : forall e, In e G -> In (fst e) V /\ In (snd e) V.
  Hypothesis s_in_V : In s V.
  Hypothesis t_in_V : In t V.
  Hypothesis s_ne_t : s <> t.
  Hypothesis Hx0  : forall e, In e G -> (0 <= x e)%Z.
  Hypothesis Hy01 : forall e, In e G -> y e = 0%Z \/ y e = 1%Z.
  Hypothesis Hd0  : forall v, (0 <= d v)%Z.
  Hypothesis H21  : forall e, In e G -> (y e <= x e)%Z.
  Hypothesis H22a : forall v, v <> s -> (WalkEnc.sumf x (WalkEnc.ins G v) <= Mv v * WalkEnc.sumf y (WalkEnc.ins G v))%Z.
  Hypothesis H19c : forall u v, In (u, v) G -> (d u + 1 - M * (1 - y (u, v)) <= d v)%Z.
  Hypothesis H17a : WalkEnc.sumf x (WalkEnc.outs G s) = 1%Z.
  Hypothesis H17b : forall v, v <> s -> v <> t -> WalkEnc.sumf x (WalkEnc.ins G v) = WalkEnc.sumf x (WalkEnc.outs G v).
  Hypothesis Hs_in : WalkEnc.ins G s = [].
  Hypothesis Ht_out : WalkEnc.outs G t = [].

  Let g0 := resid G x.

  Lemma exc_g0 v : exc g0 v = (WalkEnc.sumf x (WalkEnc.outs G v) - WalkEnc.sumf x (WalkEnc.ins G v))%Z.
  Proof. unfold exc, g0. rewrite (outd_resid G x v Hx0), (ind_resid G x v Hx0). reflexivity. Qed.

  Theorem decode_walk_sound :
    exists w, reconstruct g0 s = Some ([], w) /\ Permutation g0 (pairs w) /\ hd_error w = Some s /\ last w s = t.
  Proof.
    assert (Es : exc g0 s = 1%Z) by (rewrite exc_g0, H17a, Hs_in; reflexivity).
    assert (Ev : forall v, v <> s -> v <> t -> exc g0 v = 0%Z) by (intros v H1 H2; rewrite exc_g0, (H17b v H1 H2); lia).
    assert (Et : exc g0 t = (-1)%Z).
    { assert (Hcov : forall e, In e g0 -> In (fst e) V /\ In (snd e) V) by (intros e He; apply in_resid in He; apply V_cov; tauto).
      pose proof (sum_exc_zero g0 V V_nodup Hcov) as Z0.
      rewrite (sumZ_two (exc g0) V s t V_nodup s_in_V t_in_V s_ne_t) in Z0 by (intros v _ H1 H2; apply Ev; assumption). lia. }
    apply (reconstruct_correct g0 s t s_ne_t Es Et Ev).
    intros a b Hab. apply in_resid in Hab. destruct Hab as [HG Hx].
    assert (P : WalkEnc.preach G s x a).
    { apply (WalkEnc.used_edges_connected G s t x y d Mv M Hx0 Hy01 Hd0 H21 H22a H19c H17b Ht_out a b). split; assumption. }
    clear HG Hx. induction P as [|u v P IH [HG Hx]]; [constructor|].
    apply (reach_step g0 s u v IH). apply in_resid. split; assumption.
  Qed.
End WalkDecode.
Print Assumptions decode_walk_sound.

