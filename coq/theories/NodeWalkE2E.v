(* C04 (cyclic flow decomposition) in NODE mode, stated in the caller's terms.  The caller's digraph (V, E) may have cycles and
   self-loops; nodes carry rational weights fq (nodes of Wn carry the attribute), nodes in [ign] are ignored, S / T are additional
   starts / ends.  A node walk decomposition = k walks of the graph (DilworthNode.nwalk) with non-negative weights of the requested
   type such that for every non-ignored node v the sum over the walks of weight * (number of visits of v) equals fq v.
   Node mode solves the walk model of the node expansion (v.0 = 2v, v.1 = 2v+1; a self-loop at v becomes the cycle v.0 -> v.1 -> v.0),
   so the number of visits of v is the number of traversals of the node edge (v.0, v.1) ([mult_nedge]) and the number of
   traversals of an edge (u, v) is that of the connecting edge (u.1, v.0) ([mult_conn]).  The CAPS of the model are those it gives
   the expanded edges: inside an SCC the node edge's own weight, for a connecting edge (no weight attribute) the default w_max =
   k * weight_type(largest non-ignored node weight), outside SCCs 1 ([node_caps_reading] spells the clauses out in visits /
   traversals).  Default options (no safety fixing, no subset constraints, no given weights), the code as it is (c_scale_free = false). *)
From Coq Require Import List NArith ZArith QArith Lqa Bool Arith Lia Permutation.
Import ListNotations.
From FP Require Import Lin Blocks BlocksProofs PathEnc PathEncProofs PathEncComplete Euler EulerProofs1 EulerProofs4 Aug AugProofs
                       EndToEnd1 EndToEnd2 ErrEncIgnore DilworthNode NodeFlowE2E NodeFlowST.
From FP Require Import WalkEnc WalkDecode WalkEncRows WalkEncRowsProofs WalkTree WalkEncComplete WalkEncIff WalkSearch WalkMinimum WalkExamples.
From FP Require NodeErrE2E NodeErrST.
Set Default Timeout 90.
Local Close Scope Q_scope.

Definition visits (v : node) (p : list node) : Z := Z.of_nat (count_occ N.eq_dec p v).
Definition traversals (e : PathEnc.edge) (p : list node) : Z := multz (pairs p) e.
Definition cn (e : PathEnc.edge) : PathEnc.edge := (x1 (fst e), x0 (snd e)).
Definition ncount (V ign : list node) : list node := filter (fun v => negb (memn v ign)) V.

Definition node_kfdc_inst (V : list node) (E : list PathEnc.edge) (S T : list node) (s t : node) (Wn : list node) (fq : node -> Q)
                          (ign : list node) (isint : bool) (k : nat) : kfdc_inst :=
  {| c_graph := st_ofST (expV V) (expE V E) (map x0 S) (map x1 T) s t; c_k := k;
     c_flow := map (fun v => (nedge v, fq v)) Wn;
     c_ignore := node_ignore E ign; c_int := isint;
     c_cons := []; c_cov := 1%Q; c_opts := no_opts; c_safe_lists := []; c_fix := []; c_given := None; c_scale_free := false |}.

(* ---------------------------------------------------------------------------------------------- counting traversals *)
Lemma eqe_nedge_conn u w v : eqe (x1 u, w) (nedge v) = false.
Proof. unfold eqe, nedge. cbn [fst snd]. destruct (N.eqb_spec (x1 u) (x0 v)) as [H|_]; [exfalso; exact (x0_x1 _ _ (eq_sym H))|reflexivity]. Qed.
Lemma eqe_refl e : eqe e e = true.
Proof. unfold eqe. rewrite !N.eqb_refl. reflexivity. Qed.
Lemma eqe_nedge u v : eqe (nedge u) (nedge v) = (u =? v)%N.
Proof.
  unfold eqe, nedge. cbn [fst snd]. destruct (N.eqb_spec u v) as [->|Hne]; [rewrite !N.eqb_refl; reflexivity|].
  destruct (N.eqb_spec (x0 u) (x0 v)) as [H|_]; [apply x0_inj in H; contradiction|reflexivity].
Qed.

(* pairs of an expanded walk followed by t *)
Lemma pairs_expand_t u p t : pairs (expand (u :: p) ++ [t]) = nedge u :: (x1 u, hd t (expand p ++ [t])) :: pairs (expand p ++ [t]).
Proof. rewrite expand_cons. destruct p as [|w r]; [reflexivity|]. rewrite expand_cons. reflexivity. Qed.

Lemma count_nedge_expand v t : forall p, count_e (nedge v) (pairs (expand p ++ [t])) = count_occ N.eq_dec p v.
Proof.
  induction p as [|u p IH]; [reflexivity|]. rewrite pairs_expand_t. cbn [count_e count_occ]. rewrite eqe_nedge, eqe_nedge_conn, IH.
  destruct (N.eq_dec u v) as [->|Hne]; [rewrite N.eqb_refl; lia|]. destruct (N.eqb_spec u v); [contradiction|lia].
Qed.

Lemma mult_nedge s t v p : p <> [] -> multz (pairs (s :: expand p ++ [t])) (nedge v) = visits v p.
Proof.
  intros Hne. unfold multz, visits. f_equal. destruct p as [|u p]; [contradiction|].
  change (pairs (s :: expand (u :: p) ++ [t])) with ((s, x0 u) :: pairs (expand (u :: p) ++ [t])). cbn [count_e].
  assert (X : eqe (s, x0 u) (nedge v) = false).
  { unfold eqe, nedge. cbn [fst snd]. destruct (N.eqb_spec (x0 u) (x1 v)) as [H|_]; [exfalso; exact (x0_x1 _ _ H)|apply andb_false_r]. }
  rewrite X. apply count_nedge_expand.
Qed.

Lemma eqe_cn e f : eqe (cn e) (cn f) = eqe e f.
Proof.
  unfold eqe, cn. cbn [fst snd]. destruct e as [a b], f as [c d]. cbn [fst snd].
  destruct (N.eqb_spec a c) as [->|H1]; [rewrite N.eqb_refl|destruct (N.eqb_spec (x1 a) (x1 c)) as [H|_]; [apply x1_inj in H; contradiction|reflexivity]].
  destruct (N.eqb_spec b d) as [->|H2]; [rewrite N.eqb_refl; reflexivity|].
  destruct (N.eqb_spec (x0 b) (x0 d)) as [H|_]; [apply x0_inj in H; contradiction|reflexivity].
Qed.
Lemma eqe_nedge_cn u e : eqe (nedge u) (cn e) = false.
Proof. unfold eqe, nedge, cn. cbn [fst snd]. destruct (N.eqb_spec (x0 u) (x1 (fst e))) as [H|_]; [exfalso; exact (x0_x1 _ _ H)|reflexivity]. Qed.

Lemma count_cn_expand e t : t <> x0 (snd e) -> forall p, count_e (cn e) (pairs (expand p ++ [t])) = count_e e (pairs p).
Proof.
  intros Ht. induction p as [|u p IH]; [reflexivity|]. rewrite pairs_expand_t. cbn [count_e]. rewrite eqe_nedge_cn, IH.
  destruct p as [|w r].
  - cbn [expand flat_map app hd pairs count_e].
    assert (X : eqe (x1 u, t) (cn e) = false).
    { unfold eqe, cn. cbn [fst snd]. destruct (N.eqb_spec t (x0 (snd e))) as [H|_]; [exfalso; exact (Ht H)|apply andb_false_r]. }
    rewrite X. reflexivity.
  - rewrite expand_cons. cbn [app hd]. change (pairs (u :: w :: r)) with ((u, w) :: pairs (w :: r)). cbn [count_e].
    change (x1 u, x0 w) with (cn (u, w)). rewrite eqe_cn. lia.
Qed.

Lemma mult_conn s t e p : p <> [] -> s <> x1 (fst e) -> t <> x0 (snd e) ->
  multz (pairs (s :: expand p ++ [t])) (cn e) = traversals e p.
Proof.
  intros Hne Hs Ht. unfold traversals, multz. f_equal. destruct p as [|u p]; [contradiction|].
  change (pairs (s :: expand (u :: p) ++ [t])) with ((s, x0 u) :: pairs (expand (u :: p) ++ [t])). cbn [count_e].
  assert (X : eqe (s, x0 u) (cn e) = false).
  { unfold eqe, cn. cbn [fst snd]. destruct (N.eqb_spec s (x1 (fst e))) as [H|_]; [exfalso; exact (Hs H)|reflexivity]. }
  rewrite X. apply (count_cn_expand e t Ht).
Qed.

Section NodeWalk.
  Variables (V : list node) (E : list PathEnc.edge) (S T : list node) (s t : node).
  Variable Wn : list node.
  Variable fq : node -> Q.
  Variable ign : list node.
  Variable isint : bool.
  Hypothesis Hs : ~ In s (expV V).
  Hypothesis Ht : ~ In t (expV V).
  Hypothesis Hst : s <> t.
  Hypothesis HE : forall e, In e E -> In (fst e) V /\ In (snd e) V.
  Hypothesis NDV : NoDup V.
  Hypothesis NDE : NoDup E.
  Hypothesis HWn : forall v, In v V -> ~ In v ign -> In v Wn.      (* every non-ignored node carries the weight attribute *)

  Let V' := expV V.
  Let E' := expE V E.
  Let S' := map x0 S.
  Let T' := map x1 T.
  Let A' := aug_edges V' E' S' T' s t.
  Let HE' := expE_ends V E HE.
  Notation I k := (node_kfdc_inst V E S T s t Wn fq ign isint k).
  Notation expP := (NodeErrE2E.expP s t).
  Notation conP := NodeErrE2E.conP.

  (* ---- the caller's notions *)
  Definition node_walks (k : nat) (Pn : N -> list node) : Prop := forall i, In i (layers k) -> nwalk V E S T (Pn i).
  Definition node_walk_decomposition (k : nat) (Pn : N -> list node) (wt : N -> Q) : Prop :=
    node_walks k Pn /\
    (forall i, In i (layers k) -> (0 <= wt i)%Q /\ (isint = true -> is_int (wt i))) /\
    (forall v, In v (ncount V ign) -> (sumq (fun i => wt i * inject_Z (visits v (Pn i))) (layers k) == fq v)%Q).
  (* within the caps the model gives the expanded edges (spelled out in [node_caps_reading]) *)
  Definition node_within_caps (k : nat) (Pn : N -> list node) (wt : N -> Q) : Prop := within_caps (I k) (expP Pn) wt.
  Definition node_admissible (k : nat) (Pn : N -> list node) (wt : N -> Q) : Prop :=
    node_walk_decomposition k Pn wt /\ node_within_caps k Pn wt.

  Lemma wf_I k : wf_stg (c_graph (I k)).
  Proof.
    cbn [node_kfdc_inst c_graph]. fold V' E' S' T'. constructor.
    - exact (st_ofST_wf V' E' S' T' s t Hs Ht Hst HE' (expV_nodup V NDV) (expE_nodup V E NDV NDE)).
    - cbn [st_ofST g_nodes]. constructor; [intros [H|H]; [exact (Hst (eq_sym H))|exact (Hs H)]|]. constructor; [exact Ht|exact (expV_nodup V NDV)].
    - cbn. left. reflexivity.
    - cbn. right. left. reflexivity.
  Qed.

  (* ---- the kept (charged) edges are the node edges of the non-ignored nodes *)
  Theorem kept_nedges k : kept_edges (I k) = map nedge (ncount V ign).
  Proof.
    unfold kept_edges, kfdc_ignore. cbn [node_kfdc_inst c_graph c_ignore st_ofST g_edges]. fold V' E' S' T'.
    set (G := st_ofST V' E' S' T' s t).
    set (f := fun e : PathEnc.edge => negb (mem_edge e (st_edges G ++ node_ignore E ign))).
    unfold aug_edges, E', expE. rewrite !filter_app.
    assert (F1 : filter f (map nedge V) = map nedge (ncount V ign)).
    { rewrite NodeErrE2E.filter_map_comm. unfold ncount. f_equal. apply filter_ext_in. intros v Hv. unfold f. f_equal.
      rewrite mem_edge_app.
      assert (M2 : mem_edge (nedge v) (st_edges G) = false).
      { match goal with |- ?x = false => destruct x eqn:M end; [exfalso|reflexivity]. apply mem_edge_In in M. unfold st_edges in M. apply filter_In in M.
        destruct M as [_ M]. cbn [G st_ofST g_src g_snk nedge fst snd] in M. apply orb_true_iff in M. destruct M as [M|M]; apply N.eqb_eq in M.
        - apply Hs. rewrite <- M. apply expV_in. exists v. auto.
        - apply Ht. rewrite <- M. apply expV_in. exists v. auto. }
      rewrite M2. cbn [orb]. assert (HeE : In (nedge v) (expE V E)) by (apply expE_in; left; exists v; auto).
      apply eq_true_iff_eq. rewrite memn_In. split.
      - intros M. destruct (in_dec N.eq_dec v ign) as [Hi|Hni]; [exact Hi|exfalso].
        assert (X : mem_edge (nedge v) (node_ignore E ign) = false) by (apply (node_ignore_spec V E ign (nedge v) HeE); exists v; auto). congruence.
      - intros Hi. destruct (mem_edge (nedge v) (node_ignore E ign)) eqn:M; [reflexivity|exfalso].
        destruct (proj1 (node_ignore_spec V E ign (nedge v) HeE) M) as (u & _ & Hni & Eq). injection Eq as Eq _. apply x0_inj in Eq. subst u. contradiction. }
    assert (F2 : filter f (map (fun e : node * node => (x1 (fst e), x0 (snd e))) E) = []).
    { apply NodeErrE2E.filter_all_false. intros e He. unfold f. apply negb_false_iff. rewrite mem_edge_app. apply orb_true_iff. right.
      apply mem_edge_In. unfold node_ignore. apply in_or_app. left. exact He. }
    rewrite F1, F2. rewrite NodeErrE2E.filter_all_false; [rewrite !app_nil_r; reflexivity|].
    intros e He. unfold f. apply negb_false_iff. rewrite mem_edge_app. apply orb_true_iff. left.
    apply mem_edge_In. unfold st_edges. apply filter_In.
    assert (HeA : In e A') by (unfold A', aug_edges; apply in_or_app; right; exact He).
    split; [exact HeA|]. cbn [G st_ofST g_src g_snk].
    apply in_flat_map in He. destruct He as (u & _ & He). apply in_app_or in He. apply orb_true_iff. destruct He as [He|He].
    - match type of He with In _ (if ?c then _ else _) => destruct c end; [|destruct He]. destruct He as [<-|[]]. left. apply N.eqb_refl.
    - match type of He with In _ (if ?c then _ else _) => destruct c end; [|destruct He]. destruct He as [<-|[]]. right. apply N.eqb_refl.
  Qed.

  Lemma ncount_in v : In v (ncount V ign) -> In v V /\ ~ In v ign.
  Proof. unfold ncount. rewrite filter_In, negb_true_iff. intros [H1 H2]. split; [exact H1|]. intros H. apply memn_In in H. congruence. Qed.
  Lemma flow_nedge k v : In v (ncount V ign) -> flow_of (I k) (nedge v) = fq v.
  Proof. intros Hv. destruct (ncount_in v Hv) as [H1 H2]. unfold flow_of. cbn [node_kfdc_inst c_flow]. apply NodeErrE2E.lookup_nedge_q. apply HWn; assumption. Qed.

  (* ---- tuples of node walks <-> tuples of source-to-sink walks of the expanded s-t graph *)
  Lemma expP_walks k Pn : node_walks k Pn ->
    forall i, In i (layers k) -> hd_error (expP Pn i) = Some s /\ last (expP Pn i) s = t /\ incl (pairs (expP Pn i)) A'.
  Proof.
    intros HP i Hi. specialize (HP i Hi). unfold NodeErrE2E.expP.
    pose proof (nwalk_in_aug V E S T s t Hs Ht Hst HE _ HP) as Hincl.
    split; [reflexivity|]. split; [|exact Hincl].
    change (s :: expand (Pn i) ++ [t]) with ((s :: expand (Pn i)) ++ [t]). apply last_last.
  Qed.

  Lemma walks_contract k P : (forall i, In i (layers k) -> hd_error (P i) = Some s /\ last (P i) s = t /\ incl (pairs (P i)) A') ->
    node_walks k (conP P) /\ forall i, In i (layers k) -> P i = expP (conP P) i.
  Proof.
    intros HP.
    assert (H : forall i, In i (layers k) -> exists p, P i = s :: expand p ++ [t] /\ nwalk V E S T p).
    { intros i Hi. destruct (HP i Hi) as (Hh & Hl & Hin).
      destruct (P i) as [|a m] eqn:EP; [discriminate|]. cbn in Hh. injection Hh as ->.
      destruct m as [|b m'].
      { cbn in Hl. exfalso. exact (Hst Hl). }
      destruct (exists_last (l := b :: m') ltac:(discriminate)) as (r & z & Er). rewrite Er in *.
      assert (z = t).
      { rewrite <- Hl. change (s :: r ++ [z]) with ((s :: r) ++ [z]). rewrite last_last. reflexivity. }
      subst z.
      destruct (walk_contracts V E S T s t Hs Ht Hst HE r Hin) as (p & -> & Hp). exists p. split; [reflexivity|exact Hp]. }
    split.
    - intros i Hi. destruct (H i Hi) as (p & EP & Hp). unfold NodeErrE2E.conP. rewrite EP, NodeErrE2E.strip_frame, NodeErrE2E.unexp_expand. exact Hp.
    - intros i Hi. destruct (H i Hi) as (p & EP & Hp). unfold NodeErrE2E.expP, NodeErrE2E.conP. rewrite EP, NodeErrE2E.strip_frame, NodeErrE2E.unexp_expand. reflexivity.
  Qed.

  Lemma mult_expP_nedge Pn i v : Pn i <> [] -> mult (expP Pn) i (nedge v) = visits v (Pn i).
  Proof. intros Hne. unfold mult, NodeErrE2E.expP. apply mult_nedge. exact Hne. Qed.

  (* ---- the decomposition equations agree *)
  Theorem walk_decomposition_agree k Pn wt : node_walks k Pn ->
    (walk_decomposition (I k) (expP Pn) wt <-> node_walk_decomposition k Pn wt).
  Proof.
    intros HP. unfold walk_decomposition, node_walk_decomposition.
    cbn [node_kfdc_inst c_graph c_k c_int st_ofST g_src g_snk g_edges]. fold V' E' S' T' A'.
    assert (Eq : forall v, In v (ncount V ign) ->
       (sumq (fun i => wt i * inject_Z (mult (expP Pn) i (nedge v))) (layers k) == sumq (fun i => wt i * inject_Z (visits v (Pn i))) (layers k))%Q).
    { intros v _. apply sumq_ext. intros i Hi. destruct (HP i Hi) as (Hne & _). rewrite (mult_expP_nedge Pn i v Hne). reflexivity. }
    split.
    - intros (_ & Hw & Hf). split; [exact HP|]. split; [exact Hw|]. intros v Hv. rewrite <- (Eq v Hv), <- (flow_nedge k v Hv).
      apply Hf. rewrite kept_nedges. apply in_map. exact Hv.
    - intros (_ & Hw & Hf). split; [exact (expP_walks k Pn HP)|]. split; [exact Hw|]. intros e He. rewrite kept_nedges in He.
      apply in_map_iff in He. destruct He as (v & <- & Hv). rewrite (Eq v Hv), (flow_nedge k v Hv). exact (Hf v Hv).
  Qed.

  Lemma defaults_trivial k P wt : respects_fixing (I k) P /\ realises_constraints (I k) P /\ WalkEncIff.uses_given (I k) wt.
  Proof.
    split; [split; [intros e i H|intros e i m H]; cbn in H; destruct H|]. split.
    - intros j c H. cbn in H. destruct j; discriminate.
    - intros ws j w H. discriminate H.
  Qed.

  Lemma admissible_ext k P P' wt : (forall i, In i (layers k) -> P i = P' i) -> admissible (I k) P wt -> admissible (I k) P' wt.
  Proof.
    intros Heq ((H1 & H2 & H3) & (C1 & C2 & C3 & C4) & _).
    assert (M : forall i e, In i (layers k) -> mult P' i e = mult P i e) by (intros i e Hi; unfold mult; rewrite (Heq i Hi); reflexivity).
    split; [|split; [|apply defaults_trivial]].
    - split; [intros i Hi; rewrite <- (Heq i Hi); exact (H1 i Hi)|]. split; [exact H2|].
      intros e He. rewrite <- (H3 e He). apply sumq_ext. intros i Hi. rewrite (M i e Hi). reflexivity.
    - split; [exact C1|]. split; [intros i e Hi He; rewrite (M i e Hi); exact (C2 i e Hi He)|]. split.
      + intros i e Hi He Hk. rewrite (M i e Hi). exact (C3 i e Hi He Hk).
      + intros i e Hi He. rewrite (M i e Hi). exact (C4 i e Hi He).
  Qed.

  (* the key theorem: admissible decompositions of the expanded instance with k walks <-> admissible node walk decompositions *)
  Theorem node_walk_decomposition_iff k :
    (exists P wt, admissible (I k) P wt) <-> (exists Pn wt, node_admissible k Pn wt).
  Proof.
    split.
    - intros (P & wt & Hadm). pose proof Hadm as ((H1 & _) & _).
      cbn [node_kfdc_inst c_graph c_k st_ofST g_src g_snk g_edges] in H1. fold V' E' S' T' A' in H1.
      destruct (walks_contract k P H1) as [HPn Heq].
      pose proof (admissible_ext k P (expP (conP P)) wt Heq Hadm) as (HD & HC & _).
      exists (conP P), wt. split; [apply (walk_decomposition_agree k (conP P) wt HPn); exact HD|exact HC].
    - intros (Pn & wt & HD & HC). exists (expP Pn), wt. pose proof HD as (HPn & _).
      split; [apply (walk_decomposition_agree k Pn wt HPn); exact HD|]. split; [exact HC|apply defaults_trivial].
  Qed.

  Lemma inputs_ok_I k : inputs_ok (I k).
  Proof. split; [intros c e Hc; cbn in Hc; destruct Hc|intros w e Hw; cbn in Hw; destruct Hw]. Qed.

  (* the k-model of the expanded instance is feasible iff the caller's instance has an admissible node walk decomposition with k walks *)
  Theorem node_kfdc_feasible_iff k :
    (exists a, sat a (encode_kfdc (I k))) <-> (exists Pn wt, node_admissible k Pn wt).
  Proof. rewrite <- node_walk_decomposition_iff. apply kfdc_feasible_iff_within_caps; [apply wf_I|reflexivity|apply inputs_ok_I]. Qed.

  (* what "within the caps" says, in visits and traversals *)
  Theorem node_caps_reading k Pn wt : node_walks k Pn -> node_within_caps k Pn wt ->
    (forall i, In i (layers k) -> (wt i <= kfdc_wmax (I k))%Q) /\
    (forall i v, In i (layers k) -> In v V -> (inject_Z (visits v (Pn i)) <= cap (kfdc_walk (I k)) (nedge v))%Q) /\
    (forall i e, In i (layers k) -> In e E -> (inject_Z (traversals e (Pn i)) <= cap (kfdc_walk (I k)) (cn e))%Q) /\
    (forall i v, In i (layers k) -> In v (ncount V ign) -> (wt i * inject_Z (visits v (Pn i)) <= kfdc_wmax (I k))%Q).
  Proof.
    intros HP (C1 & C2 & _ & C4). split; [exact C1|]. split; [|split].
    - intros i v Hi Hv. destruct (HP i Hi) as (Hne & _). rewrite <- (mult_expP_nedge Pn i v Hne). apply (C2 i (nedge v) Hi).
      cbn [node_kfdc_inst c_graph st_ofST g_edges]. apply (aug_in (expV V) (expE V E) (map x0 S) (map x1 T) s t). left. apply expE_in. left. exists v. auto.
    - intros i e Hi He. destruct (HP i Hi) as (Hne & _).
      assert (Hm : mult (expP Pn) i (cn e) = traversals e (Pn i)).
      { unfold mult, NodeErrE2E.expP. destruct (HE e He) as [H1 H2]. apply mult_conn; [exact Hne| |].
        - intros Ha. apply Hs. rewrite Ha. apply expV_in. exists (fst e). auto.
        - intros Ha. apply Ht. rewrite Ha. apply expV_in. exists (snd e). auto. }
      rewrite <- Hm. apply (C2 i (cn e) Hi).
      cbn [node_kfdc_inst c_graph st_ofST g_edges]. apply (aug_in (expV V) (expE V E) (map x0 S) (map x1 T) s t). left. apply expE_in. right.
      exists (fst e), (snd e). destruct e. auto.
    - intros i v Hi Hv. destruct (HP i Hi) as (Hne & _). rewrite <- (mult_expP_nedge Pn i v Hne). apply (C4 i (nedge v) Hi).
      rewrite kept_nedges. apply in_map. exact Hv.
  Qed.
End NodeWalk.

(* ================================================================================================================= *)
(* end to end: MinFlowDecompCycles in node mode returns the least number of walks of an admissible node walk decomposition *)
Theorem node_mfdc_returns_minimum_within_caps
    (V : list node) (E : list PathEnc.edge) (S T : list node) (s t : node) (Wn : list node) (fq : node -> Q) (ign : list node) (isint : bool)
    (out : nat -> outcome) (tout : nat -> bool) (lb nE kmin : nat) :
  ~ In s (expV V) -> ~ In t (expV V) -> s <> t -> (forall e, In e E -> In (fst e) V /\ In (snd e) V) -> NoDup V -> NoDup E ->
  (forall v, In v V -> ~ In v ign -> In v Wn) ->
  (* solver specification for the k-models of the expanded instance *)
  (forall j, out j = Optimal <-> exists a, sat a (encode_kfdc (node_kfdc_inst V E S T s t Wn fq ign isint j))) ->
  (forall j, out j = Infeasible <-> ~ exists a, sat a (encode_kfdc (node_kfdc_inst V E S T s t Wn fq ign isint j))) ->
  (forall j, tout j = false) ->
  (* kmin is the least number of walks of an admissible node walk decomposition, and it lies in the searched range *)
  (exists Pn wt, node_admissible V E S T s t Wn fq ign isint kmin Pn wt) ->
  (forall j, (j < kmin)%nat -> ~ exists Pn wt, node_admissible V E S T s t Wn fq ign isint j Pn wt) ->
  (lb <= kmin <= nE)%nat ->
  mfdc_solve out tout None lb nE = Solved kmin.
Proof.
  intros Hs Ht Hst HE NDV NDE HWn Hopt Hinf Htout Hmin Hless Hrange.
  apply (mfdc_returns_minimum_within_caps (fun j => node_kfdc_inst V E S T s t Wn fq ign isint j) out tout None lb nE kmin).
  - intros j. split; [reflexivity|]. split; [apply (wf_I V E S T s t Wn fq ign isint Hs Ht Hst HE NDV NDE)|]. split; [reflexivity|apply inputs_ok_I].
  - exact Hopt.
  - exact Hinf.
  - exact Htout.
  - intros g Hg. discriminate Hg.
  - apply (node_walk_decomposition_iff V E S T s t Wn fq ign isint Hs Ht Hst HE HWn kmin). exact Hmin.
  - intros j Hj Hex. apply (Hless j Hj). apply (node_walk_decomposition_iff V E S T s t Wn fq ign isint Hs Ht Hst HE HWn j). exact Hex.
  - exact Hrange.
Qed.

(* ================================================================================================================= *)
(* non-vacuity: 1 -> 2 -> 3 with a self-loop at 2, node weights 2, 6, 2.  One walk 1 2 2 2 3 of weight 2 visits node 2 three times:
   an admissible node walk decomposition with 1 walk (the node edge of 2 lies in an SCC of the expansion - the self-loop became the
   cycle 2.0 -> 2.1 -> 2.0 - and has cap 6 >= 3; the connecting edge of the self-loop has the default cap w_max = 6 >= 2); none
   with 0 walks. *)
Definition lxV : list node := [1; 2; 3]%N.
Definition lxE : list PathEnc.edge := [(1, 2); (2, 2); (2, 3)]%N.
Definition lxfq (v : node) : Q := if (v =? 2)%N then 6%Q else 2%Q.
Definition lxPn (_ : N) : list node := [1; 2; 2; 2; 3]%N.
Definition lxw (_ : N) : Q := 2%Q.

Lemma lx_premises :
  NoDup lxV /\ NoDup lxE /\ (forall e, In e lxE -> In (fst e) lxV /\ In (snd e) lxV) /\
  ~ In 100%N (expV lxV) /\ ~ In 101%N (expV lxV) /\ 100%N <> 101%N /\ (forall v, In v lxV -> ~ In v [] -> In v lxV) /\
  node_admissible lxV lxE [] [] 100%N 101%N lxV lxfq [] false 1 lxPn lxw /\
  visits 2%N (lxPn 0%N) = 3%Z /\ traversals (2, 2)%N (lxPn 0%N) = 2%Z /\
  ~ (exists Pn wt, node_admissible lxV lxE [] [] 100%N 101%N lxV lxfq [] false 0 Pn wt).
Proof.
  split; [repeat constructor; cbn; intuition discriminate|].
  split; [repeat constructor; cbn; intuition discriminate|].
  split; [intros e He; cbn in He; destruct He as [<-|[<-|[<-|[]]]]; cbn; tauto|].
  split; [cbn; intuition discriminate|]. split; [cbn; intuition discriminate|]. split; [discriminate|].
  split; [intros v Hv _; exact Hv|].
  split; [|split; [reflexivity|split; [reflexivity|]]].
  - split.
    + split; [|split].
      * intros i _. unfold lxPn, nwalk. split; [discriminate|]. split; [intros x Hx; cbn in Hx |- *; tauto|].
        split; [intros e He; cbn in He |- *; tauto|]. split; reflexivity.
      * intros i _. split; [unfold lxw; lra|discriminate].
      * intros v Hv. cbn in Hv. destruct Hv as [<-|[<-|[<-|[]]]]; vm_compute; reflexivity.
    + unfold node_within_caps. split; [|split; [|split]].
      * intros i _. vm_compute. discriminate.
      * intros i e _ He. cbn in He. repeat (destruct He as [<-|He]; [vm_compute; discriminate|]). destruct He.
      * intros i e _ He _. vm_compute in He. repeat (destruct He as [<-|He]; [vm_compute; reflexivity|]). destruct He.
      * intros i e _ He. vm_compute in He. repeat (destruct He as [<-|He]; [vm_compute; discriminate|]). destruct He.
  - intros (Pn & wt & (_ & _ & Hf) & _). specialize (Hf 1%N ltac:(cbn; tauto)). cbn in Hf. discriminate Hf.
Qed.
