(* Constraint generators of the cyclic (walk) models (E1):
     AbstractWalkModelDiGraph._encode_walks               17a 17b 21 22a 22b 18a 19c
     AbstractWalkModelDiGraph._apply_safety_optimizations  zero rows, >= m / = 1 rows or queued bounds,
                                                           safe sequences appended to the subset constraints
     AbstractWalkModelDiGraph._encode_subset_constraints   Used/R columns, min1 rows, 7a (over the SET), 7b
     kPathCoverCycles  (_encode_walk_cover, _encode_objective)
     kFlowDecompCycles (_encode_flow_decomposition, _encode_given_weights)
   The s-t graph is given with the adjacency orders the implementation iterates in.  Reachability
   (stDiGraph.nodes_reachable / nodes_reaching / is_scc_edge) is COMPUTED here by a closure with fuel
   |V*|; nothing about reachability is taken from the implementation.  The only inputs that do not come
   from the caller's arguments are the list of maximal safe sequences (`safe_lists`) and the list
   `walks_to_fix`, both chosen by un-modelled algorithms; everything derived from them is modelled. *)
From Coq Require Import List NArith ZArith QArith Qround Bool Lia.
Import ListNotations.
From FP Require Import Lin Blocks PathEnc.
Local Close Scope Q_scope.

(* ---- reachability by closure ---- *)
Definition mem_node (v : node) (l : list node) : bool := existsb (N.eqb v) l.
Fixpoint add_nodes (new l : list node) : list node :=
  match new with
  | [] => l
  | v :: r => if mem_node v l then add_nodes r l else add_nodes r (l ++ [v])
  end.
Fixpoint closure (fuel : nat) (next : node -> list node) (cur : list node) : list node :=
  match fuel with
  | O => cur
  | S f => closure f next (add_nodes (flat_map next cur) cur)
  end.
(* nodes_reachable(v) / nodes_reaching(v): both contain v itself *)
Definition reach_fwd (G : stgraph) (v : node) : list node := closure (length (g_nodes G)) (succs G) [v].
Definition reach_bwd (G : stgraph) (v : node) : list node := closure (length (g_nodes G)) (preds G) [v].
(* is_scc_edge(u, v): the head reaches the tail *)
Definition is_scc_edge (G : stgraph) (e : edge) : bool := mem_node (fst e) (reach_fwd G (snd e)).

(* ---- instance ---- *)
Record walk_opts := {
  o_allow_empty : bool;      (* allow_empty_walks *)
  o_safe : bool;             (* optimize_with_safe_sequences *)
  o_geq : bool;              (* optimize_with_safe_sequences_allow_geq_constraints *)
  o_bounds : bool;           (* optimize_with_safe_sequences_fix_via_bounds *)
  o_zero : bool;             (* optimize_with_safe_sequences_fix_zero_edges *)
  o_safe_cons : bool;        (* optimize_with_safety_as_subset_constraints *)
  o_anti_cons : bool }.      (* optimize_with_max_safe_antichain_as_subset_constraints *)

Record walk_inst := {
  w_graph : stgraph;
  w_k : nat;
  w_rep : list (edge * Q);          (* max_edge_repetition_dict as the subclass passes it *)
  w_rep_default : Q;                (* value where the dict has no entry / max_edge_repetition *)
  w_cons : list (list edge);        (* subset constraints of the caller *)
  w_cov : Q;
  w_opts : walk_opts;
  w_safe_lists : list (list edge);  (* maximal safe sequences (read from the model object) *)
  w_fix : list (list edge) }.       (* walks_to_fix (read from the model object) *)

Definition Sel (u v : node) (i : N) : var := V fSel [u; v; i].
Definition Dist (v : node) (i : N) : var := V fDist [v; i].
Definition Used (u v : node) (i : N) : var := V fUsed [u; v; i].
Definition evar (e : edge) (i : N) : var := Edge (fst e) (snd e) i.
Definition svar (e : edge) (i : N) : var := Sel (fst e) (snd e) i.
Definition uvar (e : edge) (i : N) : var := Used (fst e) (snd e) i.

(* per-edge cap: forced to 1 outside SCCs *)
Definition cap (I : walk_inst) (e : edge) : Q :=
  if is_scc_edge (w_graph I) e then lookup_q e (w_rep I) (w_rep_default I) else 1%Q.

Definition nnodes (G : stgraph) : Q := inject_Z (Z.of_nat (length (g_nodes G))).

(* ---- safety bookkeeping ---- *)
Definition is_nil {A} (l : list A) : bool := match l with [] => true | _ => false end.
(* (i, walk) for i < min(len(walks_to_fix), k), empty walks skipped; nothing when the safe
   sequences were appended to the subset constraints (early return before walks_to_fix is used) *)
Definition fix_layers (I : walk_inst) : list (N * list edge) :=
  if o_safe_cons (w_opts I) then []
  else filter (fun iw => negb (is_nil (snd iw))) (firstn (w_k I) (zipn 0 (w_fix I))).

Fixpoint consec {A} (l : list A) : list (A * A) :=
  match l with
  | a :: ((b :: _) as r) => (a, b) :: consec r
  | _ => []
  end.

(* _apply_safety_optimizations_fix_zero_edges: edges of G that are NOT protected for this walk *)
Definition zero_edges (G : stgraph) (walk : list edge) : list edge :=
  match walk with
  | [] => []
  | e0 :: _ =>
      let rf := reach_fwd G (snd (last walk e0)) in
      let rb := reach_bwd G (fst e0) in
      let gaps := map (fun ab => (reach_fwd G (snd (fst ab)), reach_bwd G (fst (snd ab)))) (consec walk) in
      filter (fun e => negb (mem_edge e walk || mem_node (fst e) rf || mem_node (snd e) rb ||
                             existsb (fun g => mem_node (fst e) (fst g) && mem_node (snd e) (snd g)) gaps))
             (g_edges G)
  end.
Definition zero_set (I : walk_inst) : list (edge * N) :=
  if o_zero (w_opts I) then flat_map (fun iw => map (fun e => (e, fst iw)) (zero_edges (w_graph I) (snd iw))) (fix_layers I)
  else [].

Fixpoint nodup_e (l : list edge) : list edge :=
  match l with
  | [] => []
  | e :: r => if mem_edge e r then nodup_e r else e :: nodup_e r
  end.
Definition count_edge (e : edge) (l : list edge) : nat := length (filter (edge_eqb e) l).

(* the per-layer fixing is done only on this branch *)
Definition fixing_active (I : walk_inst) : bool :=
  o_safe (w_opts I) && negb (o_safe_cons (w_opts I)) && negb (o_anti_cons (w_opts I)).
Definition fix_items (I : walk_inst) : list (edge * N * nat) :=
  if fixing_active I then
    flat_map (fun iw => map (fun e => (e, fst iw, count_edge e (snd iw))) (nodup_e (snd iw))) (fix_layers I)
  else [].
(* edges_set_to_one *)
Definition one_set (I : walk_inst) : list (edge * N) :=
  map (fun x => fst x) (filter (fun x => negb (is_scc_edge (w_graph I) (fst (fst x)))) (fix_items I)).

Definition mem_ei (e : edge) (i : N) (l : list (edge * N)) : bool :=
  existsb (fun x => edge_eqb (fst x) e && (snd x =? i)%N) l.

Definition qnat (n : nat) : Q := inject_Z (Z.of_nat n).

(* rows of the fixing loop (when not done through bounds) *)
Definition fix_rows (I : walk_inst) : list row :=
  if o_bounds (w_opts I) then []
  else flat_map (fun x => let '(e, i, m) := x in
         if is_scc_edge (w_graph I) e then
           (if o_geq (w_opts I) then [mkrow [(evar e i, 1%Q)] SGe (qnat m)] else [])
         else [mkrow [(evar e i, 1%Q)] SEq 1%Q]) (fix_items I).
(* lower bound of Edge e i after _apply_pending_bound_updates *)
Definition edge_lb (I : walk_inst) (e : edge) (i : N) : Q :=
  if o_bounds (w_opts I) then
    match find (fun x => edge_eqb (fst (fst x)) e && (snd (fst x) =? i)%N) (fix_items I) with
    | Some (_, _, m) => if is_scc_edge (w_graph I) e then (if o_geq (w_opts I) then qnat m else 0%Q) else 1%Q
    | None => 0%Q
    end
  else 0%Q.

Definition zero_rows (I : walk_inst) : list row :=
  map (fun ei => mkrow [(evar (fst ei) (snd ei), 1%Q)] SEq 0%Q) (zero_set I).

(* ---- walks ---- *)
Definition intcol (v : var) (lb ub : Q) : col := {| cvar := v; clb := lb; cub := ub; cint := true |}.

Definition walk_cols (I : walk_inst) : list col :=
  let G := w_graph I in
  flat_map (fun i => map (fun e => intcol (evar e i) (edge_lb I e i) (cap I e)) (g_edges G)) (layers (w_k I)) ++
  flat_map (fun i => map (fun v => intcol (Dist v i) 0%Q (nnodes G)) (g_nodes G)) (layers (w_k I)) ++
  flat_map (fun i => map (fun e => bincol (svar e i)) (g_edges G)) (layers (w_k I)).

Definition row_17a (G : stgraph) (allow_empty : bool) (i : N) : row :=
  mkrow (map (fun v => (Edge (g_src G) v i, 1%Q)) (succs G (g_src G))) (if allow_empty then SLe else SEq) 1%Q.
Definition row_17b (G : stgraph) (i : N) (v : node) : row := row_10c G i v.
Definition row_21 (i : N) (e : edge) : row := mkrow [(evar e i, 1%Q); (svar e i, (- (1))%Q)] SGe 0%Q.
Definition Mv (I : walk_inst) (v : node) : Q :=
  fold_right (fun u s => (cap I (u, v) + s)%Q) 0%Q (preds (w_graph I) v).
Definition row_22a (I : walk_inst) (i : N) (v : node) : row :=
  mkrow (map (fun u => (Edge u v i, 1%Q)) (preds (w_graph I) v) ++
         map (fun u => (Sel u v i, (- Mv I v)%Q)) (preds (w_graph I) v)) SLe 0%Q.
Definition row_22b (G : stgraph) (i : N) (v : node) : row :=
  mkrow (map (fun u => (Sel u v i, 1%Q)) (preds G v)) SLe 1%Q.
Definition row_18a (G : stgraph) (i : N) : row := mkrow [(Dist (g_src G) i, 1%Q)] SEq 1%Q.
Definition bigM (G : stgraph) : Q := (nnodes G + 1)%Q.
Definition row_19c (G : stgraph) (i : N) (e : edge) : row :=
  mkrow [(Dist (snd e) i, 1%Q); (Dist (fst e) i, (- (1))%Q); (svar e i, (- bigM G)%Q)] SGe (1 - bigM G)%Q.

Definition non_src (G : stgraph) : list node := filter (fun v => negb (v =? g_src G)%N) (g_nodes G).

Definition walk_rows (I : walk_inst) : list row :=
  let G := w_graph I in let ls := layers (w_k I) in
  map (row_17a G (o_allow_empty (w_opts I))) ls ++
  flat_map (fun i => map (row_17b G i) (inner G)) ls ++
  flat_map (fun i => map (row_21 i) (g_edges G)) ls ++
  flat_map (fun i => flat_map (fun v => [row_22a I i v; row_22b G i v]) (non_src G)) ls ++
  map (row_18a G) ls ++
  flat_map (fun i => map (row_19c G i) (g_edges G)) ls.

(* ---- subset constraints (after the safety variants appended theirs) ---- *)
Definition all_cons (I : walk_inst) : list (list edge) :=
  w_cons I ++ (if o_safe_cons (w_opts I) then w_safe_lists I
               else if o_anti_cons (w_opts I) then w_fix I else []).

Definition sub_cols (I : walk_inst) : list col :=
  match all_cons I with
  | [] => []
  | cs => flat_map (fun i => map (fun j => bincol (R i (N.of_nat j))) (seq 0 (length cs))) (layers (w_k I)) ++
          flat_map (fun i => map (fun e => bincol (uvar e i)) (g_edges (w_graph I))) (layers (w_k I))
  end.

Definition row_min1a (i : N) (e : edge) : row := mkrow [(uvar e i, 1%Q); (evar e i, (- (1))%Q)] SLe 0%Q.
Definition row_min1b (I : walk_inst) (i : N) (e : edge) : row :=
  mkrow [(evar e i, 1%Q); (uvar e i, (- cap I e)%Q)] SLe 0%Q.
Definition row_s7a (I : walk_inst) (i : N) (jc : N * list edge) : row :=
  let cset := nodup_e (snd jc) in
  mkrow (map (fun e => (uvar e i, 1%Q)) cset ++ [(R i (fst jc), (- (qnat (length cset) * w_cov I))%Q)]) SGe 0%Q.
Definition row_s7b (k : nat) (j : N) : row := mkrow (map (fun i => (R i j, 1%Q)) (layers k)) SGe 1%Q.

Definition sub_rows (I : walk_inst) : list row :=
  match all_cons I with
  | [] => []
  | cs => flat_map (fun i => flat_map (fun e => [row_min1a i e; row_min1b I i e]) (g_edges (w_graph I))) (layers (w_k I)) ++
          flat_map (fun i => map (row_s7a I i) (zipn 0 cs)) (layers (w_k I)) ++
          map (fun j => row_s7b (w_k I) (N.of_nat j)) (seq 0 (length cs))
  end.

(* everything create_solver_and_walks() puts into the solver *)
Definition base_wcols (I : walk_inst) : list col := walk_cols I ++ sub_cols I.
Definition base_wrows (I : walk_inst) : list row := walk_rows I ++ zero_rows I ++ fix_rows I ++ sub_rows I.

Definition encode_walks (I : walk_inst) : milp :=
  {| cols := base_wcols I; rows := base_wrows I; obj := []; maximize := false |}.

Definition all_edge_terms (G : stgraph) (k : nat) : lin :=
  flat_map (fun e => map (fun i => (evar e i, 1%Q)) (layers k)) (g_edges G).

(* source/sink edges of the augmented graph *)
Definition st_edges (G : stgraph) : list edge :=
  filter (fun e => (fst e =? g_src G)%N || (snd e =? g_snk G)%N) (g_edges G).

(* ---- kPathCoverCycles ---- *)
Record kpcc_inst := {
  pc_graph : stgraph; pc_k : nat; pc_ignore : list edge;    (* the caller's elements_to_ignore *)
  pc_cons : list (list edge); pc_cov : Q; pc_opts : walk_opts;
  pc_safe_lists : list (list edge); pc_fix : list (list edge) }.

Definition kpcc_walk (I : kpcc_inst) : walk_inst :=
  {| w_graph := pc_graph I; w_k := pc_k I; w_rep := [];
     w_rep_default := (qnat (length (g_edges (pc_graph I))) * qnat (length (g_nodes (pc_graph I))))%Q;
     w_cons := pc_cons I; w_cov := pc_cov I; w_opts := pc_opts I;
     w_safe_lists := pc_safe_lists I; w_fix := pc_fix I |}.

Definition kpcc_ignore (I : kpcc_inst) : list edge := st_edges (pc_graph I) ++ pc_ignore I.

(* (the code also skips edges of a "constraint edge" set built by zipping consecutive EDGES of a
   constraint, which never contains an edge: no cover row is ever skipped) *)
Definition kpcc_rows (I : kpcc_inst) : list row :=
  map (fun e => mkrow (map (fun i => (evar e i, 1%Q)) (layers (pc_k I))) SGe 1%Q)
      (filter (fun e => negb (mem_edge e (kpcc_ignore I))) (g_edges (pc_graph I))).

Definition encode_kpcc (I : kpcc_inst) : milp :=
  {| cols := base_wcols (kpcc_walk I); rows := base_wrows (kpcc_walk I) ++ kpcc_rows I;
     obj := all_edge_terms (pc_graph I) (pc_k I); maximize := false |}.

(* ---- kFlowDecompCycles ---- *)
Record kfdc_inst := {
  c_graph : stgraph; c_k : nat;
  c_flow : list (edge * Q);          (* flow attribute of the caller's edges *)
  c_ignore : list edge;              (* the caller's elements_to_ignore *)
  c_int : bool;                      (* weight_type = int *)
  c_cons : list (list edge); c_cov : Q; c_opts : walk_opts;
  c_safe_lists : list (list edge); c_fix : list (list edge);
  c_given : option (list Q);         (* optimization_options["given_weights"] *)
  c_scale_free : bool }.             (* false = the code as it is (finding rep_cap_from_own_flow): cap = own flow value;
                                        true = proposed_fixes/kfdc_scale_free_cap.diff: float weights use ceil(f(e)/f_min)
                                        and the product helper gets ub = max(w_max, cap) *)

Definition kfdc_ignore (I : kfdc_inst) : list edge := st_edges (c_graph I) ++ c_ignore I.
Definition kept_edges (I : kfdc_inst) : list edge :=
  filter (fun e => negb (mem_edge e (kfdc_ignore I))) (g_edges (c_graph I)).
Definition flow_of (I : kfdc_inst) (e : edge) : Q := lookup_q e (c_flow I) 0%Q.
(* get_max_flow_value_and_check_non_negative_flow, then weight_type(...) (int() truncates; values are >= 0) *)
Definition max_flow (I : kfdc_inst) : Q := fold_left qmax (map (flow_of I) (kept_edges I)) 0%Q.
Definition qtrunc (q : Q) : Q := inject_Z (Qnum q / Zpos (Qden q)).
Definition kfdc_wmax (I : kfdc_inst) : Q :=
  (qnat (c_k I) * (if c_int I then qtrunc (max_flow I) else max_flow I))%Q.

(* smallest positive non-ignored flow value (1 when there is none) *)
Definition flow_unit (I : kfdc_inst) : Q :=
  match filter (fun q => negb (Qle_bool q 0)) (map (flow_of I) (kept_edges I)) with
  | [] => 1%Q
  | q :: r => fold_left qmin r q
  end.
Definition qceil (q : Q) : Q := inject_Z (Qceiling q).
Definition kfdc_rep (I : kfdc_inst) : list (edge * Q) :=
  if c_scale_free I && negb (c_int I) then map (fun eq => (fst eq, qceil (snd eq / flow_unit I))) (c_flow I)
  else if c_scale_free I then map (fun eq => (fst eq, qceil (snd eq))) (c_flow I)
  else c_flow I.
Definition kfdc_rep_default (I : kfdc_inst) : Q :=
  if c_scale_free I && negb (c_int I) then qceil (kfdc_wmax I / flow_unit I)
  else if c_scale_free I then qceil (kfdc_wmax I) else kfdc_wmax I.

Definition kfdc_walk (I : kfdc_inst) : walk_inst :=
  {| w_graph := c_graph I; w_k := c_k I; w_rep := kfdc_rep I; w_rep_default := kfdc_rep_default I;
     w_cons := c_cons I; w_cov := c_cov I; w_opts := c_opts I;
     w_safe_lists := c_safe_lists I; w_fix := c_fix I |}.

Definition pvar (e : edge) (i : N) : var := Pi (fst e) (snd e) i.
(* the `ub` handed to add_integer_continuous_product_constraint *)
Definition prod_ub (I : kfdc_inst) (e : edge) : Q :=
  if c_scale_free I then qmax (kfdc_wmax I) (cap (kfdc_walk I) e) else kfdc_wmax I.

(* which (edge, layer) pairs get the full bit-expansion product *)
Definition prod_kind (I : kfdc_inst) (e : edge) (i : N) : N :=
  if mem_ei e i (zero_set (kfdc_walk I)) then 0%N
  else if mem_ei e i (one_set (kfdc_walk I)) then 1%N else 2%N.

Definition kfdc_cols (I : kfdc_inst) : list col :=
  let G := c_graph I in let k := c_k I in let wm := kfdc_wmax I in
  flat_map (fun i => map (fun e => wcol_ (pvar e i) wm (c_int I)) (g_edges G)) (layers k) ++
  map (fun i => wcol_ (W i) wm (c_int I)) (layers k) ++
  flat_map (fun e => flat_map (fun i =>
      if (prod_kind I e i =? 2)%N then intprod_cols (pvar e i) 0%Q (prod_ub I e) (num_bits (prod_ub I e)) else []) (layers k)) (kept_edges I).

Definition kfdc_prod_rows (I : kfdc_inst) (e : edge) (i : N) : list row :=
  let wm := kfdc_wmax I in
  if (prod_kind I e i =? 0)%N then [mkrow [(pvar e i, 1%Q)] SEq 0%Q]
  else if (prod_kind I e i =? 1)%N then [mkrow [(pvar e i, 1%Q); (W i, (- (1))%Q)] SEq 0%Q]
  else intprod_rows (evar e i) (W i) (pvar e i) 0%Q (prod_ub I e) (num_bits (prod_ub I e)).

Definition kfdc_edge_rows (I : kfdc_inst) (e : edge) : list row :=
  flat_map (kfdc_prod_rows I e) (layers (c_k I)) ++
  [ mkrow (map (fun i => (pvar e i, 1%Q)) (layers (c_k I))) SEq (flow_of I e) ].

Definition kfdc_given_rows (I : kfdc_inst) : list row :=
  match c_given I with
  | None => []
  | Some ws => map (fun iw => mkrow [(W (fst iw), 1%Q)] SEq (snd iw)) (zipn 0 ws)
  end.

Definition kfdc_rows (I : kfdc_inst) : list row :=
  flat_map (kfdc_edge_rows I) (kept_edges I) ++ kfdc_given_rows I.

Definition encode_kfdc (I : kfdc_inst) : milp :=
  {| cols := base_wcols (kfdc_walk I) ++ kfdc_cols I;
     rows := base_wrows (kfdc_walk I) ++ kfdc_rows I;
     obj := match c_given I with None => [] | Some _ => all_edge_terms (c_graph I) (c_k I) end;
     maximize := false |}.

