(* Search.v — executable, faithful models of the "solved" flag of the k-models and of the
   search loops over k (C13; reused by C03, C04, C09, C15).

   What is modelled (pinned tree, read off the sources):
     SolverWrapper.optimize / get_model_status / did_timeout      -> raw, status_of
     AbstractPathModelDAG.solve / is_solved / check_is_solved,
     AbstractWalkModelDiGraph.solve, get_solution / get_objective_value of the k-models
                                                                  -> kcfg, kstate, kstep, kruns
     MinGenSet.solve                                              -> mgs_solve
     MinFlowDecomp.solve (+ get_lowerbound_k, _get_lowerbound_with_min_gen_set,
                          _solve_with_given_weights)              -> mfd_solve
     MinFlowDecompCycles.solve (same helpers, elapsed-time exit)  -> mfdc_solve
     MinPathCover.solve, MinPathCoverCycles.solve                 -> mpc_solve, mpcc_solve
     NumPathsOptimization.solve                                   -> npo_solve

   A search loop is a function from the sequence of solver outcomes, one per call of
   SolverWrapper.optimize in the order the implementation makes them (sub-models included), to
   the observable result.  Everything that is not a solver status but steers the loop (lower
   bound computed without a solver, number of edges, for which k the greedy algorithm already
   delivers a solution, number of paths of the guessed-weights solution, objective values) is a
   parameter.  The two deviations of the pinned code from property C13 are explicit switches:
     mgs_skips      MinGenSet.solve goes on with k+1 after ANY non-optimal status     (DESIGN §6 #14;
                    repaired in /repo commit 03febc7: the faithful model has it off)
     exit_on_fail   MinFlowDecomp calls exit(0) when its MinGenSet model is unsolved   (DESIGN §6 #15;
                    repaired in /repo commit 78680dc: the faithful model has it off)
   [true] = the code as it stands, [false] = corrected.  The upper ends of the ranges are modelled
   as they are (MinGenSet: mgs_upper); for the four graph searches it is a switch
   upper_excl (DESIGN §6 #1: exclusive on the pinned tree, inclusive |E| since /repo commit 67a34b1).
   Both belong to C03/C09/C15, not to C13: every C13 theorem holds for either setting. *)
From Coq Require Import List Bool Arith Lia QArith Qabs.
Import ListNotations.
Local Close Scope Q_scope.

(* ---------------------------------------------------------------- solver outcome *)
Inductive status := Optimal | Infeasible | TimeLimit | Other.

(* what one call of SolverWrapper.optimize leaves behind: the backend's model status and the flag
   set by the SIGALRM handler of the custom time-out *)
Record raw := mkraw { native : status; custom_timeout : bool }.

(* SolverWrapper.get_model_status: "if self.did_timeout: return 'kTimeLimit'" comes first *)
Definition status_of (r : raw) : status := if custom_timeout r then TimeLimit else native r.

Definition conclusive (s : status) : bool := match s with Optimal | Infeasible => true | _ => false end.
Definition is_optimal (s : status) : bool := match s with Optimal => true | _ => false end.

(* SolverWrapper.optimize has two routes: [Direct] (time_limit infinite or use_also_custom_timeout False:
   self.solver.optimize()) and [WithAlarm] (finite time_limit AND use_also_custom_timeout: _run_with_timeout
   arms SIGALRM, whose handler sets did_timeout).  Either way optimize() first resets did_timeout and then
   runs the backend on the model as it is now; nothing of an earlier run survives.  [swrun] = what happened
   in one run: the backend's status and whether the alarm fired. *)
Inductive route := Direct | WithAlarm.
Record swrun := mkrun { run_native : status; run_alarm : bool }.
Definition outcome_of (rt : route) (x : swrun) : raw :=
  mkraw (run_native x) (match rt with WithAlarm => run_alarm x | Direct => false end).
(* state of one wrapper object as far as the status is concerned = outcome of its last run *)
Definition sw_optimize (rt : route) (st : option raw) (x : swrun) : option raw := Some (outcome_of rt x).
Definition sw_runs (rt : route) (st : option raw) (xs : list swrun) : option raw := fold_left (sw_optimize rt) xs st.
Definition sw_status (st : option raw) : option status := option_map status_of st.   (* None: never optimised *)

(* ---------------------------------------------------------------- the solved flag of a k-model *)
(* external        : the constructor already has a solution (kFlowDecomp's greedy shortcut passes
                     "external_solution_paths"): _is_solved = True from the start, no solver is created
   obj_fills_cache : get_objective_value calls get_solution (all k-models except kPathCover[Cycles])
   (The search classes keep their own flag: False at construction, set_solved() on success and
   never cleared (NumPathsOptimization too, since /repo c4fc05d).  Their getters are compared directly
   in the engine.) *)
Record kcfg := mkcfg { external : bool; obj_fills_cache : bool }.
Record kstate := mkst { solved : bool; cached : bool }.
Inductive kop := Solve (r : raw) | GetSolution | GetObjective | IsSolvedQ.
Inductive kout := RetBool (b : bool) | RetData | Raise.

Definition kinit (c : kcfg) : kstate := mkst (external c) (external c).

Definition kstep (c : kcfg) (st : kstate) (o : kop) : kstate * kout :=
  match o with
  | Solve r =>
      if external c then (mkst true (cached st), RetBool true)          (* no solver call at all *)
      else if is_optimal (status_of r)
           (* _is_solved = True; the log line evaluates self.get_objective_value() *)
           then (mkst true (cached st || obj_fills_cache c), RetBool true)
           else (mkst false (cached st), RetBool false)
  | GetSolution =>
      (* "if self._solution is not None: return it" precedes check_is_solved *)
      if cached st then (st, RetData)
      else if solved st then (mkst true true, RetData) else (st, Raise)
  | GetObjective =>
      if solved st then (mkst true (cached st || obj_fills_cache c), RetData) else (st, Raise)
  | IsSolvedQ => (st, RetBool (solved st))
  end.

Fixpoint kruns (c : kcfg) (st : kstate) (ops : list kop) : kstate * list kout :=
  match ops with
  | [] => (st, [])
  | o :: r => let '(st1, x) := kstep c st o in let '(st2, xs) := kruns c st1 r in (st2, x :: xs)
  end.

(* number of solver invocations a history makes *)
Definition kinvocations (c : kcfg) (ops : list kop) : nat :=
  if external c then 0 else length (filter (fun o => match o with Solve _ => true | _ => false end) ops).

(* ---------------------------------------------------------------- search results *)
Inductive result :=
  | Solved (k : nat)      (* solve() returned True, model of size k *)
  | NotSolved             (* solve() returned False *)
  | Exited                (* the interpreter was left with exit(0) *)
  | Crashed               (* an exception escaped (ZeroDivisionError in NumPathsOptimization) *)
  | Starved.              (* the given outcome sequence was too short — excluded in the theorems *)

(* used = number of solver invocations made; aux = how many of them were made before the main
   loop (MinGenSet lower bound, guessed-weights model); lbk = first k of the main loop *)
Record outcome := mkout { so_res : result; used : nat; aux : nat; lbk : nat }.

(* ---------------------------------------------------------------- the common loop body
   for i in range(lb, |E|):  [model for i obtained without a solver?]  model.solve()
       [MinFlowDecompCycles only: if elapsed > time_limit: return False]
       if model.is_solved(): ... return True
       elif status != infeasible: return False
   return False
   presolved i : the model for i needs no solver (given-weights model with exactly i paths, greedy)
   over n      : the wall clock exceeded time_limit when n invocations had been made *)
Fixpoint kloop (presolved : nat -> bool) (over : nat -> bool) (ks : list nat) (sts : list raw) (n : nat)
  : result * nat :=
  match ks with
  | [] => (NotSolved, n)
  | k :: ks' =>
      if presolved k then (if over n then (NotSolved, n) else (Solved k, n))
      else match sts with
           | [] => (Starved, n)
           | r :: sts' =>
               if over (S n) then (NotSolved, S n)
               else match status_of r with
                    | Optimal => (Solved k, S n)
                    | Infeasible => kloop presolved over ks' sts' (S n)
                    | _ => (NotSolved, S n)
                    end
           end
  end.

Definition never : nat -> bool := fun _ => false.
Definition krange (lb ub : nat) : list nat := seq lb (ub - lb).     (* Python range(lb, ub) *)
(* range(lb, |E|) before /repo 67a34b1, range(lb, |E| + 1) since *)
Definition upper (upper_excl : bool) (nedges : nat) : nat := if upper_excl then nedges else S nedges.

(* ---------------------------------------------------------------- MinGenSet.solve
   for k in range(lowerbound, max(lowerbound+1, len(initial_numbers)+2)):
       optimize(); if status == "kOptimal": ... return True
       else: statistics; [since /repo 03febc7: if status != infeasible: return False]
   return False
   mgs_skips = true is the loop before 03febc7 (every non-optimal status skipped) *)
Fixpoint mgs_loop (mgs_skips : bool) (ks : list nat) (sts : list raw) (n : nat) : result * nat :=
  match ks with
  | [] => (NotSolved, n)
  | k :: ks' =>
      match sts with
      | [] => (Starved, n)
      | r :: sts' =>
          match status_of r with
          | Optimal => (Solved k, S n)
          | Infeasible => mgs_loop mgs_skips ks' sts' (S n)
          | _ => if mgs_skips then mgs_loop mgs_skips ks' sts' (S n) else (NotSolved, S n)
          end
      end
  end.

(* exclusive upper end of the range: max(lowerbound+1, len(initial_numbers)) on the pinned tree (DESIGN §6 #13),
   max(lowerbound+1, len(initial_numbers)+2) since /repo commit 2966290 (n+1 elements always suffice) *)
Definition mgs_upper (lb nnumbers : nat) : nat := Nat.max (lb + 1) (nnumbers + 2).
(* since /repo 883b781 partition constraints extend the range: the size that enters mgs_upper is
   len(initial_numbers) + sum(len(c) - 1 for c in partition_constraints); everywhere below the parameter
   called nnumbers / nweights is this size *)
Definition mgs_size (ninitial extra_cuts : nat) : nat := ninitial + extra_cuts.
(* since /repo 2a5d8e1 the search starts at first_k = max(1, lowerbound) (a lower bound below 1 must not start with the
   empty model k = 0) and the +1 of the upper end refers to first_k: run_mgs (the stand-alone MinGenSet.solve) hands mgs_first lb to
   mgs_solve, whose theorems hold for every start; lb_phase is called by MinFlowDecomp[Cycles] with lower bounds >= 1, for
   which mgs_first is the identity *)
Definition mgs_first (lb : nat) : nat := Nat.max 1 lb.
Definition mgs_range (lb nnumbers : nat) : list nat := krange lb (mgs_upper lb nnumbers).

Definition mgs_solve (mgs_skips : bool) (lb nnumbers : nat) (sts : list raw) : outcome :=
  let '(r, n) := mgs_loop mgs_skips (mgs_range lb nnumbers) sts 0 in mkout r n 0 lb.

(* ---------------------------------------------------------------- lower-bound phase of
   MinFlowDecomp / MinFlowDecompCycles.get_lowerbound_k: lb0 (given bound, log2, width — no solver)
   and, with use_min_gen_set_lowerbound, max(lb0, size of a minimum generating set) *)
Inductive lbres := LB (lb : nat) (n : nat) | LExit (n : nat) | LStarved (n : nat).

Definition lb_phase (mgs_skips exit_on_fail use_mgs : bool) (lb0 nweights : nat) (sts : list raw) : lbres :=
  if use_mgs then
    match mgs_loop mgs_skips (mgs_range lb0 nweights) sts 0 with
    | (Solved kg, n) => LB (Nat.max lb0 kg) n
    | (Starved, n) => LStarved n
    | (_, n) => if exit_on_fail then LExit n else LB lb0 n
    end
  else LB lb0 0.

(* ---------------------------------------------------------------- MinFlowDecomp / ...Cycles *)
Record fd_params := mkfd {
  lb0 : nat;                 (* lower bound before MinGenSet *)
  upper_excl : bool;         (* range(lb, |E|) instead of range(lb, |E| + 1) *)
  nedges : nat;              (* G.number_of_edges() *)
  use_mgs : bool;            (* optimization option use_min_gen_set_lowerbound *)
  nweights : nat;            (* mgs_size (number of distinct flow values) (extra cuts of the partition constraints) *)
  guessed : bool;            (* optimization option optimize_with_guessed_weights *)
  gw_paths : nat;            (* non-empty paths/walks of the guessed-weights solution, if it is solved *)
  greedy : nat -> bool;      (* kFlowDecomp(k) is solved by its constructor (always false for cycles) *)
  over : nat -> bool         (* MinFlowDecompCycles: elapsed > time_limit after n invocations *)
}.

Definition given_match (given : option nat) (k : nat) : bool :=
  match given with Some g => Nat.eqb g k | None => false end.

(* order of solver invocations: MinGenSet models (if any), guessed-weights model (if any), main loop *)
Definition fd_solve (mgs_skips exit_on_fail : bool) (P : fd_params) (sts : list raw) : outcome :=
  match lb_phase mgs_skips exit_on_fail (use_mgs P) (lb0 P) (nweights P) sts with
  | LExit n => mkout Exited n n (lb0 P)
  | LStarved n => mkout Starved n n (lb0 P)
  | LB lb n1 =>
      let sts1 := skipn n1 sts in
      if guessed P then
        match sts1 with
        | [] => mkout Starved n1 n1 lb
        | r :: sts2 =>
            (* _given_weights_model is kept only if it is solved *)
            let given := if is_optimal (status_of r) then Some (gw_paths P) else None in
            let '(rs, n) := kloop (fun k => given_match given k || greedy P k) (over P)
                                  (krange lb (upper (upper_excl P) (nedges P))) sts2 (S n1) in
            mkout rs n (S n1) lb
        end
      else
        let '(rs, n) := kloop (greedy P) (over P) (krange lb (upper (upper_excl P) (nedges P))) sts1 n1 in
        mkout rs n n1 lb
  end.

(* A later call of solve() on the SAME object.  What a run leaves behind that steers the next one:
   the cached lower bound (_lowerbound_k; get_lowerbound_k() is not recomputed, hence no MinGenSet
   invocations any more) and a solved guessed-weights model (_given_weights_model is only replaced by a
   solved one).  Nothing else: in particular not at which k, or with which status, the earlier run stopped. *)
Definition fd_resolve (P : fd_params) (lb : nat) (g0 : option nat) (sts : list raw) : outcome :=
  if guessed P then
    match sts with
    | [] => mkout Starved 0 0 lb
    | r :: sts2 =>
        let given := if is_optimal (status_of r) then Some (gw_paths P) else g0 in
        let '(rs, n) := kloop (fun k => given_match given k || greedy P k) (over P)
                              (krange lb (upper (upper_excl P) (nedges P))) sts2 1 in
        mkout rs n 1 lb
    end
  else
    let '(rs, n) := kloop (greedy P) (over P) (krange lb (upper (upper_excl P) (nedges P))) sts 0 in
    mkout rs n 0 lb.

(* ---------------------------------------------------------------- subgraph-scanning lower bound
   MinFlowDecomp._get_lowerbound_with_subgraph_scanning (option use_subgraph_scanning_lowerbound, graphs with
   more than 21 nodes): for every window of 20 topologically consecutive nodes a NESTED MinFlowDecomp (same
   options, scanning off, lowerbound_k = current bound) is solved; a window that is solved with k paths raises
   the bound to max(bound, k); a window that is not solved contributes nothing.  Each window is a full
   fd_solve (own MinGenSet / guessed-weights / main loop) consuming its own invocations. *)
Fixpoint scan (mgs_skips exit_on_fail : bool) (ws : list fd_params) (sts : list raw) (bound n : nat) : lbres :=
  match ws with
  | [] => LB bound n
  | W :: ws' =>
      let o := fd_solve mgs_skips exit_on_fail W sts in
      match so_res o with
      | Starved => LStarved (n + used o)
      | Exited => LExit (n + used o)
      | Solved k => scan mgs_skips exit_on_fail ws' (skipn (used o) sts) (Nat.max bound k) (n + used o)
      | _ => scan mgs_skips exit_on_fail ws' (skipn (used o) sts) bound (n + used o)
      end
  end.

(* MinFlowDecomp.solve with the scanning option: MinGenSet models, then the windows, then (guessed-weights
   model and) the main loop from max(lower bound so far, best window bound) *)
Definition mfd_scan_solve (mgs_skips exit_on_fail : bool) (P : fd_params) (ws : list fd_params) (sts : list raw) : outcome :=
  match lb_phase mgs_skips exit_on_fail (use_mgs P) (lb0 P) (nweights P) sts with
  | LExit n => mkout Exited n n (lb0 P)
  | LStarved n => mkout Starved n n (lb0 P)
  | LB lb1 n1 =>
      match scan mgs_skips exit_on_fail ws (skipn n1 sts) 0 0 with
      | LExit n2 => mkout Exited (n1 + n2) (n1 + n2) lb1
      | LStarved n2 => mkout Starved (n1 + n2) (n1 + n2) lb1
      | LB b n2 =>
          let lb2 := Nat.max lb1 b in
          let r := fd_resolve (mkfd (lb0 P) (upper_excl P) (nedges P) (use_mgs P) (nweights P) (guessed P) (gw_paths P) (greedy P) never)
                              lb2 None (skipn (n1 + n2) sts) in
          mkout (so_res r) (n1 + n2 + used r) (n1 + n2 + aux r) lb2
      end
  end.

(* MinFlowDecomp: no elapsed-time exit; MinGenSet failure -> exit(0) (switch) *)
Definition mfd_solve (mgs_skips exit_on_fail : bool) (P : fd_params) (sts : list raw) : outcome :=
  fd_solve mgs_skips exit_on_fail
           (mkfd (lb0 P) (upper_excl P) (nedges P) (use_mgs P) (nweights P) (guessed P) (gw_paths P) (greedy P) never) sts.

(* MinFlowDecompCycles: no greedy; MinGenSet failure is ignored (lower bound stays lb0) *)
Definition mfdc_solve (mgs_skips : bool) (P : fd_params) (sts : list raw) : outcome :=
  fd_solve mgs_skips false
           (mkfd (lb0 P) (upper_excl P) (nedges P) (use_mgs P) (nweights P) (guessed P) (gw_paths P) never (over P)) sts.

(* ---------------------------------------------------------------- MinPathCover / MinPathCoverCycles *)
Definition mpc_solve (upper_excl : bool) (lb nedges : nat) (sts : list raw) : outcome :=
  let '(r, n) := kloop never never (krange lb (upper upper_excl nedges)) sts 0 in mkout r n 0 lb.
Definition mpcc_solve (upper_excl : bool) (lb nedges : nat) (sts : list raw) : outcome :=
  let '(r, n) := kloop never never (krange lb (upper upper_excl nedges)) sts 0 in mkout r n 0 lb.

(* ---------------------------------------------------------------- NumPathsOptimization.solve *)
Record npo_params := mknpo {
  kstart : nat;               (* max(min_num_paths, get_lowerbound_k()) *)
  kmax : nat;                 (* max_num_paths (inclusive) *)
  first_feasible : bool;      (* truthiness of stop_on_first_feasible *)
  delta_abs : option Q;       (* stop_on_delta_abs *)
  delta_rel : option Q;       (* stop_on_delta_rel *)
  npo_ext : nat -> bool;      (* model_type(k) is solved without a solver call *)
  npo_obj : nat -> Q;         (* objective value of the solved model for k *)
  npo_over : nat -> bool      (* elapsed > time_limit after n invocations *)
}.

(* Python truthiness of an optional number: None and 0 are false *)
Definition truthy (d : option Q) : option Q :=
  match d with Some x => if Qeq_bool x 0 then None else Some x | None => None end.

Inductive npo_step := Stop | Crash | Cont (prev : option Q).

(* the body of "if model.is_solved():" — previous_solution_objective_value is only ever set once *)
Definition npo_check (P : npo_params) (prev : option Q) (cur : Q) : npo_step :=
  if first_feasible P then Stop else
  let after_abs :=
    match truthy (delta_abs P) with
    | None => Cont prev
    | Some d => match prev with
                | None => Cont (Some cur)
                | Some p => if Qle_bool (Qabs (p - cur)) d then Stop else Cont prev
                end
    end in
  match after_abs with
  | Stop => Stop | Crash => Crash
  | Cont prev1 =>
      match truthy (delta_rel P) with
      | None => Cont prev1
      | Some d => match prev1 with
                  | None => Cont (Some cur)
                  | Some p => if Qeq_bool p 0 then Crash           (* ZeroDivisionError *)
                              else if Qle_bool (Qabs (p - cur) / p) d then Stop else Cont prev1
                  end
      end
  end.

Fixpoint npo_loop (P : npo_params) (ks : list nat) (sts : list raw) (prev : option Q) (n : nat)
  : result * nat :=
  match ks with
  | [] => (NotSolved, n)                                 (* "infeasible" or "unbounded" *)
  | k :: ks' =>
      if npo_ext P k then
        match npo_check P prev (npo_obj P k) with
        | Stop => (Solved k, n)
        | Crash => (Crashed, n)
        | Cont prev' => if npo_over P n then (NotSolved, n) else npo_loop P ks' sts prev' n
        end
      else
        match sts with
        | [] => (Starved, n)
        | r :: sts' =>
            if is_optimal (status_of r) then
              match npo_check P prev (npo_obj P k) with
              | Stop => (Solved k, S n)
              | Crash => (Crashed, S n)
              | Cont prev' => if npo_over P (S n) then (NotSolved, S n) else npo_loop P ks' sts' prev' (S n)
              end
            else (* an unsolved model is skipped whatever its status *)
              if npo_over P (S n) then (NotSolved, S n) else npo_loop P ks' sts' prev (S n)
        end
  end.

Definition npo_solve (P : npo_params) (sts : list raw) : outcome :=
  let '(r, n) := npo_loop P (krange (kstart P) (kmax P + 1)) sts None 0 in mkout r n 0 (kstart P).

(* ---------------------------------------------------------------- wrappers for extraction
   (functions nat -> bool / nat -> Q are given as lists; default false / 0) *)
Definition of_list (l : list bool) : nat -> bool := fun k => nth k l false.
Definition q_of_list (l : list Q) : nat -> Q := fun k => nth k l 0%Q.

Definition run_kmodel (ext objfill : bool) (ops : list kop) : list kout * nat :=
  let c := mkcfg ext objfill in (snd (kruns c (kinit c) ops), kinvocations c ops).

Definition run_wrapper (alarm_route : bool) (xs : list swrun) : list (option status) :=
  let rt := if alarm_route then WithAlarm else Direct in
  (* status reported after each run of a history on one wrapper *)
  map (fun i => sw_status (sw_runs rt None (firstn (S i) xs))) (seq 0 (length xs)).
Definition run_mgs (skips : bool) (lb n cuts : nat) (sts : list raw) : outcome := mgs_solve skips (mgs_first lb) (mgs_size n cuts) sts.
Definition run_mfd (skips exits excl : bool) (lb0 ne : nat) (umgs : bool) (nw cuts : nat) (gu : bool) (gw : nat)
  (gr : list bool) (sts : list raw) : outcome :=
  mfd_solve skips exits (mkfd lb0 excl ne umgs (mgs_size nw cuts) gu gw (of_list gr) never) sts.
Definition run_mfdc (skips excl : bool) (lb0 ne : nat) (umgs : bool) (nw : nat) (gu : bool) (gw : nat)
  (ov : list bool) (sts : list raw) : outcome :=
  mfdc_solve skips (mkfd lb0 excl ne umgs nw gu gw never (of_list ov)) sts.
Definition run_fd2 (excl : bool) (lb ne : nat) (gu : bool) (gw : nat) (g0 : option nat)
  (gr ov : list bool) (sts : list raw) : outcome :=
  fd_resolve (mkfd lb excl ne false 0 gu gw (of_list gr) (of_list ov)) lb g0 sts.
(* windows as tuples (lb0, ne, use_mgs, nweights, guessed, gw_paths, greedy) *)
Definition win_params (excl : bool) (w : nat * nat * bool * nat * bool * nat * list bool) : fd_params :=
  let '(l0, ne, um, nw, gu, gw, gr) := w in mkfd l0 excl ne um nw gu gw (of_list gr) never.
Definition run_mfd_scan (skips exits excl : bool) (lb0 ne : nat) (umgs : bool) (nw cuts : nat) (gu : bool) (gw : nat)
  (gr : list bool) (ws : list (nat * nat * bool * nat * bool * nat * list bool)) (sts : list raw) : outcome :=
  mfd_scan_solve skips exits (mkfd lb0 excl ne umgs (mgs_size nw cuts) gu gw (of_list gr) never)
                 (map (win_params excl) ws) sts.
Definition run_mpc (excl : bool) (lb ne : nat) (sts : list raw) : outcome := mpc_solve excl lb ne sts.
Definition run_mpcc (excl : bool) (lb ne : nat) (sts : list raw) : outcome := mpcc_solve excl lb ne sts.
Definition run_npo (ks km : nat) (ff : bool) (da dr : option Q) (ext : list bool) (obj : list Q)
  (ov : list bool) (sts : list raw) : outcome :=
  npo_solve (mknpo ks km ff da dr (of_list ext) (q_of_list obj) (of_list ov)) sts.
