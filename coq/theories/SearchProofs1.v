(* SearchProofs1.v — the solved flag of the k-models and the generic loop lemmas (C13). *)
From Coq Require Import List Bool Arith Lia.
Import ListNotations.
From FP Require Import Search.
Set Default Timeout 30.

(* ------------------------------------------------------------------ status function *)
Lemma custom_timeout_is_timelimit r : custom_timeout r = true -> status_of r = TimeLimit.
Proof. unfold status_of. intros ->. reflexivity. Qed.

Lemma custom_timeout_not_optimal r : custom_timeout r = true -> is_optimal (status_of r) = false.
Proof. intros H. rewrite (custom_timeout_is_timelimit _ H). reflexivity. Qed.

Lemma optimal_conclusive s : is_optimal s = true -> conclusive s = true.
Proof. destruct s; simpl; congruence. Qed.

(* the status a wrapper reports after any history of runs (model changes in between included) is that of
   its LAST run, on either route: no earlier status survives a re-solve *)
Theorem sw_status_is_last_run rt st xs x :
  sw_status (sw_runs rt st (xs ++ [x])) = Some (status_of (outcome_of rt x)).
Proof. unfold sw_runs. rewrite fold_left_app. reflexivity. Qed.

Corollary sw_alarm_route_timelimit st xs x :
  run_alarm x = true -> sw_status (sw_runs WithAlarm st (xs ++ [x])) = Some TimeLimit.
Proof. intros H. rewrite sw_status_is_last_run. unfold outcome_of, status_of. simpl. rewrite H. reflexivity. Qed.

Corollary sw_direct_route_native st xs x :
  sw_status (sw_runs Direct st (xs ++ [x])) = Some (run_native x).
Proof. rewrite sw_status_is_last_run. reflexivity. Qed.

(* ------------------------------------------------------------------ k-model machine *)
Fixpoint last_solve (ops : list kop) : option status :=
  match ops with
  | [] => None
  | o :: r => match last_solve r with
              | Some s => Some s
              | None => match o with Solve x => Some (status_of x) | _ => None end
              end
  end.

Definition has_optimal (ops : list kop) : bool :=
  existsb (fun o => match o with Solve x => is_optimal (status_of x) | _ => false end) ops.

Lemma kruns_cons c st o r :
  kruns c st (o :: r) = (fst (kruns c (fst (kstep c st o)) r), snd (kstep c st o) :: snd (kruns c (fst (kstep c st o)) r)).
Proof. simpl. destruct (kstep c st o) as [st1 x]. simpl. destruct (kruns c st1 r). reflexivity. Qed.

Lemma kruns_app c ops1 : forall st ops2,
  kruns c st (ops1 ++ ops2) =
  (fst (kruns c (fst (kruns c st ops1)) ops2), snd (kruns c st ops1) ++ snd (kruns c (fst (kruns c st ops1)) ops2)).
Proof.
  induction ops1 as [|o r IH]; intros st ops2.
  - simpl. destruct (kruns c st ops2). reflexivity.
  - rewrite <- app_comm_cons. rewrite !kruns_cons. cbn [fst snd]. rewrite IH. reflexivity.
Qed.

Lemma kstep_getter_solved c st o :
  (forall x, o <> Solve x) -> solved (fst (kstep c st o)) = solved st.
Proof.
  intros H. destruct o as [x| | |]; [exfalso; apply (H x); reflexivity| | |]; simpl.
  - destruct (cached st); [reflexivity|]. destruct (solved st) eqn:E; simpl; congruence.
  - destruct (solved st) eqn:E; simpl; congruence.
  - reflexivity.
Qed.

(* is_solved() after any history = "the last solve() ended with status optimal" *)
Theorem solved_only_optimal c : external c = false -> forall ops st,
  solved (fst (kruns c st ops)) = match last_solve ops with Some s => is_optimal s | None => solved st end.
Proof.
  intros Hc. induction ops as [|o r IH]; intros st; [reflexivity|].
  rewrite kruns_cons. cbn [fst]. rewrite IH. cbn [last_solve].
  destruct (last_solve r); [reflexivity|].
  destruct o as [x| | |].
  - simpl. rewrite Hc. destruct (is_optimal (status_of x)); reflexivity.
  - apply kstep_getter_solved; congruence.
  - apply kstep_getter_solved; congruence.
  - apply kstep_getter_solved; congruence.
Qed.

(* in particular a custom time-out on the last solve leaves the model unsolved whatever HiGHS said *)
Corollary custom_timeout_never_solved c : external c = false -> forall ops st x,
  custom_timeout x = true -> solved (fst (kruns c st (ops ++ [Solve x]))) = false.
Proof.
  intros Hc ops st x Hx. rewrite kruns_app. cbn [fst]. rewrite (solved_only_optimal c Hc [Solve x]).
  simpl. apply custom_timeout_not_optimal, Hx.
Qed.

(* one step: data comes out only of a solved model or of the solution cache *)
Theorem data_only_when_solved c st o :
  snd (kstep c st o) = RetData ->
  match o with
  | GetObjective => solved st = true
  | GetSolution => solved st = true \/ cached st = true
  | _ => False
  end.
Proof.
  destruct o as [x| | |]; simpl.
  - destruct (external c); [discriminate|]. destruct (is_optimal (status_of x)); discriminate.
  - destruct (cached st); [intros _; right; reflexivity|]. destruct (solved st); [intros _; left; reflexivity|discriminate].
  - destruct (solved st); [reflexivity|discriminate].
  - discriminate.
Qed.

(* solved or cached can only become true through a solve() that ended optimal *)
Lemma flags_need_optimal c : external c = false -> forall ops st,
  let st' := fst (kruns c st ops) in
  solved st' = true \/ cached st' = true ->
  (solved st = true \/ cached st = true) \/ has_optimal ops = true.
Proof.
  intros Hc. induction ops as [|o r IH]; intros st; cbn zeta.
  - simpl. intros H. left. exact H.
  - rewrite kruns_cons. cbn [fst]. intros H. apply IH in H. cbn [has_optimal existsb].
    destruct H as [H|H]; [|right; rewrite orb_true_iff; right; exact H].
    destruct o as [x| | |]; simpl in H.
    + rewrite Hc in H. destruct (is_optimal (status_of x)) eqn:E.
      * right. reflexivity.
      * simpl in H. left. destruct H as [H|H]; [discriminate|right; exact H].
    + left. destruct (cached st) eqn:E1; [right; reflexivity|].
      destruct (solved st) eqn:E2; [left; reflexivity|]. simpl in H. rewrite E1, E2 in H. exact H.
    + left. destruct (solved st) eqn:E2; [left; reflexivity|]. simpl in H. rewrite E2 in H. exact H.
    + left. exact H.
Qed.

(* whole histories from a freshly constructed model: whenever a getter returns data, an earlier
   solve() of this very model ended with status optimal *)
Theorem data_only_after_optimal c : external c = false -> forall ops1 o ops2 outs,
  snd (kruns c (kinit c) (ops1 ++ o :: ops2)) = outs ->
  nth_error outs (length ops1) = Some RetData ->
  has_optimal ops1 = true.
Proof.
  intros Hc ops1 o ops2 outs <- Hn. rewrite kruns_app in Hn. cbn [snd] in Hn.
  assert (Hl : length (snd (kruns c (kinit c) ops1)) = length ops1).
  { clear. generalize (kinit c). induction ops1 as [|a r IH]; intros st; [reflexivity|].
    rewrite kruns_cons. simpl. f_equal. apply IH. }
  rewrite nth_error_app2 in Hn by lia. rewrite Hl, Nat.sub_diag, kruns_cons in Hn. simpl in Hn.
  injection Hn as Hn. apply data_only_when_solved in Hn.
  assert (Hf : solved (fst (kruns c (kinit c) ops1)) = true \/ cached (fst (kruns c (kinit c) ops1)) = true).
  { destruct o; try contradiction; [exact Hn|left; exact Hn]. }
  apply (flags_need_optimal c Hc) in Hf. destruct Hf as [[H|H]|H]; [| |exact H];
    unfold kinit in H; simpl in H; congruence.
Qed.

(* before any successful solve every getter raises and is_solved() is False *)
Theorem getters_raise_before_solved c : external c = false -> forall ops1 o ops2,
  has_optimal ops1 = false ->
  nth_error (snd (kruns c (kinit c) (ops1 ++ o :: ops2))) (length ops1) =
    Some (match o with
          | Solve x => RetBool (is_optimal (status_of x))
          | IsSolvedQ => RetBool false
          | _ => Raise end).
Proof.
  intros Hc ops1 o ops2 Hno. rewrite kruns_app. cbn [snd].
  assert (Hl : length (snd (kruns c (kinit c) ops1)) = length ops1).
  { clear. generalize (kinit c). induction ops1 as [|a r IH]; intros st; [reflexivity|].
    rewrite kruns_cons. simpl. f_equal. apply IH. }
  rewrite nth_error_app2 by lia. rewrite Hl, Nat.sub_diag, kruns_cons. simpl. f_equal.
  set (st := fst (kruns c (kinit c) ops1)).
  assert (Hs : solved st = false /\ cached st = false).
  { destruct (solved st) eqn:E1; destruct (cached st) eqn:E2; try (split; reflexivity);
      exfalso;
      (assert (Hf : solved st = true \/ cached st = true) by (rewrite ?E1, ?E2; auto));
      apply (flags_need_optimal c Hc) in Hf; destruct Hf as [[H|H]|H];
      unfold kinit in H; simpl in H; congruence. }
  destruct Hs as [Hs1 Hs2].
  destruct o as [x| | |]; simpl; rewrite ?Hc, ?Hs1, ?Hs2; try reflexivity.
  destruct (is_optimal (status_of x)); reflexivity.
Qed.

(* ------------------------------------------------------------------ list helpers *)
Lemma nth_error_skipn' {A} (l : list A) : forall n i, nth_error (skipn n l) i = nth_error l (n + i).
Proof. induction l as [|a l IH]; intros [|n] i; simpl; try reflexivity; [destruct i; reflexivity|apply IH]. Qed.

Lemma seq_split a : forall l1 n k l2, seq a n = l1 ++ k :: l2 -> k = a + length l1 /\ length l1 < n.
Proof.
  intros l1. revert a. induction l1 as [|x l1 IH]; intros a n k l2 H; destruct n as [|n]; simpl in H; try discriminate.
  - injection H as H _. simpl. lia.
  - injection H as _ H. apply IH in H. simpl. lia.
Qed.

Lemma krange_split lb ub l1 k l2 : krange lb ub = l1 ++ k :: l2 -> k = lb + length l1 /\ lb <= k < ub.
Proof. unfold krange. intros H. apply seq_split in H. lia. Qed.

(* ------------------------------------------------------------------ the common loop *)
Lemma kloop_used pre ov ks : forall sts n r m,
  kloop pre ov ks sts n = (r, m) -> n <= m <= n + length sts.
Proof.
  induction ks as [|k ks IH]; intros sts n r m H; simpl in H.
  - injection H as _ <-. lia.
  - destruct (pre k).
    + destruct (ov n); injection H as _ <-; lia.
    + destruct sts as [|x sts]; [injection H as _ <-; simpl; lia|].
      destruct (ov (S n)); [injection H as _ <-; simpl; lia|].
      destruct (status_of x); try (injection H as _ <-; simpl; lia).
      apply IH in H. simpl. lia.
Qed.

(* every invocation that was made and returned an inconclusive status ends the search unsolved *)
Lemma kloop_inconclusive pre ov ks : forall sts n p x r m,
  kloop pre ov ks sts n = (r, m) -> nth_error sts p = Some x -> conclusive (status_of x) = false ->
  n + p < m -> r = NotSolved.
Proof.
  induction ks as [|k ks IH]; intros sts n p x r m H Hn Hx Hp; simpl in H.
  - injection H as <- _. reflexivity.
  - destruct (pre k).
    + destruct (ov n); injection H as H1 H2; subst; [reflexivity|lia].
    + destruct sts as [|y sts]; [destruct p; discriminate|].
      destruct (ov (S n)); [injection H as <- _; reflexivity|].
      destruct p as [|p]; simpl in Hn.
      * injection Hn as ->. destruct (status_of x); simpl in Hx; try discriminate; injection H as <- _; reflexivity.
      * destruct (status_of y); try (injection H as H1 H2; subst; first [reflexivity|lia]).
        apply (IH sts (S n) p x r m H Hn Hx). lia.
Qed.

(* Solved k: k is in the range, every earlier k of the range was tried with a solver and found
   infeasible, k itself was proven optimal (or needed no solver), and the clock had not run out *)
Lemma kloop_sound pre ov ks : forall sts n k m,
  kloop pre ov ks sts n = (Solved k, m) ->
  exists ks1 ks2, ks = ks1 ++ k :: ks2 /\
    Forall (fun j => pre j = false) ks1 /\
    m = n + length ks1 + (if pre k then 0 else 1) /\
    map status_of (firstn (m - n) sts) = repeat Infeasible (length ks1) ++ (if pre k then [] else [Optimal]) /\
    ov m = false.
Proof.
  induction ks as [|a ks IH]; intros sts n k m H; simpl in H; [discriminate|].
  destruct (pre a) eqn:Ea.
  - destruct (ov n) eqn:Eo; [discriminate|]. injection H as <- <-.
    exists [], ks. rewrite Ea. repeat split; [constructor|simpl; lia|rewrite Nat.sub_diag; reflexivity|exact Eo].
  - destruct sts as [|y sts]; [discriminate|].
    destruct (ov (S n)) eqn:Eo; [discriminate|].
    destruct (status_of y) eqn:Ey; try discriminate.
    + injection H as <- <-. exists [], ks. rewrite Ea.
      repeat split; [constructor|simpl; lia| |exact Eo].
      replace (S n - n) with 1 by lia. simpl. rewrite Ey. reflexivity.
    + apply IH in H. destruct H as (ks1 & ks2 & -> & Hf & Hm & Hs & Ho).
      exists (a :: ks1), ks2. repeat split; [constructor; assumption|simpl; lia| |exact Ho].
      replace (m - n) with (S (m - S n)) by lia. simpl. rewrite Ey, Hs. reflexivity.
Qed.

(* prototype form: first inconclusive status after a prefix of infeasible ones (plain loops) *)
Lemma kloop_first_inconclusive ks : forall pre x post n,
  Forall (fun y => status_of y = Infeasible) pre -> conclusive (status_of x) = false ->
  fst (kloop never never ks (pre ++ x :: post) n) = NotSolved.
Proof.
  induction ks as [|k ks IH]; intros pre x post n Hp Hx; [reflexivity|].
  simpl. destruct pre as [|y pre]; simpl.
  - destruct (status_of x); simpl in Hx; try discriminate; reflexivity.
  - inversion Hp as [|? ? Hy Hp']; subst. rewrite Hy. apply IH; assumption.
Qed.

(* ------------------------------------------------------------------ MinGenSet loop *)
Lemma mgs_loop_false ks : forall sts n, mgs_loop false ks sts n = kloop never never ks sts n.
Proof.
  induction ks as [|k ks IH]; intros sts n; [reflexivity|]. simpl.
  destruct sts as [|x sts]; [reflexivity|]. destruct (status_of x); try reflexivity. apply IH.
Qed.

Lemma mgs_loop_used b ks : forall sts n r m, mgs_loop b ks sts n = (r, m) -> n <= m <= n + length sts.
Proof.
  induction ks as [|k ks IH]; intros sts n r m H; simpl in H.
  - injection H as _ <-. lia.
  - destruct sts as [|x sts]; [injection H as _ <-; simpl; lia|].
    destruct (status_of x); try (injection H as _ <-; simpl; lia); try (apply IH in H; simpl; lia).
    all: destruct b; [apply IH in H; simpl; lia|injection H as _ <-; simpl; lia].
Qed.

(* holds with and without the switch: the answer k was itself proven optimal, by the last call *)
Lemma mgs_loop_final_optimal b ks : forall sts n k m,
  mgs_loop b ks sts n = (Solved k, m) ->
  In k ks /\ n < m /\ exists x, nth_error sts (m - n - 1) = Some x /\ status_of x = Optimal.
Proof.
  induction ks as [|a ks IH]; intros sts n k m H; simpl in H; [discriminate|].
  destruct sts as [|y sts]; [discriminate|].
  assert (Hrec : mgs_loop b ks sts (S n) = (Solved k, m) ->
                 In k (a :: ks) /\ n < m /\ exists x, nth_error (y :: sts) (m - n - 1) = Some x /\ status_of x = Optimal).
  { intros H'. apply IH in H'. destruct H' as (Hi & Hm & x & Hx & Ho). split; [right; exact Hi|]. split; [lia|].
    exists x. split; [|exact Ho]. replace (m - n - 1) with (S (m - S n - 1)) by lia. exact Hx. }
  destruct (status_of y) eqn:Ey.
  - injection H as <- <-. split; [left; reflexivity|]. split; [lia|]. exists y.
    replace (S n - n - 1) with 0 by lia. split; [reflexivity|exact Ey].
  - apply Hrec, H.
  - destruct b; [apply Hrec, H|discriminate].
  - destruct b; [apply Hrec, H|discriminate].
Qed.
