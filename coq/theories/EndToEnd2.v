(* A greedy (or any) decomposition of the caller's flow into weighted source-to-sink paths of the caller's DAG
   IS a decomposition in the sense of PathEncComplete of the s-t instance kFlowDecomp builds; hence the k-model with
   k = number of those paths is feasible. *)
From Coq Require Import List NArith ZArith QArith Lqa Bool Arith Lia Permutation.
Import ListNotations.
From FP Require Import Lin Blocks BlocksProofs PathEnc Aug AugProofs Euler EulerProofs1 EulerProofs2 DagDecode PathEncProofs PathEncComplete WfCheck EndToEnd1.
From FP Require Reach ReachProofs1 Peel PeelProofs1.
Set Default Timeout 60.
Local Close Scope Q_scope.

Lemma pairs_same (p : list node) : Reach.pairs p = pairs p.
Proof.
  induction p as [|a p IH]; [reflexivity|]. destruct p as [|b r]; [reflexivity|].
  change (Reach.pairs (a :: b :: r)) with ((a, b) :: Reach.pairs (b :: r)).
  change (pairs (a :: b :: r)) with ((a, b) :: pairs (b :: r)). rewrite IH. reflexivity.
Qed.

Lemma pairs_snoc (l : list node) (x d : node) : l <> [] -> pairs (l ++ [x]) = pairs l ++ [(last l d, x)].
Proof.
  induction l as [|a l IH]; intros Hne; [contradiction|]. destruct l as [|b r]; [reflexivity|].
  change (pairs ((a :: b :: r) ++ [x])) with ((a, b) :: pairs ((b :: r) ++ [x])).
  rewrite IH by discriminate. change (pairs (a :: b :: r)) with ((a, b) :: pairs (b :: r)).
  change (last (a :: b :: r) d) with (last (b :: r) d). reflexivity.
Qed.

Lemma pairs_st (s t v0 : node) (r : list node) :
  pairs (s :: (v0 :: r) ++ [t]) = (s, v0) :: pairs (v0 :: r) ++ [(last (v0 :: r) v0, t)].
Proof.
  change (pairs (s :: (v0 :: r) ++ [t])) with ((s, v0) :: pairs ((v0 :: r) ++ [t])).
  rewrite (pairs_snoc (v0 :: r) t v0) by discriminate. reflexivity.
Qed.

Lemma last_snoc {A} (l : list A) (x d : A) : last (l ++ [x]) d = x.
Proof. apply last_last. Qed.

Lemma last_default_irrel {A} (l : list A) (d d' : A) : l <> [] -> last l d = last l d'.
Proof.
  induction l as [|a l IH]; intros Hne; [contradiction|]. destruct l as [|b r]; [reflexivity|].
  change (last (a :: b :: r) d) with (last (b :: r) d). change (last (a :: b :: r) d') with (last (b :: r) d'). apply IH. discriminate.
Qed.

Lemma sumq_nth_seq {A} (g : A -> Q) (l : list A) (d : A) :
  (sumq (fun n => g (nth n l d)) (seq 0 (length l)) == sumq g l)%Q.
Proof.
  induction l as [|a l IH]; [reflexivity|]. cbn [length seq sumq nth].
  rewrite <- seq_shift, sumq_map. cbn [nth]. rewrite IH. reflexivity.
Qed.

Lemma sumL_sumq {A} (g : A -> Z) (l : list A) : (inject_Z (Peel.sumL g l) == sumq (fun x => inject_Z (g x)) l)%Q.
Proof. induction l as [|a l IH]; cbn [Peel.sumL fold_right sumq]; [reflexivity|]. fold (Peel.sumL g l). rewrite inject_Z_plus, IH. reflexivity. Qed.

Lemma sumL_ge_member {A} (g : A -> Z) (l : list A) (x : A) : (forall y, In y l -> 0 <= g y)%Z -> In x l -> (g x <= Peel.sumL g l)%Z.
Proof.
  induction l as [|a l IH]; intros H Hx; [destruct Hx|]. cbn [Peel.sumL fold_right]. fold (Peel.sumL g l).
  assert (N0 : (0 <= Peel.sumL g l)%Z).
  { clear IH Hx. induction l as [|b l IH2]; cbn [Peel.sumL fold_right]; [lia|]. fold (Peel.sumL g l).
    pose proof (H b (or_intror (or_introl eq_refl))). assert (0 <= Peel.sumL g l)%Z by (apply IH2; intros y Hy; apply H; destruct Hy as [->|Hy]; [left; reflexivity|right; right; exact Hy]). lia. }
  destruct Hx as [->|Hx]; [lia|]. pose proof (H a (or_introl eq_refl)).
  assert (g x <= Peel.sumL g l)%Z by (apply IH; [intros y Hy; apply H; right; exact Hy|exact Hx]). lia.
Qed.

Lemma in_pairs_member (l : list node) (x : node) : (2 <= length l)%nat \/ l <> [] -> In x l -> (2 <= length l)%nat ->
  exists e, In e (pairs l) /\ (fst e = x \/ snd e = x).
Proof.
  intros _ Hx Hlen. induction l as [|a l IH]; [destruct Hx|]. destruct l as [|b r]; [cbn in Hlen; lia|].
  rewrite pairs_cons2. destruct Hx as [->|Hx].
  - exists (x, b). split; [left; reflexivity|left; reflexivity].
  - destruct r as [|c r'].
    + destruct Hx as [->|[]]. exists (a, x). split; [left; reflexivity|right; reflexivity].
    + destruct IH as (e & He & Hor); [exact Hx|cbn; lia|]. exists e. split; [right; exact He|exact Hor].
Qed.

Definition fmax (E : list edge) (f : edge -> Z) : Z := fold_right (fun e a => Z.max (f e) a) 0%Z E.
Lemma fmax_ge E f e : In e E -> (f e <= fmax E f)%Z.
Proof. unfold fmax. induction E as [|x l IH]; intros He; [destruct He|]. cbn [fold_right]. destruct He as [->|He]; [lia|]. specialize (IH He). lia. Qed.

Lemma lookup_flow (E : list edge) (f : edge -> Z) e : In e E -> lookup_q e (map (fun e => (e, inject_Z (f e))) E) 0%Q = inject_Z (f e).
Proof.
  induction E as [|x l IH]; intros He; [destruct He|]. cbn [map lookup_q].
  destruct (edge_eqb x e) eqn:X.
  - unfold edge_eqb in X. apply andb_true_iff in X. destruct X as [X1 X2]. apply N.eqb_eq in X1, X2. destruct x, e. cbn in *. subst. reflexivity.
  - destruct He as [->|He]; [|exact (IH He)]. unfold edge_eqb in X. rewrite !N.eqb_refl in X. discriminate.
Qed.

Section FromPeel.
  Variables (V : list node) (E : list edge) (s t : node).
  Variable f : edge -> Z.
  Variable topo : list node.
  Hypothesis Hs : ~ In s V.
  Hypothesis Ht : ~ In t V.
  Hypothesis Hst : s <> t.
  Hypothesis HE : forall e, In e E -> In (fst e) V /\ In (snd e) V.
  Hypothesis NDV : NoDup V.
  Hypothesis NDE : NoDup E.
  Hypothesis Htopo : forall u v, In (u, v) E -> (posn topo u < posn topo v)%nat.
  Hypothesis Hnonneg : forall e, In e E -> (0 <= f e)%Z.
  Variable D : list (list node * Z).
  Hypothesis HD1 : forall e, In e E -> Peel.explained D e = f e.
  Hypothesis HD2 : Forall (fun pw => PeelProofs1.ss_path E (fst pw) /\ (0 < snd pw)%Z) D.

  Let A := aug_edges V E [] [] s t.
  Let G := st_of V E s t.
  Let m := length D.

  Definition synth : list edge := aug_source_edges V E [] s ++ aug_sink_edges V E [] t.

  Definition e2e_inst (k : nat) : kfd_inst :=
    {| f_base := {| p_graph := G; p_k := k; p_allow_empty := false; p_cons := []; p_cov := 1%Q; p_len := None |};
       f_flow := map (fun e => (e, inject_Z (f e))) E; f_ignore := synth; f_wmax := inject_Z (fmax E f); f_int := true |}.

  Definition dP (i : N) : list node := s :: fst (nth (N.to_nat i) D ([], 0%Z)) ++ [t].
  Definition dw (i : N) : Q := inject_Z (snd (nth (N.to_nat i) D ([], 0%Z))).

  Lemma D_nth i : In i (layers m) -> In (nth (N.to_nat i) D ([], 0%Z)) D.
  Proof. intros Hi. apply in_layers in Hi. destruct Hi as (n & Hn & ->). rewrite Nat2N.id. apply nth_In. exact Hn. Qed.

  Lemma nonignored_in_E e : In e A -> mem_edge e synth = false -> In e E.
  Proof.
    intros He Hm. apply (aug_in V E [] [] s t) in He. destruct He as [He|[(u & Hu & X & ->)|(u & Hu & X & ->)]]; [exact He| |]; exfalso.
    - assert (M : mem_edge (s, u) synth = true).
      { apply mem_edge_In. unfold synth, aug_source_edges. apply in_or_app. left. apply (in_map (fun u => (s, u))). apply filter_In. auto. }
      congruence.
    - assert (M : mem_edge (u, t) synth = true).
      { apply mem_edge_In. unfold synth, aug_sink_edges. apply in_or_app. right. apply (in_map (fun u => (u, t))). apply filter_In. auto. }
      congruence.
  Qed.

  (* shape of one path of D *)
  Lemma path_shape_D pw : In pw D ->
    exists v0 r, fst pw = v0 :: r /\ pairs (v0 :: r) <> [] /\ incl (pairs (v0 :: r)) E /\
                 Peel.ins E v0 = [] /\ Peel.outs E (last (v0 :: r) v0) = [] /\ (0 < snd pw)%Z.
  Proof.
    intros Hin. rewrite Forall_forall in HD2. destruct (HD2 pw Hin) as [(Hne & Hincl & Hi & Ho) Hw].
    rewrite pairs_same in Hne, Hincl. destruct (fst pw) as [|v0 r] eqn:Ep; [exfalso; apply Hne; reflexivity|].
    exists v0, r. split; [reflexivity|]. cbn [hd] in Hi. repeat split; try assumption.
    rewrite <- Ho. f_equal. apply last_default_irrel. discriminate.
  Qed.

  Lemma dP_shape i : In i (layers m) ->
    exists v0 r w, nth (N.to_nat i) D ([], 0%Z) = (v0 :: r, w) /\ In (v0 :: r, w) D /\ dP i = s :: (v0 :: r) ++ [t] /\ dw i = inject_Z w.
  Proof.
    intros Hi. pose proof (D_nth i Hi) as Hin. destruct (path_shape_D _ Hin) as (v0 & r & Ep & _).
    destruct (nth (N.to_nat i) D ([], 0%Z)) as [p w] eqn:En. cbn [fst] in Ep. subst p.
    exists v0, r, w. split; [reflexivity|]. split; [exact Hin|]. unfold dP, dw. rewrite En. split; reflexivity.
  Qed.

  Lemma indeg0_of_ins v : Peel.ins E v = [] -> indeg0 E v = true.
  Proof.
    intros H. unfold indeg0. apply negb_true_iff. apply not_true_iff_false. intros Hex. apply existsb_exists in Hex.
    destruct Hex as (e & He & Hv). assert (Hin : In e (Peel.ins E v)) by (unfold Peel.ins; apply filter_In; split; assumption).
    rewrite H in Hin. destruct Hin.
  Qed.
  Lemma outdeg0_of_outs v : Peel.outs E v = [] -> outdeg0 E v = true.
  Proof.
    intros H. unfold outdeg0. apply negb_true_iff. apply not_true_iff_false. intros Hex. apply existsb_exists in Hex.
    destruct Hex as (e & He & Hv). assert (Hin : In e (Peel.outs E v)) by (unfold Peel.outs; apply filter_In; split; assumption).
    rewrite H in Hin. destruct Hin.
  Qed.

  Lemma path_in_A v0 r w : In (v0 :: r, w) D -> incl (pairs (s :: (v0 :: r) ++ [t])) A.
  Proof.
    intros Hin. destruct (path_shape_D _ Hin) as (v0' & r' & Ep & Hne & Hincl & Hi & Ho & _). cbn [fst] in Ep. injection Ep as <- <-.
    rewrite pairs_st. intros e He. destruct He as [<-|He].
    - apply (aug_spec_source V E [] [] s t Hs Hst HE). split.
      + destruct r as [|b' r'']; [exfalso; apply Hne; reflexivity|]. apply (HE (v0, b')). apply Hincl.
        change (pairs (v0 :: b' :: r'')) with ((v0, b') :: pairs (b' :: r'')). left. reflexivity.
      + unfold is_start. rewrite (indeg0_of_ins v0 Hi). reflexivity.
    - apply in_app_or in He. destruct He as [He|[<-|[]]].
      + apply (aug_in V E [] [] s t). left. apply Hincl. exact He.
      + apply (aug_spec_sink V E [] [] s t Ht Hst HE). split.
        * assert (Hl : In (last (v0 :: r) v0) (v0 :: r)).
          { clear. revert v0. induction r as [|b r IH]; intros v0; [left; reflexivity|].
            change (last (v0 :: b :: r) v0) with (last (b :: r) v0). rewrite (last_default_irrel (b :: r) v0 b) by discriminate.
            right. apply IH. }
          destruct r as [|b' r'']; [exfalso; apply Hne; reflexivity|].
          assert (Hall : forall x, In x (v0 :: b' :: r'') -> In x V).
          { intros x Hx. destruct (in_pairs_member (v0 :: b' :: r'') x) as (e & He' & Hx'); [right; discriminate|exact Hx|cbn; lia|].
            destruct Hx' as [<-|<-]; apply (HE e (Hincl e He')). }
          apply Hall. exact Hl.
        * unfold is_end. rewrite (outdeg0_of_outs _ Ho). reflexivity.
  Qed.

  Lemma mem_path_edge e v0 r : In e E ->
    mem_edge e (pairs (s :: (v0 :: r) ++ [t])) = Reach.memE e (Reach.pairs (v0 :: r)).
  Proof.
    intros He. destruct (HE e He) as [Hu Hv]. apply eq_true_iff_eq. split.
    - intros H. apply mem_edge_In in H. rewrite pairs_st in H. apply ReachProofs1.memE_In. rewrite pairs_same.
      destruct H as [<-|H]; [cbn in Hu; contradiction|]. apply in_app_or in H. destruct H as [H|[<-|[]]]; [exact H|cbn in Hv; contradiction].
    - intros H. apply ReachProofs1.memE_In in H. rewrite pairs_same in H. apply mem_edge_In. rewrite pairs_st.
      right. apply in_or_app. left. exact H.
  Qed.

  Lemma weight_le_fmax v0 r w : In (v0 :: r, w) D -> (0 < w <= fmax E f)%Z.
  Proof.
    intros Hin. destruct (path_shape_D _ Hin) as (v0' & r' & Ep & Hne & Hincl & _ & _ & Hw). cbn [fst snd] in *. injection Ep as <- <-.
    split; [exact Hw|]. destruct r as [|b r'']; [exfalso; apply Hne; reflexivity|].
    assert (HeE : In (v0, b) E) by (apply Hincl; change (pairs (v0 :: b :: r'')) with ((v0, b) :: pairs (b :: r'')); left; reflexivity).
    pose proof (fmax_ge E f _ HeE) as Hm. rewrite <- (HD1 _ HeE) in Hm.
    assert (Hge : (w <= Peel.explained D (v0, b))%Z).
    { unfold Peel.explained.
      pose proof (sumL_ge_member (fun pw => (snd pw * Peel.ind1 (Reach.memE (v0, b) (Reach.pairs (fst pw))))%Z) D (v0 :: b :: r'', w)) as H.
      cbn [fst snd] in H.
      assert (M : Reach.memE (v0, b) (Reach.pairs (v0 :: b :: r'')) = true).
      { apply ReachProofs1.memE_In. rewrite pairs_same. change (pairs (v0 :: b :: r'')) with ((v0, b) :: pairs (b :: r'')). left. reflexivity. }
      rewrite M in H. cbn [Peel.ind1] in H. rewrite Z.mul_1_r in H. apply H; [|exact Hin].
      intros [p' w'] Hy. cbn [fst snd]. rewrite Forall_forall in HD2. destruct (HD2 _ Hy) as [_ Hw']. cbn [snd] in Hw'.
      destruct (Reach.memE (v0, b) (Reach.pairs p')); cbn [Peel.ind1]; lia. }
    lia.
  Qed.

  Theorem peel_is_decomposition : decomposition (e2e_inst m) dP dw.
  Proof.
    unfold decomposition. cbn [e2e_inst f_base p_graph p_k f_wmax f_int f_ignore f_flow]. unfold G. cbn [st_of g_src g_snk g_edges]. fold A.
    split; [|split].
    - intros i Hi. destruct (dP_shape i Hi) as (v0 & r & w & _ & Hin & EP & _). rewrite EP.
      pose proof (path_in_A v0 r w Hin) as Hincl.
      split; [reflexivity|]. split; [change (s :: (v0 :: r) ++ [t]) with ((s :: v0 :: r) ++ [t]); apply last_snoc|].
      split; [|exact Hincl].
      destruct (rank_walk_nodup A (st_rank s t topo)
                  (st_rank_increasing V E s t Hs Ht Hst HE topo Htopo) ((v0 :: r) ++ [t]) s Hincl) as [ND _]. exact ND.
    - intros i Hi. destruct (dP_shape i Hi) as (v0 & r & w & _ & Hin & _ & Ew). rewrite Ew.
      destruct (weight_le_fmax v0 r w Hin) as [W0 W1]. split.
      + split; [change 0%Q with (inject_Z 0); rewrite <- Zle_Qle; lia|rewrite <- Zle_Qle; exact W1].
      + intros _. exists w. reflexivity.
    - intros e He Hig. pose proof (nonignored_in_E e He Hig) as HeE.
      rewrite (lookup_flow E f e HeE). rewrite <- (HD1 e HeE). unfold Peel.explained. rewrite sumL_sumq.
      unfold layers. rewrite sumq_map.
      rewrite (sumq_ext (fun n => (dw (N.of_nat n) * indq (mem_edge e (pairs (dP (N.of_nat n)))))%Q)
                        (fun n => (fun pw => (inject_Z (snd pw) * indq (mem_edge e (pairs (s :: fst pw ++ [t]))))%Q) (nth n D ([], 0%Z)))).
      2:{ intros n _. unfold dw, dP. rewrite Nat2N.id. reflexivity. }
      unfold m. rewrite (sumq_nth_seq (fun pw => (inject_Z (snd pw) * indq (mem_edge e (pairs (s :: fst pw ++ [t]))))%Q) D ([], 0%Z)).
      apply sumq_ext. intros [p w] Hpw. cbn [fst snd].
      destruct (path_shape_D _ Hpw) as (v0 & r & Ep & _). cbn [fst] in Ep. subst p.
      rewrite (mem_path_edge e v0 r HeE). rewrite inject_Z_mult.
      destruct (Reach.memE e (Reach.pairs (v0 :: r))); cbn [indq Peel.ind1]; reflexivity.
  Qed.

  (* the k-model of kFlowDecomp for k = number of peeled paths is feasible *)
  Theorem e2e_model_feasible : exists a, sat a (encode_kfd (e2e_inst m)).
  Proof.
    exists (asg dP dw (fun _ => 0%N)).
    destruct peel_is_decomposition as (HP & Hw & Hf).
    apply (kfd_complete (e2e_inst m) dP dw (fun _ => 0%N)); try assumption.
    - exact (st_of_wf V E s t Hs Ht Hst HE NDV NDE).
    - reflexivity.
    - reflexivity.
  Qed.
End FromPeel.
